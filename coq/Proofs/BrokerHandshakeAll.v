(* C10 over ALL label sequences: the handshake of one connection interleaved arbitrarily with the frames of other
   connections and with the broker's internal turns.  (Proofs/BrokerHandshake.v: the frames of one connection alone.)

   Part 0   definitions: quiet (absent, or only the untouched channel 0), touches / frame_of (the labels naming a
            connection; LHeartbeat is a frame - client_label of BrokerHandshake.v leaves it out, and a heartbeat on a
            channel other than 0 drops the connection), not_to
   Part 1   Section Frame: ONE traversal of step for any relation K between a state and its successor that writes to
            other connections' records keep (K_step), and for the frames of an opened connection (K_own_opened);
            instances: KQ (the record of a quiet connection is not written by labels that do not name it: KQ_step),
            SK (presence and stage of ANY connection are moved by the labels naming it only: SK_step, SK_own_opened)
   Part 2   no label of another connection and no internal turn emits an event addressed to a connection that no
            consumer registry names (E_step); RegShrink: predicates of queue records that survive registry shrinking
   Part 3   own_step: handshake_step of BrokerHandshake.v again, stronger (erase instead of world, ALL events are
            addressed to the connection and are handshake frames, heartbeat included)
   Part 4   HQ: every unopened connection is quiet - for every label (HQ_step); GI = Inv (BrokerConserve) + HQ
   Part 5   RI: the consumer registries - every entry is a live consumer of a channel of that connection, tags unique
            per channel, entries unique per registry - for every label (RI_step); hence NR_of_RI: no registry names
            an unopened connection (connection ids are reused: this is what makes a re-used id start clean)
   Part 6   the per-step theorems others_cannot_touch / unopened_cannot_touch
   Part 7   (a) history_reach / opened_only_in_order_interleaved
   Part 10  DI: no confirm meta names channel 0 - for every label (DI_step, through D2_step of BrokerLedger2)
   Part 8   UI = GI + RI + DI, unopened_inv, the theorems in a state with UI / in every reachable state
   Part 9   (b) from blind_step (sim_run); blind_step itself is proved in Proofs/BrokerHandshakeBlind.v
   The LAutoDelete cases are written for both renderings of that turn (delete unconditionally / only a queue that is
   still auto-delete, with if-unused). *)
From Coq Require Import List String NArith ZArith Bool Lia Permutation.
From RecordUpdate Require Import RecordUpdate.
Import ListNotations.
From GMQ Require Import Broker.Model Proofs.BrokerFrames Proofs.BrokerTags Proofs.BrokerChanInv Proofs.BrokerRelease
  Proofs.BrokerHandshake Proofs.BrokerHeld Proofs.BrokerQueueInv Proofs.BrokerRestart Proofs.BrokerLedger Proofs.BrokerLedger2
  Proofs.BrokerConserveView Proofs.BrokerConserveOps Proofs.BrokerConserve.
Open Scope N_scope.

(* ------------------------------------------------------------------ *)
(* Part 0: definitions *)

(* the record of a connection that has done nothing but (part of) the handshake *)
Definition chans0 : list (N * channel) := [(0, channel0)].
Definition rawrec (st : cstage) : conn := {| cn_chans := chans0; cn_qos := qos0; cn_stage := st |}.

(* connection c is absent, or has exactly channel 0, untouched *)
Definition quiet (s : state) (c : N) : Prop := forall cn, get_conn s c = Some cn -> cn_chans cn = chans0.

(* the labels that name connection c as the peer: its frames (heartbeats included), its socket (accept, shortcut
   connect, loss) - and the restart, which drops every connection *)
Definition touches (c : N) (l : label) : bool :=
  match l with
  | LConnect c' | LAccept c' | LSocketLoss c' => c' =? c
  | LMethod c' _ _ | LHeader c' _ _ _ _ | LBody c' _ _ | LBadMethod c' _ | LHeartbeat c' _ => c' =? c
  | LRestart => true
  | _ => false
  end.

(* the frames connection c sends *)
Definition frame_of (c : N) (l : label) : bool :=
  match l with
  | LMethod c' _ _ | LHeader c' _ _ _ _ | LBody c' _ _ | LBadMethod c' _ | LHeartbeat c' _ => c' =? c
  | _ => false
  end.

(* the three methods that move the handshake stage *)
Definition is_hs (m : meth) : bool := match m with MStartOk _ | MTuneOk _ | MConnOpen _ => true | _ => false end.

Definition to_conn (c : N) (e : event) : bool := fst (fst e) =? c.
Definition not_to (c : N) (evs : list event) : Prop := forall e, In e evs -> fst (fst e) <> c.

Lemma not_to_nil c : not_to c []. Proof. intros e []. Qed.
Lemma not_to_app c a b : not_to c a -> not_to c b -> not_to c (a ++ b).
Proof. intros Ha Hb e Hin. apply in_app_or in Hin. destruct Hin; auto. Qed.
Lemma not_to_out1 c c' h f : c' <> c -> not_to c (out1 c' h f).
Proof. intros Hn e [<-|[]]. exact Hn. Qed.

(* ------------------------------------------------------------------ *)
(* Part 1: nobody else writes the record of a quiet connection *)
Lemma quiet_chan s c h ch : quiet s c -> get_chan s c h = Some ch -> h = 0 /\ ch = channel0.
Proof.
  intros Hq Hg. unfold get_chan in Hg. destruct (get_conn s c) as [cn|] eqn:Ec; [|discriminate].
  rewrite (Hq cn Ec) in Hg. cbn in Hg. destruct (h =? 0) eqn:Eh; [|discriminate].
  apply N.eqb_eq in Eh. inversion Hg. auto.
Qed.

Lemma wake_consumer_quiet s c h tag : quiet s c -> wake_consumer s c h tag = (s, false).
Proof.
  intros Hq. unfold wake_consumer. destruct (get_chan s c h) as [ch|] eqn:E; auto.
  destruct (quiet_chan _ _ _ _ Hq E) as [-> ->]. reflexivity.
Qed.
Lemma consumer_stop_quiet s c h tag : quiet s c -> consumer_stop s c h tag = s.
Proof.
  intros Hq. unfold consumer_stop. destruct (get_chan s c h) as [ch|] eqn:E; auto.
  destruct (quiet_chan _ _ _ _ Hq E) as [-> ->]. reflexivity.
Qed.
Lemma add_confirm_quiet s c h t : quiet s c -> add_confirm s c h t = s.
Proof.
  intros Hq. unfold add_confirm. destruct (get_chan s c h) as [ch|] eqn:E; auto.
  destruct (quiet_chan _ _ _ _ Hq E) as [-> ->]. reflexivity.
Qed.
Lemma consumer_turn_quiet cfg fx s c h tag : quiet s c -> consumer_turn cfg fx s c h tag = (s, []).
Proof.
  intros Hq. unfold consumer_turn. destruct (get_chan s c h) as [ch|] eqn:E; auto.
  destruct (quiet_chan _ _ _ _ Hq E) as [-> ->]. reflexivity.
Qed.

(* One traversal of the step function for every relation K between a state and its successor that the writes to
   OTHER connections' records keep (ok1: the connections whose channel / qos writes keep it; stage writes, drops and
   new records keep it for every connection but c) *)
Section Frame.
Variable c : N.
Variable K : state -> state -> Prop.
Variable ok1 : N -> Prop.
Hypothesis ok1_ne : forall c', c' <> c -> ok1 c'.
Hypothesis K_refl : forall s, K s s.
Hypothesis K_trans : forall s1 s2 s3, K s1 s2 -> K s2 s3 -> K s1 s3.
Hypothesis K_same : forall s s', conns s' = conns s -> K s s'.
Hypothesis K_set_chan : forall s c' h ch, ok1 c' -> K s (set_chan s c' h ch).
Hypothesis K_set_qos : forall s c' cn x, ok1 c' -> get_conn s c' = Some cn -> cn_stage x = cn_stage cn -> cn_chans x = cn_chans cn ->
  K s (s <| conns := aset N.eqb c' x (conns s) |>).
Hypothesis K_ensure_chan : forall s c' h, ok1 c' -> K s (ensure_chan s c' h).
Hypothesis K_set_stage : forall s c' st, c' <> c -> K s (set_stage s c' st).
Hypothesis K_adel : forall s c', c' <> c -> K s (s <| conns := adel N.eqb c' (conns s) |>).
Hypothesis K_new : forall s c' x, c' <> c -> K s (s <| conns := aset N.eqb c' x (conns s) |>).
(* addressed by a registry entry or a confirm meta: any connection, c included *)
Hypothesis K_wake : forall s c' h tag, K s (fst (wake_consumer s c' h tag)).
Hypothesis K_consumer_stop : forall s c' h tag, K s (consumer_stop s c' h tag).
Hypothesis K_add_confirm : forall s c' h t, K s (add_confirm s c' h t).

Lemma K_upd_chan s c' h f : ok1 c' -> K s (upd_chan s c' h f).
Proof. intros Hn. unfold upd_chan. destruct (get_chan s c' h); [apply K_set_chan; auto|apply K_refl]. Qed.
Lemma K_set_queue s q v : K s (set_queue s q v). Proof. apply K_same. reflexivity. Qed.
Lemma K_upd_queue s q f : K s (upd_queue s q f). Proof. apply K_same. apply conns_upd_queue. Qed.
Lemma K_upd_msg s u f : K s (upd_msg s u f). Proof. apply K_same. apply conns_upd_msg. Qed.
Lemma K_fold {A} (f : state -> A -> state) l : (forall s a, K s (f s a)) -> forall s, K s (fold_left f l s).
Proof. intros Hf. induction l as [|a l IH]; intros s; cbn; [apply K_refl|]. eapply K_trans; [apply Hf|apply IH]. Qed.
Lemma K_fold_in {A} (f : state -> A -> state) l : (forall s a, In a l -> K s (f s a)) -> forall s, K s (fold_left f l s).
Proof.
  induction l as [|a l IH]; intros Hf s; cbn; [apply K_refl|].
  eapply K_trans; [apply Hf; left; reflexivity|apply IH]. intros s0 a0 Hin. apply Hf. right. exact Hin.
Qed.

Lemma K_queue_push s qn u : K s (queue_push s qn u). Proof. apply K_same. apply (proj1 conns_queue_ops). Qed.
Lemma K_queue_ackmsg s qn u : K s (queue_ackmsg s qn u). Proof. apply K_same. apply (proj1 (proj2 conns_queue_ops)). Qed.
Lemma K_queue_requeue s qn u : K s (queue_requeue s qn u). Proof. apply K_same. apply (proj1 (proj2 (proj2 conns_queue_ops))). Qed.
Lemma K_queue_remove_consumer s qn c' h tag : K s (queue_remove_consumer s qn c' h tag).
Proof. apply K_same. apply (proj2 (proj2 (proj2 conns_queue_ops))). Qed.
(* addressed by the label's own connection c' <> c *)
Section Other.
Variable c' : N.
Hypothesis Hn : ok1 c'.

Lemma K_wake_all s h : K s (wake_all_of_chan s c' h).
Proof. apply K_upd_chan; auto. Qed.
Lemma K_wake_consumers cfg s h : K s (wake_consumers cfg s c' h).
Proof.
  unfold wake_consumers. destruct (cfg_rabbit cfg); [apply K_wake_all|].
  destruct (get_conn _ c') as [cn|]; [|apply K_wake_all].
  eapply K_trans; [apply K_wake_all|]. apply K_fold. intros s0 x. destruct (fst x =? h); [apply K_refl|apply K_wake_all].
Qed.
Lemma K_dec_qos cfg s h u : K s (dec_qos_and_consume_next cfg s c' h u).
Proof.
  unfold dec_qos_and_consume_next. destruct (get_chan s c' h) as [ch|]; [|apply K_refl].
  eapply K_trans; [|apply K_wake_consumers].
  destruct (find_consumer ch (u_ctag u)).
  - destruct (cfg_rabbit cfg).
    + eapply K_trans; [|apply K_upd_chan; exact Hn]. apply K_upd_chan; exact Hn.
    + destruct (get_conn _ c') eqn:Ec; [eapply K_trans; [|eapply K_set_qos; [exact Hn|exact Ec|reflexivity|reflexivity]]; apply K_upd_chan; exact Hn|apply K_upd_chan; exact Hn].
  - destruct (get_conn _ c') eqn:Ec; [eapply K_trans; [|eapply K_set_qos; [exact Hn|exact Ec|reflexivity|reflexivity]]; apply K_upd_chan; exact Hn|apply K_upd_chan; exact Hn].
Qed.
End Other.

Lemma K_chan_ackmsg s u : K s (chan_ackmsg s u).
Proof. unfold chan_ackmsg. destruct (origin_queue s u); [apply K_queue_ackmsg|apply K_same; reflexivity]. Qed.
Lemma K_chan_rejectmsg s u r : K s (chan_rejectmsg s u r).
Proof.
  unfold chan_rejectmsg. destruct (origin_queue s u); [|apply K_same; reflexivity].
  destruct r; [apply K_queue_requeue|apply K_queue_ackmsg].
Qed.

Section Other2.
Variable c' : N.
Hypothesis Hn : ok1 c'.

Lemma K_handle_reject cfg s h tag mult requeue cls mth : K s (fst (handle_reject cfg s c' h tag mult requeue cls mth)).
Proof.
  unfold handle_reject. destruct (get_chan s c' h) as [ch|]; [|apply K_refl]. destruct mult; cbn [fst].
  - eapply K_trans; [|apply K_fold; intros; apply K_dec_qos; exact Hn]. apply K_fold. intros s0 a.
    eapply K_trans; [|apply K_chan_rejectmsg]. apply K_upd_chan; exact Hn.
  - destruct (find _ _); cbn [fst]; [|apply K_refl].
    eapply K_trans; [|apply K_dec_qos; exact Hn]. eapply K_trans; [|apply K_chan_rejectmsg]. apply K_upd_chan; exact Hn.
Qed.
Lemma K_handle_ack cfg s h tag mult : K s (fst (handle_ack cfg s c' h tag mult)).
Proof.
  unfold handle_ack. destruct (get_chan s c' h) as [ch|]; [|apply K_refl]. destruct mult; cbn [fst].
  - eapply K_trans; [|apply K_fold; intros; apply K_dec_qos; exact Hn]. apply K_fold. intros s0 a.
    eapply K_trans; [|apply K_chan_ackmsg]. apply K_upd_chan; exact Hn.
  - destruct (find _ _); cbn [fst]; [|apply K_refl].
    eapply K_trans; [|apply K_dec_qos; exact Hn]. eapply K_trans; [|apply K_chan_ackmsg]. apply K_upd_chan; exact Hn.
Qed.
Lemma K_channel_close cfg s h : K s (channel_close cfg s c' h).
Proof.
  unfold channel_close. destruct (get_chan s c' h) as [ch|]; [|apply K_refl].
  eapply K_trans; [|apply K_upd_chan; auto].
  assert (H1 : K s (upd_chan (fold_left (fun s cm => consumer_stop s c' h (c_tag cm)) (ch_consumers ch) s) c' h (fun ch0 => ch0 <| ch_consumers := [] |>))).
  { eapply K_trans; [|apply K_upd_chan; auto]. apply K_fold. intros; apply K_consumer_stop. }
  destruct (0 <? h); auto. eapply K_trans; [exact H1|apply K_handle_reject].
Qed.
End Other2.

Lemma K_cancel_fold l : forall s evs,
  K s (fst (fold_left (fun acc x => let '(s, evs) := acc in let '(s', e) := consumer_cancel s x in (s', evs ++ e)) l (s, evs))).
Proof.
  induction l as [|[[c0 h] tag] t IH]; intros s evs; simpl; [apply K_refl|].
  eapply K_trans; [apply K_consumer_stop|apply IH].
Qed.
Lemma K_vhost_delete_queue b s qn iu ie : K s (fst (fst (vhost_delete_queue b s qn iu ie))).
Proof.
  unfold vhost_delete_queue. destruct (get_queue s qn) as [qu|]; [|apply K_refl].
  destruct (_ || _).
  - cbn [fst]. destruct b; [apply K_set_queue|apply K_refl].
  - pose proof (K_cancel_fold (q_consumers qu) s []) as Hf.
    destruct (fold_left _ (q_consumers qu) (s, [])) as [s1 e1]. cbn [fst] in *.
    eapply K_trans; [exact Hf|]. apply K_same; destruct (q_durable qu); reflexivity.
Qed.
Lemma K_queue_loop_turn s qn : K s (queue_loop_turn s qn).
Proof.
  unfold queue_loop_turn. destruct (get_queue s qn) as [qu|]; [|apply K_refl]. destruct (negb _); [apply K_refl|].
  destruct (Nat.eqb _ 0); [apply K_set_queue|]. eapply K_trans; [|apply K_upd_queue].
  eapply K_trans; [apply K_set_queue|]. apply K_fold. intros s0 [[c0 h] tag]. apply K_wake.
Qed.
Lemma K_store_confirm s u : K s (store_confirm s u).
Proof. apply K_same. apply conns_store_confirm. Qed.
Lemma K_delete_fold b l : forall s evs,
  K s (fst (fold_left (fun acc qn => let '(s, evs) := acc in
                                    let '(s', e, _) := vhost_delete_queue b s qn false false in (s', evs ++ e)) l (s, evs))).
Proof.
  induction l as [|x t IH]; intros s evs; simpl; [apply K_refl|].
  pose proof (K_vhost_delete_queue b s x false false) as Hd.
  destruct (vhost_delete_queue b s x false false) as [[s1 e1] r1]. cbn [fst] in Hd. eapply K_trans; [exact Hd|apply IH].
Qed.

Section Other3.
Variable c' : N.
Hypothesis Hn : ok1 c'.
Hypothesis Hn2 : c' <> c.

Ltac ksame := match goal with |- K _ (@set _ _ _ _ _ ?x) => apply (K_same x); reflexivity end.
Ltac kl_leaf := first
  [ apply K_set_chan; exact Hn | apply K_upd_chan; exact Hn | apply K_set_queue | apply K_upd_queue | apply K_upd_msg
  | apply K_wake | apply K_wake_all; exact Hn | apply K_wake_consumers; exact Hn
  | apply K_queue_push | apply K_queue_requeue | apply K_queue_ackmsg | apply K_queue_remove_consumer
  | apply K_consumer_stop | apply K_dec_qos; exact Hn | apply K_add_confirm | apply K_channel_close; exact Hn
  | eapply K_set_qos; [exact Hn|eassumption|reflexivity|reflexivity] | apply K_set_stage; exact Hn2
  | ksame ].
Ltac kl_step := first
  [ apply K_refl
  | match goal with |- K _ (if ?b then _ else _) => destruct b end
  | match goal with |- K _ (match ?x with _ => _ end) => destruct x eqn:? end
  | kl_leaf
  | match goal with |- K _ ?e => match e with context [if ?b then _ else _] => destruct b end end
  | eapply K_trans; [|kl_leaf] ].
Ltac kl := repeat kl_step.

Lemma K_store_windows cfg s h tag ws : K s (store_windows cfg s c' h tag ws).
Proof. unfold store_windows. destruct ws as [|w1 [|w2 [|]]]; try apply K_refl. kl. Qed.

Lemma K_consumer_turn_other cfg fx s h tag : K s (fst (consumer_turn cfg fx s c' h tag)).
Proof.
  unfold consumer_turn.
  destruct (get_chan s c' h) as [ch|]; [|apply K_refl].
  destruct (find_consumer ch tag) as [cm|]; [|apply K_refl].
  destruct (negb (c_token cm)); [apply K_refl|].
  destruct (c_status cm); cbn [fst]; try (apply K_set_chan; exact Hn).
  all: destruct (get_queue _ (c_queue cm)) as [qu|]; cbn [fst]; try (apply K_set_chan; exact Hn).
  all: destruct (negb (q_active qu)); cbn [fst]; try (apply K_set_chan; exact Hn).
  all: destruct (q_ready qu) as [|u rest]; cbn [fst]; try (apply K_set_chan; exact Hn).
  all: match goal with |- context [if c_noack ?cm0 then (Some [], []) else ?r] => destruct (if c_noack cm0 then (Some [], []) else r) as [okr ws] end.
  all: destruct okr; cbn [fst]; [|destruct (c_noack cm); [apply K_set_chan; exact Hn|eapply K_trans; [apply K_set_chan; exact Hn|apply K_store_windows]]].
  all: match goal with |- context [wake_consumer ?st ?c0 ?h0 ?tag0] => destruct (wake_consumer st c0 h0 tag0) as [s9 b9] eqn:Ew;
         apply fst_pair in Ew; cbn [fst]; subst s9 end.
  all: eapply K_trans; [|apply K_wake].
  all: repeat first [ apply K_set_chan; exact Hn | apply K_store_windows
                    | match goal with |- K _ (if ?b then _ else _) => destruct b end
                    | match goal with |- K _ ?e => match e with context [if ?b then _ else _] => destruct b end end
                    | eapply K_trans; [|first [apply K_upd_chan; exact Hn | apply K_upd_queue | apply K_queue_ackmsg | apply K_store_windows | ksame]] ].
Qed.

Lemma K_push_one s h u pers hm qn : K s (push_one s c' h u pers hm qn).
Proof.
  unfold push_one. destruct (get_msg _ u); [|apply K_queue_push].
  destruct (_ && _ && _)%bool; [|apply K_queue_push]. eapply K_trans; [apply K_queue_push|apply K_add_confirm].
Qed.
Lemma K_route_and_push fx s h u : K s (fst (route_and_push fx s c' h u)).
Proof.
  unfold route_and_push. destruct (get_msg s u) as [m|]; [|apply K_refl].
  destruct (alookup _ _ _) as [ex|]; cbn [fst]; [|apply K_add_confirm].
  destruct (matched_queues _ _ _) as [|q1 qs]; cbn [fst]; [apply K_add_confirm|].
  eapply K_trans; [|apply K_fold; intros; apply K_push_one]. destruct (_ && _)%bool; [apply K_upd_msg|apply K_refl].
Qed.
Lemma K_finish_publish fx s h u : K s (fst (finish_publish fx s c' h u)).
Proof.
  unfold finish_publish. pose proof (K_route_and_push fx s h u) as H1.
  destruct (route_and_push fx s c' h u) as [s1 e1]. cbn [fst] in *.
  destruct (fx_clear_current fx); auto. eapply K_trans; [exact H1|apply K_upd_chan; exact Hn].
Qed.

Lemma K_handle_method cfg fx s h m : c' <> c \/ is_hs m = false -> K s (fst (fst (handle_method cfg fx s c' h m))).
Proof.
  intros Hm. unfold handle_method. destruct (get_chan s c' h) as [ch|] eqn:Hch; [|apply K_refl].
  destruct m; unfold ok, refuse.
  - destruct (ch_status ch); cbn [fst]; kl.
  - cbn [fst]. apply K_channel_close; exact Hn.
  - cbn [fst]. kl.
  - cbn [fst]. kl.
  - destruct (extype_of type); [|apply K_refl].
    repeat match goal with |- context [if ?b then _ else _] => destruct b end; cbn [fst]; try apply K_refl.
    all: repeat match goal with |- context [match ?x with _ => _ end] => destruct x end; cbn [fst]; kl.
  - destruct (fx_not_impl fx); apply K_refl.
  - destruct (seqb name ""); [apply K_refl|].
    destruct (queue_found s name) as [qu|].
    + repeat match goal with |- context [if ?b then _ else _] => destruct b end; cbn [fst]; apply K_refl.
    + destruct passive; [destruct nowait; apply K_refl|]. cbn [fst]. apply K_same; reflexivity.
  - destruct (alookup _ _ _); [|apply K_refl]. destruct (seqb ex ""); [apply K_refl|].
    destruct (queue_found s q); [|apply K_refl]. destruct (locked _ _); [apply K_refl|]. destruct (bad_xmatch _); [apply K_refl|]. destruct (extype_eqb _ ExTopic && bad_pattern _)%bool; [apply K_refl|]. cbn [fst]. kl.
  - destruct (alookup _ _ _); [|apply K_refl]. destruct (queue_found s q); [|apply K_refl]. destruct (locked _ _); [apply K_refl|]. destruct (bad_xmatch _); [apply K_refl|]. destruct (extype_eqb _ ExTopic && bad_pattern _)%bool; [apply K_refl|]. cbn [fst]. kl.
  - destruct (queue_found s q) as [qu|]; [|apply K_refl]. destruct (locked _ _); [apply K_refl|]. cbn [fst].
    apply K_same; destruct (q_durable qu); reflexivity.
  - destruct (queue_found s q); [|apply K_refl]. destruct (locked _ _); [apply K_refl|].
    pose proof (K_vhost_delete_queue (negb (fx_delete_checks_first fx)) s q ifunused ifempty) as Hd.
    destruct (vhost_delete_queue _ s q ifunused ifempty) as [[s1 e1] r1]. cbn [fst] in *.
    destruct r1; exact Hd.
  - cbn [fst]. eapply K_trans; [|apply K_wake_consumers; exact Hn]. kl.
  - (* MPublish *)
    destruct imm; [apply K_refl|]. destruct (alookup _ _ _); [|apply K_refl].
    destruct (ch_confirm ch); cbn [fst]; (eapply K_trans; [|apply K_set_chan; exact Hn]); apply K_same; reflexivity.
  - destruct (queue_found s q) as [qu|]; [|apply K_refl].
    destruct (fx_excl_owner fx && locked qu c'); [apply K_refl|].
    destruct (find_consumer ch _); [apply K_refl|].
    destruct (_ && _)%bool; cbn [fst]; kl.
  - destruct (find_consumer ch tag); [|apply K_refl]. cbn [fst]. kl.
  - (* MGet *)
    destruct (queue_found s q) as [qu|]; [|apply K_refl].
    destruct (fx_excl_owner fx && locked qu c'); [apply K_refl|].
    destruct (q_ready qu) as [|u rest]; [apply K_refl|].
    match goal with |- context [if noack then (Some [], []) else ?r] => destruct (if noack then (Some [], []) else r) as [okr ws] end.
    set (s1 := match ws with [w1; w2] => _ | _ => s end).
    assert (H1 : K s s1).
    { subst s1. destruct ws as [|w1 [|w2 [|]]]; try apply K_refl.
      destruct (get_conn _ c') eqn:Ec; kl. }
    clearbody s1.
    destruct okr; cbn [fst]; [|exact H1]. eapply K_trans; [exact H1|]. kl.
  - pose proof (K_handle_ack c' Hn cfg s h tag mult) as Ha. destruct (handle_ack cfg s c' h tag mult) as [s1 e1]. exact Ha.
  - pose proof (K_handle_reject c' Hn cfg s h tag mult requeue 60 120) as Ha.
    destruct (handle_reject cfg s c' h tag mult requeue 60 120) as [s1 e1]. exact Ha.
  - pose proof (K_handle_reject c' Hn cfg s h tag false requeue 60 90) as Ha.
    destruct (handle_reject cfg s c' h tag false requeue 60 90) as [s1 e1]. exact Ha.
  - apply K_refl.
  - cbn [fst]. kl.
  - destruct (fx_not_impl fx); apply K_refl.
  - apply K_refl.
  - apply K_refl.
  - destruct Hm as [Hm|Hm]; [|discriminate Hm]. destruct good; [cbn [fst]; apply K_set_stage; exact Hm|apply K_refl].
  - destruct Hm as [Hm|Hm]; [|discriminate Hm]. destruct within; [cbn [fst]; apply K_set_stage; exact Hm|apply K_refl].
  - destruct Hm as [Hm|Hm]; [|discriminate Hm]. destruct vhost_ok; [cbn [fst]; apply K_set_stage; exact Hm|apply K_refl].
Qed.

Lemma K_conn_close cfg fx s : K s (fst (conn_close cfg fx s c')).
Proof.
  unfold conn_close. destruct (get_conn s c') as [cn|]; [|apply K_refl].
  set (s1 := fold_left _ _ s).
  assert (H1 : K s s1) by (subst s1; apply K_fold; intros; apply K_channel_close; exact Hn).
  clearbody s1.
  pose proof (K_delete_fold (negb (fx_delete_checks_first fx))
                (map fst (filter (fun kv => q_excl (snd kv) && (q_owner (snd kv) =? c')) (queues s1))) s1 []) as Hd.
  destruct (fold_left _ _ (s1, [])) as [s2 e2]. cbn [fst] in *.
  eapply K_trans; [exact H1|]. eapply K_trans; [exact Hd|]. apply K_adel; exact Hn2.
Qed.
Lemma K_send_error s h e : K s (fst (send_error s c' h e)).
Proof. destruct e; cbn [send_error fst]; [apply K_upd_chan; exact Hn|apply K_refl]. Qed.
Lemma K_apply_err s0 s h r : K s0 (fst (fst r)) -> K s0 (fst (apply_err s c' h r)).
Proof.
  destruct r as [[s1 e1] [e|]]; cbn [fst]; auto.
  intros H. unfold apply_err. pose proof (K_send_error s1 h e) as Hs.
  destruct (send_error s1 c' h e) as [s2 e2]. cbn [fst] in *. eapply K_trans; eauto.
Qed.
Lemma K_apply_err_st cfg fx opened s0 s h r : K s0 (fst (fst r)) -> K s0 (fst (apply_err_st cfg fx opened s c' h r)).
Proof.
  intros H. unfold apply_err_st. destruct opened; [apply K_apply_err; auto|].
  destruct (snd r) as [[| ]|]; try (apply K_apply_err; auto).
  pose proof (K_apply_err s0 s h r H) as H1. destruct (apply_err s c' h r) as [s1 e1]. cbn [fst] in H1.
  pose proof (K_conn_close cfg fx s1) as H2. destruct (conn_close cfg fx s1 c') as [s2 e2]. cbn [fst] in *. eapply K_trans; eauto.
Qed.
End Other3.

Hypothesis ok1_dec : forall c', ok1 c' \/ ~ ok1 c'.
Hypothesis K_turn_nok : forall cfg fx s c' h tag, ~ ok1 c' -> K s (fst (consumer_turn cfg fx s c' h tag)).
Hypothesis K_tick_nok : forall cfg fx s c' h, ~ ok1 c' -> K s (fst (step cfg fx s (LConfirmTick c' h))).

Lemma K_consumer_turn cfg fx s c' h tag : K s (fst (consumer_turn cfg fx s c' h tag)).
Proof. destruct (ok1_dec c') as [Hn|Hn]; [apply K_consumer_turn_other; exact Hn|apply K_turn_nok; exact Hn]. Qed.

Theorem K_step cfg fx s l : touches c l = false -> K s (fst (step cfg fx s l)).
Proof.
  intros Ht. destruct l; cbn [touches] in Ht; try discriminate;
    try (assert (Hn2 : c0 <> c) by (intros ->; rewrite N.eqb_refl in Ht; discriminate); pose proof (ok1_ne c0 Hn2) as Hn).
  all: try (destruct (ok1_dec c0) as [Hn|Hn]; [|first [apply K_tick_nok; exact Hn | apply K_consumer_turn]]).
  all: cbn [step].
  - destruct (get_conn s c0); cbn [fst]; [apply K_refl|apply K_new; exact Hn2].
  - (* LMethod *)
    destruct (get_conn s c0) as [cn0|]; [|apply K_refl].
    destruct (negb _ && negb _)%bool; [apply (K_conn_close c0 Hn Hn2)|].
    pose proof (K_ensure_chan s c0 h Hn) as H0.
    destruct m.
    all: try (repeat match goal with |- context [if ?b then _ else _] => destruct b end;
              first [ exact H0 | apply (K_apply_err c0 Hn); exact H0
                    | apply (K_apply_err_st c0 Hn Hn2); first [exact H0 | eapply K_trans; [exact H0|apply (K_handle_method c0 Hn); left; exact Hn2]] ]).
    + destruct (fx_stage fx && negb (h =? 0)); [apply (K_apply_err c0 Hn); exact H0|].
      pose proof (K_conn_close c0 Hn Hn2 cfg fx (ensure_chan s c0 h)) as Hc.
      destruct (conn_close cfg fx (ensure_chan s c0 h) c0) as [s1 e1]. cbn [fst] in *. eapply K_trans; eauto.
    + destruct (fx_stage fx && negb (h =? 0)); [apply (K_apply_err c0 Hn); exact H0|].
      eapply K_trans; [exact H0|apply (K_conn_close c0 Hn Hn2)].
  - (* LHeader *)
    destruct (get_conn s c0) as [cn0|]; [|apply K_refl].
    destruct (negb _ && negb _)%bool; [apply (K_conn_close c0 Hn Hn2)|].
    pose proof (K_ensure_chan s c0 h Hn) as H0.
    destruct (get_chan _ c0 h) as [ch|]; [|exact H0].
    destruct (_ && _)%bool; [exact H0|].
    destruct (ch_cur ch) as [u|]; [|apply (K_apply_err_st c0 Hn Hn2); exact H0].
    destruct (get_msg _ u) as [m|]; [|exact H0].
    destruct (m_has_header m); [apply (K_apply_err_st c0 Hn Hn2); exact H0|].
    destruct (_ && _)%bool; cbn [fst].
    + eapply K_trans; [exact H0|]. eapply K_trans; [apply K_upd_msg|apply (K_finish_publish c0 Hn)].
    + eapply K_trans; [exact H0|apply K_upd_msg].
  - (* LBody *)
    destruct (get_conn s c0) as [cn0|]; [|apply K_refl].
    destruct (negb _ && negb _)%bool; [apply (K_conn_close c0 Hn Hn2)|].
    pose proof (K_ensure_chan s c0 h Hn) as H0.
    destruct (get_chan _ c0 h) as [ch|]; [|exact H0].
    destruct (_ && _)%bool; [exact H0|].
    destruct (ch_cur ch) as [u|]; [|apply (K_apply_err_st c0 Hn Hn2); exact H0].
    destruct (get_msg _ u) as [m|]; [|exact H0].
    destruct (negb (m_has_header m)); [apply (K_apply_err_st c0 Hn Hn2); exact H0|].
    destruct (_ <? _); [apply (K_apply_err_st c0 Hn Hn2); cbn [fst]; eapply K_trans; [exact H0|apply K_upd_chan; exact Hn]|].
    destruct (_ <? _); cbn [fst].
    + eapply K_trans; [exact H0|apply K_upd_msg].
    + eapply K_trans; [exact H0|]. eapply K_trans; [apply K_upd_msg|apply (K_finish_publish c0 Hn)].
  - apply K_consumer_turn.
  - cbn [fst]. apply K_queue_loop_turn.
  - (* LAutoDelete *)
    (* written for both renderings of the auto-delete turn: delete unconditionally / only a queue that is still
       auto-delete, with if-unused *)
    destruct (autodel s) as [|qn rest]; [apply K_refl|].
    assert (Hbase : K s (s <| autodel := rest |>)) by (apply K_same; reflexivity).
    try (destruct (get_queue _ qn) as [qu0|]; [|exact Hbase]; destruct (q_autodel qu0); [|exact Hbase]).
    match goal with |- context [vhost_delete_queue ?a ?b ?d ?e ?f] =>
      pose proof (K_vhost_delete_queue a b d e f) as Hd; destruct (vhost_delete_queue a b d e f) as [[s1 e1] r1] end.
    cbn [fst] in *. eapply K_trans; [exact Hbase|exact Hd].
  - (* LPersistTick *)
    cbn [fst]. eapply K_trans; [|apply K_fold; intros; apply K_store_confirm]. apply K_same; reflexivity.
  - (* LRelay *)
    destruct (relay s) as [|u rest]; [apply K_refl|].
    destruct (get_msg _ u) as [m|]; cbn [fst]; [|apply K_same; reflexivity].
    destruct (m_conf m) as [[[? ?] ?]|]; cbn [fst]; [|apply K_same; reflexivity].
    eapply K_trans; [|apply K_add_confirm]. apply K_same; reflexivity.
  - (* LConfirmTick *)
    destruct (get_chan s c0 h) as [ch|]; [|apply K_refl]. destruct (negb _); [apply K_refl|].
    destruct (ch_status ch); cbn [fst]; apply K_set_chan; exact Hn.
  - pose proof (K_conn_close c0 Hn Hn2 cfg fx s) as Hc. destruct (conn_close cfg fx s c0) as [s1 e1]. exact Hc.
  - destruct (get_conn s c0); cbn [fst]; [apply K_refl|apply K_new; exact Hn2].
  - (* LBadMethod *)
    destruct (get_conn s c0) as [cn0|]; [|apply K_refl].
    destruct (negb _ && negb _)%bool; [apply (K_conn_close c0 Hn Hn2)|].
    apply (K_apply_err_st c0 Hn Hn2). cbn [fst]. apply K_ensure_chan; exact Hn.
  - destruct (get_conn s c0); [|apply K_refl]. destruct (h =? 0); [apply K_refl|apply (K_conn_close c0 Hn Hn2)].
Qed.

(* the frames of c itself when c is opened: its record is written (kept, if the relation allows channel / qos writes
   of c: ok1 c) or dropped, but the stage is not moved - the three handshake methods are refused *)
Lemma K_own_opened cfg fx s l cn :
  ok1 c -> fx_stage fx = true -> get_conn s c = Some cn -> cn_stage cn = StOpen -> frame_of c l = true ->
  K s (fst (step cfg fx s l)) \/ get_conn (fst (step cfg fx s l)) c = None.
Proof.
  intros Hn Hst Ec Hso Hl.
  assert (Hop : cstage_eqb (cn_stage cn) StOpen = true) by (rewrite Hso; reflexivity).
  destruct l; cbn [frame_of] in Hl; try discriminate; apply N.eqb_eq in Hl; subst c0; cbn [step]; rewrite Ec.
  - (* LMethod *)
    rewrite Hop. cbn [negb andb].
    pose proof (K_ensure_chan s c h Hn) as H0.
    destruct m.
    all: try (left; unfold apply_err_st;
              repeat match goal with |- context [if ?b then _ else _] => destruct b end;
              first [ exact H0 | apply (K_apply_err c Hn); exact H0
                    | apply (K_apply_err c Hn); eapply K_trans; [exact H0|apply (K_handle_method c Hn); right; reflexivity] ]).
    + destruct (fx_stage fx && negb (h =? 0)); [left; apply (K_apply_err c Hn); exact H0|].
      right. pose proof (conn_close_forgets cfg fx (ensure_chan s c h) c) as Hc.
      destruct (conn_close cfg fx (ensure_chan s c h) c) as [s1 e1]. exact Hc.
    + destruct (fx_stage fx && negb (h =? 0)); [left; apply (K_apply_err c Hn); exact H0|].
      right. apply conn_close_forgets.
    + left. rewrite Hst, Hso. cbn [stage_allows cstage_eqb negb andb]. unfold apply_err_st.
      repeat match goal with |- context [if ?b then _ else _] => destruct b end;
        first [ exact H0 | apply (K_apply_err c Hn); exact H0 ].
    + left. rewrite Hst, Hso. cbn [stage_allows cstage_eqb negb andb]. unfold apply_err_st.
      repeat match goal with |- context [if ?b then _ else _] => destruct b end;
        first [ exact H0 | apply (K_apply_err c Hn); exact H0 ].
    + left. rewrite Hst, Hso. cbn [stage_allows cstage_eqb negb andb]. unfold apply_err_st.
      repeat match goal with |- context [if ?b then _ else _] => destruct b end;
        first [ exact H0 | apply (K_apply_err c Hn); exact H0 ].
  - (* LHeader *)
    rewrite Hop. cbn [negb andb]. left.
    pose proof (K_ensure_chan s c h Hn) as H0.
    destruct (get_chan _ c h) as [ch|]; [|exact H0].
    destruct (_ && _)%bool; [exact H0|]. unfold apply_err_st.
    destruct (ch_cur ch) as [u|]; [|apply (K_apply_err c Hn); exact H0].
    destruct (get_msg _ u) as [m|]; [|exact H0].
    destruct (m_has_header m); [apply (K_apply_err c Hn); exact H0|].
    destruct (_ && _)%bool; cbn [fst].
    + eapply K_trans; [exact H0|]. eapply K_trans; [apply K_upd_msg|apply (K_finish_publish c Hn)].
    + eapply K_trans; [exact H0|apply K_upd_msg].
  - (* LBody *)
    rewrite Hop. cbn [negb andb]. left.
    pose proof (K_ensure_chan s c h Hn) as H0.
    destruct (get_chan _ c h) as [ch|]; [|exact H0].
    destruct (_ && _)%bool; [exact H0|]. unfold apply_err_st.
    destruct (ch_cur ch) as [u|]; [|apply (K_apply_err c Hn); exact H0].
    destruct (get_msg _ u) as [m|]; [|exact H0].
    destruct (negb (m_has_header m)); [apply (K_apply_err c Hn); exact H0|].
    destruct (_ <? _); [apply (K_apply_err c Hn); cbn [fst]; eapply K_trans; [exact H0|apply K_upd_chan; exact Hn]|].
    destruct (_ <? _); cbn [fst].
    + eapply K_trans; [exact H0|apply K_upd_msg].
    + eapply K_trans; [exact H0|]. eapply K_trans; [apply K_upd_msg|apply (K_finish_publish c Hn)].
  - (* LBadMethod *)
    rewrite Hop. cbn [negb andb]. left. unfold apply_err_st. apply (K_apply_err c Hn). cbn [fst]. apply K_ensure_chan; exact Hn.
  - (* LHeartbeat *)
    destruct (h =? 0); [left; apply K_refl|right; apply conn_close_forgets].
Qed.
End Frame.

(* what a relation needs for the three entry points addressed through a registry entry or a confirm meta *)
Section Frame0.
Variable K : state -> state -> Prop.
Hypothesis K_refl : forall s, K s s.
Hypothesis K_trans : forall s1 s2 s3, K s1 s2 -> K s2 s3 -> K s1 s3.
Hypothesis K_same : forall s s', conns s' = conns s -> K s s'.
Variable c' : N.
Hypothesis K_set_chan : forall s h ch, K s (set_chan s c' h ch).
Lemma K0_wake s h tag : K s (fst (wake_consumer s c' h tag)).
Proof.
  unfold wake_consumer. destruct (get_chan s c' h) as [ch|]; [|apply K_refl].
  destruct (find_consumer ch tag) as [cm|]; [|apply K_refl]. destruct (consume_msg cm). cbn [fst]. apply K_set_chan.
Qed.
Lemma K0_consumer_stop s h tag : K s (consumer_stop s c' h tag).
Proof.
  unfold consumer_stop. destruct (get_chan s c' h) as [ch|]; [|apply K_refl].
  destruct (find_consumer ch tag) as [cm|]; [|apply K_refl].
  destruct (c_status cm); try apply K_refl;
    (eapply K_trans; [apply K_set_chan|apply K_same; apply (proj2 (proj2 (proj2 conns_queue_ops)))]).
Qed.
Lemma K0_add_confirm s h t : K s (add_confirm s c' h t).
Proof.
  unfold add_confirm. destruct (get_chan s c' h) as [ch|]; [|apply K_refl].
  destruct (negb _); [apply K_refl|]. destruct (ch_status ch); try apply K_refl;
    (destruct t as [[[? ?] ?]|]; [apply K_set_chan|apply K_refl]).
Qed.
End Frame0.

(* instance 1: the record of a quiet connection is kept *)
Section KeepQuiet.
Variable c : N.
Definition KQ (s s' : state) : Prop := quiet s c -> get_conn s' c = get_conn s c.

Lemma KQ_refl s : KQ s s. Proof. intros _. reflexivity. Qed.
Lemma KQ_trans s1 s2 s3 : KQ s1 s2 -> KQ s2 s3 -> KQ s1 s3.
Proof. intros H1 H2 Hq. rewrite H2; auto. intros cn E. apply Hq. rewrite <- H1; auto. Qed.
Lemma KQ_same s s' : conns s' = conns s -> KQ s s'.
Proof. intros E _. unfold get_conn. rewrite E. reflexivity. Qed.
Lemma KQ_new s c' x : c' <> c -> KQ s (s <| conns := aset N.eqb c' x (conns s) |>).
Proof.
  intros Hn _. unfold get_conn. cbn. rewrite (alookup_aset N.eqb Neqb_spec).
  destruct (c =? c') eqn:E; auto. apply N.eqb_eq in E. congruence.
Qed.
Lemma KQ_adel s c' : c' <> c -> KQ s (s <| conns := adel N.eqb c' (conns s) |>).
Proof.
  intros Hn _. unfold get_conn. cbn. rewrite (alookup_adel N.eqb Neqb_spec).
  destruct (c =? c') eqn:E; auto. apply N.eqb_eq in E. congruence.
Qed.
Lemma KQ_set_chan s c' h ch : c' <> c -> KQ s (set_chan s c' h ch).
Proof. intros Hn. unfold set_chan. destruct (get_conn s c'); [apply KQ_new; auto|apply KQ_refl]. Qed.
Lemma KQ_set_stage s c' st : c' <> c -> KQ s (set_stage s c' st).
Proof. intros Hn. unfold set_stage. destruct (get_conn s c'); [apply KQ_new; auto|apply KQ_refl]. Qed.
Lemma KQ_ensure_chan s c' h : c' <> c -> KQ s (ensure_chan s c' h).
Proof.
  intros Hn. unfold ensure_chan. destruct (get_conn s c'); [|apply KQ_refl].
  destruct (alookup _ _ _); [apply KQ_refl|apply KQ_new; auto].
Qed.
Lemma KQ_wake s c' h tag : KQ s (fst (wake_consumer s c' h tag)).
Proof.
  destruct (N.eq_dec c' c) as [->|Hn].
  - intros Hq. rewrite (wake_consumer_quiet _ _ _ _ Hq). reflexivity.
  - apply (K0_wake KQ KQ_refl). intros; apply KQ_set_chan; exact Hn.
Qed.
Lemma KQ_consumer_stop s c' h tag : KQ s (consumer_stop s c' h tag).
Proof.
  destruct (N.eq_dec c' c) as [->|Hn].
  - intros Hq. rewrite (consumer_stop_quiet _ _ _ _ Hq). reflexivity.
  - apply (K0_consumer_stop KQ KQ_refl KQ_trans KQ_same). intros; apply KQ_set_chan; exact Hn.
Qed.
Lemma KQ_add_confirm s c' h t : KQ s (add_confirm s c' h t).
Proof.
  destruct (N.eq_dec c' c) as [->|Hn].
  - intros Hq. rewrite (add_confirm_quiet _ _ _ _ Hq). reflexivity.
  - apply (K0_add_confirm KQ KQ_refl). intros; apply KQ_set_chan; exact Hn.
Qed.

Theorem KQ_step cfg fx s l : touches c l = false -> KQ s (fst (step cfg fx s l)).
Proof.
  apply (K_step c KQ (fun c' => c' <> c)); auto.
  - exact KQ_refl.
  - exact KQ_trans.
  - exact KQ_same.
  - intros; apply KQ_set_chan; auto.
  - intros; apply KQ_new; auto.
  - intros; apply KQ_ensure_chan; auto.
  - intros; apply KQ_set_stage; auto.
  - intros; apply KQ_adel; auto.
  - intros; apply KQ_new; auto.
  - exact KQ_wake.
  - exact KQ_consumer_stop.
  - exact KQ_add_confirm.
  - intros c'. destruct (N.eq_dec c' c); auto.
  - intros cfg0 fx0 s0 c' h tag Hn. assert (c' = c) by (destruct (N.eq_dec c' c); [auto|contradiction]). subst c'.
    intros Hq. rewrite (consumer_turn_quiet _ _ _ _ _ _ Hq). reflexivity.
  - intros cfg0 fx0 s0 c' h Hn. assert (c' = c) by (destruct (N.eq_dec c' c); [auto|contradiction]). subst c'.
    intros Hq. cbn [step]. destruct (get_chan s0 c h) as [ch|] eqn:E; [|reflexivity].
    destruct (quiet_chan _ _ _ _ Hq E) as [-> ->]. reflexivity.
Qed.
End KeepQuiet.

(* instance 2: the presence and the stage of ANY connection are kept *)
Section KeepStage.
Variable c : N.
Definition stage_of (s : state) (c0 : N) : option cstage := option_map cn_stage (get_conn s c0).
Definition SK (s s' : state) : Prop := stage_of s' c = stage_of s c.

Lemma SK_refl s : SK s s. Proof. reflexivity. Qed.
Lemma SK_trans s1 s2 s3 : SK s1 s2 -> SK s2 s3 -> SK s1 s3.
Proof. unfold SK. congruence. Qed.
Lemma SK_same s s' : conns s' = conns s -> SK s s'.
Proof. intros E. unfold SK, stage_of, get_conn. rewrite E. reflexivity. Qed.
Lemma SK_new s c' x : c' <> c -> SK s (s <| conns := aset N.eqb c' x (conns s) |>).
Proof.
  intros Hn. unfold SK, stage_of, get_conn. cbn. rewrite (alookup_aset N.eqb Neqb_spec).
  destruct (c =? c') eqn:E; auto. apply N.eqb_eq in E. congruence.
Qed.
Lemma SK_adel s c' : c' <> c -> SK s (s <| conns := adel N.eqb c' (conns s) |>).
Proof.
  intros Hn. unfold SK, stage_of, get_conn. cbn. rewrite (alookup_adel N.eqb Neqb_spec).
  destruct (c =? c') eqn:E; auto. apply N.eqb_eq in E. congruence.
Qed.
Lemma SK_set_qos s c' cn x : get_conn s c' = Some cn -> cn_stage x = cn_stage cn -> SK s (s <| conns := aset N.eqb c' x (conns s) |>).
Proof.
  intros Ec' Hs. destruct (N.eq_dec c' c) as [->|Hn]; [|apply SK_new; exact Hn].
  unfold SK, stage_of. rewrite Ec'. unfold get_conn. cbn. rewrite (alookup_aset N.eqb Neqb_spec), N.eqb_refl. cbn. rewrite Hs. reflexivity.
Qed.
Lemma SK_set_chan s c' h ch : SK s (set_chan s c' h ch).
Proof. unfold set_chan. destruct (get_conn s c') eqn:Ec; [eapply SK_set_qos; [exact Ec|reflexivity]|apply SK_refl]. Qed.
Lemma SK_set_stage s c' st : c' <> c -> SK s (set_stage s c' st).
Proof. intros Hn. unfold set_stage. destruct (get_conn s c'); [apply SK_new; auto|apply SK_refl]. Qed.
Lemma SK_ensure_chan s c' h : SK s (ensure_chan s c' h).
Proof.
  unfold ensure_chan. destruct (get_conn s c') eqn:Ec; [|apply SK_refl].
  destruct (alookup _ _ _); [apply SK_refl|eapply SK_set_qos; [exact Ec|reflexivity]].
Qed.
Lemma SK_wake s c' h tag : SK s (fst (wake_consumer s c' h tag)).
Proof. apply (K0_wake SK SK_refl). intros; apply SK_set_chan. Qed.
Lemma SK_consumer_stop s c' h tag : SK s (consumer_stop s c' h tag).
Proof. apply (K0_consumer_stop SK SK_refl SK_trans SK_same). intros; apply SK_set_chan. Qed.
Lemma SK_add_confirm s c' h t : SK s (add_confirm s c' h t).
Proof. apply (K0_add_confirm SK SK_refl). intros; apply SK_set_chan. Qed.

Theorem SK_step cfg fx s l : touches c l = false -> SK s (fst (step cfg fx s l)).
Proof.
  apply (K_step c SK (fun _ => True)); auto.
  - exact SK_refl.
  - exact SK_trans.
  - exact SK_same.
  - intros; apply SK_set_chan.
  - intros; eapply SK_set_qos; eauto.
  - intros; apply SK_ensure_chan.
  - intros; apply SK_set_stage; auto.
  - intros; apply SK_adel; auto.
  - intros; apply SK_new; auto.
  - exact SK_wake.
  - exact SK_consumer_stop.
  - exact SK_add_confirm.
  - intros ? ? ? ? ? ? Hn. exfalso. apply Hn. exact I.
  - intros ? ? ? ? ? Hn. exfalso. apply Hn. exact I.
Qed.

Theorem SK_own_opened cfg fx s l cn :
  fx_stage fx = true -> get_conn s c = Some cn -> cn_stage cn = StOpen -> frame_of c l = true ->
  SK s (fst (step cfg fx s l)) \/ get_conn (fst (step cfg fx s l)) c = None.
Proof.
  apply (K_own_opened c SK (fun _ => True)); auto.
  all: first [ exact SK_refl | exact SK_trans | exact SK_same | exact SK_wake | exact SK_consumer_stop | exact SK_add_confirm
             | intros; apply SK_set_chan | intros; apply SK_ensure_chan | intros; apply SK_set_stage; assumption
             | intros; eapply SK_set_qos; eassumption ].
Qed.
End KeepStage.


(* ------------------------------------------------------------------ *)
(* Part 2: no label of another connection and no internal turn sends anything to a connection that no consumer
   registry names *)

(* a predicate of queue records that survives whatever keeps or shrinks the consumer registry *)
Section RegShrink.
Variable P : queue -> Prop.
Hypothesis P_shrink : forall qu qu', (forall x, In x (q_consumers qu') -> In x (q_consumers qu)) -> P qu -> P qu'.

Lemma remove_first_in {A} (p : A -> bool) l x : In x (remove_first p l) -> In x l.
Proof. induction l as [|a t IH]; cbn; auto. destruct (p a); cbn; intuition. Qed.

Ltac rs_set Eq H := apply allq_set_queue; [eapply P_shrink; [|exact (allq_get _ _ _ _ H Eq)]; cbn; auto|].

Lemma RS_queue_remove_consumer s qn c h tag : allq P s -> allq P (queue_remove_consumer s qn c h tag).
Proof.
  intros H. unfold queue_remove_consumer. destruct (get_queue s qn) as [qu|] eqn:Eq; auto.
  set (cs := remove_first _ _).
  assert (Hcs : forall x, In x cs -> In x (q_consumers qu)) by (intros x; apply remove_first_in).
  assert (H1 : forall qu', q_consumers qu' = cs -> allq P (set_queue s qn qu')).
  { intros qu' E. apply allq_set_queue; auto. eapply P_shrink; [|exact (allq_get _ _ _ _ H Eq)]. rewrite E. exact Hcs. }
  match goal with |- allq P (if ?b then _ else _) => destruct b end;
    [match goal with |- allq P (@set _ _ _ _ _ ?s0) => apply (allq_same_queues _ s0); [reflexivity|] end|];
    apply H1; destruct (Nat.eqb _ 0); reflexivity.
Qed.
Lemma RS_consumer_stop s c h tag : allq P s -> allq P (consumer_stop s c h tag).
Proof.
  intros H. unfold consumer_stop. destruct (get_chan s c h) as [ch|]; auto.
  destruct (find_consumer ch tag) as [cm|]; auto.
  destruct (c_status cm); auto; apply RS_queue_remove_consumer; sq.
Qed.
Lemma RS_queue_ackmsg s qn u : allq P s -> allq P (queue_ackmsg s qn u).
Proof.
  intros H. unfold queue_ackmsg. destruct (get_queue s qn) as [qu|] eqn:Eq; auto.
  destruct (get_msg s u) as [m|]; auto. destruct (negb (q_active qu)); auto.
  rs_set Eq H. sq.
Qed.
Lemma RS_queue_requeue s qn u : allq P s -> allq P (queue_requeue s qn u).
Proof.
  intros H. unfold queue_requeue. destruct (get_queue s qn) as [qu|] eqn:Eq; auto.
  destruct (negb (q_active qu)); auto.
  apply allq_set_queue; [eapply P_shrink; [|exact (allq_get _ _ _ _ H Eq)]; unfold call_consumers; destruct (q_active _); cbn; auto|].
  sq. eapply allq_same_queues; [apply store_writeback_frame|exact H].
Qed.
Lemma RS_chan_ackmsg s u : allq P s -> allq P (chan_ackmsg s u).
Proof. intros H. unfold chan_ackmsg. destruct (origin_queue s u); [apply RS_queue_ackmsg; auto|sq]. Qed.
Lemma RS_chan_rejectmsg s u r : allq P s -> allq P (chan_rejectmsg s u r).
Proof.
  intros H. unfold chan_rejectmsg. destruct (origin_queue s u).
  - destruct r; [apply RS_queue_requeue|apply RS_queue_ackmsg]; auto.
  - sq.
Qed.
Lemma RS_dec_qos cfg s c h u : allq P s -> allq P (dec_qos_and_consume_next cfg s c h u).
Proof.
  intros H. unfold dec_qos_and_consume_next. destruct (get_chan s c h) as [ch|]; auto.
  same_queues. sq.
Qed.
Lemma RS_handle_reject cfg s c h tag mult requeue cls mth :
  allq P s -> allq P (fst (handle_reject cfg s c h tag mult requeue cls mth)).
Proof.
  intros H. unfold handle_reject. destruct (get_chan s c h) as [ch|]; auto.
  destruct mult.
  - cbn [fst]. apply fold_left_preserves; [intros; apply RS_dec_qos; auto|].
    apply fold_left_preserves; auto. intros s0 a H0. apply RS_chan_rejectmsg. sq.
  - destruct (find _ _); cbn [fst]; auto. apply RS_dec_qos. apply RS_chan_rejectmsg. sq.
Qed.
Lemma RS_channel_close cfg s c h : allq P s -> allq P (channel_close cfg s c h).
Proof.
  intros H. unfold channel_close. destruct (get_chan s c h) as [ch|]; auto.
  same_queues.
  assert (H1 : allq P (upd_chan (fold_left (fun s cm => consumer_stop s c h (c_tag cm)) (ch_consumers ch) s) c h
                     (fun ch => ch <| ch_consumers := [] |>))).
  { same_queues. apply fold_left_preserves; auto. intros; apply RS_consumer_stop; auto. }
  destruct (0 <? h); auto. apply RS_handle_reject; auto.
Qed.
Lemma RS_cancel_fold l : forall s evs, allq P s ->
  allq P (fst (fold_left (fun acc x => let '(s, evs) := acc in let '(s', e) := consumer_cancel s x in (s', evs ++ e)) l (s, evs))).
Proof.
  induction l as [|[[c h] tag] t IH]; intros s evs H; simpl; auto. apply IH. apply RS_consumer_stop; auto.
Qed.
Lemma RS_vhost_delete_queue b s qn iu ie : allq P s -> allq P (fst (fst (vhost_delete_queue b s qn iu ie))).
Proof.
  intros H. unfold vhost_delete_queue. destruct (get_queue s qn) as [qu|] eqn:Eq; auto.
  destruct (_ || _).
  - cbn [fst]. destruct b; auto. rs_set Eq H. exact H.
  - pose proof (RS_cancel_fold (q_consumers qu) s [] H) as Hf.
    destruct (fold_left _ (q_consumers qu) (s, [])) as [s1 e1]. cbn [fst] in *.
    apply allq_del_queue.
    assert (H2 : allq P (if q_durable qu then store_purge s1 qn else s1)) by (unfold store_purge; sq).
    sq.
Qed.
Lemma RS_delete_fold b l : forall s evs, allq P s ->
  allq P (fst (fold_left (fun acc qn => let '(s, evs) := acc in
                                    let '(s', e, _) := vhost_delete_queue b s qn false false in (s', evs ++ e)) l (s, evs))).
Proof.
  induction l as [|x t IH]; intros s evs H; simpl; auto.
  pose proof (RS_vhost_delete_queue b s x false false H) as Hd.
  destruct (vhost_delete_queue b s x false false) as [[s1 e1] r1]. cbn [fst] in Hd. apply IH. exact Hd.
Qed.
End RegShrink.

Definition noregq (c : N) (qu : queue) : Prop := forall x, In x (q_consumers qu) -> fst (fst x) <> c.
Definition noreg (c : N) (s : state) : Prop := allq (noregq c) s.
Lemma noregq_shrink c : forall qu qu', (forall x, In x (q_consumers qu') -> In x (q_consumers qu)) -> noregq c qu -> noregq c qu'.
Proof. intros qu qu' Hs H x Hin. apply H. apply Hs. exact Hin. Qed.
Lemma noreg_same_queues c s s' : queues s' = queues s -> noreg c s -> noreg c s'.
Proof. apply allq_same_queues. Qed.

Section Events.
Variable c : N.

Lemma E_content_frames s c' h u : c' <> c -> not_to c (content_frames s c' h u).
Proof.
  intros Hn. unfold content_frames. destruct (get_msg s u) as [m|]; [|apply not_to_nil].
  intros e [<-|Hin]; [exact Hn|]. apply in_map_iff in Hin. destruct Hin as (l & <- & _). exact Hn.
Qed.
Lemma E_cancel_fold l : forall s evs, (forall x, In x l -> fst (fst x) <> c) -> not_to c evs ->
  not_to c (snd (fold_left (fun acc x => let '(s, evs) := acc in let '(s', e) := consumer_cancel s x in (s', evs ++ e)) l (s, evs))).
Proof.
  induction l as [|[[c0 h] tag] t IH]; intros s evs Hl He; simpl; auto.
  apply IH; [intros x Hx; apply Hl; right; exact Hx|].
  apply not_to_app; auto. apply not_to_out1. apply (Hl (c0, h, tag)). left. reflexivity.
Qed.
Lemma E_vhost_delete_queue b s qn iu ie : noreg c s -> not_to c (snd (fst (vhost_delete_queue b s qn iu ie))).
Proof.
  intros H. unfold vhost_delete_queue. destruct (get_queue s qn) as [qu|] eqn:Eq; [|apply not_to_nil].
  destruct (_ || _); [apply not_to_nil|].
  pose proof (E_cancel_fold (q_consumers qu) s [] (allq_get _ _ _ _ H Eq) (not_to_nil c)) as Hf.
  destruct (fold_left _ (q_consumers qu) (s, [])) as [s1 e1]. cbn [fst snd] in *. exact Hf.
Qed.
Lemma E_delete_fold b l : forall s evs, noreg c s -> not_to c evs ->
  not_to c (snd (fold_left (fun acc qn => let '(s, evs) := acc in
                                    let '(s', e, _) := vhost_delete_queue b s qn false false in (s', evs ++ e)) l (s, evs))).
Proof.
  induction l as [|x t IH]; intros s evs H He; simpl; auto.
  pose proof (RS_vhost_delete_queue _ (noregq_shrink c) b s x false false H) as Hd.
  pose proof (E_vhost_delete_queue b s x false false H) as Hv.
  destruct (vhost_delete_queue b s x false false) as [[s1 e1] r1]. cbn [fst snd] in *. apply IH; auto. apply not_to_app; auto.
Qed.

Section EOther.
Variable c' : N.
Hypothesis Hn : c' <> c.

Lemma E_conn_close cfg fx s : noreg c s -> not_to c (snd (conn_close cfg fx s c')).
Proof.
  intros H. unfold conn_close. destruct (get_conn s c') as [cn|]; [|apply not_to_nil].
  set (s1 := fold_left _ _ s).
  assert (H1 : noreg c s1).
  { subst s1. apply fold_left_preserves; auto. intros s0 h0 H0. apply RS_channel_close; auto. apply noregq_shrink. }
  clearbody s1.
  pose proof (E_delete_fold (negb (fx_delete_checks_first fx))
                (map fst (filter (fun kv => q_excl (snd kv) && (q_owner (snd kv) =? c')) (queues s1))) s1 [] H1 (not_to_nil c)) as Hd.
  destruct (fold_left _ _ (s1, [])) as [s2 e2]. cbn [fst snd] in *.
  apply not_to_app; auto. apply not_to_out1. exact Hn.
Qed.

Ltac ev := repeat first
  [ apply not_to_nil | apply not_to_out1; exact Hn | apply E_content_frames; exact Hn
  | apply not_to_app
  | match goal with |- not_to _ (if ?b then _ else _) => destruct b end
  | match goal with |- not_to _ (match ?x with _ => _ end) => destruct x end ].

Lemma E_consumer_turn cfg fx s h tag : not_to c (snd (consumer_turn cfg fx s c' h tag)).
Proof.
  unfold consumer_turn.
  destruct (get_chan s c' h) as [ch|]; [|apply not_to_nil].
  destruct (find_consumer ch tag) as [cm|]; [|apply not_to_nil].
  destruct (negb (c_token cm)); [apply not_to_nil|].
  destruct (c_status cm); cbn [snd]; try apply not_to_nil.
  all: destruct (get_queue _ (c_queue cm)) as [qu|]; cbn [snd]; try apply not_to_nil.
  all: destruct (negb (q_active qu)); cbn [snd]; try apply not_to_nil.
  all: destruct (q_ready qu) as [|u rest]; cbn [snd]; try apply not_to_nil.
  all: match goal with |- context [if c_noack ?cm0 then (Some [], []) else ?r] => destruct (if c_noack cm0 then (Some [], []) else r) as [okr ws] end.
  all: destruct okr; cbn [snd]; [|apply not_to_nil].
  all: match goal with |- context [wake_consumer ?st ?c0 ?h0 ?tag0] => destruct (wake_consumer st c0 h0 tag0) as [s9 b9] end; cbn [snd].
  all: ev.
Qed.
Lemma E_route_and_push fx s h u : not_to c (snd (route_and_push fx s c' h u)).
Proof.
  unfold route_and_push. destruct (get_msg s u) as [m|]; [|apply not_to_nil].
  destruct (alookup _ _ _) as [ex|]; cbn [snd]; [|ev].
  destruct (matched_queues _ _ _) as [|q1 qs]; cbn [snd]; ev.
Qed.
Lemma E_finish_publish fx s h u : not_to c (snd (finish_publish fx s c' h u)).
Proof.
  unfold finish_publish. pose proof (E_route_and_push fx s h u) as H1.
  destruct (route_and_push fx s c' h u) as [s1 e1]. exact H1.
Qed.
Lemma E_send_error s h e : not_to c (snd (send_error s c' h e)).
Proof. destruct e; cbn [send_error snd]; ev. Qed.
Lemma E_apply_err s h r : not_to c (snd (fst r)) -> not_to c (snd (apply_err s c' h r)).
Proof.
  destruct r as [[s1 e1] [e|]]; cbn [fst snd]; auto.
  intros H. unfold apply_err. pose proof (E_send_error s1 h e) as Hs.
  destruct (send_error s1 c' h e) as [s2 e2]. cbn [snd] in *. apply not_to_app; auto.
Qed.
(* the connection is dropped after the error: the state the error leaves must still name c in no registry *)
Lemma E_apply_err_st cfg fx opened s h r :
  noreg c (fst (fst r)) -> not_to c (snd (fst r)) -> not_to c (snd (apply_err_st cfg fx opened s c' h r)).
Proof.
  intros Hr H. unfold apply_err_st. destruct opened; [apply E_apply_err; auto|].
  destruct (snd r) as [[| ]|] eqn:Er; try (apply E_apply_err; auto).
  pose proof (E_apply_err s h r H) as H1.
  assert (Hq : queues (fst (apply_err s c' h r)) = queues (fst (fst r))).
  { destruct r as [[s1 e1] e]. cbn [snd] in Er. subst e. reflexivity. }
  destruct (apply_err s c' h r) as [s1 e1]. cbn [fst snd] in *.
  pose proof (E_conn_close cfg fx s1 (noreg_same_queues _ _ _ Hq Hr)) as H2.
  destruct (conn_close cfg fx s1 c') as [s2 e2]. cbn [snd] in *. apply not_to_app; auto.
Qed.

Lemma E_handle_method cfg fx s h m : noreg c s -> not_to c (snd (fst (handle_method cfg fx s c' h m))).
Proof.
  intros H. unfold handle_method. destruct (get_chan s c' h) as [ch|] eqn:Hch; [|apply not_to_nil].
  destruct m; unfold ok, refuse.
  11:{ (* queue.delete *)
    destruct (queue_found s q); [|apply not_to_nil]. destruct (locked _ _); [apply not_to_nil|].
    pose proof (E_vhost_delete_queue (negb (fx_delete_checks_first fx)) s q ifunused ifempty H) as Hd.
    destruct (vhost_delete_queue _ s q ifunused ifempty) as [[s1 e1] r1]. cbn [fst snd] in *.
    destruct r1; cbn [fst snd]; ev; auto. }
  15:{ (* basic.get *)
    destruct (queue_found s q) as [qu|]; [|apply not_to_nil].
    destruct (fx_excl_owner fx && locked qu c'); [apply not_to_nil|].
    destruct (q_ready qu) as [|u rest]; [cbn [fst snd]; ev|].
    match goal with |- context [if noack then (Some [], []) else ?r] => destruct (if noack then (Some [], []) else r) as [okr ws] end.
    destruct okr; cbn [fst snd]; ev. }
  all: repeat match goal with
              | |- context [let '(_, _) := ?x in _] => destruct x
              | |- not_to _ (snd (fst (if ?b then _ else _))) => destruct b
              | |- not_to _ (snd (fst (match ?x with _ => _ end))) => destruct x
              end; cbn [fst snd]; ev.
Qed.

Lemma noreg_handshake_method cfg fx s h m : is_conn_class m = true -> noreg c s -> noreg c (fst (fst (handle_method cfg fx s c' h m))).
Proof.
  intros Hc H. unfold handle_method. destruct (get_chan s c' h) as [ch|]; [|exact H].
  destruct m; try discriminate Hc; unfold ok, refuse; cbn [fst]; auto.
  - destruct good; cbn [fst]; auto. eapply noreg_same_queues; [apply queues_set_stage|exact H].
  - destruct within; cbn [fst]; auto. eapply noreg_same_queues; [apply queues_set_stage|exact H].
  - destruct vhost_ok; cbn [fst]; auto. eapply noreg_same_queues; [apply queues_set_stage|exact H].
Qed.

Lemma E_generic cfg fx st s h m :
  fx_stage fx = true -> (cstage_eqb st StOpen = false -> h = 0) -> noreg c s ->
  not_to c (snd (step_generic cfg fx st s c' h m)).
Proof.
  intros Hst Hh H. unfold step_generic. rewrite Hst. cbn [andb].
  destruct (fx_discard_closing fx && _ && _)%bool; [apply not_to_nil|].
  destruct (negb (Bool.eqb _ _)) eqn:E1; [apply E_apply_err_st; [exact H|apply not_to_nil]|].
  destruct (negb (stage_allows _ _)); [apply E_apply_err_st; [exact H|apply not_to_nil]|].
  destruct (_ && _ && _)%bool; [apply E_apply_err; apply not_to_nil|].
  destruct (cstage_eqb st StOpen) eqn:Eo.
  - unfold apply_err_st. apply E_apply_err. apply E_handle_method; exact H.
  - apply E_apply_err_st; [|apply E_handle_method; exact H].
    apply noreg_handshake_method; [|exact H]. rewrite (Hh eq_refl) in E1. cbn [N.eqb] in E1.
    destruct (is_conn_class m); [reflexivity|discriminate E1].
Qed.
End EOther.

Theorem E_step cfg fx s l :
  fx_stage fx = true -> touches c l = false -> quiet s c -> noreg c s -> not_to c (snd (step cfg fx s l)).
Proof.
  intros Hst Ht Hq H. destruct l; cbn [touches] in Ht; try discriminate;
    try (assert (Hn : c0 <> c) by (intros ->; rewrite N.eqb_refl in Ht; discriminate)); cbn [step].
  - destruct (get_conn s c0); apply not_to_nil.
  - (* LMethod *)
    destruct (get_conn s c0) as [cn0|]; [|apply not_to_nil].
    destruct (negb _ && negb _)%bool eqn:E1; [apply E_conn_close; auto|].
    assert (H0 : noreg c (ensure_chan s c0 h)) by (eapply noreg_same_queues; [apply queues_ensure_chan|exact H]).
    assert (Hh : cstage_eqb (cn_stage cn0) StOpen = false -> h = 0).
    { intros E. rewrite E in E1. cbn [negb andb] in E1. apply Bool.negb_false_iff in E1. apply N.eqb_eq in E1. exact E1. }
    destruct m.
    all: try (apply (E_generic c0 Hn cfg fx (cn_stage cn0) (ensure_chan s c0 h) h); assumption).
    + destruct (fx_stage fx && negb (h =? 0)); [apply (E_apply_err c0 Hn); apply not_to_nil|].
      pose proof (E_conn_close c0 Hn cfg fx _ H0) as Hc.
      destruct (conn_close cfg fx (ensure_chan s c0 h) c0) as [s1 e1]. cbn [snd] in *.
      apply not_to_app; auto. apply not_to_out1. exact Hn.
    + destruct (fx_stage fx && negb (h =? 0)); [apply (E_apply_err c0 Hn); apply not_to_nil|]. apply E_conn_close; auto.
  - (* LHeader *)
    destruct (get_conn s c0) as [cn0|]; [|apply not_to_nil].
    destruct (negb _ && negb _)%bool; [apply E_conn_close; auto|].
    assert (H0 : noreg c (ensure_chan s c0 h)) by (eapply noreg_same_queues; [apply queues_ensure_chan|exact H]).
    destruct (get_chan _ c0 h) as [ch|]; [|apply not_to_nil].
    destruct (_ && _)%bool; [apply not_to_nil|].
    destruct (ch_cur ch) as [u|]; [|apply E_apply_err_st; [exact Hn|exact H0|apply not_to_nil]].
    destruct (get_msg _ u) as [m|]; [|apply not_to_nil].
    destruct (m_has_header m); [apply E_apply_err_st; [exact Hn|exact H0|apply not_to_nil]|].
    destruct (_ && _)%bool; [apply E_finish_publish; exact Hn|apply not_to_nil].
  - (* LBody *)
    destruct (get_conn s c0) as [cn0|]; [|apply not_to_nil].
    destruct (negb _ && negb _)%bool; [apply E_conn_close; auto|].
    assert (H0 : noreg c (ensure_chan s c0 h)) by (eapply noreg_same_queues; [apply queues_ensure_chan|exact H]).
    destruct (get_chan _ c0 h) as [ch|]; [|apply not_to_nil].
    destruct (_ && _)%bool; [apply not_to_nil|].
    destruct (ch_cur ch) as [u|]; [|apply E_apply_err_st; [exact Hn|exact H0|apply not_to_nil]].
    destruct (get_msg _ u) as [m|]; [|apply not_to_nil].
    destruct (negb (m_has_header m)); [apply E_apply_err_st; [exact Hn|exact H0|apply not_to_nil]|].
    destruct (_ <? _); [apply E_apply_err_st; [exact Hn| |apply not_to_nil]|].
    { cbn [fst]. eapply noreg_same_queues; [apply queues_upd_chan|exact H0]. }
    destruct (_ <? _); [apply not_to_nil|apply E_finish_publish; exact Hn].
  - (* LConsumerTurn *)
    destruct (N.eq_dec c0 c) as [->|Hn].
    + rewrite (consumer_turn_quiet _ _ _ _ _ _ Hq). apply not_to_nil.
    + apply E_consumer_turn; exact Hn.
  - apply not_to_nil.
  - (* LAutoDelete *)
    destruct (autodel s) as [|qn rest]; [apply not_to_nil|].
    try (destruct (get_queue _ qn) as [qu0|]; [|apply not_to_nil]; destruct (q_autodel qu0); [|apply not_to_nil]).
    match goal with |- context [vhost_delete_queue ?a ?b ?d ?e ?f] =>
      pose proof (E_vhost_delete_queue a b d e f H) as Hd; destruct (vhost_delete_queue a b d e f) as [[s1 e1] r1] end. exact Hd.
  - apply not_to_nil.
  - (* LRelay *)
    destruct (relay s) as [|u rest]; [apply not_to_nil|].
    destruct (get_msg _ u) as [m|]; [|apply not_to_nil].
    destruct (m_conf m) as [[[? ?] ?]|]; apply not_to_nil.
  - (* LConfirmTick *)
    destruct (get_chan s c0 h) as [ch|] eqn:E; [|apply not_to_nil]. destruct (negb _) eqn:Et; [apply not_to_nil|].
    destruct (N.eq_dec c0 c) as [->|Hn].
    + destruct (quiet_chan _ _ _ _ Hq E) as [-> ->]. discriminate Et.
    + destruct (ch_status ch); cbn [snd]; try apply not_to_nil;
        intros e Hin; apply in_map_iff in Hin; destruct Hin as (t & <- & _); exact Hn.
  - pose proof (E_conn_close c0 Hn cfg fx s H) as Hc. destruct (conn_close cfg fx s c0) as [s1 e1]. exact Hc.
  - destruct (get_conn s c0); [apply not_to_nil|apply not_to_out1; exact Hn].
  - (* LBadMethod *)
    destruct (get_conn s c0) as [cn0|]; [|apply not_to_nil].
    destruct (negb _ && negb _)%bool; [apply E_conn_close; auto|].
    apply E_apply_err_st; [exact Hn| |apply not_to_nil]. cbn [fst]. eapply noreg_same_queues; [apply queues_ensure_chan|exact H].
  - destruct (get_conn s c0); [|apply not_to_nil]. destruct (h =? 0); [apply not_to_nil|apply E_conn_close; auto].
Qed.
End Events.

(* ------------------------------------------------------------------ *)
(* Part 3: the frames of a connection in the handshake, in ANY state: nothing outside the connection's record changes
   (not even the order of the other records: erase), every event is addressed to the connection and is one of the
   handshake's own, and the record follows the stage machine *)
Definition erase (c : N) (s : state) : state := s <| conns := adel N.eqb c (conns s) |>.

Definition hs_at (s : state) (c : N) (st : cstage) : Prop :=
  exists cn, get_conn s c = Some cn /\ cn_chans cn = chans0 /\ cn_stage cn = st.

Definition hs_frame (f : sframe) : Prop :=
  f = SConnTune \/ f = SConnOpenOk \/ f = SConnGone \/ f = SConnCloseOk \/ exists a b d, f = SConnClose a b d.
Definition hs_events (c : N) (evs : list event) : Prop := forall e, In e evs -> fst (fst e) = c /\ hs_frame (snd e).

(* the stage machine with the heartbeat: legal on channel 0, fatal elsewhere *)
Definition adv (st : cstage) (l : label) : option cstage :=
  match l with LHeartbeat _ h => if h =? 0 then Some st else None | _ => advance st l end.

Definition own_post (c : N) (o : option cstage) (s s' : state) (evs : list event) : Prop :=
  erase c s' = erase c s /\ hs_events c evs /\
  match o with None => get_conn s' c = None | Some st' => hs_at s' c st' end.

Lemma hs_at_quiet s c st : hs_at s c st -> quiet s c.
Proof. intros (cn & Ec & Hch & _) cn' E. rewrite Ec in E. inversion E; subst. exact Hch. Qed.
Lemma hs_at_in_handshake s c st : hs_at s c st -> st <> StOpen -> in_handshake s c st.
Proof. intros (cn & Ec & Hch & Est) Hne. exists cn, channel0. repeat split; auto. Qed.
Lemma hs_at_opened s c : hs_at s c StOpen -> conn_opened s c = true.
Proof. intros (cn & Ec & _ & Est). unfold conn_opened. rewrite Ec, Est. reflexivity. Qed.

Lemma erase_aset_self c x s : erase c (s <| conns := aset N.eqb c x (conns s) |>) = erase c s.
Proof. unfold erase. cbn. rewrite adel_aset_same. reflexivity. Qed.
Lemma erase_upd_chan_self c s h f : erase c (upd_chan s c h f) = erase c s.
Proof.
  unfold upd_chan. destruct (get_chan s c h); auto. unfold set_chan. destruct (get_conn s c); auto. apply erase_aset_self.
Qed.
Lemma erase_set_stage_self c s st : erase c (set_stage s c st) = erase c s.
Proof. unfold set_stage. destruct (get_conn s c); auto. apply erase_aset_self. Qed.
Lemma erase_erase c s : erase c (erase c s) = erase c s.
Proof. unfold erase. cbn. rewrite adel_idem. reflexivity. Qed.
Lemma erase_world c s s' : erase c s' = erase c s -> world s' c = world s c.
Proof. unfold erase, world. intros E. inversion E. repeat f_equal; auto. Qed.

Lemma hs_at_set_stage s c st st' : hs_at s c st -> hs_at (set_stage s c st') c st'.
Proof.
  intros (cn & Ec & Hch & Est). unfold hs_at, set_stage. rewrite Ec.
  exists (cn <| cn_stage := st' |>). split; [|split; [exact Hch|reflexivity]].
  unfold get_conn. cbn. rewrite (alookup_aset N.eqb Neqb_spec), N.eqb_refl. reflexivity.
Qed.

Lemma conn_close_hs cfg fx s c st : hs_at s c st -> owns_nothing s c ->
  exists s2, conn_close cfg fx s c = (s2, [(c, 0, SConnGone)]) /\ erase c s2 = erase c s /\ get_conn s2 c = None.
Proof.
  intros (cn & Ec & Hch & Est) Hown. unfold conn_close. rewrite Ec, Hch.
  assert (Hcc : sort_desc_N (map fst chans0) = [0]) by reflexivity.
  rewrite Hcc. cbn [fold_left].
  assert (Hg : get_chan s c 0 = Some channel0) by (unfold get_chan; rewrite Ec, Hch; reflexivity).
  unfold channel_close. rewrite Hg. cbn [ch_consumers channel0 fold_left]. cbn [N.ltb N.compare].
  set (s2 := upd_chan (upd_chan s c 0 _) c 0 _).
  assert (Hq : queues s2 = queues s) by (unfold s2; rewrite !queues_upd_chan; reflexivity).
  assert (He : erase c s2 = erase c s) by (unfold s2; rewrite !erase_upd_chan_self; reflexivity).
  rewrite Hq. unfold owns_nothing in Hown. rewrite Hown. cbn [map fold_left fst app out1].
  eexists. split; [reflexivity|]. split.
  - change (erase c (erase c s2) = erase c s). rewrite erase_erase. exact He.
  - unfold get_conn. cbn. rewrite (alookup_adel N.eqb Neqb_spec), N.eqb_refl. reflexivity.
Qed.

Lemma err_drops_hs cfg fx s c st a b d : hs_at s c st -> owns_nothing s c ->
  exists s2, apply_err_st cfg fx false s c 0 (refuse s (ConnErr a b d)) = (s2, [(c, 0, SConnClose a b d); (c, 0, SConnGone)]) /\
             erase c s2 = erase c s /\ get_conn s2 c = None.
Proof.
  intros Hh Hown. unfold apply_err_st, refuse. cbn [snd apply_err send_error out1 app].
  destruct (conn_close_hs cfg fx s c st Hh Hown) as (s2 & E & A & B). rewrite E. exists s2. auto.
Qed.

Lemma hs_events_1 c h f : h = h -> hs_frame f -> hs_events c [(c, h, f)].
Proof. intros _ Hf e [<-|[]]. split; auto. Qed.
Lemma hs_events_2 c h f h' f' : hs_frame f -> hs_frame f' -> hs_events c [(c, h, f); (c, h', f')].
Proof. intros Hf Hf' e [<-|[<-|[]]]; split; auto. Qed.
Lemma hs_events_nil c : hs_events c []. Proof. intros e []. Qed.
Lemma hf_gone : hs_frame SConnGone. Proof. unfold hs_frame; auto. Qed.
Lemma hf_close a b d : hs_frame (SConnClose a b d). Proof. unfold hs_frame; eauto 8. Qed.

Ltac drop_err2 cfg fx s c Hh Hown :=
  match type of Hh with hs_at _ _ ?st =>
  match goal with |- context [apply_err_st cfg fx false s c 0 (refuse s (ConnErr ?a ?b ?d))] =>
    let s2 := fresh "s2" in let E := fresh in let A := fresh in let B := fresh in
    destruct (err_drops_hs cfg fx s c st a b d Hh Hown) as (s2 & E & A & B); rewrite E; cbn [fst snd];
    split; [exact A|split; [apply hs_events_2; [apply hf_close|apply hf_gone]|exact B]]
  end end.

Theorem own_step cfg fx s c st l :
  fx_stage fx = true -> hs_at s c st -> st <> StOpen -> owns_nothing s c -> frame_of c l = true ->
  own_post c (adv st l) s (fst (step cfg fx s l)) (snd (step cfg fx s l)).
Proof.
  intros Hfx Hh Hne Hown Hl.
  pose proof Hh as (cn & Ec & Hch & Est).
  assert (Hop : cstage_eqb (cn_stage cn) StOpen = false) by (rewrite Est; destruct st; auto; congruence).
  assert (Hg : get_chan s c 0 = Some channel0) by (unfold get_chan; rewrite Ec, Hch; reflexivity).
  assert (He0 : ensure_chan s c 0 = s) by (apply (ensure_chan_0 s c cn channel0 Ec Hch)).
  destruct (conn_close_hs cfg fx s c st Hh Hown) as (sd & Ed & Ad & Bd).
  assert (Hdrop : forall pre, own_post c None s sd (pre ++ [(c, 0, SConnGone)]) -> True) by auto. clear Hdrop.
  destruct l; cbn [frame_of] in Hl; try discriminate; apply N.eqb_eq in Hl; subst c0; cbn [step adv]; rewrite Ec; unfold advance.
  - (* LMethod *)
    rewrite Hop. cbn [negb andb]. destruct (h =? 0) eqn:Eh; cbn [negb].
    2:{ rewrite Ed. cbn [fst snd]. split; [exact Ad|split; [apply hs_events_1; auto; apply hf_gone|exact Bd]]. }
    apply N.eqb_eq in Eh. subst h. rewrite He0. rewrite Hfx. cbn [andb negb N.eqb].
    rewrite Hg. cbn [ch_status channel0]. cbn [andb].
    destruct m; cbn [is_conn_class meth_ids fst snd N.eqb Pos.eqb Bool.eqb negb andb is_chan_close stage_allows].
    all: rewrite ?Bool.andb_false_r; cbn [andb negb].
    all: try (drop_err2 cfg fx s c Hh Hown).
    + (* MConnClose *)
      rewrite Ed. cbn [fst snd out1 app]. split; [exact Ad|split; [|exact Bd]].
      apply hs_events_2; [unfold hs_frame; auto|apply hf_gone].
    + (* MConnCloseOk *)
      rewrite Ed. cbn [fst snd]. split; [exact Ad|split; [apply hs_events_1; auto; apply hf_gone|exact Bd]].
    + (* MStartOk *)
      rewrite Est. destruct st; cbn [cstage_eqb negb]; try congruence.
      all: try (destruct good; drop_err2 cfg fx s c Hh Hown).
      unfold handle_method. rewrite Hg. destruct good.
      * unfold apply_err_st, ok. cbn [snd apply_err fst out1]. split; [apply erase_set_stage_self|].
        split; [apply hs_events_1; auto; unfold hs_frame; auto|]. eapply hs_at_set_stage; eauto.
      * drop_err2 cfg fx s c Hh Hown.
    + (* MTuneOk *)
      rewrite Est. destruct st; cbn [cstage_eqb negb]; try congruence.
      all: try (destruct within; drop_err2 cfg fx s c Hh Hown).
      unfold handle_method. rewrite Hg. destruct within.
      * unfold apply_err_st, ok. cbn [snd apply_err fst]. split; [apply erase_set_stage_self|].
        split; [apply hs_events_nil|]. eapply hs_at_set_stage; eauto.
      * drop_err2 cfg fx s c Hh Hown.
    + (* MConnOpen *)
      rewrite Est. destruct st; cbn [cstage_eqb negb]; try congruence.
      all: try (destruct vhost_ok; drop_err2 cfg fx s c Hh Hown).
      unfold handle_method. rewrite Hg. destruct vhost_ok.
      * unfold apply_err_st, ok. cbn [snd apply_err fst out1]. split; [apply erase_set_stage_self|].
        split; [apply hs_events_1; auto; unfold hs_frame; auto|]. eapply hs_at_set_stage; eauto.
      * drop_err2 cfg fx s c Hh Hown.
  - (* LHeader *)
    rewrite Hop. cbn [negb andb]. destruct (h =? 0) eqn:Eh; cbn [negb].
    2:{ rewrite Ed. cbn [fst snd]. split; [exact Ad|split; [apply hs_events_1; auto; apply hf_gone|exact Bd]]. }
    apply N.eqb_eq in Eh. subst h. rewrite He0, Hg. cbn [ch_status ch_cur channel0].
    rewrite Bool.andb_false_r.
    drop_err2 cfg fx s c Hh Hown.
  - (* LBody *)
    rewrite Hop. cbn [negb andb]. destruct (h =? 0) eqn:Eh; cbn [negb].
    2:{ rewrite Ed. cbn [fst snd]. split; [exact Ad|split; [apply hs_events_1; auto; apply hf_gone|exact Bd]]. }
    apply N.eqb_eq in Eh. subst h. rewrite He0, Hg. cbn [ch_status ch_cur channel0].
    rewrite Bool.andb_false_r.
    drop_err2 cfg fx s c Hh Hown.
  - (* LBadMethod *)
    rewrite Hop. cbn [negb andb]. destruct (h =? 0) eqn:Eh; cbn [negb].
    2:{ rewrite Ed. cbn [fst snd]. split; [exact Ad|split; [apply hs_events_1; auto; apply hf_gone|exact Bd]]. }
    apply N.eqb_eq in Eh. subst h. rewrite He0.
    drop_err2 cfg fx s c Hh Hown.
  - (* LHeartbeat *)
    destruct (h =? 0) eqn:Eh.
    + cbn [fst snd]. split; [reflexivity|split; [apply hs_events_nil|exact Hh]].
    + rewrite Ed. cbn [fst snd]. split; [exact Ad|split; [apply hs_events_1; auto; apply hf_gone|exact Bd]].
Qed.

(* ------------------------------------------------------------------ *)
(* Part 4: every unopened connection of every reachable state is quiet and owns nothing *)
Definition HQ (s : state) : Prop :=
  forall c cn, get_conn s c = Some cn -> cn_stage cn <> StOpen -> cn_chans cn = chans0.

Lemma owns_nothing_VI s c : VI s -> conn_opened s c = false -> owns_nothing s c.
Proof.
  intros V Hop. unfold owns_nothing. apply filter_all_false. intros [qn qu] Hin. cbn [snd].
  destruct (q_excl qu && (q_owner qu =? c)) eqn:E; auto. apply andb_prop in E. destruct E as [E1 E2]. apply N.eqb_eq in E2.
  assert (Hv : In (qn, qproj qu) (qv s)) by (unfold qv, vmap; apply in_map_iff; exists (qn, qu); auto).
  pose proof (vi_owner _ _ _ V qn (qproj qu) Hv E1) as Ho. cbn in Ho. rewrite E2, opened_cv in Ho. congruence.
Qed.

Lemma frame_on_gone cfg fx s c l : get_conn s c = None -> frame_of c l = true -> step cfg fx s l = (s, []).
Proof.
  intros Ec Hl. destruct l; cbn [frame_of] in Hl; try discriminate; apply N.eqb_eq in Hl; subst; cbn [step]; rewrite Ec; reflexivity.
Qed.

Lemma stage_ne_eqb st : st <> StOpen -> cstage_eqb st StOpen = false.
Proof. destruct st; auto; congruence. Qed.
Lemma conn_unopened s c cn : get_conn s c = Some cn -> cn_stage cn <> StOpen -> conn_opened s c = false.
Proof. intros Ec Hne. unfold conn_opened. rewrite Ec. apply stage_ne_eqb. exact Hne. Qed.

Theorem HQ_step cfg fx s l : fx_stage fx = true -> VI s -> HQ s -> HQ (fst (step cfg fx s l)).
Proof.
  intros Hst V H c cn' Ec' Hne'.
  destruct (touches c l) eqn:Ht.
  - assert (Hfr : frame_of c l = true -> cn_chans cn' = chans0).
    { intros Hl. destruct (get_conn s c) as [cn|] eqn:Ec.
      - destruct (cstage_eqb (cn_stage cn) StOpen) eqn:Eo.
        + assert (Hso : cn_stage cn = StOpen) by (destruct (cn_stage cn); try discriminate; reflexivity).
          destruct (SK_own_opened c cfg fx s l cn Hst Ec Hso Hl) as [Hk|Hk]; [|congruence].
          unfold SK, stage_of in Hk. rewrite Ec, Ec' in Hk. cbn in Hk. congruence.
        + assert (Hne : cn_stage cn <> StOpen) by (intros E; rewrite E in Eo; discriminate).
          assert (Hh : hs_at s c (cn_stage cn)) by (exists cn; split; [exact Ec|split; [eapply H; eauto|reflexivity]]).
          pose proof (own_step cfg fx s c (cn_stage cn) l Hst Hh Hne (owns_nothing_VI s c V (conn_unopened _ _ _ Ec Hne)) Hl) as (_ & _ & Hp).
          destruct (adv (cn_stage cn) l) as [st'|]; [|congruence].
          destruct Hp as (cn2 & E2 & Hc2 & _). congruence.
      - rewrite (frame_on_gone cfg fx s c l Ec Hl) in Ec'. cbn in Ec'. congruence. }
    destruct l; cbn [touches] in Ht; try discriminate; try (apply Hfr; cbn [frame_of]; exact Ht); try apply N.eqb_eq in Ht; try subst c0.
    + (* LConnect *) cbn [step] in Ec'. destruct (get_conn s c) eqn:Ec; cbn [fst] in Ec'; [eapply H; eauto|].
      unfold get_conn in Ec'. cbn in Ec'. rewrite (alookup_aset N.eqb Neqb_spec), N.eqb_refl in Ec'. inversion Ec'; subst. cbn in Hne'. congruence.
    + (* LSocketLoss *) cbn [step] in Ec'. pose proof (conn_close_forgets cfg fx s c) as Hf.
      destruct (conn_close cfg fx s c) as [s1 e1]. cbn [fst] in *. congruence.
    + (* LAccept *) cbn [step] in Ec'. destruct (get_conn s c) eqn:Ec; cbn [fst] in Ec'; [eapply H; eauto|].
      unfold get_conn in Ec'. cbn in Ec'. rewrite (alookup_aset N.eqb Neqb_spec), N.eqb_refl in Ec'. inversion Ec'; subst. reflexivity.
  - pose proof (SK_step c cfg fx s l Ht) as Hk. unfold SK, stage_of in Hk. rewrite Ec' in Hk. cbn in Hk.
    destruct (get_conn s c) as [cn|] eqn:Ec; [|discriminate]. cbn in Hk.
    assert (Hne : cn_stage cn <> StOpen) by congruence.
    assert (Hq : quiet s c) by (intros cn0 E0; rewrite Ec in E0; inversion E0; subst; eapply H; eauto).
    pose proof (KQ_step c cfg fx s l Ht Hq) as Hg. rewrite Ec, Ec' in Hg. inversion Hg; subst. eapply H; eauto.
Qed.

(* the invariant of every reachable state used below: the conservation invariant (which contains: an exclusive queue's
   owner is an opened connection) and the quietness of unopened connections *)
Definition GI (s : state) : Prop := Inv s /\ HQ s.

Section GIStep.
Variables (cfg : config) (fx : fixes).
Hypotheses (F1 : fx_stage fx = true) (F2 : fx_chan_open fx = true) (F3 : fx_closeok_releases fx = true)
           (F4 : fx_delete_checks_first fx = true).
Lemma GI_step s l : GI s -> GI (fst (step cfg fx s l)).
Proof. intros [I H]. split; [apply Inv_step; auto|apply HQ_step; auto; exact (proj1 I)]. Qed.
Lemma GI_run ls : forall s, GI s -> GI (fst (run cfg fx s ls)).
Proof.
  induction ls as [|l t IH]; intros s G; cbn [run]; auto.
  pose proof (GI_step s l G) as G1. specialize (IH (fst (step cfg fx s l)) G1).
  destruct (step cfg fx s l) as [s1 e1]. cbn [fst] in *. destruct (run cfg fx s1 t) as [s2 e2]. exact IH.
Qed.
End GIStep.
Lemma GI_init cfg : GI (init cfg).
Proof. split; [apply Inv_init|]. intros c cn E. cbn in E. discriminate. Qed.

(* ------------------------------------------------------------------ *)
(* Part 5: the consumer registries.  Every entry (c, h, tag) of a queue's registry is a consumer of channel (c, h) of
   that queue, with that tag, not stopped; tags are unique per channel and entries per registry.  So when a connection
   is dropped, no registry names it any more - and a connection accepted later under the same id starts clean. *)
Definition stoppedb (cm : consumer) : bool := match c_status cm with CStopped => true | _ => false end.
Definition cvw (ch : channel) : list (string * string * bool) :=
  map (fun cm => (c_tag cm, c_queue cm, stoppedb cm)) (ch_consumers ch).
Definition chv (s : state) (c h : N) : option (list (string * string * bool)) := option_map cvw (get_chan s c h).
Definition qreg (s : state) (qn : string) : option (list (N * N * string)) := option_map q_consumers (get_queue s qn).
Definition tagof (x : string * string * bool) : string := fst (fst x).

Record RI (s : state) : Prop := {
  ri_tags : forall c h v, chv s c h = Some v -> NoDup (map tagof v);
  ri_nodup : forall qn r, qreg s qn = Some r -> NoDup r;
  ri_reg : forall qn r c h tag, qreg s qn = Some r -> In (c, h, tag) r -> exists v, chv s c h = Some v /\ In (tag, qn, false) v
}.

Definition rsame (s s' : state) : Prop := (forall c h, chv s' c h = chv s c h) /\ (forall qn, qreg s' qn = qreg s qn).

Lemma RI_rsame s s' : rsame s s' -> RI s -> RI s'.
Proof.
  intros [A B] [T N C]. constructor.
  - intros c h v. rewrite A. apply T.
  - intros qn r. rewrite B. apply N.
  - intros qn r c h tag. rewrite B, A. apply C.
Qed.
Lemma rsame_refl s : rsame s s. Proof. split; reflexivity. Qed.
Lemma rsame_trans s1 s2 s3 : rsame s1 s2 -> rsame s2 s3 -> rsame s1 s3.
Proof. intros [A1 B1] [A2 B2]. split; intros; [rewrite A2, A1|rewrite B2, B1]; reflexivity. Qed.

Lemma chv_same_conns s s' c h : conns s' = conns s -> chv s' c h = chv s c h.
Proof. intros E. unfold chv. rewrite (get_chan_same_conns _ _ _ _ E). reflexivity. Qed.
Lemma qreg_same_queues s s' qn : queues s' = queues s -> qreg s' qn = qreg s qn.
Proof. intros E. unfold qreg, get_queue. rewrite E. reflexivity. Qed.
Lemma rsame_same s s' : conns s' = conns s -> queues s' = queues s -> rsame s s'.
Proof. intros E1 E2. split; intros; [apply chv_same_conns|apply qreg_same_queues]; auto. Qed.

Lemma chv_set_chan s c h ch ch' c1 h1 : get_chan s c h = Some ch -> cvw ch' = cvw ch -> chv (set_chan s c h ch') c1 h1 = chv s c1 h1.
Proof.
  intros Eg Ev. unfold chv. rewrite get_chan_set_chan. pose proof (get_chan_conn _ _ _ _ Eg). destruct (get_conn s c); [|congruence].
  destruct ((c1 =? c) && (h1 =? h)) eqn:Eb; auto. apply andb_prop in Eb. destruct Eb as [E1 E2]. apply N.eqb_eq in E1, E2. subst.
  rewrite Eg. cbn. rewrite Ev. reflexivity.
Qed.
Lemma rsame_set_chan s c h ch ch' : get_chan s c h = Some ch -> cvw ch' = cvw ch -> rsame s (set_chan s c h ch').
Proof. intros Eg Ev. split; intros; [eapply chv_set_chan; eauto|apply qreg_same_queues; apply queues_set_chan]. Qed.
Lemma rsame_upd_chan s c h f : (forall ch, cvw (f ch) = cvw ch) -> rsame s (upd_chan s c h f).
Proof. intros Hf. unfold upd_chan. destruct (get_chan s c h) eqn:E; [eapply rsame_set_chan; eauto|apply rsame_refl]. Qed.

Lemma get_queue_set_queue' s q v q' : get_queue (set_queue s q v) q' = if seqb q' q then Some v else get_queue s q'.
Proof. unfold get_queue, set_queue. cbn. apply alookup_aset. apply seqb_spec. Qed.
Lemma qreg_set_queue s q qu qu' q1 : get_queue s q = Some qu -> q_consumers qu' = q_consumers qu -> qreg (set_queue s q qu') q1 = qreg s q1.
Proof.
  intros Eg Ev. unfold qreg. rewrite get_queue_set_queue'. destruct (seqb q1 q) eqn:E; auto.
  apply seqb_spec in E. subst. rewrite Eg. cbn. rewrite Ev. reflexivity.
Qed.
Lemma rsame_set_queue s q qu qu' : get_queue s q = Some qu -> q_consumers qu' = q_consumers qu -> rsame s (set_queue s q qu').
Proof. intros Eg Ev. split; intros; [apply chv_same_conns; reflexivity|eapply qreg_set_queue; eauto]. Qed.
Lemma rsame_upd_queue s q f : (forall qu, q_consumers (f qu) = q_consumers qu) -> rsame s (upd_queue s q f).
Proof. intros Hf. unfold upd_queue. destruct (get_queue s q) eqn:E; [eapply rsame_set_queue; eauto|apply rsame_refl]. Qed.
Lemma rsame_upd_msg s u f : rsame s (upd_msg s u f).
Proof. apply rsame_same; [apply conns_upd_msg|apply queues_upd_msg]. Qed.
Lemma rsame_fold {A} (f : state -> A -> state) l : (forall s a, rsame s (f s a)) -> forall s, rsame s (fold_left f l s).
Proof. intros Hf. induction l as [|a l IH]; intros s; cbn; [apply rsame_refl|]. eapply rsame_trans; [apply Hf|apply IH]. Qed.

Lemma cvw_upd_consumer ch tag f : (forall cm, c_tag (f cm) = c_tag cm /\ c_queue (f cm) = c_queue cm /\ stoppedb (f cm) = stoppedb cm) ->
  cvw (upd_consumer ch tag f) = cvw ch.
Proof.
  intros Hf. unfold cvw, upd_consumer. cbn. rewrite map_map. apply map_ext. intros cm.
  destruct (seqb (c_tag cm) tag); auto. destruct (Hf cm) as (A & B & C). rewrite A, B, C. reflexivity.
Qed.
Lemma cvw_map ch f : (forall cm, c_tag (f cm) = c_tag cm /\ c_queue (f cm) = c_queue cm /\ stoppedb (f cm) = stoppedb cm) ->
  cvw (ch <| ch_consumers ::= map f |>) = cvw ch.
Proof.
  intros Hf. unfold cvw. cbn. rewrite map_map. apply map_ext. intros cm. destruct (Hf cm) as (A & B & C). rewrite A, B, C. reflexivity.
Qed.
Lemma consume_msg_cv cm : c_tag (fst (consume_msg cm)) = c_tag cm /\ c_queue (fst (consume_msg cm)) = c_queue cm /\ stoppedb (fst (consume_msg cm)) = stoppedb cm.
Proof. unfold consume_msg. destruct (c_status cm) eqn:E; [destruct (c_token cm)|..]; cbn; unfold stoppedb; cbn; rewrite ?E; auto. Qed.

Lemma tagof_cvw ch : map tagof (cvw ch) = map c_tag (ch_consumers ch).
Proof. unfold cvw. rewrite map_map. reflexivity. Qed.
Lemma RI_tags_chan s c h ch : RI s -> get_chan s c h = Some ch -> NoDup (map c_tag (ch_consumers ch)).
Proof. intros R E. rewrite <- tagof_cvw. apply (ri_tags s R c h). unfold chv. rewrite E. reflexivity. Qed.
Lemma find_consumer_unique ch tag cm cm0 :
  NoDup (map c_tag (ch_consumers ch)) -> find_consumer ch tag = Some cm -> In cm0 (ch_consumers ch) -> c_tag cm0 = tag -> cm0 = cm.
Proof.
  intros Hnd Hf Hin Ht. destruct (find_consumer_in _ _ _ Hf) as [Hin' Ht'].
  apply (NoDup_map_inj c_tag (ch_consumers ch)); auto. congruence.
Qed.
Lemma cvw_upd_consumer_in ch tag f :
  (forall cm, In cm (ch_consumers ch) -> c_tag cm = tag -> c_tag (f cm) = c_tag cm /\ c_queue (f cm) = c_queue cm /\ stoppedb (f cm) = stoppedb cm) ->
  cvw (upd_consumer ch tag f) = cvw ch.
Proof.
  intros Hf. unfold cvw, upd_consumer. cbn. rewrite map_map. apply map_ext_in. intros cm Hin.
  destruct (seqb (c_tag cm) tag) eqn:E; auto. apply seqb_spec in E. destruct (Hf cm Hin E) as (A & B & C). rewrite A, B, C. reflexivity.
Qed.
Lemma rsame_wake s c h tag : RI s -> rsame s (fst (wake_consumer s c h tag)).
Proof.
  intros R. unfold wake_consumer. destruct (get_chan s c h) as [ch|] eqn:E; [|apply rsame_refl].
  destruct (find_consumer ch tag) as [cm|] eqn:Ef; [|apply rsame_refl].
  pose proof (consume_msg_cv cm) as Hc. destruct (consume_msg cm) as [cm' b]. cbn [fst] in *.
  eapply rsame_set_chan; [exact E|]. apply cvw_upd_consumer_in. intros cm0 Hin Ht.
  rewrite (find_consumer_unique ch tag cm cm0 (RI_tags_chan s c h ch R E) Ef Hin Ht). exact Hc.
Qed.
Lemma rsame_fold_RI {A} (f : state -> A -> state) l : (forall s a, RI s -> rsame s (f s a)) -> forall s, RI s -> rsame s (fold_left f l s).
Proof.
  intros Hf. induction l as [|a l IH]; intros s R; cbn; [apply rsame_refl|].
  eapply rsame_trans; [apply Hf; exact R|apply IH]. eapply RI_rsame; [apply Hf|]; exact R.
Qed.
Lemma rsame_wake_all s c h : rsame s (wake_all_of_chan s c h).
Proof. apply rsame_upd_chan. intros ch. apply cvw_map. apply consume_msg_cv. Qed.
Lemma rsame_wake_consumers cfg s c h : rsame s (wake_consumers cfg s c h).
Proof.
  unfold wake_consumers. destruct (cfg_rabbit cfg); [apply rsame_wake_all|].
  destruct (get_conn _ c) as [cn|]; [|apply rsame_wake_all].
  eapply rsame_trans; [apply rsame_wake_all|]. apply rsame_fold. intros s0 x. destruct (fst x =? h); [apply rsame_refl|apply rsame_wake_all].
Qed.
Lemma rsame_set_conn_qos s c cn x : get_conn s c = Some cn -> cn_chans x = cn_chans cn -> rsame s (s <| conns := aset N.eqb c x (conns s) |>).
Proof.
  intros Ec Hx. split; [|intros; apply qreg_same_queues; reflexivity].
  intros c1 h1. unfold chv, get_chan, get_conn in *. cbn. rewrite (alookup_aset N.eqb Neqb_spec).
  destruct (c1 =? c) eqn:E; auto. apply N.eqb_eq in E. subst. rewrite Ec, Hx. reflexivity.
Qed.

Ltac rsame_set_field := match goal with |- rsame _ (@set _ _ _ _ _ ?x) => eapply rsame_trans; [|apply (rsame_same x); reflexivity] end.

Lemma rsame_dec_qos cfg s c h u : rsame s (dec_qos_and_consume_next cfg s c h u).
Proof.
  unfold dec_qos_and_consume_next. destruct (get_chan s c h) as [ch|]; [|apply rsame_refl].
  eapply rsame_trans; [|apply rsame_wake_consumers].
  assert (Hq : forall st w, rsame st (upd_chan st c h (fun ch0 => ch0 <| ch_qos ::= w |>))) by (intros; apply rsame_upd_chan; reflexivity).
  assert (Hn : forall st f, rsame st (match get_conn st c with Some cn => st <| conns := aset N.eqb c (cn <| cn_qos ::= f |>) (conns st) |> | None => st end)).
  { intros st f. destruct (get_conn st c) eqn:Ec; [eapply rsame_set_conn_qos; eauto|apply rsame_refl]. }
  destruct (find_consumer ch (u_ctag u)).
  - destruct (cfg_rabbit cfg).
    + eapply rsame_trans; [apply Hq|]. apply rsame_upd_chan. intros ch0. apply cvw_upd_consumer. intros cm; repeat split; reflexivity.
    + eapply rsame_trans; [apply Hq|apply Hn].
  - eapply rsame_trans; [apply Hq|apply Hn].
Qed.
Lemma rsame_queue_ackmsg s qn u : rsame s (queue_ackmsg s qn u).
Proof.
  unfold queue_ackmsg. destruct (get_queue s qn) as [qu|] eqn:Eq; [|apply rsame_refl].
  destruct (get_msg s u); [|apply rsame_refl]. destruct (negb _); [apply rsame_refl|].
  match goal with |- rsame s (set_queue ?st qn ?q') => eapply (rsame_trans s st); [|apply (rsame_set_queue st qn qu q'); [destruct (_ && _)%bool; exact Eq|reflexivity]] end.
  destruct (_ && _)%bool; apply rsame_same; reflexivity.
Qed.
Lemma rsame_queue_requeue s qn u : rsame s (queue_requeue s qn u).
Proof.
  unfold queue_requeue. destruct (get_queue s qn) as [qu|] eqn:Eq; [|apply rsame_refl].
  destruct (negb _); [apply rsame_refl|].
  match goal with |- rsame s (set_queue ?st qn ?q') => eapply (rsame_trans s st); [|apply (rsame_set_queue st qn qu q')] end.
  - eapply rsame_trans; [|apply rsame_same; reflexivity]. eapply rsame_trans; [|apply rsame_upd_msg].
    apply rsame_same; apply store_writeback_frame.
  - cbn. rewrite queues_upd_msg. unfold get_queue in *. destruct (store_writeback_frame s qn u (q_durable qu)) as (_ & -> & _). exact Eq.
  - unfold call_consumers. destruct (q_active _); reflexivity.
Qed.
Lemma rsame_queue_push s qn u : rsame s (queue_push s qn u).
Proof.
  unfold queue_push. destruct (get_queue s qn) as [qu|] eqn:Eq; [|apply rsame_refl].
  destruct (get_msg s u) as [m|]; [|apply rsame_refl]. destruct (negb _); [apply rsame_refl|].
  match goal with |- rsame s (set_queue ?st qn ?q') => eapply (rsame_trans s st); [|apply (rsame_set_queue st qn qu q')] end.
  - destruct (_ && _)%bool; [apply rsame_same; reflexivity|]. destruct (m_conf m); [|apply rsame_same; reflexivity].
    eapply rsame_trans; [|apply rsame_upd_msg]. apply rsame_same; reflexivity.
  - destruct (_ && _)%bool; [exact Eq|]. destruct (m_conf m); [|exact Eq]. unfold get_queue. rewrite queues_upd_msg. exact Eq.
  - unfold call_consumers. destruct (q_active _); reflexivity.
Qed.
Lemma rsame_chan_ackmsg s u : rsame s (chan_ackmsg s u).
Proof. unfold chan_ackmsg. destruct (origin_queue s u); [apply rsame_queue_ackmsg|apply rsame_same; reflexivity]. Qed.
Lemma rsame_chan_rejectmsg s u r : rsame s (chan_rejectmsg s u r).
Proof.
  unfold chan_rejectmsg. destruct (origin_queue s u); [|apply rsame_same; reflexivity].
  destruct r; [apply rsame_queue_requeue|apply rsame_queue_ackmsg].
Qed.
Lemma rsame_del_unacked s c h t : rsame s (upd_chan s c h (fun ch => del_unacked ch t)).
Proof. apply rsame_upd_chan. reflexivity. Qed.
Lemma rsame_handle_reject cfg s c h tag mult requeue cls mth : rsame s (fst (handle_reject cfg s c h tag mult requeue cls mth)).
Proof.
  unfold handle_reject. destruct (get_chan s c h) as [ch|]; [|apply rsame_refl]. destruct mult; cbn [fst].
  - eapply rsame_trans; [|apply rsame_fold; intros; apply rsame_dec_qos]. apply rsame_fold. intros s0 a.
    eapply rsame_trans; [apply rsame_del_unacked|apply rsame_chan_rejectmsg].
  - destruct (find _ _); cbn [fst]; [|apply rsame_refl].
    eapply rsame_trans; [|apply rsame_dec_qos]. eapply rsame_trans; [apply rsame_del_unacked|apply rsame_chan_rejectmsg].
Qed.
Lemma rsame_handle_ack cfg s c h tag mult : rsame s (fst (handle_ack cfg s c h tag mult)).
Proof.
  unfold handle_ack. destruct (get_chan s c h) as [ch|]; [|apply rsame_refl]. destruct mult; cbn [fst].
  - eapply rsame_trans; [|apply rsame_fold; intros; apply rsame_dec_qos]. apply rsame_fold. intros s0 a.
    eapply rsame_trans; [apply rsame_del_unacked|apply rsame_chan_ackmsg].
  - destruct (find _ _); cbn [fst]; [|apply rsame_refl].
    eapply rsame_trans; [|apply rsame_dec_qos]. eapply rsame_trans; [apply rsame_del_unacked|apply rsame_chan_ackmsg].
Qed.
Lemma rsame_add_confirm s c h t : rsame s (add_confirm s c h t).
Proof.
  unfold add_confirm. destruct (get_chan s c h) as [ch|] eqn:E; [|apply rsame_refl].
  destruct (negb _); [apply rsame_refl|]. destruct (ch_status ch); try apply rsame_refl;
    (destruct t as [[[? ?] ?]|]; [eapply rsame_set_chan; [exact E|reflexivity]|apply rsame_refl]).
Qed.
Lemma rsame_store_confirm s u : rsame s (store_confirm s u).
Proof. apply rsame_same; [apply conns_store_confirm|apply queues_store_confirm]. Qed.
Lemma rsame_store_windows cfg s c h tag ws : rsame s (store_windows cfg s c h tag ws).
Proof.
  unfold store_windows. destruct ws as [|w1 [|w2 [|]]]; try apply rsame_refl.
  destruct (cfg_rabbit cfg).
  - eapply rsame_trans; [|apply rsame_upd_chan; intros ch0; apply cvw_upd_consumer; intros cm; repeat split; reflexivity].
    apply rsame_upd_chan; reflexivity.
  - destruct (get_conn _ c) eqn:Ec; [eapply rsame_trans; [|eapply rsame_set_conn_qos; [exact Ec|reflexivity]]|]; apply rsame_upd_chan; reflexivity.
Qed.
Lemma rsame_queue_loop_turn s qn : RI s -> rsame s (queue_loop_turn s qn).
Proof.
  intros R. unfold queue_loop_turn. destruct (get_queue s qn) as [qu|] eqn:Eq; [|apply rsame_refl]. destruct (negb _); [apply rsame_refl|].
  assert (H1 : rsame s (set_queue s qn (qu <| q_call := false |>))) by (eapply rsame_set_queue; [exact Eq|reflexivity]).
  destruct (Nat.eqb _ 0); [exact H1|]. eapply rsame_trans; [|apply rsame_upd_queue; reflexivity].
  eapply rsame_trans; [exact H1|]. apply rsame_fold_RI; [|eapply RI_rsame; eauto]. intros s0 [[c0 h] tag]. apply rsame_wake.
Qed.

(* ------------------------------------------------------------------ *)
(* Part 6: the two per-step theorems *)

(* no consumer registry names a connection that is not opened *)
Definition NR (s : state) : Prop := forall c, conn_opened s c = false -> noreg c s.

Lemma hs_at_of_GI s c cn : HQ s -> get_conn s c = Some cn -> cn_stage cn <> StOpen -> hs_at s c (cn_stage cn).
Proof. intros H Ec Hne. exists cn. split; [exact Ec|split; [eapply H; eauto|reflexivity]]. Qed.

(* a label that is not a frame of c, not its socket and not a restart: a connection in the handshake stays where it
   is - its record is not written - and is sent nothing *)
Theorem others_cannot_touch cfg fx s l c st :
  fx_stage fx = true -> noreg c s -> touches c l = false -> hs_at s c st ->
  get_conn (fst (step cfg fx s l)) c = get_conn s c /\ hs_at (fst (step cfg fx s l)) c st /\ not_to c (snd (step cfg fx s l)).
Proof.
  intros Hst Hnr Ht Hh. pose proof (hs_at_quiet _ _ _ Hh) as Hq.
  pose proof (KQ_step c cfg fx s l Ht Hq) as Hk. split; [exact Hk|]. split.
  - destruct Hh as (cn & Ec & Hc & Hs). exists cn. rewrite Hk. auto.
  - apply E_step; auto.
Qed.

(* a frame of a connection that is not opened, in any state satisfying the invariant: nothing but the connection's own
   record changes, every event is addressed to it and is tune / open-ok / close / close-ok / the socket close, and the
   record follows the stage machine *)
Theorem unopened_cannot_touch cfg fx s l c :
  fx_stage fx = true -> VI s -> HQ s -> conn_opened s c = false -> frame_of c l = true ->
  erase c (fst (step cfg fx s l)) = erase c s /\ hs_events c (snd (step cfg fx s l)) /\
  match get_conn s c with
  | None => get_conn (fst (step cfg fx s l)) c = None
  | Some cn => match adv (cn_stage cn) l with
               | None => get_conn (fst (step cfg fx s l)) c = None
               | Some st' => hs_at (fst (step cfg fx s l)) c st'
               end
  end.
Proof.
  intros Hst V H Hop Hl. destruct (get_conn s c) as [cn|] eqn:Ec.
  - assert (Hne : cn_stage cn <> StOpen).
    { unfold conn_opened in Hop. rewrite Ec in Hop. intros E. rewrite E in Hop. discriminate. }
    exact (own_step cfg fx s c (cn_stage cn) l Hst (hs_at_of_GI s c cn H Ec Hne) Hne (owns_nothing_VI s c V Hop) Hl).
  - rewrite (frame_on_gone cfg fx s c l Ec Hl). cbn [fst snd]. split; [reflexivity|split; [apply hs_events_nil|exact Ec]].
Qed.

Corollary unopened_cannot_touch_world cfg fx s l c :
  fx_stage fx = true -> VI s -> HQ s -> conn_opened s c = false -> frame_of c l = true ->
  world (fst (step cfg fx s l)) c = world s c.
Proof. intros. apply erase_world. eapply unopened_cannot_touch; eauto. Qed.

(* ------------------------------------------------------------------ *)
(* Part 7: a connection is opened only by the three steps in order, whatever is interleaved *)
Definition is_hb0 (l : label) : bool := match l with LHeartbeat _ h => h =? 0 | _ => false end.
(* the frames of c that count: all but the heartbeats on channel 0 *)
Definition proj (c : N) (ls : list label) : list label := filter (fun l => frame_of c l && negb (is_hb0 l)) ls.
Definition three (c : N) : list label := [LMethod c 0 (MStartOk true); LMethod c 0 (MTuneOk true); LMethod c 0 (MConnOpen true)].

Fixpoint alive_along (cfg : config) (fx : fixes) (c : N) (s : state) (ls : list label) : Prop :=
  get_conn s c <> None /\ match ls with [] => True | l :: t => alive_along cfg fx c (fst (step cfg fx s l)) t end.

Lemma run_snoc cfg fx s ls l : fst (run cfg fx s (ls ++ [l])) = fst (step cfg fx (fst (run cfg fx s ls)) l).
Proof. rewrite run_app. cbn [run]. destruct (step cfg fx (fst (run cfg fx s ls)) l) as [s1 e1]. reflexivity. Qed.
Lemma run_cons cfg fx s l t : fst (run cfg fx s (l :: t)) = fst (run cfg fx (fst (step cfg fx s l)) t).
Proof. cbn [run]. destruct (step cfg fx s l) as [s1 e1]. cbn [fst]. destruct (run cfg fx s1 t). reflexivity. Qed.

Lemma alive_along_snoc cfg fx c ls : forall s l,
  alive_along cfg fx c s ls -> get_conn (fst (run cfg fx s (ls ++ [l]))) c <> None -> alive_along cfg fx c s (ls ++ [l]).
Proof.
  induction ls as [|a t IH]; intros s l Ha Hg.
  - cbn [app alive_along]. destruct Ha as [Ha _]. split; auto. split; auto.
    cbn [app] in Hg. rewrite run_cons in Hg. exact Hg.
  - cbn [app alive_along] in *. destruct Ha as [Ha Ht]. split; auto. apply IH; auto.
    rewrite run_cons in Hg. exact Hg.
Qed.

Lemma adv_advance st l : adv st l = if is_hb0 l then Some st else advance st l.
Proof. destruct l; cbn; auto. Qed.
Lemma stage_after_snoc o ls l : stage_after o (ls ++ [l]) = match stage_after o ls with Some x => advance x l | None => None end.
Proof. revert o. induction ls as [|a t IH]; intros o; cbn; auto. Qed.
Lemma proj_snoc c ls l : proj c (ls ++ [l]) = proj c ls ++ (if frame_of c l && negb (is_hb0 l) then [l] else []).
Proof. unfold proj. rewrite filter_app. cbn. destruct (frame_of c l && negb (is_hb0 l)); reflexivity. Qed.
Lemma frame_touches c l : frame_of c l = true -> touches c l = true.
Proof. destruct l; cbn; auto; discriminate. Qed.

(* the stage machine reaches Open from Start only along the three good steps *)
Lemma advance_some st l st' : advance st l = Some st' ->
  exists c, (st = StStart /\ st' = StTune /\ l = LMethod c 0 (MStartOk true)) \/
            (st = StTune /\ st' = StTuneOk /\ l = LMethod c 0 (MTuneOk true)) \/
            (st = StTuneOk /\ st' = StOpen /\ l = LMethod c 0 (MConnOpen true)).
Proof.
  destruct l; cbn; try discriminate. destruct (h =? 0) eqn:Eh; [|discriminate]. apply N.eqb_eq in Eh. subst h.
  destruct m; try discriminate.
  - destruct good; [|discriminate]. destruct st; cbn; try discriminate. intros E; inversion E. exists c. auto.
  - destruct within; [|discriminate]. destruct st; cbn; try discriminate. intros E; inversion E. exists c. auto 6.
  - destruct vhost_ok; [|discriminate]. destruct st; cbn; try discriminate. intros E; inversion E. exists c. auto 8.
Qed.
Lemma advance_open_none l : advance StOpen l = None.
Proof. destruct (advance StOpen l) as [x|] eqn:E; auto. destruct (advance_some _ _ _ E) as (c0 & [(A & _)|[(A & _)|(A & _)]]); discriminate. Qed.

Lemma stage_after_shape ls : forall st',
  stage_after (Some StStart) ls = Some st' ->
  match st' with
  | StStart => ls = []
  | StTune => exists c1, ls = [LMethod c1 0 (MStartOk true)]
  | StTuneOk => exists c1 c2, ls = [LMethod c1 0 (MStartOk true); LMethod c2 0 (MTuneOk true)]
  | StOpen => exists c1 c2 c3, ls = [LMethod c1 0 (MStartOk true); LMethod c2 0 (MTuneOk true); LMethod c3 0 (MConnOpen true)]
  end.
Proof.
  induction ls as [|l t IH] using rev_ind; intros st' H.
  - cbn in H. inversion H. reflexivity.
  - rewrite stage_after_snoc in H. destruct (stage_after (Some StStart) t) as [x|] eqn:Ex; [|discriminate].
    specialize (IH x eq_refl).
    destruct (advance_some _ _ _ H) as (c & [(A & B & C)|[(A & B & C)|(A & B & C)]]); subst.
    + subst t. exists c. reflexivity.
    + destruct IH as (c1 & ->). exists c1, c. reflexivity.
    + destruct IH as (c1 & c2 & ->). exists c1, c2, c. reflexivity.
Qed.

Lemma proj_frames c ls : Forall (fun l => frame_of c l = true) (proj c ls).
Proof. apply Forall_forall. intros l Hin. apply filter_In in Hin. destruct Hin as [_ H]. apply andb_prop in H. apply H. Qed.

Lemma three_of_open c l3 : stage_after (Some StStart) l3 = Some StOpen -> Forall (fun l => frame_of c l = true) l3 -> l3 = three c.
Proof.
  intros H Hf. destruct (stage_after_shape l3 StOpen H) as (c1 & c2 & c3 & ->).
  inversion Hf as [|? ? F1 Hf1]; subst. inversion Hf1 as [|? ? F2 Hf2]; subst. inversion Hf2 as [|? ? F3 _]; subst.
  cbn in F1, F2, F3. apply N.eqb_eq in F1, F2, F3. subst. reflexivity.
Qed.

(* how connection c, found at stage st in the last state of the run, got there: post = what followed its accept *)
Definition hmatch (c : N) (st : cstage) (post : list label) : Prop :=
  match st with
  | StOpen => exists q, proj c post = three c ++ q
  | _ => stage_after (Some StStart) (proj c post) = Some st
  end.
Definition history (cfg : config) (fx : fixes) (c : N) (ls : list label) (st : cstage) : Prop :=
  (exists pre post, ls = pre ++ LAccept c :: post /\ get_conn (fst (run cfg fx (init cfg) pre)) c = None /\
     alive_along cfg fx c (fst (run cfg fx (init cfg) (pre ++ [LAccept c]))) post /\ hmatch c st post) \/
  (st = StOpen /\ exists pre post, ls = pre ++ LConnect c :: post /\ get_conn (fst (run cfg fx (init cfg) pre)) c = None /\
     alive_along cfg fx c (fst (run cfg fx (init cfg) (pre ++ [LConnect c]))) post).

Section History.
Variables (cfg : config) (fx : fixes).
Hypotheses (F1 : fx_stage fx = true) (F2 : fx_chan_open fx = true) (F3 : fx_closeok_releases fx = true)
           (F4 : fx_delete_checks_first fx = true).

Lemma GI_reach ls : GI (fst (run cfg fx (init cfg) ls)).
Proof. apply GI_run; auto. apply GI_init. Qed.

Lemma history_extend c ls l st st' :
  history cfg fx c ls st -> get_conn (fst (run cfg fx (init cfg) (ls ++ [l]))) c <> None ->
  (forall post, hmatch c st post -> hmatch c st' (post ++ [l])) -> (st = StOpen -> st' = StOpen) ->
  history cfg fx c (ls ++ [l]) st'.
Proof.
  intros Hh Hal Hp Hoo. destruct Hh as [(pre & post & E & Hg & Ha & Hm)|(Hs & pre & post & E & Hg & Ha)].
  - left. exists pre, (post ++ [l]). split; [rewrite E, <- app_assoc; reflexivity|]. split; [exact Hg|]. split; [|apply Hp; exact Hm].
    apply alive_along_snoc; auto. rewrite <- run_app.
    replace ((pre ++ [LAccept c]) ++ post ++ [l]) with (ls ++ [l]) by (rewrite E, <- !app_assoc; reflexivity). exact Hal.
  - right. split; [auto|]. exists pre, (post ++ [l]). split; [rewrite E, <- app_assoc; reflexivity|]. split; [exact Hg|].
    apply alive_along_snoc; auto. rewrite <- run_app.
    replace ((pre ++ [LConnect c]) ++ post ++ [l]) with (ls ++ [l]) by (rewrite E, <- !app_assoc; reflexivity). exact Hal.
Qed.

Lemma hmatch_keep c st post l : frame_of c l && negb (is_hb0 l) = false -> hmatch c st post -> hmatch c st (post ++ [l]).
Proof. intros Hf. unfold hmatch. rewrite proj_snoc, Hf, app_nil_r. auto. Qed.
Lemma hmatch_open c post l : hmatch c StOpen post -> hmatch c StOpen (post ++ [l]).
Proof. intros (q & E). unfold hmatch. rewrite proj_snoc, E, <- app_assoc. eexists; reflexivity. Qed.
Lemma hmatch_advance c st st' post l : st <> StOpen -> frame_of c l && negb (is_hb0 l) = true -> advance st l = Some st' ->
  hmatch c st post -> hmatch c st' (post ++ [l]).
Proof.
  intros Hne Hf Ha Hm.
  assert (Hs : stage_after (Some StStart) (proj c post) = Some st) by (destruct st; try exact Hm; congruence).
  assert (Hs' : stage_after (Some StStart) (proj c (post ++ [l])) = Some st') by (rewrite proj_snoc, Hf, stage_after_snoc, Hs; exact Ha).
  destruct st'; try exact Hs'. exists []. rewrite app_nil_r. apply three_of_open; [exact Hs'|apply proj_frames].
Qed.

(* every connection of every reachable state has such a history *)
Theorem history_reach c ls : forall cn, get_conn (fst (run cfg fx (init cfg) ls)) c = Some cn -> history cfg fx c ls (cn_stage cn).
Proof.
  induction ls as [|l ls IH] using rev_ind; intros cn' Ec'.
  - cbn in Ec'. discriminate.
  - assert (Hal : get_conn (fst (run cfg fx (init cfg) (ls ++ [l]))) c <> None) by congruence.
    rewrite run_snoc in Ec'. pose proof (GI_reach ls) as [[V _] H].
    set (s := fst (run cfg fx (init cfg) ls)) in *.
    destruct (frame_of c l) eqn:Hl.
    + (* a frame of c *)
      destruct (get_conn s c) as [cn|] eqn:Ec; [|rewrite (frame_on_gone cfg fx s c l Ec Hl) in Ec'; cbn in Ec'; congruence].
      specialize (IH cn eq_refl).
      destruct (cstage_eqb (cn_stage cn) StOpen) eqn:Eo.
      * assert (Hso : cn_stage cn = StOpen) by (destruct (cn_stage cn); try discriminate; reflexivity).
        destruct (SK_own_opened c cfg fx s l cn F1 Ec Hso Hl) as [Hk|Hk]; [|congruence].
        unfold SK, stage_of in Hk. rewrite Ec, Ec' in Hk. cbn in Hk. inversion Hk as [Hk']. rewrite Hk', Hso. rewrite Hso in IH.
        apply (history_extend c ls l StOpen StOpen); auto. intros post. apply hmatch_open.
      * assert (Hne : cn_stage cn <> StOpen) by (intros E; rewrite E in Eo; discriminate).
        pose proof (own_step cfg fx s c (cn_stage cn) l F1 (hs_at_of_GI s c cn H Ec Hne) Hne
                      (owns_nothing_VI s c V (conn_unopened _ _ _ Ec Hne)) Hl) as (_ & _ & Hp).
        destruct (adv (cn_stage cn) l) as [st'|] eqn:Ea; [|congruence].
        destruct Hp as (cn2 & E2 & _ & Hs2). rewrite Ec' in E2. inversion E2; subst cn2. rewrite Hs2.
        rewrite adv_advance in Ea.
        apply (history_extend c ls l (cn_stage cn) st'); auto; [|congruence].
        intros post. destruct (is_hb0 l) eqn:Eh.
        -- inversion Ea; subst st'. apply hmatch_keep. rewrite Eh, andb_false_r. reflexivity.
        -- apply hmatch_advance; auto. rewrite Hl, Eh. reflexivity.
    + (* not a frame of c *)
      assert (Hkeep : forall st post, hmatch c st post -> hmatch c st (post ++ [l])) by (intros; apply hmatch_keep; auto; rewrite Hl; reflexivity).
      destruct (touches c l) eqn:Ht.
      * destruct l; cbn [touches frame_of] in Ht, Hl; try discriminate; try congruence; try (apply N.eqb_eq in Ht; subst c0).
        { (* LConnect *) cbn [step] in Ec'. destruct (get_conn s c) as [cn|] eqn:Ec; cbn [fst] in Ec'.
          { rewrite Ec in Ec'. inversion Ec'; subst cn'. apply (history_extend c ls (LConnect c) (cn_stage cn) (cn_stage cn)); auto. }
          unfold get_conn in Ec'. cbn in Ec'. rewrite (alookup_aset N.eqb Neqb_spec), N.eqb_refl in Ec'. inversion Ec'; subst cn'. cbn [cn_stage].
          right. split; auto. exists ls, []. split; auto. split; [exact Ec|]. cbn [alive_along]. split; auto. }
        { (* LSocketLoss *) cbn [step] in Ec'. pose proof (conn_close_forgets cfg fx s c) as Hf.
          destruct (conn_close cfg fx s c) as [s1 e1]. cbn [fst] in *. congruence. }
        { (* LAccept *) cbn [step] in Ec'. destruct (get_conn s c) as [cn|] eqn:Ec; cbn [fst] in Ec'.
          { rewrite Ec in Ec'. inversion Ec'; subst cn'. apply (history_extend c ls (LAccept c) (cn_stage cn) (cn_stage cn)); auto. }
          unfold get_conn in Ec'. cbn in Ec'. rewrite (alookup_aset N.eqb Neqb_spec), N.eqb_refl in Ec'. inversion Ec'; subst cn'. cbn [cn_stage].
          left. exists ls, []. split; auto. split; [exact Ec|]. split; [|reflexivity]. cbn [alive_along]. split; auto. }
      * pose proof (SK_step c cfg fx s l Ht) as Hk. unfold SK, stage_of in Hk. rewrite Ec' in Hk. cbn in Hk.
        destruct (get_conn s c) as [cn|] eqn:Ec; [|discriminate]. cbn in Hk. inversion Hk as [Hk']. rewrite Hk'.
        apply (history_extend c ls l (cn_stage cn) (cn_stage cn)); auto.
Qed.

(* (a) a connection is open only if it was created by the shortcut LConnect, or accepted and then - counting its own
   frames only, whatever was interleaved - sent exactly start-ok (good), tune-ok (within), open (vhost) first *)
Theorem opened_only_in_order_interleaved c ls :
  conn_opened (fst (run cfg fx (init cfg) ls)) c = true -> history cfg fx c ls StOpen.
Proof.
  intros Hop. unfold conn_opened in Hop. destruct (get_conn _ c) as [cn|] eqn:Ec; [|discriminate].
  pose proof (history_reach c ls cn Ec) as Hh. destruct (cn_stage cn); try discriminate. exact Hh.
Qed.
End History.

(* ------------------------------------------------------------------ *)
(* Part 5, continued: the operations that change the registries or the consumer lists *)
Definition stopv (tag : string) (x : string * string * bool) : string * string * bool :=
  if seqb (tagof x) tag then (fst x, true) else x.
Definition isx (c h : N) (tag : string) (y : N * N * string) : bool :=
  (fst (fst y) =? c) && (snd (fst y) =? h) && seqb (snd y) tag.

Lemma isx_spec c h tag y : isx c h tag y = true <-> y = (c, h, tag).
Proof.
  destruct y as [[a b] t]. unfold isx. cbn. rewrite !andb_true_iff, !N.eqb_eq. split.
  - intros [[-> ->] E]. apply seqb_spec in E. subst. reflexivity.
  - intros E. inversion E; subst. repeat split; auto. apply seqb_spec. reflexivity.
Qed.
Lemma NoDup_remove_first {A} (p : A -> bool) l : NoDup l -> NoDup (remove_first p l).
Proof.
  induction l as [|a t IH]; cbn; auto. intros Hnd. inversion Hnd; subst. destruct (p a); auto.
  constructor; auto. intros Hin. apply remove_first_in in Hin. contradiction.
Qed.
Lemma remove_first_removes {A} (p : A -> bool) x0 l : (forall y, p y = true <-> y = x0) -> NoDup l -> ~ In x0 (remove_first p l).
Proof.
  intros Hp. induction l as [|a t IH]; cbn; auto. intros Hnd. inversion Hnd; subst. destruct (p a) eqn:E.
  - apply Hp in E. subst. assumption.
  - intros [Hx|Hx]; [subst; rewrite (proj2 (Hp x0) eq_refl) in E; discriminate|]. apply IH; auto.
Qed.
Lemma tagof_stopv tag x : tagof (stopv tag x) = tagof x.
Proof. unfold stopv. destruct (seqb (tagof x) tag); reflexivity. Qed.
Lemma map_tagof_stopv tag v : map tagof (map (stopv tag) v) = map tagof v.
Proof. rewrite map_map. apply map_ext. intros x. apply tagof_stopv. Qed.
Lemma stopv_other tag t q b : t <> tag -> stopv tag (t, q, b) = (t, q, b).
Proof. intros Hn. unfold stopv. cbn. destruct (seqb t tag) eqn:E; auto. apply seqb_spec in E. contradiction. Qed.
Lemma tag_unique v t q q' b b' : NoDup (map tagof v) -> In (t, q, b) v -> In (t, q', b') v -> (t, q, b) = (t, q', b').
Proof. intros Hnd H1 H2. apply (NoDup_map_inj tagof v); auto. Qed.

Lemma at_ch c h c1 h1 : (c1 =? c) && (h1 =? h) = true -> c1 = c /\ h1 = h.
Proof. intros E. apply andb_prop in E. destruct E as [E1 E2]. apply N.eqb_eq in E1, E2. auto. Qed.

(* one consumer (the one with that tag, not stopped, of queue q0) is stopped and its registry entry removed *)
Lemma RI_stop_view s s' c h tag q0 v0 :
  RI s -> chv s c h = Some v0 -> In (tag, q0, false) v0 ->
  (forall c1 h1, chv s' c1 h1 = if (c1 =? c) && (h1 =? h) then Some (map (stopv tag) v0) else chv s c1 h1) ->
  (forall qn, qreg s' qn = if seqb qn q0 then option_map (remove_first (isx c h tag)) (qreg s qn) else qreg s qn) ->
  RI s'.
Proof.
  intros [T N C] Ev Hin Hc Hq.
  assert (Hnd0 : NoDup (map tagof v0)) by (apply (T c h); exact Ev).
  constructor.
  - intros c1 h1 v. rewrite Hc. destruct ((c1 =? c) && (h1 =? h)); [|apply T].
    intros E. inversion E; subst. rewrite map_tagof_stopv. exact Hnd0.
  - intros qn r. rewrite Hq. destruct (seqb qn q0); [|apply N].
    destruct (qreg s qn) as [r0|] eqn:Er; cbn; [|discriminate]. intros E; inversion E; subst. apply NoDup_remove_first. apply (N qn); exact Er.
  - intros qn r c1 h1 t1 Er Hx.
    assert (Hold : exists r0, qreg s qn = Some r0 /\ In (c1, h1, t1) r0 /\ (qn = q0 -> (c1, h1, t1) <> (c, h, tag))).
    { rewrite Hq in Er. destruct (seqb qn q0) eqn:Eq.
      - destruct (qreg s qn) as [r0|] eqn:Er0; cbn in Er; [|discriminate]. inversion Er; subst. exists r0. split; auto.
        split; [eapply remove_first_in; eauto|]. intros _ Ex. rewrite Ex in Hx.
        apply (remove_first_removes (isx c h tag) (c, h, tag) r0 (isx_spec c h tag) (N qn r0 Er0)). exact Hx.
      - exists r. split; auto. split; auto. intros E. apply seqb_spec in E. congruence. }
    destruct Hold as (r0 & Er0 & Hin0 & Hne).
    destruct (C qn r0 c1 h1 t1 Er0 Hin0) as (v & Ev1 & Hv).
    rewrite Hc. destruct ((c1 =? c) && (h1 =? h)) eqn:Eb; [|eauto].
    destruct (at_ch _ _ _ _ Eb) as [-> ->]. rewrite Ev in Ev1. inversion Ev1; subst v.
    eexists. split; [reflexivity|].
    assert (Ht : t1 <> tag).
    { intros ->. pose proof (tag_unique v0 tag qn q0 false false Hnd0 Hv Hin) as E. inversion E; subst. apply Hne; reflexivity. }
    rewrite <- (stopv_other tag t1 qn false Ht). apply in_map. exact Hv.
Qed.

(* the consumer list of a channel whose consumers are all stopped is cleared *)
Lemma RI_clear_view s s' c h v0 :
  RI s -> chv s c h = Some v0 -> (forall x, In x v0 -> snd x = true) ->
  (forall c1 h1, chv s' c1 h1 = if (c1 =? c) && (h1 =? h) then Some [] else chv s c1 h1) ->
  (forall qn, qreg s' qn = qreg s qn) -> RI s'.
Proof.
  intros [T N C] Ev Hall Hc Hq. constructor.
  - intros c1 h1 v. rewrite Hc. destruct ((c1 =? c) && (h1 =? h)); [|apply T]. intros E; inversion E. constructor.
  - intros qn r. rewrite Hq. apply N.
  - intros qn r c1 h1 t1. rewrite Hq. intros Er Hx. destruct (C qn r c1 h1 t1 Er Hx) as (v & Ev1 & Hv).
    rewrite Hc. destruct ((c1 =? c) && (h1 =? h)) eqn:Eb; [|eauto].
    destruct (at_ch _ _ _ _ Eb) as [-> ->]. rewrite Ev in Ev1. inversion Ev1; subst v. apply Hall in Hv. discriminate.
Qed.

(* the stopped consumers with that tag leave the list *)
Lemma RI_filter_view s s' c h tag v0 :
  RI s -> chv s c h = Some v0 -> (forall x, In x v0 -> tagof x = tag -> snd x = true) ->
  (forall c1 h1, chv s' c1 h1 = if (c1 =? c) && (h1 =? h) then Some (filter (fun x => negb (seqb (tagof x) tag)) v0) else chv s c1 h1) ->
  (forall qn, qreg s' qn = qreg s qn) -> RI s'.
Proof.
  intros [T N C] Ev Hall Hc Hq. constructor.
  - intros c1 h1 v. rewrite Hc. destruct ((c1 =? c) && (h1 =? h)); [|apply T]. intros E; inversion E.
    apply NoDup_map_filter. apply (T c h). exact Ev.
  - intros qn r. rewrite Hq. apply N.
  - intros qn r c1 h1 t1. rewrite Hq. intros Er Hx. destruct (C qn r c1 h1 t1 Er Hx) as (v & Ev1 & Hv).
    rewrite Hc. destruct ((c1 =? c) && (h1 =? h)) eqn:Eb; [|eauto].
    destruct (at_ch _ _ _ _ Eb) as [-> ->]. rewrite Ev in Ev1. inversion Ev1; subst v. eexists. split; [reflexivity|].
    apply filter_In. split; auto. cbn. destruct (seqb t1 tag) eqn:E; auto. apply seqb_spec in E. subst.
    specialize (Hall _ Hv eq_refl). discriminate.
Qed.

(* a consumer is started: a new entry in the list of its channel and in the registry of its queue *)
Lemma RI_consume_view s s' c h tag q v0 r0 :
  RI s -> chv s c h = Some v0 -> qreg s q = Some r0 -> ~ In tag (map tagof v0) ->
  (forall c1 h1, chv s' c1 h1 = if (c1 =? c) && (h1 =? h) then Some (v0 ++ [(tag, q, false)]) else chv s c1 h1) ->
  (forall qn, qreg s' qn = if seqb qn q then Some (r0 ++ [(c, h, tag)]) else qreg s qn) -> RI s'.
Proof.
  intros [T N C] Ev Er Hfresh Hc Hq. constructor.
  - intros c1 h1 v. rewrite Hc. destruct ((c1 =? c) && (h1 =? h)); [|apply T]. intros E; inversion E.
    rewrite map_app. cbn. apply NoDup_snoc; auto. apply (T c h). exact Ev.
  - intros qn r. rewrite Hq. destruct (seqb qn q) eqn:Eq; [|apply N]. intros E; inversion E. apply seqb_spec in Eq. subst qn.
    apply NoDup_snoc; [apply (N q); exact Er|]. intros Hin. destruct (C q r0 c h tag Er Hin) as (v & Ev1 & Hv).
    rewrite Ev in Ev1. inversion Ev1; subst v. apply Hfresh. apply in_map_iff. exists (tag, q, false). auto.
  - intros qn r c1 h1 t1 Er1 Hx.
    assert (Hcases : (c1, h1, t1, qn) = (c, h, tag, q) \/ exists r1, qreg s qn = Some r1 /\ In (c1, h1, t1) r1).
    { rewrite Hq in Er1. destruct (seqb qn q) eqn:Eq; [|eauto]. apply seqb_spec in Eq. subst qn. inversion Er1; subst r.
      apply in_app_or in Hx. destruct Hx as [Hx|[Hx|[]]]; [eauto|]. inversion Hx; subst. auto. }
    destruct Hcases as [E|(r1 & Er2 & Hin1)].
    + inversion E; subst. rewrite Hc, !N.eqb_refl. cbn. eexists. split; [reflexivity|]. apply in_or_app. right. left. reflexivity.
    + destruct (C qn r1 c1 h1 t1 Er2 Hin1) as (v & Ev1 & Hv). rewrite Hc.
      destruct ((c1 =? c) && (h1 =? h)) eqn:Eb; [|eauto].
      destruct (at_ch _ _ _ _ Eb) as [-> ->]. rewrite Ev in Ev1. inversion Ev1; subst v. eexists. split; [reflexivity|].
      apply in_or_app. left. exact Hv.
Qed.

(* registries only lose whole queues or become empty; channels are only added empty *)
Lemma RI_shrink_view s s' :
  RI s ->
  (forall c1 h1, chv s' c1 h1 = chv s c1 h1 \/ (chv s' c1 h1 = Some [] /\ chv s c1 h1 = None)) ->
  (forall qn, qreg s' qn = qreg s qn \/ qreg s' qn = None \/ qreg s' qn = Some []) -> RI s'.
Proof.
  intros [T N C] Hc Hq. constructor.
  - intros c1 h1 v E. destruct (Hc c1 h1) as [E1|[E1 _]]; rewrite E1 in E; [eapply T; eauto|inversion E; constructor].
  - intros qn r E. destruct (Hq qn) as [E1|[E1|E1]]; rewrite E1 in E; [eapply N; eauto|discriminate|inversion E; constructor].
  - intros qn r c1 h1 t1 E Hx. destruct (Hq qn) as [E1|[E1|E1]]; rewrite E1 in E; [|discriminate|inversion E; subst; destruct Hx].
    destruct (C qn r c1 h1 t1 E Hx) as (v & Ev1 & Hv). destruct (Hc c1 h1) as [E2|[_ E2]]; [rewrite E2; eauto|congruence].
Qed.

Lemma chv_set_chan_at s c h ch ch' c1 h1 : get_chan s c h = Some ch ->
  chv (set_chan s c h ch') c1 h1 = if (c1 =? c) && (h1 =? h) then Some (cvw ch') else chv s c1 h1.
Proof.
  intros Eg. unfold chv. rewrite get_chan_set_chan. pose proof (get_chan_conn _ _ _ _ Eg). destruct (get_conn s c); [|congruence].
  destruct ((c1 =? c) && (h1 =? h)); reflexivity.
Qed.
Lemma chv_upd_chan_at s c h f c1 h1 :
  chv (upd_chan s c h f) c1 h1 = if (c1 =? c) && (h1 =? h) then option_map (fun ch => cvw (f ch)) (get_chan s c h) else chv s c1 h1.
Proof.
  unfold upd_chan. destruct (get_chan s c h) as [ch|] eqn:E.
  - rewrite (chv_set_chan_at _ _ _ ch _ _ _ E). reflexivity.
  - destruct ((c1 =? c) && (h1 =? h)) eqn:Eb; auto. destruct (at_ch _ _ _ _ Eb) as [-> ->]. unfold chv. rewrite E. reflexivity.
Qed.
Lemma cvw_stop ch tag : cvw (upd_consumer ch tag (fun cm => cm <| c_status := CStopped |>)) = map (stopv tag) (cvw ch).
Proof.
  unfold cvw, upd_consumer. cbn. rewrite !map_map. apply map_ext. intros cm. unfold stopv, tagof. cbn.
  destruct (seqb (c_tag cm) tag); reflexivity.
Qed.
Lemma qreg_remove_consumer s q0 c h tag qn :
  qreg (queue_remove_consumer s q0 c h tag) qn = if seqb qn q0 then option_map (remove_first (isx c h tag)) (qreg s qn) else qreg s qn.
Proof.
  unfold queue_remove_consumer. destruct (get_queue s q0) as [qu|] eqn:Eq.
  - match goal with |- qreg (if ?b then ?a <| autodel ::= _ |> else ?a') qn = _ =>
      assert (Ea : qreg a qn = if seqb qn q0 then option_map (remove_first (isx c h tag)) (qreg s qn) else qreg s qn) end.
    { unfold qreg. rewrite get_queue_set_queue'. destruct (seqb qn q0) eqn:E; auto. apply seqb_spec in E. subst. rewrite Eq. cbn.
      destruct (Nat.eqb _ 0); reflexivity. }
    match goal with |- qreg (if ?b then _ else _) qn = _ => destruct b end; [|exact Ea].
    rewrite <- Ea. apply qreg_same_queues. reflexivity.
  - destruct (seqb qn q0) eqn:E; auto. apply seqb_spec in E. subst. unfold qreg. rewrite Eq. reflexivity.
Qed.
Lemma chv_remove_consumer s q0 c h tag c1 h1 : chv (queue_remove_consumer s q0 c h tag) c1 h1 = chv s c1 h1.
Proof. apply chv_same_conns. apply (proj2 (proj2 (proj2 conns_queue_ops))). Qed.

Lemma stoppedb_false cm : stoppedb cm = false <-> c_status cm <> CStopped.
Proof. unfold stoppedb. destruct (c_status cm); split; congruence. Qed.
Lemma in_cvw ch cm : In cm (ch_consumers ch) -> In (c_tag cm, c_queue cm, stoppedb cm) (cvw ch).
Proof. intros H. unfold cvw. apply in_map_iff. exists cm. auto. Qed.

Lemma RI_consumer_stop s c h tag : RI s -> RI (consumer_stop s c h tag).
Proof.
  intros R. unfold consumer_stop. destruct (get_chan s c h) as [ch|] eqn:E; auto.
  destruct (find_consumer ch tag) as [cm|] eqn:Ef; auto.
  destruct (find_consumer_in _ _ _ Ef) as [Hin Ht].
  assert (Hgo : c_status cm <> CStopped ->
    RI (queue_remove_consumer (set_chan s c h (upd_consumer ch tag (fun cm0 => cm0 <| c_status := CStopped |>))) (c_queue cm) c h tag)).
  { intros Hns. apply (RI_stop_view s _ c h tag (c_queue cm) (cvw ch) R).
    - unfold chv. rewrite E. reflexivity.
    - rewrite <- Ht. replace false with (stoppedb cm) by (apply stoppedb_false; exact Hns). apply in_cvw. exact Hin.
    - intros c1 h1. rewrite chv_remove_consumer, (chv_set_chan_at _ _ _ ch _ _ _ E), cvw_stop. reflexivity.
    - intros qn. rewrite qreg_remove_consumer. rewrite (qreg_same_queues s (set_chan s c h _)) by apply queues_set_chan. reflexivity. }
  destruct (c_status cm) eqn:Es; auto; apply Hgo; congruence.
Qed.

(* what stopping does to the consumer lists, in every case *)
Lemma stop_char s c h tag : RI s -> forall c1 h1,
  chv (consumer_stop s c h tag) c1 h1 = if (c1 =? c) && (h1 =? h) then option_map (map (stopv tag)) (chv s c h) else chv s c1 h1.
Proof.
  intros R c1 h1. unfold consumer_stop. destruct (get_chan s c h) as [ch|] eqn:E.
  2:{ destruct ((c1 =? c) && (h1 =? h)) eqn:Eb; auto. destruct (at_ch _ _ _ _ Eb) as [-> ->]. unfold chv. rewrite E. reflexivity. }
  assert (Hid : (forall cm0, In cm0 (ch_consumers ch) -> c_tag cm0 = tag -> stoppedb cm0 = true) ->
                (if (c1 =? c) && (h1 =? h) then option_map (map (stopv tag)) (chv s c h) else chv s c1 h1) = chv s c1 h1).
  { intros Hall. destruct ((c1 =? c) && (h1 =? h)) eqn:Eb; auto. destruct (at_ch _ _ _ _ Eb) as [-> ->]. unfold chv. rewrite E. cbn. f_equal.
    unfold cvw. rewrite map_map. apply map_ext_in. intros cm0 Hin0. unfold stopv, tagof. cbn.
    destruct (seqb (c_tag cm0) tag) eqn:Et; auto. apply seqb_spec in Et. rewrite (Hall cm0 Hin0 Et). reflexivity. }
  destruct (find_consumer ch tag) as [cm|] eqn:Ef.
  - destruct (find_consumer_in _ _ _ Ef) as [Hin Ht].
    assert (Hgo : chv (queue_remove_consumer (set_chan s c h (upd_consumer ch tag (fun cm0 => cm0 <| c_status := CStopped |>))) (c_queue cm) c h tag) c1 h1 =
                  if (c1 =? c) && (h1 =? h) then option_map (map (stopv tag)) (chv s c h) else chv s c1 h1).
    { rewrite chv_remove_consumer, (chv_set_chan_at _ _ _ ch _ _ _ E), cvw_stop. unfold chv at 2. rewrite E. reflexivity. }
    destruct (c_status cm) eqn:Es; try exact Hgo.
    symmetry. apply Hid. intros cm0 Hin0 Ht0.
    rewrite (find_consumer_unique ch tag cm cm0 (RI_tags_chan s c h ch R E) Ef Hin0 Ht0). unfold stoppedb. rewrite Es. reflexivity.
  - symmetry. apply Hid. intros cm0 Hin0 Ht0. exfalso. unfold find_consumer in Ef.
    pose proof (find_none _ _ Ef cm0 Hin0) as Hf. cbn in Hf. rewrite (proj2 (seqb_spec _ _) Ht0) in Hf. discriminate.
Qed.

Definition stops (tags : list string) (v : list (string * string * bool)) : list (string * string * bool) :=
  fold_left (fun v t => map (stopv t) v) tags v.
Lemma snd_stopv t x : snd x = true -> snd (stopv t x) = true.
Proof. unfold stopv. destruct (seqb (tagof x) t); auto. Qed.
Lemma stops_tagof tags : forall v, map tagof (stops tags v) = map tagof v.
Proof. induction tags as [|t ts IH]; intros v; cbn; auto. unfold stops in *. rewrite IH. apply map_tagof_stopv. Qed.
Lemma stops_keeps tags t : forall v, (forall y, In y v -> tagof y = t -> snd y = true) ->
  forall x, In x (stops tags v) -> tagof x = t -> snd x = true.
Proof.
  induction tags as [|t' ts IH]; intros v Hv x Hx Ht; cbn in Hx; [auto|].
  apply (IH (map (stopv t') v)); auto. intros y Hy Hty. apply in_map_iff in Hy. destruct Hy as (y0 & <- & Hy0).
  apply snd_stopv. apply Hv; auto. rewrite <- Hty. symmetry. apply tagof_stopv.
Qed.
Lemma stops_all tags : forall v x, In x (stops tags v) -> In (tagof x) tags -> snd x = true.
Proof.
  induction tags as [|t ts IH]; intros v x Hx Hin; [destruct Hin|]. cbn in Hx. destruct Hin as [Ht|Hin]; [|eapply IH; eauto].
  apply (stops_keeps ts t (map (stopv t) v)); auto.
  intros y Hy Hty. apply in_map_iff in Hy. destruct Hy as (y0 & <- & Hy0). unfold stopv in *.
  destruct (seqb (tagof y0) t) eqn:E; [reflexivity|]. exfalso. apply seqb_spec in Hty. congruence.
Qed.

Lemma stop_fold c h l : forall s, RI s ->
  RI (fold_left (fun s cm => consumer_stop s c h (c_tag cm)) l s) /\
  (forall c1 h1, chv (fold_left (fun s cm => consumer_stop s c h (c_tag cm)) l s) c1 h1 =
                 if (c1 =? c) && (h1 =? h) then option_map (stops (map c_tag l)) (chv s c h) else chv s c1 h1) /\
  (forall qn r', qreg (fold_left (fun s cm => consumer_stop s c h (c_tag cm)) l s) qn = Some r' ->
                 exists r, qreg s qn = Some r /\ forall x, In x r' -> In x r).
Proof.
  induction l as [|cm t IH]; intros s R; cbn [fold_left map].
  - split; auto. split; [|eauto]. intros c1 h1. destruct ((c1 =? c) && (h1 =? h)) eqn:Eb; auto.
    destruct (at_ch _ _ _ _ Eb) as [-> ->]. destruct (chv s c h); reflexivity.
  - pose proof (RI_consumer_stop s c h (c_tag cm) R) as R1. destruct (IH _ R1) as (A & B & C). split; auto. split.
    + intros c1 h1. rewrite B. rewrite !(stop_char s c h (c_tag cm) R). rewrite !N.eqb_refl. cbn [andb].
      destruct ((c1 =? c) && (h1 =? h)); auto. destruct (chv s c h); reflexivity.
    + intros qn r' E. destruct (C qn r' E) as (r1 & E1 & Hs).
      assert (Hq : exists r, qreg s qn = Some r /\ forall x, In x r1 -> In x r).
      { unfold consumer_stop in E1. destruct (get_chan s c h) as [ch|]; [|eauto]. destruct (find_consumer ch (c_tag cm)) as [cm0|]; [|eauto].
        assert (Hgo : forall st, queues st = queues s -> qreg (queue_remove_consumer st (c_queue cm0) c h (c_tag cm)) qn = Some r1 ->
                                 exists r, qreg s qn = Some r /\ forall x, In x r1 -> In x r).
        { intros st Eqs Eg. rewrite qreg_remove_consumer, (qreg_same_queues s st qn Eqs) in Eg.
          destruct (seqb qn (c_queue cm0)); [|eauto]. destruct (qreg s qn) as [r|]; cbn in Eg; [|discriminate].
          inversion Eg; subst. exists r. split; auto. intros x. apply remove_first_in. }
        destruct (c_status cm0); eauto; apply (Hgo _ (queues_set_chan _ _ _ _) E1). }
      destruct Hq as (r & Er & Hs2). exists r. split; auto.
Qed.

Theorem channel_close_RI cfg s c h : RI s ->
  RI (channel_close cfg s c h) /\
  (forall c1 h1, chv (channel_close cfg s c h) c1 h1 = if (c1 =? c) && (h1 =? h) then option_map (fun _ => []) (chv s c h) else chv s c1 h1) /\
  (forall qn r', qreg (channel_close cfg s c h) qn = Some r' -> exists r, qreg s qn = Some r /\ forall x, In x r' -> In x r).
Proof.
  intros R. unfold channel_close. destruct (get_chan s c h) as [ch|] eqn:E.
  2:{ split; auto. split; [|eauto]. intros c1 h1. destruct ((c1 =? c) && (h1 =? h)) eqn:Eb; auto.
      destruct (at_ch _ _ _ _ Eb) as [-> ->]. unfold chv. rewrite E. reflexivity. }
  destruct (stop_fold c h (ch_consumers ch) s R) as (R1 & B1 & C1).
  set (s1 := fold_left _ (ch_consumers ch) s) in *.
  assert (Ev : chv s c h = Some (cvw ch)) by (unfold chv; rewrite E; reflexivity).
  assert (Ev1 : chv s1 c h = Some (stops (map c_tag (ch_consumers ch)) (cvw ch))) by (rewrite B1, !N.eqb_refl, Ev; reflexivity).
  assert (Eg1 : exists ch1, get_chan s1 c h = Some ch1) by (unfold chv in Ev1; destruct (get_chan s1 c h); [eauto|discriminate]).
  destruct Eg1 as (ch1 & Eg1).
  set (s2 := upd_chan s1 c h (fun ch0 => ch0 <| ch_consumers := [] |>)).
  assert (B2 : forall c1 h1, chv s2 c1 h1 = if (c1 =? c) && (h1 =? h) then Some [] else chv s1 c1 h1).
  { intros c1 h1. unfold s2. rewrite chv_upd_chan_at, Eg1. reflexivity. }
  assert (Q2 : forall qn, qreg s2 qn = qreg s1 qn) by (intros; apply qreg_same_queues; apply queues_upd_chan).
  assert (R2 : RI s2).
  { apply (RI_clear_view s1 s2 c h _ R1 Ev1); auto. intros x Hx. apply (stops_all _ _ _ Hx).
    rewrite <- tagof_cvw. rewrite <- (stops_tagof (map tagof (cvw ch)) (cvw ch)). rewrite tagof_cvw. apply in_map. exact Hx. }
  set (s3 := if 0 <? h then fst (handle_reject cfg s2 c h 0 true true 60 120) else s2).
  assert (S3 : rsame s2 s3) by (unfold s3; destruct (0 <? h); [apply rsame_handle_reject|apply rsame_refl]).
  assert (S4 : rsame s3 (upd_chan s3 c h (fun ch0 => ch0 <| ch_status := ChClosed |> <| ch_cur := None |>))) by (apply rsame_upd_chan; reflexivity).
  pose proof (rsame_trans _ _ _ S3 S4) as [S5 S6].
  split; [eapply RI_rsame; [exact (conj S5 S6)|exact R2]|]. split.
  - intros c1 h1. rewrite S5, B2, B1. destruct ((c1 =? c) && (h1 =? h)) eqn:Eb; auto. rewrite Ev. reflexivity.
  - intros qn r'. rewrite S6, Q2. apply C1.
Qed.
Lemma RI_channel_close cfg s c h : RI s -> RI (channel_close cfg s c h).
Proof. intros R. apply channel_close_RI. exact R. Qed.

Definition emptyc (s : state) (c : N) : Prop := forall h v, chv s c h = Some v -> v = [].
Lemma emptyc_rsame s s' c : rsame s s' -> emptyc s c -> emptyc s' c.
Proof. intros [A _] H h v. rewrite A. apply H. Qed.
Lemma emptyc_consumer_stop s c c' h' tag : RI s -> emptyc s c -> emptyc (consumer_stop s c' h' tag) c.
Proof.
  intros R H h v. rewrite (stop_char s c' h' tag R). destruct ((c =? c') && (h =? h')) eqn:Eb; [|apply H].
  destruct (at_ch _ _ _ _ Eb) as [<- <-]. destruct (chv s c h) as [v0|] eqn:E; cbn; [|discriminate].
  intros E1; inversion E1. rewrite (H h v0 E). reflexivity.
Qed.

Lemma cancel_fold_RI c l : forall s evs, RI s -> emptyc s c ->
  let s1 := fst (fold_left (fun acc x => let '(s, evs) := acc in let '(s', e) := consumer_cancel s x in (s', evs ++ e)) l (s, evs)) in
  RI s1 /\ emptyc s1 c.
Proof.
  induction l as [|[[c0 h] tag] t IH]; intros s evs R H; simpl; auto.
  apply IH; [apply RI_consumer_stop; auto|apply emptyc_consumer_stop; auto].
Qed.

Lemma qreg_del_queue s qn qn' : qreg (s <| queues := adel seqb qn (queues s) |>) qn' = if seqb qn' qn then None else qreg s qn'.
Proof. unfold qreg. rewrite get_queue_del. destruct (seqb qn' qn); reflexivity. Qed.

Lemma del_queue_RI c st qn : RI st -> emptyc st c ->
  RI (st <| queues := adel seqb qn (queues st) |>) /\ emptyc (st <| queues := adel seqb qn (queues st) |>) c.
Proof.
  intros R2 H2. split.
  - apply (RI_shrink_view st); auto.
    intros qn'. rewrite qreg_del_queue. destruct (seqb qn' qn); auto.
  - intros h v E. apply (H2 h v). rewrite <- E. symmetry. apply chv_same_conns. reflexivity.
Qed.

Lemma vhost_delete_RI c b s qn iu ie : RI s -> emptyc s c ->
  RI (fst (fst (vhost_delete_queue b s qn iu ie))) /\ emptyc (fst (fst (vhost_delete_queue b s qn iu ie))) c.
Proof.
  intros R H. unfold vhost_delete_queue. destruct (get_queue s qn) as [qu|] eqn:Eq; auto.
  destruct (_ || _).
  - cbn [fst]. destruct b; auto.
    assert (S : rsame s (set_queue s qn (qu <| q_active := false |>))) by (eapply rsame_set_queue; [exact Eq|reflexivity]).
    split; [eapply RI_rsame; eauto|eapply emptyc_rsame; eauto].
  - destruct (cancel_fold_RI c (q_consumers qu) s [] R H) as [R1 H1].
    destruct (fold_left _ (q_consumers qu) (s, [])) as [s1 e1]. cbn [fst] in *.
    apply del_queue_RI.
    + eapply RI_rsame; [|exact R1]. apply rsame_same; destruct (q_durable qu); reflexivity.
    + eapply emptyc_rsame; [|exact H1]. apply rsame_same; destruct (q_durable qu); reflexivity.
Qed.
(* for a connection id that names no connection at all the emptiness is trivial *)
Lemma RI_vhost_delete_queue b s qn iu ie : RI s -> RI (fst (fst (vhost_delete_queue b s qn iu ie))).
Proof.
  intros R.
  assert (He : exists c, emptyc s c -> True) by (exists 0; auto).
  (* emptyc is only carried along; run the same proof with a vacuous instance *)
  unfold vhost_delete_queue. destruct (get_queue s qn) as [qu|] eqn:Eq; auto.
  destruct (_ || _).
  - cbn [fst]. destruct b; auto. eapply RI_rsame; [|exact R]. eapply rsame_set_queue; [exact Eq|reflexivity].
  - assert (R1 : forall l s0 evs, RI s0 -> RI (fst (fold_left (fun acc x => let '(s, evs) := acc in let '(s', e) := consumer_cancel s x in (s', evs ++ e)) l (s0, evs)))).
    { induction l as [|[[c0 h] tag] t IH]; intros s0 evs R0; simpl; auto. apply IH. apply RI_consumer_stop; auto. }
    specialize (R1 (q_consumers qu) s [] R).
    destruct (fold_left _ (q_consumers qu) (s, [])) as [s1 e1]. cbn [fst] in *.
    match goal with |- RI (?st <| queues := adel seqb qn (queues ?st) |>) => apply (RI_shrink_view st) end.
    + eapply RI_rsame; [|exact R1]. apply rsame_same; destruct (q_durable qu); reflexivity.
    + intros c1 h1. left. apply chv_same_conns. reflexivity.
    + intros qn'. rewrite qreg_del_queue. destruct (seqb qn' qn); auto.
Qed.

Lemma close_fold_RI cfg c ids : forall s, RI s ->
  RI (fold_left (fun s h => channel_close cfg s c h) ids s) /\
  (forall c1 h1, chv (fold_left (fun s h => channel_close cfg s c h) ids s) c1 h1 =
                 if (c1 =? c) && existsb (N.eqb h1) ids then option_map (fun _ => []) (chv s c1 h1) else chv s c1 h1).
Proof.
  induction ids as [|h t IH]; intros s R; cbn [fold_left existsb].
  - split; auto. intros c1 h1. rewrite andb_false_r. reflexivity.
  - destruct (channel_close_RI cfg s c h R) as (R1 & B1 & _). destruct (IH _ R1) as (R2 & B2). split; auto.
    intros c1 h1. rewrite B2, !B1.
    destruct (c1 =? c) eqn:E1; cbn [andb]; auto. apply N.eqb_eq in E1. subst c1.
    destruct (h1 =? h) eqn:E2; cbn [orb].
    + apply N.eqb_eq in E2. subst h1. destruct (existsb (N.eqb h) t); destruct (chv s c h); reflexivity.
    + reflexivity.
Qed.

Lemma delete_fold_RI c b l : forall s evs, RI s -> emptyc s c ->
  let s1 := fst (fold_left (fun acc qn => let '(s, evs) := acc in
                                    let '(s', e, _) := vhost_delete_queue b s qn false false in (s', evs ++ e)) l (s, evs)) in
  RI s1 /\ emptyc s1 c.
Proof.
  induction l as [|x t IH]; intros s evs R H; simpl; auto.
  destruct (vhost_delete_RI c b s x false false R H) as [R1 H1].
  destruct (vhost_delete_queue b s x false false) as [[s1 e1] r1]. cbn [fst] in *. apply IH; auto.
Qed.

Lemma RI_del_conn s c : RI s -> emptyc s c -> RI (s <| conns := adel N.eqb c (conns s) |>).
Proof.
  intros [T N C] H.
  assert (Hc : forall c1 h1, chv (s <| conns := adel N.eqb c (conns s) |>) c1 h1 = if c1 =? c then None else chv s c1 h1).
  { intros c1 h1. unfold chv. rewrite get_chan_del_conn. destruct (c1 =? c); reflexivity. }
  constructor.
  - intros c1 h1 v. rewrite Hc. destruct (c1 =? c); [discriminate|apply T].
  - intros qn r E. apply (N qn r). exact E.
  - intros qn r c1 h1 t1 E Hx. destruct (C qn r c1 h1 t1 E Hx) as (v & Ev & Hv). rewrite Hc.
    destruct (c1 =? c) eqn:E1; [|eauto]. apply N.eqb_eq in E1. subst. rewrite (H h1 v Ev) in Hv. destruct Hv.
Qed.

Lemma RI_conn_close cfg fx s c : RI s -> RI (fst (conn_close cfg fx s c)).
Proof.
  intros R. unfold conn_close. destruct (get_conn s c) as [cn|] eqn:Ec; [|exact R].
  destruct (close_fold_RI cfg c (sort_desc_N (map fst (cn_chans cn))) s R) as [R1 B1].
  set (s1 := fold_left _ _ s) in *.
  assert (H1 : emptyc s1 c).
  { intros h v. rewrite B1, N.eqb_refl. cbn [andb]. destruct (existsb (N.eqb h) _) eqn:Ex.
    - destruct (chv s c h); cbn; [|discriminate]. intros E; inversion E; reflexivity.
    - intros E. exfalso. unfold chv, get_chan in E. rewrite Ec in E. destruct (alookup N.eqb h (cn_chans cn)) as [ch|] eqn:Eh; [|discriminate].
      assert (Hin : In h (sort_desc_N (map fst (cn_chans cn)))).
      { eapply Permutation_in; [symmetry; apply sort_desc_N_perm|]. apply in_map_iff. exists (h, ch). split; auto.
        eapply alookup_in; [apply Neqb_spec|exact Eh]. }
      assert (existsb (N.eqb h) (sort_desc_N (map fst (cn_chans cn))) = true) by (apply existsb_exists; exists h; split; auto; apply N.eqb_refl).
      congruence. }
  clearbody s1.
  destruct (delete_fold_RI c (negb (fx_delete_checks_first fx))
              (map fst (filter (fun kv => q_excl (snd kv) && (q_owner (snd kv) =? c)) (queues s1))) s1 [] R1 H1) as [R2 H2].
  destruct (fold_left _ _ (s1, [])) as [s2 e2]. cbn [fst] in *. apply RI_del_conn; auto.
Qed.

Lemma cvw_of_consumers ch ch' f : ch_consumers ch' = map f (ch_consumers ch) ->
  (forall cm, c_tag (f cm) = c_tag cm /\ c_queue (f cm) = c_queue cm /\ stoppedb (f cm) = stoppedb cm) -> cvw ch' = cvw ch.
Proof.
  intros E Hf. unfold cvw. rewrite E, map_map. apply map_ext. intros cm. destruct (Hf cm) as (A & B & C). rewrite A, B, C. reflexivity.
Qed.

Lemma RI_ensure_chan s c h : RI s -> RI (ensure_chan s c h).
Proof.
  intros R. apply (RI_shrink_view s); auto; [|intros; left; apply qreg_same_queues; apply queues_ensure_chan].
  intros c1 h1. unfold ensure_chan. destruct (get_conn s c) as [cn|] eqn:Ec; auto.
  destruct (alookup N.eqb h (cn_chans cn)) eqn:Eh; auto.
  unfold chv, get_chan, get_conn in *. cbn. rewrite (alookup_aset N.eqb Neqb_spec).
  destruct (c1 =? c) eqn:E1; auto. apply N.eqb_eq in E1. subst. rewrite Ec. cbn. rewrite (alookup_aset N.eqb Neqb_spec).
  destruct (h1 =? h) eqn:E2; auto. apply N.eqb_eq in E2. subst. rewrite Eh. right. auto.
Qed.
Lemma RI_newconn s c st : get_conn s c = None -> RI s ->
  RI (s <| conns := aset N.eqb c {| cn_chans := [(0, channel0 <| ch_status := ChNew |>)]; cn_qos := qos0; cn_stage := st |} (conns s) |>).
Proof.
  intros Ec R. apply (RI_shrink_view s); auto.
  intros c1 h1. unfold chv, get_chan, get_conn in *. cbn. rewrite (alookup_aset N.eqb Neqb_spec).
  destruct (c1 =? c) eqn:E1; auto. apply N.eqb_eq in E1. subst. rewrite Ec. cbn. destruct (h1 =? 0); auto.
Qed.
Lemma RI_restart cfg s : RI (fst (restart cfg s)).
Proof.
  unfold restart. cbn [fst]. constructor.
  - intros c h v E. unfold chv, get_chan, get_conn in E. cbn in E. discriminate.
  - intros qn r E. unfold qreg, get_queue in E. cbn in E. rewrite get_queue_map_rq in E.
    destruct (alookup seqb qn _); cbn in E; [|discriminate]. inversion E. constructor.
  - intros qn r c h tag E Hx. unfold qreg, get_queue in E. cbn in E. rewrite get_queue_map_rq in E.
    destruct (alookup seqb qn _); cbn in E; [|discriminate]. inversion E; subst. destruct Hx.
Qed.
Lemma RI_init cfg : RI (init cfg).
Proof. constructor; intros; try discriminate. Qed.

Lemma RI_send_error s c h e : RI s -> RI (fst (send_error s c h e)).
Proof. intros R. destruct e; cbn [send_error fst]; auto. eapply RI_rsame; [|exact R]. apply rsame_upd_chan. reflexivity. Qed.
Lemma RI_apply_err s c h r : RI (fst (fst r)) -> RI (fst (apply_err s c h r)).
Proof.
  destruct r as [[s1 e1] [e|]]; cbn [fst]; auto.
  intros H. unfold apply_err. pose proof (RI_send_error s1 c h e H) as Hs.
  destruct (send_error s1 c h e) as [s2 e2]. exact Hs.
Qed.
Lemma RI_apply_err_st cfg fx opened s c h r : RI (fst (fst r)) -> RI (fst (apply_err_st cfg fx opened s c h r)).
Proof.
  intros H. unfold apply_err_st. destruct opened; [apply RI_apply_err; auto|].
  destruct (snd r) as [[| ]|]; try (apply RI_apply_err; auto).
  pose proof (RI_apply_err s c h r H) as H1. destruct (apply_err s c h r) as [s1 e1]. cbn [fst] in H1.
  pose proof (RI_conn_close cfg fx s1 c H1) as H2. destruct (conn_close cfg fx s1 c) as [s2 e2]. exact H2.
Qed.
Lemma RI_push_one s c h u pers hm qn : RI s -> RI (push_one s c h u pers hm qn).
Proof.
  intros R. unfold push_one. pose proof (RI_rsame _ _ (rsame_queue_push s qn u) R) as R1.
  destruct (get_msg _ u); auto. destruct (_ && _ && _)%bool; auto. eapply RI_rsame; [apply rsame_add_confirm|exact R1].
Qed.
Lemma RI_route_and_push fx s c h u : RI s -> RI (fst (route_and_push fx s c h u)).
Proof.
  intros R. unfold route_and_push. destruct (get_msg s u) as [m|]; auto.
  destruct (alookup _ _ _) as [ex|]; cbn [fst]; [|eapply RI_rsame; [apply rsame_add_confirm|exact R]].
  destruct (matched_queues _ _ _) as [|q1 qs]; cbn [fst]; [eapply RI_rsame; [apply rsame_add_confirm|exact R]|].
  apply fold_left_preserves; [intros; apply RI_push_one; auto|].
  destruct (_ && _)%bool; auto. eapply RI_rsame; [apply rsame_upd_msg|exact R].
Qed.
Lemma RI_finish_publish fx s c h u : RI s -> RI (fst (finish_publish fx s c h u)).
Proof.
  intros R. unfold finish_publish. pose proof (RI_route_and_push fx s c h u R) as H1.
  destruct (route_and_push fx s c h u) as [s1 e1]. cbn [fst] in *. destruct (fx_clear_current fx); auto.
  eapply RI_rsame; [|exact H1]. apply rsame_upd_chan. reflexivity.
Qed.

Lemma rsame_consumer_turn cfg fx s c h tag : RI s -> rsame s (fst (consumer_turn cfg fx s c h tag)).
Proof.
  intros R. unfold consumer_turn.
  destruct (get_chan s c h) as [ch|] eqn:E; [|apply rsame_refl].
  destruct (find_consumer ch tag) as [cm|]; [|apply rsame_refl].
  destruct (negb (c_token cm)); [apply rsame_refl|].
  assert (S0 : rsame s (set_chan s c h (upd_consumer ch tag (fun cm0 => cm0 <| c_token := false |>)))).
  { eapply rsame_set_chan; [exact E|]. apply cvw_upd_consumer. intros cm0. repeat split; reflexivity. }
  destruct (c_status cm); cbn [fst]; try exact S0.
  all: destruct (get_queue _ (c_queue cm)) as [qu|]; cbn [fst]; try exact S0.
  all: destruct (negb (q_active qu)); cbn [fst]; try exact S0.
  all: destruct (q_ready qu) as [|u rest]; cbn [fst]; try exact S0.
  all: match goal with |- context [if c_noack ?cm0 then (Some [], []) else ?r] => destruct (if c_noack cm0 then (Some [], []) else r) as [okr ws] end.
  all: destruct okr; cbn [fst]; [|destruct (c_noack cm); [exact S0|eapply rsame_trans; [exact S0|apply rsame_store_windows]]].
  all: match goal with |- context [wake_consumer ?st ?c0 ?h0 ?tag0] =>
         assert (Sx : rsame s st); [|pose proof (rsame_wake st c0 h0 tag0 (RI_rsame _ _ Sx R)) as Sw;
                                      destruct (wake_consumer st c0 h0 tag0) as [s9 b9]; cbn [fst] in *; eapply rsame_trans; eauto] end.
  all: repeat first [ exact S0
                    | match goal with |- rsame _ (if ?b then _ else _) => destruct b end
                    | match goal with |- rsame _ ?e => match e with context [if ?b then _ else _] => destruct b end end
                    | eapply rsame_trans; [|first [ apply rsame_upd_chan; reflexivity
                                                  | apply rsame_upd_queue; intros; first [apply popped_keeps | reflexivity]
                                                  | apply rsame_queue_ackmsg | apply rsame_store_windows | rsame_set_field ]] ].
Qed.

Lemma rsame_set_stage s c st : rsame s (set_stage s c st).
Proof.
  split; [|intros; apply qreg_same_queues; apply queues_set_stage].
  intros c1 h1. unfold chv. rewrite get_chan_set_stage. reflexivity.
Qed.
Lemma find_consumer_fresh ch tag : find_consumer ch tag = None -> ~ In tag (map tagof (cvw ch)).
Proof.
  intros Ef Hin. rewrite tagof_cvw in Hin. apply in_map_iff in Hin. destruct Hin as (cm & Ht & Hin).
  pose proof (find_none _ _ Ef cm Hin) as Hf. cbn in Hf. rewrite (proj2 (seqb_spec _ _) Ht) in Hf. discriminate.
Qed.
Lemma cvw_orphan ch tag : cvw (ch <| ch_unacked ::= map (orphan tag) |>) = cvw ch.
Proof. reflexivity. Qed.

Lemma cvw_filter_tag ch tag :
  cvw (ch <| ch_consumers ::= filter (fun cm => negb (seqb (c_tag cm) tag)) |>) = filter (fun x => negb (seqb (tagof x) tag)) (cvw ch).
Proof.
  unfold cvw. cbn. induction (ch_consumers ch) as [|cm t IH]; cbn; auto.
  unfold tagof at 1. cbn. destruct (seqb (c_tag cm) tag); cbn; rewrite IH; reflexivity.
Qed.

Theorem RI_handle_method cfg fx s c h m : RI s -> RI (fst (fst (handle_method cfg fx s c h m))).
Proof.
  intros R. unfold handle_method. destruct (get_chan s c h) as [ch|] eqn:Hch; [|exact R].
  assert (Hset : forall ch', cvw ch' = cvw ch -> RI (set_chan s c h ch')).
  { intros ch' E. eapply RI_rsame; [|exact R]. eapply rsame_set_chan; eauto. }
  destruct m; unfold ok, refuse.
  - (* channel.open *) destruct (ch_status ch); cbn [fst]; auto; apply Hset; try reflexivity. destruct (fx_reopen_resets fx); reflexivity.
  - cbn [fst]. apply RI_channel_close; exact R.
  - cbn [fst]. destruct (fx_closeok_releases fx); [apply RI_channel_close; exact R|apply Hset; reflexivity].
  - (* channel.flow *) cbn [fst]. destruct (Bool.eqb _ _); auto. destruct a; apply Hset.
    + eapply cvw_of_consumers; [reflexivity|]. intros cm. unfold stoppedb. destruct (c_status cm) eqn:Es; cbn; rewrite ?Es; auto;
        destruct (c_token cm); cbn; auto.
    + eapply cvw_of_consumers; [reflexivity|]. intros cm. unfold stoppedb. destruct (c_status cm) eqn:Es; cbn; rewrite ?Es; auto.
  - (* exchange.declare *) destruct (extype_of type); [|exact R].
    repeat match goal with |- context [if ?b then _ else _] => destruct b end; cbn [fst]; try exact R.
    all: repeat match goal with |- context [match ?x with _ => _ end] => destruct x end; cbn [fst]; try exact R.
    all: eapply RI_rsame; [|exact R]; apply rsame_same; reflexivity.
  - destruct (fx_not_impl fx); exact R.
  - (* queue.declare *) destruct (seqb name ""); [exact R|].
    destruct (queue_found s name) as [qu|].
    + repeat match goal with |- context [if ?b then _ else _] => destruct b end; cbn [fst]; exact R.
    + destruct passive; [destruct nowait; exact R|]. cbn [fst].
      apply (RI_shrink_view s); auto.
      intros qn. unfold qreg. change (get_queue (_ <| exchanges ::= _ |>) qn) with (get_queue (set_queue (s <| next_qid ::= N.succ |>) name (new_queue (next_qid s) c dur excl ad)) qn).
      rewrite get_queue_set_queue'. destruct (seqb qn name); auto.
  - (* queue.bind *) destruct (alookup _ _ _); [|exact R]. destruct (seqb ex ""); [exact R|].
    destruct (queue_found s q); [|exact R]. destruct (locked _ _); [exact R|]. destruct (bad_xmatch _); [exact R|]. destruct (extype_eqb _ ExTopic && bad_pattern _)%bool; [exact R|]. cbn [fst].
    eapply RI_rsame; [|exact R]; apply rsame_same; reflexivity.
  - destruct (alookup _ _ _); [|exact R]. destruct (queue_found s q); [|exact R]. destruct (locked _ _); [exact R|]. destruct (bad_xmatch _); [exact R|]. destruct (extype_eqb _ ExTopic && bad_pattern _)%bool; [exact R|]. cbn [fst].
    eapply RI_rsame; [|exact R]; apply rsame_same; reflexivity.
  - (* queue.purge *) destruct (queue_found s q) as [qu|] eqn:Ef; [|exact R]. destruct (locked _ _); [exact R|]. cbn [fst].
    eapply RI_rsame; [|exact R].
    match goal with |- rsame s (set_queue ?st q ?q') => eapply (rsame_trans s st); [|apply (rsame_set_queue st q qu q'); [|reflexivity]] end.
    + apply rsame_same; destruct (q_durable qu); reflexivity.
    + pose proof (queue_found_get _ _ _ Ef) as Eg. destruct (q_durable qu); exact Eg.
  - (* queue.delete *) destruct (queue_found s q); [|exact R]. destruct (locked _ _); [exact R|].
    pose proof (RI_vhost_delete_queue (negb (fx_delete_checks_first fx)) s q ifunused ifempty R) as Hd.
    destruct (vhost_delete_queue _ s q ifunused ifempty) as [[s1 e1] r1]. cbn [fst] in *. destruct r1; exact Hd.
  - (* basic.qos *) cbn [fst]. eapply RI_rsame; [|exact R]. eapply rsame_trans; [|apply rsame_wake_consumers].
    destruct (cfg_rabbit cfg); [destruct glob; eapply rsame_set_chan; eauto; reflexivity|].
    destruct glob; [|eapply rsame_set_chan; eauto; reflexivity].
    destruct (get_conn s c) eqn:Ec; [eapply rsame_set_conn_qos; eauto|apply rsame_refl].
  - (* basic.publish *) destruct imm; [exact R|]. destruct (alookup _ _ _); [|exact R].
    destruct (ch_confirm ch); cbn [fst]; (eapply RI_rsame; [|exact R]);
      match goal with |- rsame s (set_chan ?st c h ?ch') =>
        eapply (rsame_trans s st); [apply rsame_same; reflexivity
                                   |apply (rsame_set_chan st c h ch ch'); [rewrite <- Hch; apply get_chan_same_conns; reflexivity|reflexivity]] end.
  - (* basic.consume *) destruct (queue_found s q) as [qu|] eqn:Ef; [|exact R]. pose proof (queue_found_get _ _ _ Ef) as Eg.
    destruct (fx_excl_owner fx && locked qu c); [exact R|].
    destruct (find_consumer ch _) eqn:Efc; [exact R|].
    destruct (_ && _)%bool; cbn [fst].
    + eapply RI_rsame; [|exact R]. eapply rsame_set_queue; [exact Eg|reflexivity].
    + set (tag0 := eff_tag s tag).
      match goal with |- RI (set_chan ?st c h ?ch') => set (s3 := st); set (ch3 := ch') end.
      apply (RI_consume_view s _ c h tag0 q (cvw ch) (q_consumers qu) R).
      * unfold chv. rewrite Hch. reflexivity.
      * unfold qreg. rewrite Eg. reflexivity.
      * apply find_consumer_fresh. exact Efc.
      * intros c1 h1. assert (Eg3 : get_chan s3 c h = Some ch) by (rewrite <- Hch; apply get_chan_same_conns; unfold s3; destruct (seqb tag ""); reflexivity).
        rewrite (chv_set_chan_at s3 c h ch ch3 c1 h1 Eg3). destruct ((c1 =? c) && (h1 =? h)).
        -- unfold ch3, cvw. cbn. rewrite map_app. reflexivity.
        -- apply chv_same_conns. unfold s3. destruct (seqb tag ""); reflexivity.
      * intros qn. rewrite (qreg_same_queues s3 (set_chan s3 c h ch3)) by apply queues_set_chan.
        assert (E3 : qreg s3 qn = qreg (set_queue s q (call_consumers ((if excl then qu <| q_wasconsumed := true |> <| q_cexcl := true |> else qu <| q_wasconsumed := true |>) <| q_consumers ::= fun l => l ++ [(c, h, tag0)] |>))) qn).
        { apply qreg_same_queues. unfold s3. destruct (seqb tag ""); reflexivity. }
        rewrite E3. unfold qreg. rewrite get_queue_set_queue'. destruct (seqb qn q); [|reflexivity].
        cbn. unfold call_consumers. destruct excl; cbn; destruct (q_active qu); reflexivity.
  - (* basic.cancel *) destruct (find_consumer ch tag) as [cm|] eqn:Efc; [|exact R]. cbn [fst].
    pose proof (RI_consumer_stop s c h tag R) as R1. pose proof (stop_char s c h tag R) as B1.
    set (s1 := consumer_stop s c h tag) in *.
    assert (Ev1 : chv s1 c h = Some (map (stopv tag) (cvw ch))) by (rewrite B1, !N.eqb_refl; unfold chv; rewrite Hch; reflexivity).
    destruct (get_chan s1 c h) as [ch1|] eqn:Eg1; [|unfold chv in Ev1; rewrite Eg1 in Ev1; discriminate].
    assert (Ec1 : cvw ch1 = map (stopv tag) (cvw ch)) by (unfold chv in Ev1; rewrite Eg1 in Ev1; inversion Ev1; reflexivity).
    eapply RI_rsame; [apply rsame_upd_chan; intros; apply cvw_orphan|].
    apply (RI_filter_view s1 _ c h tag _ R1 Ev1).
    + intros x Hx Ht. apply in_map_iff in Hx. destruct Hx as (y & <- & Hy). rewrite tagof_stopv in Ht. unfold stopv.
      rewrite (proj2 (seqb_spec _ _) Ht). reflexivity.
    + intros c1 h1. rewrite chv_upd_chan_at, Eg1. cbn [option_map]. destruct ((c1 =? c) && (h1 =? h)); [|reflexivity].
      rewrite cvw_filter_tag, Ec1. reflexivity.
    + intros qn. apply qreg_same_queues. apply queues_upd_chan.
  - (* basic.get *)
    destruct (queue_found s q) as [qu|] eqn:Ef; [|exact R].
    destruct (fx_excl_owner fx && locked qu c); [exact R|].
    destruct (q_ready qu) as [|u rest]; [exact R|].
    match goal with |- context [if noack then (Some [], []) else ?r] => destruct (if noack then (Some [], []) else r) as [okr ws] end.
    set (s1 := match ws with [w1; w2] => _ | _ => s end).
    assert (H1 : rsame s s1).
    { subst s1. destruct ws as [|w1 [|w2 [|]]]; try apply rsame_refl.
      destruct (get_conn _ c) eqn:Ec; [eapply rsame_trans; [|eapply rsame_set_conn_qos; [exact Ec|reflexivity]]|]; eapply rsame_set_chan; eauto; reflexivity. }
    clearbody s1. eapply RI_rsame; [|exact R].
    destruct okr; cbn [fst]; [|exact H1]. eapply rsame_trans; [exact H1|].
    repeat first [ apply rsame_refl
                 | match goal with |- rsame _ (if ?b then _ else _) => destruct b end
                 | match goal with |- rsame _ ?e => match e with context [if ?b then _ else _] => destruct b end end
                 | eapply rsame_trans; [|first [ apply rsame_upd_chan; reflexivity
                                               | apply rsame_upd_queue; intros; first [apply popped_keeps | reflexivity]
                                               | apply rsame_queue_ackmsg | rsame_set_field ]] ].
  - pose proof (rsame_handle_ack cfg s c h tag mult) as Ha. destruct (handle_ack cfg s c h tag mult) as [s1 e1]. eapply RI_rsame; eauto.
  - pose proof (rsame_handle_reject cfg s c h tag mult requeue 60 120) as Ha.
    destruct (handle_reject cfg s c h tag mult requeue 60 120) as [s1 e1]. eapply RI_rsame; eauto.
  - pose proof (rsame_handle_reject cfg s c h tag false requeue 60 90) as Ha.
    destruct (handle_reject cfg s c h tag false requeue 60 90) as [s1 e1]. eapply RI_rsame; eauto.
  - exact R.
  - cbn [fst]. apply Hset. reflexivity.
  - destruct (fx_not_impl fx); exact R.
  - exact R.
  - exact R.
  - destruct good; [cbn [fst]; eapply RI_rsame; [apply rsame_set_stage|exact R]|exact R].
  - destruct within; [cbn [fst]; eapply RI_rsame; [apply rsame_set_stage|exact R]|exact R].
  - destruct vhost_ok; [cbn [fst]; eapply RI_rsame; [apply rsame_set_stage|exact R]|exact R].
Qed.

Lemma RI_generic cfg fx st s c h m : RI s -> RI (fst (step_generic cfg fx st s c h m)).
Proof.
  intros R. unfold step_generic.
  destruct (fx_discard_closing fx && _ && _)%bool; [exact R|].
  destruct (fx_stage fx && _)%bool; [apply RI_apply_err_st; exact R|].
  destruct (fx_stage fx && _)%bool; [apply RI_apply_err_st; exact R|].
  destruct (_ && _ && _ && _)%bool; [apply RI_apply_err; exact R|].
  apply RI_apply_err_st. apply RI_handle_method. exact R.
Qed.

Theorem RI_step cfg fx s l : RI s -> RI (fst (step cfg fx s l)).
Proof.
  intros R. destruct l; cbn [step].
  - (* LConnect *) destruct (get_conn s c) eqn:Ec; cbn [fst]; auto. apply RI_newconn; auto.
  - (* LMethod *)
    destruct (get_conn s c) as [cn0|]; [|exact R].
    destruct (negb _ && negb _)%bool; [apply RI_conn_close; auto|].
    pose proof (RI_ensure_chan s c h R) as R0.
    destruct m.
    all: try (apply (RI_generic cfg fx (cn_stage cn0) (ensure_chan s c h) c h); exact R0).
    + destruct (fx_stage fx && negb (h =? 0)); [apply RI_apply_err; exact R0|].
      pose proof (RI_conn_close cfg fx _ c R0) as Hc.
      destruct (conn_close cfg fx (ensure_chan s c h) c) as [s1 e1]. exact Hc.
    + destruct (fx_stage fx && negb (h =? 0)); [apply RI_apply_err; exact R0|]. apply RI_conn_close; auto.
  - (* LHeader *)
    destruct (get_conn s c) as [cn0|]; [|exact R].
    destruct (negb _ && negb _)%bool; [apply RI_conn_close; auto|].
    pose proof (RI_ensure_chan s c h R) as R0.
    destruct (get_chan _ c h) as [ch|]; [|exact R0].
    destruct (_ && _)%bool; [exact R0|].
    destruct (ch_cur ch) as [u|]; [|apply RI_apply_err_st; auto].
    destruct (get_msg _ u) as [m|]; [|exact R0].
    destruct (m_has_header m); [apply RI_apply_err_st; auto|].
    assert (R2 : RI (upd_msg (ensure_chan s c h) u (fun m => m <| m_has_header := true |> <| m_hsize := size |> <| m_pers := pers |> <| m_mid := mid |>)))
      by (eapply RI_rsame; [apply rsame_upd_msg|exact R0]).
    destruct (_ && _)%bool; [apply RI_finish_publish; exact R2|exact R2].
  - (* LBody *)
    destruct (get_conn s c) as [cn0|]; [|exact R].
    destruct (negb _ && negb _)%bool; [apply RI_conn_close; auto|].
    pose proof (RI_ensure_chan s c h R) as R0.
    destruct (get_chan _ c h) as [ch|]; [|exact R0].
    destruct (_ && _)%bool; [exact R0|].
    destruct (ch_cur ch) as [u|]; [|apply RI_apply_err_st; auto].
    destruct (get_msg _ u) as [m|]; [|exact R0].
    destruct (negb (m_has_header m)); [apply RI_apply_err_st; auto|].
    destruct (_ <? _); [apply RI_apply_err_st; cbn [fst]; eapply RI_rsame; [apply rsame_upd_chan; reflexivity|exact R0]|].
    assert (R2 : RI (upd_msg (ensure_chan s c h) u (fun m => m <| m_body ::= fun b => b ++ [len] |> <| m_size ::= fun z => z + len |>)))
      by (eapply RI_rsame; [apply rsame_upd_msg|exact R0]).
    destruct (_ <? _); [exact R2|apply RI_finish_publish; exact R2].
  - eapply RI_rsame; [apply rsame_consumer_turn; exact R|exact R].
  - cbn [fst]. eapply RI_rsame; [apply rsame_queue_loop_turn; exact R|exact R].
  - (* LAutoDelete *)
    destruct (autodel s) as [|qn rest]; [exact R|].
    assert (R0 : RI (s <| autodel := rest |>)) by (apply (RI_rsame s); [apply rsame_same; reflexivity|exact R]).
    try (destruct (get_queue _ qn) as [qu0|]; [|exact R0]; destruct (q_autodel qu0); [|exact R0]).
    match goal with |- context [vhost_delete_queue ?a ?b ?d ?e ?f] =>
      pose proof (RI_vhost_delete_queue a b d e f R0) as Hd; destruct (vhost_delete_queue a b d e f) as [[s1 e1] r1] end. exact Hd.
  - (* LPersistTick *)
    cbn [fst]. apply fold_left_preserves; [intros s0 k R0; eapply RI_rsame; [apply rsame_store_confirm|exact R0]|].
    apply (RI_rsame s); [apply rsame_same; reflexivity|exact R].
  - (* LRelay *)
    destruct (relay s) as [|u rest]; [exact R|].
    assert (R0 : RI (s <| relay := rest |>)) by (apply (RI_rsame s); [apply rsame_same; reflexivity|exact R]).
    destruct (get_msg _ u) as [m|]; cbn [fst]; auto.
    destruct (m_conf m) as [[[? ?] ?]|]; cbn [fst]; auto. eapply RI_rsame; [apply rsame_add_confirm|exact R0].
  - (* LConfirmTick *)
    destruct (get_chan s c h) as [ch|] eqn:Ech; [|exact R]. destruct (negb _); [exact R|].
    destruct (ch_status ch); cbn [fst]; (eapply RI_rsame; [eapply rsame_set_chan; [exact Ech|reflexivity]|exact R]).
  - pose proof (RI_conn_close cfg fx s c R) as Hc. destruct (conn_close cfg fx s c) as [s1 e1]. exact Hc.
  - (* LAccept *) destruct (get_conn s c) eqn:Ec; cbn [fst]; auto. apply RI_newconn; auto.
  - (* LBadMethod *)
    destruct (get_conn s c) as [cn0|]; [|exact R].
    destruct (negb _ && negb _)%bool; [apply RI_conn_close; auto|].
    apply RI_apply_err_st; cbn [fst]. apply RI_ensure_chan; auto.
  - destruct (get_conn s c); [|exact R]. destruct (h =? 0); [exact R|apply RI_conn_close; auto].
  - apply RI_restart.
Qed.

Theorem RI_run cfg fx ls : forall s, RI s -> RI (fst (run cfg fx s ls)).
Proof.
  induction ls as [|l t IH]; intros s R; cbn [run]; auto.
  pose proof (RI_step cfg fx s l R) as R1. specialize (IH (fst (step cfg fx s l)) R1).
  destruct (step cfg fx s l) as [s1 e1]. cbn [fst] in *. destruct (run cfg fx s1 t) as [s2 e2]. exact IH.
Qed.

(* hence: no registry names a connection that is not opened *)
Lemma NR_of_RI s : VI s -> HQ s -> RI s -> NR s.
Proof.
  intros V H R c Hop qn qu Hin [[c1 h1] t1] Hx. cbn. intros ->.
  assert (Eq : get_queue s qn = Some qu).
  { apply (nodup_in_alookup seqb seqb_spec); auto. pose proof (vi_qkeys _ _ _ V) as K. unfold qv, vmap in K. rewrite map_map in K. exact K. }
  destruct (ri_reg s R qn (q_consumers qu) c h1 t1) as (v & Ev & Hv); [unfold qreg; rewrite Eq; reflexivity|exact Hx|].
  unfold chv in Ev. destruct (get_chan s c h1) as [ch|] eqn:Eg; [|discriminate]. inversion Ev; subst v.
  unfold get_chan in Eg. destruct (get_conn s c) as [cn|] eqn:Ec; [|discriminate].
  assert (Hne : cn_stage cn <> StOpen) by (unfold conn_opened in Hop; rewrite Ec in Hop; intros E; rewrite E in Hop; discriminate).
  rewrite (H c cn Ec Hne) in Eg. cbn in Eg. destruct (h1 =? 0); [|discriminate]. inversion Eg; subst ch. destruct Hv.
Qed.

(* ------------------------------------------------------------------ *)
(* Part 10: the confirm meta of a message names a channel other than channel 0 (the publish was accepted on a channel
   that a frame of the basic class may use), and is never rewritten.  The lemmas ceq_* are the lemmas veq_* of
   Proofs/BrokerLedger2.v with the view (has-header, size, header size) of a message replaced by its confirm meta. *)
Definition ceq (s s' : state) : Prop :=
  next_uid s' = next_uid s /\ forall x, option_map m_conf (get_msg s' x) = option_map m_conf (get_msg s x).
Lemma ceq_refl s : ceq s s. Proof. split; reflexivity. Qed.
Lemma ceq_trans s1 s2 s3 : ceq s1 s2 -> ceq s2 s3 -> ceq s1 s3.
Proof. intros [A1 A2] [B1 B2]. split; [congruence|]. intros x. rewrite B2, A2. reflexivity. Qed.
Lemma ceq_hn s s' : hn s' = hn s -> ceq s s'.
Proof. unfold hn, ceq, get_msg. intros E. inversion E as [[E1 E2]]. rewrite E1. split; reflexivity. Qed.
Lemma ceq_upd_msg s u F : (forall m, m_conf (F m) = m_conf m) -> ceq s (upd_msg s u F).
Proof.
  intros HF. unfold upd_msg. destruct (get_msg s u) as [m|] eqn:E; [|apply ceq_refl]. split; [reflexivity|].
  intros x. unfold get_msg in *. cbn. rewrite (alookup_aset N.eqb Neqb_spec). destruct (x =? u) eqn:E1; [|reflexivity].
  apply N.eqb_eq in E1. subst. rewrite E. cbn. rewrite HF. reflexivity.
Qed.
Lemma ceq_queue_requeue s qn u : ceq s (queue_requeue s qn u).
Proof.
  unfold queue_requeue. destruct (get_queue s qn) as [qu|]; [|apply ceq_refl]. destruct (negb _); [apply ceq_refl|]. cbv zeta.
  eapply ceq_trans; [apply ceq_hn, (hn_store_writeback s qn u (q_durable qu))|].
  eapply ceq_trans; [apply (ceq_upd_msg _ u (fun m => m <| m_dc ::= N.succ |>)); reflexivity|]. apply ceq_hn. reflexivity.
Qed.
Lemma ceq_chan_ackmsg s u : ceq s (chan_ackmsg s u).
Proof. unfold chan_ackmsg. destruct (origin_queue s u); apply ceq_hn; [apply hn_queue_ackmsg|reflexivity]. Qed.
Lemma ceq_chan_rejectmsg s u r : ceq s (chan_rejectmsg s u r).
Proof.
  unfold chan_rejectmsg. destruct (origin_queue s u); [destruct r|]; [apply ceq_queue_requeue|apply ceq_hn, hn_queue_ackmsg|apply ceq_hn; reflexivity].
Qed.
Lemma ceq_fold {A} (g : state -> A -> state) l : (forall s u, ceq s (g s u)) -> forall s, ceq s (fold_left g l s).
Proof. intros Hg. induction l as [|a t IH]; intros s; cbn [fold_left]; [apply ceq_refl|]. eapply ceq_trans; [apply Hg|apply IH]. Qed.
Lemma ceq_upd_chan s c h f : ceq s (upd_chan s c h f).
Proof. apply ceq_hn, hn_upd_chan. Qed.
Lemma ceq_handle_ack cfg s c h tag mult : ceq s (fst (handle_ack cfg s c h tag mult)).
Proof.
  unfold handle_ack. destruct (get_chan s c h) as [ch|]; [|apply ceq_refl]. destruct mult.
  - cbn [fst]. eapply ceq_trans; [|apply ceq_fold; intros; apply ceq_hn, hn_dec_qos].
    apply ceq_fold. intros s0 u. eapply ceq_trans; [apply ceq_upd_chan|apply ceq_chan_ackmsg].
  - destruct (find _ _); cbn [fst]; [|apply ceq_refl].
    eapply ceq_trans; [|apply ceq_hn, hn_dec_qos]. eapply ceq_trans; [apply ceq_upd_chan|apply ceq_chan_ackmsg].
Qed.
Lemma ceq_handle_reject cfg s c h tag mult requeue cls mth : ceq s (fst (handle_reject cfg s c h tag mult requeue cls mth)).
Proof.
  unfold handle_reject. destruct (get_chan s c h) as [ch|]; [|apply ceq_refl]. destruct mult.
  - cbn [fst]. eapply ceq_trans; [|apply ceq_fold; intros; apply ceq_hn, hn_dec_qos].
    apply ceq_fold. intros s0 u. eapply ceq_trans; [apply ceq_upd_chan|apply ceq_chan_rejectmsg].
  - destruct (find _ _); cbn [fst]; [|apply ceq_refl].
    eapply ceq_trans; [|apply ceq_hn, hn_dec_qos]. eapply ceq_trans; [apply ceq_upd_chan|apply ceq_chan_rejectmsg].
Qed.
Lemma ceq_channel_close cfg s c h : ceq s (channel_close cfg s c h).
Proof.
  unfold channel_close. destruct (get_chan s c h) as [ch|]; [|apply ceq_refl].
  eapply ceq_trans; [|apply ceq_upd_chan].
  assert (E2 : ceq s (upd_chan (fold_left (fun s cm => consumer_stop s c h (c_tag cm)) (ch_consumers ch) s) c h (fun ch => ch <| ch_consumers := [] |>))).
  { eapply ceq_trans; [|apply ceq_upd_chan]. apply ceq_fold. intros s0 cm. apply ceq_hn, hn_consumer_stop. }
  destruct (0 <? h); [|exact E2]. eapply ceq_trans; [exact E2|apply ceq_handle_reject].
Qed.
Lemma ceq_handle_method cfg fx s c h m : is_publish m = false -> ceq s (fst (fst (handle_method cfg fx s c h m))).
Proof.
  intros Hp. unfold handle_method.
  destruct (get_chan s c h) as [ch|] eqn:Hch; [|apply ceq_refl].
  destruct m; unfold ok, refuse; try discriminate Hp.
  - destruct (ch_status ch); cbn [fst]; try apply ceq_refl; apply ceq_hn; hpn.
  - cbn [fst]. apply ceq_channel_close.
  - cbn [fst]. destruct (fx_closeok_releases fx); [apply ceq_channel_close|apply ceq_hn; hpn].
  - cbn [fst]. destruct (Bool.eqb _ _); [apply ceq_refl|]. destruct a; apply ceq_hn; hpn.
  - destruct (extype_of type); [|apply ceq_refl].
    repeat match goal with |- context [if ?b then _ else _] => destruct b end; cbn [fst]; try apply ceq_refl.
    all: repeat match goal with |- context [match ?x with _ => _ end] => destruct x end; cbn [fst]; try apply ceq_refl.
    all: apply ceq_hn; reflexivity.
  - destruct (fx_not_impl fx); apply ceq_refl.
  - destruct (seqb name ""); [apply ceq_refl|].
    destruct (queue_found s name) as [qu|].
    + repeat match goal with |- context [if ?b then _ else _] => destruct b end; cbn [fst]; apply ceq_refl.
    + destruct passive; [destruct nowait; apply ceq_refl|]. cbn [fst]. apply ceq_hn. reflexivity.
  - destruct (alookup _ _ _); [|apply ceq_refl]. destruct (seqb ex ""); [apply ceq_refl|].
    destruct (queue_found s q); [|apply ceq_refl]. destruct (locked _ _); [apply ceq_refl|]. destruct (bad_xmatch _); [apply ceq_refl|]. destruct (extype_eqb _ ExTopic && bad_pattern _)%bool; [apply ceq_refl|]. apply ceq_hn; reflexivity.
  - destruct (alookup _ _ _); [|apply ceq_refl]. destruct (queue_found s q); [|apply ceq_refl]. destruct (locked _ _); [apply ceq_refl|].
    destruct (bad_xmatch _); [apply ceq_refl|]. destruct (extype_eqb _ ExTopic && bad_pattern _)%bool; [apply ceq_refl|]. apply ceq_hn; reflexivity.
  - destruct (queue_found s q) as [qu|]; [|apply ceq_refl]. destruct (locked _ _); [apply ceq_refl|]. cbn [fst].
    apply ceq_hn. destruct (q_durable qu); reflexivity.
  - destruct (queue_found s q); [|apply ceq_refl]. destruct (locked _ _); [apply ceq_refl|].
    pose proof (hn_vhost_delete_queue (negb (fx_delete_checks_first fx)) s q ifunused ifempty) as Hd.
    destruct (vhost_delete_queue _ s q ifunused ifempty) as [[s1 e1] r1]. cbn [fst] in *. destruct r1; apply ceq_hn; exact Hd.
  - cbn [fst]. apply ceq_hn. rewrite hn_wake_consumers.
    destruct (cfg_rabbit cfg); [destruct glob; hpn|]. destruct glob; [|hpn]. destruct (get_conn s c); reflexivity.
  - destruct (queue_found s q) as [qu|]; [|apply ceq_refl].
    destruct (fx_excl_owner fx && locked qu c); [apply ceq_refl|].
    destruct (find_consumer ch _); [apply ceq_refl|].
    destruct (_ && _)%bool; cbn [fst]; apply ceq_hn; [reflexivity|]. rewrite hn_set_chan. destruct (seqb tag ""%string); reflexivity.
  - destruct (find_consumer ch tag); [|apply ceq_refl]. cbn [fst]. apply ceq_hn. hpn.
  - (* MGet *)
    destruct (queue_found s q) as [qu|]; [|apply ceq_refl].
    destruct (fx_excl_owner fx && locked qu c); [apply ceq_refl|].
    destruct (q_ready qu) as [|u rest]; [apply ceq_refl|].
    match goal with |- context [if noack then (Some [], []) else ?r] => destruct (if noack then (Some [], []) else r) as [okr ws] end.
    set (s1 := match ws with [w1; w2] => _ | _ => s end).
    assert (E1 : hn s1 = hn s).
    { subst s1. destruct ws as [|w1 [|w2 [|]]]; auto. destruct (get_conn _ c); hpn. }
    clearbody s1. apply ceq_hn.
    destruct okr; cbn [fst]; [|exact E1].
    destruct noack; [destruct (fx_noack_total_once fx)|]; hpn; exact E1.
  - pose proof (ceq_handle_ack cfg s c h tag mult) as Ha.
    destruct (handle_ack cfg s c h tag mult) as [s1 e1]. exact Ha.
  - pose proof (ceq_handle_reject cfg s c h tag mult requeue 60 120) as Ha.
    destruct (handle_reject cfg s c h tag mult requeue 60 120) as [s1 e1]. exact Ha.
  - pose proof (ceq_handle_reject cfg s c h tag false requeue 60 90) as Ha.
    destruct (handle_reject cfg s c h tag false requeue 60 90) as [s1 e1]. exact Ha.
  - apply ceq_refl.
  - cbn [fst]. apply ceq_hn. hpn.
  - destruct (fx_not_impl fx); apply ceq_refl.
  - apply ceq_refl.
  - apply ceq_refl.
  - destruct good; [cbn [fst]; apply ceq_hn; hpn|apply ceq_refl].
  - destruct within; [cbn [fst]; apply ceq_hn; hpn|apply ceq_refl].
  - destruct vhost_ok; [cbn [fst]; apply ceq_hn; hpn|apply ceq_refl].
Qed.
Lemma ceq_queue_push s qn u : ceq s (queue_push s qn u).
Proof.
  unfold queue_push. destruct (get_queue s qn) as [qu|]; [|apply ceq_refl]. destruct (get_msg s u) as [m|]; [|apply ceq_refl].
  destruct (negb _); [apply ceq_refl|]. cbv zeta. destruct (_ && _)%bool; [apply ceq_hn; reflexivity|].
  destruct (m_conf m); [|apply ceq_hn; reflexivity].
  eapply ceq_trans; [|apply ceq_hn; reflexivity].
  eapply ceq_trans; [|apply (ceq_upd_msg _ u (fun m => m <| m_actual ::= Z.succ |>)); reflexivity]. apply ceq_hn. reflexivity.
Qed.
Lemma ceq_store_confirm s u : ceq s (store_confirm s u).
Proof.
  unfold store_confirm. destruct (get_msg s u) as [m|]; [|apply ceq_refl]. destruct (m_conf m); [|apply ceq_refl].
  destruct (_ =? _)%Z; [eapply ceq_trans; [|apply ceq_hn; reflexivity]|]; apply (ceq_upd_msg _ u (fun m => m <| m_actual ::= Z.succ |>)); reflexivity.
Qed.

Definition DI (s : state) : Prop := forall x m c h t, get_msg s x = Some m -> m_conf m = Some (c, h, t) -> h <> 0.
Lemma DI_ceq s s' : ceq s s' -> DI s -> DI s'.
Proof.
  intros [_ E] H x m' c h t Hg Hc. specialize (E x). rewrite Hg in E. destruct (get_msg s x) as [m|] eqn:Em; cbn in E; [|discriminate].
  apply (H x m c h t Em). congruence.
Qed.

Lemma DI_restart cfg s : DI (fst (restart cfg s)).
Proof.
  intros x m c h t Hg Hc. unfold restart, get_msg in Hg. cbn in Hg.
  rewrite (alookup_map_snd (fun m0 => m0 <| m_conf := None |>)) in Hg. destruct (alookup N.eqb x (heap s)); cbn in Hg; [|discriminate].
  inversion Hg; subst. cbn in Hc. discriminate.
Qed.

Theorem DI_step cfg fx s l : fx_stage fx = true -> fx_chan_open fx = true -> DI s -> DI (fst (step cfg fx s l)).
Proof.
  intros Hst Hco H.
  apply (D2_step cfg fx DI (fun _ _ => True) Hst Hco); auto.
  - intros s0 c h H0. eapply DI_ceq; [apply ceq_channel_close|exact H0].
  - intros b s0 qn iu ie H0. eapply DI_ceq; [apply ceq_hn, hn_vhost_delete_queue|exact H0].
  - intros s0 c h H0. eapply DI_ceq; [apply ceq_hn, hn_upd_chan|exact H0].
  - intros s0 c h H0. eapply DI_ceq; [apply ceq_hn, hn_ensure_chan|exact H0].
  - intros s0 c h H0. eapply DI_ceq; [apply ceq_hn, hn_upd_chan|exact H0].
  - intros s0 c h t H0. eapply DI_ceq; [apply ceq_hn, hn_add_confirm|exact H0].
  - intros s0 c h tag H0. eapply DI_ceq; [apply ceq_hn, hn_wake_consumer|exact H0].
  - intros s0 _. apply DI_restart.
  - intros s0 c h ch E H0. split; (eapply DI_ceq; [apply ceq_hn, hn_set_chan|exact H0]).
  - intros s0 qn u _ H0. eapply DI_ceq; [apply ceq_queue_push|exact H0].
  - intros s0 u z H0. eapply DI_ceq; [apply (ceq_upd_msg _ u (fun m => m <| m_expected := z |>)); reflexivity|exact H0].
  - intros s0 H0. cbn [step fst]. apply fold_left_preserves.
    + intros s1 k H1. eapply DI_ceq; [apply ceq_store_confirm|exact H1].
    + exact H0.
  - (* methods *)
    intros c h m [Hg _] H0. destruct (is_publish m) eqn:Ep; [|eapply DI_ceq; [apply ceq_handle_method; exact Ep|exact H0]].
    destruct m; try discriminate Ep. cbn [is_conn_class meth_ids fst] in Hg. change (60 =? 10) with false in Hg.
    assert (Hh : h <> 0) by (intros ->; cbn in Hg; discriminate). clear Hg.
    unfold handle_method. destruct (get_chan _ c h) as [ch|]; [|exact H0].
    destruct imm; [exact H0|]. destruct (alookup _ _ _); [|exact H0]. unfold ok. set (s1 := ensure_chan s c h) in *.
    assert (Hnew : forall m0 ch', (forall c2 h2 t2, m_conf m0 = Some (c2, h2, t2) -> h2 <> 0) ->
                     DI (set_chan (s1 <| heap := aset N.eqb (next_uid s1) m0 (heap s1) |> <| next_uid := next_uid s1 + 1 |>) c h ch')).
    { intros m0 ch' Hm0 x m' c2 h2 t2 Hgm Hc. unfold get_msg in Hgm. rewrite heap_set_chan' in Hgm. cbn in Hgm.
      rewrite (alookup_aset N.eqb Neqb_spec) in Hgm. destruct (x =? next_uid s1); [inversion Hgm; subst; eapply Hm0; eauto|eapply H0; eauto]. }
    destruct (ch_confirm ch); cbn [fst]; apply Hnew; cbn; intros c2 h2 t2 E; inversion E; subst; auto.
  - intros c h tag. eapply DI_ceq; [apply ceq_hn, hn_consumer_turn|exact H].
  - intros c h ch u m mid size pers _ _ _ _ H0. split; auto.
    eapply DI_ceq; [apply (ceq_upd_msg _ u (fun m => m <| m_has_header := true |> <| m_hsize := size |> <| m_pers := pers |> <| m_mid := mid |>)); reflexivity|exact H0].
  - intros c h ch u m len _ _ _ _ _ H0. split; auto.
    eapply DI_ceq; [apply (ceq_upd_msg _ u (fun m => m <| m_body ::= fun b => b ++ [len] |> <| m_size ::= fun z => z + len |>)); reflexivity|exact H0].
Qed.

(* ------------------------------------------------------------------ *)
(* Part 8: the invariant of every reachable state, and the theorems in their final form *)
Definition UI (s : state) : Prop := GI s /\ RI s /\ DI s.

(* what "an unopened connection owns nothing" means: apart from its own record - which holds exactly the untouched
   channel 0: no consumer, no unsettled delivery, no message being published, no confirm mode - nothing in the state
   names it: no exclusive queue is owned by it, no consumer registry has an entry of it.  (The third kind of reference,
   the confirm meta (connection, channel, tag) of a message published earlier by a connection that had the same id,
   can exist - see Props/C10_history.v - but is dead: dead_meta below.) *)
Definition unopened_inv (s : state) : Prop :=
  forall c, conn_opened s c = false -> quiet s c /\ owns_nothing s c /\ noreg c s.

Lemma fresh0_channel0 : fresh0 channel0. Proof. repeat split. Qed.
Lemma dead_meta s c h t : quiet s c -> add_confirm s c h t = s.
Proof. apply add_confirm_quiet. Qed.

Lemma unopened_inv_UI s : UI s -> unopened_inv s.
Proof.
  intros [[[V Hci] H] [R _]] c Hop. split; [|split].
  - intros cn Ec. apply (H c cn Ec). unfold conn_opened in Hop. rewrite Ec in Hop. intros E. rewrite E in Hop. discriminate.
  - apply owns_nothing_VI; auto.
  - apply NR_of_RI; auto.
Qed.

Section Final.
Variables (cfg : config) (fx : fixes).
Hypotheses (F1 : fx_stage fx = true) (F2 : fx_chan_open fx = true) (F3 : fx_closeok_releases fx = true)
           (F4 : fx_delete_checks_first fx = true).

Theorem UI_step s l : UI s -> UI (fst (step cfg fx s l)).
Proof. intros (G & R & D). split; [apply GI_step; auto|split; [apply RI_step; auto|apply DI_step; auto]]. Qed.
Theorem UI_init : UI (init cfg).
Proof. split; [apply GI_init|split; [apply RI_init|]]. intros x m c h t E. cbn in E. discriminate. Qed.
Theorem UI_run ls : forall s, UI s -> UI (fst (run cfg fx s ls)).
Proof.
  induction ls as [|l t IH]; intros s U; cbn [run]; auto.
  pose proof (UI_step s l U) as U1. specialize (IH (fst (step cfg fx s l)) U1).
  destruct (step cfg fx s l) as [s1 e1]. cbn [fst] in *. destruct (run cfg fx s1 t) as [s2 e2]. exact IH.
Qed.
Theorem UI_reach ls : UI (fst (run cfg fx (init cfg) ls)).
Proof. apply UI_run. apply UI_init. Qed.

(* the invariant, for every label of step, and in every reachable state *)
Theorem unopened_inv_step s l : UI s -> unopened_inv (fst (step cfg fx s l)).
Proof. intros U. apply unopened_inv_UI. apply UI_step. exact U. Qed.
Theorem unopened_inv_reachable ls : unopened_inv (fst (run cfg fx (init cfg) ls)).
Proof. apply unopened_inv_UI. apply UI_reach. Qed.

(* in a state satisfying the invariant *)
Theorem others_cannot_touch_UI s l c st :
  UI s -> touches c l = false -> hs_at s c st -> st <> StOpen ->
  get_conn (fst (step cfg fx s l)) c = get_conn s c /\ hs_at (fst (step cfg fx s l)) c st /\ not_to c (snd (step cfg fx s l)).
Proof.
  intros U Ht Hh Hne. apply others_cannot_touch; auto.
  apply (unopened_inv_UI s U c). destruct Hh as (cn & Ec & _ & Es). unfold conn_opened. rewrite Ec, Es. apply stage_ne_eqb. exact Hne.
Qed.
Theorem unopened_cannot_touch_UI s l c :
  UI s -> conn_opened s c = false -> frame_of c l = true ->
  erase c (fst (step cfg fx s l)) = erase c s /\ hs_events c (snd (step cfg fx s l)) /\
  match get_conn s c with
  | None => get_conn (fst (step cfg fx s l)) c = None
  | Some cn => match adv (cn_stage cn) l with
               | None => get_conn (fst (step cfg fx s l)) c = None
               | Some st' => hs_at (fst (step cfg fx s l)) c st'
               end
  end.
Proof. intros [[[V _] H] _]. apply unopened_cannot_touch; auto. Qed.
End Final.

(* ------------------------------------------------------------------ *)
(* Part 9: an unauthenticated connection is invisible.  Remove from a run all the frames of a connection c that is
   never opened along it: the final states agree outside c's record (erase; hence world) and so do the events that are
   not addressed to c. *)
Definition nf (c : N) (ls : list label) : list label := filter (fun l => negb (frame_of c l)) ls.
Definition drop_to (c : N) (evs : list event) : list event := filter (fun e => negb (to_conn c e)) evs.
Definition never_open_from (cfg : config) (fx : fixes) (c : N) (s : state) (ls : list label) : Prop :=
  forall k, conn_opened (fst (run cfg fx s (firstn k ls))) c = false.

(* the labels that neither name c nor restart the broker do not read the record of an unopened c: they do the same to
   the state without that record, and emit the same events *)
Definition blind_step (cfg : config) (fx : fixes) (c : N) : Prop :=
  forall s l, touches c l = false -> UI s -> conn_opened s c = false ->
    fst (step cfg fx (erase c s) l) = erase c (fst (step cfg fx s l)) /\ snd (step cfg fx (erase c s) l) = snd (step cfg fx s l).

Lemma drop_to_app c a b : drop_to c (a ++ b) = drop_to c a ++ drop_to c b.
Proof. apply filter_app. Qed.
Lemma drop_to_hs c evs : hs_events c evs -> drop_to c evs = [].
Proof.
  intros H. unfold drop_to. apply filter_all_false. intros e Hin. destruct (H e Hin) as [E _]. unfold to_conn. rewrite E, N.eqb_refl. reflexivity.
Qed.
Lemma drop_to_gone c l : drop_to c (map (fun kv : N * conn => (fst kv, 0, SConnGone)) l) = map (fun kv => (fst kv, 0, SConnGone)) (adel N.eqb c l).
Proof.
  induction l as [|[k v] t IH]; [reflexivity|]. cbn [map adel fst]. unfold drop_to in *. cbn [filter]. unfold to_conn at 1. cbn [fst].
  rewrite IH, (N.eqb_sym k c). destruct (c =? k); reflexivity.
Qed.

Lemma erase_fields c s t : erase c s = erase c t ->
  queues s = queues t /\ exchanges s = exchanges t /\ heap s = heap t /\ next_uid s = next_uid t /\ next_cid s = next_cid t /\
  next_qid s = next_qid t /\ next_gen s = next_gen t /\ st_db s = st_db t /\ adel N.eqb c (conns s) = adel N.eqb c (conns t).
Proof. intros E. unfold erase in E. inversion E. repeat split; auto. Qed.

Lemma restart_erase cfg c s t : erase c s = erase c t ->
  fst (restart cfg s) = fst (restart cfg t) /\ drop_to c (snd (restart cfg s)) = drop_to c (snd (restart cfg t)).
Proof.
  intros E. destruct (erase_fields c s t E) as (A1 & A2 & A3 & A4 & A5 & A6 & A7 & A8 & A9). unfold restart. cbn [fst snd].
  rewrite !drop_to_gone, A9. split; [|reflexivity]. unfold stored_of. rewrite A1, A2, A3, A4, A5, A6, A7, A8. reflexivity.
Qed.

Lemma firstn_S_run cfg fx s l t k : fst (run cfg fx s (firstn (S k) (l :: t))) = fst (run cfg fx (fst (step cfg fx s l)) (firstn k t)).
Proof. cbn [firstn]. apply run_cons. Qed.

Section Invisible.
Variables (cfg : config) (fx : fixes).
Hypotheses (F1 : fx_stage fx = true) (F2 : fx_chan_open fx = true) (F3 : fx_closeok_releases fx = true)
           (F4 : fx_delete_checks_first fx = true).
Variable c : N.
Hypothesis Blind : blind_step cfg fx c.

Lemma stage_of_opened s : conn_opened s c = match stage_of s c with Some st => cstage_eqb st StOpen | None => false end.
Proof. unfold conn_opened, stage_of. destruct (get_conn s c); reflexivity. Qed.
Lemma stage_of_none s : stage_of s c = None <-> get_conn s c = None.
Proof. unfold stage_of. destruct (get_conn s c); cbn; split; congruence. Qed.

Lemma sim_run ls : forall s t,
  UI s -> UI t -> erase c s = erase c t -> conn_opened t c = false -> (get_conn t c = None -> get_conn s c = None) ->
  never_open_from cfg fx c s ls ->
  erase c (fst (run cfg fx s ls)) = erase c (fst (run cfg fx t (nf c ls))) /\
  drop_to c (snd (run cfg fx s ls)) = drop_to c (snd (run cfg fx t (nf c ls))).
Proof.
  induction ls as [|l ls IH]; intros s t Us Ut E Hot Hpres Hno.
  - cbn. auto.
  - assert (Hos : conn_opened s c = false) by (apply (Hno 0%nat)).
    assert (Hno1 : never_open_from cfg fx c (fst (step cfg fx s l)) ls) by (intros k; rewrite <- firstn_S_run; apply Hno).
    assert (Hos1 : conn_opened (fst (step cfg fx s l)) c = false) by (apply (Hno1 0%nat)).
    pose proof (UI_step cfg fx F1 F2 F3 F4 s l Us) as Us1.
    unfold nf. cbn [filter]. fold (nf c ls). destruct (frame_of c l) eqn:Hl; cbn [negb].
    + (* a frame of c: only the full run moves *)
      destruct (unopened_cannot_touch_UI cfg fx F1 s l c Us Hos Hl) as (A & B & _).
      assert (Hpres1 : get_conn t c = None -> get_conn (fst (step cfg fx s l)) c = None).
      { intros Et. rewrite (frame_on_gone cfg fx s c l (Hpres Et) Hl). cbn. auto. }
      destruct (IH (fst (step cfg fx s l)) t Us1 Ut (eq_trans A E) Hot Hpres1 Hno1) as [I1 I2].
      cbn [run]. destruct (step cfg fx s l) as [s1 e1]. cbn [fst snd] in *. destruct (run cfg fx s1 ls) as [s2 e2]. cbn [fst snd] in *.
      split; [exact I1|]. rewrite drop_to_app, (drop_to_hs c e1 B). exact I2.
    + (* any other label: both runs move *)
      pose proof (UI_step cfg fx F1 F2 F3 F4 t l Ut) as Ut1.
      assert (Hstep : erase c (fst (step cfg fx s l)) = erase c (fst (step cfg fx t l)) /\
                      drop_to c (snd (step cfg fx s l)) = drop_to c (snd (step cfg fx t l)) /\
                      conn_opened (fst (step cfg fx t l)) c = false /\
                      (get_conn (fst (step cfg fx t l)) c = None -> get_conn (fst (step cfg fx s l)) c = None)).
      { destruct (touches c l) eqn:Ht.
        - destruct l; cbn [touches frame_of] in Ht, Hl; try discriminate; try congruence; try (apply N.eqb_eq in Ht; subst c0).
          + (* LConnect *) cbn [step] in *. destruct (get_conn t c) as [cnt|] eqn:Et.
            * destruct (get_conn s c) as [cns|] eqn:Es; cbn [fst snd] in *.
              -- repeat split; auto. congruence.
              -- exfalso. unfold conn_opened, get_conn in Hos1. cbn in Hos1. rewrite (alookup_aset N.eqb Neqb_spec), N.eqb_refl in Hos1. discriminate.
            * rewrite (Hpres eq_refl) in *. cbn [fst] in Hos1.
              exfalso. unfold conn_opened, get_conn in Hos1. cbn in Hos1. rewrite (alookup_aset N.eqb Neqb_spec), N.eqb_refl in Hos1. discriminate.
          + (* LSocketLoss *) cbn [step].
            assert (Hcl : forall x, UI x -> conn_opened x c = false ->
                      erase c (fst (conn_close cfg fx x c)) = erase c x /\ drop_to c (snd (conn_close cfg fx x c)) = [] /\ get_conn (fst (conn_close cfg fx x c)) c = None).
            { intros x Ux Hox. destruct (get_conn x c) as [cn|] eqn:Ex.
              - assert (Hne : cn_stage cn <> StOpen) by (unfold conn_opened in Hox; rewrite Ex in Hox; intros E0; rewrite E0 in Hox; discriminate).
                destruct Ux as [[[V _] H] _].
                destruct (conn_close_hs cfg fx x c (cn_stage cn) (hs_at_of_GI x c cn H Ex Hne) (owns_nothing_VI x c V Hox)) as (x2 & E2 & A2 & B2).
                rewrite E2. cbn [fst snd]. repeat split; auto. unfold drop_to, to_conn. cbn. rewrite N.eqb_refl. reflexivity.
              - unfold conn_close. rewrite Ex. cbn. auto. }
            destruct (Hcl s Us Hos) as (A1 & A2 & A3). destruct (Hcl t Ut Hot) as (B1 & B2 & B3).
            destruct (conn_close cfg fx s c) as [s1 e1]. destruct (conn_close cfg fx t c) as [t1 e1']. cbn [fst snd] in *.
            repeat split; try congruence. unfold conn_opened. rewrite B3. reflexivity.
          + (* LAccept *) cbn [step]. 
            assert (Hac : forall x, erase c (fst (match get_conn x c with Some _ => (x, []) | None => (x <| conns := aset N.eqb c {| cn_chans := [(0, channel0 <| ch_status := ChNew |>)]; cn_qos := qos0; cn_stage := StStart |} (conns x) |>, out1 c 0 SConnStart) end)) = erase c x /\
                                  drop_to c (snd (match get_conn x c with Some _ => (x, []) | None => (x <| conns := aset N.eqb c {| cn_chans := [(0, channel0 <| ch_status := ChNew |>)]; cn_qos := qos0; cn_stage := StStart |} (conns x) |>, out1 c 0 SConnStart) end)) = []).
            { intros x. destruct (get_conn x c); cbn [fst snd]; [auto|]. split; [apply erase_aset_self|]. unfold drop_to, to_conn. cbn. rewrite N.eqb_refl. reflexivity. }
            destruct (Hac s) as [A1 A2]. destruct (Hac t) as [B1 B2]. repeat split; try congruence.
            * destruct (get_conn t c) eqn:Et; cbn [fst]; auto. unfold conn_opened, get_conn. cbn. rewrite (alookup_aset N.eqb Neqb_spec), N.eqb_refl. reflexivity.
            * intros Eg. exfalso. destruct (get_conn t c) eqn:Et; cbn [fst] in Eg; [congruence|].
              unfold get_conn in Eg. cbn in Eg. rewrite (alookup_aset N.eqb Neqb_spec), N.eqb_refl in Eg. discriminate.
          + (* LRestart *) cbn [step]. destruct (restart_erase cfg c s t E) as [A1 A2]. rewrite A1. repeat split; auto.
        - (* no connection named c is touched *)
          destruct (Blind s l Ht Us Hos) as [A1 A2]. destruct (Blind t l Ht Ut Hot) as [B1 B2].
          pose proof (SK_step c cfg fx s l Ht) as Ks. pose proof (SK_step c cfg fx t l Ht) as Kt. unfold SK in Ks, Kt.
          split; [rewrite <- A1, <- B1, E; reflexivity|]. split; [rewrite <- A2, <- B2, E; reflexivity|]. split.
          + rewrite stage_of_opened, Kt, <- stage_of_opened. exact Hot.
          + intros Eg. apply stage_of_none. rewrite Ks. apply stage_of_none. apply Hpres. apply stage_of_none. rewrite <- Kt. apply stage_of_none. exact Eg. }
      destruct Hstep as (S1 & S2 & S3 & S4).
      destruct (IH _ _ Us1 Ut1 S1 S3 S4 Hno1) as [I1 I2].
      cbn [run]. destruct (step cfg fx s l) as [s1 e1]. destruct (step cfg fx t l) as [t1 e1']. cbn [fst snd] in *.
      destruct (run cfg fx s1 ls) as [s2 e2]. destruct (run cfg fx t1 (nf c ls)) as [t2 e2']. cbn [fst snd] in *.
      split; [exact I1|]. rewrite !drop_to_app, S2, I2. reflexivity.
Qed.

(* (b), given that the other labels are blind to the record of an unopened connection *)
Theorem no_effect_before_open_interleaved_from_blind ls :
  never_open_from cfg fx c (init cfg) ls ->
  erase c (fst (run cfg fx (init cfg) ls)) = erase c (fst (run cfg fx (init cfg) (nf c ls))) /\
  world (fst (run cfg fx (init cfg) ls)) c = world (fst (run cfg fx (init cfg) (nf c ls))) c /\
  drop_to c (snd (run cfg fx (init cfg) ls)) = drop_to c (snd (run cfg fx (init cfg) (nf c ls))).
Proof.
  intros Hno. destruct (sim_run ls (init cfg) (init cfg) (UI_init cfg) (UI_init cfg) eq_refl eq_refl (fun H => H) Hno) as [A B].
  split; [exact A|]. split; [apply erase_world; exact A|exact B].
Qed.
End Invisible.
