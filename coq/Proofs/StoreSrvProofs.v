(* srvstorage: the topology round trip (C09 store core).  After any sequence of
   Add/Del operations (a Kill between any two of them changes nothing: the store is
   write-through), the Get* functions return exactly the entities added and not deleted,
   with exactly the fields the stored record keeps. *)
From Coq Require Import String List NArith Bool Lia ZifyN ZifyNat ZifyBool Sorted.
From GMQ Require Import Store.KeyFmt Store.gen.KeyFmtGen Store.KV Store.SrvStore Store.MsgStore Store.StoreSpec
  Proofs.StoreKVProofs Proofs.StoreKeyProofs.
Import ListNotations.
Open Scope N_scope.

(* ------------------------------------------------------------ identities, keys, values *)
Definition bind_of (q e k : bytes) : binding :=
  {| bd_queue := q; bd_exchange := e; bd_key := k; bd_args := []; bd_topic := false; bd_match_any := false |}.

Definition key_of (i : ident) : key :=
  match i with
  | IVhost v => vhost_key v
  | IExchange v n => exchange_key_add v n
  | IQueue v n => queue_key_add v n
  | IBinding v q e k => binding_key_add v (bind_of q e k)
  end.

Definition value_of (e : entity) : bytes :=
  match e with
  | EVhost s => if s then [1] else []
  | EExchange x => marshal_exchange x
  | EQueue q => marshal_queue q
  | EBinding b => marshal_binding b
  end.

Definition kind_match (i : ident) (e : entity) : Prop :=
  match i, e with
  | IVhost _, EVhost _ => True
  | IExchange _ n, EExchange x => ex_name x = n
  | IQueue _ n, EQueue q => qu_name q = n
  | IBinding _ q e k, EBinding b => bd_queue b = q /\ bd_exchange b = e /\ bd_key b = k
  | _, _ => False
  end.

Lemma binding_key_ident : forall v b, binding_key_add v b = key_of (binding_ident v b).
Proof. reflexivity. Qed.

Lemma ident_eqb_eq : forall a b, ident_eqb a b = true <-> a = b.
Proof.
  intros a b. destruct a, b; cbn; split; intro H; try discriminate;
    repeat (apply andb_true_iff in H; destruct H as [H ?]);
    repeat match goal with X : bytes_eqb _ _ = true |- _ => apply bytes_eqb_eq in X end; subst; try reflexivity;
    inversion H; subst; rewrite ?bytes_eqb_refl; reflexivity.
Qed.

Lemma ident_eqb_refl : forall a, ident_eqb a a = true.
Proof. intro. apply ident_eqb_eq. reflexivity. Qed.

(* key_of is injective on the identities the format separates *)
Lemma key_of_inj : forall a b, ident_ok a = true -> ident_ok b = true -> key_of a = key_of b -> a = b.
Proof.
  intros a b Ha Hb E.
  destruct prefix_kinds as (K1 & K2 & K3 & K4 & K5 & K6 & K7 & K8 & K9 & K10 & K11 & K12).
  destruct prefix_own as (O1 & O2 & O3 & O4).
  destruct a, b; cbn [key_of] in E; cbn [ident_ok] in Ha, Hb;
    repeat match goal with X : _ && _ = true |- _ => apply andb_true_iff in X; destruct X end.
  - apply vhost_key_inj in E. subst. reflexivity.
  - pose proof (O4 v) as X. rewrite E, K11 in X. discriminate.
  - pose proof (O4 v) as X. rewrite E, K10 in X. discriminate.
  - pose proof (O4 v) as X. rewrite E, K12 in X. discriminate.
  - pose proof (O4 v0) as X. rewrite <- E, K11 in X. discriminate.
  - apply exchange_key_inj in E as [-> ->]; [reflexivity | assumption | assumption].
  - pose proof (O2 v n) as X. rewrite E, K4 in X. discriminate.
  - pose proof (O2 v n) as X. rewrite E, K5 in X. discriminate.
  - pose proof (O4 v0) as X. rewrite <- E, K10 in X. discriminate.
  - pose proof (O1 v n) as X. rewrite E, K1 in X. discriminate.
  - apply queue_key_inj in E as [-> ->]; [reflexivity | assumption | assumption].
  - pose proof (O1 v n) as X. rewrite E, K2 in X. discriminate.
  - pose proof (O4 v0) as X. rewrite <- E, K12 in X. discriminate.
  - pose proof (O2 v0 n) as X. rewrite <- E, K5 in X. discriminate.
  - pose proof (O1 v0 n) as X. rewrite <- E, K2 in X. discriminate.
  - apply binding_key_inj in E as (-> & E1 & E2 & E3); try assumption. cbn in E1, E2, E3. subst. reflexivity.
Qed.

Lemma keqb_key_of : forall a b, ident_ok a = true -> ident_ok b = true -> keqb (key_of a) (key_of b) = ident_eqb a b.
Proof.
  intros a b Ha Hb. destruct (ident_eqb a b) eqn:E.
  - apply ident_eqb_eq in E. subst. apply keqb_refl.
  - apply keqb_neq. intro K. apply key_of_inj in K; try assumption. subst. rewrite ident_eqb_refl in E. discriminate.
Qed.

(* every operation is one Set or one Del of the key of its identity *)
Lemma step_effect : forall db o,
  srv_step db o = match op_effect o with
                  | Some (i, Some e) => kv_set db (key_of i) (value_of e)
                  | Some (i, None) => kv_del db (key_of i)
                  | None => db
                  end.
Proof. intros db o. destruct o; reflexivity. Qed.

Lemma op_kind : forall o i e, op_effect o = Some (i, Some e) -> kind_match i e.
Proof.
  intros o i e H. destruct o; cbn in H; inversion H; subst; cbn; auto.
Qed.

(* ------------------------------------------------------------ the invariant *)
Record srv_inv (db : sdb) (t : topo) : Prop := {
  si_get : forall id, ident_ok id = true -> kv_get db (key_of id) = option_map value_of (t id);
  si_src : forall k v, kv_get db k = Some v -> exists id, ident_ok id = true /\ k = key_of id;
  si_sorted : ksorted db;
  si_kind : forall id e, t id = Some e -> kind_match id e /\ ident_ok id = true
}.

Lemma inv_init : srv_inv [] (fun _ => None).
Proof. constructor; intros; try reflexivity; try discriminate. constructor. Qed.

Lemma inv_step : forall db t o, srv_inv db t -> op_ok o = true -> srv_inv (srv_step db o) (topo_step t o).
Proof.
  intros db t o [Hg Hs Hso Hk] Hok. rewrite step_effect. unfold topo_step, op_ok in *.
  destruct (op_effect o) as [[i [e|]]|] eqn:Eo.
  - apply andb_true_iff in Hok as [Hi _]. constructor.
    + intros id Hid. rewrite get_set, keqb_key_of by assumption. destruct (ident_eqb id i); [reflexivity | apply Hg; exact Hid].
    + intros k v H. rewrite get_set in H. destruct (keqb k (key_of i)) eqn:E.
      * apply keqb_eq in E. exists i. split; assumption.
      * apply Hs in H. exact H.
    + apply ksorted_set. exact Hso.
    + intros id e0 H. destruct (ident_eqb id i) eqn:E.
      * apply ident_eqb_eq in E. subst. inversion H; subst. split; [eapply op_kind; exact Eo | exact Hi].
      * apply Hk. exact H.
  - apply andb_true_iff in Hok as [Hi _]. constructor.
    + intros id Hid. rewrite get_del, keqb_key_of by assumption. destruct (ident_eqb id i); [reflexivity | apply Hg; exact Hid].
    + intros k v H. rewrite get_del in H. destruct (keqb k (key_of i)); [discriminate | apply Hs in H; exact H].
    + apply ksorted_del. exact Hso.
    + intros id e0 H. destruct (ident_eqb id i); [discriminate | apply Hk; exact H].
  - constructor; assumption.
Qed.

Lemma inv_run_from : forall ops db t, srv_inv db t -> ops_ok ops = true ->
  srv_inv (fold_left srv_step ops db) (fold_left topo_step ops t).
Proof.
  induction ops as [|o r IH]; intros db t H Hok; [exact H|]. cbn in Hok. apply andb_true_iff in Hok as [Ho Hr].
  cbn [fold_left]. apply IH; [apply inv_step; assumption | exact Hr].
Qed.

Lemma inv_run : forall ops, ops_ok ops = true -> srv_inv (srv_run ops) (topo_spec ops).
Proof. intros. apply inv_run_from; [apply inv_init | assumption]. Qed.

(* ------------------------------------------------------------ what a Get* scan returns *)
Definition ident_vhost (i : ident) : bytes :=
  match i with IVhost v => v | IExchange v _ => v | IQueue v _ => v | IBinding v _ _ _ => v end.

Lemma vhost_of_key_of : forall i, ident_ok i = true -> vhost_of_key (key_of i) = Some (ident_vhost i).
Proof.
  intros i H. destruct i; cbn [ident_ok] in H; cbn [key_of ident_vhost];
    repeat match goal with X : _ && _ = true |- _ => apply andb_true_iff in X; destruct X end.
  - apply vhost_of_vhost_key; assumption.
  - apply vhost_of_exchange_key; assumption.
  - apply vhost_of_queue_key; assumption.
  - apply vhost_of_binding_key; assumption.
Qed.

(* a scan over entries that all come from well-formed identities never panics and is a filter *)
Lemma scan_vhost_spec : forall (A : Type) pfx vhost (dec : bytes -> A) (l : sdb),
  (forall k v, In (k, v) l -> exists id, ident_ok id = true /\ k = key_of id) ->
  exists r, scan_vhost pfx vhost dec l = Some r /\
    forall x, In x r <-> exists k v, In (k, v) l /\ vhost_filter pfx vhost k = Some true /\ x = dec v.
Proof.
  induction l as [|[k v] t IH]; intros Hsrc.
  - exists []. split; [reflexivity|]. intro x. split; [intros [] | intros (k & v & [] & _)].
  - destruct IH as (r & Hr & Hin); [intros k0 v0 H0; apply (Hsrc k0 v0); right; exact H0|].
    destruct (Hsrc k v (or_introl eq_refl)) as (id & Hid & Ek).
    assert (Hf : exists b, vhost_filter pfx vhost k = Some b).
    { unfold vhost_filter. destruct (is_prefix (bytes_of_string pfx) k); [|eauto]. subst k. rewrite vhost_of_key_of by exact Hid. eauto. }
    destruct Hf as [b Hb]. cbn [scan_vhost]. rewrite Hb. destruct b.
    + rewrite Hr. exists (dec v :: r). split; [reflexivity|]. intro x. split.
      * intros [Hx|Hx]; [exists k, v; split; [left; reflexivity | split; [exact Hb | symmetry; exact Hx]]|].
        apply Hin in Hx as (k0 & v0 & H0 & H1 & H2). exists k0, v0. split; [right; exact H0 | split; assumption].
      * intros (k0 & v0 & [H0|H0] & H1 & H2).
        -- inversion H0; subst. left. reflexivity.
        -- right. apply Hin. exists k0, v0. split; [exact H0 | split; assumption].
    + exists r. split; [exact Hr|]. intro x. split.
      * intro Hx. apply Hin in Hx as (k0 & v0 & H0 & H1 & H2). exists k0, v0. split; [right; exact H0 | split; assumption].
      * intros (k0 & v0 & [H0|H0] & H1 & H2).
        -- inversion H0; subst. rewrite Hb in H1. discriminate.
        -- apply Hin. exists k0, v0. split; [exact H0 | split; assumption].
Qed.

Lemma vhost_filter_key_of : forall pfx vhost i, ident_ok i = true ->
  vhost_filter pfx vhost (key_of i) = Some (is_prefix (bytes_of_string pfx) (key_of i) && bytes_eqb (ident_vhost i) vhost).
Proof.
  intros pfx vhost i H. unfold vhost_filter. destruct (is_prefix (bytes_of_string pfx) (key_of i)); [|reflexivity].
  rewrite vhost_of_key_of by exact H. reflexivity.
Qed.

(* generic: entries of one kind under one vhost *)
Lemma scan_result : forall (A : Type) ops pfx vhost (dec : bytes -> A), ops_ok ops = true ->
  exists r, scan_vhost pfx vhost dec (kv_iterate (srv_run ops)) = Some r /\
    forall x, In x r <-> exists id e, topo_spec ops id = Some e /\
                          is_prefix (bytes_of_string pfx) (key_of id) = true /\ ident_vhost id = vhost /\ x = dec (value_of e).
Proof.
  intros A ops pfx vhost dec Hok. pose proof (inv_run ops Hok) as [Hg Hs Hso Hk].
  destruct (scan_vhost_spec A pfx vhost dec (srv_run ops)) as (r & Hr & Hin).
  { intros k v H. apply (Hs k v). apply in_get; [exact Hso | exact H]. }
  exists r. split; [exact Hr|]. intro x. rewrite Hin. split.
  - intros (k & v & H0 & H1 & H2). apply in_get in H0; [|exact Hso].
    destruct (Hs k v H0) as (id & Hid & Ek). subst k. rewrite vhost_filter_key_of in H1 by exact Hid.
    assert (H3 : is_prefix (bytes_of_string pfx) (key_of id) && bytes_eqb (ident_vhost id) vhost = true) by congruence.
    apply andb_true_iff in H3 as [Hp Hv]. apply bytes_eqb_eq in Hv.
    rewrite Hg in H0 by exact Hid. destruct (topo_spec ops id) as [e|] eqn:Et; [|discriminate]. cbn in H0.
    assert (Ev : v = value_of e) by congruence. subst v.
    exists id, e. split; [exact Et|]. split; [exact Hp|]. split; [exact Hv | exact H2].
  - intros (id & e & Et & Hp & Hv & Hx). destruct (Hk id e Et) as [_ Hid].
    exists (key_of id), (value_of e). split; [|split].
    + apply get_in. rewrite Hg by exact Hid. rewrite Et. reflexivity.
    + rewrite vhost_filter_key_of by exact Hid. rewrite Hp. subst vhost. rewrite bytes_eqb_refl. reflexivity.
    + exact Hx.
Qed.

(* which identities lie under each scan prefix *)
Lemma under_queue_prefix : forall i, is_prefix (bytes_of_string scan_prefix_queues) (key_of i) = true -> exists v n, i = IQueue v n.
Proof.
  destruct prefix_kinds as (K1 & K2 & K3 & _). intros i H. destruct i; cbn [key_of] in H.
  - change (bytes_of_string scan_prefix_queues) with P_queue in H. rewrite K3 in H. discriminate.
  - change (bytes_of_string scan_prefix_queues) with P_queue in H. rewrite K1 in H. discriminate.
  - eauto.
  - change (bytes_of_string scan_prefix_queues) with P_queue in H. rewrite K2 in H. discriminate.
Qed.

Lemma under_exchange_prefix : forall i, is_prefix (bytes_of_string scan_prefix_exchanges) (key_of i) = true -> exists v n, i = IExchange v n.
Proof.
  destruct prefix_kinds as (_ & _ & _ & K4 & K5 & K6 & _). intros i H. destruct i; cbn [key_of] in H.
  - change (bytes_of_string scan_prefix_exchanges) with P_exchange in H. rewrite K6 in H. discriminate.
  - eauto.
  - change (bytes_of_string scan_prefix_exchanges) with P_exchange in H. rewrite K4 in H. discriminate.
  - change (bytes_of_string scan_prefix_exchanges) with P_exchange in H. rewrite K5 in H. discriminate.
Qed.

Lemma under_binding_prefix : forall i, is_prefix (bytes_of_string scan_prefix_bindings) (key_of i) = true -> exists v q e k, i = IBinding v q e k.
Proof.
  destruct prefix_kinds as (_ & _ & _ & _ & _ & _ & K7 & K8 & K9 & _). intros i H. destruct i; cbn [key_of] in H.
  - change (bytes_of_string scan_prefix_bindings) with P_binding in H. rewrite K9 in H. discriminate.
  - change (bytes_of_string scan_prefix_bindings) with P_binding in H. rewrite K8 in H. discriminate.
  - change (bytes_of_string scan_prefix_bindings) with P_binding in H. rewrite K7 in H. discriminate.
  - eauto.
Qed.

(* ------------------------------------------------------------ the round trip *)
Theorem topology_roundtrip : forall ops v, ops_ok ops = true ->
  (exists l, srv_get_queues (srv_run ops) v = Some l /\
     forall r, In r l <-> exists n q, topo_spec ops (IQueue v n) = Some (EQueue q) /\ r = restore_queue q) /\
  (exists l, srv_get_exchanges (srv_run ops) v = Some l /\
     forall r, In r l <-> exists n x, topo_spec ops (IExchange v n) = Some (EExchange x) /\ r = restore_exchange x) /\
  (exists l, srv_get_bindings (srv_run ops) v = Some l /\
     forall r, In r l <-> exists q e k b, topo_spec ops (IBinding v q e k) = Some (EBinding b) /\ r = restore_binding b).
Proof.
  intros ops v Hok. pose proof (inv_run ops Hok) as [Hg Hs Hso Hk].
  destruct prefix_own as (O1 & O2 & O3 & O4).
  split; [|split].
  - destruct (scan_result queue ops scan_prefix_queues v unmarshal_queue Hok) as (l & Hl & Hin).
    exists l. split; [exact Hl|]. intro r. rewrite Hin. split.
    + intros (id & e & Et & Hp & Hv & Hx). apply under_queue_prefix in Hp as (v0 & n & ->). cbn in Hv. subst v0.
      destruct (Hk _ _ Et) as [Hm _]. destruct e; cbn in Hm; try contradiction. exists n, q. split; [exact Et | exact Hx].
    + intros (n & q & Et & Hx). exists (IQueue v n), (EQueue q). repeat split; try assumption; try apply O1.
  - destruct (scan_result exchange ops scan_prefix_exchanges v unmarshal_exchange Hok) as (l & Hl & Hin).
    exists l. split; [exact Hl|]. intro r. rewrite Hin. split.
    + intros (id & e & Et & Hp & Hv & Hx). apply under_exchange_prefix in Hp as (v0 & n & ->). cbn in Hv. subst v0.
      destruct (Hk _ _ Et) as [Hm _]. destruct e; cbn in Hm; try contradiction. exists n, e. split; [exact Et | exact Hx].
    + intros (n & x & Et & Hx). exists (IExchange v n), (EExchange x). repeat split; try assumption; try apply O2.
  - destruct (scan_result binding ops scan_prefix_bindings v unmarshal_binding Hok) as (l & Hl & Hin).
    exists l. split; [exact Hl|]. intro r. rewrite Hin. split.
    + intros (id & e & Et & Hp & Hv & Hx). apply under_binding_prefix in Hp as (v0 & q & e0 & k & ->). cbn in Hv. subst v0.
      destruct (Hk _ _ Et) as [Hm _]. destruct e; cbn in Hm; try contradiction. exists q, e0, k, b. split; [exact Et | exact Hx].
    + intros (q & e & k & b & Et & Hx). exists (IBinding v q e k), (EBinding b). repeat split; try assumption; try apply O3.
Qed.

(* ------------------------------------------------------------ what the stored records keep (F22) *)
Lemma take_exact_app : forall (A : Type) (s r : list A), take_exact (length s) (s ++ r) = Some (s, r).
Proof. induction s as [|x s IH]; intro r; cbn; [reflexivity|]. rewrite IH. reflexivity. Qed.

Lemma r_shortstr_w : forall s r, short s = true -> r_shortstr (w_shortstr s ++ r) = Some (s, r).
Proof.
  intros s r H. unfold short in H. apply N.ltb_lt in H. unfold w_shortstr, r_shortstr. cbn [app].
  rewrite N.mod_small by exact H. rewrite Nat2N.id. apply take_exact_app.
Qed.

Lemma restore_queue_id : forall q, short (qu_name q) = true -> queue_fully_stored q = true -> restore_queue q = q.
Proof.
  intros [n c x a d] Hs Hf. unfold queue_fully_stored in Hf. cbn in *.
  apply andb_true_iff in Hf as [Hf Hc]. apply andb_true_iff in Hf as [Hd Hx]. apply negb_true_iff in Hx. apply N.eqb_eq in Hc. subst.
  unfold restore_queue, unmarshal_queue, marshal_queue. cbn [qu_name qu_autodelete]. rewrite r_shortstr_w by exact Hs.
  destruct a; reflexivity.
Qed.

Lemma restore_exchange_id : forall e, short (ex_name e) = true -> exchange_fully_stored e = true -> restore_exchange e = e.
Proof.
  intros [n t d a i s] Hs Hf. unfold exchange_fully_stored in Hf. cbn in *.
  repeat (apply andb_true_iff in Hf; destruct Hf as [Hf ?]).
  repeat match goal with X : negb _ = true |- _ => apply negb_true_iff in X end. subst.
  unfold restore_exchange, unmarshal_exchange, marshal_exchange. cbn [ex_name ex_type]. rewrite r_shortstr_w by exact Hs. reflexivity.
Qed.

(* witnesses: the flags that do not survive *)
Lemma restore_exchange_refuted : exists e, short (ex_name e) = true /\ restore_exchange e <> e.
Proof.
  exists {| ex_name := bs "e"; ex_type := 0; ex_durable := true; ex_autodelete := true; ex_internal := true; ex_system := false |}.
  split; [reflexivity | vm_compute; discriminate].
Qed.
Lemma restore_queue_refuted : exists q, short (qu_name q) = true /\ restore_queue q <> q.
Proof.
  exists {| qu_name := bs "q"; qu_conn_id := 7; qu_exclusive := true; qu_autodelete := false; qu_durable := true |}.
  split; [reflexivity | vm_compute; discriminate].
Qed.
Lemma restore_binding_refuted : exists b, bd_match_any b = true /\ bd_match_any (restore_binding b) = false.
Proof.
  exists {| bd_queue := bs "q"; bd_exchange := bs "h"; bd_key := []; bd_args := [7; 120; 45; 109; 97; 116; 99; 104; 83; 0; 0; 0; 3; 97; 110; 121];
            bd_topic := false; bd_match_any := true |}.
  split; reflexivity.
Qed.

(* the binding key ignores the arguments: the second headers binding overwrites the first *)
Definition bw1 : binding := {| bd_queue := bs "q"; bd_exchange := bs "h"; bd_key := []; bd_args := [1]; bd_topic := false; bd_match_any := false |}.
Definition bw2 : binding := {| bd_queue := bs "q"; bd_exchange := bs "h"; bd_key := []; bd_args := [2]; bd_topic := false; bd_match_any := false |}.
Lemma binding_args_differ : bd_args bw1 <> bd_args bw2.
Proof. discriminate. Qed.
Lemma binding_args_overwrite : srv_get_bindings (srv_run [SAddBinding (bs "/") bw1; SAddBinding (bs "/") bw2]) (bs "/") = Some [bw2].
Proof. vm_compute. reflexivity. Qed.

(* non-vacuity of the round trip: declarations, a delete, kills, a second vhost *)
Lemma roundtrip_example :
  let q1 := {| qu_name := bs "orders.eu"; qu_conn_id := 0; qu_exclusive := false; qu_autodelete := false; qu_durable := true |} in
  let q2 := {| qu_name := bs "tmp"; qu_conn_id := 0; qu_exclusive := false; qu_autodelete := true; qu_durable := true |} in
  let x := {| ex_name := bs "logs"; ex_type := 2; ex_durable := true; ex_autodelete := false; ex_internal := false; ex_system := false |} in
  let b := {| bd_queue := bs "orders.eu"; bd_exchange := bs "logs"; bd_key := bs "eu.#"; bd_args := []; bd_topic := true; bd_match_any := false |} in
  let ops := [SAddVhost (bs "/") true; SAddExchange (bs "/") x; SAddQueue (bs "/") q1; SKill; SAddQueue (bs "/") q2;
              SAddBinding (bs "/") b; SAddQueue (bs "other") q2; SKill; SDelQueue (bs "/") q2; SKill] in
  ops_ok ops = true /\ srv_get_queues (srv_run ops) (bs "/") = Some [q1] /\ srv_get_exchanges (srv_run ops) (bs "/") = Some [x] /\
  srv_get_bindings (srv_run ops) (bs "/") = Some [b] /\ srv_get_queues (srv_run ops) (bs "other") = Some [q2].
Proof. vm_compute. repeat split; reflexivity. Qed.
