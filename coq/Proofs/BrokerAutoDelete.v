(* C14, auto-delete: in every reachable state, a queue declared auto-delete that has had a consumer and whose registry is
   empty is scheduled for deletion (its name is in the auto-delete list, which the auto-delete turn LAutoDelete works off),
   so once no LAutoDelete is enabled no such queue is left; for every label (AD_step), no repair needed. *)
From Coq Require Import List String NArith ZArith Bool Lia.
From RecordUpdate Require Import RecordUpdate.
Import ListNotations.
From GMQ Require Import Broker.Model Proofs.BrokerFrames Proofs.BrokerTags Proofs.BrokerChanInv Proofs.BrokerQueueInv
  Proofs.BrokerLedger2 Proofs.BrokerConserveView Proofs.BrokerRegistry Proofs.BrokerCountsInv.
Open Scope N_scope.

Definition trg (qu : queue) : bool := q_autodel qu && q_wasconsumed qu && match q_consumers qu with [] => true | _ => false end.
Definition trig (s : state) (qn : string) : Prop := exists qu, get_queue s qn = Some qu /\ trg qu = true.
Definition ADx (x : option string) (s : state) : Prop := forall qn, trig s qn -> Some qn = x \/ In qn (autodel s).
Definition AD : state -> Prop := ADx None.
(* no queue enters the trigger state, nothing leaves the list *)
Definition ale (s s' : state) : Prop := (forall qn, trig s' qn -> trig s qn) /\ (forall qn, In qn (autodel s) -> In qn (autodel s')).

Lemma ale_refl s : ale s s. Proof. split; auto. Qed.
Lemma ale_trans s1 s2 s3 : ale s1 s2 -> ale s2 s3 -> ale s1 s3.
Proof. intros [A1 B1] [A2 B2]. split; auto. Qed.
Lemma ADx_ale x s s' : ale s s' -> ADx x s -> ADx x s'.
Proof. intros [A B] H qn Ht. destruct (H qn (A qn Ht)); auto. Qed.
Lemma ale_same s s' : queues s' = queues s -> autodel s' = autodel s -> ale s s'.
Proof. intros E1 E2. split; [intros qn (qu & Hg & Ht); exists qu; unfold get_queue in *; rewrite <- E1; auto|intros; rewrite E2; auto]. Qed.
Lemma ale_nc s s' : NC s' = NC s -> ale s s'.
Proof. intros E. apply ale_same; [exact (f_equal fst E)|exact (f_equal (fun p => snd (snd p)) E)]. Qed.
Lemma ale_set_queue s q qu qu' : get_queue s q = Some qu -> (trg qu' = true -> trg qu = true) -> ale s (set_queue s q qu').
Proof.
  intros Hg Ht. split; [|auto]. intros qn (qu0 & Hg0 & Ht0). rewrite get_queue_set_queue' in Hg0. destruct (seqb qn q) eqn:E.
  - apply seqb_spec in E. subst. inversion Hg0; subst. exists qu. auto.
  - exists qu0. auto.
Qed.
Lemma ale_upd_queue s q f : (forall qu, trg (f qu) = true -> trg qu = true) -> ale s (upd_queue s q f).
Proof. intros Hf. unfold upd_queue. destruct (get_queue s q) eqn:E; [|apply ale_refl]. eapply ale_set_queue; eauto. Qed.
Lemma ale_del_queue s q : ale s (s <| queues := adel seqb q (queues s) |>).
Proof. split; [|auto]. intros qn (qu & Hg & Ht). rewrite get_queue_del' in Hg. destruct (seqb qn q); [discriminate|]. exists qu. auto. Qed.
Lemma ale_fold {A} (f : state -> A -> state) l : (forall s a, ale s (f s a)) -> forall s, ale s (fold_left f l s).
Proof. intros Hf. induction l as [|a t IH]; intros s; cbn; [apply ale_refl|]. eapply ale_trans; [apply Hf|apply IH]. Qed.

Lemma trg_popped rest qu : trg (popped rest qu) = trg qu.
Proof. destruct (popped_call rest qu) as [b ->]. reflexivity. Qed.

Ltac apeel :=
  match goal with
  | |- ale ?s ?s => apply ale_refl
  | H : ale ?s ?s1 |- ale ?s ?s1 => exact H
  | |- ale _ (upd_chan ?s1 _ _ _) => apply (ale_trans _ s1); [|apply ale_nc; apply NC_upd_chan]
  | |- ale _ (upd_msg ?s1 _ _) => apply (ale_trans _ s1); [|apply ale_nc; apply NC_upd_msg]
  | |- ale _ (upd_queue ?s1 _ _) => apply (ale_trans _ s1); [|apply ale_upd_queue; intros qu0; first [exact (fun H => H)|rewrite trg_popped; exact (fun H => H)]]
  | |- ale _ (if ?b then _ else _) => destruct b eqn:?
  | |- ale _ (match ?x with _ => _ end) => destruct x eqn:?
  | |- ale _ (@set state _ _ _ _ ?s1) => apply (ale_trans _ s1); [|apply ale_same; reflexivity]
  end.

Lemma ale_store_writeback s qn u d : ale s (store_writeback s qn u d).
Proof. unfold store_writeback. repeat apeel. Qed.
Lemma ale_queue_push s qn u : ale s (queue_push s qn u).
Proof.
  unfold queue_push. destruct (get_queue s qn) as [qu|] eqn:Eq; [|apply ale_refl]. destruct (get_msg s u) as [m|]; [|apply ale_refl].
  destruct (negb _); [apply ale_refl|]. cbv zeta.
  match goal with |- ale _ (set_queue ?s1 _ _) => apply (ale_trans _ s1) end.
  - repeat apeel.
  - apply (ale_set_queue _ _ qu); [|unfold call_consumers; destruct (q_active _); exact (fun H => H)].
    unfold get_queue in *. destruct (_ && _)%bool; [exact Eq|]. destruct (m_conf m); [rewrite queues_upd_msg|]; exact Eq.
Qed.
Lemma ale_queue_ackmsg s qn u : ale s (queue_ackmsg s qn u).
Proof.
  unfold queue_ackmsg. destruct (get_queue s qn) as [qu|] eqn:Eq; [|apply ale_refl]. destruct (get_msg s u) as [m|]; [|apply ale_refl].
  destruct (negb _); [apply ale_refl|]. cbv zeta.
  match goal with |- ale _ (set_queue ?s1 _ _) => apply (ale_trans _ s1) end.
  - repeat apeel.
  - apply (ale_set_queue _ _ qu); [|exact (fun H => H)]. unfold get_queue in *. destruct (_ && _)%bool; exact Eq.
Qed.
Lemma ale_queue_requeue s qn u : ale s (queue_requeue s qn u).
Proof.
  unfold queue_requeue. destruct (get_queue s qn) as [qu|] eqn:Eq; [|apply ale_refl].
  destruct (negb _); [apply ale_refl|]. cbv zeta.
  match goal with |- ale _ (set_queue ?s1 _ _) => apply (ale_trans _ s1) end.
  - repeat apeel. apply ale_store_writeback.
  - apply (ale_set_queue _ _ qu); [|unfold call_consumers; destruct (q_active _); exact (fun H => H)].
    unfold get_queue in *. cbn. rewrite queues_upd_msg. rewrite (proj1 (proj2 (store_writeback_frame _ _ _ _))). exact Eq.
Qed.
Lemma ale_chan_ackmsg s u : ale s (chan_ackmsg s u).
Proof. unfold chan_ackmsg. destruct (origin_queue s u); [apply ale_queue_ackmsg|repeat apeel]. Qed.
Lemma ale_chan_rejectmsg s u r : ale s (chan_rejectmsg s u r).
Proof. unfold chan_rejectmsg. destruct (origin_queue s u); [|repeat apeel]. destruct r; [apply ale_queue_requeue|apply ale_queue_ackmsg]. Qed.
Lemma ale_dec_qos cfg s c h u : ale s (dec_qos_and_consume_next cfg s c h u).
Proof. apply ale_nc. apply NC_dec_qos. Qed.
Lemma ale_handle_reject cfg s c h tag mult requeue cls mth : ale s (fst (handle_reject cfg s c h tag mult requeue cls mth)).
Proof.
  unfold handle_reject. destruct (get_chan s c h) as [ch|]; [|apply ale_refl].
  destruct mult.
  - cbn [fst]. eapply ale_trans; [|apply ale_fold; intros; apply ale_dec_qos].
    apply ale_fold. intros s0 a. eapply ale_trans; [|apply ale_chan_rejectmsg]. apply ale_nc. apply NC_upd_chan.
  - destruct (find _ _); cbn [fst]; [|apply ale_refl].
    eapply ale_trans; [|apply ale_dec_qos]. eapply ale_trans; [|apply ale_chan_rejectmsg]. apply ale_nc. apply NC_upd_chan.
Qed.
Lemma ale_handle_ack cfg s c h tag mult : ale s (fst (handle_ack cfg s c h tag mult)).
Proof.
  unfold handle_ack. destruct (get_chan s c h) as [ch|]; [|apply ale_refl].
  destruct mult.
  - cbn [fst]. eapply ale_trans; [|apply ale_fold; intros; apply ale_dec_qos].
    apply ale_fold. intros s0 a. eapply ale_trans; [|apply ale_chan_ackmsg]. apply ale_nc. apply NC_upd_chan.
  - destruct (find _ _); cbn [fst]; [|apply ale_refl].
    eapply ale_trans; [|apply ale_dec_qos]. eapply ale_trans; [|apply ale_chan_ackmsg]. apply ale_nc. apply NC_upd_chan.
Qed.

(* Queue.RemoveConsumer: the one place where a queue enters the trigger state - and is scheduled *)
Lemma ADx_queue_remove_consumer x s qn c h tag : ADx x s -> ADx x (queue_remove_consumer s qn c h tag).
Proof.
  intros H. unfold queue_remove_consumer. destruct (get_queue s qn) as [qu|] eqn:Eq; [|exact H]. cbv zeta.
  set (cs := remove_first _ (q_consumers qu)).
  set (qu' := if Nat.eqb (List.length cs) 0 then qu <| q_consumers := cs |> <| q_rr := 0%nat |> <| q_cexcl := false |>
              else qu <| q_consumers := cs |> <| q_rr := Nat.modulo (S (q_rr (qu <| q_consumers := cs |>))) (List.length cs) |>).
  assert (Hflags : q_autodel qu' = q_autodel qu /\ q_wasconsumed qu' = q_wasconsumed qu /\ q_consumers qu' = cs)
    by (subst qu'; destruct (Nat.eqb _ 0); auto).
  destruct Hflags as (F1 & F2 & F3).
  destruct (Nat.eqb (List.length cs) 0 && q_wasconsumed qu' && q_autodel qu')%bool eqn:Eb.
  - intros q0 (qu0 & Hg & Ht).
    change (get_queue (set_queue s qn qu') q0 = Some qu0) in Hg. rewrite get_queue_set_queue' in Hg. destruct (seqb q0 qn) eqn:E.
    + apply seqb_spec in E. subst q0. right. cbn. apply in_or_app. right. left. reflexivity.
    + destruct (H q0) as [X|X]; [exists qu0; auto|auto|]. right. cbn. apply in_or_app. left. exact X.
  - intros q0 (qu0 & Hg & Ht). rewrite get_queue_set_queue' in Hg. destruct (seqb q0 qn) eqn:E; [|apply H; exists qu0; auto].
    inversion Hg; subst qu0. exfalso. unfold trg in Ht. rewrite F1, F2, F3 in Ht. rewrite F2, F1 in Eb.
    destruct cs; [|rewrite andb_false_r in Ht; discriminate]. cbn in Eb. rewrite andb_true_r in Ht. rewrite andb_comm in Ht. congruence.
Qed.
Lemma ADx_consumer_stop x s c h tag : ADx x s -> ADx x (consumer_stop s c h tag).
Proof.
  intros H. unfold consumer_stop. destruct (get_chan s c h) as [ch|]; auto. destruct (find_consumer ch tag) as [cm|]; auto.
  destruct (c_status cm); auto; apply ADx_queue_remove_consumer; (eapply ADx_ale; [apply ale_nc; apply NC_set_chan|exact H]).
Qed.
Lemma ADx_cancel_fold x (l : list (N * N * string)) : forall s evs, ADx x s ->
  ADx x (fst (fold_left (fun acc y => let '(s, evs) := acc in let '(s', e) := consumer_cancel s y in (s', evs ++ e)) l (s, evs))).
Proof. induction l as [|[[c h] tag] t IH]; intros s evs H; cbn [fold_left]; auto. cbn [consumer_cancel]. apply IH. apply ADx_consumer_stop. exact H. Qed.

Lemma ADx_vhost_delete_queue x b s qn iu ie : ADx x s -> ADx x (fst (fst (vhost_delete_queue b s qn iu ie))).
Proof.
  intros H. unfold vhost_delete_queue. destruct (get_queue s qn) as [qu|] eqn:Eq; [|exact H].
  destruct (_ || _).
  - cbn [fst]. destruct b; [|exact H]. eapply ADx_ale; [|exact H]. eapply ale_set_queue; [exact Eq|exact (fun X => X)].
  - pose proof (ADx_cancel_fold x (q_consumers qu) s [] H) as H1.
    destruct (fold_left _ (q_consumers qu) (s, [])) as [s1 e1]. cbn [fst] in *.
    eapply ADx_ale; [|exact H1]. eapply ale_trans; [|apply ale_del_queue]. apply ale_same; destruct (q_durable qu); reflexivity.
Qed.
(* the name taken off the list need not be listed any more if the queue of that name is not in the trigger state *)
Lemma AD_named_untriggered s qn : ADx (Some qn) s -> (forall qu, get_queue s qn = Some qu -> trg qu = false) -> AD s.
Proof.
  intros H Hn q0 Ht. destruct (H q0 Ht) as [E|X]; [|right; exact X]. inversion E; subst q0. destruct Ht as (qu0 & Hg & Ht).
  rewrite (Hn qu0 Hg) in Ht. discriminate.
Qed.
(* deleting the queue whose name was taken off the list: it is gone, or - refused by if-unused - it has consumers *)
Lemma AD_vhost_delete_named b s qn iu : ADx (Some qn) s -> AD (fst (fst (vhost_delete_queue b s qn iu false))).
Proof.
  intros H. pose proof (ADx_vhost_delete_queue (Some qn) b s qn iu false H) as H1.
  apply (AD_named_untriggered _ qn H1).
  unfold vhost_delete_queue. destruct (get_queue s qn) as [qu|] eqn:Eq; [|cbn [fst]; intros; congruence].
  cbn [andb]. rewrite orb_false_r.
  destruct (iu && negb (Nat.eqb (List.length (q_consumers qu)) 0))%bool eqn:Er.
  - apply andb_prop in Er. destruct Er as [_ Er]. cbn [fst]. intros qu0 Hg.
    assert (Hc : q_consumers qu0 = q_consumers qu).
    { destruct b; [|congruence]. rewrite get_queue_set_queue', (proj2 (seqb_spec _ _) eq_refl) in Hg. inversion Hg. reflexivity. }
    unfold trg. rewrite Hc. destruct (q_consumers qu); [discriminate Er|]. apply andb_false_r.
  - destruct (fold_left _ (q_consumers qu) (s, [])) as [s1 e1]. cbn [fst]. intros qu0 Hg.
    rewrite get_queue_del', (proj2 (seqb_spec _ _) eq_refl) in Hg. discriminate.
Qed.

Lemma ADx_channel_close x cfg s c h : ADx x s -> ADx x (channel_close cfg s c h).
Proof.
  intros H. unfold channel_close. destruct (get_chan s c h) as [ch|]; [|exact H].
  eapply ADx_ale; [apply ale_nc; apply NC_upd_chan|].
  assert (H1 : ADx x (upd_chan (fold_left (fun s cm => consumer_stop s c h (c_tag cm)) (ch_consumers ch) s) c h (fun ch => ch <| ch_consumers := [] |>))).
  { eapply ADx_ale; [apply ale_nc; apply NC_upd_chan|]. apply fold_left_preserves; [intros; apply ADx_consumer_stop; auto|exact H]. }
  destruct (0 <? h); [|exact H1]. eapply ADx_ale; [apply ale_handle_reject|exact H1].
Qed.

Lemma ADx_conn_close x cfg fx s c : ADx x s -> ADx x (fst (conn_close cfg fx s c)).
Proof.
  intros H. unfold conn_close. destruct (get_conn s c) as [cn|]; [|exact H].
  set (s1 := fold_left _ _ s).
  assert (H1 : ADx x s1) by (subst s1; apply fold_left_preserves; [intros; apply ADx_channel_close; auto|exact H]).
  clearbody s1. set (owned := map fst (filter _ (queues s1))). clearbody owned.
  assert (X : forall evs, ADx x (fst (fold_left (fun acc qn => let '(s, evs) := acc in
                                             let '(s', e, _) := vhost_delete_queue (negb (fx_delete_checks_first fx)) s qn false false in
                                             (s', evs ++ e)) owned (s1, evs)))).
  { revert s1 H1. induction owned as [|qn r IH]; intros s1 H1 evs; cbn [fold_left fst]; [exact H1|].
    pose proof (ADx_vhost_delete_queue x (negb (fx_delete_checks_first fx)) s1 qn false false H1) as H2.
    destruct (vhost_delete_queue _ s1 qn false false) as [[s2 e2] r2]. cbn [fst] in *. apply IH. exact H2. }
  specialize (X []). destruct (fold_left _ owned (s1, [])) as [s2 e2]. cbn [fst] in *.
  eapply ADx_ale; [apply ale_same; reflexivity|exact X].
Qed.

Lemma ale_wake s c h tag : ale s (fst (wake_consumer s c h tag)).
Proof. apply ale_nc. apply NC_wake_consumer. Qed.

Lemma ale_queue_loop_turn s qn : ale s (queue_loop_turn s qn).
Proof.
  unfold queue_loop_turn. destruct (get_queue s qn) as [qu|] eqn:Eq; [|apply ale_refl]. destruct (negb (q_call qu)); [apply ale_refl|].
  assert (A1 : ale s (set_queue s qn (qu <| q_call := false |>))) by (eapply ale_set_queue; [exact Eq|exact (fun H => H)]).
  destruct (Nat.eqb _ 0); [exact A1|].
  eapply ale_trans; [|apply ale_upd_queue; intros qu0 X; exact X].
  eapply ale_trans; [exact A1|]. apply ale_fold. intros s0 [[c h] tag]. apply ale_wake.
Qed.

Lemma ale_turn_rest cfg fx s c h tag cm : ale s (fst (turn_rest cfg fx s c h tag cm)).
Proof.
  unfold turn_rest. destruct (get_queue s (c_queue cm)) as [qu|]; [|apply ale_refl].
  destruct (negb (q_active qu)); [apply ale_refl|]. destruct (q_ready qu) as [|u rest]; [apply ale_refl|].
  match goal with |- context [if c_noack cm then (Some [], []) else ?r] => destruct (if c_noack cm then (Some [], []) else r) as [ok ws] end.
  set (s1 := if c_noack cm then s else store_windows cfg s c h tag ws).
  assert (A1 : ale s s1) by (subst s1; destruct (c_noack cm); [apply ale_refl|apply ale_nc; apply NC_store_windows]).
  clearbody s1. destruct ok; [|exact A1].
  match goal with |- ale s (fst (let '(s2, _) := wake_consumer ?st c h tag in _)) =>
    assert (A2 : ale s st); [|pose proof (ale_wake st c h tag) as A3; destruct (wake_consumer st c h tag); eapply ale_trans; eauto] end.
  apply (ale_trans _ s1); [exact A1|].
  destruct (c_noack cm); repeat first [apply ale_queue_ackmsg | apeel | (eapply ale_trans; [|apply ale_queue_ackmsg])].
Qed.
Lemma ale_consumer_turn cfg fx s c h tag : ale s (fst (consumer_turn cfg fx s c h tag)).
Proof.
  rewrite consumer_turn_eq. destruct (get_chan s c h) as [ch|]; [|apply ale_refl].
  destruct (find_consumer ch tag) as [cm|]; [|apply ale_refl]. destruct (negb (c_token cm)); [apply ale_refl|]. cbv zeta.
  set (s0 := set_chan s c h _). assert (A0 : ale s s0) by (apply ale_nc; apply NC_set_chan). clearbody s0.
  destruct (c_status cm); [eapply ale_trans; [exact A0|apply ale_turn_rest]|exact A0|eapply ale_trans; [exact A0|apply ale_turn_rest]].
Qed.

Lemma trg_call qu : trg (call_consumers qu) = trg qu.
Proof. unfold call_consumers. destruct (q_active qu); reflexivity. Qed.

Theorem AD_handle_method cfg fx s c h m : AD s -> AD (fst (fst (handle_method cfg fx s c h m))).
Proof.
  intros H. unfold handle_method. destruct (get_chan s c h) as [ch|] eqn:Ech; [|exact H].
  destruct m; unfold ok, refuse.
  - destruct (ch_status ch); cbn [fst]; try exact H; (eapply ADx_ale; [apply ale_nc; apply NC_set_chan|exact H]).
  - cbn [fst]. apply ADx_channel_close. exact H.
  - cbn [fst]. destruct (fx_closeok_releases fx); [apply ADx_channel_close; exact H|eapply ADx_ale; [apply ale_nc; apply NC_set_chan|exact H]].
  - cbn [fst]. destruct (Bool.eqb _ _); [exact H|]. destruct a; (eapply ADx_ale; [apply ale_nc; apply NC_set_chan|exact H]).
  - destruct (extype_of type); [|exact H].
    repeat match goal with |- context [if ?b then _ else _] => destruct b end; cbn [fst]; auto.
    all: repeat match goal with |- context [match ?x with _ => _ end] => destruct x end; cbn [fst]; auto.
    all: try (eapply ADx_ale; [apply ale_same; reflexivity|exact H]).
  - destruct (fx_not_impl fx); exact H.
  - (* MQDeclare *) destruct (seqb name ""); [exact H|].
    destruct (queue_found s name) as [qu|] eqn:Ef.
    + repeat match goal with |- context [if ?b then _ else _] => destruct b end; cbn [fst]; auto.
    + destruct passive; [destruct nowait; exact H|]. cbn [fst].
      eapply ADx_ale; [|exact H].
      apply (ale_trans _ (set_queue (s <| next_qid ::= N.succ |>) name (new_queue (next_qid s) c dur excl ad))); [|apply ale_same; reflexivity].
      split; [|auto]. intros qn (qu0 & Hg & Ht). rewrite get_queue_set_queue' in Hg. destruct (seqb qn name); [|exists qu0; auto].
      inversion Hg; subst qu0. unfold trg, new_queue in Ht. cbn in Ht. rewrite andb_false_r in Ht. discriminate.
  - destruct (alookup _ _ _); [|exact H]. destruct (seqb ex ""); [exact H|].
    destruct (queue_found s q); [|exact H]. destruct (locked _ _); [exact H|]. destruct (bad_xmatch _); [exact H|]. destruct (extype_eqb _ ExTopic && bad_pattern _)%bool; [exact H|]. cbn [fst].
    eapply ADx_ale; [apply ale_same; reflexivity|exact H].
  - destruct (alookup _ _ _); [|exact H]. destruct (queue_found s q); [|exact H]. destruct (locked _ _); [exact H|]. destruct (bad_xmatch _); [exact H|]. destruct (extype_eqb _ ExTopic && bad_pattern _)%bool; [exact H|]. cbn [fst].
    eapply ADx_ale; [apply ale_same; reflexivity|exact H].
  - (* MQPurge *)
    destruct (queue_found s q) as [qu|] eqn:Ef; [|exact H]. apply queue_found_get in Ef. destruct (locked _ _); [exact H|]. cbn [fst].
    eapply ADx_ale; [|exact H].
    match goal with |- ale _ (set_queue ?s1 _ _) => apply (ale_trans _ s1) end.
    + apply ale_same; destruct (q_durable qu); reflexivity.
    + apply (ale_set_queue _ _ qu); [|exact (fun X => X)]. unfold get_queue in *. destruct (q_durable qu); exact Ef.
  - (* MQDelete *) destruct (queue_found s q); [|exact H]. destruct (locked _ _); [exact H|].
    pose proof (ADx_vhost_delete_queue None (negb (fx_delete_checks_first fx)) s q ifunused ifempty H) as Hd.
    destruct (vhost_delete_queue _ s q ifunused ifempty) as [[s1 e1] r1]. cbn [fst] in *. destruct r1; exact Hd.
  - (* MQos *)
    cbn [fst]. eapply ADx_ale; [|exact H]. eapply ale_trans; [|apply ale_nc; apply NC_wake_consumers].
    destruct (cfg_rabbit cfg); [destruct glob; (apply ale_nc; apply NC_set_chan)|].
    destruct glob; [|apply ale_nc; apply NC_set_chan]. destruct (get_conn s c); [apply ale_same; reflexivity|apply ale_refl].
  - (* MPublish *)
    destruct imm; [exact H|]. destruct (alookup _ _ _); [|exact H].
    eapply ADx_ale; [|exact H].
    destruct (ch_confirm ch); cbn [fst]; (eapply ale_trans; [|apply ale_nc; apply NC_set_chan]); apply ale_same; reflexivity.
  - (* MConsume *)
    destruct (queue_found s q) as [qu|] eqn:Eqf; [|exact H]. apply queue_found_get in Eqf.
    destruct (fx_excl_owner fx && locked qu c); [exact H|].
    destruct (find_consumer ch _); [exact H|].
    destruct (negb (Nat.eqb (List.length (q_consumers (qu <| q_wasconsumed := true |>))) 0) && _)%bool eqn:Eb; cbn [fst].
    + eapply ADx_ale; [|exact H]. eapply ale_set_queue; [exact Eqf|]. unfold trg. cbn.
      apply andb_prop in Eb. destruct Eb as [Eb _]. cbn in Eb. destruct (q_consumers qu); [discriminate Eb|]. cbn. rewrite andb_false_r. discriminate.
    + eapply ADx_ale; [|exact H]. eapply ale_trans; [|apply ale_nc; apply NC_set_chan].
      match goal with |- ale s (if seqb tag ""%string then ?a <| next_gen ::= N.succ |> else ?b) =>
        apply (ale_trans _ (set_queue s q (call_consumers ((if excl then qu <| q_wasconsumed := true |> <| q_cexcl := true |> else qu <| q_wasconsumed := true |>)
                                                        <| q_consumers ::= fun l => l ++ [(c, h, eff_tag s tag)] |>)))) end.
      * eapply ale_set_queue; [exact Eqf|]. rewrite trg_call. unfold trg. destruct excl; cbn; destruct (q_consumers qu); cbn; rewrite andb_false_r; discriminate.
      * destruct (seqb tag ""); apply ale_same; reflexivity.
  - (* MCancel *)
    destruct (find_consumer ch tag); [|exact H]. cbn [fst].
    eapply ADx_ale; [apply ale_nc; apply NC_upd_chan|]. eapply ADx_ale; [apply ale_nc; apply NC_upd_chan|]. apply ADx_consumer_stop. exact H.
  - (* MGet *)
    destruct (queue_found s q) as [qu|] eqn:Eqf; [|exact H]. apply queue_found_get in Eqf.
    destruct (fx_excl_owner fx && locked qu c); [exact H|].
    destruct (q_ready qu) as [|u rest] eqn:Erd; [exact H|].
    match goal with |- context [if noack then (Some [], []) else ?r] => destruct (if noack then (Some [], []) else r) as [okr ws] end.
    set (s1 := match ws with [w1; w2] => _ | _ => s end).
    assert (A1 : ale s s1).
    { subst s1. destruct ws as [|w1 [|w2 [|]]]; try apply ale_refl.
      destruct (get_conn _ c); [|apply ale_nc; apply NC_set_chan].
      eapply ale_trans; [apply ale_nc; apply (NC_set_chan s c h (ch <| ch_qos := w1 |>))|apply ale_same; reflexivity]. }
    clearbody s1. eapply ADx_ale; [|exact H].
    destruct okr; cbn [fst]; [|exact A1].
    apply (ale_trans _ s1); [exact A1|].
    destruct noack; repeat first [apply ale_queue_ackmsg | apeel | (eapply ale_trans; [|apply ale_queue_ackmsg])].
  - pose proof (ale_handle_ack cfg s c h tag mult) as Ha.
    destruct (handle_ack cfg s c h tag mult) as [s1 e1]. eapply ADx_ale; eauto.
  - pose proof (ale_handle_reject cfg s c h tag mult requeue 60 120) as Ha.
    destruct (handle_reject cfg s c h tag mult requeue 60 120) as [s1 e1]. eapply ADx_ale; eauto.
  - pose proof (ale_handle_reject cfg s c h tag false requeue 60 90) as Ha.
    destruct (handle_reject cfg s c h tag false requeue 60 90) as [s1 e1]. eapply ADx_ale; eauto.
  - exact H.
  - cbn [fst]. eapply ADx_ale; [apply ale_nc; apply NC_set_chan|exact H].
  - destruct (fx_not_impl fx); exact H.
  - exact H.
  - exact H.
  - destruct good; [cbn [fst]|exact H]. eapply ADx_ale; [apply ale_nc; apply NC_set_stage|exact H].
  - destruct within; [cbn [fst]|exact H]. eapply ADx_ale; [apply ale_nc; apply NC_set_stage|exact H].
  - destruct vhost_ok; [cbn [fst]|exact H]. eapply ADx_ale; [apply ale_nc; apply NC_set_stage|exact H].
Qed.

Lemma AD_restart cfg s : AD (fst (restart cfg s)).
Proof.
  intros qn (qu & Hg & Ht). exfalso. apply (alookup_in seqb seqb_spec) in Hg. unfold restart in Hg. cbn [fst queues] in Hg.
  apply in_map_iff in Hg. destruct Hg as ([q0 qu0] & E & _). inversion E; subst. unfold trg in Ht. cbn in Ht. rewrite andb_false_r in Ht. discriminate.
Qed.

Theorem AD_step cfg fx s l : AD s -> AD (fst (step cfg fx s l)).
Proof.
  apply (R_step cfg fx AD).
  - intros s0 c H. apply ADx_conn_close. exact H.
  - intros s0 c h H. eapply ADx_ale; [apply ale_nc; apply NC_upd_chan|exact H].
  - intros s0 c h H. eapply ADx_ale; [apply ale_nc; apply NC_ensure|exact H].
  - intros s0 c h H. eapply ADx_ale; [apply ale_nc; apply NC_upd_chan|exact H].
  - intros s0 c h t H. eapply ADx_ale; [apply ale_nc; apply NC_add_confirm|exact H].
  - intros s0 c st _ H. eapply ADx_ale; [apply ale_same; reflexivity|exact H].
  - intros s0 _. apply AD_restart.
  - intros s0 c h ch _ H. split; (eapply ADx_ale; [apply ale_nc; apply NC_set_chan|exact H]).
  - intros s0 qn u H. eapply ADx_ale; [apply ale_queue_push|exact H].
  - intros s0 u f H. eapply ADx_ale; [apply ale_nc; apply NC_upd_msg|exact H].
  - intros s0 qn H. eapply ADx_ale; [apply ale_queue_loop_turn|exact H].
  - (* the auto-delete turn *) intros s0 H. cbn [step]. destruct (autodel s0) as [|qn rest] eqn:Ea; [exact H|].
    assert (H0 : ADx (Some qn) (s0 <| autodel := rest |>)).
    { intros q0 (qu & Hg & Ht). destruct (H q0) as [X|X]; [exists qu; auto|discriminate|]. rewrite Ea in X. destruct X as [->|X]; [left; reflexivity|right; exact X]. }
    (* a name whose queue is gone or is not auto-delete is dropped: that queue is not in the trigger state; an auto-delete
       queue is deleted, unless it has consumers again (if-unused) - then it is not in the trigger state either *)
    destruct (get_queue _ qn) as [qu0|] eqn:Eq0; [|apply (AD_named_untriggered _ qn H0); intros; congruence].
    destruct (q_autodel qu0) eqn:Ead.
    2:{ apply (AD_named_untriggered _ qn H0). intros qu1 Hg. rewrite Eq0 in Hg. inversion Hg; subst qu1. unfold trg. rewrite Ead. reflexivity. }
    pose proof (AD_vhost_delete_named (negb (fx_delete_checks_first fx)) _ qn true H0) as Hd.
    destruct (vhost_delete_queue _ (s0 <| autodel := rest |>) qn true false) as [[s1 e1] r1]. exact Hd.
  - intros s0 rest H. eapply ADx_ale; [apply ale_same; reflexivity|exact H].
  - intros s0 H. cbn [step fst]. eapply ADx_ale; [|exact H].
    match goal with |- ale _ (fold_left _ _ ?s1) => apply (ale_trans _ s1); [apply ale_same; reflexivity|] end.
    apply ale_fold. intros. apply ale_nc. apply NC_store_confirm.
  - intros c h m _ H. apply AD_handle_method. exact H.
  - intros c h tag H. eapply ADx_ale; [apply ale_consumer_turn|exact H].
Qed.

Lemma AD_init cfg : AD (init cfg).
Proof. intros qn (qu & Hg & _). discriminate Hg. Qed.

Theorem AD_run cfg fx ls : forall s, AD s -> AD (fst (run cfg fx s ls)).
Proof.
  induction ls as [|l t IH]; intros s H; cbn [run fst]; auto.
  pose proof (AD_step cfg fx s l H) as H1. destruct (step cfg fx s l) as [s1 e1]. cbn [fst] in H1.
  specialize (IH s1 H1). destruct (run cfg fx s1 t) as [s2 e2]. exact IH.
Qed.

(* in every reachable state: an auto-delete queue that has been consumed from and has no consumer left is on the list the
   auto-delete turn works off; hence, once that turn is not enabled (the list is empty), no such queue exists *)
Theorem autodelete_scheduled_reachable cfg fx ls :
  let s := fst (run cfg fx (init cfg) ls) in
  (forall qn qu, get_queue s qn = Some qu -> q_autodel qu = true -> q_wasconsumed qu = true -> q_consumers qu = [] -> In qn (autodel s)) /\
  (autodel s = [] -> forall qn qu, get_queue s qn = Some qu -> q_autodel qu = true -> q_wasconsumed qu = true -> q_consumers qu <> []).
Proof.
  intros s. pose proof (AD_run cfg fx ls (init cfg) (AD_init cfg)) as H. fold s in H.
  assert (X : forall qn qu, get_queue s qn = Some qu -> q_autodel qu = true -> q_wasconsumed qu = true -> q_consumers qu = [] -> In qn (autodel s)).
  { intros qn qu Hg Ha Hw Hc. destruct (H qn) as [E|E]; [|discriminate|exact E]. exists qu. split; auto. unfold trg. rewrite Ha, Hw, Hc. reflexivity. }
  split; [exact X|]. intros He qn qu Hg Ha Hw Hc. pose proof (X qn qu Hg Ha Hw Hc) as Y. rewrite He in Y. destruct Y.
Qed.
