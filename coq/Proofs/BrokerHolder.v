(* C02, the single-holder invariant: per queue OBJECT every message id is either waiting once or held by exactly one
   unsettled delivery - never both, never twice - in every state reached through any label of [step]; a restart keeps
   it provided the store holds no key twice (which the model does NOT guarantee: see [restart_duplicates_example]).

   Structure:
     1. multisets of ids (count_occ), flat views of the connection / queue tables
     2. [FR]  (same view)   : primitives that touch neither ready lists, unsettled lists, current messages, counters, store
     3. [HB]  (held below)  : operations after which every queue object holds a sub-multiset of what it held
     4. [HI]  the invariant; publish, declare and restart treated by hand; [holder_step], [holder_reachable]
     5. deliveries take from the waiting list; settled messages never come back *)
From Coq Require Import List String NArith ZArith Bool Lia ZifyBool ZifyN Permutation.
From RecordUpdate Require Import RecordUpdate.
Import ListNotations.
From GMQ Require Import Broker.Model Proofs.BrokerFrames Proofs.BrokerTags Proofs.BrokerChanInv Proofs.BrokerReady
  Proofs.BrokerRestart Proofs.BrokerLedger Proofs.BrokerHeld.
Open Scope N_scope.

(* ================================================================== *)
(* 1. multisets of ids *)
Definition cnt (x : N) (l : list N) : nat := count_occ N.eq_dec l x.
Definition le_ms (l' l : list N) : Prop := forall x, (cnt x l' <= cnt x l)%nat.

Lemma cnt_nil x : cnt x [] = 0%nat. Proof. reflexivity. Qed.
Lemma cnt_app x l1 l2 : cnt x (l1 ++ l2) = (cnt x l1 + cnt x l2)%nat.
Proof. apply count_occ_app. Qed.
Lemma cnt_cons x a l : cnt x (a :: l) = ((if N.eq_dec a x then 1 else 0) + cnt x l)%nat.
Proof. unfold cnt. cbn. destruct (N.eq_dec a x); reflexivity. Qed.
Lemma cnt_one x a : cnt x [a] = (if N.eq_dec a x then 1 else 0)%nat.
Proof. rewrite cnt_cons, cnt_nil. lia. Qed.
Lemma NoDup_cnt l : NoDup l <-> forall x, (cnt x l <= 1)%nat.
Proof. apply NoDup_count_occ. Qed.
Lemma In_cnt x l : In x l <-> (cnt x l > 0)%nat.
Proof. apply count_occ_In. Qed.
Lemma notIn_cnt x l : ~ In x l <-> cnt x l = 0%nat.
Proof. apply count_occ_not_In. Qed.

Lemma le_ms_refl l : le_ms l l. Proof. intros x. lia. Qed.
Lemma le_ms_trans l1 l2 l3 : le_ms l1 l2 -> le_ms l2 l3 -> le_ms l1 l3.
Proof. intros A B x. specialize (A x). specialize (B x). lia. Qed.
Lemma le_ms_nil l : le_ms [] l. Proof. intros x. rewrite cnt_nil. lia. Qed.
Lemma le_ms_app a a' b b' : le_ms a' a -> le_ms b' b -> le_ms (a' ++ b') (a ++ b).
Proof. intros A B x. rewrite !cnt_app. specialize (A x). specialize (B x). lia. Qed.
Lemma le_ms_NoDup l' l : le_ms l' l -> NoDup l -> NoDup l'.
Proof. intros H Hn. apply NoDup_cnt. intros x. specialize (H x). apply NoDup_cnt with (x := x) in Hn. lia. Qed.
Lemma le_ms_In l' l x : le_ms l' l -> In x l' -> In x l.
Proof. intros H Hi. apply In_cnt. apply In_cnt in Hi. specialize (H x). lia. Qed.
Lemma le_ms_eq l' l : l' = l -> le_ms l' l. Proof. intros ->. apply le_ms_refl. Qed.

Lemma cnt_filter_le x p l : (cnt x (filter p l) <= cnt x l)%nat.
Proof. induction l as [|a t IH]; cbn [filter]; [lia|]. destruct (p a); rewrite !cnt_cons; lia. Qed.
Lemma le_ms_filter p l : le_ms (filter p l) l.
Proof. intros x. apply cnt_filter_le. Qed.
Lemma cnt_perm x l l' : Permutation l l' -> cnt x l = cnt x l'.
Proof. intros H. unfold cnt. revert x. apply (proj1 (Permutation_count_occ N.eq_dec l l')). exact H. Qed.
Lemma cnt_rev x l : cnt x (rev l) = cnt x l.
Proof. apply cnt_perm. apply Permutation_sym. apply Permutation_rev. Qed.

Lemma cnt_flat_map {A} x (f : A -> list N) l1 l2 :
  cnt x (flat_map f (l1 ++ l2)) = (cnt x (flat_map f l1) + cnt x (flat_map f l2))%nat.
Proof. rewrite flat_map_app. apply cnt_app. Qed.

(* a sub-sequence of the outer list, pointwise smaller contributions *)
Lemma le_ms_flat_map_filter {A} (f : A -> list N) p l : le_ms (flat_map f (filter p l)) (flat_map f l).
Proof.
  intros x. induction l as [|a t IH]; cbn [filter flat_map]; [lia|]. destruct (p a); cbn [flat_map]; rewrite !cnt_app; lia.
Qed.

(* ------------------------------------------------------------------ *)
(* association lists: where [aset] writes *)
Section AssocSplit.
  Context {K V : Type} (keqb : K -> K -> bool).
  Hypothesis keqb_spec : forall a b, keqb a b = true <-> a = b.

  Lemma aset_split k (v v0 : V) l :
    alookup keqb k l = Some v0 -> exists l1 l2, l = l1 ++ (k, v0) :: l2 /\ aset keqb k v l = l1 ++ (k, v) :: l2.
  Proof.
    induction l as [|[k' v'] t IH]; cbn; [discriminate|]. destruct (keqb k k') eqn:E.
    - intros H. inversion H; subst. apply keqb_spec in E. subst. exists [], t. split; reflexivity.
    - intros H. destruct (IH H) as (l1 & l2 & -> & E2). exists ((k', v') :: l1), l2. cbn. rewrite E2. split; reflexivity.
  Qed.

  Lemma aset_none k (v : V) l : alookup keqb k l = None -> aset keqb k v l = l ++ [(k, v)].
  Proof.
    induction l as [|[k' v'] t IH]; cbn; [reflexivity|]. destruct (keqb k k'); [discriminate|].
    intros H. rewrite (IH H). reflexivity.
  Qed.

  Lemma adel_filter k (l : list (K * V)) : adel keqb k l = filter (fun kv => negb (keqb k (fst kv))) l.
  Proof. induction l as [|[k' v'] t IH]; cbn; [reflexivity|]. destruct (keqb k k'); cbn; rewrite IH; reflexivity. Qed.
End AssocSplit.

(* ------------------------------------------------------------------ *)
(* the connection table, flattened through a per-channel projection *)
Definition all_ch {A} (g : channel -> list A) (s : state) : list A :=
  flat_map (fun kc : N * conn => flat_map (fun kh : N * channel => g (snd kh)) (cn_chans (snd kc))) (conns s).

Lemma all_unacked_all_ch s : all_unacked s = all_ch ch_unacked s.
Proof. reflexivity. Qed.

Definition cur_l (ch : channel) : list N := match ch_cur ch with Some u => [u] | None => [] end.
(* the messages whose content is still arriving (published, not yet routed) *)
Definition all_cur (s : state) : list N := all_ch cur_l s.
Definition uq (qid : N) (ch : channel) : list N := map u_msg (filter (fun u => u_qid u =? qid) (ch_unacked ch)).

Lemma map_flat_map' {A B C} (f : B -> C) (g : A -> list B) l : map f (flat_map g l) = flat_map (fun x => map f (g x)) l.
Proof. induction l as [|a t IH]; cbn; [reflexivity|]. rewrite map_app, IH. reflexivity. Qed.
Lemma filter_flat_map' {A B} (p : B -> bool) (g : A -> list B) l : filter p (flat_map g l) = flat_map (fun x => filter p (g x)) l.
Proof. induction l as [|a t IH]; cbn; [reflexivity|]. rewrite filter_app, IH. reflexivity. Qed.
Lemma flat_map_flat_map' {A B C} (f : B -> list C) (g : A -> list B) l : flat_map f (flat_map g l) = flat_map (fun x => flat_map f (g x)) l.
Proof. induction l as [|a t IH]; cbn; [reflexivity|]. rewrite flat_map_app, IH. reflexivity. Qed.
Lemma flat_map_ext' {A B} (f g : A -> list B) l : (forall x, f x = g x) -> flat_map f l = flat_map g l.
Proof. intros H. induction l as [|a t IH]; cbn; [reflexivity|]. rewrite H, IH. reflexivity. Qed.

Lemma unacked_of_all_ch s qid : unacked_of s qid = all_ch (uq qid) s.
Proof.
  unfold unacked_of, all_unacked, chan_unacked_all, all_ch, uq.
  rewrite filter_flat_map', map_flat_map'. apply flat_map_ext'. intros kc.
  rewrite filter_flat_map', map_flat_map'. reflexivity.
Qed.

(* the part of a channel the invariant reads *)
Definition chk (ch : channel) : option N * list unacked := (ch_cur ch, ch_unacked ch).
(* channels that hold nothing are left out, so that opening a channel or a connection does not change the view *)
Definition chk1 (ch : channel) : list (option N * list unacked) :=
  match ch_cur ch, ch_unacked ch with None, [] => [] | _, _ => [chk ch] end.
Definition chv (s : state) : list (option N * list unacked) := all_ch chk1 s.

Lemma chk1_eq ch ch' : chk ch' = chk ch -> chk1 ch' = chk1 ch.
Proof. intros E. unfold chk1. rewrite E. unfold chk in E. inversion E as [[E1 E2]]. reflexivity. Qed.

Lemma all_ch_chv {A} (g' : option N * list unacked -> list A) s :
  g' (None, []) = [] -> all_ch (fun ch => g' (chk ch)) s = flat_map g' (chv s).
Proof.
  intros E0. unfold chv, all_ch. rewrite flat_map_flat_map'. apply flat_map_ext'. intros kc.
  rewrite flat_map_flat_map'. apply flat_map_ext'. intros kh. unfold chk1, chk.
  destruct (ch_cur (snd kh)); [cbn; rewrite app_nil_r; reflexivity|].
  destruct (ch_unacked (snd kh)); [cbn; rewrite E0; reflexivity|cbn; rewrite app_nil_r; reflexivity].
Qed.

Lemma all_cur_chv s : all_cur s = flat_map (fun p => match fst p with Some u => [u] | None => [] end) (chv s).
Proof. rewrite <- all_ch_chv by reflexivity. reflexivity. Qed.
Lemma unacked_of_chv s qid : unacked_of s qid = flat_map (fun p => map u_msg (filter (fun u => u_qid u =? qid) (snd p))) (chv s).
Proof. rewrite unacked_of_all_ch. rewrite <- all_ch_chv by reflexivity. reflexivity. Qed.
Lemma all_unacked_chv s : all_unacked s = flat_map snd (chv s).
Proof. rewrite all_unacked_all_ch. rewrite <- all_ch_chv by reflexivity. reflexivity. Qed.

(* writing one channel: the flattened table changes in one place *)
Lemma all_ch_set_chan {A} (g : channel -> list A) s c h ch ch' :
  get_chan s c h = Some ch ->
  exists X Y, all_ch g s = X ++ g ch ++ Y /\ all_ch g (set_chan s c h ch') = X ++ g ch' ++ Y.
Proof.
  unfold get_chan, set_chan. destruct (get_conn s c) as [cn|] eqn:Ec; [|discriminate]. intros Eh.
  unfold get_conn in Ec.
  destruct (aset_split N.eqb Neqb_spec c (cn <| cn_chans := aset N.eqb h ch' (cn_chans cn) |>) cn (conns s) Ec) as (l1 & l2 & E1 & E2).
  destruct (aset_split N.eqb Neqb_spec h ch' ch (cn_chans cn) Eh) as (m1 & m2 & F1 & F2).
  exists (flat_map (fun kc : N * conn => flat_map (fun kh : N * channel => g (snd kh)) (cn_chans (snd kc))) l1 ++ flat_map (fun kh : N * channel => g (snd kh)) m1),
         (flat_map (fun kh : N * channel => g (snd kh)) m2 ++ flat_map (fun kc : N * conn => flat_map (fun kh : N * channel => g (snd kh)) (cn_chans (snd kc))) l2).
  unfold all_ch. cbn [conns set]. split.
  - rewrite E1. rewrite !flat_map_app. cbn [flat_map snd]. rewrite F1. rewrite !flat_map_app. cbn [flat_map snd].
    rewrite <- !app_assoc. reflexivity.
  - rewrite E2. rewrite !flat_map_app. cbn [flat_map snd set cn_chans]. rewrite F2. rewrite !flat_map_app. cbn [flat_map snd].
    rewrite <- !app_assoc. reflexivity.
Qed.

Lemma all_ch_set_chan_keep {A} (g : channel -> list A) s c h ch ch' :
  get_chan s c h = Some ch -> g ch' = g ch -> all_ch g (set_chan s c h ch') = all_ch g s.
Proof. intros Hg E. destruct (all_ch_set_chan g s c h ch ch' Hg) as (X & Y & E1 & E2). rewrite E1, E2, E. reflexivity. Qed.

Lemma all_ch_same_conns {A} (g : channel -> list A) s s' : conns s' = conns s -> all_ch g s' = all_ch g s.
Proof. unfold all_ch. intros ->. reflexivity. Qed.

(* a connection record rewritten without touching its channels *)
Lemma all_ch_set_conn {A} (g : channel -> list A) s c cn cn' :
  get_conn s c = Some cn -> cn_chans cn' = cn_chans cn ->
  all_ch g (s <| conns := aset N.eqb c cn' (conns s) |>) = all_ch g s.
Proof.
  intros Ec E. unfold get_conn in Ec.
  destruct (aset_split N.eqb Neqb_spec c cn' cn (conns s) Ec) as (l1 & l2 & E1 & E2).
  unfold all_ch. cbn [conns set]. rewrite E2. rewrite E1. rewrite !flat_map_app. cbn [flat_map snd]. rewrite E. reflexivity.
Qed.

(* a channel that contributes nothing may be added *)
Lemma all_ch_ensure_chan {A} (g : channel -> list A) s c h : g channel0 = [] -> all_ch g (ensure_chan s c h) = all_ch g s.
Proof.
  intros Eg. unfold ensure_chan. destruct (get_conn s c) as [cn|] eqn:Ec; [|reflexivity].
  destruct (alookup N.eqb h (cn_chans cn)) eqn:Eh; [reflexivity|].
  unfold get_conn in Ec.
  destruct (aset_split N.eqb Neqb_spec c (cn <| cn_chans := aset N.eqb h channel0 (cn_chans cn) |>) cn (conns s) Ec) as (l1 & l2 & E1 & E2).
  unfold all_ch. cbn [conns set]. rewrite E2. rewrite E1. rewrite !flat_map_app. cbn [flat_map snd set cn_chans].
  rewrite (aset_none N.eqb h channel0 _ Eh). rewrite flat_map_app. cbn [flat_map snd]. rewrite Eg. cbn. rewrite app_nil_r. reflexivity.
Qed.

Lemma all_ch_new_conn {A} (g : channel -> list A) s c cn :
  get_conn s c = None -> flat_map (fun kh : N * channel => g (snd kh)) (cn_chans cn) = [] ->
  all_ch g (s <| conns := aset N.eqb c cn (conns s) |>) = all_ch g s.
Proof.
  intros Ec Eg. unfold get_conn in Ec. unfold all_ch. cbn [conns set]. rewrite (aset_none N.eqb c cn _ Ec).
  rewrite flat_map_app. cbn [flat_map snd]. rewrite Eg. cbn. rewrite app_nil_r. reflexivity.
Qed.

Lemma all_ch_del_conn g s c : le_ms (all_ch g (s <| conns := adel N.eqb c (conns s) |>)) (all_ch g s).
Proof. unfold all_ch. cbn [conns set]. rewrite adel_filter. apply le_ms_flat_map_filter. Qed.

(* ------------------------------------------------------------------ *)
(* the queue table, reduced to (object id, waiting list) *)
Definition qk (qu : queue) : N * list N := (q_id qu, q_ready qu).
Definition qv (s : state) : list (N * list N) := map (fun kq : string * queue => qk (snd kq)) (queues s).
Definition rdy (qid : N) (p : N * list N) : list N := if fst p =? qid then snd p else [].
Definition qids (s : state) : list N := map fst (qv s).

Lemma ready_of_qv s qid : ready_of s qid = flat_map (rdy qid) (qv s).
Proof. unfold ready_of, qv. induction (queues s) as [|a t IH]; cbn [flat_map map]; [reflexivity|]. rewrite IH. reflexivity. Qed.

Lemma qv_set_queue s qn qu qu' :
  get_queue s qn = Some qu ->
  exists X Y, qv s = X ++ qk qu :: Y /\ qv (set_queue s qn qu') = X ++ qk qu' :: Y.
Proof.
  unfold get_queue, set_queue. intros Eq.
  destruct (aset_split seqb seqb_spec qn qu' qu (queues s) Eq) as (l1 & l2 & E1 & E2).
  exists (map (fun kq : string * queue => qk (snd kq)) l1), (map (fun kq : string * queue => qk (snd kq)) l2).
  unfold qv. cbn [queues set]. rewrite E2, E1. rewrite !map_app. cbn [map snd]. split; reflexivity.
Qed.
Lemma qv_set_queue_keep s qn qu qu' : get_queue s qn = Some qu -> qk qu' = qk qu -> qv (set_queue s qn qu') = qv s.
Proof. intros Hg E. destruct (qv_set_queue s qn qu qu' Hg) as (X & Y & E1 & E2). rewrite E1, E2, E. reflexivity. Qed.
Lemma qv_set_queue_new s qn qu' : get_queue s qn = None -> qv (set_queue s qn qu') = qv s ++ [qk qu'].
Proof.
  unfold get_queue, set_queue. intros Eq. unfold qv. cbn [queues set]. rewrite (aset_none seqb qn qu' _ Eq). rewrite map_app. reflexivity.
Qed.
Lemma qv_same_queues s s' : queues s' = queues s -> qv s' = qv s.
Proof. unfold qv. intros ->. reflexivity. Qed.

(* ================================================================== *)
(* 2. same view *)
Definition hview (s : state) := (chv s, qv s, next_uid s, next_qid s, st_add s, st_db s).
(* names and ids of the queue objects *)
Definition nmv (s : state) : list (string * N) := map (fun kq : string * queue => (fst kq, q_id (snd kq))) (queues s).
Lemma nmv_same_queues s s' : queues s' = queues s -> nmv s' = nmv s.
Proof. unfold nmv. intros ->. reflexivity. Qed.
Lemma nmv_set_queue_keep s qn qu qu' : get_queue s qn = Some qu -> q_id qu' = q_id qu -> nmv (set_queue s qn qu') = nmv s.
Proof.
  unfold get_queue, set_queue. intros Eq E. destruct (aset_split seqb seqb_spec qn qu' qu (queues s) Eq) as (l1 & l2 & E1 & E2).
  unfold nmv. cbn [queues set]. rewrite E2, E1, !map_app. cbn [map fst snd]. rewrite E. reflexivity.
Qed.
(* same view; pending deletes may have been added *)
Definition FR (s s' : state) : Prop := hview s' = hview s /\ nmv s' = nmv s /\ incl (st_del s) (st_del s').

Lemma FR_refl s : FR s s. Proof. split; [reflexivity|split; [reflexivity|apply incl_refl]]. Qed.
Lemma FR_trans s1 s2 s3 : FR s1 s2 -> FR s2 s3 -> FR s1 s3.
Proof. unfold FR. intros (A & A1 & A2) (B & B1 & B2). rewrite B, B1. split; [exact A|split; [exact A1|eapply incl_tran; eauto]]. Qed.
Lemma FR_same_del s s' : conns s' = conns s -> queues s' = queues s -> next_uid s' = next_uid s -> next_qid s' = next_qid s ->
  st_add s' = st_add s -> st_db s' = st_db s -> incl (st_del s) (st_del s') -> FR s s'.
Proof.
  intros A B C D E F G. split; [|split; [apply nmv_same_queues; exact B|exact G]].
  unfold hview. unfold chv. rewrite (all_ch_same_conns _ _ _ A), (qv_same_queues _ _ B), C, D, E, F. reflexivity.
Qed.
Lemma FR_same s s' : conns s' = conns s -> queues s' = queues s -> next_uid s' = next_uid s -> next_qid s' = next_qid s ->
  st_add s' = st_add s -> st_db s' = st_db s -> st_del s' = st_del s -> FR s s'.
Proof. intros A B C D E F G. apply FR_same_del; auto. rewrite G. apply incl_refl. Qed.

Lemma next_set_chan s c h ch : next_uid (set_chan s c h ch) = next_uid s /\ next_qid (set_chan s c h ch) = next_qid s /\
  st_add (set_chan s c h ch) = st_add s /\ st_db (set_chan s c h ch) = st_db s /\ queues (set_chan s c h ch) = queues s.
Proof. unfold set_chan. destruct (get_conn s c); repeat split; reflexivity. Qed.
Lemma st_del_set_chan s c h ch : st_del (set_chan s c h ch) = st_del s.
Proof. unfold set_chan. destruct (get_conn s c); reflexivity. Qed.

Lemma FR_set_chan s c h ch ch' : get_chan s c h = Some ch -> chk ch' = chk ch -> FR s (set_chan s c h ch').
Proof.
  intros Hg E. split; [|split; [apply nmv_same_queues; apply next_set_chan|rewrite st_del_set_chan; apply incl_refl]].
  unfold hview. destruct (next_set_chan s c h ch') as (-> & -> & -> & -> & Q).
  rewrite (qv_same_queues _ _ Q). unfold chv. rewrite (all_ch_set_chan_keep _ s c h ch ch' Hg) by (apply chk1_eq; exact E). reflexivity.
Qed.
Lemma FR_upd_chan s c h f : (forall ch, chk (f ch) = chk ch) -> FR s (upd_chan s c h f).
Proof. intros Hf. unfold upd_chan. destruct (get_chan s c h) as [ch|] eqn:E; [|apply FR_refl]. eapply FR_set_chan; eauto. Qed.

Lemma FR_set_queue s qn qu qu' : get_queue s qn = Some qu -> qk qu' = qk qu -> FR s (set_queue s qn qu').
Proof.
  intros Hg E. split; [|split; [apply (nmv_set_queue_keep s qn qu qu' Hg); apply (f_equal fst) in E; exact E|apply incl_refl]].
  unfold hview. rewrite (qv_set_queue_keep s qn qu qu' Hg E). reflexivity.
Qed.
Lemma FR_upd_queue s qn f : (forall qu, qk (f qu) = qk qu) -> FR s (upd_queue s qn f).
Proof. intros Hf. unfold upd_queue. destruct (get_queue s qn) as [qu|] eqn:E; [|apply FR_refl]. eapply FR_set_queue; eauto. Qed.
Lemma FR_upd_msg s u f : FR s (upd_msg s u f).
Proof. unfold upd_msg. destruct (get_msg s u); [|apply FR_refl]. apply FR_same; reflexivity. Qed.

Lemma FR_set_conn s c cn cn' : get_conn s c = Some cn -> cn_chans cn' = cn_chans cn ->
  FR s (s <| conns := aset N.eqb c cn' (conns s) |>).
Proof.
  intros Ec E. split; [|split; [reflexivity|apply incl_refl]].
  unfold hview. cbn [next_uid next_qid st_add st_db set]. unfold chv. rewrite (all_ch_set_conn _ s c cn cn' Ec E).
  rewrite (qv_same_queues _ s) by reflexivity. reflexivity.
Qed.
Lemma FR_set_stage s c st : FR s (set_stage s c st).
Proof. unfold set_stage. destruct (get_conn s c) as [cn|] eqn:Ec; [|apply FR_refl]. eapply FR_set_conn; eauto. Qed.
Lemma FR_ensure_chan s c h : FR s (ensure_chan s c h).
Proof.
  assert (E : queues (ensure_chan s c h) = queues s /\ next_uid (ensure_chan s c h) = next_uid s /\ next_qid (ensure_chan s c h) = next_qid s
              /\ st_add (ensure_chan s c h) = st_add s /\ st_db (ensure_chan s c h) = st_db s /\ st_del (ensure_chan s c h) = st_del s).
  { unfold ensure_chan. destruct (get_conn s c) as [cn|]; [|repeat split; reflexivity]. destruct (alookup _ _ _); repeat split; reflexivity. }
  destruct E as (Q & E1 & E2 & E3 & E4 & E5). split; [|split; [apply nmv_same_queues; exact Q|rewrite E5; apply incl_refl]].
  unfold hview. unfold chv. rewrite all_ch_ensure_chan by reflexivity. rewrite E1, E2, E3, E4, (qv_same_queues _ _ Q). reflexivity.
Qed.

Lemma FR_fold {A} (f : state -> A -> state) l : (forall s a, FR s (f s a)) -> forall s, FR s (fold_left f l s).
Proof. intros Hf. induction l as [|a t IH]; intros s; cbn [fold_left]; [apply FR_refl|]. eapply FR_trans; [apply Hf|apply IH]. Qed.

Lemma FR_set_queue' s s0 qn qu qu' :
  FR s s0 -> queues s0 = queues s -> get_queue s qn = Some qu -> qk qu' = qk qu -> FR s (set_queue s0 qn qu').
Proof.
  intros A B C D. eapply FR_trans; [exact A|]. eapply FR_set_queue; [|exact D]. rewrite (get_queue_same_queues _ _ _ B). exact C.
Qed.

Lemma FR_wake_consumer s c h tag : FR s (fst (wake_consumer s c h tag)).
Proof.
  unfold wake_consumer. destruct (get_chan s c h) as [ch|] eqn:E; [|apply FR_refl].
  destruct (find_consumer ch tag) as [cm|]; [|apply FR_refl]. destruct (consume_msg cm). cbn [fst].
  eapply FR_set_chan; [exact E|reflexivity].
Qed.
Lemma FR_wake_all s c h : FR s (wake_all_of_chan s c h).
Proof. apply FR_upd_chan. reflexivity. Qed.
Lemma FR_wake_consumers cfg s c h : FR s (wake_consumers cfg s c h).
Proof.
  unfold wake_consumers. destruct (cfg_rabbit cfg); [apply FR_wake_all|].
  destruct (get_conn _ c) as [cn|]; [|apply FR_wake_all].
  eapply FR_trans; [apply FR_wake_all|]. apply FR_fold. intros s0 x. destruct (fst x =? h); [apply FR_refl|apply FR_wake_all].
Qed.
Lemma FR_queue_remove_consumer s qn c h tag : FR s (queue_remove_consumer s qn c h tag).
Proof.
  unfold queue_remove_consumer. destruct (get_queue s qn) as [qu|] eqn:E; [|apply FR_refl]. cbv zeta.
  match goal with |- FR s (if ?b then set autodel ?f ?s1 else _) => assert (H1 : FR s s1) end.
  { eapply FR_set_queue; [exact E|]. destruct (Nat.eqb _ 0); reflexivity. }
  destruct (_ && _ && _); [|exact H1]. eapply FR_trans; [exact H1|]. apply FR_same; reflexivity.
Qed.
Lemma FR_consumer_stop s c h tag : FR s (consumer_stop s c h tag).
Proof.
  unfold consumer_stop. destruct (get_chan s c h) as [ch|] eqn:E; [|apply FR_refl].
  destruct (find_consumer ch tag) as [cm|]; [|apply FR_refl].
  destruct (c_status cm); try apply FR_refl.
  all: eapply FR_trans; [|apply FR_queue_remove_consumer]; eapply FR_set_chan; [exact E|reflexivity].
Qed.
Lemma FR_dec_qos cfg s c h u : FR s (dec_qos_and_consume_next cfg s c h u).
Proof.
  unfold dec_qos_and_consume_next. destruct (get_chan s c h) as [ch|]; [|apply FR_refl].
  eapply FR_trans; [|apply FR_wake_consumers].
  destruct (find_consumer ch (u_ctag u)); cbv zeta.
  - destruct (cfg_rabbit cfg).
    + eapply FR_trans; [|apply FR_upd_chan; reflexivity]. apply FR_upd_chan; reflexivity.
    + destruct (get_conn _ c) as [cn|] eqn:Ec; [|apply FR_upd_chan; reflexivity].
      eapply FR_trans; [|eapply FR_set_conn; [exact Ec|reflexivity]]. apply FR_upd_chan; reflexivity.
  - destruct (get_conn _ c) as [cn|] eqn:Ec; [|apply FR_upd_chan; reflexivity].
    eapply FR_trans; [|eapply FR_set_conn; [exact Ec|reflexivity]]. apply FR_upd_chan; reflexivity.
Qed.
Lemma FR_queue_ackmsg s qn u : FR s (queue_ackmsg s qn u).
Proof.
  unfold queue_ackmsg. destruct (get_queue s qn) as [qu|] eqn:E; [|apply FR_refl]. destruct (get_msg s u) as [m|]; [|apply FR_refl].
  destruct (negb (q_active qu)); [apply FR_refl|]. cbv zeta.
  destruct (q_durable qu && m_pers m); (eapply FR_set_queue'; [apply FR_same_del; try reflexivity|reflexivity|exact E|reflexivity]).
  - cbn [st_del set]. apply incl_appl. apply incl_refl.
  - apply incl_refl.
Qed.
Lemma FR_chan_ackmsg s u : FR s (chan_ackmsg s u).
Proof. unfold chan_ackmsg. destruct (origin_queue s u); [apply FR_queue_ackmsg|apply FR_same; reflexivity]. Qed.
Lemma FR_store_windows cfg s c h tag ws : FR s (store_windows cfg s c h tag ws).
Proof.
  unfold store_windows. destruct ws as [|w1 [|w2 [|]]]; try apply FR_refl. cbv zeta.
  destruct (cfg_rabbit cfg).
  - eapply FR_trans; [|apply FR_upd_chan; reflexivity]. apply FR_upd_chan; reflexivity.
  - destruct (get_conn _ c) as [cn|] eqn:Ec; [|apply FR_upd_chan; reflexivity].
    eapply FR_trans; [|eapply FR_set_conn; [exact Ec|reflexivity]]. apply FR_upd_chan; reflexivity.
Qed.
Lemma FR_add_confirm s c h t : FR s (add_confirm s c h t).
Proof.
  unfold add_confirm. destruct (get_chan s c h) as [ch|] eqn:E; [|apply FR_refl]. destruct (negb _); [apply FR_refl|].
  destruct (ch_status ch); try apply FR_refl; destruct t as [[[? ?] ?]|]; try apply FR_refl; (eapply FR_set_chan; [exact E|reflexivity]).
Qed.
Lemma FR_store_confirm s u : FR s (store_confirm s u).
Proof.
  unfold store_confirm. destruct (get_msg s u) as [m|]; [|apply FR_refl]. destruct (m_conf m); [|apply FR_refl].
  destruct (_ =? _)%Z; [|apply FR_upd_msg]. eapply FR_trans; [apply FR_upd_msg|]. apply FR_same; reflexivity.
Qed.
Lemma FR_queue_loop_turn s qn : FR s (queue_loop_turn s qn).
Proof.
  unfold queue_loop_turn. destruct (get_queue s qn) as [qu|] eqn:E; [|apply FR_refl]. destruct (negb (q_call qu)); [apply FR_refl|].
  cbv zeta. assert (H1 : FR s (set_queue s qn (qu <| q_call := false |>))) by (eapply FR_set_queue; [exact E|reflexivity]).
  destruct (Nat.eqb _ 0); [exact H1|]. eapply FR_trans; [|apply FR_upd_queue; reflexivity].
  eapply FR_trans; [exact H1|]. apply FR_fold. intros s0 [[c h] tag]. apply FR_wake_consumer.
Qed.
Lemma FR_send_error s c h e : FR s (fst (send_error s c h e)).
Proof. destruct e; cbn [send_error fst]; [apply FR_upd_chan; reflexivity|apply FR_refl]. Qed.

(* ================================================================== *)
(* 3. held below *)
Definition store (s : state) : list (N * string) := st_add s ++ st_db s.

Record HB0 (s s' : state) : Prop := {
  hb_held : forall qid, le_ms (held s' qid) (held s qid);
  hb_cur : le_ms (all_cur s') (all_cur s);
  hb_uid : next_uid s <= next_uid s';
  hb_qid : next_qid s <= next_qid s';
  hb_store : forall k, In k (store s') -> In k (store s) \/ exists qid, In (fst k) (held s qid);
  hb_add : forall k, In k (st_add s') -> In k (st_add s);
  hb_nd : NoDup (st_add s) -> NoDup (st_db s) -> NoDup (st_add s') /\ NoDup (st_db s') }.
(* the effective store: what the flushed store holds once the pending operations are written (LPersistTick) *)
Definition eff (s : state) (k : N * string) : Prop :=
  (In k (st_db s) /\ (~ In k (st_del s) \/ In k (st_add s))) \/ (In k (st_add s) /\ ~ In k (st_del s)).
Lemma eff_mono s s' k :
  (forall k, In k (st_add s') -> In k (st_add s)) -> (forall k, In k (st_db s') -> In k (st_db s)) -> incl (st_del s) (st_del s') ->
  eff s' k -> eff s k.
Proof.
  unfold eff. intros A B C [[H1 [H2|H2]]|[H1 H2]].
  - left. split; [auto|]. left. intros Hd. apply H2. apply C. exact Hd.
  - left. split; auto.
  - right. split; [auto|]. intros Hd. apply H2. apply C. exact Hd.
Qed.

(* the queue table and the store do not grow, except that a returned message's key may be written back *)
Record SB (s s' : state) : Prop := {
  sb_q : forall p, In p (nmv s') -> In p (nmv s);
  sb_names : NoDup (map fst (nmv s)) -> NoDup (map fst (nmv s'));
  sb_eff : forall k, eff s' k -> eff s k \/ exists qid, In (snd k, qid) (nmv s) /\ In (fst k) (held s qid);
  sb_disj : (forall k, In k (st_db s) -> ~ In k (st_add s)) -> forall k, In k (st_db s') -> ~ In k (st_add s') }.
Lemma SB_mono s s' :
  (forall p, In p (nmv s') -> In p (nmv s)) -> (NoDup (map fst (nmv s)) -> NoDup (map fst (nmv s'))) ->
  (forall k, In k (st_add s') -> In k (st_add s)) -> (forall k, In k (st_db s') -> In k (st_db s)) -> incl (st_del s) (st_del s') -> SB s s'.
Proof.
  intros A B C D E. constructor; auto.
  - intros k Hk. left. eapply eff_mono; eauto.
  - intros Hd k Hk Ha. apply (Hd k); auto.
Qed.
Lemma SB_same s s' : nmv s' = nmv s -> st_add s' = st_add s -> st_db s' = st_db s -> incl (st_del s) (st_del s') -> SB s s'.
Proof. intros A B C D. apply SB_mono; auto; rewrite ?A, ?B, ?C; auto. Qed.

Definition HB (s s' : state) : Prop := HB0 s s' /\ le_ms (qids s') (qids s) /\ SB s s'.

Lemma HB0_refl s : HB0 s s.
Proof. constructor; intros; try apply le_ms_refl; try lia; auto. Qed.
Lemma HB_refl s : HB s s.
Proof. split; [apply HB0_refl|split; [apply le_ms_refl|apply SB_same; auto; apply incl_refl]]. Qed.
Lemma HB0_trans s1 s2 s3 : HB0 s1 s2 -> HB0 s2 s3 -> HB0 s1 s3.
Proof.
  intros A B. constructor.
  - intros qid. eapply le_ms_trans; [apply B|apply A].
  - eapply le_ms_trans; [apply B|apply A].
  - pose proof (hb_uid _ _ A). pose proof (hb_uid _ _ B). lia.
  - pose proof (hb_qid _ _ A). pose proof (hb_qid _ _ B). lia.
  - intros k Hk. apply (hb_store _ _ B) in Hk. destruct Hk as [Hk|(qid & Hk)].
    + apply (hb_store _ _ A) in Hk. exact Hk.
    + right. exists qid. eapply le_ms_In; [apply A|exact Hk].
  - intros k Hk. apply (hb_add _ _ A). apply (hb_add _ _ B). exact Hk.
  - intros N1 N2. destruct (hb_nd _ _ A N1 N2) as [M1 M2]. apply (hb_nd _ _ B M1 M2).
Qed.
Lemma HB_trans s1 s2 s3 : HB s1 s2 -> HB s2 s3 -> HB s1 s3.
Proof.
  intros (A & A' & A2) (B & B' & B2). split; [eapply HB0_trans; eauto|split; [eapply le_ms_trans; eauto|]]. constructor.
  - intros p Hp. apply (sb_q _ _ A2). apply (sb_q _ _ B2). exact Hp.
  - intros Hn. apply (sb_names _ _ B2). apply (sb_names _ _ A2). exact Hn.
  - intros k Hk. apply (sb_eff _ _ B2) in Hk. destruct Hk as [Hk|(qid & Hq & Hk)]; [apply (sb_eff _ _ A2); exact Hk|].
    right. exists qid. split; [apply (sb_q _ _ A2); exact Hq|eapply le_ms_In; [apply A|exact Hk]].
  - intros Hd. apply (sb_disj _ _ B2). apply (sb_disj _ _ A2). exact Hd.
Qed.
Lemma HB_fold {A} (f : state -> A -> state) l : (forall s a, HB s (f s a)) -> forall s, HB s (fold_left f l s).
Proof. intros Hf. induction l as [|a t IH]; intros s; cbn [fold_left]; [apply HB_refl|]. eapply HB_trans; [apply Hf|apply IH]. Qed.

Lemma held_FR s s' qid : FR s s' -> held s' qid = held s qid.
Proof.
  unfold FR, hview. intros [E _]. inversion E as [[E1 E2 E3 E4 E5 E6]]. unfold held.
  rewrite !ready_of_qv, !unacked_of_chv, E1, E2. reflexivity.
Qed.
Lemma all_cur_FR s s' : FR s s' -> all_cur s' = all_cur s.
Proof. unfold FR, hview. intros [E _]. inversion E as [[E1 E2 E3 E4 E5 E6]]. rewrite !all_cur_chv, E1. reflexivity. Qed.
Lemma all_unacked_FR s s' : FR s s' -> all_unacked s' = all_unacked s.
Proof. unfold FR, hview. intros [E _]. inversion E as [[E1 E2 E3 E4 E5 E6]]. rewrite !all_unacked_chv, E1. reflexivity. Qed.
Lemma qids_FR s s' : FR s s' -> qids s' = qids s.
Proof. unfold FR, hview. intros [E _]. inversion E as [[E1 E2 E3 E4 E5 E6]]. unfold qids. rewrite E2. reflexivity. Qed.
Lemma nexts_FR s s' : FR s s' -> next_uid s' = next_uid s /\ next_qid s' = next_qid s /\ store s' = store s /\
  st_add s' = st_add s /\ st_db s' = st_db s.
Proof. unfold FR, hview, store. intros [E _]. inversion E as [[E1 E2 E3 E4 E5 E6]]. rewrite E5, E6. auto. Qed.

Lemma HB_FR s s' : FR s s' -> HB s s'.
Proof.
  intros E. destruct (nexts_FR _ _ E) as (A & B & C & D1 & D2). split; [constructor|].
  - intros qid. rewrite (held_FR _ _ qid E). apply le_ms_refl.
  - rewrite (all_cur_FR _ _ E). apply le_ms_refl.
  - lia.
  - lia.
  - intros k Hk. rewrite C in Hk. auto.
  - rewrite D1. auto.
  - rewrite D1, D2. auto.
  - split; [rewrite (qids_FR _ _ E); apply le_ms_refl|]. destruct E as (_ & E1 & E2). apply SB_same; auto.
Qed.

(* exact accounting of one queue-record / one channel-record write *)
Lemma cnt_flat_mid {A} x (f : A -> list N) X a Y :
  cnt x (flat_map f (X ++ a :: Y)) = (cnt x (flat_map f X) + cnt x (f a) + cnt x (flat_map f Y))%nat.
Proof. rewrite flat_map_app. cbn [flat_map]. rewrite !cnt_app. lia. Qed.

Lemma unacked_of_same_conns s s' qid : conns s' = conns s -> unacked_of s' qid = unacked_of s qid.
Proof. intros E. rewrite !unacked_of_all_ch. apply all_ch_same_conns. exact E. Qed.
Lemma ready_of_same_queues s s' qid : queues s' = queues s -> ready_of s' qid = ready_of s qid.
Proof. unfold ready_of. intros ->. reflexivity. Qed.

Lemma cnt_held_set_queue s qn qu qu' : get_queue s qn = Some qu -> q_id qu' = q_id qu -> forall qid x,
  (cnt x (held (set_queue s qn qu') qid) + (if N.eqb (q_id qu) qid then cnt x (q_ready qu) else 0) =
   cnt x (held s qid) + (if N.eqb (q_id qu) qid then cnt x (q_ready qu') else 0))%nat.
Proof.
  intros Hg Eid qid x. destruct (qv_set_queue s qn qu qu' Hg) as (X & Y & E1 & E2).
  unfold held. rewrite !cnt_app. rewrite (unacked_of_same_conns s (set_queue s qn qu')) by reflexivity.
  rewrite !ready_of_qv, E1, E2, !cnt_flat_mid. unfold rdy, qk. cbn [fst snd]. rewrite Eid.
  destruct (q_id qu =? qid); rewrite ?cnt_nil; lia.
Qed.

Lemma queues_set_chan' s c h ch : queues (set_chan s c h ch) = queues s.
Proof. apply queues_set_chan. Qed.

Lemma cnt_held_set_chan s c h ch ch' : get_chan s c h = Some ch -> forall qid x,
  (cnt x (held (set_chan s c h ch') qid) + cnt x (uq qid ch) = cnt x (held s qid) + cnt x (uq qid ch'))%nat.
Proof.
  intros Hg qid x. destruct (all_ch_set_chan (uq qid) s c h ch ch' Hg) as (X & Y & E1 & E2).
  unfold held. rewrite !cnt_app. rewrite (ready_of_same_queues s (set_chan s c h ch')) by apply queues_set_chan.
  rewrite !unacked_of_all_ch, E1, E2, !cnt_app. lia.
Qed.
Lemma cnt_cur_set_chan s c h ch ch' : get_chan s c h = Some ch -> forall x,
  (cnt x (all_cur (set_chan s c h ch')) + cnt x (cur_l ch) = cnt x (all_cur s) + cnt x (cur_l ch'))%nat.
Proof.
  intros Hg x. destruct (all_ch_set_chan cur_l s c h ch ch' Hg) as (X & Y & E1 & E2).
  unfold all_cur. rewrite E1, E2, !cnt_app. lia.
Qed.

Lemma store_set_chan s c h ch : store (set_chan s c h ch) = store s.
Proof. unfold store. destruct (next_set_chan s c h ch) as (_ & _ & -> & -> & _). reflexivity. Qed.
Lemma qids_same_queues s s' : queues s' = queues s -> qids s' = qids s.
Proof. unfold qids. intros E. rewrite (qv_same_queues _ _ E). reflexivity. Qed.

(* a channel record that gives something up *)
Lemma HB_set_chan s c h ch ch' :
  get_chan s c h = Some ch -> le_ms (cur_l ch') (cur_l ch) -> (forall qid, le_ms (uq qid ch') (uq qid ch)) -> HB s (set_chan s c h ch').
Proof.
  intros Hg Hc Hu. destruct (next_set_chan s c h ch') as (A & B & D1 & D2 & Q). split; [constructor|].
  - intros qid x. pose proof (cnt_held_set_chan s c h ch ch' Hg qid x). specialize (Hu qid x). lia.
  - intros x. pose proof (cnt_cur_set_chan s c h ch ch' Hg x). specialize (Hc x). lia.
  - lia.
  - lia.
  - intros k Hk. rewrite store_set_chan in Hk. auto.
  - rewrite D1. auto.
  - rewrite D1, D2. auto.
  - split; [rewrite (qids_same_queues _ _ Q); apply le_ms_refl|].
    apply SB_same; auto; [apply nmv_same_queues; exact Q|rewrite st_del_set_chan; apply incl_refl].
Qed.
Lemma HB_upd_chan s c h f :
  (forall ch, le_ms (cur_l (f ch)) (cur_l ch)) -> (forall ch qid, le_ms (uq qid (f ch)) (uq qid ch)) -> HB s (upd_chan s c h f).
Proof. intros A B. unfold upd_chan. destruct (get_chan s c h) as [ch|] eqn:E; [|apply HB_refl]. apply (HB_set_chan s c h ch); auto. Qed.

Lemma le_ms_uq_filter qid p ch ch' : ch_unacked ch' = filter p (ch_unacked ch) -> le_ms (uq qid ch') (uq qid ch).
Proof.
  intros E x. unfold uq. rewrite E. clear E. generalize (ch_unacked ch). intros l. induction l as [|a t IH]; cbn [filter]; [lia|].
  destruct (p a); cbn [filter]; destruct (u_qid a =? qid); cbn [map]; rewrite ?cnt_cons; lia.
Qed.
Lemma le_ms_uq_nil qid ch ch' : ch_unacked ch' = [] -> le_ms (uq qid ch') (uq qid ch).
Proof. intros E. unfold uq. rewrite E. apply le_ms_nil. Qed.

Lemma HB_del_unacked s c h tag : HB s (upd_chan s c h (fun ch => del_unacked ch tag)).
Proof. apply HB_upd_chan; intros; [apply le_ms_refl|]. eapply le_ms_uq_filter. reflexivity. Qed.

(* a queue record that gives something up *)
Lemma qids_set_queue_keep s qn qu qu' : get_queue s qn = Some qu -> q_id qu' = q_id qu -> qids (set_queue s qn qu') = qids s.
Proof.
  intros Hg E. destruct (qv_set_queue s qn qu qu' Hg) as (X & Y & E1 & E2). unfold qids. rewrite E1, E2, !map_app. cbn [map fst qk]. rewrite E. reflexivity.
Qed.
Lemma HB_set_queue s qn qu qu' :
  get_queue s qn = Some qu -> q_id qu' = q_id qu -> le_ms (q_ready qu') (q_ready qu) -> HB s (set_queue s qn qu').
Proof.
  intros Hg Eid Hr. split; [constructor|].
  - intros qid x. pose proof (cnt_held_set_queue s qn qu qu' Hg Eid qid x). specialize (Hr x). destruct (q_id qu =? qid); lia.
  - unfold all_cur. rewrite (all_ch_same_conns cur_l s (set_queue s qn qu')) by reflexivity. apply le_ms_refl.
  - cbn. lia.
  - cbn. lia.
  - intros k Hk. auto.
  - auto.
  - auto.
  - split; [rewrite (qids_set_queue_keep s qn qu qu' Hg Eid); apply le_ms_refl|].
    apply SB_same; try reflexivity; [apply (nmv_set_queue_keep s qn qu qu' Hg Eid)|apply incl_refl].
Qed.

Lemma le_ms_map_filter {A} (f : A -> N) p l : le_ms (map f (filter p l)) (map f l).
Proof. intros x. induction l as [|a t IH]; cbn [filter map]; [lia|]. destruct (p a); cbn [map]; rewrite ?cnt_cons; lia. Qed.

(* a queue leaves the table *)
Lemma HB_del_queue s qn : HB s (s <| queues := adel seqb qn (queues s) |>).
Proof.
  split; [constructor|].
  - intros qid. unfold held. apply le_ms_app.
    + unfold ready_of. cbn [queues set]. rewrite adel_filter. apply le_ms_flat_map_filter.
    + rewrite (unacked_of_same_conns s) by reflexivity. apply le_ms_refl.
  - unfold all_cur. rewrite (all_ch_same_conns cur_l s) by reflexivity. apply le_ms_refl.
  - cbn. lia.
  - cbn. lia.
  - intros k Hk. auto.
  - auto.
  - auto.
  - split; [unfold qids, qv; cbn [queues set]; rewrite adel_filter, !map_map; apply le_ms_map_filter|].
    apply SB_mono; auto; try apply incl_refl.
    + unfold nmv. cbn [queues set]. rewrite adel_filter. intros p Hp. apply in_map_iff in Hp. destruct Hp as (kq & <- & Hk).
      apply filter_In in Hk. apply (in_map (fun kq : string * queue => (fst kq, q_id (snd kq)))). tauto.
    + unfold nmv. cbn [queues set]. rewrite adel_filter, !map_map. cbn [fst]. apply NoDup_map_filter.
Qed.

(* a connection leaves the table *)
Lemma HB_del_conn s c : HB s (s <| conns := adel N.eqb c (conns s) |>).
Proof.
  split; [constructor|].
  - intros qid. unfold held. apply le_ms_app.
    + rewrite (ready_of_same_queues s) by reflexivity. apply le_ms_refl.
    + rewrite !unacked_of_all_ch. apply all_ch_del_conn.
  - apply all_ch_del_conn.
  - cbn. lia.
  - cbn. lia.
  - intros k Hk. auto.
  - auto.
  - auto.
  - split; [rewrite (qids_same_queues s) by reflexivity; apply le_ms_refl|]. apply SB_same; auto. apply incl_refl.
Qed.

(* keys leave the store *)
Lemma HB_store_sub s s' :
  conns s' = conns s -> queues s' = queues s -> next_uid s' = next_uid s -> next_qid s' = next_qid s ->
  (forall k, In k (st_add s') -> In k (st_add s)) -> (forall k, In k (st_db s') -> In k (st_db s)) ->
  (NoDup (st_add s) -> NoDup (st_add s')) -> (NoDup (st_db s) -> NoDup (st_db s')) -> incl (st_del s) (st_del s') -> HB s s'.
Proof.
  intros A B C D E1 E2 F1 F2 G. split; [constructor|].
  - intros qid. unfold held. rewrite (ready_of_same_queues _ _ qid B), (unacked_of_same_conns _ _ qid A). apply le_ms_refl.
  - unfold all_cur. rewrite (all_ch_same_conns _ _ _ A). apply le_ms_refl.
  - lia.
  - lia.
  - intros k Hk. left. unfold store in *. apply in_app_or in Hk. apply in_or_app. destruct Hk; auto.
  - exact E1.
  - auto.
  - split; [rewrite (qids_same_queues _ _ B); apply le_ms_refl|]. apply SB_mono; auto; rewrite (nmv_same_queues _ _ B); auto.
Qed.
Lemma HB_db_filter s p : HB s (s <| st_db ::= filter p |>).
Proof.
  apply HB_store_sub; try reflexivity; cbn [st_add st_db st_del set]; auto.
  - intros k Hk. apply filter_In in Hk. tauto.
  - apply NoDup_filter.
  - apply incl_refl.
Qed.

Lemma HB_store_purge s qn : HB s (store_purge s qn).
Proof.
  unfold store_purge. apply HB_store_sub; try reflexivity; cbn [st_add st_db st_del set]; auto.
  - intros k Hk. apply filter_In in Hk. tauto.
  - apply NoDup_filter.
  - apply incl_appl. apply incl_refl.
Qed.

Lemma held_same s s' qid : conns s' = conns s -> queues s' = queues s -> held s' qid = held s qid.
Proof. intros A B. unfold held. rewrite (ready_of_same_queues _ _ qid B), (unacked_of_same_conns _ _ qid A). reflexivity. Qed.
Lemma all_cur_same s s' : conns s' = conns s -> all_cur s' = all_cur s.
Proof. intros A. unfold all_cur. apply all_ch_same_conns. exact A. Qed.

Lemma q_call_consumers qu : qk (call_consumers qu) = qk qu.
Proof. unfold call_consumers. destruct (q_active qu); reflexivity. Qed.

(* ---- settling one delivery ---- *)
Lemma HB_ack_one s c h e : HB s (chan_ackmsg (upd_chan s c h (fun ch => del_unacked ch (u_tag e))) e).
Proof. eapply HB_trans; [apply HB_del_unacked|]. apply HB_FR. apply FR_chan_ackmsg. Qed.

Lemma HB_reject_one_drop s c h e : HB s (chan_rejectmsg (upd_chan s c h (fun ch => del_unacked ch (u_tag e))) e false).
Proof.
  eapply HB_trans; [apply HB_del_unacked|]. apply HB_FR. unfold chan_rejectmsg.
  destruct (origin_queue _ e); [apply FR_queue_ackmsg|apply FR_same; reflexivity].
Qed.

(* removing the entry of delivery e gives up (at least) its message *)
Definition qidb (qid : N) (u : unacked) : bool := u_qid u =? qid.
Definition ntag (e u : unacked) : bool := negb (u_tag u =? u_tag e).
Lemma uq_del qid x l e :
  In e l ->
  (cnt x (map u_msg (filter (fun u => qidb qid u) (filter (fun u => ntag e u) l))) +
   (if N.eqb (u_qid e) qid then cnt x [u_msg e] else 0) <= cnt x (map u_msg (filter (fun u => qidb qid u) l)))%nat.
Proof.
  unfold qidb, ntag.
  induction l as [|a t IH]; intros Hin; [destruct Hin|]. cbn [filter].
  assert (Hle : (cnt x (map u_msg (filter (fun u => N.eqb (u_qid u) qid) (filter (fun u => negb (N.eqb (u_tag u) (u_tag e))) t))) <=
                 cnt x (map u_msg (filter (fun u => N.eqb (u_qid u) qid) t)))%nat).
  { clear. induction t as [|b r IHr]; cbn [filter]; [lia|].
    destruct (negb (u_tag b =? u_tag e)); cbn [filter]; destruct (u_qid b =? qid); cbn [map]; rewrite ?cnt_cons; lia. }
  destruct Hin as [->|Hin].
  - rewrite N.eqb_refl. cbn [negb]. destruct (u_qid e =? qid); cbn [map]; rewrite ?cnt_cons, ?cnt_nil; lia.
  - specialize (IH Hin). destruct (u_qid e =? qid); destruct (negb (u_tag a =? u_tag e)); cbn [filter]; destruct (u_qid a =? qid); cbn [map]; rewrite ?cnt_cons, ?cnt_nil in *; lia.
Qed.

Lemma In_uq_held s c h ch e : get_chan s c h = Some ch -> In e (ch_unacked ch) -> In (u_msg e) (held s (u_qid e)).
Proof.
  intros Hg Hin. unfold held. apply in_or_app. right. rewrite unacked_of_all_ch.
  destruct (all_ch_set_chan (uq (u_qid e)) s c h ch ch Hg) as (X & Y & E1 & _). rewrite E1.
  apply in_or_app. right. apply in_or_app. left. unfold uq. apply in_map. apply filter_In. split; [exact Hin|apply N.eqb_refl].
Qed.

Lemma origin_queue_some s e qu : origin_queue s e = Some qu -> get_queue s (u_queue e) = Some qu /\ q_id qu = u_qid e.
Proof.
  unfold origin_queue. destruct (get_queue s (u_queue e)) as [q0|]; [|discriminate].
  destruct (q_id q0 =? u_qid e) eqn:E; [|discriminate]. intros H. inversion H; subst. apply N.eqb_eq in E. auto.
Qed.

Lemma store_writeback_store s qn u d k : In k (store (store_writeback s qn u d)) -> In k (store s) \/ k = (u, qn).
Proof.
  unfold store_writeback, store. destruct (_ && _ && _); [|auto]. cbn [st_add st_db set]. intros H.
  apply in_app_or in H. destruct H as [H|H]; [left; apply in_or_app; auto|].
  apply in_app_or in H. destruct H as [H|[H|[]]]; [left; apply in_or_app; auto|right; auto].
Qed.

Lemma store_writeback_nd s qn u d :
  st_add (store_writeback s qn u d) = st_add s /\ (NoDup (st_db s) -> NoDup (st_db (store_writeback s qn u d))) /\
  ((forall k, In k (st_db s) -> ~ In k (st_add s)) -> forall k, In k (st_db (store_writeback s qn u d)) -> ~ In k (st_add s)).
Proof.
  unfold store_writeback. destruct (d && _) eqn:E0; [|auto]. cbn [andb]. destruct (negb _) eqn:E; [|auto]. cbn [andb].
  destruct (negb (existsb _ (st_add s))) eqn:Ea; [|auto].
  cbn [st_add st_db set]. split; [reflexivity|]. split.
  - intros Hn. apply NoDup_snoc; [exact Hn|].
    intros Hin. apply Bool.negb_true_iff in E. assert (Hex : existsb (fun k => (fst k =? u) && seqb (snd k) qn) (st_db s) = true).
    { apply existsb_exists. exists (u, qn). split; [exact Hin|]. cbn [fst snd]. rewrite N.eqb_refl. rewrite (proj2 (seqb_spec qn qn) eq_refl). reflexivity. }
    congruence.
  - intros Hd k Hk. apply in_app_or in Hk. destruct Hk as [Hk|[<-|[]]]; [apply Hd; exact Hk|].
    intros Hin. apply Bool.negb_true_iff in Ea. assert (Hex : existsb (fun k => (fst k =? u) && seqb (snd k) qn) (st_add s) = true).
    { apply existsb_exists. exists (u, qn). split; [exact Hin|]. cbn [fst snd]. rewrite N.eqb_refl. rewrite (proj2 (seqb_spec qn qn) eq_refl). reflexivity. }
    congruence.
Qed.

Lemma store_writeback_db s qn u d k : In k (st_db (store_writeback s qn u d)) -> In k (st_db s) \/ k = (u, qn).
Proof.
  unfold store_writeback. destruct (_ && _ && _); [|auto]. cbn [st_db set]. intros H.
  apply in_app_or in H. destruct H as [H|[H|[]]]; auto.
Qed.
Lemma get_queue_nmv s qn qu : get_queue s qn = Some qu -> In (qn, q_id qu) (nmv s).
Proof. intros H. apply (alookup_in seqb seqb_spec) in H. apply (in_map (fun kq : string * queue => (fst kq, q_id (snd kq)))) in H. exact H. Qed.

(* Queue.Requeue: the message goes back to the head of the waiting list of its queue object *)
Lemma requeue_effect s qn u qu : get_queue s qn = Some qu ->
  (forall qid x, (cnt x (held (queue_requeue s qn u) qid) <= cnt x (held s qid) + (if N.eqb (q_id qu) qid then cnt x [u] else 0))%nat) /\
  conns (queue_requeue s qn u) = conns s /\ qids (queue_requeue s qn u) = qids s /\
  next_uid (queue_requeue s qn u) = next_uid s /\ next_qid (queue_requeue s qn u) = next_qid s /\
  (forall k, In k (store (queue_requeue s qn u)) -> In k (store s) \/ k = (u, qn)) /\
  st_add (queue_requeue s qn u) = st_add s /\ (NoDup (st_db s) -> NoDup (st_db (queue_requeue s qn u))) /\
  nmv (queue_requeue s qn u) = nmv s /\ st_del (queue_requeue s qn u) = st_del s /\
  (forall k, In k (st_db (queue_requeue s qn u)) -> In k (st_db s) \/ k = (u, qn)) /\
  ((forall k, In k (st_db s) -> ~ In k (st_add s)) -> forall k, In k (st_db (queue_requeue s qn u)) -> ~ In k (st_add s)).
Proof.
  intros Hg. unfold queue_requeue. rewrite Hg. destruct (negb (q_active qu)).
  { repeat split; auto. intros qid x. lia. }
  cbv zeta.
  set (s4 := (upd_msg (store_writeback s qn u (q_durable qu)) u (fun m => m <| m_dc ::= N.succ |>)) <| srv_ready ::= Z.succ |> <| srv_unacked ::= Z.pred |>).
  destruct (store_writeback_frame s qn u (q_durable qu)) as (Fc & Fq & _).
  assert (Ec : conns s4 = conns s) by (subst s4; cbn [conns set]; rewrite conns_upd_msg; exact Fc).
  assert (Eq : queues s4 = queues s) by (subst s4; cbn [queues set]; rewrite queues_upd_msg; exact Fq).
  assert (Hg4 : get_queue s4 qn = Some qu) by (rewrite (get_queue_same_queues _ _ _ Eq); exact Hg).
  set (qu' := call_consumers _).
  assert (Eid : q_id qu' = q_id qu) by (subst qu'; pose proof (q_call_consumers (qu <| q_ready ::= cons u |> <| q_mready ::= Z.succ |> <| q_munacked ::= Z.pred |> <| q_len ::= Z.succ |>)) as Hk; inversion Hk; reflexivity).
  assert (Erd : q_ready qu' = u :: q_ready qu) by (subst qu'; pose proof (q_call_consumers (qu <| q_ready ::= cons u |> <| q_mready ::= Z.succ |> <| q_munacked ::= Z.pred |> <| q_len ::= Z.succ |>)) as Hk; inversion Hk; reflexivity).
  repeat split.
  - intros qid x. pose proof (cnt_held_set_queue s4 qn qu qu' Hg4 Eid qid x) as Hc. rewrite (held_same s s4 qid Ec Eq) in Hc.
    rewrite Erd in Hc. rewrite cnt_cons in Hc. rewrite cnt_one. destruct (q_id qu =? qid); lia.
  - exact Ec.
  - rewrite (qids_set_queue_keep s4 qn qu qu' Hg4 Eid). apply qids_same_queues. exact Eq.
  - subst s4. cbn [next_uid set]. unfold upd_msg. destruct (get_msg _ u); cbn [next_uid set]; unfold store_writeback; destruct (_ && _ && _); reflexivity.
  - subst s4. cbn [next_qid set]. unfold upd_msg. destruct (get_msg _ u); cbn [next_qid set]; unfold store_writeback; destruct (_ && _ && _); reflexivity.
  - intros k Hk. apply (store_writeback_store s qn u (q_durable qu)).
    assert (E : store (set_queue s4 qn qu') = store (store_writeback s qn u (q_durable qu))).
    { subst s4. unfold store. cbn [st_add st_db set]. unfold upd_msg. destruct (get_msg _ u); reflexivity. }
    rewrite <- E. exact Hk.
  - subst s4. cbn [st_add set]. unfold upd_msg. destruct (get_msg _ u); cbn [st_add set]; apply store_writeback_nd.
  - intros Hn. subst s4. cbn [st_db set]. unfold upd_msg. destruct (get_msg _ u); cbn [st_db set]; apply store_writeback_nd; exact Hn.
  - rewrite (nmv_set_queue_keep s4 qn qu qu' Hg4 Eid). apply nmv_same_queues. exact Eq.
  - subst s4. cbn [st_del set]. unfold upd_msg. destruct (get_msg _ u); cbn [st_del set]; unfold store_writeback; destruct (_ && _ && _); reflexivity.
  - intros k Hk. apply (store_writeback_db s qn u (q_durable qu)). subst s4. cbn [st_db set] in Hk. unfold upd_msg in Hk.
    destruct (get_msg _ u); exact Hk.
  - intros Hd k Hk. apply (proj2 (proj2 (store_writeback_nd s qn u (q_durable qu))) Hd). subst s4. cbn [st_db set] in Hk. unfold upd_msg in Hk.
    destruct (get_msg _ u); exact Hk.
Qed.

Lemma HB_reject_one_requeue s c h e :
  In e (U s c h) -> HB s (chan_rejectmsg (upd_chan s c h (fun ch => del_unacked ch (u_tag e))) e true).
Proof.
  unfold U. destruct (get_chan s c h) as [ch|] eqn:Hg; [|intros []]. intros Hin.
  unfold upd_chan. rewrite Hg. set (s1 := set_chan s c h (del_unacked ch (u_tag e))).
  destruct (next_set_chan s c h (del_unacked ch (u_tag e))) as (N1 & N2 & _ & _ & Q1). fold s1 in N1, N2, Q1.
  assert (H1 : forall qid x, (cnt x (held s1 qid) + (if N.eqb (u_qid e) qid then cnt x [u_msg e] else 0) <= cnt x (held s qid))%nat).
  { intros qid x. pose proof (cnt_held_set_chan s c h ch (del_unacked ch (u_tag e)) Hg qid x) as Hc. fold s1 in Hc.
    pose proof (uq_del qid x (ch_unacked ch) e Hin) as Hd. unfold qidb, ntag in Hd. unfold uq, del_unacked in Hc. cbn [ch_unacked set] in Hc. lia. }
  assert (C1 : all_cur s1 = all_cur s).
  { unfold all_cur. subst s1. apply (all_ch_set_chan_keep cur_l s c h ch); [exact Hg|reflexivity]. }
  assert (S1 : store s1 = store s) by apply store_set_chan.
  assert (I1 : qids s1 = qids s) by (apply qids_same_queues; exact Q1).
  unfold chan_rejectmsg. destruct (origin_queue s1 e) as [qu|] eqn:Eo.
  - apply origin_queue_some in Eo. destruct Eo as [Hq Eid].
    destruct (requeue_effect s1 (u_queue e) (u_msg e) qu Hq) as (R1 & R2 & R3 & R4 & R5 & R6 & R7 & R8 & R9 & R10 & R11 & R12).
    destruct (next_set_chan s c h (del_unacked ch (u_tag e))) as (_ & _ & D1 & D2 & _). fold s1 in D1, D2.
    split; [constructor|].
    + intros qid x. specialize (R1 qid x). specialize (H1 qid x). rewrite Eid in R1. lia.
    + rewrite (all_cur_same _ _ R2), C1. apply le_ms_refl.
    + lia.
    + lia.
    + intros k Hk. apply R6 in Hk. destruct Hk as [Hk| ->]; [left; rewrite <- S1; exact Hk|].
      right. exists (u_qid e). cbn [fst]. eapply In_uq_held; eauto.
    + rewrite R7, D1. auto.
    + intros M1 M2. rewrite R7, D1. split; [exact M1|]. apply R8. rewrite D2. exact M2.
    + split; [rewrite R3, I1; apply le_ms_refl|].
      assert (Nm : nmv s1 = nmv s) by (apply nmv_same_queues; exact Q1).
      assert (Dl : st_del s1 = st_del s) by apply st_del_set_chan.
      constructor.
      * intros p Hp. rewrite R9, Nm in Hp. exact Hp.
      * rewrite R9, Nm. auto.
      * intros k Hk. unfold eff in Hk. rewrite R7, R10, D1, Dl in Hk.
        assert (Hkey : k = (u_msg e, u_queue e) -> exists qid, In (snd k, qid) (nmv s) /\ In (fst k) (held s qid)).
        { intros ->. exists (u_qid e). cbn [fst snd]. split; [rewrite <- Nm, <- Eid; apply get_queue_nmv; exact Hq|eapply In_uq_held; eauto]. }
        destruct Hk as [[Hd Hc]|Hk]; [|left; right; exact Hk].
        apply R11 in Hd. rewrite D2 in Hd. destruct Hd as [Hd|Hd]; [left; left; auto|right; auto].
      * intros Hdj k Hk. rewrite R7. apply R12; [rewrite D1, D2; exact Hdj|exact Hk].
  - split; [constructor|].
    + intros qid x. rewrite (held_same s1 (s1 <| srv_total ::= Z.pred |> <| srv_unacked ::= Z.pred |>) qid) by reflexivity. specialize (H1 qid x). lia.
    + rewrite (all_cur_same s1) by reflexivity. rewrite C1. apply le_ms_refl.
    + cbn [next_uid set]. lia.
    + cbn [next_qid set]. lia.
    + intros k Hk. left. rewrite <- S1. exact Hk.
    + destruct (next_set_chan s c h (del_unacked ch (u_tag e))) as (_ & _ & D1 & D2 & _). fold s1 in D1, D2. cbn [st_add set]. rewrite D1. auto.
    + destruct (next_set_chan s c h (del_unacked ch (u_tag e))) as (_ & _ & D1 & D2 & _). fold s1 in D1, D2. cbn [st_add st_db set]. rewrite D1, D2. auto.
    + split; [rewrite (qids_same_queues s1) by reflexivity; rewrite I1; apply le_ms_refl|].
      destruct (next_set_chan s c h (del_unacked ch (u_tag e))) as (_ & _ & D1 & D2 & _). fold s1 in D1, D2.
      apply SB_same; cbn [st_add st_db st_del set]; auto; [rewrite <- (nmv_same_queues s s1 Q1); apply nmv_same_queues; reflexivity|].
      unfold s1. rewrite st_del_set_chan. apply incl_refl.
Qed.

Lemma HB_fold_requeue c h sel : forall s,
  NoDup (map u_tag sel) -> (forall e, In e sel -> In e (U s c h)) ->
  HB s (fold_left (fun s u => chan_rejectmsg (upd_chan s c h (fun ch => del_unacked ch (u_tag u))) u true) sel s).
Proof.
  induction sel as [|a t IH]; intros s Hnd Hin; cbn [fold_left]; [apply HB_refl|].
  cbn [map] in Hnd. inversion Hnd as [|? ? Hni Hnd']; subst.
  eapply HB_trans; [apply HB_reject_one_requeue; apply Hin; left; reflexivity|].
  apply IH; [exact Hnd'|]. intros e He. rewrite U_chan_rejectmsg, del_unacked_U. apply filter_In. split; [apply Hin; right; exact He|].
  apply Bool.negb_true_iff. apply N.eqb_neq. intros E. apply Hni. rewrite <- E. apply in_map. exact He.
Qed.

Lemma HB_fold_dec cfg c h sel : forall s, HB s (fold_left (fun s u => dec_qos_and_consume_next cfg s c h u) sel s).
Proof. apply HB_fold. intros s u. apply HB_FR. apply FR_dec_qos. Qed.

Lemma HB_handle_ack cfg s c h tag mult : HB s (fst (handle_ack cfg s c h tag mult)).
Proof.
  unfold handle_ack. destruct (get_chan s c h) as [ch|]; [|apply HB_refl]. destruct mult.
  - cbn [fst]. eapply HB_trans; [|apply HB_fold_dec]. apply HB_fold. intros s0 u. apply HB_ack_one.
  - destruct (find _ _) as [u|] eqn:Ef; cbn [fst]; [|apply HB_refl].
    apply find_some in Ef. destruct Ef as [Hin Et]. apply N.eqb_eq in Et. subst tag.
    eapply HB_trans; [apply (HB_ack_one s c h u)|]. apply HB_FR. apply FR_dec_qos.
Qed.

Lemma HB_handle_reject cfg s c h tag mult requeue cls mth :
  CI s -> HB s (fst (handle_reject cfg s c h tag mult requeue cls mth)).
Proof.
  intros Hci. unfold handle_reject. destruct (get_chan s c h) as [ch|] eqn:Ech; [|apply HB_refl].
  pose proof (Hci _ _ _ Ech) as [Hnd _]. destruct mult.
  - cbn [fst]. eapply HB_trans; [|apply HB_fold_dec]. destruct requeue.
    + apply HB_fold_requeue.
      * apply NoDup_map_filter. apply BrokerLedger.NoDup_sort_desc. exact Hnd.
      * intros e He. apply filter_In in He. unfold U. rewrite Ech. apply sort_desc_perm. tauto.
    + apply HB_fold. intros s0 u. apply HB_reject_one_drop.
  - destruct (find _ _) as [u|] eqn:Ef; cbn [fst]; [|apply HB_refl].
    apply find_some in Ef. destruct Ef as [Hin Et]. apply N.eqb_eq in Et. subst tag.
    eapply HB_trans; [|apply HB_FR; apply FR_dec_qos]. destruct requeue.
    + apply HB_reject_one_requeue. unfold U. rewrite Ech. exact Hin.
    + apply HB_reject_one_drop.
Qed.

Lemma HB_channel_close cfg s c h : CI s -> HB s (channel_close cfg s c h).
Proof.
  intros Hci. unfold channel_close. destruct (get_chan s c h) as [ch|] eqn:Ech; [|apply HB_refl].
  (* the message being assembled is dropped: the mid-publish set shrinks *)
  eapply HB_trans; [|apply HB_upd_chan; intros; [apply le_ms_nil|apply le_ms_refl]].
  set (s2 := upd_chan (fold_left (fun s cm => consumer_stop s c h (c_tag cm)) (ch_consumers ch) s) c h (fun ch => ch <| ch_consumers := [] |>)).
  assert (H2 : HB s s2).
  { subst s2. apply HB_FR. eapply FR_trans; [|apply FR_upd_chan; reflexivity]. apply FR_fold. intros; apply FR_consumer_stop. }
  assert (C2 : CI s2).
  { subst s2. apply allch_upd_chan; [intros ch0 Hc0; eapply chinvp_set; [..|exact Hc0]; reflexivity|].
    apply fold_left_preserves; auto. intros; apply CI_consumer_stop; auto. }
  clearbody s2. destruct (0 <? h); [|exact H2]. eapply HB_trans; [exact H2|]. apply HB_handle_reject. exact C2.
Qed.

Lemma FR_cancel_fold l : forall s evs,
  FR s (fst (fold_left (fun acc x => let '(s, evs) := acc in let '(s', e) := consumer_cancel s x in (s', evs ++ e)) l (s, evs))).
Proof.
  induction l as [|[[c h] tag] t IH]; intros s evs; cbn [fold_left]; [apply FR_refl|].
  cbn [consumer_cancel]. eapply FR_trans; [apply FR_consumer_stop|apply IH].
Qed.

Lemma HB_vhost_delete_queue b s qn iu ie : HB s (fst (fst (vhost_delete_queue b s qn iu ie))).
Proof.
  unfold vhost_delete_queue. destruct (get_queue s qn) as [qu|] eqn:Eq; [|apply HB_refl].
  destruct (_ || _).
  - cbn [fst]. destruct b; [|apply HB_refl]. apply HB_FR. eapply FR_set_queue; [exact Eq|reflexivity].
  - pose proof (FR_cancel_fold (q_consumers qu) s []) as Hf.
    destruct (fold_left _ (q_consumers qu) (s, [])) as [s1 e1]. cbn [fst] in *.
    eapply HB_trans; [apply HB_FR; exact Hf|]. eapply HB_trans; [|apply HB_del_queue].
    match goal with |- HB _ (@set _ _ _ _ _ (@set _ _ _ _ _ (@set _ _ _ _ _ ?y))) => apply (HB_trans _ y); [|apply HB_FR; apply FR_same; reflexivity] end.
    destruct (q_durable qu); [|apply HB_refl].
    apply HB_store_purge.
Qed.

Lemma HBCI_delete_fold b l : forall s evs, CI s ->
  HB s (fst (fold_left (fun acc qn => let '(s, evs) := acc in
                                    let '(s', e, _) := vhost_delete_queue b s qn false false in (s', evs ++ e)) l (s, evs))).
Proof.
  induction l as [|x t IH]; intros s evs Hci; cbn [fold_left]; [apply HB_refl|].
  pose proof (HB_vhost_delete_queue b s x false false) as Hd. pose proof (CI_vhost_delete_queue b s x false false Hci) as Cd.
  destruct (vhost_delete_queue b s x false false) as [[s1 e1] r1]. cbn [fst] in *. eapply HB_trans; [exact Hd|apply IH; exact Cd].
Qed.

Lemma HB_conn_close cfg fx s c : CI s -> HB s (fst (conn_close cfg fx s c)).
Proof.
  intros Hci. unfold conn_close. destruct (get_conn s c) as [cn|]; [|apply HB_refl].
  set (s1 := fold_left _ _ s).
  assert (H1 : CI s1 /\ HB s s1).
  { subst s1. apply (fold_left_preserves (fun st => CI st /\ HB s st)); [|split; [exact Hci|apply HB_refl]].
    intros st hh [A B]. split; [apply CI_channel_close; auto|]. eapply HB_trans; [exact B|apply HB_channel_close; exact A]. }
  destruct H1 as [C1 H1]. clearbody s1.
  pose proof (HBCI_delete_fold (negb (fx_delete_checks_first fx))
                (map fst (filter (fun kv => q_excl (snd kv) && (q_owner (snd kv) =? c)) (queues s1))) s1 [] C1) as Hd.
  destruct (fold_left _ _ (s1, [])) as [s2 e2]. cbn [fst] in *.
  eapply HB_trans; [exact H1|]. eapply HB_trans; [exact Hd|]. apply HB_del_conn.
Qed.

(* ---- finer accounting: waiting list and unsettled list separately ---- *)
Lemma ready_of_FR s s' qid : FR s s' -> ready_of s' qid = ready_of s qid.
Proof. unfold FR, hview. intros [E _]. inversion E as [[E1 E2 E3 E4 E5 E6]]. rewrite !ready_of_qv, E2. reflexivity. Qed.
Lemma unacked_of_FR s s' qid : FR s s' -> unacked_of s' qid = unacked_of s qid.
Proof. unfold FR, hview. intros [E _]. inversion E as [[E1 E2 E3 E4 E5 E6]]. rewrite !unacked_of_chv, E1. reflexivity. Qed.

Lemma cnt_ready_set_queue s qn qu qu' : get_queue s qn = Some qu -> q_id qu' = q_id qu -> forall qid x,
  (cnt x (ready_of (set_queue s qn qu') qid) + (if N.eqb (q_id qu) qid then cnt x (q_ready qu) else 0) =
   cnt x (ready_of s qid) + (if N.eqb (q_id qu) qid then cnt x (q_ready qu') else 0))%nat.
Proof.
  intros Hg Eid qid x. destruct (qv_set_queue s qn qu qu' Hg) as (X & Y & E1 & E2).
  rewrite !ready_of_qv, E1, E2, !cnt_flat_mid. unfold rdy, qk. cbn [fst snd]. rewrite Eid.
  destruct (q_id qu =? qid); rewrite ?cnt_nil; lia.
Qed.
Lemma cnt_unacked_set_chan s c h ch ch' : get_chan s c h = Some ch -> forall qid x,
  (cnt x (unacked_of (set_chan s c h ch') qid) + cnt x (uq qid ch) = cnt x (unacked_of s qid) + cnt x (uq qid ch'))%nat.
Proof.
  intros Hg qid x. destruct (all_ch_set_chan (uq qid) s c h ch ch' Hg) as (X & Y & E1 & E2).
  rewrite !unacked_of_all_ch, E1, E2, !cnt_app. lia.
Qed.

Lemma uq_append qid ch e x :
  cnt x (uq qid (ch <| ch_unacked ::= fun l => l ++ [e] |>)) = (cnt x (uq qid ch) + (if N.eqb (u_qid e) qid then cnt x [u_msg e] else 0))%nat.
Proof.
  unfold uq. cbn [ch_unacked set]. rewrite filter_app, map_app, cnt_app. cbn [filter]. destruct (u_qid e =? qid); cbn [map]; rewrite ?cnt_nil; lia.
Qed.

(* a channel that exists keeps existing *)
Definition chan_ex (s : state) (c h : N) : Prop := get_chan s c h <> None.
Lemma chan_ex_set_chan s c0 h0 ch0 c h : chan_ex s c h -> chan_ex (set_chan s c0 h0 ch0) c h.
Proof. unfold chan_ex. rewrite get_chan_set_chan. destruct (get_conn s c0); auto. destruct (_ && _); auto. discriminate. Qed.
Lemma chan_ex_upd_chan s c0 h0 f c h : chan_ex s c h -> chan_ex (upd_chan s c0 h0 f) c h.
Proof. unfold upd_chan. destruct (get_chan s c0 h0); auto. apply chan_ex_set_chan. Qed.
Lemma chan_ex_same_conns s s' c h : conns s' = conns s -> chan_ex s c h -> chan_ex s' c h.
Proof. unfold chan_ex. intros E. rewrite (get_chan_same_conns _ _ _ _ E). auto. Qed.
Lemma chan_ex_store_windows cfg s c0 h0 tag ws c h : chan_ex s c h -> chan_ex (store_windows cfg s c0 h0 tag ws) c h.
Proof.
  intros H. unfold store_windows. destruct ws as [|w1 [|w2 [|]]]; auto. cbv zeta.
  destruct (cfg_rabbit cfg); [apply chan_ex_upd_chan; apply chan_ex_upd_chan; exact H|].
  destruct (get_conn _ c0) as [cn|] eqn:Ec; [|apply chan_ex_upd_chan; exact H].
  unfold chan_ex. rewrite (get_chan_set_conn_qos _ _ _ (fun _ => w2) _ _ Ec). apply chan_ex_upd_chan. exact H.
Qed.

Definition is_delivery (e : event) : bool :=
  match snd e with SDeliver _ _ _ _ _ | SGetOk _ _ _ _ _ => true | _ => false end.

Lemma get_queue_upd_queue_at s qn f qu : get_queue s qn = Some qu -> get_queue (upd_queue s qn f) qn = Some (f qu).
Proof. intros E. unfold upd_queue. rewrite E. rewrite get_queue_set_queue. rewrite (proj2 (seqb_spec qn qn) eq_refl). reflexivity. Qed.

Lemma qid_of_same_queues s s' qn : queues s' = queues s -> qid_of s' qn = qid_of s qn.
Proof. intros E. unfold qid_of. rewrite (get_queue_same_queues _ _ _ E). reflexivity. Qed.

(* what a delivery does to the tables, exactly.  [dv_*] : message u leaves the waiting list of queue object qid and - unless the
   consumer is in no-ack mode - is recorded as unsettled on channel (c,h) under tag dtag *)
Record delivered (s s' : state) (c h : N) (qid u dtag : N) (noack : bool) : Prop := {
  dv_ready : forall q x, (cnt x (ready_of s' q) + (if N.eqb qid q then cnt x [u] else 0) = cnt x (ready_of s q))%nat;
  dv_unacked : forall q x, (cnt x (unacked_of s' q) = cnt x (unacked_of s q) + (if negb noack && N.eqb qid q then cnt x [u] else 0))%nat;
  dv_entry : noack = false -> exists e, In e (U s' c h) /\ u_tag e = dtag /\ u_msg e = u /\ u_qid e = qid;
  dv_cur : all_cur s' = all_cur s;
  dv_qids : qids s' = qids s;
  dv_uid : next_uid s' = next_uid s;
  dv_qid : next_qid s' = next_qid s;
  dv_add : st_add s' = st_add s;
  dv_db : st_db s' = st_db s;
  dv_nmv : nmv s' = nmv s;
  dv_del : incl (st_del s) (st_del s') }.

Lemma HB_delivered s s' c h qid u dtag noack : delivered s s' c h qid u dtag noack -> HB s s'.
Proof.
  intros D. split; [constructor|].
  - intros q x. unfold held. rewrite !cnt_app. pose proof (dv_ready _ _ _ _ _ _ _ _ D q x). pose proof (dv_unacked _ _ _ _ _ _ _ _ D q x).
    destruct noack; cbn [negb andb] in *; destruct (qid =? q); lia.
  - rewrite (dv_cur _ _ _ _ _ _ _ _ D). apply le_ms_refl.
  - rewrite (dv_uid _ _ _ _ _ _ _ _ D). lia.
  - rewrite (dv_qid _ _ _ _ _ _ _ _ D). lia.
  - intros k Hk. left. unfold store in *. rewrite (dv_add _ _ _ _ _ _ _ _ D), (dv_db _ _ _ _ _ _ _ _ D) in Hk. exact Hk.
  - rewrite (dv_add _ _ _ _ _ _ _ _ D). auto.
  - rewrite (dv_add _ _ _ _ _ _ _ _ D), (dv_db _ _ _ _ _ _ _ _ D). auto.
  - split; [rewrite (dv_qids _ _ _ _ _ _ _ _ D); apply le_ms_refl|]. apply SB_same; apply D.
Qed.

Lemma delivered_FR_l s0 s s' c h qid u dtag noack : FR s0 s -> delivered s s' c h qid u dtag noack -> delivered s0 s' c h qid u dtag noack.
Proof.
  intros E D. destruct (nexts_FR _ _ E) as (A & B & _ & D1 & D2). constructor.
  - intros q x. rewrite <- (ready_of_FR _ _ q E). apply D.
  - intros q x. rewrite <- (unacked_of_FR _ _ q E). apply D.
  - apply D.
  - rewrite <- (all_cur_FR _ _ E). apply D.
  - rewrite <- (qids_FR _ _ E). apply D.
  - rewrite <- A. apply D.
  - rewrite <- B. apply D.
  - rewrite <- D1. apply D.
  - rewrite <- D2. apply D.
  - destruct E as (_ & E1 & _). rewrite <- E1. apply D.
  - destruct E as (_ & _ & E1). eapply incl_tran; [exact E1|apply D].
Qed.
Lemma delivered_FR_r s s' s'' c h qid u dtag noack :
  delivered s s' c h qid u dtag noack -> FR s' s'' -> U s'' c h = U s' c h -> delivered s s'' c h qid u dtag noack.
Proof.
  intros D E EU. destruct (nexts_FR _ _ E) as (A & B & _ & D1 & D2). constructor.
  - intros q x. rewrite (ready_of_FR _ _ q E). apply D.
  - intros q x. rewrite (unacked_of_FR _ _ q E). apply D.
  - rewrite EU. apply D.
  - rewrite (all_cur_FR _ _ E). apply D.
  - rewrite (qids_FR _ _ E). apply D.
  - rewrite A. apply D.
  - rewrite B. apply D.
  - rewrite D1. apply D.
  - rewrite D2. apply D.
  - destruct E as (_ & E1 & _). rewrite E1. apply D.
  - destruct E as (_ & _ & E1). eapply incl_tran; [apply D|exact E1].
Qed.

(* the common core of consumer turn and basic.get: pop the head, (bookkeeping that does not touch the view), bump the tag
   counter, record the delivery *)
Lemma delivered_core s qn qu u rest c h (noack : bool) dtag s2 s4 ctag :
  get_queue s qn = Some qu -> q_ready qu = u :: rest -> chan_ex s c h ->
  FR (upd_queue s qn (popped rest)) s2 -> (noack = false -> queues s2 = queues (upd_queue s qn (popped rest))) -> chan_ex s2 c h ->
  s4 = (if noack then s2
        else upd_chan s2 c h (fun ch => ch <| ch_unacked ::= fun l => l ++ [{| u_tag := dtag; u_ctag := ctag; u_queue := qn; u_qid := qid_of s2 qn; u_msg := u |}] |>)) ->
  delivered s s4 c h (q_id qu) u dtag noack.
Proof.
  intros Hq Er Hex E2 Q2 Hex2 ->.
  set (s1 := upd_queue s qn (popped rest)) in *.
  assert (Hq1 : get_queue s1 qn = Some (popped rest qu)) by (apply get_queue_upd_queue_at; exact Hq).
  assert (Eid : q_id (popped rest qu) = q_id qu) by apply popped_keeps.
  assert (R1 : forall q x, (cnt x (ready_of s1 q) + (if N.eqb (q_id qu) q then cnt x [u] else 0) = cnt x (ready_of s q))%nat).
  { intros q x. subst s1. unfold upd_queue. rewrite Hq. pose proof (cnt_ready_set_queue s qn qu (popped rest qu) Hq Eid q x) as Hc.
    rewrite q_ready_popped, Er in Hc. rewrite cnt_cons in Hc. rewrite cnt_one. destruct (q_id qu =? q); lia. }
  assert (U1 : forall q, unacked_of s1 q = unacked_of s q) by (intros q; apply unacked_of_same_conns; apply conns_upd_queue).
  assert (C1 : all_cur s1 = all_cur s) by (apply all_cur_same; apply conns_upd_queue).
  assert (I1 : qids s1 = qids s).
  { subst s1. unfold upd_queue. rewrite Hq. apply (qids_set_queue_keep s qn qu); auto. }
  assert (N1 : next_uid s1 = next_uid s /\ next_qid s1 = next_qid s /\ st_add s1 = st_add s /\ st_db s1 = st_db s /\ st_del s1 = st_del s).
  { subst s1. unfold upd_queue. rewrite Hq. repeat split; reflexivity. }
  destruct N1 as (N1 & N2 & N3 & N4 & N5).
  assert (Nm1 : nmv s1 = nmv s) by (subst s1; unfold upd_queue; rewrite Hq; apply (nmv_set_queue_keep s qn qu); auto).
  assert (Nm2 : nmv s2 = nmv s) by (destruct E2 as (_ & E2' & _); rewrite E2'; exact Nm1).
  assert (Dl2 : incl (st_del s) (st_del s2)) by (destruct E2 as (_ & _ & E2'); rewrite <- N5; exact E2').
  destruct (nexts_FR _ _ E2) as (A & B & _ & D1 & D2).
  assert (Eqid : noack = false -> qid_of s2 qn = q_id qu) by (intros En; unfold qid_of; rewrite (get_queue_same_queues _ _ _ (Q2 En)), Hq1; exact Eid).
  destruct noack.
  - constructor; try discriminate.
    + intros q x. rewrite (ready_of_FR _ _ q E2). apply R1.
    + intros q x. rewrite (unacked_of_FR _ _ q E2), U1. cbn. lia.
    + rewrite (all_cur_FR _ _ E2). exact C1.
    + rewrite (qids_FR _ _ E2). exact I1.
    + lia.
    + lia.
    + congruence.
    + congruence.
    + exact Nm2.
    + exact Dl2.
  - unfold chan_ex in Hex2. destruct (get_chan s2 c h) as [ch2|] eqn:Ech2; [|congruence].
    unfold upd_chan. rewrite Ech2. rewrite (Eqid eq_refl).
    set (en := {| u_tag := dtag; u_ctag := ctag; u_queue := qn; u_qid := q_id qu; u_msg := u |}).
    destruct (next_set_chan s2 c h (ch2 <| ch_unacked ::= fun l => l ++ [en] |>)) as (M1 & M2 & M3 & M4 & MQ).
    constructor.
    + intros q x. rewrite (ready_of_same_queues s2) by exact MQ. rewrite (ready_of_FR _ _ q E2). apply R1.
    + intros q x. pose proof (cnt_unacked_set_chan s2 c h ch2 (ch2 <| ch_unacked ::= fun l => l ++ [en] |>) Ech2 q x) as Hc.
      rewrite uq_append in Hc. cbn [u_qid u_msg en] in Hc. rewrite (unacked_of_FR _ _ q E2), U1 in Hc. cbn [negb andb]. lia.
    + intros _. exists en. split; [|auto]. unfold U. rewrite get_chan_set_chan. pose proof (get_chan_conn _ _ _ _ Ech2) as Hc.
      destruct (get_conn s2 c); [|congruence]. rewrite !N.eqb_refl. cbn. apply in_or_app. right. left. reflexivity.
    + unfold all_cur. rewrite (all_ch_set_chan_keep cur_l s2 c h ch2) by (auto; reflexivity). fold (all_cur s2). rewrite (all_cur_FR _ _ E2). exact C1.
    + rewrite (qids_same_queues _ _ MQ). rewrite (qids_FR _ _ E2). exact I1.
    + lia.
    + lia.
    + congruence.
    + congruence.
    + rewrite (nmv_same_queues _ _ MQ). exact Nm2.
    + rewrite st_del_set_chan. exact Dl2.
Qed.

Lemma content_frames_not_delivery s c h u e : In e (content_frames s c h u) -> is_delivery e = false.
Proof.
  unfold content_frames. destruct (get_msg s u) as [m|]; [|intros []]. intros [<-|Hin]; [reflexivity|].
  apply in_map_iff in Hin. destruct Hin as (l & <- & _). reflexivity.
Qed.

Lemma U_same_conns' s s' c h : conns s' = conns s -> U s' c h = U s c h.
Proof. apply U_same_conns. Qed.

Lemma consumer_turn_effect cfg fx s c h tag :
  (FR s (fst (consumer_turn cfg fx s c h tag)) /\ snd (consumer_turn cfg fx s c h tag) = []) \/
  exists ch cm qu u rest dtag,
    get_chan s c h = Some ch /\ find_consumer ch tag = Some cm /\ get_queue s (c_queue cm) = Some qu /\ q_ready qu = u :: rest /\
    delivered s (fst (consumer_turn cfg fx s c h tag)) c h (q_id qu) u dtag (c_noack cm) /\
    (forall e, In e (snd (consumer_turn cfg fx s c h tag)) -> is_delivery e = true -> exists fl ex key, e = (c, h, SDeliver tag dtag fl ex key)).
Proof.
  unfold consumer_turn.
  destruct (get_chan s c h) as [ch|] eqn:Ech; [|left; split; [apply FR_refl|reflexivity]].
  destruct (find_consumer ch tag) as [cm|] eqn:Efc; [|left; split; [apply FR_refl|reflexivity]].
  destruct (negb (c_token cm)); [left; split; [apply FR_refl|reflexivity]|].
  set (s0 := set_chan s c h _).
  assert (H0 : FR s s0) by (subst s0; eapply FR_set_chan; [exact Ech|reflexivity]).
  assert (Q0 : queues s0 = queues s) by (subst s0; apply queues_set_chan).
  assert (X0 : chan_ex s0 c h) by (subst s0; apply chan_ex_set_chan; unfold chan_ex; congruence).
  clearbody s0.
  destruct (c_status cm); try (left; split; [exact H0|reflexivity]).
  all: destruct (get_queue s0 (c_queue cm)) as [qu|] eqn:Eq; [|left; split; [exact H0|reflexivity]].
  all: destruct (negb (q_active qu)); [left; split; [exact H0|reflexivity]|].
  all: destruct (q_ready qu) as [|u rest] eqn:Er; [left; split; [exact H0|reflexivity]|].
  all: match goal with |- context [if c_noack ?cm0 then (Some [], []) else ?r] => destruct (if c_noack cm0 then (Some [], []) else r) as [okr ws] end.
  all: set (s1 := if c_noack cm then s0 else store_windows cfg s0 c h tag ws).
  all: assert (H1 : FR s s1) by (subst s1; destruct (c_noack cm); [exact H0|eapply FR_trans; [exact H0|apply FR_store_windows]]).
  all: assert (Q1 : queues s1 = queues s0) by (subst s1; destruct (c_noack cm); [reflexivity|apply queues_store_windows]).
  all: assert (X1 : chan_ex s1 c h) by (subst s1; destruct (c_noack cm); [exact X0|apply chan_ex_store_windows; exact X0]).
  all: clearbody s1.
  all: destruct okr; [|left; split; [exact H1|reflexivity]].
  all: right.
  all: assert (Eq1 : get_queue s1 (c_queue cm) = Some qu) by (rewrite (get_queue_same_queues _ _ _ Q1); exact Eq).
  all: set (sP := upd_queue s1 (c_queue cm) (popped rest)).
  all: set (sA := if c_noack cm then queue_ackmsg sP (c_queue cm) u else sP).
  all: set (dtag := match get_chan sA c h with Some ch => ch_dtag ch + 1 | None => 0 end).
  all: set (sB := upd_chan sA c h (fun ch => ch <| ch_dtag := dtag |>)).
  all: exists ch, cm, qu, u, rest, dtag.
  all: split; [reflexivity|]; split; [exact Efc|]; split; [rewrite <- (get_queue_same_queues _ _ _ Q0); exact Eq|]; split; [exact Er|].
  all: assert (FA : FR sP sA) by (subst sA; destruct (c_noack cm); [apply FR_queue_ackmsg|apply FR_refl]).
  all: assert (FB : FR sP sB) by (subst sB; eapply FR_trans; [exact FA|apply FR_upd_chan; reflexivity]).
  all: assert (QB : c_noack cm = false -> queues sB = queues sP) by (intros En; subst sB sA; rewrite En; apply queues_upd_chan).
  all: assert (XB : chan_ex sB c h).
  all: try (subst sB; apply chan_ex_upd_chan; subst sA; destruct (c_noack cm);
            [eapply chan_ex_same_conns; [apply (proj1 (proj2 conns_queue_ops))|]|]; subst sP; (eapply chan_ex_same_conns; [apply conns_upd_queue|exact X1])).
  all: match goal with |- context [wake_consumer ?st ?c0 ?h0 ?tag0] => destruct (wake_consumer st c0 h0 tag0) as [s9 b9] eqn:Ew;
         pose proof (FR_wake_consumer st c0 h0 tag0) as FW; pose proof (U_wake_consumer st c0 h0 tag0 c h) as UW; rewrite Ew in FW, UW; cbn [fst snd] in * end.
  all: split.
  all: try (intros e He Hd; destruct (get_msg _ u) as [m|]; [|destruct He];
            apply in_app_or in He; destruct He as [[<-|[]]|He]; [eauto|apply content_frames_not_delivery in He; congruence]).
  all: apply (delivered_FR_l s s1); [exact H1|].
  all: match type of FW with FR (@set _ _ _ _ _ ?sD) _ => set (sD0 := sD) in * end.
  all: set (sC := if c_noack cm then sB else upd_chan sB c h (fun ch => ch <| ch_unacked ::= fun l => l ++ [{| u_tag := dtag; u_ctag := tag; u_queue := c_queue cm; u_qid := qid_of sB (c_queue cm); u_msg := u |}] |>)) in *.
  all: assert (DC : delivered s1 sC c h (q_id qu) u dtag (c_noack cm)) by (eapply (delivered_core s1 (c_queue cm) qu u rest c h (c_noack cm) dtag sB sC tag); eauto).
  all: assert (FD : FR sC sD0 /\ U sD0 c h = U sC c h).
  all: try (subst sD0; destruct (c_noack cm); [destruct (fx_noack_total_once fx)|];
            (split; [eapply FR_trans; [|apply FR_upd_queue; reflexivity]; apply FR_same; reflexivity
                    |rewrite (U_same_conns' _ _ c h (conns_upd_queue _ _ _)); reflexivity])).
  all: destruct FD as [FD UD].
  all: eapply delivered_FR_r; [eapply delivered_FR_r; [exact DC| |]| exact FW |].
  all: try (eapply FR_trans; [exact FD|apply FR_same; reflexivity]).
  all: try (rewrite UW; reflexivity).
  all: try exact UD.
Qed.

Lemma queue_found_get' s qn qu : queue_found s qn = Some qu -> get_queue s qn = Some qu.
Proof. unfold queue_found. destruct (get_queue s qn) as [q0|]; [|discriminate]. destruct (q_active q0); congruence. Qed.

Lemma get_effect cfg fx s c h q noack :
  (FR s (fst (fst (handle_method cfg fx s c h (MGet q noack)))) /\
   forall e, In e (snd (fst (handle_method cfg fx s c h (MGet q noack)))) -> is_delivery e = false) \/
  exists qu u rest dtag,
    get_queue s q = Some qu /\ q_ready qu = u :: rest /\ snd (handle_method cfg fx s c h (MGet q noack)) = None /\
    delivered s (fst (fst (handle_method cfg fx s c h (MGet q noack)))) c h (q_id qu) u dtag noack /\
    (forall e, In e (snd (fst (handle_method cfg fx s c h (MGet q noack)))) -> is_delivery e = true ->
               exists fl ex key n, e = (c, h, SGetOk dtag fl ex key n)).
Proof.
  unfold handle_method.
  destruct (get_chan s c h) as [ch|] eqn:Hch; [|left; split; [apply FR_refl|intros e []]].
  unfold ok, refuse.
  destruct (queue_found s q) as [qu|] eqn:Eqf; [|left; split; [apply FR_refl|intros e []]].
  apply queue_found_get' in Eqf.
  destruct (fx_excl_owner fx && locked qu c); [left; split; [apply FR_refl|intros e []]|].
  destruct (q_ready qu) as [|u rest] eqn:Er; [left; split; [apply FR_refl|intros e [<-|[]]; reflexivity]|].
  match goal with |- context [if noack then (Some [], []) else ?r] => destruct (if noack then (Some [], []) else r) as [okr ws] end.
  set (s1 := match ws with [w1; w2] => _ | _ => s end).
  assert (H1 : FR s s1 /\ queues s1 = queues s /\ chan_ex s1 c h).
  { subst s1. destruct ws as [|w1 [|w2 [|]]]; try (split; [apply FR_refl|split; [reflexivity|unfold chan_ex; congruence]]).
    assert (A : FR s (set_chan s c h (ch <| ch_qos := w1 |>))) by (eapply FR_set_chan; [exact Hch|reflexivity]).
    assert (B : chan_ex (set_chan s c h (ch <| ch_qos := w1 |>)) c h) by (apply chan_ex_set_chan; unfold chan_ex; congruence).
    destruct (get_conn _ c) as [cn|] eqn:Ec.
    - split; [eapply FR_trans; [exact A|eapply FR_set_conn; [exact Ec|reflexivity]]|]. split; [cbn [queues set]; apply queues_set_chan|].
      unfold chan_ex. rewrite (get_chan_set_conn_qos _ _ _ (fun _ => w2) _ _ Ec). exact B.
    - split; [exact A|]. split; [apply queues_set_chan|exact B]. }
  destruct H1 as (H1 & Q1 & X1). clearbody s1.
  destruct okr; cbn [fst snd]; [|left; split; [exact H1|intros e [<-|[]]; reflexivity]].
  right.
  assert (Eq1 : get_queue s1 q = Some qu) by (rewrite (get_queue_same_queues _ _ _ Q1); exact Eqf).
  set (sP := upd_queue s1 q (popped rest)).
  set (dtag := match get_chan sP c h with Some ch => ch_dtag ch + 1 | None => 0 end).
  set (sB := upd_chan sP c h (fun ch => ch <| ch_dtag := dtag |>)).
  exists qu, u, rest, dtag.
  split; [exact Eqf|]. split; [exact Er|]. split; [reflexivity|].
  assert (FB : FR sP sB) by (subst sB; apply FR_upd_chan; reflexivity).
  assert (QB : noack = false -> queues sB = queues sP) by (intros _; subst sB; apply queues_upd_chan).
  assert (XB : chan_ex sB c h) by (subst sB; apply chan_ex_upd_chan; subst sP; eapply chan_ex_same_conns; [apply conns_upd_queue|exact X1]).
  split.
  2:{ intros e He Hd. destruct (get_msg _ u) as [m|].
      - apply in_app_or in He. destruct He as [[<-|[]]|He]; [eauto|apply content_frames_not_delivery in He; congruence].
      - destruct He as [<-|[]]. eauto. }
  apply (delivered_FR_l s s1); [exact H1|].
  set (sC := if noack then sB else upd_chan sB c h (fun ch => ch <| ch_unacked ::= fun l => l ++ [{| u_tag := dtag; u_ctag := ""%string; u_queue := q; u_qid := qid_of sB q; u_msg := u |}] |>)).
  assert (DC : delivered s1 sC c h (q_id qu) u dtag noack) by (eapply (delivered_core s1 q qu u rest c h noack dtag sB sC ""%string); eauto).
  eapply delivered_FR_r; [exact DC| |].
  - subst sC. destruct noack; [destruct (fx_noack_total_once fx)|].
    + eapply FR_trans; [|apply FR_same; reflexivity]. eapply FR_trans; [|apply FR_upd_queue; reflexivity].
      eapply FR_trans; [apply FR_queue_ackmsg|apply FR_same; reflexivity].
    + eapply FR_trans; [|apply FR_same; reflexivity]. eapply FR_trans; [|apply FR_upd_queue; reflexivity]. apply FR_same; reflexivity.
    + eapply FR_trans; [|apply FR_same; reflexivity]. eapply FR_trans; [|apply FR_upd_queue; reflexivity]. apply FR_same; reflexivity.
  - subst sC. destruct noack; [destruct (fx_noack_total_once fx)|].
    + apply U_same_conns. cbn [conns set]. rewrite conns_upd_queue. cbn [conns set]. apply (proj1 (proj2 conns_queue_ops)).
    + apply U_same_conns. cbn [conns set]. rewrite conns_upd_queue. reflexivity.
    + apply U_same_conns. cbn [conns set]. rewrite conns_upd_queue. reflexivity.
Qed.

(* ================================================================== *)
(* 4. the invariant *)
Definition single_holder (s : state) : Prop := forall qid, NoDup (held s qid).

Record HI (s : state) : Prop := {
  hi_nodup : single_holder s;
  hi_cur_nodup : NoDup (all_cur s);                                            (* messages mid-publish: one channel each, *)
  hi_cur_fresh : forall u qid, In u (all_cur s) -> ~ In u (held s qid);        (* in no queue yet, *)
  hi_cur_lt : forall u, In u (all_cur s) -> u < next_uid s;
  hi_held_lt : forall qid u, In u (held s qid) -> u < next_uid s;              (* message ids are allocated from next_uid *)
  hi_qids_nodup : NoDup (qids s);                                              (* queue objects have distinct ids, *)
  hi_qids_lt : forall i, In i (qids s) -> i < next_qid s;                      (* allocated from next_qid *)
  hi_held_qid : forall qid u, In u (held s qid) -> qid < next_qid s;           (* also those of deleted queues that still have deliveries out *)
  hi_store_lt : forall k, In k (store s) -> fst k < next_uid s;
  hi_add_nodup : NoDup (st_add s);
  hi_db_nodup : NoDup (st_db s);                                               (* the store holds no key twice *)
  hi_cur_add : forall u k, In u (all_cur s) -> In k (store s) -> fst k <> u;   (* a message mid-publish has no key yet *)
  hi_db_add : forall k, In k (st_db s) -> ~ In k (st_add s);                   (* no key is at once written and pending *)
  hi_names : NoDup (map fst (nmv s)) }.                                        (* one queue object per name *)

Lemma HI_mono s s' : HI s ->
  (forall qid, le_ms (held s' qid) (held s qid)) ->
  next_uid s <= next_uid s' -> next_qid s <= next_qid s' ->
  NoDup (all_cur s') -> (forall u, In u (all_cur s') -> In u (all_cur s) \/ (next_uid s <= u /\ u < next_uid s')) ->
  NoDup (qids s') -> (forall i, In i (qids s') -> In i (qids s) \/ (next_qid s <= i /\ i < next_qid s')) ->
  (forall k, In k (store s') -> In k (store s) \/ exists qid, In (fst k) (held s qid)) ->
  (forall k, In k (st_add s') -> In k (st_add s)) -> NoDup (st_add s') -> NoDup (st_db s') -> NoDup (map fst (nmv s')) ->
  (forall k, In k (st_db s') -> ~ In k (st_add s')) -> HI s'.
Proof.
  intros H Hh Hu Hq Hcn Hc Hin Hi Hs Ha Han Hdn Hnm Hdj. constructor; auto.
  - intros qid. eapply le_ms_NoDup; [apply Hh|apply H].
  - intros u qid Hu' Hx. apply (le_ms_In _ _ _ (Hh qid)) in Hx. apply Hc in Hu'. destruct Hu' as [Hu'|Hu'].
    + exact (hi_cur_fresh _ H u qid Hu' Hx).
    + pose proof (hi_held_lt _ H qid u Hx). lia.
  - intros u Hu'. apply Hc in Hu'. destruct Hu' as [Hu'|Hu']; [pose proof (hi_cur_lt _ H u Hu')|]; lia.
  - intros qid u Hx. apply (le_ms_In _ _ _ (Hh qid)) in Hx. pose proof (hi_held_lt _ H qid u Hx). lia.
  - intros i Hi'. apply Hi in Hi'. destruct Hi' as [Hi'|Hi']; [pose proof (hi_qids_lt _ H i Hi')|]; lia.
  - intros qid u Hx. apply (le_ms_In _ _ _ (Hh qid)) in Hx. pose proof (hi_held_qid _ H qid u Hx). lia.
  - intros k Hk. apply Hs in Hk. destruct Hk as [Hk|(qid & Hk)]; [pose proof (hi_store_lt _ H k Hk)|pose proof (hi_held_lt _ H qid _ Hk)]; lia.
  - intros u k Hu' Hk E. apply Hs in Hk. apply Hc in Hu'. destruct Hk as [Hk|(qid & Hk)]; destruct Hu' as [Hu'|Hu'].
    + exact (hi_cur_add _ H u k Hu' Hk E).
    + pose proof (hi_store_lt _ H k Hk). lia.
    + rewrite E in Hk. exact (hi_cur_fresh _ H u qid Hu' Hk).
    + pose proof (hi_held_lt _ H qid _ Hk). lia.
Qed.

Lemma HI_HB s s' : HI s -> HB s s' -> HI s'.
Proof.
  intros H (B & Bq & Bs). destruct (hb_nd _ _ B (hi_add_nodup _ H) (hi_db_nodup _ H)) as [N1 N2].
  apply (HI_mono s s' H); auto; try apply B; try (apply (sb_names _ _ Bs); apply H); try (apply (sb_disj _ _ Bs); apply H).
  - eapply le_ms_NoDup; [apply B|apply H].
  - intros u Hu. left. eapply le_ms_In; [apply B|exact Hu].
  - eapply le_ms_NoDup; [exact Bq|apply H].
  - intros i Hi. left. eapply le_ms_In; [exact Bq|exact Hi].
Qed.

Lemma NoDup_map_inj {A B} (f : A -> B) l a b : NoDup (map f l) -> In a l -> In b l -> f a = f b -> a = b.
Proof.
  induction l as [|x t IH]; intros Hn Ha Hb E; [destruct Ha|]. cbn [map] in Hn. inversion Hn as [|? ? Hni Hn']; subst.
  destruct Ha as [->|Ha]; destruct Hb as [->|Hb]; auto.
  - exfalso. apply Hni. rewrite E. apply in_map. exact Hb.
  - exfalso. apply Hni. rewrite <- E. apply in_map. exact Ha.
Qed.

Lemma qids_map s : qids s = map (fun kq : string * queue => q_id (snd kq)) (queues s).
Proof. unfold qids, qv. rewrite map_map. reflexivity. Qed.
Lemma get_queue_qids s qn qu : get_queue s qn = Some qu -> In (q_id qu) (qids s).
Proof. intros H. apply (alookup_in seqb seqb_spec) in H. rewrite qids_map. apply (in_map (fun kq : string * queue => q_id (snd kq))) in H. exact H. Qed.
Lemma get_queue_ids_distinct s qn qn' qu qu' :
  NoDup (qids s) -> get_queue s qn = Some qu -> get_queue s qn' = Some qu' -> qn <> qn' -> q_id qu <> q_id qu'.
Proof.
  intros Hn A B Hne E. apply (alookup_in seqb seqb_spec) in A. apply (alookup_in seqb seqb_spec) in B. rewrite qids_map in Hn.
  pose proof (NoDup_map_inj _ _ _ _ Hn A B E) as Heq. inversion Heq. contradiction.
Qed.

(* ---- publish ---- *)
(* Queue.Push: one copy at the tail of the waiting list of the named queue (if it exists, is active, and the message is known) *)
Lemma queue_push_effect s qn u :
  queue_push s qn u = s \/
  exists qu, get_queue s qn = Some qu /\
    (forall qid x, (cnt x (held (queue_push s qn u) qid) = cnt x (held s qid) + (if N.eqb (q_id qu) qid then cnt x [u] else 0))%nat) /\
    conns (queue_push s qn u) = conns s /\ qids (queue_push s qn u) = qids s /\
    next_uid (queue_push s qn u) = next_uid s /\ next_qid (queue_push s qn u) = next_qid s /\ st_db (queue_push s qn u) = st_db s /\
    (st_add (queue_push s qn u) = st_add s \/ st_add (queue_push s qn u) = st_add s ++ [(u, qn)]) /\
    (forall qn', qn' <> qn -> get_queue (queue_push s qn u) qn' = get_queue s qn') /\
    nmv (queue_push s qn u) = nmv s /\ st_del (queue_push s qn u) = st_del s.
Proof.
  unfold queue_push. destruct (get_queue s qn) as [qu|] eqn:Hq; [|left; reflexivity].
  destruct (get_msg s u) as [m|]; [|left; reflexivity]. destruct (negb (q_active qu)); [left; reflexivity|].
  right. exists qu. split; [reflexivity|]. cbv zeta.
  set (s2 := if q_durable qu && m_pers m then _ else _).
  assert (E2 : conns s2 = conns s /\ queues s2 = queues s /\ next_uid s2 = next_uid s /\ next_qid s2 = next_qid s /\ st_db s2 = st_db s /\
               (st_add s2 = st_add s \/ st_add s2 = st_add s ++ [(u, qn)]) /\ st_del s2 = st_del s).
  { subst s2. destruct (q_durable qu && m_pers m); [repeat split; auto|].
    destruct (m_conf m); [|repeat split; auto]. unfold upd_msg. destruct (get_msg _ u); repeat split; auto. }
  destruct E2 as (Ec & Eq & E3 & E4 & E5 & E6 & E7). clearbody s2.
  assert (Hq2 : get_queue s2 qn = Some qu) by (rewrite (get_queue_same_queues _ _ _ Eq); exact Hq).
  set (qu' := call_consumers _).
  assert (Hk : qk qu' = (q_id qu, q_ready qu ++ [u])) by (subst qu'; rewrite q_call_consumers; reflexivity).
  assert (Eid : q_id qu' = q_id qu) by (apply (f_equal fst) in Hk; exact Hk).
  assert (Erd : q_ready qu' = q_ready qu ++ [u]) by (apply (f_equal snd) in Hk; exact Hk).
  repeat split; auto.
  - intros qid x. pose proof (cnt_held_set_queue s2 qn qu qu' Hq2 Eid qid x) as Hc. rewrite (held_same s s2 qid Ec Eq) in Hc.
    rewrite Erd, cnt_app in Hc. destruct (q_id qu =? qid); lia.
  - rewrite (qids_set_queue_keep s2 qn qu qu' Hq2 Eid). apply qids_same_queues. exact Eq.
  - intros qn' Hne. rewrite get_queue_set_queue. destruct (seqb qn' qn) eqn:E; [apply seqb_spec in E; contradiction|].
    apply get_queue_same_queues. exact Eq.
  - rewrite (nmv_set_queue_keep s2 qn qu qu' Hq2 Eid). apply nmv_same_queues. exact Eq.
Qed.

Lemma route_keeps fx s c h u :
  nmv (fst (route_and_push fx s c h u)) = nmv s /\ st_del (fst (route_and_push fx s c h u)) = st_del s.
Proof.
  assert (Hac : forall s0 t, nmv (add_confirm s0 c h t) = nmv s0 /\ st_del (add_confirm s0 c h t) = st_del s0).
  { intros s0 t. split; [apply nmv_same_queues; apply queues_add_confirm|]. unfold add_confirm.
    destruct (get_chan s0 c h) as [ch|]; [|reflexivity]. destruct (negb _); [reflexivity|].
    destruct (ch_status ch); try reflexivity; destruct t as [[[? ?] ?]|]; try reflexivity; apply st_del_set_chan. }
  unfold route_and_push. destruct (get_msg s u) as [m|]; [|auto].
  destruct (alookup _ _ _) as [ex|]; cbn [fst]; [|apply Hac].
  destruct (matched_queues _ _ _) as [|q1 qs]; cbn [fst]; [apply Hac|].
  apply (fold_left_preserves (fun st => nmv st = nmv s /\ st_del st = st_del s)).
  - intros s1 qn [A B]. unfold push_one.
    assert (H2 : nmv (queue_push s1 qn u) = nmv s /\ st_del (queue_push s1 qn u) = st_del s).
    { destruct (queue_push_effect s1 qn u) as [->|(qu & _ & _ & _ & _ & _ & _ & _ & _ & _ & E1 & E2)]; [auto|]. rewrite E1, E2. auto. }
    destruct (get_msg _ u); [|exact H2]. destruct (_ && _ && _); [|exact H2]. destruct (Hac (queue_push s1 qn u) (live_conf (queue_push s1 qn u) m0)) as [A1 B1].
    rewrite A1, B1. exact H2.
  - destruct (_ && _)%bool; [|auto]. split; [apply nmv_same_queues; apply queues_upd_msg|]. unfold upd_msg. destruct (get_msg s u); reflexivity.
Qed.

Section Publish.
Variables (c h u : N) (s0 : state).
Hypothesis H0 : HI s0.
Hypothesis Hu0 : In u (all_cur s0).

(* the state while the copies of u are being placed; Q = destinations still to come *)
Record PK (Q : list string) (s : state) : Prop := {
  pk_nodup : forall qid, NoDup (held s qid);
  pk_held : forall qid x, In x (held s qid) -> In x (held s0 qid) \/ (x = u /\ In qid (qids s0));
  pk_cur : all_cur s = all_cur s0;
  pk_qids : qids s = qids s0;
  pk_uid : next_uid s = next_uid s0;
  pk_qid : next_qid s = next_qid s0;
  pk_db : st_db s = st_db s0;
  pk_add : forall k, In k (st_add s) -> In k (st_add s0) \/ fst k = u;
  pk_add_nodup : NoDup (st_add s);
  pk_todo_add : forall qn, In qn Q -> ~ In (u, qn) (st_add s);
  pk_todo : forall qn qu, In qn Q -> get_queue s qn = Some qu -> ~ In u (held s (q_id qu)) }.

Lemma PK_init Q : PK Q s0.
Proof.
  constructor; auto; try apply H0.
  - intros qn Hq Hin. apply (hi_cur_add _ H0 u (u, qn) Hu0); [unfold store; apply in_or_app; left; exact Hin|reflexivity].
  - intros qn qu _ _. apply (hi_cur_fresh _ H0 u). exact Hu0.
Qed.

Lemma PK_FR Q s s' : (forall qn, get_queue s' qn = get_queue s qn) -> FR s s' -> PK Q s -> PK Q s'.
Proof.
  intros Hq E P. destruct (nexts_FR _ _ E) as (A & B & _ & D1 & D2). constructor.
  - intros qid. rewrite (held_FR _ _ qid E). apply P.
  - intros qid x. rewrite (held_FR _ _ qid E). apply P.
  - rewrite (all_cur_FR _ _ E). apply P.
  - rewrite (qids_FR _ _ E). apply P.
  - rewrite A. apply P.
  - rewrite B. apply P.
  - rewrite D2. apply P.
  - rewrite D1. apply P.
  - rewrite D1. apply P.
  - rewrite D1. apply P.
  - intros qn qu Hin Hg. rewrite Hq in Hg. rewrite (held_FR _ _ _ E). exact (pk_todo _ _ P qn qu Hin Hg).
Qed.

Lemma PK_push qn Q s : ~ In qn Q -> PK (qn :: Q) s -> PK Q (queue_push s qn u).
Proof.
  intros Hni P. destruct (queue_push_effect s qn u) as [->|(qu & Hq & Hc & Ec & Ei & E1 & E2 & E3 & E4 & E5 & _)].
  { constructor; try apply P. - intros q Hin. apply (pk_todo_add _ _ P). right; exact Hin. - intros q qu Hin. apply (pk_todo _ _ P). right; exact Hin. }
  assert (Hnu : ~ In u (held s (q_id qu))) by (apply (pk_todo _ _ P qn qu); [left; reflexivity|exact Hq]).
  constructor.
  - intros qid. apply NoDup_cnt. intros x. rewrite Hc. pose proof (proj1 (NoDup_cnt _) (pk_nodup _ _ P qid) x) as Hx.
    destruct (q_id qu =? qid) eqn:E; [|lia]. apply N.eqb_eq in E. subst qid. rewrite cnt_one. destruct (N.eq_dec u x) as [->|]; [|lia].
    apply notIn_cnt in Hnu. lia.
  - intros qid x Hin. apply In_cnt in Hin. rewrite Hc in Hin. destruct (q_id qu =? qid) eqn:E.
    + apply N.eqb_eq in E. subst qid. rewrite cnt_one in Hin. destruct (N.eq_dec u x) as [->|].
      * right. split; [reflexivity|]. rewrite <- (pk_qids _ _ P). eapply get_queue_qids; eauto.
      * apply (pk_held _ _ P). apply In_cnt. lia.
    + apply (pk_held _ _ P). apply In_cnt. lia.
  - rewrite (all_cur_same _ _ Ec). apply P.
  - rewrite Ei. apply P.
  - rewrite E1. apply P.
  - rewrite E2. apply P.
  - rewrite E3. apply P.
  - intros k Hk. destruct E4 as [E4|E4]; rewrite E4 in Hk; [apply (pk_add _ _ P); exact Hk|].
    apply in_app_or in Hk. destruct Hk as [Hk|[<-|[]]]; [apply (pk_add _ _ P); exact Hk|right; reflexivity].
  - destruct E4 as [E4|E4]; rewrite E4; [apply P|]. apply NoDup_snoc; [apply P|]. apply (pk_todo_add _ _ P). left; reflexivity.
  - intros q Hin Hk. destruct E4 as [E4|E4]; rewrite E4 in Hk; [apply (pk_todo_add _ _ P q); [right; exact Hin|exact Hk]|].
    apply in_app_or in Hk. destruct Hk as [Hk|[Hk|[]]]; [apply (pk_todo_add _ _ P q); [right; exact Hin|exact Hk]|].
    inversion Hk; subst. contradiction.
  - intros q qu' Hin Hg. assert (Hne : q <> qn) by (intros ->; contradiction). rewrite (E5 q Hne) in Hg.
    assert (Hd : q_id qu <> q_id qu').
    { eapply (get_queue_ids_distinct s qn q); eauto. rewrite (pk_qids _ _ P). apply H0. }
    intros Hx. apply In_cnt in Hx. rewrite Hc in Hx. destruct (q_id qu =? q_id qu') eqn:E; [apply N.eqb_eq in E; contradiction|].
    apply (pk_todo _ _ P q qu'); [right; exact Hin|exact Hg|]. apply In_cnt. lia.
Qed.

Lemma PK_weaken Q Q' s : (forall q, In q Q' -> In q Q) -> PK Q s -> PK Q' s.
Proof. intros Hs P. constructor; try apply P. - intros q Hin. apply (pk_todo_add _ _ P). auto. - intros q qu Hin. apply (pk_todo _ _ P). auto. Qed.

Lemma get_queue_add_confirm s c0 h0 t qn : get_queue (add_confirm s c0 h0 t) qn = get_queue s qn.
Proof. apply get_queue_same_queues. apply queues_add_confirm. Qed.

Lemma PK_push_one pers hm qn Q s : ~ In qn Q -> PK (qn :: Q) s -> PK Q (push_one s c h u pers hm qn).
Proof.
  intros Hni P. unfold push_one. pose proof (PK_push qn Q s Hni P) as P1.
  destruct (get_msg (queue_push s qn u) u) as [m|]; [|exact P1]. destruct (_ && _ && _); [|exact P1].
  eapply PK_FR; [intros q; apply get_queue_add_confirm|apply FR_add_confirm|exact P1].
Qed.

Lemma PK_fold pers hm qs : forall s, NoDup qs -> PK qs s -> PK [] (fold_left (fun s qn => push_one s c h u pers hm qn) qs s).
Proof.
  induction qs as [|qn t IH]; intros s Hn P; cbn [fold_left]; [exact P|]. inversion Hn as [|? ? Hni Hn']; subst.
  apply IH; [exact Hn'|]. apply PK_push_one; assumption.
Qed.

Lemma PK_route fx : PK [] (fst (route_and_push fx s0 c h u)).
Proof.
  unfold route_and_push. destruct (get_msg s0 u) as [m|]; [|apply PK_init].
  destruct (alookup _ _ _) as [ex|]; cbn [fst].
  2:{ eapply PK_FR; [intros q; apply get_queue_add_confirm|apply FR_add_confirm|apply PK_init]. }
  pose proof (matched_queues_nodup (negb (fx_direct_all fx)) ex (m_key m)) as Hnd.
  destruct (matched_queues _ _ _) as [|q1 qs] eqn:Em; cbn [fst].
  { eapply PK_FR; [intros q; apply get_queue_add_confirm|apply FR_add_confirm|apply PK_init]. }
  apply PK_fold; [exact Hnd|].
  destruct (_ && _)%bool; [|apply PK_init].
  eapply PK_FR; [intros q; apply get_queue_same_queues; apply queues_upd_msg|apply FR_upd_msg|apply PK_init].
Qed.
End Publish.

(* the current message of channel (c,h) *)
Definition curat (c h : N) (v : option N) (s : state) : Prop := exists ch, get_chan s c h = Some ch /\ ch_cur ch = v.
Lemma curat_same_conns c h v s s' : conns s' = conns s -> curat c h v s -> curat c h v s'.
Proof. intros E (ch & A & B). exists ch. rewrite (get_chan_same_conns _ _ _ _ E). auto. Qed.
Lemma curat_add_confirm c h v s c0 h0 t : curat c h v s -> curat c h v (add_confirm s c0 h0 t).
Proof.
  intros (ch & A & B). unfold add_confirm. destruct (get_chan s c0 h0) as [ch0|] eqn:E0; [|exists ch; auto].
  destruct (negb _); [exists ch; auto|]. destruct (ch_status ch0); try (exists ch; auto; fail);
  destruct t as [[[? ?] ?]|]; try (exists ch; auto; fail).
  all: unfold curat; rewrite get_chan_set_chan; pose proof (get_chan_conn _ _ _ _ E0) as Hc; destruct (get_conn s c0); [|congruence].
  all: destruct ((c =? c0) && (h =? h0)) eqn:Eb; [|exists ch; auto].
  all: apply andb_prop in Eb; destruct Eb as [E1 E2]; apply N.eqb_eq in E1, E2; subst; rewrite E0 in A; inversion A; subst.
  all: eexists; split; [reflexivity|first [exact B|reflexivity]].
Qed.
Lemma curat_route fx c h v s c0 h0 u : curat c h v s -> curat c h v (fst (route_and_push fx s c0 h0 u)).
Proof.
  intros H. unfold route_and_push. destruct (get_msg s u) as [m|]; [|exact H].
  destruct (alookup _ _ _) as [ex|]; cbn [fst]; [|apply curat_add_confirm; exact H].
  destruct (matched_queues _ _ _) as [|q1 qs]; cbn [fst]; [apply curat_add_confirm; exact H|].
  apply fold_left_preserves.
  - intros s1 qn H1. unfold push_one.
    assert (H2 : curat c h v (queue_push s1 qn u)) by (eapply curat_same_conns; [apply (proj1 conns_queue_ops)|exact H1]).
    destruct (get_msg _ u); [|exact H2]. destruct (_ && _ && _); [apply curat_add_confirm|]; exact H2.
  - destruct (_ && _)%bool; [|exact H]. eapply curat_same_conns; [apply conns_upd_msg|exact H].
Qed.

Lemma In_cur_of_chan s c h ch u : get_chan s c h = Some ch -> ch_cur ch = Some u -> In u (all_cur s).
Proof.
  intros Hg E. destruct (all_ch_set_chan cur_l s c h ch ch Hg) as (X & Y & E1 & _). unfold all_cur. rewrite E1.
  apply in_or_app. right. apply in_or_app. left. unfold cur_l. rewrite E. left. reflexivity.
Qed.

Lemma HI_finish_publish fx s c h u :
  fx_clear_current fx = true -> HI s -> curat c h (Some u) s -> HI (fst (finish_publish fx s c h u)).
Proof.
  intros Hfx H (ch & Hg & Ecur). pose proof (In_cur_of_chan s c h ch u Hg Ecur) as Hu.
  unfold finish_publish. pose proof (PK_route c h u s H Hu fx) as P. pose proof (route_keeps fx s c h u) as [RK1 RK2].
  pose proof (curat_route fx c h (Some u) s c h u (ex_intro _ ch (conj Hg Ecur))) as (ch1 & Hg1 & Ecur1).
  destruct (route_and_push fx s c h u) as [s1 e1]. cbn [fst] in *. rewrite Hfx.
  unfold upd_chan. rewrite Hg1. set (s2 := set_chan s1 c h (ch1 <| ch_cur := None |>)).
  destruct (next_set_chan s1 c h (ch1 <| ch_cur := None |>)) as (N1 & N2 & N3 & N4 & NQ). fold s2 in N1, N2, N3, N4, NQ.
  assert (Hh : forall qid x, cnt x (held s2 qid) = cnt x (held s1 qid)).
  { intros qid x. pose proof (cnt_held_set_chan s1 c h ch1 (ch1 <| ch_cur := None |>) Hg1 qid x) as Hc. unfold s2.
    change (uq qid (ch1 <| ch_cur := None |>)) with (uq qid ch1) in Hc. lia. }
  assert (Hc : forall x, (cnt x (all_cur s2) + cnt x [u] = cnt x (all_cur s))%nat).
  { intros x. pose proof (cnt_cur_set_chan s1 c h ch1 (ch1 <| ch_cur := None |>) Hg1 x) as Hc. unfold s2.
    unfold cur_l in Hc. rewrite Ecur1 in Hc. cbn [ch_cur set] in Hc. rewrite cnt_nil in Hc. rewrite (pk_cur _ _ _ _ P) in Hc. lia. }
  assert (Hin : forall qid x, In x (held s2 qid) -> In x (held s1 qid)) by (intros qid x Hx; apply In_cnt; apply In_cnt in Hx; rewrite Hh in Hx; exact Hx).
  assert (Hcin : forall x, In x (all_cur s2) -> In x (all_cur s) /\ x <> u).
  { intros x Hx. apply In_cnt in Hx. specialize (Hc x). pose proof (proj1 (NoDup_cnt _) (hi_cur_nodup _ H) x) as Hn.
    rewrite cnt_one in Hc. split; [apply In_cnt; lia|]. intros ->. destruct (N.eq_dec u u); [lia|congruence]. }
  assert (Hst : forall k, In k (st_add s2) -> In k (st_add s) \/ fst k = u) by (intros k Hk; rewrite N3 in Hk; apply (pk_add _ _ _ _ P); exact Hk).
  constructor.
  - intros qid. apply NoDup_cnt. intros x. rewrite Hh. apply NoDup_cnt. apply P.
  - apply NoDup_cnt. intros x. specialize (Hc x). pose proof (proj1 (NoDup_cnt _) (hi_cur_nodup _ H) x). lia.
  - intros x qid Hx Hy. apply Hcin in Hx. destruct Hx as [Hx Hne]. apply Hin in Hy. apply (pk_held _ _ _ _ P) in Hy.
    destruct Hy as [Hy|[Hy _]]; [exact (hi_cur_fresh _ H x qid Hx Hy)|contradiction].
  - intros x Hx. apply Hcin in Hx. rewrite N1, (pk_uid _ _ _ _ P). apply (hi_cur_lt _ H). tauto.
  - intros qid x Hx. apply Hin in Hx. apply (pk_held _ _ _ _ P) in Hx. rewrite N1, (pk_uid _ _ _ _ P).
    destruct Hx as [Hx|[-> _]]; [apply (hi_held_lt _ H qid); exact Hx|apply (hi_cur_lt _ H); exact Hu].
  - rewrite (qids_same_queues _ _ NQ), (pk_qids _ _ _ _ P). apply H.
  - intros i. rewrite (qids_same_queues _ _ NQ), (pk_qids _ _ _ _ P), N2, (pk_qid _ _ _ _ P). apply (hi_qids_lt _ H).
  - intros qid x Hx. apply Hin in Hx. apply (pk_held _ _ _ _ P) in Hx. rewrite N2, (pk_qid _ _ _ _ P).
    destruct Hx as [Hx|[_ Hx]]; [apply (hi_held_qid _ H qid x); exact Hx|apply (hi_qids_lt _ H); exact Hx].
  - intros k Hk. rewrite N1, (pk_uid _ _ _ _ P). unfold store in Hk. apply in_app_or in Hk. destruct Hk as [Hk|Hk].
    + apply Hst in Hk. destruct Hk as [Hk| ->]; [apply (hi_store_lt _ H); unfold store; apply in_or_app; auto|apply (hi_cur_lt _ H); exact Hu].
    + rewrite N4, (pk_db _ _ _ _ P) in Hk. apply (hi_store_lt _ H). unfold store. apply in_or_app. auto.
  - rewrite N3. apply P.
  - rewrite N4, (pk_db _ _ _ _ P). apply H.
  - intros x k Hx Hk. apply Hcin in Hx. destruct Hx as [Hx Hne]. unfold store in Hk. apply in_app_or in Hk. destruct Hk as [Hk|Hk].
    + apply Hst in Hk. destruct Hk as [Hk|Hk]; [|congruence]. apply (hi_cur_add _ H x k Hx). unfold store. apply in_or_app. auto.
    + rewrite N4, (pk_db _ _ _ _ P) in Hk. apply (hi_cur_add _ H x k Hx). unfold store. apply in_or_app. auto.
  - intros k Hk Ha. rewrite N4, (pk_db _ _ _ _ P) in Hk. apply Hst in Ha. destruct Ha as [Ha|Ha]; [exact (hi_db_add _ H k Hk Ha)|].
    apply (hi_cur_add _ H u k Hu); [unfold store; apply in_or_app; auto|exact Ha].
  - rewrite (nmv_same_queues _ _ NQ), RK1. apply H.
Qed.

(* basic.publish: a fresh id becomes the channel's current message *)
Lemma HI_publish s c h ch ch' m :
  HI s -> get_chan s c h = Some ch -> ch_unacked ch' = ch_unacked ch ->
  HI (set_chan (s <| heap := aset N.eqb (next_uid s) m (heap s) |> <| next_uid := next_uid s + 1 |>) c h (ch' <| ch_cur := Some (next_uid s) |>)).
Proof.
  intros H Hg Eu. set (s0 := s <| heap := aset N.eqb (next_uid s) m (heap s) |> <| next_uid := next_uid s + 1 |>).
  assert (Hg0 : get_chan s0 c h = Some ch) by exact Hg.
  set (s' := set_chan s0 c h _).
  destruct (next_set_chan s0 c h (ch' <| ch_cur := Some (next_uid s) |>)) as (N1 & N2 & N3 & N4 & NQ). fold s' in N1, N2, N3, N4, NQ.
  assert (Hh : forall qid x, cnt x (held s' qid) = cnt x (held s qid)).
  { intros qid x. pose proof (cnt_held_set_chan s0 c h ch (ch' <| ch_cur := Some (next_uid s) |>) Hg0 qid x) as Hc. unfold s'.
    unfold uq in Hc. cbn [ch_unacked set] in Hc. rewrite Eu in Hc. rewrite (held_same s s0 qid) in Hc by reflexivity. lia. }
  assert (Hc : forall x, (cnt x (all_cur s') <= cnt x (all_cur s) + cnt x [next_uid s])%nat).
  { intros x. pose proof (cnt_cur_set_chan s0 c h ch (ch' <| ch_cur := Some (next_uid s) |>) Hg0 x) as Hc. unfold s'.
    rewrite (all_cur_same s s0) in Hc by reflexivity. change (cur_l (ch' <| ch_cur := Some (next_uid s) |>)) with [next_uid s] in Hc. lia. }
  assert (Hfresh : cnt (next_uid s) (all_cur s) = 0%nat).
  { apply notIn_cnt. intros Hx. pose proof (hi_cur_lt _ H _ Hx). lia. }
  apply (HI_mono s s' H).
  - intros qid x. rewrite Hh. lia.
  - rewrite N1. cbn. lia.
  - rewrite N2. cbn. lia.
  - apply NoDup_cnt. intros x. specialize (Hc x). rewrite cnt_one in Hc. pose proof (proj1 (NoDup_cnt _) (hi_cur_nodup _ H) x).
    destruct (N.eq_dec (next_uid s) x) as [<-|]; lia.
  - intros x Hx. apply In_cnt in Hx. specialize (Hc x). rewrite cnt_one in Hc. rewrite N1. cbn [next_uid set s0].
    destruct (N.eq_dec (next_uid s) x) as [<-|]; [right; lia|left; apply In_cnt; lia].
  - rewrite (qids_same_queues _ _ NQ). apply H.
  - intros i. rewrite (qids_same_queues _ _ NQ). auto.
  - intros k Hk. left. unfold store in *. rewrite N3, N4 in Hk. exact Hk.
  - rewrite N3. auto.
  - rewrite N3. apply H.
  - rewrite N4. apply H.
  - rewrite (nmv_same_queues _ _ NQ). apply H.
  - rewrite N3, N4. apply H.
Qed.

Lemma names_nmv s : map fst (nmv s) = map fst (queues s).
Proof. unfold nmv. rewrite map_map. reflexivity. Qed.
Lemma alookup_none_notin {V} k (l : list (string * V)) : alookup seqb k l = None -> ~ In k (map fst l).
Proof.
  induction l as [|[k' v] t IH]; cbn; [tauto|]. destruct (seqb k k') eqn:E; [discriminate|]. intros H [->|Hin]; [|exact (IH H Hin)].
  rewrite (proj2 (seqb_spec k k) eq_refl) in E. discriminate.
Qed.
Lemma names_set_queue s qn qu' : NoDup (map fst (nmv s)) -> NoDup (map fst (nmv (set_queue s qn qu'))).
Proof.
  rewrite !names_nmv. unfold set_queue. cbn [queues set]. intros Hn. destruct (alookup seqb qn (queues s)) as [qu|] eqn:Eq.
  - destruct (aset_split seqb seqb_spec qn qu' qu (queues s) Eq) as (l1 & l2 & E1 & E2). rewrite E2. rewrite E1 in Hn.
    rewrite map_app in *. exact Hn.
  - rewrite (aset_none seqb qn qu' _ Eq), map_app. cbn [map fst]. apply NoDup_snoc; [exact Hn|]. apply alookup_none_notin. exact Eq.
Qed.

(* queue.declare of a new queue: a fresh object id, nothing waiting *)
Lemma HI_declare s name qu' :
  HI s -> q_id qu' = next_qid s -> q_ready qu' = [] ->
  (forall qu, get_queue s name = Some qu -> True) ->
  HI (set_queue (s <| next_qid ::= N.succ |>) name qu').
Proof.
  intros H Eid Erd _. set (s0 := s <| next_qid ::= N.succ |>). set (s' := set_queue s0 name qu').
  assert (Hr : forall qid x, (cnt x (ready_of s' qid) <= cnt x (ready_of s qid))%nat /\
                             (cnt qid (qids s') <= cnt qid (qids s) + cnt qid [next_qid s])%nat).
  { intros qid x. destruct (get_queue s0 name) as [qu|] eqn:Hq.
    - destruct (qv_set_queue s0 name qu qu' Hq) as (X & Y & E1 & E2). fold s' in E2.
      change (qv s0) with (qv s) in E1. unfold qids. rewrite !ready_of_qv, E1, E2, !cnt_flat_mid, !map_app. cbn [map].
      rewrite !cnt_app, !cnt_cons. unfold rdy, qk. cbn [fst snd]. rewrite Eid, Erd, cnt_nil.
      split; [destruct (next_qid s =? qid); rewrite ?cnt_nil; lia|]. destruct (N.eq_dec (next_qid s) qid); lia.
    - pose proof (qv_set_queue_new s0 name qu' Hq) as E2. fold s' in E2. change (qv s0) with (qv s) in E2.
      unfold qids. rewrite !ready_of_qv, E2, flat_map_app, map_app, !cnt_app. cbn [flat_map map]. unfold rdy, qk. cbn [fst snd].
      rewrite Eid, Erd. split; [destruct (next_qid s =? qid); rewrite ?app_nil_r, ?cnt_nil; lia|lia]. }
  assert (Hfresh : cnt (next_qid s) (qids s) = 0%nat).
  { apply notIn_cnt. intros Hx. pose proof (hi_qids_lt _ H _ Hx). lia. }
  apply (HI_mono s s' H).
  - intros qid x. unfold held. rewrite !cnt_app. rewrite (unacked_of_same_conns s s') by reflexivity. destruct (Hr qid x). lia.
  - cbn. lia.
  - cbn. lia.
  - rewrite (all_cur_same s s') by reflexivity. apply H.
  - intros u Hu. left. rewrite (all_cur_same s s') in Hu by reflexivity. exact Hu.
  - apply NoDup_cnt. intros i. destruct (Hr i 0) as [_ Hi]. rewrite cnt_one in Hi. pose proof (proj1 (NoDup_cnt _) (hi_qids_nodup _ H) i).
    destruct (N.eq_dec (next_qid s) i) as [<-|]; lia.
  - intros i Hi. apply In_cnt in Hi. destruct (Hr i 0) as [_ Hc]. rewrite cnt_one in Hc. cbn [next_qid set s' s0 set_queue].
    destruct (N.eq_dec (next_qid s) i) as [<-|]; [right; lia|left; apply In_cnt; lia].
  - intros k Hk. left. exact Hk.
  - auto.
  - apply H.
  - apply H.
  - apply (names_set_queue s0). apply H.
  - apply H.
Qed.

Lemma NoDup_app' {A} (l1 l2 : list A) : NoDup l1 -> NoDup l2 -> (forall x, In x l1 -> ~ In x l2) -> NoDup (l1 ++ l2).
Proof.
  induction l1 as [|a t IH]; intros N1 N2 Hd; cbn; [exact N2|]. inversion N1; subst. constructor.
  - intros Hin. apply in_app_or in Hin. destruct Hin as [Hin|Hin]; [contradiction|]. apply (Hd a); [left; reflexivity|exact Hin].
  - apply IH; auto. intros x Hx. apply Hd. right. exact Hx.
Qed.

Lemma kin_spec (k : N * string) l : existsb (fun d : N * string => (fst d =? fst k) && seqb (snd d) (snd k)) l = true <-> In k l.
Proof.
  rewrite existsb_exists. split.
  - intros ([a b] & Hin & E). apply andb_prop in E. destruct E as [E1 E2]. apply N.eqb_eq in E1. apply seqb_spec in E2.
    destruct k as [a' b']. cbn [fst snd] in *. subst. exact Hin.
  - intros Hin. exists k. split; [exact Hin|]. rewrite N.eqb_refl, (proj2 (seqb_spec _ _) eq_refl). reflexivity.
Qed.
Lemma kin_spec' (k : N * string) l : existsb (fun d : N * string => (fst k =? fst d) && seqb (snd k) (snd d)) l = true <-> In k l.
Proof.
  rewrite existsb_exists. split.
  - intros ([a b] & Hin & E). apply andb_prop in E. destruct E as [E1 E2]. apply N.eqb_eq in E1. apply seqb_spec in E2.
    destruct k as [a' b']. cbn [fst snd] in *. subst. exact Hin.
  - intros Hin. exists k. split; [exact Hin|]. rewrite N.eqb_refl, (proj2 (seqb_spec _ _) eq_refl). reflexivity.
Qed.

(* what the persist tick writes is the effective store *)
Lemma tick_db_eff cfg fx s k : In k (st_db (fst (step cfg fx s LPersistTick))) -> eff s k.
Proof.
  cbn [step fst].
  match goal with |- In k (st_db (fold_left ?F ?L ?S1)) -> _ => set (s1 := S1);
    assert (E : st_db (fold_left F L s1) = st_db s1) by (apply (nexts_FR s1); apply FR_fold; intros; apply FR_store_confirm); rewrite E end.
  subst s1. cbn [st_db set]. intros Hk. apply filter_In in Hk. destruct Hk as [Hk Hd]. apply Bool.negb_true_iff in Hd.
  apply in_app_or in Hk. destruct Hk as [Hk|Hk].
  - left. split; [exact Hk|]. destruct (existsb (fun d : N * string => (fst k =? fst d) && seqb (snd k) (snd d)) (st_add s)) eqn:Ea.
    + right. apply kin_spec'. exact Ea.
    + left. intros Hdel. assert (Hx : existsb (fun d : N * string => (fst d =? fst k) && seqb (snd d) (snd k))
         (filter (fun d : N * string => negb (existsb (fun k0 : N * string => (fst d =? fst k0) && seqb (snd d) (snd k0)) (st_add s))) (st_del s)) = true).
      { apply kin_spec. apply filter_In. split; [exact Hdel|]. rewrite Ea. reflexivity. }
      congruence.
  - right. apply filter_In in Hk. destruct Hk as [Hk _]. apply filter_In in Hk. destruct Hk as [Hk Hn]. split; [exact Hk|].
    apply Bool.negb_true_iff in Hn. intros Hdel. apply kin_spec in Hdel. congruence.
Qed.

(* msgstorage.persist *)
Lemma HB_persist_tick cfg fx s : HB s (fst (step cfg fx s LPersistTick)).
Proof.
  cbn [step fst].
  match goal with |- HB s (fold_left ?F ?L ?S1) => set (s1 := S1); apply (HB_trans s s1); [|apply HB_FR; apply FR_fold; intros; apply FR_store_confirm] end.
  assert (Hdb : forall k, In k (st_db s1) -> In k (st_db s) \/ In k (st_add s)).
  { intros k Hk. subst s1. cbn [st_db set] in Hk. apply filter_In in Hk. destruct Hk as [Hk _]. apply in_app_or in Hk.
    destruct Hk as [Hk|Hk]; [auto|]. apply filter_In in Hk. destruct Hk as [Hk _]. apply filter_In in Hk. tauto. }
  split; [constructor|].
  - intros qid. rewrite (held_same s s1 qid) by reflexivity. apply le_ms_refl.
  - rewrite (all_cur_same s s1) by reflexivity. apply le_ms_refl.
  - cbn. lia.
  - cbn. lia.
  - intros k Hk. left. unfold store in *. cbn [st_add] in Hk. change (st_add s1) with (@nil (N * string)) in Hk. cbn [app] in Hk.
    apply Hdb in Hk. apply in_or_app. tauto.
  - intros k Hk. change (st_add s1) with (@nil (N * string)) in Hk. destruct Hk.
  - intros N1 N2. split; [change (st_add s1) with (@nil (N * string)); constructor|].
    subst s1. cbn [st_db set]. apply NoDup_filter. apply NoDup_app'; [exact N2|apply NoDup_filter; apply NoDup_filter; exact N1|].
    intros k Hk Hf. apply filter_In in Hf. destruct Hf as [_ Hf]. apply Bool.negb_true_iff in Hf.
    assert (Hex : existsb (fun d => (fst d =? fst k) && seqb (snd d) (snd k)) (st_db s) = true).
    { apply existsb_exists. exists k. split; [exact Hk|]. rewrite N.eqb_refl. rewrite (proj2 (seqb_spec _ _) eq_refl). reflexivity. }
    congruence.
  - split; [rewrite (qids_same_queues s s1) by reflexivity; apply le_ms_refl|]. constructor.
    + intros p Hp. exact Hp.
    + auto.
    + intros k Hk. left. apply (tick_db_eff cfg fx s k).
      assert (E : st_db (fst (step cfg fx s LPersistTick)) = st_db s1).
      { cbn [step fst]. fold s1. apply (nexts_FR s1). apply FR_fold. intros; apply FR_store_confirm. }
      rewrite E. unfold eff in Hk. change (st_add s1) with (@nil (N * string)) in Hk. destruct Hk as [[Hk _]|[[] _]]. exact Hk.
    + intros _ k _. change (st_add s1) with (@nil (N * string)). intros [].
Qed.

(* restart: nothing is out with a consumer; each durable queue holds its stored keys *)
Lemma NoDup_stored l qn : NoDup l -> NoDup (map fst (filter (fun k : N * string => seqb (snd k) qn) l)).
Proof.
  induction l as [|[a b] t IH]; intros Hn; cbn [filter map snd]; [constructor|]. inversion Hn as [|? ? Hni Hn']; subst.
  destruct (seqb b qn) eqn:E; [|apply IH; exact Hn']. cbn [map fst]. constructor; [|apply IH; exact Hn'].
  intros Hin. apply in_map_iff in Hin. destruct Hin as ([a' b'] & E1 & Hf). apply filter_In in Hf. destruct Hf as [Hf E2]. cbn [fst snd] in *.
  apply seqb_spec in E, E2. subst. contradiction.
Qed.

Lemma NoDup_flat_pick {A} (f : A -> N) (g : A -> list N) qid l :
  NoDup (map f l) -> (forall a, NoDup (g a)) -> NoDup (flat_map (fun a => if f a =? qid then g a else []) l).
Proof.
  induction l as [|a t IH]; intros Hn Hg; cbn [flat_map]; [constructor|]. cbn [map] in Hn. inversion Hn as [|? ? Hni Hn']; subst.
  destruct (f a =? qid) eqn:E; [|cbn; apply IH; auto].
  apply N.eqb_eq in E. assert (Ht : flat_map (fun a0 => if f a0 =? qid then g a0 else []) t = []).
  { clear - Hni E. induction t as [|b r IHr]; cbn [flat_map]; [reflexivity|]. destruct (f b =? qid) eqn:Eb.
    - apply N.eqb_eq in Eb. exfalso. apply Hni. left. congruence.
    - cbn. apply IHr. intros Hx. apply Hni. right. exact Hx. }
  rewrite Ht, app_nil_r. apply Hg.
Qed.

Lemma HI_restart cfg s : HI s -> HI (fst (restart cfg s)).
Proof.
  intros H. unfold restart. cbn [fst].
  set (durq := filter (fun kv : string * queue => q_durable (snd kv)) (queues s)).
  match goal with |- HI ?S => set (s' := S) end.
  assert (Ecur : all_cur s' = []) by reflexivity.
  assert (Eun : forall qid, unacked_of s' qid = []) by reflexivity.
  assert (Erd : forall qid, ready_of s' qid = flat_map (fun kv : string * queue => if q_id (snd kv) =? qid then stored_of s (fst kv) else []) durq).
  { clear Ecur Eun. intros qid. unfold ready_of. subst s'. cbn [queues]. clearbody durq. induction durq as [|a t IH]; cbn [map flat_map]; [reflexivity|]. rewrite IH. reflexivity. }
  assert (Eq : qids s' = map (fun kv : string * queue => q_id (snd kv)) durq).
  { rewrite qids_map. subst s'. cbn [queues]. rewrite map_map. reflexivity. }
  assert (Hnq : NoDup (map (fun kv : string * queue => q_id (snd kv)) durq)).
  { subst durq. apply NoDup_map_filter. rewrite <- qids_map. apply H. }
  assert (Hst : forall qn, NoDup (stored_of s qn)).
  { intros qn. destruct (restart_messages s qn) as [Hp _]. eapply Permutation_NoDup; [apply Permutation_sym; exact Hp|]. apply NoDup_stored. apply H. }
  assert (Hheld : forall qid x, In x (held s' qid) -> (exists qn, In (x, qn) (st_db s)) /\ In qid (qids s)).
  { intros qid x Hx. unfold held in Hx. rewrite Eun, app_nil_r, Erd in Hx. apply in_flat_map in Hx. destruct Hx as (kv & Hkv & Hx).
    destruct (q_id (snd kv) =? qid) eqn:E; [|destruct Hx]. apply N.eqb_eq in E. split.
    - destruct (restart_messages s (fst kv)) as [Hp _]. apply (Permutation_in _ Hp) in Hx. apply in_map_iff in Hx.
      destruct Hx as ([a b] & E1 & Hf). apply filter_In in Hf. destruct Hf as [Hf E2]. cbn [fst snd] in *. apply seqb_spec in E2. subst. eauto.
    - subst durq. apply filter_In in Hkv. destruct Hkv as [Hkv _]. rewrite qids_map, <- E. apply (in_map (fun kq : string * queue => q_id (snd kq))). exact Hkv. }
  constructor.
  - intros qid. unfold held. rewrite Eun, app_nil_r, Erd. apply (NoDup_flat_pick (fun kv : string * queue => q_id (snd kv)) (fun kv => stored_of s (fst kv))); auto.
  - rewrite Ecur. constructor.
  - rewrite Ecur. intros u qid [].
  - rewrite Ecur. intros u [].
  - intros qid x Hx. apply Hheld in Hx. destruct Hx as [(qn & Hx) _]. change (next_uid s') with (next_uid s).
    apply (hi_store_lt _ H (x, qn)). unfold store. apply in_or_app. auto.
  - rewrite Eq. exact Hnq.
  - intros i Hi. rewrite Eq in Hi. change (next_qid s') with (next_qid s). apply (hi_qids_lt _ H). rewrite qids_map.
    apply in_map_iff in Hi. destruct Hi as (kv & <- & Hkv). subst durq. apply filter_In in Hkv. apply (in_map (fun kq : string * queue => q_id (snd kq))). tauto.
  - intros qid x Hx. apply Hheld in Hx. change (next_qid s') with (next_qid s). apply (hi_qids_lt _ H). tauto.
  - intros k Hk. change (next_uid s') with (next_uid s). unfold store in Hk. change (st_add s') with (@nil (N * string)) in Hk. cbn [app] in Hk.
    subst s'. cbn [st_db] in Hk. apply filter_In in Hk. apply (hi_store_lt _ H). unfold store. apply in_or_app. tauto.
  - change (st_add s') with (@nil (N * string)). constructor.
  - subst s'. cbn [st_db]. apply NoDup_filter. apply H.
  - rewrite Ecur. intros u k [].
  - intros k _. change (st_add s') with (@nil (N * string)). intros [].
  - rewrite names_nmv. subst s'. cbn [queues]. rewrite map_map. cbn [fst]. subst durq. apply NoDup_map_filter. rewrite <- names_nmv. apply H.
Qed.

(* ---- the method handlers ---- *)
Lemma FR_set_chan' s s0 c h ch ch' :
  FR s s0 -> conns s0 = conns s -> get_chan s c h = Some ch -> chk ch' = chk ch -> FR s (set_chan s0 c h ch').
Proof.
  intros A B C D. eapply FR_trans; [exact A|]. eapply FR_set_chan; [|exact D]. rewrite (get_chan_same_conns _ _ _ _ B). exact C.
Qed.

Lemma uq_orphan qid tag ch : uq qid (ch <| ch_unacked ::= map (orphan tag) |>) = uq qid ch.
Proof.
  unfold uq. cbn [ch_unacked set]. induction (ch_unacked ch) as [|a t IH]; cbn [map filter]; [reflexivity|].
  destruct (orphan_fields tag a) as (_ & Em & Eq & _). rewrite Eq. destruct (u_qid a =? qid); cbn [map]; rewrite ?Em, IH; reflexivity.
Qed.

Lemma HI_conn_close cfg fx s c : CI s -> HI s -> HI (fst (conn_close cfg fx s c)).
Proof. intros Hci H. eapply HI_HB; [exact H|apply HB_conn_close; exact Hci]. Qed.

Lemma HI_FR s s' : HI s -> FR s s' -> HI s'.
Proof. intros H E. eapply HI_HB; [exact H|apply HB_FR; exact E]. Qed.

Lemma HI_handle_method cfg fx s c h m : CI s -> HI s -> HI (fst (fst (handle_method cfg fx s c h m))).
Proof.
  intros Hci H.
  destruct m; try (destruct (get_effect cfg fx s c h q noack) as [[E _]|(qu & u & rest & dtag & _ & _ & _ & D & _)];
                   [eapply HI_FR; eauto|eapply HI_HB; [exact H|eapply HB_delivered; exact D]]; fail).
  all: unfold handle_method.
  all: destruct (get_chan s c h) as [ch|] eqn:Hch; [|exact H].
  all: unfold ok, refuse.
  - (* MChannelOpen *)
    destruct (ch_status ch); cbn [fst]; auto.
    + eapply HI_FR; [exact H|]. eapply FR_set_chan; [exact Hch|reflexivity].
    + eapply HI_FR; [exact H|]. eapply FR_set_chan; [exact Hch|reflexivity].
    + eapply HI_HB; [exact H|]. apply (HB_set_chan s c h ch); [exact Hch| |].
      * destruct (fx_reopen_resets fx); [apply le_ms_nil|apply le_ms_refl].
      * intros qid. destruct (fx_reopen_resets fx); [apply le_ms_nil|apply le_ms_refl].
  - cbn [fst]. eapply HI_HB; [exact H|apply HB_channel_close; exact Hci].
  - cbn [fst]. destruct (fx_closeok_releases fx); [eapply HI_HB; [exact H|apply HB_channel_close; exact Hci]|].
    eapply HI_FR; [exact H|]. eapply FR_set_chan; [exact Hch|reflexivity].
  - cbn [fst]. destruct (Bool.eqb _ _); auto. destruct a; (eapply HI_FR; [exact H|]; eapply FR_set_chan; [exact Hch|reflexivity]).
  - destruct (extype_of type); [|exact H].
    repeat match goal with |- context [if ?b then _ else _] => destruct b end; cbn [fst]; auto.
    all: repeat match goal with |- context [match ?x with _ => _ end] => destruct x end; cbn [fst]; auto.
    all: try (eapply HI_FR; [exact H|apply FR_same; reflexivity]).
  - destruct (fx_not_impl fx); exact H.
  - (* MQDeclare *)
    destruct (seqb name ""); [exact H|].
    destruct (queue_found s name) as [qu|].
    + repeat match goal with |- context [if ?b then _ else _] => destruct b end; cbn [fst]; auto.
    + destruct passive; [destruct nowait; exact H|]. cbn [fst].
      match goal with |- HI (@set _ _ _ _ _ ?s1) => apply (HI_FR s1); [|apply FR_same; reflexivity] end. apply HI_declare; auto.
  - destruct (alookup _ _ _); [|exact H]. destruct (seqb ex ""); [exact H|].
    destruct (queue_found s q); [|exact H]. destruct (locked _ _); [exact H|]. destruct (bad_xmatch _); [exact H|]. destruct (extype_eqb _ ExTopic && bad_pattern _)%bool; [exact H|]. cbn [fst].
    eapply HI_FR; [exact H|apply FR_same; reflexivity].
  - destruct (alookup _ _ _); [|exact H]. destruct (queue_found s q); [|exact H]. destruct (locked _ _); [exact H|]. destruct (bad_xmatch _); [exact H|]. destruct (extype_eqb _ ExTopic && bad_pattern _)%bool; [exact H|]. cbn [fst].
    eapply HI_FR; [exact H|apply FR_same; reflexivity].
  - (* MQPurge *)
    destruct (queue_found s q) as [qu|] eqn:Eqf; [|exact H]. apply queue_found_get' in Eqf. destruct (locked _ _); [exact H|]. cbn [fst].
    eapply HI_HB; [exact H|].
    match goal with |- HB s (set_queue ?s2 q ?qu') => apply (HB_trans s s2) end.
    + match goal with |- HB s (@set _ _ _ _ _ (@set _ _ _ _ _ ?s1)) => apply (HB_trans s s1); [|apply HB_FR; apply FR_same; reflexivity] end.
      destruct (q_durable qu); [apply HB_store_purge|apply HB_refl].
    + apply (HB_set_queue _ q qu); [destruct (q_durable qu); exact Eqf|reflexivity|apply le_ms_nil].
  - (* MQDelete *)
    destruct (queue_found s q); [|exact H]. destruct (locked _ _); [exact H|].
    pose proof (HB_vhost_delete_queue (negb (fx_delete_checks_first fx)) s q ifunused ifempty) as Hd.
    destruct (vhost_delete_queue _ s q ifunused ifempty) as [[s1 e1] r1]. cbn [fst] in *.
    destruct r1; cbn [fst]; (eapply HI_HB; [exact H|exact Hd]).
  - (* MQos *)
    cbn [fst]. eapply HI_FR; [exact H|]. eapply FR_trans; [|apply FR_wake_consumers].
    destruct (cfg_rabbit cfg); [destruct glob; (eapply FR_set_chan; [exact Hch|reflexivity])|].
    destruct glob; [|eapply FR_set_chan; [exact Hch|reflexivity]].
    destruct (get_conn s c) eqn:Ec; [|apply FR_refl]. eapply FR_set_conn; [exact Ec|reflexivity].
  - (* MPublish *)
    destruct imm; [exact H|]. destruct (alookup _ _ _); [|exact H].
    destruct (ch_confirm ch); cbn [fst]; (apply (HI_publish s c h ch); [exact H|exact Hch|reflexivity]).
  - (* MConsume *)
    destruct (queue_found s q) as [qu|] eqn:Eqf; [|exact H]. apply queue_found_get' in Eqf.
    destruct (fx_excl_owner fx && locked qu c); [exact H|].
    destruct (find_consumer ch _); [exact H|].
    destruct (_ && _)%bool; cbn [fst].
    + eapply HI_FR; [exact H|]. eapply FR_set_queue; [exact Eqf|reflexivity].
    + eapply HI_FR; [exact H|].
      match goal with |- FR s (set_chan ?s3 c h ?ch') => apply (FR_set_chan' s s3 c h ch ch'); [| |exact Hch|reflexivity] end.
      * match goal with |- FR s (if ?b then @set _ _ _ _ _ ?s2 else _) => assert (E2 : FR s s2) end.
        { eapply FR_trans; [|apply FR_same; reflexivity]. eapply FR_set_queue; [exact Eqf|]. rewrite q_call_consumers. destruct excl; reflexivity. }
        destruct (seqb tag ""%string); [eapply FR_trans; [exact E2|apply FR_same; reflexivity]|exact E2].
      * destruct (seqb tag ""%string); reflexivity.
  - (* MCancel *)
    destruct (find_consumer ch tag); [|exact H]. cbn [fst]. eapply HI_HB; [exact H|].
    eapply HB_trans; [|apply HB_upd_chan; [intros; apply le_ms_refl|intros ch0 qid; rewrite uq_orphan; apply le_ms_refl]].
    eapply HB_trans; [|apply HB_FR; apply FR_upd_chan; reflexivity].
    apply HB_FR. apply FR_consumer_stop.
  - (* MAck *)
    pose proof (HB_handle_ack cfg s c h tag mult) as Ha.
    destruct (handle_ack cfg s c h tag mult) as [s1 e1]. cbn [fst] in *. eapply HI_HB; eauto.
  - pose proof (HB_handle_reject cfg s c h tag mult requeue 60 120 Hci) as Ha.
    destruct (handle_reject cfg s c h tag mult requeue 60 120) as [s1 e1]. cbn [fst] in *. eapply HI_HB; eauto.
  - pose proof (HB_handle_reject cfg s c h tag false requeue 60 90 Hci) as Ha.
    destruct (handle_reject cfg s c h tag false requeue 60 90) as [s1 e1]. cbn [fst] in *. eapply HI_HB; eauto.
  - exact H.
  - cbn [fst]. eapply HI_FR; [exact H|]. eapply FR_set_chan; [exact Hch|reflexivity].
  - destruct (fx_not_impl fx); exact H.
  - exact H.
  - exact H.
  - destruct good; [cbn [fst]; eapply HI_FR; [exact H|apply FR_set_stage]|exact H].
  - destruct within; [cbn [fst]; eapply HI_FR; [exact H|apply FR_set_stage]|exact H].
  - destruct vhost_ok; [cbn [fst]; eapply HI_FR; [exact H|apply FR_set_stage]|exact H].
Qed.

(* ---- the step ---- *)
Lemma HI_apply_err s c h r : HI (fst (fst r)) -> HI (fst (apply_err s c h r)).
Proof.
  destruct r as [[s1 e1] [e|]]; cbn [fst]; auto.
  intros H. unfold apply_err. pose proof (FR_send_error s1 c h e) as Hs.
  destruct (send_error s1 c h e) as [s2 e2]. cbn [fst] in *. eapply HI_FR; eauto.
Qed.

Lemma HI_apply_err_st cfg fx opened s c h r :
  CI (fst (fst r)) -> HI (fst (fst r)) -> HI (fst (apply_err_st cfg fx opened s c h r)).
Proof.
  intros Hci H. unfold apply_err_st. destruct opened; [apply HI_apply_err; auto|].
  destruct (snd r) as [[| ]|]; try (apply HI_apply_err; auto).
  pose proof (HI_apply_err s c h r H) as H1. pose proof (CI_apply_err s c h r Hci) as C1.
  destruct (apply_err s c h r) as [s1 e1]. cbn [fst] in *.
  pose proof (HI_conn_close cfg fx s1 c C1 H1) as H2. destruct (conn_close cfg fx s1 c) as [s2 e2]. exact H2.
Qed.

Lemma FR_new_conn s c ch0 st :
  get_conn s c = None -> chk1 ch0 = [] ->
  FR s (s <| conns := aset N.eqb c {| cn_chans := [(0, ch0)]; cn_qos := qos0; cn_stage := st |} (conns s) |>).
Proof.
  intros Ec E0. split; [|split; [reflexivity|apply incl_refl]]. unfold hview. cbn [next_uid next_qid st_add st_db set]. unfold chv.
  rewrite all_ch_new_conn; [|exact Ec|cbn; rewrite E0; reflexivity]. rewrite (qv_same_queues _ s) by reflexivity. reflexivity.
Qed.

Lemma curat_ensure s c h v ch : get_chan (ensure_chan s c h) c h = Some ch -> ch_cur ch = v -> curat c h v (ensure_chan s c h).
Proof. intros A B. exists ch. auto. Qed.

Theorem holder_step cfg fx s l :
  fx_clear_current fx = true -> CI s -> HI s -> HI (fst (step cfg fx s l)).
Proof.
  intros Hfx Hci H. destruct l; cbn [step].
  - (* LConnect *)
    destruct (get_conn s c) eqn:Ec; cbn [fst]; auto. eapply HI_FR; [exact H|]. apply FR_new_conn; [exact Ec|reflexivity].
  - (* LMethod *)
    destruct (get_conn s c) as [cn0|]; [|exact H].
    destruct (negb _ && negb _)%bool; [apply HI_conn_close; auto|].
    assert (H0 : HI (ensure_chan s c h)) by (eapply HI_FR; [exact H|apply FR_ensure_chan]).
    assert (C0 : CI (ensure_chan s c h)) by (apply CI_ensure_chan; auto).
    destruct m.
    all: try (repeat match goal with |- context [if ?b then _ else _] => destruct b end;
              first [ exact H0
                    | apply HI_apply_err; first [ apply HI_handle_method; auto | exact H0 ]
                    | apply HI_apply_err_st; first [ apply CI_handle_method; auto | exact C0 | apply HI_handle_method; auto | exact H0 ] ]).
    + destruct (fx_stage fx && negb (h =? 0)); [apply HI_apply_err; exact H0|].
      pose proof (HI_conn_close cfg fx _ c C0 H0) as Hc.
      destruct (conn_close cfg fx (ensure_chan s c h) c) as [s1 e1]. exact Hc.
    + destruct (fx_stage fx && negb (h =? 0)); [apply HI_apply_err; exact H0|]. apply HI_conn_close; auto.
  - (* LHeader *)
    destruct (get_conn s c) as [cn0|]; [|exact H].
    destruct (negb _ && negb _)%bool; [apply HI_conn_close; auto|].
    assert (H0 : HI (ensure_chan s c h)) by (eapply HI_FR; [exact H|apply FR_ensure_chan]).
    assert (C0 : CI (ensure_chan s c h)) by (apply CI_ensure_chan; auto).
    destruct (get_chan _ c h) as [ch|] eqn:Ech; [|exact H0].
    destruct (_ && _)%bool; [exact H0|].
    destruct (ch_cur ch) as [u|] eqn:Ecur; [|apply HI_apply_err_st; auto].
    destruct (get_msg _ u) as [m|]; [|exact H0].
    destruct (m_has_header m); [apply HI_apply_err_st; auto|].
    assert (H1 : forall f, HI (upd_msg (ensure_chan s c h) u f)) by (intros f; eapply HI_FR; [exact H0|apply FR_upd_msg]).
    destruct (_ && _)%bool; [|apply H1].
    apply HI_finish_publish; [exact Hfx|apply H1|]. eapply curat_same_conns; [apply conns_upd_msg|]. exists ch. auto.
  - (* LBody *)
    destruct (get_conn s c) as [cn0|]; [|exact H].
    destruct (negb _ && negb _)%bool; [apply HI_conn_close; auto|].
    assert (H0 : HI (ensure_chan s c h)) by (eapply HI_FR; [exact H|apply FR_ensure_chan]).
    assert (C0 : CI (ensure_chan s c h)) by (apply CI_ensure_chan; auto).
    destruct (get_chan _ c h) as [ch|] eqn:Ech; [|exact H0].
    destruct (_ && _)%bool; [exact H0|].
    destruct (ch_cur ch) as [u|] eqn:Ecur; [|apply HI_apply_err_st; auto].
    destruct (get_msg _ u) as [m|]; [|exact H0].
    destruct (negb (m_has_header m)); [apply HI_apply_err_st; auto|].
    destruct (_ <? _).
    { apply HI_apply_err_st; cbn [fst].
      - apply allch_upd_chan; auto.
      - eapply HI_HB; [exact H0|]. apply HB_upd_chan; [intros; apply le_ms_nil|intros; apply le_ms_refl]. }
    assert (H1 : forall f, HI (upd_msg (ensure_chan s c h) u f)) by (intros f; eapply HI_FR; [exact H0|apply FR_upd_msg]).
    destruct (_ <? _); [apply H1|].
    apply HI_finish_publish; [exact Hfx|apply H1|]. eapply curat_same_conns; [apply conns_upd_msg|]. exists ch. auto.
  - (* LConsumerTurn *)
    destruct (consumer_turn_effect cfg fx s c h tag) as [[E _]|(ch & cm & qu & u & rest & dtag & _ & _ & _ & _ & D & _)].
    + eapply HI_FR; eauto.
    + eapply HI_HB; [exact H|eapply HB_delivered; exact D].
  - (* LQueueLoop *) cbn [fst]. eapply HI_FR; [exact H|apply FR_queue_loop_turn].
  - (* LAutoDelete *)
    destruct (autodel s) as [|qn rest]; [exact H|].
    assert (H0 : HI (s <| autodel := rest |>)) by (eapply HI_FR; [exact H|apply FR_same; reflexivity]).
    destruct (get_queue _ qn) as [qu0|]; [|exact H0]. destruct (q_autodel qu0); [|exact H0].
    pose proof (HB_vhost_delete_queue (negb (fx_delete_checks_first fx)) (s <| autodel := rest |>) qn true false) as Hd.
    destruct (vhost_delete_queue _ (s <| autodel := rest |>) qn true false) as [[s1 e1] r1]. cbn [fst] in *. eapply HI_HB; eauto.
  - (* LPersistTick *) eapply HI_HB; [exact H|exact (HB_persist_tick cfg fx s)].
  - (* LRelay *)
    destruct (relay s) as [|u rest]; [exact H|].
    assert (H0 : HI (s <| relay := rest |>)) by (eapply HI_FR; [exact H|apply FR_same; reflexivity]).
    destruct (get_msg _ u) as [m|]; cbn [fst]; auto.
    destruct (m_conf m) as [[[? ?] ?]|]; cbn [fst]; auto. eapply HI_FR; [exact H0|apply FR_add_confirm].
  - (* LConfirmTick *)
    destruct (get_chan s c h) as [ch|] eqn:Ech; [|exact H]. destruct (negb _); [exact H|].
    destruct (ch_status ch); cbn [fst]; (eapply HI_FR; [exact H|]; eapply FR_set_chan; [exact Ech|reflexivity]).
  - (* LSocketLoss *)
    pose proof (HI_conn_close cfg fx s c Hci H) as Hc. destruct (conn_close cfg fx s c) as [s1 e1]. exact Hc.
  - (* LAccept *)
    destruct (get_conn s c) eqn:Ec; cbn [fst]; auto. eapply HI_FR; [exact H|]. apply FR_new_conn; [exact Ec|reflexivity].
  - (* LBadMethod *)
    destruct (get_conn s c) as [cn0|]; [|exact H].
    destruct (negb _ && negb _)%bool; [apply HI_conn_close; auto|].
    apply HI_apply_err_st; cbn [fst]; [apply CI_ensure_chan; auto|eapply HI_FR; [exact H|apply FR_ensure_chan]].
  - (* LHeartbeat *)
    destruct (get_conn s c); [|exact H]. destruct (h =? 0); [exact H|apply HI_conn_close; auto].
  - (* LRestart *) apply HI_restart. exact H.
Qed.

Lemma HI_init cfg : HI (init cfg).
Proof.
  constructor; cbn; try (intros; contradiction); try constructor.
Qed.
Theorem holder_init cfg : single_holder (init cfg).
Proof. apply HI_init. Qed.

Theorem HI_run cfg fx ls : forall s, fx_clear_current fx = true -> CI s -> HI s -> HI (fst (run cfg fx s ls)).
Proof.
  induction ls as [|l t IH]; intros s Hfx Hci H; cbn [run]; auto.
  pose proof (holder_step cfg fx s l Hfx Hci H) as H1. pose proof (CI_step cfg fx s l Hci) as C1.
  destruct (step cfg fx s l) as [s1 e1]. cbn [fst] in *. specialize (IH s1 Hfx C1 H1).
  destruct (run cfg fx s1 t) as [s2 e2]. exact IH.
Qed.

Theorem HI_reachable cfg fx ls : fx_clear_current fx = true -> HI (fst (run cfg fx (init cfg) ls)).
Proof. intros Hfx. apply HI_run; [exact Hfx|apply CI_init|apply HI_init]. Qed.

(* in every reachable state, for every queue object: every message id waits once or is out with one consumer, never both *)
Theorem holder_reachable cfg fx ls qid :
  fx_clear_current fx = true -> NoDup (held (fst (run cfg fx (init cfg) ls)) qid).
Proof. intros Hfx. apply (HI_reachable cfg fx ls Hfx). Qed.

(* ================================================================== *)
(* 5. deliveries take from the waiting list *)
Lemma delivered_facts s s' c h qid u dtag noack :
  single_holder s -> delivered s s' c h qid u dtag noack ->
  In u (ready_of s qid) /\ ~ In u (unacked_of s qid) /\ ~ In u (ready_of s' qid) /\
  cnt u (unacked_of s' qid) = (if noack then 0 else 1)%nat /\
  (noack = false -> exists e, In e (U s' c h) /\ u_tag e = dtag /\ u_msg e = u /\ u_qid e = qid).
Proof.
  intros Hn D. pose proof (dv_ready _ _ _ _ _ _ _ _ D qid u) as Hr. pose proof (dv_unacked _ _ _ _ _ _ _ _ D qid u) as Hu.
  rewrite N.eqb_refl, cnt_one in Hr, Hu. destruct (N.eq_dec u u) as [_|]; [|congruence].
  pose proof (proj1 (NoDup_cnt _) (Hn qid) u) as Hh. unfold held in Hh. rewrite cnt_app in Hh.
  repeat split.
  - apply In_cnt. lia.
  - apply notIn_cnt. lia.
  - apply notIn_cnt. lia.
  - destruct noack; cbn [negb andb] in Hu; lia.
  - apply D.
Qed.

(* a consumer turn that sends a delivery: the message was waiting in the consumer's queue object, nobody held it, it is
   not waiting any more, and (ack mode) exactly one unsettled delivery - the one with the tag just sent - holds it *)
Theorem delivery_takes_from_waiting cfg fx s c h tag e :
  single_holder s -> In e (snd (step cfg fx s (LConsumerTurn c h tag))) -> is_delivery e = true ->
  let s' := fst (step cfg fx s (LConsumerTurn c h tag)) in
  exists qid u dtag noack fl ex key,
    e = (c, h, SDeliver tag dtag fl ex key) /\ delivered s s' c h qid u dtag noack /\
    In u (ready_of s qid) /\ ~ In u (unacked_of s qid) /\ ~ In u (ready_of s' qid) /\
    cnt u (unacked_of s' qid) = (if noack then 0 else 1)%nat /\
    (noack = false -> exists en, In en (U s' c h) /\ u_tag en = dtag /\ u_msg en = u /\ u_qid en = qid).
Proof.
  cbn [step]. intros Hn He Hd.
  destruct (consumer_turn_effect cfg fx s c h tag) as [[_ E]|(ch & cm & qu & u & rest & dtag & _ & _ & _ & _ & D & Hev)].
  - rewrite E in He. destruct He.
  - destruct (Hev e He Hd) as (fl & ex & key & ->). exists (q_id qu), u, dtag, (c_noack cm), fl, ex, key.
    split; [reflexivity|]. split; [exact D|]. eapply delivered_facts; eauto.
Qed.

(* the same for basic.get (handler level) *)
Theorem delivery_takes_from_waiting_get cfg fx s c h q noack e :
  single_holder s -> In e (snd (fst (handle_method cfg fx s c h (MGet q noack)))) -> is_delivery e = true ->
  let s' := fst (fst (handle_method cfg fx s c h (MGet q noack))) in
  exists qid u dtag fl ex key n,
    e = (c, h, SGetOk dtag fl ex key n) /\ delivered s s' c h qid u dtag noack /\
    In u (ready_of s qid) /\ ~ In u (unacked_of s qid) /\ ~ In u (ready_of s' qid) /\
    cnt u (unacked_of s' qid) = (if noack then 0 else 1)%nat /\
    (noack = false -> exists en, In en (U s' c h) /\ u_tag en = dtag /\ u_msg en = u /\ u_qid en = qid).
Proof.
  intros Hn He Hd.
  destruct (get_effect cfg fx s c h q noack) as [[_ E]|(qu & u & rest & dtag & _ & _ & _ & D & Hev)].
  - rewrite (E e He) in Hd. discriminate.
  - destruct (Hev e He Hd) as (fl & ex & key & n & ->). exists (q_id qu), u, dtag, fl, ex, key, n.
    split; [reflexivity|]. split; [exact D|]. eapply delivered_facts; eauto.
Qed.

(* whatever step hands message u of queue object qid to a consumer starts from a state in which nobody holds u: while a
   delivery of u from qid is outstanding there is no second one *)
Theorem no_second_holder cfg fx ls s' c h qid u dtag noack :
  fx_clear_current fx = true ->
  let s := fst (run cfg fx (init cfg) ls) in
  delivered s s' c h qid u dtag noack -> In u (ready_of s qid) /\ ~ In u (unacked_of s qid).
Proof.
  intros Hfx s D. pose proof (HI_reachable cfg fx ls Hfx) as H.
  destruct (delivered_facts _ _ _ _ _ _ _ _ (hi_nodup _ H) D) as (A & B & _). auto.
Qed.

(* ------------------------------------------------------------------ *)
(* growth: where the messages a queue object holds can come from *)
Record GR0 (s s' : state) : Prop := {
  gr_uid : next_uid s <= next_uid s';
  gr_cur : forall x, In x (all_cur s') -> In x (all_cur s) \/ next_uid s <= x;
  gr_held : forall qid x, In x (held s' qid) -> In x (held s qid) \/ In x (all_cur s) \/ next_uid s <= x }.
(* ... and where the keys of the effective store and the queue objects can come from *)
Record GS (s s' : state) : Prop := {
  gs_qid : next_qid s <= next_qid s';
  gs_q : forall p, In p (nmv s') -> In p (nmv s) \/ next_qid s <= snd p;
  gs_eff : forall k, eff s' k -> eff s k \/ In (fst k) (all_cur s) \/ next_uid s <= fst k \/
                     exists qid, In (fst k) (held s qid) /\ (In (snd k, qid) (nmv s) \/ next_qid s <= qid) }.
Definition GR (s s' : state) : Prop := GR0 s s' /\ GS s s'.

Lemma GS_same s s' : next_qid s <= next_qid s' -> nmv s' = nmv s -> st_add s' = st_add s -> st_db s' = st_db s -> incl (st_del s) (st_del s') -> GS s s'.
Proof.
  intros A B C D E. constructor; [exact A|rewrite B; auto|]. intros k Hk. left. eapply eff_mono; [| |exact E|exact Hk]; rewrite ?C, ?D; auto.
Qed.

Lemma GR_refl s : GR s s.
Proof. split; [constructor; auto; lia|apply GS_same; auto; [lia|apply incl_refl]]. Qed.
Lemma GR_trans s1 s2 s3 : GR s1 s2 -> GR s2 s3 -> GR s1 s3.
Proof.
  intros [A A'] [B B']. pose proof (gr_uid _ _ A). pose proof (gr_uid _ _ B). pose proof (gs_qid _ _ A'). pose proof (gs_qid _ _ B'). split; constructor.
  - lia.
  - intros x Hx. apply (gr_cur _ _ B) in Hx. destruct Hx as [Hx|Hx]; [apply (gr_cur _ _ A) in Hx; tauto|right; lia].
  - intros qid x Hx. apply (gr_held _ _ B) in Hx. destruct Hx as [Hx|[Hx|Hx]].
    + apply (gr_held _ _ A) in Hx. exact Hx.
    + apply (gr_cur _ _ A) in Hx. tauto.
    + right. right. lia.
  - lia.
  - intros p Hp. apply (gs_q _ _ B') in Hp. destruct Hp as [Hp|Hp]; [apply (gs_q _ _ A'); exact Hp|right; lia].
  - intros k Hk. apply (gs_eff _ _ B') in Hk. destruct Hk as [Hk|[Hk|[Hk|(qid & Hk & Hq)]]].
    + apply (gs_eff _ _ A'). exact Hk.
    + apply (gr_cur _ _ A) in Hk. destruct Hk; [right; left; assumption|right; right; left; assumption].
    + right. right. left. lia.
    + apply (gr_held _ _ A) in Hk. destruct Hk as [Hk|[Hk|Hk]]; [|right; left; exact Hk|right; right; left; exact Hk].
      right. right. right. exists qid. split; [exact Hk|]. destruct Hq as [Hq|Hq]; [|right; lia].
      apply (gs_q _ _ A') in Hq. cbn [snd] in Hq. exact Hq.
Qed.
Lemma GR_HB s s' : HB s s' -> GR s s'.
Proof.
  intros (B & _ & S). split; constructor.
  - apply B.
  - intros x Hx. left. eapply le_ms_In; [apply B|exact Hx].
  - intros qid x Hx. left. eapply le_ms_In; [apply B|exact Hx].
  - apply B.
  - intros p Hp. left. apply (sb_q _ _ S). exact Hp.
  - intros k Hk. apply (sb_eff _ _ S) in Hk. destruct Hk as [Hk|(qid & Hq & Hk)]; [left; exact Hk|].
    right. right. right. exists qid. auto.
Qed.
Lemma GR_FR s s' : FR s s' -> GR s s'.
Proof. intros E. apply GR_HB. apply HB_FR. exact E. Qed.

Lemma GR_finish_publish fx s c h u :
  HI s -> curat c h (Some u) s -> GR s (fst (finish_publish fx s c h u)).
Proof.
  intros H (ch & Hg & Ecur). pose proof (In_cur_of_chan s c h ch u Hg Ecur) as Hu.
  unfold finish_publish. pose proof (PK_route c h u s H Hu fx) as P. pose proof (route_keeps fx s c h u) as [RK1 RK2].
  destruct (route_and_push fx s c h u) as [s1 e1]. cbn [fst] in *.
  assert (G1 : GR s s1).
  { split; constructor.
    - rewrite (pk_uid _ _ _ _ P). lia.
    - rewrite (pk_cur _ _ _ _ P). auto.
    - intros qid x Hx. apply (pk_held _ _ _ _ P) in Hx. destruct Hx as [Hx|[-> _]]; auto.
    - rewrite (pk_qid _ _ _ _ P). lia.
    - rewrite RK1. auto.
    - intros k Hk. unfold eff in *. rewrite RK2, (pk_db _ _ _ _ P) in Hk.
      assert (Ha : In k (st_add s1) -> In k (st_add s) \/ In (fst k) (all_cur s)).
      { intros Hx. apply (pk_add _ _ _ _ P) in Hx. destruct Hx as [Hx|Hx]; [auto|right; rewrite Hx; exact Hu]. }
      destruct Hk as [[Hd [Hc|Hc]]|[Hc Hn]].
      + left. left. auto.
      + apply Ha in Hc. destruct Hc as [Hc|Hc]; [left; left; auto|right; left; exact Hc].
      + apply Ha in Hc. destruct Hc as [Hc|Hc]; [left; right; auto|right; left; exact Hc]. }
  destruct (fx_clear_current fx); [|exact G1]. eapply GR_trans; [exact G1|]. apply GR_HB.
  apply HB_upd_chan; [intros; apply le_ms_nil|intros; apply le_ms_refl].
Qed.

Lemma GR_publish s c h ch ch' m :
  get_chan s c h = Some ch -> ch_unacked ch' = ch_unacked ch ->
  GR s (set_chan (s <| heap := aset N.eqb (next_uid s) m (heap s) |> <| next_uid := next_uid s + 1 |>) c h (ch' <| ch_cur := Some (next_uid s) |>)).
Proof.
  intros Hg Eu. set (s0 := s <| heap := aset N.eqb (next_uid s) m (heap s) |> <| next_uid := next_uid s + 1 |>).
  assert (Hg0 : get_chan s0 c h = Some ch) by exact Hg.
  destruct (next_set_chan s0 c h (ch' <| ch_cur := Some (next_uid s) |>)) as (N1 & N2 & N3 & N4 & NQ).
  split; [constructor|apply GS_same; [rewrite N2; cbn; lia|rewrite (nmv_same_queues _ _ NQ); reflexivity|rewrite N3; reflexivity|rewrite N4; reflexivity|rewrite st_del_set_chan; apply incl_refl]].
  - rewrite N1. cbn. lia.
  - intros x Hx. apply In_cnt in Hx. pose proof (cnt_cur_set_chan s0 c h ch (ch' <| ch_cur := Some (next_uid s) |>) Hg0 x) as Hc.
    rewrite (all_cur_same s s0) in Hc by reflexivity. change (cur_l (ch' <| ch_cur := Some (next_uid s) |>)) with [next_uid s] in Hc.
    rewrite cnt_one in Hc. destruct (N.eq_dec (next_uid s) x) as [<-|]; [right; lia|left; apply In_cnt; lia].
  - intros qid x Hx. left. apply In_cnt in Hx. apply In_cnt.
    pose proof (cnt_held_set_chan s0 c h ch (ch' <| ch_cur := Some (next_uid s) |>) Hg0 qid x) as Hc.
    unfold uq in Hc. cbn [ch_unacked set] in Hc. rewrite Eu in Hc. rewrite (held_same s s0 qid) in Hc by reflexivity. lia.
Qed.

Lemma GR_declare s name qu' : q_id qu' = next_qid s -> q_ready qu' = [] -> GR s (set_queue (s <| next_qid ::= N.succ |>) name qu').
Proof.
  intros Eid Erd. set (s0 := s <| next_qid ::= N.succ |>). split; [constructor|constructor].
  4:{ cbn. lia. }
  4:{ intros p Hp. unfold nmv, set_queue in Hp. cbn [queues set] in Hp. apply in_map_iff in Hp. destruct Hp as (kq & <- & Hk).
      apply in_aset in Hk. destruct Hk as [->|Hk]; [right; cbn [fst snd]; rewrite Eid; lia|left; apply (in_map (fun kq : string * queue => (fst kq, q_id (snd kq)))); exact Hk]. }
  4:{ intros k Hk. left. exact Hk. }
  - cbn. lia.
  - intros x Hx. left. exact Hx.
  - intros qid x Hx. left. unfold held in *. apply in_app_or in Hx. apply in_or_app. destruct Hx as [Hx|Hx]; [left|right; exact Hx].
    apply In_cnt in Hx. apply In_cnt. destruct (get_queue s0 name) as [qu|] eqn:Hq.
    + destruct (qv_set_queue s0 name qu qu' Hq) as (X & Y & E1 & E2). change (qv s0) with (qv s) in E1.
      rewrite ready_of_qv, E2, cnt_flat_mid in Hx. rewrite ready_of_qv, E1, cnt_flat_mid. unfold rdy, qk in *. cbn [fst snd] in *.
      rewrite Erd in Hx. destruct (q_id qu' =? qid); rewrite ?cnt_nil in Hx; lia.
    + pose proof (qv_set_queue_new s0 name qu' Hq) as E2. change (qv s0) with (qv s) in E2.
      rewrite ready_of_qv, E2, flat_map_app, cnt_app in Hx. cbn [flat_map] in Hx. rewrite ready_of_qv. unfold rdy, qk in *. cbn [fst snd] in *.
      rewrite Erd in Hx. destruct (q_id qu' =? qid); rewrite ?app_nil_r, ?cnt_nil in Hx; lia.
Qed.

Lemma GR_handle_method cfg fx s c h m : CI s -> HI s -> GR s (fst (fst (handle_method cfg fx s c h m))).
Proof.
  intros Hci H.
  destruct m; try (destruct (get_effect cfg fx s c h q noack) as [[E _]|(qu & u & rest & dtag & _ & _ & _ & D & _)];
                   [apply GR_FR; exact E|apply GR_HB; eapply HB_delivered; exact D]; fail).
  all: unfold handle_method.
  all: destruct (get_chan s c h) as [ch|] eqn:Hch; [|apply GR_refl].
  all: unfold ok, refuse.
  - destruct (ch_status ch); cbn [fst]; try apply GR_refl.
    + apply GR_FR. eapply FR_set_chan; [exact Hch|reflexivity].
    + apply GR_FR. eapply FR_set_chan; [exact Hch|reflexivity].
    + apply GR_HB. apply (HB_set_chan s c h ch); [exact Hch| |].
      * destruct (fx_reopen_resets fx); [apply le_ms_nil|apply le_ms_refl].
      * intros qid. destruct (fx_reopen_resets fx); [apply le_ms_nil|apply le_ms_refl].
  - cbn [fst]. apply GR_HB. apply HB_channel_close; exact Hci.
  - cbn [fst]. destruct (fx_closeok_releases fx); [apply GR_HB; apply HB_channel_close; exact Hci|].
    apply GR_FR. eapply FR_set_chan; [exact Hch|reflexivity].
  - cbn [fst]. destruct (Bool.eqb _ _); [apply GR_refl|]. destruct a; (apply GR_FR; eapply FR_set_chan; [exact Hch|reflexivity]).
  - destruct (extype_of type); [|apply GR_refl].
    repeat match goal with |- context [if ?b then _ else _] => destruct b end; cbn [fst]; try apply GR_refl.
    all: repeat match goal with |- context [match ?x with _ => _ end] => destruct x end; cbn [fst]; try apply GR_refl.
    all: try (apply GR_FR; apply FR_same; reflexivity).
  - destruct (fx_not_impl fx); apply GR_refl.
  - destruct (seqb name ""); [apply GR_refl|].
    destruct (queue_found s name) as [qu|].
    + repeat match goal with |- context [if ?b then _ else _] => destruct b end; cbn [fst]; apply GR_refl.
    + destruct passive; [destruct nowait; apply GR_refl|]. cbn [fst].
      match goal with |- GR s (@set _ _ _ _ _ ?s1) => apply (GR_trans s s1); [|apply GR_FR; apply FR_same; reflexivity] end.
      apply GR_declare; reflexivity.
  - destruct (alookup _ _ _); [|apply GR_refl]. destruct (seqb ex ""); [apply GR_refl|].
    destruct (queue_found s q); [|apply GR_refl]. destruct (locked _ _); [apply GR_refl|]. destruct (bad_xmatch _); [apply GR_refl|]. destruct (extype_eqb _ ExTopic && bad_pattern _)%bool; [apply GR_refl|]. cbn [fst].
    apply GR_FR; apply FR_same; reflexivity.
  - destruct (alookup _ _ _); [|apply GR_refl]. destruct (queue_found s q); [|apply GR_refl]. destruct (locked _ _); [apply GR_refl|].
    destruct (bad_xmatch _); [apply GR_refl|]. destruct (extype_eqb _ ExTopic && bad_pattern _)%bool; [apply GR_refl|]. cbn [fst]. apply GR_FR; apply FR_same; reflexivity.
  - destruct (queue_found s q) as [qu|] eqn:Eqf; [|apply GR_refl]. apply queue_found_get' in Eqf. destruct (locked _ _); [apply GR_refl|]. cbn [fst].
    apply GR_HB.
    match goal with |- HB s (set_queue ?s2 q ?qu') => apply (HB_trans s s2) end.
    + match goal with |- HB s (@set _ _ _ _ _ (@set _ _ _ _ _ ?s1)) => apply (HB_trans s s1); [|apply HB_FR; apply FR_same; reflexivity] end.
      destruct (q_durable qu); [apply HB_store_purge|apply HB_refl].
    + apply (HB_set_queue _ q qu); [destruct (q_durable qu); exact Eqf|reflexivity|apply le_ms_nil].
  - destruct (queue_found s q); [|apply GR_refl]. destruct (locked _ _); [apply GR_refl|].
    pose proof (HB_vhost_delete_queue (negb (fx_delete_checks_first fx)) s q ifunused ifempty) as Hd.
    destruct (vhost_delete_queue _ s q ifunused ifempty) as [[s1 e1] r1]. cbn [fst] in *.
    destruct r1; cbn [fst]; apply GR_HB; exact Hd.
  - cbn [fst]. apply GR_FR. eapply FR_trans; [|apply FR_wake_consumers].
    destruct (cfg_rabbit cfg); [destruct glob; (eapply FR_set_chan; [exact Hch|reflexivity])|].
    destruct glob; [|eapply FR_set_chan; [exact Hch|reflexivity]].
    destruct (get_conn s c) eqn:Ec; [|apply FR_refl]. eapply FR_set_conn; [exact Ec|reflexivity].
  - destruct imm; [apply GR_refl|]. destruct (alookup _ _ _); [|apply GR_refl].
    destruct (ch_confirm ch); cbn [fst]; (apply (GR_publish s c h ch); [exact Hch|reflexivity]).
  - destruct (queue_found s q) as [qu|] eqn:Eqf; [|apply GR_refl]. apply queue_found_get' in Eqf.
    destruct (fx_excl_owner fx && locked qu c); [apply GR_refl|].
    destruct (find_consumer ch _); [apply GR_refl|].
    destruct (_ && _)%bool; cbn [fst].
    + apply GR_FR. eapply FR_set_queue; [exact Eqf|reflexivity].
    + apply GR_FR.
      match goal with |- FR s (set_chan ?s3 c h ?ch') => apply (FR_set_chan' s s3 c h ch ch'); [| |exact Hch|reflexivity] end.
      * match goal with |- FR s (if ?b then @set _ _ _ _ _ ?s2 else _) => assert (E2 : FR s s2) end.
        { eapply FR_trans; [|apply FR_same; reflexivity]. eapply FR_set_queue; [exact Eqf|]. rewrite q_call_consumers. destruct excl; reflexivity. }
        destruct (seqb tag ""%string); [eapply FR_trans; [exact E2|apply FR_same; reflexivity]|exact E2].
      * destruct (seqb tag ""%string); reflexivity.
  - destruct (find_consumer ch tag); [|apply GR_refl]. cbn [fst]. apply GR_HB.
    eapply HB_trans; [|apply HB_upd_chan; [intros; apply le_ms_refl|intros ch0 qid; rewrite uq_orphan; apply le_ms_refl]].
    eapply HB_trans; [|apply HB_FR; apply FR_upd_chan; reflexivity].
    apply HB_FR. apply FR_consumer_stop.
  - pose proof (HB_handle_ack cfg s c h tag mult) as Ha.
    destruct (handle_ack cfg s c h tag mult) as [s1 e1]. cbn [fst] in *. apply GR_HB; exact Ha.
  - pose proof (HB_handle_reject cfg s c h tag mult requeue 60 120 Hci) as Ha.
    destruct (handle_reject cfg s c h tag mult requeue 60 120) as [s1 e1]. cbn [fst] in *. apply GR_HB; exact Ha.
  - pose proof (HB_handle_reject cfg s c h tag false requeue 60 90 Hci) as Ha.
    destruct (handle_reject cfg s c h tag false requeue 60 90) as [s1 e1]. cbn [fst] in *. apply GR_HB; exact Ha.
  - apply GR_refl.
  - cbn [fst]. apply GR_FR. eapply FR_set_chan; [exact Hch|reflexivity].
  - destruct (fx_not_impl fx); apply GR_refl.
  - apply GR_refl.
  - apply GR_refl.
  - destruct good; [cbn [fst]; apply GR_FR; apply FR_set_stage|apply GR_refl].
  - destruct within; [cbn [fst]; apply GR_FR; apply FR_set_stage|apply GR_refl].
  - destruct vhost_ok; [cbn [fst]; apply GR_FR; apply FR_set_stage|apply GR_refl].
Qed.

Lemma GR_apply_err s0 s c h r : GR s0 (fst (fst r)) -> GR s0 (fst (apply_err s c h r)).
Proof.
  destruct r as [[s1 e1] [e|]]; cbn [fst]; auto.
  intros H. unfold apply_err. pose proof (FR_send_error s1 c h e) as Hs.
  destruct (send_error s1 c h e) as [s2 e2]. cbn [fst] in *. eapply GR_trans; [exact H|apply GR_FR; exact Hs].
Qed.
Lemma GR_apply_err_st cfg fx opened s0 s c h r :
  CI (fst (fst r)) -> GR s0 (fst (fst r)) -> GR s0 (fst (apply_err_st cfg fx opened s c h r)).
Proof.
  intros Hci H. unfold apply_err_st. destruct opened; [apply GR_apply_err; auto|].
  destruct (snd r) as [[| ]|]; try (apply GR_apply_err; auto).
  pose proof (GR_apply_err s0 s c h r H) as H1. pose proof (CI_apply_err s c h r Hci) as C1.
  destruct (apply_err s c h r) as [s1 e1]. cbn [fst] in *.
  pose proof (HB_conn_close cfg fx s1 c C1) as H2. destruct (conn_close cfg fx s1 c) as [s2 e2]. cbn [fst] in *.
  eapply GR_trans; [exact H1|apply GR_HB; exact H2].
Qed.

Definition is_restart (l : label) : bool := match l with LRestart => true | _ => false end.

Theorem growth_step cfg fx s l : is_restart l = false -> CI s -> HI s -> GR s (fst (step cfg fx s l)).
Proof.
  intros Hl Hci H. destruct l; cbn [step]; try discriminate.
  - destruct (get_conn s c) eqn:Ec; cbn [fst]; [apply GR_refl|]. apply GR_FR. apply FR_new_conn; [exact Ec|reflexivity].
  - destruct (get_conn s c) as [cn0|]; [|apply GR_refl].
    destruct (negb _ && negb _)%bool; [apply GR_HB; apply HB_conn_close; auto|].
    assert (G0 : GR s (ensure_chan s c h)) by (apply GR_FR; apply FR_ensure_chan).
    assert (H0 : HI (ensure_chan s c h)) by (eapply HI_FR; [exact H|apply FR_ensure_chan]).
    assert (C0 : CI (ensure_chan s c h)) by (apply CI_ensure_chan; auto).
    assert (GM : forall m0, GR s (fst (fst (handle_method cfg fx (ensure_chan s c h) c h m0)))) by (intros m0; eapply GR_trans; [exact G0|apply GR_handle_method; auto]).
    destruct m.
    all: try (repeat match goal with |- context [if ?b then _ else _] => destruct b end;
              first [ exact G0
                    | apply GR_apply_err; first [ apply GM | exact G0 ]
                    | apply GR_apply_err_st; first [ apply CI_handle_method; auto | exact C0 | apply GM | exact G0 ] ]).
    + destruct (fx_stage fx && negb (h =? 0)); [apply GR_apply_err; exact G0|].
      pose proof (HB_conn_close cfg fx _ c C0) as Hc.
      destruct (conn_close cfg fx (ensure_chan s c h) c) as [s1 e1]. cbn [fst] in *. eapply GR_trans; [exact G0|apply GR_HB; exact Hc].
    + destruct (fx_stage fx && negb (h =? 0)); [apply GR_apply_err; exact G0|]. eapply GR_trans; [exact G0|apply GR_HB; apply HB_conn_close; auto].
  - destruct (get_conn s c) as [cn0|]; [|apply GR_refl].
    destruct (negb _ && negb _)%bool; [apply GR_HB; apply HB_conn_close; auto|].
    assert (G0 : GR s (ensure_chan s c h)) by (apply GR_FR; apply FR_ensure_chan).
    assert (H0 : HI (ensure_chan s c h)) by (eapply HI_FR; [exact H|apply FR_ensure_chan]).
    assert (C0 : CI (ensure_chan s c h)) by (apply CI_ensure_chan; auto).
    destruct (get_chan _ c h) as [ch|] eqn:Ech; [|exact G0].
    destruct (_ && _)%bool; [exact G0|].
    destruct (ch_cur ch) as [u|] eqn:Ecur; [|apply GR_apply_err_st; auto].
    destruct (get_msg _ u) as [m|]; [|exact G0].
    destruct (m_has_header m); [apply GR_apply_err_st; auto|].
    assert (G1 : forall f, GR s (upd_msg (ensure_chan s c h) u f)) by (intros f; eapply GR_trans; [exact G0|apply GR_FR; apply FR_upd_msg]).
    assert (H1 : forall f, HI (upd_msg (ensure_chan s c h) u f)) by (intros f; eapply HI_FR; [exact H0|apply FR_upd_msg]).
    destruct (_ && _)%bool; [|apply G1].
    eapply GR_trans; [apply G1|]. apply GR_finish_publish; [apply H1|]. eapply curat_same_conns; [apply conns_upd_msg|]. exists ch. auto.
  - destruct (get_conn s c) as [cn0|]; [|apply GR_refl].
    destruct (negb _ && negb _)%bool; [apply GR_HB; apply HB_conn_close; auto|].
    assert (G0 : GR s (ensure_chan s c h)) by (apply GR_FR; apply FR_ensure_chan).
    assert (H0 : HI (ensure_chan s c h)) by (eapply HI_FR; [exact H|apply FR_ensure_chan]).
    assert (C0 : CI (ensure_chan s c h)) by (apply CI_ensure_chan; auto).
    destruct (get_chan _ c h) as [ch|] eqn:Ech; [|exact G0].
    destruct (_ && _)%bool; [exact G0|].
    destruct (ch_cur ch) as [u|] eqn:Ecur; [|apply GR_apply_err_st; auto].
    destruct (get_msg _ u) as [m|]; [|exact G0].
    destruct (negb (m_has_header m)); [apply GR_apply_err_st; auto|].
    destruct (_ <? _).
    { apply GR_apply_err_st; cbn [fst].
      - apply allch_upd_chan; auto.
      - eapply GR_trans; [exact G0|]. apply GR_HB. apply HB_upd_chan; [intros; apply le_ms_nil|intros; apply le_ms_refl]. }
    assert (G1 : forall f, GR s (upd_msg (ensure_chan s c h) u f)) by (intros f; eapply GR_trans; [exact G0|apply GR_FR; apply FR_upd_msg]).
    assert (H1 : forall f, HI (upd_msg (ensure_chan s c h) u f)) by (intros f; eapply HI_FR; [exact H0|apply FR_upd_msg]).
    destruct (_ <? _); [apply G1|].
    eapply GR_trans; [apply G1|]. apply GR_finish_publish; [apply H1|]. eapply curat_same_conns; [apply conns_upd_msg|]. exists ch. auto.
  - destruct (consumer_turn_effect cfg fx s c h tag) as [[E _]|(ch & cm & qu & u & rest & dtag & _ & _ & _ & _ & D & _)].
    + apply GR_FR; exact E.
    + apply GR_HB; eapply HB_delivered; exact D.
  - cbn [fst]. apply GR_FR. apply FR_queue_loop_turn.
  - destruct (autodel s) as [|qn rest]; [apply GR_refl|].
    destruct (get_queue _ qn) as [qu0|]; [|apply GR_FR; apply FR_same; reflexivity].
    destruct (q_autodel qu0); [|apply GR_FR; apply FR_same; reflexivity].
    pose proof (HB_vhost_delete_queue (negb (fx_delete_checks_first fx)) (s <| autodel := rest |>) qn true false) as Hd.
    destruct (vhost_delete_queue _ (s <| autodel := rest |>) qn true false) as [[s1 e1] r1]. cbn [fst] in *.
    apply (GR_trans s (s <| autodel := rest |>)); [apply GR_FR; apply FR_same; reflexivity|apply GR_HB; exact Hd].
  - apply GR_HB. exact (HB_persist_tick cfg fx s).
  - destruct (relay s) as [|u rest]; [apply GR_refl|].
    assert (G0 : GR s (s <| relay := rest |>)) by (apply GR_FR; apply FR_same; reflexivity).
    destruct (get_msg _ u) as [m|]; cbn [fst]; auto.
    destruct (m_conf m) as [[[? ?] ?]|]; cbn [fst]; auto. eapply GR_trans; [exact G0|apply GR_FR; apply FR_add_confirm].
  - destruct (get_chan s c h) as [ch|] eqn:Ech; [|apply GR_refl]. destruct (negb _); [apply GR_refl|].
    destruct (ch_status ch); cbn [fst]; (apply GR_FR; eapply FR_set_chan; [exact Ech|reflexivity]).
  - pose proof (HB_conn_close cfg fx s c Hci) as Hc. destruct (conn_close cfg fx s c) as [s1 e1]. apply GR_HB; exact Hc.
  - destruct (get_conn s c) eqn:Ec; cbn [fst]; [apply GR_refl|]. apply GR_FR. apply FR_new_conn; [exact Ec|reflexivity].
  - destruct (get_conn s c) as [cn0|]; [|apply GR_refl].
    destruct (negb _ && negb _)%bool; [apply GR_HB; apply HB_conn_close; auto|].
    apply GR_apply_err_st; cbn [fst]; [apply CI_ensure_chan; auto|apply GR_FR; apply FR_ensure_chan].
  - destruct (get_conn s c); [|apply GR_refl]. destruct (h =? 0); [apply GR_refl|apply GR_HB; apply HB_conn_close; auto].
Qed.

Definition no_restart (ls : list label) : bool := forallb (fun l => negb (is_restart l)) ls.

Theorem growth_run cfg fx ls : forall s,
  fx_clear_current fx = true -> no_restart ls = true -> CI s -> HI s -> GR s (fst (run cfg fx s ls)).
Proof.
  induction ls as [|l t IH]; intros s Hfx Hnr Hci H; cbn [run]; [apply GR_refl|].
  cbn [no_restart forallb] in Hnr. apply andb_prop in Hnr. destruct Hnr as [Hl Hnr]. apply Bool.negb_true_iff in Hl.
  pose proof (growth_step cfg fx s l Hl Hci H) as G1.
  pose proof (holder_step cfg fx s l Hfx Hci H) as H1. pose proof (CI_step cfg fx s l Hci) as C1.
  destruct (step cfg fx s l) as [s1 e1]. cbn [fst] in *. specialize (IH s1 Hfx Hnr C1 H1).
  destruct (run cfg fx s1 t) as [s2 e2]. cbn [fst] in *. eapply GR_trans; eauto.
Qed.

(* message u was published (its id is allocated, its content complete) and queue object qid does not hold it *)
Definition gone (u qid : N) (s : state) : Prop := u < next_uid s /\ ~ In u (all_cur s) /\ ~ In u (held s qid).

Lemma gone_GR u qid s s' : gone u qid s -> GR s s' -> gone u qid s'.
Proof.
  intros (A & B & C) [G _]. pose proof (gr_uid _ _ G). split; [lia|]. split.
  - intros Hx. apply (gr_cur _ _ G) in Hx. destruct Hx; [contradiction|lia].
  - intros Hx. apply (gr_held _ _ G) in Hx. destruct Hx as [Hx|[Hx|Hx]]; [contradiction|contradiction|lia].
Qed.

Theorem gone_stays_gone cfg fx ls s u qid :
  fx_clear_current fx = true -> no_restart ls = true -> CI s -> HI s -> gone u qid s -> gone u qid (fst (run cfg fx s ls)).
Proof. intros Hfx Hnr Hci H Hg. eapply gone_GR; [exact Hg|apply growth_run; auto]. Qed.

Lemma run_app cfg fx l1 l2 s : fst (run cfg fx s (l1 ++ l2)) = fst (run cfg fx (fst (run cfg fx s l1)) l2).
Proof.
  revert s. induction l1 as [|l t IH]; intros s; cbn [app run fst]; [reflexivity|].
  destruct (step cfg fx s l) as [s1 e1]. specialize (IH s1). destruct (run cfg fx s1 (t ++ l2)) as [s2 e2]. cbn [fst] in *.
  destruct (run cfg fx s1 t) as [s3 e3]. cbn [fst] in *. exact IH.
Qed.

(* once a message that queue object qid held is no longer held by it - acknowledged, rejected without requeue, delivered in
   no-ack mode, purged, or gone with the queue - it is never held by it again, whatever follows (short of a restart) *)
Theorem settled_never_again cfg fx ls0 ls1 ls2 qid u :
  fx_clear_current fx = true -> no_restart ls1 = true -> no_restart ls2 = true ->
  let s0 := fst (run cfg fx (init cfg) ls0) in
  let s1 := fst (run cfg fx s0 ls1) in
  let s2 := fst (run cfg fx s1 ls2) in
  In u (held s0 qid) -> ~ In u (held s1 qid) -> ~ In u (held s2 qid).
Proof.
  intros Hfx Hn1 Hn2 s0 s1 s2 Hin Hout.
  pose proof (HI_reachable cfg fx ls0 Hfx) as H0. fold s0 in H0.
  pose proof (CI_run cfg fx ls0 (init cfg) (CI_init cfg)) as C0. fold s0 in C0.
  pose proof (growth_run cfg fx ls1 s0 Hfx Hn1 C0 H0) as [G1 _]. fold s1 in G1.
  assert (Hg1 : gone u qid s1).
  { pose proof (gr_uid _ _ G1). pose proof (hi_held_lt _ H0 qid u Hin). split; [lia|]. split; [|exact Hout].
    intros Hx. apply (gr_cur _ _ G1) in Hx. destruct Hx as [Hx|Hx]; [exact (hi_cur_fresh _ H0 u qid Hx Hin)|lia]. }
  assert (H1 : HI s1) by (apply HI_run; auto). assert (C1 : CI s1) by (apply CI_run; auto).
  apply (gone_stays_gone cfg fx ls2 s1 u qid Hfx Hn2 C1 H1 Hg1).
Qed.

(* the ways out *)
Lemma del_unacked_gives_up s c h e : In e (U s c h) -> forall qid x,
  (cnt x (held (upd_chan s c h (fun ch => del_unacked ch (u_tag e))) qid) + (if N.eqb (u_qid e) qid then cnt x [u_msg e] else 0) <= cnt x (held s qid))%nat.
Proof.
  unfold U. destruct (get_chan s c h) as [ch|] eqn:Hg; [|intros []]. intros Hin qid x. unfold upd_chan. rewrite Hg.
  pose proof (cnt_held_set_chan s c h ch (del_unacked ch (u_tag e)) Hg qid x) as Hc.
  set (s1 := set_chan s c h (del_unacked ch (u_tag e))) in *. clearbody s1.
  pose proof (uq_del qid x (ch_unacked ch) e Hin) as Hd. unfold qidb, ntag in Hd. unfold uq, del_unacked in Hc. cbn [ch_unacked set] in Hc. lia.
Qed.

Theorem ack_settles s c h e : single_holder s -> In e (U s c h) ->
  ~ In (u_msg e) (held (chan_ackmsg (upd_chan s c h (fun ch => del_unacked ch (u_tag e))) e) (u_qid e)).
Proof.
  intros Hn Hin. rewrite (held_FR _ _ _ (FR_chan_ackmsg _ e)). apply notIn_cnt.
  pose proof (del_unacked_gives_up s c h e Hin (u_qid e) (u_msg e)) as Hd. rewrite N.eqb_refl, cnt_one in Hd.
  pose proof (proj1 (NoDup_cnt _) (Hn (u_qid e)) (u_msg e)). destruct (N.eq_dec (u_msg e) (u_msg e)); [lia|congruence].
Qed.

Theorem reject_drop_settles s c h e : single_holder s -> In e (U s c h) ->
  ~ In (u_msg e) (held (chan_rejectmsg (upd_chan s c h (fun ch => del_unacked ch (u_tag e))) e false) (u_qid e)).
Proof.
  intros Hn Hin.
  assert (E : FR (upd_chan s c h (fun ch => del_unacked ch (u_tag e))) (chan_rejectmsg (upd_chan s c h (fun ch => del_unacked ch (u_tag e))) e false)).
  { unfold chan_rejectmsg. destruct (origin_queue _ e); [apply FR_queue_ackmsg|apply FR_same; reflexivity]. }
  rewrite (held_FR _ _ _ E). apply notIn_cnt.
  pose proof (del_unacked_gives_up s c h e Hin (u_qid e) (u_msg e)) as Hd. rewrite N.eqb_refl, cnt_one in Hd.
  pose proof (proj1 (NoDup_cnt _) (Hn (u_qid e)) (u_msg e)). destruct (N.eq_dec (u_msg e) (u_msg e)); [lia|congruence].
Qed.

Theorem noack_delivery_settles s s' c h qid u dtag : single_holder s -> delivered s s' c h qid u dtag true -> ~ In u (held s' qid).
Proof.
  intros Hn D. destruct (delivered_facts _ _ _ _ _ _ _ _ Hn D) as (_ & _ & A & B & _). unfold held. intros Hx. apply in_app_or in Hx.
  destruct Hx as [Hx|Hx]; [contradiction|]. apply In_cnt in Hx. lia.
Qed.

Theorem purge_settles cfg fx s c h q nowait qu u :
  single_holder s -> get_chan s c h <> None -> queue_found s q = Some qu -> locked qu c = false ->
  In u (q_ready qu) -> ~ In u (held (fst (fst (handle_method cfg fx s c h (MQPurge q nowait)))) (q_id qu)).
Proof.
  intros Hn Hch Eqf Hl Hin. unfold handle_method. destruct (get_chan s c h) as [ch|]; [|congruence].
  rewrite Eqf, Hl. apply queue_found_get' in Eqf. unfold ok. cbn [fst].
  match goal with |- ~ In u (held (set_queue ?s2 q ?qu') _) => set (s2' := s2); set (qu2 := qu') end.
  assert (Hq2 : get_queue s2' q = Some qu) by (subst s2'; destruct (q_durable qu); exact Eqf).
  pose proof (cnt_held_set_queue s2' q qu qu2 Hq2 eq_refl (q_id qu) u) as Hc. rewrite N.eqb_refl in Hc.
  rewrite (held_same s s2' (q_id qu)) in Hc by (subst s2'; destruct (q_durable qu); reflexivity).
  change (q_ready qu2) with (@nil N) in Hc. rewrite cnt_nil in Hc.
  pose proof (proj1 (NoDup_cnt _) (Hn (q_id qu)) u) as Hh.
  apply notIn_cnt. apply In_cnt in Hin. lia.
Qed.

(* ---- restart: what the model gives ---- *)
(* after a restart a queue object holds exactly the ids whose key (id, queue name) is in the flushed store, for a durable
   queue of that name and id *)
Theorem restart_held cfg s qid u :
  In u (held (fst (restart cfg s)) qid) <->
  exists qn qu, In (qn, qu) (queues s) /\ q_durable qu = true /\ q_id qu = qid /\ In (u, qn) (st_db s).
Proof.
  unfold restart. cbn [fst].
  set (durq := filter (fun kv : string * queue => q_durable (snd kv)) (queues s)).
  match goal with |- In u (held ?S qid) <-> _ => set (s' := S) end.
  assert (Eun : unacked_of s' qid = []) by reflexivity.
  assert (Erd : ready_of s' qid = flat_map (fun kv : string * queue => if q_id (snd kv) =? qid then stored_of s (fst kv) else []) durq).
  { clear Eun. unfold ready_of. subst s'. cbn [queues]. clearbody durq. induction durq as [|a t IH]; cbn [map flat_map]; [reflexivity|]. rewrite IH. reflexivity. }
  unfold held. rewrite Eun, app_nil_r, Erd. rewrite in_flat_map. split.
  - intros ([qn qu] & Hkv & Hx). cbn [fst snd] in Hx. destruct (q_id qu =? qid) eqn:E; [|destruct Hx]. apply N.eqb_eq in E.
    subst durq. apply filter_In in Hkv. destruct Hkv as [Hkv Hd]. cbn [snd] in Hd.
    destruct (restart_messages s qn) as [Hp _]. apply (Permutation_in _ Hp) in Hx. apply in_map_iff in Hx.
    destruct Hx as ([a b] & E1 & Hf). apply filter_In in Hf. destruct Hf as [Hf E2]. cbn [fst snd] in *. apply seqb_spec in E2. subst b a.
    exists qn, qu. auto.
  - intros (qn & qu & Hkv & Hd & E & Hk). exists (qn, qu). split; [subst durq; apply filter_In; auto|]. cbn [fst snd].
    rewrite E, N.eqb_refl. destruct (restart_messages s qn) as [Hp _]. apply (Permutation_in _ (Permutation_sym Hp)).
    apply in_map_iff. exists (u, qn). split; [reflexivity|]. apply filter_In. split; [exact Hk|]. cbn [snd]. apply seqb_spec. reflexivity.
Qed.

(* the flushed store agrees with the queues: every key of a durable queue is a message that queue object holds.  This is NOT an
   invariant of the model (an acknowledged message keeps its key until the persist tick has run; the keys of a deleted queue that
   are still pending are written under the name later): it is the hypothesis that identifies a store in step with the queues *)
Definition store_in_step (s : state) : Prop :=
  forall u qn qu, In (u, qn) (st_db s) -> In (qn, qu) (queues s) -> q_durable qu = true -> In u (held s (q_id qu)).

Theorem settled_never_again_restart_partial cfg s qid u :
  store_in_step s -> ~ In u (held s qid) -> ~ In u (held (fst (restart cfg s)) qid).
Proof.
  intros Hs Hout Hin. apply restart_held in Hin. destruct Hin as (qn & qu & Hkv & Hd & <- & Hk). apply Hout. eapply Hs; eauto.
Qed.

(* ---- graceful restarts: [LPersistTick; LRestart] ---- *)
(* the key of message u is not in the effective store under the name of queue object qid *)
Definition key_gone (u qid : N) (s : state) : Prop := forall qn, In (qn, qid) (nmv s) -> ~ eff s (u, qn).
(* u was published, queue object qid (allocated) does not hold it, and the store will not bring it back *)
Definition gone_for_good (u qid : N) (s : state) : Prop := gone u qid s /\ qid < next_qid s /\ key_gone u qid s.

Lemma qids_nmv s : qids s = map snd (nmv s).
Proof. rewrite qids_map. unfold nmv. rewrite map_map. reflexivity. Qed.
Lemma nmv_name_unique s qn q1 q2 : NoDup (map fst (nmv s)) -> In (qn, q1) (nmv s) -> In (qn, q2) (nmv s) -> q1 = q2.
Proof. intros Hn A B. pose proof (NoDup_map_inj fst _ _ _ Hn A B eq_refl) as E. inversion E. reflexivity. Qed.
Lemma nmv_id_unique s q n1 n2 : NoDup (qids s) -> In (n1, q) (nmv s) -> In (n2, q) (nmv s) -> n1 = n2.
Proof. rewrite qids_nmv. intros Hn A B. pose proof (NoDup_map_inj snd _ _ _ Hn A B eq_refl) as E. inversion E. reflexivity. Qed.

Lemma gone_for_good_GR u qid s s' : HI s -> gone_for_good u qid s -> GR s s' -> gone_for_good u qid s'.
Proof.
  intros H (Hg & Hq & Hk) G. pose proof (gone_GR u qid s s' Hg G) as Hg'. destruct G as [G0 G]. pose proof (gs_qid _ _ G).
  split; [exact Hg'|]. split; [lia|]. destruct Hg as (A & B & C).
  intros qn Hin He. apply (gs_q _ _ G) in Hin. cbn [snd] in Hin. destruct Hin as [Hin|Hin]; [|lia].
  apply (gs_eff _ _ G) in He. cbn [fst snd] in He. destruct He as [He|[He|[He|(q2 & Hh & Hq2)]]].
  - exact (Hk qn Hin He).
  - contradiction.
  - lia.
  - destruct Hq2 as [Hq2|Hq2]; [|pose proof (hi_held_qid _ H _ _ Hh); lia].
    rewrite (nmv_name_unique s qn q2 qid (hi_names _ H) Hq2 Hin) in Hh. contradiction.
Qed.

Lemma st_del_store_confirm s u : st_del (store_confirm s u) = st_del s.
Proof.
  unfold store_confirm. destruct (get_msg s u) as [m|]; [|reflexivity]. destruct (m_conf m); [|reflexivity].
  destruct (_ =? _)%Z; cbn [st_del set]; unfold upd_msg; destruct (get_msg s u); reflexivity.
Qed.
(* after the persist tick nothing is pending *)
Lemma tick_nothing_pending cfg fx s : st_add (fst (step cfg fx s LPersistTick)) = [] /\ st_del (fst (step cfg fx s LPersistTick)) = [].
Proof.
  cbn [step fst].
  match goal with |- st_add (fold_left ?F ?L ?S1) = _ /\ _ => set (s1 := S1) end.
  split.
  - assert (E : FR s1 (fold_left (fun s0 k => store_confirm s0 (fst k)) (filter (fun k : N * string => negb (existsb (fun d : N * string => (fst d =? fst k) && seqb (snd d) (snd k)) (st_del s))) (st_add s) ++ filter (fun k : N * string => existsb (fun d : N * string => (fst d =? fst k) && seqb (snd d) (snd k)) (st_del s)) (st_add s)) s1))
      by (apply FR_fold; intros; apply FR_store_confirm).
    destruct (nexts_FR _ _ E) as (_ & _ & _ & E1 & _). rewrite E1. reflexivity.
  - apply (fold_left_preserves (fun st => st_del st = [])); [|reflexivity]. intros st k Hst. rewrite st_del_store_confirm. exact Hst.
Qed.

Lemma gone_for_good_restart cfg u qid s :
  HI s -> st_add s = [] -> st_del s = [] -> gone_for_good u qid s -> gone_for_good u qid (fst (restart cfg s)).
Proof.
  intros H Ea Ed ((A & B & C) & Hq & Hk).
  assert (Heff : forall k, In k (st_db s) -> eff s k) by (intros k Hin; left; split; [exact Hin|left; rewrite Ed; intros []]).
  split; [split; [exact A|split]|split; [exact Hq|]].
  - intros [].
  - intros Hin. apply restart_held in Hin. destruct Hin as (qn & qu & Hkv & Hd & Eid & Hdb).
    apply (Hk qn); [|apply Heff; exact Hdb]. rewrite <- Eid. apply (in_map (fun kq : string * queue => (fst kq, q_id (snd kq))) _ _ Hkv).
  - intros qn Hin He. apply (Hk qn).
    + unfold restart, nmv in Hin. cbn [fst queues] in Hin. rewrite map_map in Hin. cbn [fst snd q_id new_queue set] in Hin.
      apply in_map_iff in Hin. destruct Hin as (kq & E & Hf). apply filter_In in Hf. destruct Hf as [Hf _]. rewrite <- E.
      apply (in_map (fun kq : string * queue => (fst kq, q_id (snd kq))) _ _ Hf).
    + apply Heff. unfold eff, restart in He. cbn [fst st_db st_add st_del] in He. destruct He as [[He _]|[[] _]]. apply filter_In in He. tauto.
Qed.

Definition is_tick (l : label) : bool := match l with LPersistTick => true | _ => false end.
(* every restart is immediately preceded by a persist tick (a graceful stop writes out what is pending) *)
Fixpoint graceful_from (prev : bool) (ls : list label) : bool :=
  match ls with
  | [] => true
  | l :: t => (if is_restart l then prev else true) && graceful_from (is_tick l) t
  end.
Definition graceful (ls : list label) : bool := graceful_from false ls.

Theorem gone_for_good_run cfg fx u qid ls : forall prev s,
  fx_clear_current fx = true -> graceful_from prev ls = true -> (prev = true -> st_add s = [] /\ st_del s = []) ->
  CI s -> HI s -> gone_for_good u qid s -> gone_for_good u qid (fst (run cfg fx s ls)).
Proof.
  induction ls as [|l t IH]; intros prev s Hfx Hg Hp Hci H G; cbn [run]; [exact G|].
  cbn [graceful_from] in Hg. apply andb_prop in Hg. destruct Hg as [Hl Hg].
  pose proof (holder_step cfg fx s l Hfx Hci H) as H1. pose proof (CI_step cfg fx s l Hci) as C1.
  assert (G1 : gone_for_good u qid (fst (step cfg fx s l))).
  { destruct (is_restart l) eqn:Er.
    - destruct l; try discriminate. destruct (Hp Hl) as [Ea Ed]. cbn [step]. apply gone_for_good_restart; auto.
    - eapply gone_for_good_GR; [exact H|exact G|]. apply growth_step; auto. }
  assert (P1 : is_tick l = true -> st_add (fst (step cfg fx s l)) = [] /\ st_del (fst (step cfg fx s l)) = []).
  { intros Et. destruct l; try discriminate. apply tick_nothing_pending. }
  destruct (step cfg fx s l) as [s1 e1]. cbn [fst] in *. specialize (IH (is_tick l) s1 Hfx Hg P1 C1 H1 G1).
  destruct (run cfg fx s1 t) as [s2 e2]. exact IH.
Qed.

(* across graceful restarts: a message that queue object qid once held, that it holds no more and whose key is out of the effective
   store never comes back, whatever follows *)
Theorem settled_never_again_graceful cfg fx ls0 ls2 qid u :
  fx_clear_current fx = true -> graceful ls2 = true ->
  let s1 := fst (run cfg fx (init cfg) ls0) in
  gone_for_good u qid s1 -> ~ In u (held (fst (run cfg fx s1 ls2)) qid).
Proof.
  intros Hfx Hg s1 G.
  assert (H1 : HI s1) by (apply HI_reachable; exact Hfx). assert (C1 : CI s1) by (apply CI_run; apply CI_init).
  pose proof (gone_for_good_run cfg fx u qid ls2 false s1 Hfx Hg (fun E => ltac:(discriminate E)) C1 H1 G) as ((_ & _ & R) & _). exact R.
Qed.

(* how a message becomes gone for good.  It was held (so it is published and qid is allocated), it is held no more, and: *)
Lemma gone_for_good_intro u qid s0 s1 :
  HI s0 -> In u (held s0 qid) -> GR s0 s1 -> ~ In u (held s1 qid) -> key_gone u qid s1 -> gone_for_good u qid s1.
Proof.
  intros H0 Hin [G0 G] Hout Hk. pose proof (gr_uid _ _ G0). pose proof (gs_qid _ _ G). pose proof (hi_held_lt _ H0 qid u Hin). pose proof (hi_held_qid _ H0 qid u Hin).
  split; [split; [lia|split; [|exact Hout]]|split; [lia|exact Hk]].
  intros Hx. apply (gr_cur _ _ G0) in Hx. destruct Hx as [Hx|Hx]; [exact (hi_cur_fresh _ H0 u qid Hx Hin)|lia].
Qed.

(* ... Queue.AckMsg (acknowledge, reject without requeue, no-ack delivery) of a persistent message of a durable queue records the
   delete of its key (no key is at once written and pending: hi_db_add) *)
Theorem ackmsg_key_gone s qn u qu m :
  HI s -> get_queue s qn = Some qu -> get_msg s u = Some m -> q_active qu = true -> q_durable qu && m_pers m = true ->
  key_gone u (q_id qu) (queue_ackmsg s qn u).
Proof.
  intros H Hq Hm Ha Hdp. assert (Hd : ~ (In (u, qn) (st_db s) /\ In (u, qn) (st_add s))) by (intros [A B]; exact (hi_db_add _ H _ A B)). unfold queue_ackmsg. rewrite Hq, Hm, Ha, Hdp. cbn [negb]. cbv zeta.
  intros qn' Hin He.
  match type of Hin with In _ (nmv (set_queue ?s2 qn ?qu')) => assert (Nm : nmv (set_queue s2 qn qu') = nmv s)
    by (rewrite (nmv_set_queue_keep s2 qn qu qu' Hq eq_refl); reflexivity) end.
  rewrite Nm in Hin. pose proof (get_queue_nmv s qn qu Hq) as Hin0.
  rewrite (nmv_id_unique s (q_id qu) qn' qn (hi_qids_nodup _ H) Hin Hin0) in He.
  unfold eff in He. cbn [st_db st_add st_del set set_queue] in He.
  assert (Hdel : In (u, qn) (st_del s ++ [(u, qn)])) by (apply in_or_app; right; left; reflexivity).
  destruct He as [[He1 [He2|He2]]|[He1 He2]]; [exact (He2 Hdel)|exact (Hd (conj He1 He2))|exact (He2 Hdel)].
Qed.

(* ... a purge (queue.purge, queue deletion) takes every key of the queue out of the effective store *)
Theorem purge_key_gone s qn qid u : HI s -> In (qn, qid) (nmv s) -> key_gone u qid (store_purge s qn).
Proof.
  intros H Hin0 qn' Hin He. change (nmv (store_purge s qn)) with (nmv s) in Hin.
  rewrite (nmv_id_unique s qid qn' qn (hi_qids_nodup _ H) Hin Hin0) in He.
  unfold eff, store_purge in He. cbn [st_db st_add st_del set] in He.
  assert (Hp : In (u, qn) (st_add s) -> In (u, qn) (st_del s ++ filter (fun k : N * string => seqb (snd k) qn) (st_add s))).
  { intros Ha. apply in_or_app. right. apply filter_In. split; [exact Ha|]. cbn [snd]. apply seqb_spec. reflexivity. }
  destruct He as [[He1 _]|[He1 He2]]; [|exact (He2 (Hp He1))].
  apply filter_In in He1. destruct He1 as [_ He1]. cbn [snd] in He1. rewrite (proj2 (seqb_spec qn qn) eq_refl) in He1. discriminate.
Qed.

(* the acknowledgement of one delivery (channel.ackMsg after the entry is removed), packaged *)
Theorem ack_gone_for_good s c h e qu m :
  HI s -> In e (U s c h) -> origin_queue s e = Some qu -> q_active qu = true -> get_msg s (u_msg e) = Some m ->
  q_durable qu && m_pers m = true ->
  gone_for_good (u_msg e) (u_qid e) (chan_ackmsg (upd_chan s c h (fun ch => del_unacked ch (u_tag e))) e).
Proof.
  intros H Hin Ho Ha Hm Hdp.
  set (s1 := upd_chan s c h (fun ch => del_unacked ch (u_tag e))).
  assert (Q1 : queues s1 = queues s) by apply queues_upd_chan.
  assert (Hp1 : heap s1 = heap s) by (subst s1; unfold upd_chan; destruct (get_chan s c h); [apply heap_set_chan|reflexivity]).
  assert (St1 : st_add s1 = st_add s /\ st_db s1 = st_db s).
  { subst s1. unfold upd_chan. destruct (get_chan s c h); [|auto]. destruct (next_set_chan s c h (del_unacked c0 (u_tag e))) as (_ & _ & A & B & _). auto. }
  assert (H1 : HI s1) by (eapply HI_HB; [exact H|apply HB_del_unacked]).
  assert (Ho1 : origin_queue s1 e = Some qu) by (unfold origin_queue in *; rewrite (get_queue_same_queues _ _ _ Q1); exact Ho).
  apply origin_queue_some in Ho. destruct Ho as [Hq Eid].
  assert (Hq1 : get_queue s1 (u_queue e) = Some qu) by (rewrite (get_queue_same_queues _ _ _ Q1); exact Hq).
  assert (Hm1 : get_msg s1 (u_msg e) = Some m) by (rewrite (get_msg_same_heap _ _ _ Hp1); exact Hm).
  assert (Hin' : In (u_msg e) (held s (u_qid e))).
  { unfold U in Hin. destruct (get_chan s c h) as [ch|] eqn:Hg; [|destruct Hin]. eapply In_uq_held; eauto. }
  apply (gone_for_good_intro _ _ s); [exact H|exact Hin'|apply GR_HB; apply HB_ack_one|apply ack_settles; [apply H|exact Hin]|].
  unfold chan_ackmsg. fold s1. rewrite Ho1. rewrite <- Eid. apply (ackmsg_key_gone s1 (u_queue e) (u_msg e) qu m); auto.
Qed.

(* ---- per label: the steps that settle ---- *)
Lemma gone_for_good_FR u qid s s' : HI s -> gone_for_good u qid s -> FR s s' -> gone_for_good u qid s'.
Proof. intros H G E. eapply gone_for_good_GR; eauto. apply GR_FR. exact E. Qed.

Lemma chan_reject_drop_eq s e : chan_rejectmsg s e false = chan_ackmsg s e.
Proof. unfold chan_rejectmsg, chan_ackmsg. destruct (origin_queue s e); reflexivity. Qed.

(* end to end, any label: message u left queue object qid in this step and its key is out of the effective store afterwards -
   along every graceful continuation the object never holds it again *)
Theorem settled_by_step_never_again cfg fx ls0 l ls2 qid u :
  fx_clear_current fx = true -> is_restart l = false -> graceful ls2 = true ->
  let s := fst (run cfg fx (init cfg) ls0) in
  let s' := fst (step cfg fx s l) in
  In u (held s qid) -> ~ In u (held s' qid) -> key_gone u qid s' -> ~ In u (held (fst (run cfg fx s' ls2)) qid).
Proof.
  intros Hfx Hl Hg s s' Hin Hout Hk.
  assert (H : HI s) by (apply HI_reachable; exact Hfx). assert (C : CI s) by (apply CI_run; apply CI_init).
  assert (H' : HI s') by (apply holder_step; auto). assert (C' : CI s') by (apply CI_step; auto).
  assert (G : gone_for_good u qid s') by (apply (gone_for_good_intro u qid s s'); auto; apply growth_step; auto).
  pose proof (gone_for_good_run cfg fx u qid ls2 false s' Hfx Hg (fun E => ltac:(discriminate E)) C' H' G) as ((_ & _ & R) & _). exact R.
Qed.

(* a key with a pending delete is out of the effective store *)
Lemma key_gone_of_del u qid qn s : HI s -> In (qn, qid) (nmv s) -> In (u, qn) (st_del s) -> key_gone u qid s.
Proof.
  intros H Hin0 Hd qn' Hin He. rewrite (nmv_id_unique s qid qn' qn (hi_qids_nodup _ H) Hin Hin0) in He.
  destruct He as [[He1 [He2|He2]]|[He1 He2]]; [exact (He2 Hd)|exact (hi_db_add _ H _ He1 He2)|exact (He2 Hd)].
Qed.
(* a queue object that is gone has no name *)
Lemma key_gone_dead u qid s : queue_alive s qid = false -> key_gone u qid s.
Proof.
  intros Hd qn Hin _. unfold nmv in Hin. apply in_map_iff in Hin. destruct Hin as (kq & E & Hk). inversion E; subst.
  assert (Ht : queue_alive s (q_id (snd kq)) = true) by (unfold queue_alive; apply existsb_exists; exists kq; split; [exact Hk|apply N.eqb_refl]).
  congruence.
Qed.
Lemma key_gone_mono u qid s s' : nmv s' = nmv s -> (forall k, eff s' k -> eff s k) -> key_gone u qid s -> key_gone u qid s'.
Proof. intros A B Hk qn Hin He. rewrite A in Hin. exact (Hk qn Hin (B _ He)). Qed.

(* basic.ack / basic.reject / basic.nack without requeue of ONE delivery of a persistent message of a durable queue *)
Theorem ack_handler_gone_for_good cfg s c h tag e qu m :
  HI s -> find (fun u => u_tag u =? tag) (U s c h) = Some e -> origin_queue s e = Some qu -> q_active qu = true ->
  get_msg s (u_msg e) = Some m -> q_durable qu && m_pers m = true ->
  gone_for_good (u_msg e) (u_qid e) (fst (handle_ack cfg s c h tag false)).
Proof.
  intros H Hf Ho Ha Hm Hdp. unfold handle_ack. unfold U in Hf. destruct (get_chan s c h) as [ch|] eqn:Hch; [|discriminate].
  rewrite Hf. cbn [fst]. pose proof (find_some _ _ Hf) as [Hin Et]. apply N.eqb_eq in Et. subst tag.
  assert (HinU : In e (U s c h)) by (unfold U; rewrite Hch; exact Hin).
  eapply gone_for_good_FR; [|eapply ack_gone_for_good; eauto|apply FR_dec_qos].
  eapply HI_HB; [exact H|apply HB_ack_one].
Qed.
Theorem reject_handler_gone_for_good cfg s c h tag cls mth e qu m :
  HI s -> find (fun u => u_tag u =? tag) (U s c h) = Some e -> origin_queue s e = Some qu -> q_active qu = true ->
  get_msg s (u_msg e) = Some m -> q_durable qu && m_pers m = true ->
  gone_for_good (u_msg e) (u_qid e) (fst (handle_reject cfg s c h tag false false cls mth)).
Proof.
  intros H Hf Ho Ha Hm Hdp. unfold handle_reject. unfold U in Hf. destruct (get_chan s c h) as [ch|] eqn:Hch; [|discriminate].
  rewrite Hf. cbn [fst]. pose proof (find_some _ _ Hf) as [Hin Et]. apply N.eqb_eq in Et. subst tag.
  assert (HinU : In e (U s c h)) by (unfold U; rewrite Hch; exact Hin). rewrite chan_reject_drop_eq.
  eapply gone_for_good_FR; [|eapply ack_gone_for_good; eauto|apply FR_dec_qos].
  eapply HI_HB; [exact H|apply HB_ack_one].
Qed.

(* queue.purge of a durable queue: whatever it removed is out of the effective store *)
Theorem purge_handler_key_gone cfg fx s c h q nowait qu u :
  HI s -> get_chan s c h <> None -> queue_found s q = Some qu -> locked qu c = false -> q_durable qu = true ->
  key_gone u (q_id qu) (fst (fst (handle_method cfg fx s c h (MQPurge q nowait)))).
Proof.
  intros H Hch Eqf Hl Hd. unfold handle_method. destruct (get_chan s c h) as [ch|]; [|congruence].
  rewrite Eqf, Hl, Hd. apply queue_found_get' in Eqf. unfold ok. cbn [fst].
  eapply key_gone_mono; [| |apply (purge_key_gone s q (q_id qu) u H (get_queue_nmv s q qu Eqf))].
  - match goal with |- nmv (set_queue ?s2 q ?qu') = _ => rewrite (nmv_set_queue_keep s2 q qu qu' Eqf eq_refl) end. reflexivity.
  - intros k Hk. exact Hk.
Qed.

(* queue deletion (queue.delete, auto-delete, the end of the owner's connection): the object is gone *)
Theorem delete_key_gone b s qn iu ie n u qu :
  HI s -> get_queue s qn = Some qu -> snd (vhost_delete_queue b s qn iu ie) = Some n ->
  key_gone u (q_id qu) (fst (fst (vhost_delete_queue b s qn iu ie))).
Proof.
  intros H Hq Hr. unfold vhost_delete_queue in *. rewrite Hq in *. destruct (_ || _); [discriminate|].
  pose proof (FR_cancel_fold (q_consumers qu) s []) as Hf.
  destruct (fold_left _ (q_consumers qu) (s, [])) as [s1 e1]. cbn [fst snd] in *.
  destruct Hf as (_ & Nm & _). intros qn' Hin _. unfold nmv in Hin. cbn [queues set] in Hin. rewrite adel_filter in Hin.
  apply in_map_iff in Hin. destruct Hin as (kq & E & Hk). apply filter_In in Hk. destruct Hk as [Hk Hne].
  assert (Hq1 : queues (if q_durable qu then store_purge s1 qn else s1) = queues s1) by (destruct (q_durable qu); reflexivity).
  cbn [queues set] in Hk. rewrite Hq1 in Hk.
  assert (Hin1 : In (qn', q_id qu) (nmv s)).
  { rewrite <- Nm. rewrite <- E. apply (in_map (fun kq : string * queue => (fst kq, q_id (snd kq))) _ _ Hk). }
  pose proof (nmv_id_unique s (q_id qu) qn' qn (hi_qids_nodup _ H) Hin1 (get_queue_nmv s qn qu Hq)) as En.
  inversion E as [[E1 E2]]. rewrite E1, En in Hne. rewrite (proj2 (seqb_spec qn qn) eq_refl) in Hne. discriminate.
Qed.

(* no-ack deliveries: Queue.AckMsg runs inside the delivery *)
Lemma st_del_upd_chan s c h f : st_del (upd_chan s c h f) = st_del s.
Proof. unfold upd_chan. destruct (get_chan s c h); [apply st_del_set_chan|reflexivity]. Qed.
Lemma st_del_upd_queue s q f : st_del (upd_queue s q f) = st_del s.
Proof. unfold upd_queue. destruct (get_queue s q); reflexivity. Qed.
Lemma st_del_wake s c h tag : st_del (fst (wake_consumer s c h tag)) = st_del s.
Proof.
  unfold wake_consumer. destruct (get_chan s c h) as [ch|]; [|reflexivity]. destruct (find_consumer ch tag) as [cm|]; [|reflexivity].
  destruct (consume_msg cm). cbn [fst]. apply st_del_set_chan.
Qed.
Lemma st_del_queue_ackmsg s qn u qu m :
  get_queue s qn = Some qu -> get_msg s u = Some m -> q_active qu = true -> q_durable qu && m_pers m = true ->
  st_del (queue_ackmsg s qn u) = st_del s ++ [(u, qn)].
Proof. intros A B C D. unfold queue_ackmsg. rewrite A, B, C, D. reflexivity. Qed.
Lemma heap_upd_queue s q f : heap (upd_queue s q f) = heap s.
Proof. unfold upd_queue. destruct (get_queue s q); reflexivity. Qed.

Lemma consumer_turn_noack_del cfg fx s c h tag ch cm qu u rest m :
  get_chan s c h = Some ch -> find_consumer ch tag = Some cm -> c_token cm = true -> c_status cm <> CStopped ->
  get_queue s (c_queue cm) = Some qu -> q_active qu = true -> q_ready qu = u :: rest -> c_noack cm = true ->
  get_msg s u = Some m -> q_durable qu && m_pers m = true ->
  In (u, c_queue cm) (st_del (fst (consumer_turn cfg fx s c h tag))).
Proof.
  intros Hch Hfc Htok Hst Hq Ha Er Hna Hm Hdp. unfold consumer_turn. rewrite Hch, Hfc, Htok. cbn [negb].
  set (s0 := set_chan s c h _).
  assert (Q0 : queues s0 = queues s) by apply queues_set_chan.
  assert (P0 : heap s0 = heap s) by apply heap_set_chan.
  rewrite (get_queue_same_queues _ _ _ Q0), Hq, Ha, Er, Hna. cbn [negb]. clearbody s0.
  assert (Hq1 : get_queue (upd_queue s0 (c_queue cm) (popped rest)) (c_queue cm) = Some (popped rest qu))
    by (apply get_queue_upd_queue_at; rewrite (get_queue_same_queues _ _ _ Q0); exact Hq).
  assert (Hm1 : get_msg (upd_queue s0 (c_queue cm) (popped rest)) u = Some m)
    by (rewrite (get_msg_same_heap s _ u); [exact Hm|rewrite heap_upd_queue; exact P0]).
  destruct (popped_keeps rest qu) as (_ & _ & _ & _ & Kd & Ka & _).
  assert (Hd1 : st_del (queue_ackmsg (upd_queue s0 (c_queue cm) (popped rest)) (c_queue cm) u) = st_del s0 ++ [(u, c_queue cm)]).
  { rewrite (st_del_queue_ackmsg _ _ _ _ m Hq1 Hm1); [rewrite st_del_upd_queue; reflexivity|rewrite Ka; exact Ha|rewrite Kd; exact Hdp]. }
  destruct (c_status cm); try congruence.
  all: match goal with |- context [wake_consumer ?st ?c0 ?h0 ?tag0] => pose proof (st_del_wake st c0 h0 tag0) as Hw; destruct (wake_consumer st c0 h0 tag0) as [s9 b9] end.
  all: cbn [fst] in *; rewrite Hw; cbn [st_del set].
  all: destruct (fx_noack_total_once fx); rewrite st_del_upd_queue; cbn [st_del set]; rewrite st_del_upd_chan, Hd1; apply in_or_app; right; left; reflexivity.
Qed.

Lemma get_noack_del cfg fx s c h q ch qu u rest m :
  fx_noack_total_once fx = true ->
  get_chan s c h = Some ch -> queue_found s q = Some qu -> fx_excl_owner fx && locked qu c = false -> q_ready qu = u :: rest ->
  get_msg s u = Some m -> q_durable qu && m_pers m = true ->
  In (u, q) (st_del (fst (fst (handle_method cfg fx s c h (MGet q true))))).
Proof.
  intros Hfx Hch Eqf Hl Er Hm Hdp. unfold handle_method. rewrite Hch, Eqf, Hl, Er, Hfx. unfold ok. cbn [fst].
  assert (Ha : q_active qu = true) by (unfold queue_found in Eqf; destruct (get_queue s q) as [q0|]; [|discriminate]; destruct (q_active q0) eqn:E; inversion Eqf; subst; exact E).
  apply queue_found_get' in Eqf.
  set (sP := upd_queue s q (popped rest)).
  assert (Hq1 : get_queue sP q = Some (popped rest qu)) by (apply get_queue_upd_queue_at; exact Eqf).
  destruct (popped_keeps rest qu) as (_ & _ & _ & _ & Kd & Ka & _).
  cbn [st_del set]. rewrite st_del_upd_queue. cbn [st_del set].
  match goal with |- In _ (st_del (queue_ackmsg ?sB q u)) => assert (Hd : st_del (queue_ackmsg sB q u) = st_del sB ++ [(u, q)]) end.
  { apply (st_del_queue_ackmsg _ _ _ (popped rest qu) m).
    - rewrite (get_queue_same_queues sP _ q); [exact Hq1|apply queues_upd_chan].
    - rewrite (get_msg_same_heap s _ u); [exact Hm|]. unfold upd_chan. destruct (get_chan sP c h); [rewrite heap_set_chan|]; apply heap_upd_queue.
    - rewrite Ka. exact Ha.
    - rewrite Kd. exact Hdp. }
  rewrite Hd. apply in_or_app. right. left. reflexivity.
Qed.

(* a frame on an open channel of an open connection that the handler accepts: the step is the handler *)
Lemma ensure_chan_id s c h ch : get_chan s c h = Some ch -> ensure_chan s c h = s.
Proof.
  unfold get_chan, ensure_chan. destruct (get_conn s c) as [cn|]; [|discriminate]. intros E. rewrite E. reflexivity.
Qed.
Lemma apply_err_st_none cfg fx o s c h r : snd r = None -> apply_err_st cfg fx o s c h r = fst r.
Proof. destruct r as [[s1 e1] e]. cbn [snd]. intros ->. unfold apply_err_st, apply_err. cbn. destruct o; reflexivity. Qed.
Lemma step_is_handler cfg fx s c h m cn ch :
  get_conn s c = Some cn -> cn_stage cn = StOpen -> get_chan s c h = Some ch -> ch_status ch = ChOpen -> h <> 0 ->
  is_conn_class m = false -> snd (handle_method cfg fx s c h m) = None ->
  step cfg fx s (LMethod c h m) = fst (handle_method cfg fx s c h m).
Proof.
  intros Hc Hs Hch Hst Hh Hm He. cbn [step]. rewrite Hc, Hs. cbn [cstage_eqb negb andb]. rewrite (ensure_chan_id s c h ch Hch).
  assert (Eh : (h =? 0) = false) by (apply N.eqb_neq; exact Hh).
  assert (Eu : chan_usable s c h = true) by (unfold chan_usable; rewrite Hch, Hst; reflexivity).
  rewrite Hch, Hst, Hm, Eh, Eu. cbn [Bool.eqb negb andb].
  destruct m; try discriminate; cbn [is_chan_close stage_allows negb andb];
    rewrite ?andb_false_r; cbn [andb negb]; apply apply_err_st_none; exact He.
Qed.

Lemma run_from_gone cfg fx ls0 l ls2 u qid :
  fx_clear_current fx = true -> graceful ls2 = true ->
  let s := fst (run cfg fx (init cfg) ls0) in
  let s' := fst (step cfg fx s l) in
  gone_for_good u qid s' -> ~ In u (held (fst (run cfg fx s' ls2)) qid).
Proof.
  intros Hfx Hg s s' G.
  assert (H : HI s) by (apply HI_reachable; exact Hfx). assert (C : CI s) by (apply CI_run; apply CI_init).
  assert (H' : HI s') by (apply holder_step; auto). assert (C' : CI s') by (apply CI_step; auto).
  pose proof (gone_for_good_run cfg fx u qid ls2 false s' Hfx Hg (fun E => ltac:(discriminate E)) C' H' G) as ((_ & _ & R) & _). exact R.
Qed.

(* END TO END, per label (persistent message, durable queue).  The frame arrives on an open channel (h <> 0) of an open connection.
   basic.ack of one delivery: *)
Theorem ack_never_again_graceful cfg fx ls0 ls2 c h tag cn ch e qu m :
  fx_clear_current fx = true -> graceful ls2 = true ->
  let s := fst (run cfg fx (init cfg) ls0) in
  get_conn s c = Some cn -> cn_stage cn = StOpen -> get_chan s c h = Some ch -> ch_status ch = ChOpen -> h <> 0 ->
  find (fun u => u_tag u =? tag) (ch_unacked ch) = Some e -> origin_queue s e = Some qu -> q_active qu = true ->
  get_msg s (u_msg e) = Some m -> q_durable qu && m_pers m = true ->
  ~ In (u_msg e) (held (fst (run cfg fx (fst (step cfg fx s (LMethod c h (MAck tag false)))) ls2)) (u_qid e)).
Proof.
  intros Hfx Hg s Hc Hs Hch Hst Hh Hf Ho Ha Hm Hdp.
  assert (HI0 : HI s) by (apply HI_reachable; exact Hfx).
  assert (Hf' : find (fun u => u_tag u =? tag) (U s c h) = Some e) by (unfold U; rewrite Hch; exact Hf).
  assert (He : snd (handle_method cfg fx s c h (MAck tag false)) = None).
  { unfold handle_method. rewrite Hch. unfold handle_ack. rewrite Hch, Hf. reflexivity. }
  apply run_from_gone; auto. fold s. rewrite (step_is_handler cfg fx s c h (MAck tag false) cn ch Hc Hs Hch Hst Hh eq_refl He).
  assert (Es : fst (fst (handle_method cfg fx s c h (MAck tag false))) = fst (handle_ack cfg s c h tag false)).
  { unfold handle_method. rewrite Hch. destruct (handle_ack cfg s c h tag false). reflexivity. }
  rewrite Es. eapply ack_handler_gone_for_good; eauto.
Qed.

(* basic.reject / basic.nack of one delivery without requeue *)
Theorem reject_never_again_graceful cfg fx ls0 ls2 c h tag cn ch e qu m :
  fx_clear_current fx = true -> graceful ls2 = true ->
  let s := fst (run cfg fx (init cfg) ls0) in
  get_conn s c = Some cn -> cn_stage cn = StOpen -> get_chan s c h = Some ch -> ch_status ch = ChOpen -> h <> 0 ->
  find (fun u => u_tag u =? tag) (ch_unacked ch) = Some e -> origin_queue s e = Some qu -> q_active qu = true ->
  get_msg s (u_msg e) = Some m -> q_durable qu && m_pers m = true ->
  ~ In (u_msg e) (held (fst (run cfg fx (fst (step cfg fx s (LMethod c h (MReject tag false)))) ls2)) (u_qid e)) /\
  ~ In (u_msg e) (held (fst (run cfg fx (fst (step cfg fx s (LMethod c h (MNack tag false false)))) ls2)) (u_qid e)).
Proof.
  intros Hfx Hg s Hc Hs Hch Hst Hh Hf Ho Ha Hm Hdp.
  assert (HI0 : HI s) by (apply HI_reachable; exact Hfx).
  assert (Hf' : find (fun u => u_tag u =? tag) (U s c h) = Some e) by (unfold U; rewrite Hch; exact Hf).
  split.
  - assert (He : snd (handle_method cfg fx s c h (MReject tag false)) = None).
    { unfold handle_method. rewrite Hch. unfold handle_reject. rewrite Hch, Hf. reflexivity. }
    apply run_from_gone; auto. fold s. rewrite (step_is_handler cfg fx s c h (MReject tag false) cn ch Hc Hs Hch Hst Hh eq_refl He).
    assert (Es : fst (fst (handle_method cfg fx s c h (MReject tag false))) = fst (handle_reject cfg s c h tag false false 60 90)).
    { unfold handle_method. rewrite Hch. destruct (handle_reject cfg s c h tag false false 60 90). reflexivity. }
    rewrite Es. eapply reject_handler_gone_for_good; eauto.
  - assert (He : snd (handle_method cfg fx s c h (MNack tag false false)) = None).
    { unfold handle_method. rewrite Hch. unfold handle_reject. rewrite Hch, Hf. reflexivity. }
    apply run_from_gone; auto. fold s. rewrite (step_is_handler cfg fx s c h (MNack tag false false) cn ch Hc Hs Hch Hst Hh eq_refl He).
    assert (Es : fst (fst (handle_method cfg fx s c h (MNack tag false false))) = fst (handle_reject cfg s c h tag false false 60 120)).
    { unfold handle_method. rewrite Hch. destruct (handle_reject cfg s c h tag false false 60 120). reflexivity. }
    rewrite Es. eapply reject_handler_gone_for_good; eauto.
Qed.

(* queue.purge of a durable queue: what it removed *)
Theorem purge_never_again_graceful cfg fx ls0 ls2 c h q nowait cn ch qu u :
  fx_clear_current fx = true -> graceful ls2 = true ->
  let s := fst (run cfg fx (init cfg) ls0) in
  let s' := fst (step cfg fx s (LMethod c h (MQPurge q nowait))) in
  get_conn s c = Some cn -> cn_stage cn = StOpen -> get_chan s c h = Some ch -> ch_status ch = ChOpen -> h <> 0 ->
  queue_found s q = Some qu -> locked qu c = false -> q_durable qu = true ->
  In u (held s (q_id qu)) -> ~ In u (held s' (q_id qu)) ->
  ~ In u (held (fst (run cfg fx s' ls2)) (q_id qu)).
Proof.
  intros Hfx Hg s s' Hc Hs Hch Hst Hh Eqf Hl Hd Hin Hout.
  assert (HI0 : HI s) by (apply HI_reachable; exact Hfx).
  apply settled_by_step_never_again; auto. fold s. fold s'.
  assert (He : snd (handle_method cfg fx s c h (MQPurge q nowait)) = None).
  { unfold handle_method. rewrite Hch, Eqf, Hl. reflexivity. }
  unfold s'. rewrite (step_is_handler cfg fx s c h (MQPurge q nowait) cn ch Hc Hs Hch Hst Hh eq_refl He).
  apply purge_handler_key_gone; auto. congruence.
Qed.

(* queue.delete: the waiting messages of the deleted object *)
Theorem delete_never_again_graceful cfg fx ls0 ls2 c h q iu ie nowait cn ch qu n u :
  fx_clear_current fx = true -> graceful ls2 = true ->
  let s := fst (run cfg fx (init cfg) ls0) in
  let s' := fst (step cfg fx s (LMethod c h (MQDelete q iu ie nowait))) in
  get_conn s c = Some cn -> cn_stage cn = StOpen -> get_chan s c h = Some ch -> ch_status ch = ChOpen -> h <> 0 ->
  queue_found s q = Some qu -> locked qu c = false ->
  snd (vhost_delete_queue (negb (fx_delete_checks_first fx)) s q iu ie) = Some n ->
  In u (held s (q_id qu)) -> ~ In u (held s' (q_id qu)) ->
  ~ In u (held (fst (run cfg fx s' ls2)) (q_id qu)).
Proof.
  intros Hfx Hg s s' Hc Hs Hch Hst Hh Eqf Hl Hr Hin Hout.
  assert (HI0 : HI s) by (apply HI_reachable; exact Hfx).
  apply settled_by_step_never_again; auto. fold s. fold s'.
  pose proof (delete_key_gone (negb (fx_delete_checks_first fx)) s q iu ie n u qu HI0 (queue_found_get' _ _ _ Eqf) Hr) as Hk.
  assert (He : snd (handle_method cfg fx s c h (MQDelete q iu ie nowait)) = None /\
               fst (fst (handle_method cfg fx s c h (MQDelete q iu ie nowait))) = fst (fst (vhost_delete_queue (negb (fx_delete_checks_first fx)) s q iu ie))).
  { unfold handle_method. rewrite Hch, Eqf, Hl. destruct (vhost_delete_queue _ s q iu ie) as [[s1 e1] r1]. cbn [snd] in Hr. rewrite Hr. split; reflexivity. }
  destruct He as [He Es]. unfold s'. rewrite (step_is_handler cfg fx s c h (MQDelete q iu ie nowait) cn ch Hc Hs Hch Hst Hh eq_refl He). rewrite Es. exact Hk.
Qed.

(* a consumer turn in no-ack mode *)
Theorem noack_turn_never_again_graceful cfg fx ls0 ls2 c h tag ch cm qu u rest m :
  fx_clear_current fx = true -> graceful ls2 = true ->
  let s := fst (run cfg fx (init cfg) ls0) in
  let s' := fst (step cfg fx s (LConsumerTurn c h tag)) in
  get_chan s c h = Some ch -> find_consumer ch tag = Some cm -> c_token cm = true -> c_status cm <> CStopped ->
  get_queue s (c_queue cm) = Some qu -> q_active qu = true -> q_ready qu = u :: rest -> c_noack cm = true ->
  get_msg s u = Some m -> q_durable qu && m_pers m = true ->
  In u (held s (q_id qu)) -> ~ In u (held s' (q_id qu)) ->
  ~ In u (held (fst (run cfg fx s' ls2)) (q_id qu)).
Proof.
  intros Hfx Hg s s' Hch Hfc Htok Hst Hq Ha Er Hna Hm Hdp Hin Hout.
  assert (HI0 : HI s) by (apply HI_reachable; exact Hfx). assert (C0 : CI s) by (apply CI_run; apply CI_init).
  assert (HI1 : HI s') by (apply holder_step; auto).
  apply settled_by_step_never_again; auto. fold s. fold s'.
  pose proof (consumer_turn_noack_del cfg fx s c h tag ch cm qu u rest m Hch Hfc Htok Hst Hq Ha Er Hna Hm Hdp) as Hdel.
  assert (Nm : nmv s' = nmv s).
  { unfold s'. cbn [step]. destruct (consumer_turn_effect cfg fx s c h tag) as [[E _]|(? & ? & ? & ? & ? & ? & _ & _ & _ & _ & D & _)]; [apply E|apply D]. }
  apply (key_gone_of_del u (q_id qu) (c_queue cm) s' HI1); [rewrite Nm; apply get_queue_nmv; exact Hq|exact Hdel].
Qed.

(* basic.get in no-ack mode *)
Theorem noack_get_never_again_graceful cfg fx ls0 ls2 c h q cn ch qu u rest m :
  fx_clear_current fx = true -> fx_noack_total_once fx = true -> graceful ls2 = true ->
  let s := fst (run cfg fx (init cfg) ls0) in
  let s' := fst (step cfg fx s (LMethod c h (MGet q true))) in
  get_conn s c = Some cn -> cn_stage cn = StOpen -> get_chan s c h = Some ch -> ch_status ch = ChOpen -> h <> 0 ->
  queue_found s q = Some qu -> fx_excl_owner fx && locked qu c = false -> q_ready qu = u :: rest ->
  get_msg s u = Some m -> q_durable qu && m_pers m = true ->
  In u (held s (q_id qu)) -> ~ In u (held s' (q_id qu)) ->
  ~ In u (held (fst (run cfg fx s' ls2)) (q_id qu)).
Proof.
  intros Hfx Hn Hg s s' Hc Hs Hch Hst Hh Eqf Hl Er Hm Hdp Hin Hout.
  assert (HI0 : HI s) by (apply HI_reachable; exact Hfx). assert (C0 : CI s) by (apply CI_run; apply CI_init).
  assert (HI1 : HI s') by (apply holder_step; auto).
  apply settled_by_step_never_again; auto. fold s. fold s'.
  assert (He : snd (handle_method cfg fx s c h (MGet q true)) = None).
  { unfold handle_method. rewrite Hch, Eqf, Hl, Er. reflexivity. }
  assert (Es : s' = fst (fst (handle_method cfg fx s c h (MGet q true)))).
  { unfold s'. rewrite (step_is_handler cfg fx s c h (MGet q true) cn ch Hc Hs Hch Hst Hh eq_refl He). reflexivity. }
  pose proof (get_noack_del cfg fx s c h q ch qu u rest m Hn Hch Eqf Hl Er Hm Hdp) as Hdel. rewrite <- Es in Hdel.
  assert (Nm : nmv s' = nmv s).
  { rewrite Es. destruct (get_effect cfg fx s c h q true) as [[E _]|(? & ? & ? & ? & _ & _ & _ & D & _)]; [apply E|apply D]. }
  apply (key_gone_of_del u (q_id qu) q s' HI1); [rewrite Nm; apply get_queue_nmv; apply queue_found_get'; exact Eqf|exact Hdel].
Qed.

(* ---- only consumer turns and basic.get send deliveries ---- *)
Definition nd (evs : list event) : Prop := forall e, In e evs -> is_delivery e = false.
Lemma nd_nil : nd []. Proof. intros e []. Qed.
Lemma nd_app a b : nd a -> nd b -> nd (a ++ b).
Proof. intros A B e He. apply in_app_or in He. destruct He; auto. Qed.
Lemma nd_out1 c h f : is_delivery (c, h, f) = false -> nd (out1 c h f).
Proof. intros E e [<-|[]]. exact E. Qed.
Lemma nd_content s c h u : nd (content_frames s c h u).
Proof. intros e He. eapply content_frames_not_delivery; eauto. Qed.
Lemma nd_if (b : bool) x y : nd x -> nd y -> nd (if b then x else y).
Proof. destruct b; auto. Qed.

Ltac nds := repeat first [ apply nd_nil | apply nd_app | apply nd_content | apply nd_if | (apply nd_out1; reflexivity) | assumption ].

Lemma nd_send_error s c h e : nd (snd (send_error s c h e)).
Proof. destruct e; cbn [send_error snd]; nds. Qed.

Lemma nd_cancel_fold l : forall s evs, nd evs ->
  nd (snd (fold_left (fun acc x => let '(s, evs) := acc in let '(s', e) := consumer_cancel s x in (s', evs ++ e)) l (s, evs))).
Proof.
  induction l as [|[[c h] tag] t IH]; intros s evs H; cbn [fold_left]; [exact H|]. cbn [consumer_cancel]. apply IH. nds.
Qed.

Lemma nd_vhost_delete_queue b s qn iu ie : nd (snd (fst (vhost_delete_queue b s qn iu ie))).
Proof.
  unfold vhost_delete_queue. destruct (get_queue s qn) as [qu|]; [|apply nd_nil]. destruct (_ || _); [apply nd_nil|].
  pose proof (nd_cancel_fold (q_consumers qu) s [] nd_nil) as Hf.
  destruct (fold_left _ (q_consumers qu) (s, [])) as [s1 e1]. exact Hf.
Qed.

Lemma nd_delete_fold b l : forall s evs, nd evs ->
  nd (snd (fold_left (fun acc qn => let '(s, evs) := acc in
                                    let '(s', e, _) := vhost_delete_queue b s qn false false in (s', evs ++ e)) l (s, evs))).
Proof.
  induction l as [|x t IH]; intros s evs H; cbn [fold_left]; [exact H|].
  pose proof (nd_vhost_delete_queue b s x false false) as Hd.
  destruct (vhost_delete_queue b s x false false) as [[s1 e1] r1]. cbn [fst snd] in Hd. apply IH. nds.
Qed.

Lemma nd_conn_close cfg fx s c : nd (snd (conn_close cfg fx s c)).
Proof.
  unfold conn_close. destruct (get_conn s c) as [cn|]; [|apply nd_nil].
  set (s1 := fold_left _ _ s).
  pose proof (nd_delete_fold (negb (fx_delete_checks_first fx))
                (map fst (filter (fun kv => q_excl (snd kv) && (q_owner (snd kv) =? c)) (queues s1))) s1 [] nd_nil) as Hd.
  destruct (fold_left _ _ (s1, [])) as [s2 e2]. cbn [snd] in *. nds.
Qed.

Lemma nd_apply_err s c h r : nd (snd (fst r)) -> nd (snd (apply_err s c h r)).
Proof.
  destruct r as [[s1 e1] [e|]]; cbn [fst snd]; auto. intros H. unfold apply_err. pose proof (nd_send_error s1 c h e) as Hs.
  destruct (send_error s1 c h e) as [s2 e2]. cbn [snd] in *. nds.
Qed.
Lemma nd_apply_err_st cfg fx opened s c h r : nd (snd (fst r)) -> nd (snd (apply_err_st cfg fx opened s c h r)).
Proof.
  intros H. unfold apply_err_st. destruct opened; [apply nd_apply_err; auto|].
  destruct (snd r) as [[| ]|]; try (apply nd_apply_err; auto).
  pose proof (nd_apply_err s c h r H) as H1. destruct (apply_err s c h r) as [s1 e1]. cbn [snd] in *.
  pose proof (nd_conn_close cfg fx s1 c) as H2. destruct (conn_close cfg fx s1 c) as [s2 e2]. cbn [snd] in *. nds.
Qed.

Lemma nd_route fx s c h u : nd (snd (route_and_push fx s c h u)).
Proof.
  unfold route_and_push. destruct (get_msg s u) as [m|]; [|apply nd_nil].
  destruct (alookup _ _ _) as [ex|]; cbn [snd]; [|nds].
  destruct (matched_queues _ _ _); cbn [snd]; nds.
Qed.
Lemma nd_finish fx s c h u : nd (snd (finish_publish fx s c h u)).
Proof. unfold finish_publish. pose proof (nd_route fx s c h u). destruct (route_and_push fx s c h u) as [s1 e1]. exact H. Qed.

Definition is_get (m : meth) : bool := match m with MGet _ _ => true | _ => false end.

Lemma nd_handle_method cfg fx s c h m : is_get m = false -> nd (snd (fst (handle_method cfg fx s c h m))).
Proof.
  intros Hm. unfold handle_method. destruct (get_chan s c h) as [ch|]; [|apply nd_nil].
  destruct m; try discriminate; unfold ok, refuse.
  all: repeat match goal with
              | |- nd (snd (fst (let '(_, _) := ?x in _))) => destruct x eqn:?
              | |- nd (snd (fst (match ?x with _ => _ end))) => destruct x eqn:?
              | |- nd (snd (fst (if ?b then _ else _))) => destruct b
              end; cbn [fst snd]; nds.
  - (* MQDelete *)
    pose proof (nd_vhost_delete_queue (negb (fx_delete_checks_first fx)) s q ifunused ifempty) as Hd.
    match goal with H : vhost_delete_queue _ _ _ _ _ = _ |- _ => rewrite H in Hd end. cbn [fst snd] in Hd. exact Hd.
Qed.

Definition delivering (l : label) : bool :=
  match l with LConsumerTurn _ _ _ => true | LMethod _ _ m => is_get m | _ => false end.

Theorem only_turns_and_gets_deliver cfg fx s l : delivering l = false -> nd (snd (step cfg fx s l)).
Proof.
  intros Hl. destruct l; cbn [step]; try discriminate.
  - destruct (get_conn s c); apply nd_nil.
  - cbn [delivering] in Hl. destruct (get_conn s c) as [cn0|]; [|apply nd_nil].
    destruct (negb _ && negb _)%bool; [apply nd_conn_close|].
    destruct m; try discriminate.
    all: try (repeat match goal with |- context [if ?b then _ else _] => destruct b end;
              first [ apply nd_nil
                    | apply nd_apply_err; first [ apply nd_handle_method; reflexivity | apply nd_nil ]
                    | apply nd_apply_err_st; first [ apply nd_handle_method; reflexivity | apply nd_nil ] ]).
    + destruct (fx_stage fx && negb (h =? 0)); [apply nd_apply_err; apply nd_nil|].
      pose proof (nd_conn_close cfg fx (ensure_chan s c h) c) as Hc.
      destruct (conn_close cfg fx (ensure_chan s c h) c) as [s1 e1]. cbn [snd] in *. nds.
    + destruct (fx_stage fx && negb (h =? 0)); [apply nd_apply_err; apply nd_nil|]. apply nd_conn_close.
  - destruct (get_conn s c) as [cn0|]; [|apply nd_nil].
    destruct (negb _ && negb _)%bool; [apply nd_conn_close|].
    destruct (get_chan _ c h) as [ch|]; [|apply nd_nil].
    destruct (_ && _)%bool; [apply nd_nil|].
    destruct (ch_cur ch) as [u|]; [|apply nd_apply_err_st; apply nd_nil].
    destruct (get_msg _ u) as [m|]; [|apply nd_nil].
    destruct (m_has_header m); [apply nd_apply_err_st; apply nd_nil|].
    destruct (_ && _)%bool; [apply nd_finish|apply nd_nil].
  - destruct (get_conn s c) as [cn0|]; [|apply nd_nil].
    destruct (negb _ && negb _)%bool; [apply nd_conn_close|].
    destruct (get_chan _ c h) as [ch|]; [|apply nd_nil].
    destruct (_ && _)%bool; [apply nd_nil|].
    destruct (ch_cur ch) as [u|]; [|apply nd_apply_err_st; apply nd_nil].
    destruct (get_msg _ u) as [m|]; [|apply nd_nil].
    destruct (negb (m_has_header m)); [apply nd_apply_err_st; apply nd_nil|].
    destruct (_ <? _); [apply nd_apply_err_st; apply nd_nil|].
    destruct (_ <? _); [apply nd_nil|apply nd_finish].
  - apply nd_nil.
  - destruct (autodel s) as [|qn rest]; [apply nd_nil|].
    destruct (get_queue _ qn) as [qu0|]; [|apply nd_nil]. destruct (q_autodel qu0); [|apply nd_nil].
    pose proof (nd_vhost_delete_queue (negb (fx_delete_checks_first fx)) (s <| autodel := rest |>) qn true false) as Hd.
    destruct (vhost_delete_queue _ (s <| autodel := rest |>) qn true false) as [[s1 e1] r1]. exact Hd.
  - apply nd_nil.
  - destruct (relay s) as [|u rest]; [apply nd_nil|]. destruct (get_msg _ u) as [m|]; [|apply nd_nil].
    destruct (m_conf m) as [[[? ?] ?]|]; apply nd_nil.
  - destruct (get_chan s c h) as [ch|]; [|apply nd_nil]. destruct (negb _); [apply nd_nil|].
    destruct (ch_status ch); cbn [snd]; try apply nd_nil; intros e He; apply in_map_iff in He; destruct He as (t & <- & _); reflexivity.
  - pose proof (nd_conn_close cfg fx s c) as Hc. destruct (conn_close cfg fx s c) as [s1 e1]. exact Hc.
  - destruct (get_conn s c); cbn [snd]; nds.
  - destruct (get_conn s c) as [cn0|]; [|apply nd_nil].
    destruct (negb _ && negb _)%bool; [apply nd_conn_close|]. apply nd_apply_err_st. apply nd_nil.
  - destruct (get_conn s c); [|apply nd_nil]. destruct (h =? 0); [apply nd_nil|apply nd_conn_close].
  - unfold restart. cbn [snd]. intros e He. apply in_map_iff in He. destruct He as (kv & <- & _). reflexivity.
Qed.

Lemma nd_in evs e : nd evs -> In e evs -> is_delivery e = true -> False.
Proof. intros H He Hd. rewrite (H e He) in Hd. discriminate. Qed.

Lemma apply_err_st_ok cfg fx o s c h r : snd r = None -> apply_err_st cfg fx o s c h r = fst r.
Proof. destruct r as [[s1 e1] e]. cbn [snd]. intros ->. unfold apply_err_st, apply_err. cbn. destruct o; reflexivity. Qed.

(* every delivery frame any step sends is the hand-over of a message that was waiting in its queue object and that nobody
   held; after the step it waits no more and (ack mode) is held by exactly the delivery just made *)
Theorem step_delivery cfg fx s l e :
  single_holder s -> In e (snd (step cfg fx s l)) -> is_delivery e = true ->
  let s' := fst (step cfg fx s l) in
  exists c h qid u dtag noack,
    fst e = (c, h) /\
    ((exists tg fl ex key, snd e = SDeliver tg dtag fl ex key) \/ (exists fl ex key n, snd e = SGetOk dtag fl ex key n)) /\
    delivered s s' c h qid u dtag noack /\
    In u (ready_of s qid) /\ ~ In u (unacked_of s qid) /\ ~ In u (ready_of s' qid) /\
    cnt u (unacked_of s' qid) = (if noack then 0 else 1)%nat /\
    (noack = false -> exists en, In en (U s' c h) /\ u_tag en = dtag /\ u_msg en = u /\ u_qid en = qid).
Proof.
  intros Hn He Hd. destruct (delivering l) eqn:Hl.
  2:{ rewrite (only_turns_and_gets_deliver cfg fx s l Hl e He) in Hd. discriminate. }
  destruct l; try discriminate.
  - (* basic.get *)
    cbn [delivering] in Hl. destruct m; try discriminate. revert He. cbn [step].
    destruct (get_conn s c) as [cn0|]; [|intros []].
    destruct (negb _ && negb _)%bool; [intros He; exfalso; refine (nd_in _ e _ He Hd); apply nd_conn_close|].
    cbv zeta. cbn [is_conn_class meth_ids fst snd is_chan_close].
    repeat match goal with |- context [if ?b then _ else _] => destruct b end;
      try (intros He; exfalso; refine (nd_in _ e _ He Hd);
           first [apply nd_nil | apply nd_apply_err_st; apply nd_nil | apply nd_apply_err; apply nd_nil]).
    all: destruct (get_effect cfg fx (ensure_chan s c h) c h q noack) as [[_ E]|(qu & u & rest & dtag & _ & _ & En & D & Hev)];
      [intros He; exfalso; refine (nd_in _ e _ He Hd); apply nd_apply_err_st; exact E|].
    all: rewrite (apply_err_st_ok _ _ _ _ _ _ _ En); intros He.
    all: destruct (Hev e He Hd) as (fl & ex & key & n & ->).
    all: assert (D' : delivered s (fst (fst (handle_method cfg fx (ensure_chan s c h) c h (MGet q noack)))) c h (q_id qu) u dtag noack)
           by (eapply delivered_FR_l; [apply FR_ensure_chan|exact D]).
    all: exists c, h, (q_id qu), u, dtag, noack; split; [reflexivity|]; split; [right; exists fl, ex, key, n; reflexivity|]; split; [exact D'|];
         exact (delivered_facts _ _ _ _ _ _ _ _ Hn D').
  - (* consumer turn *)
    destruct (delivery_takes_from_waiting cfg fx s c h tag e Hn He Hd) as (qid & u & dtag & noack & fl & ex & key & -> & D & F).
    exists c, h, qid, u, dtag, noack. split; [reflexivity|]. split; [left; exists tag, fl, ex, key; reflexivity|]. split; [exact D|exact F].
Qed.

(* ================================================================== *)
(* what the hypotheses are for (evaluated, not assumed) *)
Definition ex_cfg : config := {| cfg_rabbit := true; cfg_rollback := true; cfg_release_first := false |}.

(* fx_clear_current = false (F37 unrepaired): an empty body frame after a complete publish routes the same message again *)
Example clear_current_needed :
  let fx := {| fx_direct_all := true; fx_redelivered := true; fx_delete_checks_first := true; fx_noack_total_once := true;
               fx_get_count := true; fx_closeok_releases := true; fx_excl_owner := true; fx_clear_current := false; fx_not_impl := true;
               fx_empty_body := true; fx_discard_closing := true; fx_nowait := true; fx_stage := true; fx_reopen_resets := true;
               fx_chan_open := true |} in
  held (fst (run ex_cfg fx (init ex_cfg)
               [LConnect 1; LMethod 1 1 MChannelOpen; LMethod 1 1 (MQDeclare "a" false false false false false);
                LMethod 1 1 (MPublish "" "a" false false); LHeader 1 1 9 2 false; LBody 1 1 2; LBody 1 1 0])) 1 = [1; 1].
Proof. vm_compute. reflexivity. Qed.

(* KILL ONLY (LRestart with operations pending in the store; a graceful stop is [LPersistTick; LRestart]): a delete that is
   still pending is lost, the acknowledged message comes back.  After the graceful sequence it does not. *)
Example kill_resurrects_acked :
  let s := fst (run ex_cfg all_fixed (init ex_cfg)
               [LConnect 1; LMethod 1 1 MChannelOpen; LMethod 1 1 (MQDeclare "a" true false false false false);
                LMethod 1 1 (MPublish "" "a" false false); LHeader 1 1 9 2 true; LBody 1 1 2; LPersistTick;
                LMethod 1 1 (MGet "a" false); LMethod 1 1 (MAck 1 false)]) in
  held s 1 = [] /\ st_del s = [(1, "a"%string)] /\ held (fst (step ex_cfg all_fixed s LRestart)) 1 = [1] /\
  held (fst (run ex_cfg all_fixed s [LPersistTick; LRestart])) 1 = [].
Proof. vm_compute. repeat split; reflexivity. Qed.

(* no longer reachable (store_purge cancels what is pending): a purge, or a delete + declare under the same name, that overtakes
   the pending add of a message - neither a graceful restart nor a kill brings the message back *)
Example purge_cancels_pending_add :
  let s := fst (run ex_cfg all_fixed (init ex_cfg)
               [LConnect 1; LMethod 1 1 MChannelOpen; LMethod 1 1 (MQDeclare "a" true false false false false);
                LMethod 1 1 (MPublish "" "a" false false); LHeader 1 1 9 2 true; LBody 1 1 2; LMethod 1 1 (MQPurge "a" false)]) in
  held s 1 = [] /\ held (fst (run ex_cfg all_fixed s [LPersistTick; LRestart])) 1 = [] /\ held (fst (step ex_cfg all_fixed s LRestart)) 1 = [].
Proof. vm_compute. repeat split; reflexivity. Qed.
Example delete_cancels_pending_add :
  let s := fst (run ex_cfg all_fixed (init ex_cfg)
               [LConnect 1; LMethod 1 1 MChannelOpen; LMethod 1 1 (MQDeclare "a" true false false false false);
                LMethod 1 1 (MPublish "" "a" false false); LHeader 1 1 9 2 true; LBody 1 1 2;
                LMethod 1 1 (MQDelete "a" false false false); LMethod 1 1 (MQDeclare "a" true false false false false)]) in
  held s 2 = [] /\ held (fst (run ex_cfg all_fixed s [LPersistTick; LRestart])) 2 = [] /\ held (fst (step ex_cfg all_fixed s LRestart)) 2 = [].
Proof. vm_compute. repeat split; reflexivity. Qed.

(* no longer reachable (store_writeback leaves a pending add alone; st_db and st_add share no key: hi_db_add): a requeue while the
   add of the message is still pending, then redelivery and ack - the tick cancels the add, nothing comes back *)
Example pending_requeue_then_ack_stays_away :
  let s := fst (run ex_cfg all_fixed (init ex_cfg)
               [LConnect 1; LMethod 1 1 MChannelOpen; LMethod 1 1 (MQDeclare "a" true false false false false);
                LMethod 1 1 (MPublish "" "a" false false); LHeader 1 1 9 2 true; LBody 1 1 2;
                LMethod 1 1 (MGet "a" false); LMethod 1 1 (MReject 1 true); LMethod 1 1 (MGet "a" false); LMethod 1 1 (MAck 2 false)]) in
  held s 1 = [] /\ st_add s = [(1, "a"%string)] /\ st_db s = [] /\ st_del s = [(1, "a"%string)] /\
  held (fst (run ex_cfg all_fixed s [LPersistTick; LRestart])) 1 = [].
Proof. vm_compute. repeat split; reflexivity. Qed.

(* F41-unsettled: a purge deletes the keys of deliveries that are unsettled; nothing comes BACK because of it, but a message that
   is still held is lost by a graceful restart *)
Example purge_loses_unsettled :
  let s := fst (run ex_cfg all_fixed (init ex_cfg)
               [LConnect 1; LMethod 1 1 MChannelOpen; LMethod 1 1 (MQDeclare "a" true false false false false);
                LMethod 1 1 (MPublish "" "a" false false); LHeader 1 1 9 2 true; LBody 1 1 2; LPersistTick;
                LMethod 1 1 (MGet "a" false); LMethod 1 1 (MQPurge "a" false)]) in
  held s 1 = [1] /\ held (fst (run ex_cfg all_fixed s [LPersistTick; LRestart])) 1 = [].
Proof. vm_compute. repeat split; reflexivity. Qed.

(* non-vacuity of the graceful-restart theorem: an acknowledged and a purged persistent message stay away over two graceful
   restarts with traffic in between *)
Example graceful_restart_keeps_settled_away :
  let s := fst (run ex_cfg all_fixed (init ex_cfg)
               [LConnect 1; LMethod 1 1 MChannelOpen; LMethod 1 1 (MQDeclare "a" true false false false false);
                LMethod 1 1 (MPublish "" "a" false false); LHeader 1 1 9 2 true; LBody 1 1 2;
                LMethod 1 1 (MPublish "" "a" false false); LHeader 1 1 9 2 true; LBody 1 1 2;
                LMethod 1 1 (MGet "a" false); LMethod 1 1 (MAck 1 false); LMethod 1 1 (MQPurge "a" false)]) in
  let ls2 := [LPersistTick; LRestart; LConnect 2; LMethod 2 1 MChannelOpen; LMethod 2 1 (MGet "a" false); LPersistTick; LRestart] in
  held s 1 = [] /\ graceful ls2 = true /\ held (fst (run ex_cfg all_fixed s ls2)) 1 = [].
Proof. vm_compute. repeat split; reflexivity. Qed.

(* the end-to-end theorem applies: its hypotheses hold in a concrete reachable state (flushed persistent message, delivered, acked) *)
Example ack_never_again_instance :
  let ls0 := [LConnect 1; LMethod 1 1 MChannelOpen; LMethod 1 1 (MQDeclare "a" true false false false false);
              LMethod 1 1 (MPublish "" "a" false false); LHeader 1 1 9 2 true; LBody 1 1 2; LPersistTick; LMethod 1 1 (MGet "a" false)] in
  let s := fst (run ex_cfg all_fixed (init ex_cfg) ls0) in
  forall ls2, graceful ls2 = true ->
  ~ In 1 (held (fst (run ex_cfg all_fixed (fst (step ex_cfg all_fixed s (LMethod 1 1 (MAck 1 false)))) ls2)) 1).
Proof.
  intros ls0 s ls2 Hg.
  assert (Hc : exists cn, get_conn s 1 = Some cn /\ cn_stage cn = StOpen) by (vm_compute; eexists; split; reflexivity).
  destruct Hc as (cn & Hc & Hs).
  assert (Hch : exists ch, get_chan s 1 1 = Some ch /\ ch_status ch = ChOpen /\
                 find (fun u => u_tag u =? 1) (ch_unacked ch) = Some {| u_tag := 1; u_ctag := ""; u_queue := "a"; u_qid := 1; u_msg := 1 |})
    by (vm_compute; eexists; repeat split; reflexivity).
  destruct Hch as (ch & Hch & Hst & Hf).
  assert (Ho : exists qu, origin_queue s {| u_tag := 1; u_ctag := ""; u_queue := "a"; u_qid := 1; u_msg := 1 |} = Some qu /\ q_active qu = true /\ q_durable qu = true)
    by (vm_compute; eexists; repeat split; reflexivity).
  destruct Ho as (qu & Ho & Ha & Hd).
  assert (Hm : exists m, get_msg s 1 = Some m /\ m_pers m = true) by (vm_compute; eexists; split; reflexivity).
  destruct Hm as (m & Hm & Hp).
  refine (ack_never_again_graceful ex_cfg all_fixed ls0 ls2 1 1 1 cn ch _ qu m eq_refl Hg Hc Hs Hch Hst _ Hf Ho Ha Hm _).
  - discriminate.
  - rewrite Hd, Hp. reflexivity.
Qed.

(* ---- corollaries ---- *)
(* an unsettled delivery names a queue object that was allocated *)
Corollary unacked_qid_allocated s e : HI s -> In e (all_unacked s) -> u_qid e < next_qid s /\ u_msg e < next_uid s.
Proof.
  intros H Hin. assert (Hh : In (u_msg e) (held s (u_qid e))).
  { unfold held. apply in_or_app. right. unfold unacked_of. apply in_map. apply filter_In. split; [exact Hin|apply N.eqb_refl]. }
  split; [exact (hi_held_qid _ H _ _ Hh)|exact (hi_held_lt _ H _ _ Hh)].
Qed.

(* a message appears in the waiting list of a queue object only by being published (it was a channel's current message, or its
   id was not allocated yet) or by being returned (it was out with a consumer of that object): a second delivery of one copy is
   preceded by its return *)
Theorem back_only_by_return cfg fx s l qid x :
  is_restart l = false -> CI s -> HI s ->
  In x (ready_of (fst (step cfg fx s l)) qid) -> ~ In x (ready_of s qid) ->
  In x (unacked_of s qid) \/ In x (all_cur s) \/ next_uid s <= x.
Proof.
  intros Hl Hci H Hin Hout. pose proof (growth_step cfg fx s l Hl Hci H) as [G _].
  assert (Hh : In x (held (fst (step cfg fx s l)) qid)) by (unfold held; apply in_or_app; auto).
  apply (gr_held _ _ G) in Hh. destruct Hh as [Hh|Hh]; [|auto]. unfold held in Hh. apply in_app_or in Hh. destruct Hh; [contradiction|auto].
Qed.
