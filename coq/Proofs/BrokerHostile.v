(* C11, broker level: frames that decode to nothing, or arrive where they are not expected, are refused with a
   connection error (or the connection is dropped) and touch nothing outside the offending connection. *)
From Coq Require Import List String NArith ZArith Bool Lia.
From RecordUpdate Require Import RecordUpdate.
Import ListNotations.
From GMQ Require Import Broker.Model Proofs.BrokerFrames Proofs.BrokerTags Proofs.BrokerChanInv Proofs.BrokerRelease
  Proofs.BrokerHandshake.
Open Scope N_scope.

Lemma world_ensure_chan s c h : world (ensure_chan s c h) c = world s c.
Proof.
  unfold world, ensure_chan. destruct (get_conn s c) as [cn|]; auto. destruct (alookup N.eqb h (cn_chans cn)); auto.
  cbn. rewrite adel_aset_same. reflexivity.
Qed.

(* an undecodable method frame on an open connection: FRAME_ERROR on channel 0, nothing else changes *)
Theorem undecodable_method_refused cfg fx s c h cn :
  get_conn s c = Some cn -> cn_stage cn = StOpen ->
  step cfg fx s (LBadMethod c h) = (ensure_chan s c h, [(c, 0, SConnClose FrameError 0 0)]) /\
  world (ensure_chan s c h) c = world s c.
Proof.
  intros Ec Es. split; [|apply world_ensure_chan]. cbn [step]. rewrite Ec, Es. reflexivity.
Qed.

(* a heartbeat is legal on channel 0 at any time and does nothing; on any other channel it ends the connection *)
Theorem heartbeat_channel0_noop cfg fx s c : step cfg fx s (LHeartbeat c 0) = (s, []).
Proof. apply heartbeat_is_noop. Qed.

Theorem heartbeat_elsewhere_drops cfg fx s c h cn :
  get_conn s c = Some cn -> h <> 0 ->
  step cfg fx s (LHeartbeat c h) = conn_close cfg fx s c /\ get_conn (fst (step cfg fx s (LHeartbeat c h))) c = None.
Proof.
  intros Ec Hh. assert (E : (h =? 0) = false) by (apply N.eqb_neq; auto).
  split; cbn [step]; rewrite Ec, E; [reflexivity|apply conn_close_forgets].
Qed.

(* content without a publish: a header or body frame on a channel that has no message in progress is FRAME_ERROR, and
   the state is left as it was (apart from the channel record the frame may have created) *)
Theorem content_without_publish_refused cfg fx s c h cn ch :
  get_conn s c = Some cn -> cn_stage cn = StOpen -> get_chan s c h = Some ch -> ch_cur ch = None ->
  ch_status ch <> ChClosing ->
  (forall mid size pers, step cfg fx s (LHeader c h mid size pers) = (s, [(c, 0, SConnClose FrameError 0 0)])) /\
  (forall len, step cfg fx s (LBody c h len) = (s, [(c, 0, SConnClose FrameError 0 0)])).
Proof.
  intros Ec Es Ech Hcur Hst.
  assert (He : ensure_chan s c h = s).
  { unfold ensure_chan. rewrite Ec. unfold get_chan in Ech. rewrite Ec in Ech. rewrite Ech. reflexivity. }
  assert (Hcl : (match ch_status ch with ChClosing => true | _ => false end) = false) by (destruct (ch_status ch); auto; congruence).
  split; intros; cbn [step]; rewrite Ec, Es; cbn [cstage_eqb negb andb]; rewrite He, Ech, Hcl, Bool.andb_false_r, Hcur; reflexivity.
Qed.
