(* Framing infrastructure for invariants over the broker LTS: a predicate that
   holds of every queue record ("allq P") is preserved by every state
   primitive of Broker/Model.v provided the queue-record updates it performs
   preserve P. *)
From Coq Require Import List String NArith ZArith Bool Lia.
From RecordUpdate Require Import RecordUpdate.
Import ListNotations.
From GMQ Require Import Broker.Model.
Open Scope N_scope.

Section AssocLemmas.
  Context {K V : Type} (keqb : K -> K -> bool).
  Hypothesis keqb_spec : forall a b, keqb a b = true <-> a = b.

  Lemma keqb_refl a : keqb a a = true.
  Proof. apply keqb_spec; reflexivity. Qed.

  Lemma alookup_aset k k' (v : V) l :
    alookup keqb k' (aset keqb k v l) = if keqb k' k then Some v else alookup keqb k' l.
  Proof.
    induction l as [|[k0 v0] t IH]; simpl.
    - destruct (keqb k' k); reflexivity.
    - destruct (keqb k k0) eqn:E0.
      + apply keqb_spec in E0. subst k0. simpl. destruct (keqb k' k); reflexivity.
      + simpl. destruct (keqb k' k0) eqn:E1.
        * destruct (keqb k' k) eqn:E2; auto.
          apply keqb_spec in E1. apply keqb_spec in E2. subst. rewrite keqb_refl in E0. discriminate.
        * exact IH.
  Qed.

  Lemma alookup_adel k k' l :
    alookup keqb k' (adel keqb k l) = if keqb k' k then None else alookup keqb k' (l : list (K * V)).
  Proof.
    induction l as [|[k0 v0] t IH]; simpl.
    - destruct (keqb k' k); reflexivity.
    - destruct (keqb k k0) eqn:E0.
      + rewrite IH. destruct (keqb k' k) eqn:E1; auto.
        destruct (keqb k' k0) eqn:E2; auto. apply keqb_spec in E0. apply keqb_spec in E2. subst.
        rewrite keqb_refl in E1. discriminate.
      + simpl. destruct (keqb k' k0) eqn:E2.
        * destruct (keqb k' k) eqn:E1; auto. apply keqb_spec in E1. apply keqb_spec in E2. subst.
          rewrite keqb_refl in E0. discriminate.
        * exact IH.
  Qed.

  Lemma alookup_in k (v : V) l : alookup keqb k l = Some v -> In (k, v) l.
  Proof.
    induction l as [|[k0 v0] t IH]; simpl; [discriminate|].
    destruct (keqb k k0) eqn:E.
    - intros H; inversion H; subst. apply keqb_spec in E. subst. auto.
    - auto.
  Qed.

  Lemma in_adel k kv (l : list (K * V)) : In kv (adel keqb k l) -> In kv l.
  Proof.
    induction l as [|[k0 v0] t IH]; simpl; auto.
    destruct (keqb k k0); simpl; intuition.
  Qed.

  Lemma in_aset k v kv (l : list (K * V)) : In kv (aset keqb k v l) -> kv = (k, v) \/ In kv l.
  Proof.
    induction l as [|[k0 v0] t IH]; simpl; [intuition|].
    destruct (keqb k k0); simpl; intuition.
  Qed.
End AssocLemmas.

Lemma seqb_spec a b : seqb a b = true <-> a = b.
Proof. apply String.eqb_eq. Qed.
Lemma Neqb_spec a b : N.eqb a b = true <-> a = b.
Proof. apply N.eqb_eq. Qed.

(* every queue record of the state satisfies P *)
Definition allq (P : queue -> Prop) (s : state) : Prop := forall qn qu, In (qn, qu) (queues s) -> P qu.

Lemma allq_get (P : queue -> Prop) s qn qu : allq P s -> get_queue s qn = Some qu -> P qu.
Proof. intros H Hg. eapply H. eapply alookup_in; [apply seqb_spec|exact Hg]. Qed.

Lemma allq_same_queues (P : queue -> Prop) s s' : queues s' = queues s -> allq P s -> allq P s'.
Proof. unfold allq. intros E H. rewrite E. exact H. Qed.

Lemma allq_set_queue (P : queue -> Prop) s qn qu : P qu -> allq P s -> allq P (set_queue s qn qu).
Proof.
  unfold allq, set_queue. simpl. intros Hq H qn' qu' Hin.
  apply in_aset in Hin. destruct Hin as [E|Hin]; [inversion E; subst; auto|eauto].
Qed.

Lemma allq_upd_queue (P : queue -> Prop) s qn f : (forall qu, P qu -> P (f qu)) -> allq P s -> allq P (upd_queue s qn f).
Proof.
  intros Hf H. unfold upd_queue. destruct (get_queue s qn) as [qu|] eqn:E; auto.
  apply allq_set_queue; auto. apply Hf. eapply allq_get; eauto.
Qed.

Lemma allq_del_queue (P : queue -> Prop) s qn : allq P s -> allq P (s <| queues := adel seqb qn (queues s) |>).
Proof. unfold allq. simpl. intros H qn' qu' Hin. apply in_adel in Hin. eauto. Qed.

(* primitives that do not touch the queue table *)
Lemma queues_set_chan s c h ch : queues (set_chan s c h ch) = queues s.
Proof. unfold set_chan. destruct (get_conn s c); reflexivity. Qed.
Lemma queues_upd_chan s c h f : queues (upd_chan s c h f) = queues s.
Proof. unfold upd_chan. destruct (get_chan s c h); [apply queues_set_chan|reflexivity]. Qed.
Lemma queues_upd_msg s u f : queues (upd_msg s u f) = queues s.
Proof. unfold upd_msg. destruct (get_msg s u); reflexivity. Qed.
Lemma queues_wake_consumer s c h tag : queues (fst (wake_consumer s c h tag)) = queues s.
Proof.
  unfold wake_consumer. destruct (get_chan s c h) as [ch|]; [|reflexivity].
  destruct (find_consumer ch tag) as [cm|]; [|reflexivity].
  destruct (consume_msg cm). simpl. apply queues_set_chan.
Qed.
Lemma queues_wake_consumers cfg s c h : queues (wake_consumers cfg s c h) = queues s.
Proof.
  unfold wake_consumers, wake_all_of_chan. destruct (cfg_rabbit cfg); [apply queues_upd_chan|].
  destruct (get_conn _ c) as [cn|]; [|apply queues_upd_chan].
  match goal with |- queues (fold_left ?F ?l ?st) = _ => assert (H : forall l0 st0, queues (fold_left F l0 st0) = queues st0) end.
  { induction l0 as [|x t IH]; intros st0; simpl; auto. rewrite IH. destruct (fst x =? h); auto. apply queues_upd_chan. }
  rewrite H. apply queues_upd_chan.
Qed.
Lemma queues_ensure_chan s c h : queues (ensure_chan s c h) = queues s.
Proof. unfold ensure_chan. destruct (get_conn s c) as [cn|]; [|reflexivity]. destruct (alookup _ _ _); reflexivity. Qed.
Lemma queues_add_confirm s c h t : queues (add_confirm s c h t) = queues s.
Proof.
  unfold add_confirm. destruct (get_chan s c h) as [ch|]; [|reflexivity].
  destruct (negb _); [reflexivity|]. destruct (ch_status ch); try reflexivity;
  destruct t as [[[? ?] ?]|]; try reflexivity; apply queues_set_chan.
Qed.
Lemma queues_store_windows cfg s c h tag ws : queues (store_windows cfg s c h tag ws) = queues s.
Proof.
  unfold store_windows. destruct ws as [|w1 [|w2 [|]]]; try reflexivity.
  destruct (cfg_rabbit cfg).
  - rewrite !queues_upd_chan. reflexivity.
  - destruct (get_conn _ _); simpl; rewrite ?queues_upd_chan; reflexivity.
Qed.
Lemma queues_send_error s c h e : queues (fst (send_error s c h e)) = queues s.
Proof. destruct e; simpl; [apply queues_upd_chan|reflexivity]. Qed.

(* fold_left preservation *)
Lemma fold_left_preserves {A S} (I : S -> Prop) (f : S -> A -> S) l :
  (forall s a, I s -> I (f s a)) -> forall s, I s -> I (fold_left f l s).
Proof. intros Hf. induction l as [|a t IH]; simpl; auto. Qed.

(* ------------------------------------------------------------------ *)
(* Queue.PopQos success: what the record keeps *)
Lemma popped_call rest qu : exists b, popped rest qu = (qu <| q_ready := rest |> <| q_len ::= Z.pred |> <| q_mready ::= Z.pred |> <| q_call := b |>).
Proof.
  unfold popped, call_consumers. destruct rest as [|r rest'].
  - exists (q_call qu). destruct qu; reflexivity.
  - destruct (q_active _) eqn:E.
    + exists true. reflexivity.
    + exists (q_call qu). destruct qu; reflexivity.
Qed.
Lemma q_ready_popped rest qu : q_ready (popped rest qu) = rest.
Proof. destruct (popped_call rest qu) as [b ->]. reflexivity. Qed.
Lemma q_len_popped rest qu : q_len (popped rest qu) = Z.pred (q_len qu).
Proof. destruct (popped_call rest qu) as [b ->]. reflexivity. Qed.
Lemma q_mready_popped rest qu : q_mready (popped rest qu) = Z.pred (q_mready qu).
Proof. destruct (popped_call rest qu) as [b ->]. reflexivity. Qed.
Lemma popped_keeps rest qu :
  q_id (popped rest qu) = q_id qu /\ q_owner (popped rest qu) = q_owner qu /\ q_excl (popped rest qu) = q_excl qu /\
  q_autodel (popped rest qu) = q_autodel qu /\ q_durable (popped rest qu) = q_durable qu /\ q_active (popped rest qu) = q_active qu /\
  q_consumers (popped rest qu) = q_consumers qu /\ q_cexcl (popped rest qu) = q_cexcl qu /\
  q_wasconsumed (popped rest qu) = q_wasconsumed qu /\ q_rr (popped rest qu) = q_rr qu /\
  q_munacked (popped rest qu) = q_munacked qu /\ q_mtotal (popped rest qu) = q_mtotal qu.
Proof. destruct (popped_call rest qu) as [b ->]. cbn. repeat split. Qed.

(* msgstorage.confirm touches the heap and the relay only *)
Lemma queues_store_confirm s u : queues (store_confirm s u) = queues s.
Proof.
  unfold store_confirm. destruct (get_msg s u) as [m|]; auto. destruct (m_conf m); auto.
  destruct (_ =? _)%Z; cbn; apply queues_upd_msg.
Qed.
Lemma conns_store_confirm s u : conns (store_confirm s u) = conns s.
Proof.
  unfold store_confirm. destruct (get_msg s u) as [m|]; auto. destruct (m_conf m); auto.
  destruct (_ =? _)%Z; cbn; unfold upd_msg; destruct (get_msg s u); reflexivity.
Qed.

(* the handshake stage of a connection is not part of any queue or channel *)
Lemma queues_set_stage s c st : queues (set_stage s c st) = queues s.
Proof. unfold set_stage. destruct (get_conn s c); reflexivity. Qed.
Lemma get_chan_set_stage s c st c' h' : get_chan (set_stage s c st) c' h' = get_chan s c' h'.
Proof.
  unfold set_stage. destruct (get_conn s c) as [cn|] eqn:Ec; auto.
  unfold get_chan, get_conn in *. cbn. rewrite (alookup_aset N.eqb).
  2:{ intros a b. split; [apply N.eqb_eq|intros ->; apply N.eqb_refl]. }
  destruct (c' =? c) eqn:E; auto. apply N.eqb_eq in E. subst. rewrite Ec. reflexivity.
Qed.

(* msgPStorage.Update touches the store only *)
Lemma store_writeback_frame s qn u d :
  conns (store_writeback s qn u d) = conns s /\ queues (store_writeback s qn u d) = queues s /\
  heap (store_writeback s qn u d) = heap s /\ exchanges (store_writeback s qn u d) = exchanges s /\
  srv_ready (store_writeback s qn u d) = srv_ready s /\ srv_unacked (store_writeback s qn u d) = srv_unacked s /\
  srv_total (store_writeback s qn u d) = srv_total s.
Proof. unfold store_writeback. destruct (_ && _ && _); cbn; repeat split; reflexivity. Qed.
Lemma get_queue_store_writeback s qn u d q : get_queue (store_writeback s qn u d) q = get_queue s q.
Proof. unfold get_queue. destruct (store_writeback_frame s qn u d) as (_ & -> & _). reflexivity. Qed.
Lemma get_msg_store_writeback s qn u d x : get_msg (store_writeback s qn u d) x = get_msg s x.
Proof. unfold get_msg. destruct (store_writeback_frame s qn u d) as (_ & _ & -> & _). reflexivity. Qed.

(* basic.cancel detaches the consumer's unsettled deliveries from its tag: nothing but u_ctag changes *)
Lemma orphan_fields tag u :
  u_tag (orphan tag u) = u_tag u /\ u_msg (orphan tag u) = u_msg u /\ u_qid (orphan tag u) = u_qid u /\
  u_queue (orphan tag u) = u_queue u.
Proof. unfold orphan. destruct (seqb (u_ctag u) tag); cbn; auto. Qed.

Lemma map_orphan_tag tag l : map u_tag (map (orphan tag) l) = map u_tag l.
Proof. rewrite map_map. apply map_ext. intros u. apply orphan_fields. Qed.
Lemma map_orphan_msg tag l : map u_msg (map (orphan tag) l) = map u_msg l.
Proof. rewrite map_map. apply map_ext. intros u. apply orphan_fields. Qed.
Lemma map_orphan_qid tag l : map u_qid (map (orphan tag) l) = map u_qid l.
Proof. rewrite map_map. apply map_ext. intros u. apply orphan_fields. Qed.
Lemma map_orphan_queue tag l : map u_queue (map (orphan tag) l) = map u_queue l.
Proof. rewrite map_map. apply map_ext. intros u. apply orphan_fields. Qed.
