(* Generic round trip of method descriptions: wf_desc m = true -> decode m (encode m v ++ rest) = Ok (v, rest). *)
From Coq Require Import List String Arith NArith Bool Lia ZifyN ZifyNat ZifyBool.
Import ListNotations.
From GMQ Require Import Base.Bytes Codec.Desc Codec.Prim Codec.Value Codec.MethodCodec.
From GMQ Require Import Proofs.CodecPrimProofs Proofs.CodecValueProofs.
Open Scope N_scope.

Lemma fkind_eqb_eq : forall a b, fkind_eqb a b = true -> a = b.
Proof. destruct a, b; cbn; intros H; try reflexivity; discriminate. Qed.
Lemma fkind_eqb_refl : forall a, fkind_eqb a a = true.
Proof. destruct a; reflexivity. Qed.

Lemma list_eqb_eq : forall {A} (eqb : A -> A -> bool), (forall a b, eqb a b = true -> a = b) ->
  forall l1 l2, list_eqb eqb l1 l2 = true -> l1 = l2.
Proof.
  intros A eqb He. induction l1 as [|x l1 IH]; destruct l2 as [|y l2]; cbn; intros H; try reflexivity; try discriminate.
  apply andb_true_iff in H. destruct H as [H1 H2]. f_equal; [apply He; exact H1 | apply IH; exact H2].
Qed.

Lemma bit_eqb_eq : forall a b, bit_eqb a b = true -> a = b.
Proof.
  intros [n i] [n' i'] H. unfold bit_eqb in H. cbn [fst snd] in H. apply andb_true_iff in H. destruct H as [H1 H2].
  apply String.eqb_eq in H1. apply N.eqb_eq in H2. congruence.
Qed.
Lemma item_eqb_eq : forall a b, item_eqb a b = true -> a = b.
Proof.
  intros [n k|l] [n' k'|l'] H; cbn in H; try discriminate.
  - apply andb_true_iff in H. destruct H as [H1 H2]. apply String.eqb_eq in H1. apply fkind_eqb_eq in H2. congruence.
  - f_equal. apply (list_eqb_eq bit_eqb bit_eqb_eq). exact H.
Qed.

(* ---------- bit packing ---------- *)
Definition pack (e : env) (l : list (string * N)) (acc : N) : N :=
  fold_left (fun a p => if env_bool e (fst p) then N.lor a (N.shiftl 1 (snd p)) else a) l acc.
Definition set_bits (l : list (string * N)) (b : N) (e : env) : env :=
  fold_left (fun e p => env_set e (fst p) (MBool (N.testbit b (snd p)))) l e.

Lemma testbit_one_shl : forall i j, N.testbit (N.shiftl 1 i) j = (i =? j).
Proof. intros. rewrite N.shiftl_1_l. apply N.pow2_bits_eqb. Qed.

Lemma pack_testbit : forall e l acc j,
  N.testbit (pack e l acc) j = N.testbit acc j || existsb (fun p => (snd p =? j) && env_bool e (fst p)) l.
Proof.
  intros e. induction l as [|p l IH]; intros acc j; unfold pack; cbn [fold_left existsb].
  - rewrite orb_false_r. reflexivity.
  - fold (pack e l (if env_bool e (fst p) then N.lor acc (N.shiftl 1 (snd p)) else acc)).
    rewrite IH. destruct (env_bool e (fst p)).
    + rewrite N.lor_spec, testbit_one_shl, andb_true_r, orb_assoc. reflexivity.
    + rewrite andb_false_r. reflexivity.
Qed.

Lemma existsb_unique_idx : forall e l p0, In p0 l -> N_nodup (map snd l) = true ->
  existsb (fun p => (snd p =? snd p0) && env_bool e (fst p)) l = env_bool e (fst p0).
Proof.
  intros e. induction l as [|q l IH]; intros p0 Hin Hnd; [destruct Hin|].
  cbn [map N_nodup] in Hnd. apply andb_true_iff in Hnd. destruct Hnd as [Hq Hnd]. apply negb_true_iff in Hq.
  cbn [existsb]. destruct Hin as [E|Hin].
  - subst q. rewrite N.eqb_refl. cbn [andb].
    assert (T : existsb (fun p => (snd p =? snd p0) && env_bool e (fst p)) l = false).
    { apply not_true_is_false. intros C. apply existsb_exists in C. destruct C as [p [Hp C]].
      apply andb_true_iff in C. destruct C as [C _]. apply N.eqb_eq in C.
      assert (X : existsb (N.eqb (snd p0)) (map snd l) = true).
      { apply existsb_exists. exists (snd p). split; [apply in_map; exact Hp | apply N.eqb_eq; congruence]. }
      congruence. }
    rewrite T, orb_false_r. reflexivity.
  - assert (T : (snd q =? snd p0) = false).
    { apply not_true_is_false. intros C. apply N.eqb_eq in C.
      assert (X : existsb (N.eqb (snd q)) (map snd l) = true).
      { apply existsb_exists. exists (snd p0). split; [apply in_map; exact Hin | apply N.eqb_eq; exact C]. }
      congruence. }
    rewrite T. cbn [andb orb]. apply IH; assumption.
Qed.

Lemma pack_octet_bit : forall e l p0, In p0 l -> N_nodup (map snd l) = true -> snd p0 < 8 ->
  N.testbit (pack e l 0 mod 256) (snd p0) = env_bool e (fst p0).
Proof.
  intros e l p0 Hin Hnd Hlt. change 256 with (2 ^ 8).
  rewrite N.mod_pow2_bits_low by exact Hlt.
  rewrite pack_testbit, N.bits_0. cbn [orb]. apply existsb_unique_idx; assumption.
Qed.

(* ---------- environments ---------- *)
Lemma env_get_set : forall e n v m, env_get (env_set e n v) m = if String.eqb n m then Some v else env_get e m.
Proof. reflexivity. Qed.

Definition mem (n : string) (l : list string) : bool := existsb (String.eqb n) l.

Lemma set_bits_get : forall (src : env) b l e m,
  (forall p, In p l -> env_get src (fst p) = Some (MBool (N.testbit b (snd p)))) ->
  env_get (set_bits l b e) m = if mem m (map fst l) then env_get src m else env_get e m.
Proof.
  intros src b. induction l as [|p l IH]; intros e m H; [reflexivity|].
  unfold set_bits. cbn [fold_left]. fold (set_bits l b (env_set e (fst p) (MBool (N.testbit b (snd p))))).
  rewrite IH by (intros q Hq; apply H; right; exact Hq).
  cbn [map]. unfold mem. cbn [existsb]. fold (mem m (map fst l)).
  destruct (mem m (map fst l)); [rewrite orb_true_r; reflexivity|]. rewrite orb_false_r.
  rewrite env_get_set. rewrite String.eqb_sym.
  destruct (String.eqb_spec m (fst p)) as [E|E]; [|reflexivity].
  subst m. symmetry. apply H. left. reflexivity.
Qed.

Section MethodRT.
  Variable st : alloc_style.
  Variable rd : dialect -> list reader_row.
  Variable wr : dialect -> list writer_row.
  Variable d : dialect.

  (* ---------- one argument ---------- *)
  Lemma field_rt : forall k v b rest, wf_mval rd wr d k v = true -> enc_field wr d k v = Some b ->
    dec_field st rd d k (b ++ rest) = Ok (v, rest).
  Proof.
    intros k v b rest Hwf Henc.
    destruct k, v; cbn [wf_mval] in Hwf; cbn [enc_field] in Henc; try discriminate;
      try (some_inj Henc; apply N.ltb_lt in Hwf).
    - unfold dec_field. rewrite dec_octet_enc by exact Hwf. reflexivity.
    - unfold dec_field. rewrite dec_short_enc by exact Hwf. reflexivity.
    - unfold dec_field. rewrite dec_long_enc by exact Hwf. reflexivity.
    - unfold dec_field. rewrite dec_longlong_enc by exact Hwf. reflexivity.
    - unfold dec_field. rewrite dec_shortstr_enc by exact Hwf. reflexivity.
    - unfold dec_field. rewrite dec_longstr_enc by exact Hwf. reflexivity.
    - unfold dec_field. rewrite (table_roundtrip st rd wr d t b rest Hwf Henc). reflexivity.
    - unfold dec_field. rewrite dec_timestamp_enc by exact Hwf. reflexivity.
  Qed.

  Lemma field_enc_some : forall k v, wf_mval rd wr d k v = true -> k <> KBit -> exists b, enc_field wr d k v = Some b.
  Proof.
    intros k v Hwf Hk. destruct k, v; cbn [wf_mval] in Hwf; try discriminate; cbn [enc_field]; eauto.
    - unfold wf_table in Hwf. apply andb_true_iff in Hwf. destruct Hwf as [_ H].
      unfold enc_table. destruct (enc_titems wr d t); [cbn [obind]; eauto | discriminate].
    - congruence.
  Qed.

  (* ---------- layouts ---------- *)
  Fixpoint dec_items (its : list item) (e : env) (bs : bytes) : result (env * bytes) :=
    match its with
    | [] => Ok (e, bs)
    | IField n k :: t => x <- dec_field st rd d k bs ;; dec_items t (env_set e n (fst x)) (snd x)
    | IBits l :: t => x <- dec_octet bs ;; dec_items t (set_bits l (fst x) e) (snd x)
    end.
  Fixpoint enc_items (its : list item) (e : env) : option bytes :=
    match its with
    | [] => Some []
    | IField n k :: t => v <-? env_get e n ;; a <-? enc_field wr d k v ;; b <-? enc_items t e ;; Some (a ++ b)
    | IBits l :: t => b <-? enc_items t e ;; Some ((pack e l 0 mod 256) :: b)
    end.

  Lemma rlayout_sound : forall rs pend its, rlayout rs = Some (pend, its) ->
    forall bits e bs, dec_steps st rd d rs bits e bs = dec_items its (set_bits pend bits e) bs.
  Proof.
    induction rs as [|s rs IH]; intros pend its H bits e bs; cbn [rlayout] in H.
    - inversion H; subst. reflexivity.
    - destruct s as [n k| |n i].
      + destruct (rlayout rs) as [[[|? ?] its']|] eqn:E; try discriminate.
        inversion H; subst. cbn [dec_steps dec_items].
        destruct (dec_field st rd d k bs) as [[v r]| | | |]; cbn [bind fst snd]; try reflexivity.
        rewrite (IH [] its' eq_refl). unfold set_bits. cbn [fold_left]. reflexivity.
      + destruct (rlayout rs) as [[pend' its']|] eqn:E; try discriminate.
        inversion H; subst. cbn [dec_steps dec_items].
        destruct (dec_octet bs) as [[v r]| | | |]; cbn [bind fst snd]; try reflexivity.
        rewrite (IH pend' its' eq_refl). unfold set_bits. cbn [fold_left]. reflexivity.
      + destruct (rlayout rs) as [[pend' its']|] eqn:E; try discriminate.
        inversion H; subst. cbn [dec_steps]. rewrite (IH pend' its eq_refl). unfold set_bits. cbn [fold_left]. reflexivity.
  Qed.

  Lemma wlayout_sound : forall ws stt its, wlayout ws = Some (stt, its) ->
    forall bits e, enc_steps wr d ws bits e =
                   match stt with
                   | None => enc_items its e
                   | Some pend => b <-? enc_items its e ;; Some ((pack e pend bits mod 256) :: b)
                   end.
  Proof.
    induction ws as [|s ws IH]; intros stt its H bits e; cbn [wlayout] in H.
    - inversion H; subst. reflexivity.
    - destruct s as [n k| |n i|].
      + destruct (wlayout ws) as [[[?|] its']|] eqn:E; try discriminate.
        inversion H; subst. cbn [enc_steps enc_items]. rewrite (IH None its' eq_refl). reflexivity.
      + destruct (wlayout ws) as [[[pend'|] its']|] eqn:E; try discriminate.
        inversion H; subst. cbn [enc_steps enc_items]. rewrite (IH (Some pend') its' eq_refl). reflexivity.
      + destruct (wlayout ws) as [[[pend'|] its']|] eqn:E; try discriminate.
        inversion H; subst. cbn [enc_steps]. rewrite (IH (Some pend') its eq_refl). reflexivity.
      + destruct (wlayout ws) as [[[?|] its']|] eqn:E; try discriminate.
        inversion H; subst. cbn [enc_steps]. rewrite (IH None its eq_refl). reflexivity.
  Qed.

  (* what an item needs from the source environment *)
  Definition item_wf (src : env) (it : item) : Prop :=
    match it with
    | IField n k => k <> KBit /\ exists v, env_get src n = Some v /\ wf_mval rd wr d k v = true
    | IBits l => N_nodup (map snd l) = true /\
                 forall p, In p l -> snd p < 8 /\ exists b, env_get src (fst p) = Some (MBool b)
    end.

  Definition names (its : list item) : list string := flat_map item_names its.

  Lemma items_rt : forall its src, Forall (item_wf src) its ->
    exists b, enc_items its src = Some b /\
              forall e0 rest, exists e', dec_items its e0 (b ++ rest) = Ok (e', rest) /\
                                         forall m, env_get e' m = if mem m (names its) then env_get src m else env_get e0 m.
  Proof.
    intros its src HF. induction HF as [|it its Hit HF IH].
    - exists []. split; [reflexivity|]. intros e0 rest. exists e0. split; reflexivity.
    - destruct IH as [b' [Eb' IH]]. destruct it as [n k|l]; cbn [item_wf] in Hit.
      + destruct Hit as [Hk [v [Hv Hwf]]].
        destruct (field_enc_some k v Hwf Hk) as [a Ea].
        exists (a ++ b'). split; [cbn [enc_items]; rewrite Hv; cbn [obind]; rewrite Ea; cbn [obind]; rewrite Eb'; reflexivity|].
        intros e0 rest. cbn [dec_items]. rewrite <- app_assoc. rewrite (field_rt k v a (b' ++ rest) Hwf Ea). cbn [bind fst snd].
        destruct (IH (env_set e0 n v) rest) as [e' [Hd He]]. exists e'. split; [exact Hd|].
        intros m. rewrite He. unfold names. cbn [flat_map item_names app]. unfold mem. cbn [existsb].
        fold (names its). fold (mem m (names its)).
        destruct (mem m (names its)); [rewrite orb_true_r; reflexivity|]. rewrite orb_false_r.
        rewrite env_get_set. rewrite String.eqb_sym.
        destruct (String.eqb_spec m n) as [E|E]; [subst m; symmetry; exact Hv | reflexivity].
      + destruct Hit as [Hnd Hl].
        exists ((pack src l 0 mod 256) :: b'). split; [cbn [enc_items]; rewrite Eb'; reflexivity|].
        intros e0 rest. cbn [dec_items app]. rewrite dec_octet_cons. cbn [bind fst snd].
        destruct (IH (set_bits l (pack src l 0 mod 256) e0) rest) as [e' [Hd He]]. exists e'. split; [exact Hd|].
        intros m. rewrite He. unfold names. cbn [flat_map item_names]. unfold mem. rewrite existsb_app.
        fold (names its). fold (mem m (names its)). fold (mem m (map fst l)).
        destruct (mem m (names its)); [rewrite orb_true_r; reflexivity|]. rewrite orb_false_r.
        apply set_bits_get. intros p Hp. destruct (Hl p Hp) as [Hlt [bv Hbv]].
        rewrite pack_octet_bit by assumption. unfold env_bool. rewrite Hbv. reflexivity.
  Qed.

  (* ---------- from field values to the source environment ---------- *)
  Lemma wf_vals_length : forall fields vals, wf_vals rd wr d fields vals = true -> List.length fields = List.length vals.
  Proof.
    induction fields as [|f fields IH]; destruct vals as [|v vals]; cbn; intros H; try reflexivity; try discriminate.
    apply andb_true_iff in H. destruct H as [_ H]. f_equal. apply IH. exact H.
  Qed.

  Lemma mem_false_neq : forall n l m, mem n l = false -> In m l -> String.eqb m n = false.
  Proof.
    intros n l m H Hin. apply not_true_is_false. intros C. apply String.eqb_eq in C. subst m.
    assert (X : mem n l = true) by (apply existsb_exists; exists n; split; [exact Hin | apply String.eqb_refl]).
    congruence.
  Qed.

  Lemma env_of_get : forall fields vals n k,
    str_nodup (map fst fields) = true -> wf_vals rd wr d fields vals = true -> field_in fields n k = true ->
    exists v, env_get (env_of fields vals) n = Some v /\ wf_mval rd wr d k v = true.
  Proof.
    induction fields as [|[fn fk] fields IH]; intros vals n k Hnd Hwf Hin; [discriminate|].
    destruct vals as [|v vals]; [discriminate|].
    cbn [wf_vals fst snd] in Hwf. apply andb_true_iff in Hwf. destruct Hwf as [Hv Hwf].
    cbn [map fst str_nodup] in Hnd. apply andb_true_iff in Hnd. destruct Hnd as [Hfn Hnd]. apply negb_true_iff in Hfn.
    unfold env_of. cbn [map fst combine env_get]. fold (env_of fields vals).
    unfold field_in in Hin. cbn [existsb fst snd] in Hin.
    destruct (String.eqb_spec fn n) as [E|E].
    - subst fn. cbn [andb] in Hin. apply orb_true_iff in Hin. destruct Hin as [Hk|Hin].
      + apply fkind_eqb_eq in Hk. subst fk. exists v. split; [reflexivity | exact Hv].
      + exfalso. apply existsb_exists in Hin. destruct Hin as [[gn gk] [Hg Hgk]]. cbn [fst snd] in Hgk.
        apply andb_true_iff in Hgk. destruct Hgk as [Hgn _]. apply String.eqb_eq in Hgn. subst gn.
        assert (X : existsb (String.eqb n) (map fst fields) = true).
        { apply existsb_exists. exists n. split; [change n with (fst (n, gk)); apply in_map; exact Hg | apply String.eqb_refl]. }
        congruence.
    - cbn [andb orb] in Hin. apply (IH vals n k Hnd Hwf). exact Hin.
  Qed.

  Lemma values_of_env : forall fields vals e,
    str_nodup (map fst fields) = true -> List.length fields = List.length vals ->
    (forall f, In f fields -> env_get e (fst f) = env_get (env_of fields vals) (fst f)) ->
    values_of fields e = vals.
  Proof.
    induction fields as [|[fn fk] fields IH]; intros vals e Hnd Hlen He; destruct vals as [|v vals]; try discriminate; [reflexivity|].
    cbn [map fst str_nodup] in Hnd. apply andb_true_iff in Hnd. destruct Hnd as [Hfn Hnd]. apply negb_true_iff in Hfn.
    unfold values_of. cbn [map fst snd]. fold (values_of fields e).
    pose proof (He (fn, fk) (or_introl eq_refl)) as H0. cbn [fst] in H0. rewrite H0.
    unfold env_of. cbn [map fst combine env_get]. rewrite String.eqb_refl. f_equal.
    apply IH; [exact Hnd | cbn in Hlen; lia |].
    intros f Hf. rewrite (He f) by (right; exact Hf).
    unfold env_of. cbn [map fst combine env_get]. fold (env_of fields vals).
    assert (X : String.eqb fn (fst f) = false).
    { apply not_true_is_false. intros C. apply String.eqb_eq in C.
      assert (Y : existsb (String.eqb fn) (map fst fields) = true).
      { apply existsb_exists. exists (fst f). split; [apply in_map; exact Hf | apply String.eqb_eq; exact C]. }
      congruence. }
    rewrite X. reflexivity.
  Qed.

  Lemma item_ok_wf : forall fields vals it,
    str_nodup (map fst fields) = true -> wf_vals rd wr d fields vals = true ->
    item_ok fields it = true -> item_wf (env_of fields vals) it.
  Proof.
    intros fields vals it Hnd Hwf Hok. destruct it as [n k|l]; cbn [item_ok] in Hok; cbn [item_wf].
    - apply andb_true_iff in Hok. destruct Hok as [Hk Hin]. apply negb_true_iff in Hk. split.
      + intros C. subst k. discriminate.
      + apply (env_of_get fields vals n k Hnd Hwf Hin).
    - apply andb_true_iff in Hok. destruct Hok as [Hall Hndi]. split; [exact Hndi|].
      intros p Hp. rewrite forallb_forall in Hall. specialize (Hall p Hp).
      apply andb_true_iff in Hall. destruct Hall as [Hlt Hin]. apply N.ltb_lt in Hlt. split; [exact Hlt|].
      destruct (env_of_get fields vals (fst p) KBit Hnd Hwf Hin) as [v [Hv Hwv]].
      destruct v; cbn [wf_mval] in Hwv; try discriminate. eauto.
  Qed.

  (* ---------- the generic theorem ---------- *)
  Theorem method_roundtrip : forall m vals,
    wf_desc m = true -> wf_vals rd wr d (m_fields m) vals = true ->
    exists b, enc_method wr d m vals = Some b /\
              forall rest, dec_method st rd d m (b ++ rest) = Ok (vals, rest).
  Proof.
    intros m vals Hd Hv. unfold wf_desc in Hd.
    unfold read_layout, write_layout in Hd.
    destruct (rlayout (m_read m)) as [[[|? ?] lr]|] eqn:Er; try discriminate.
    destruct (wlayout (m_write m)) as [[[?|] lw]|] eqn:Ew; try discriminate.
    apply andb_true_iff in Hd. destruct Hd as [Hd Hcov].
    apply andb_true_iff in Hd. destruct Hd as [Hd Hnd].
    apply andb_true_iff in Hd. destruct Hd as [Heq Hok].
    apply (list_eqb_eq item_eqb item_eqb_eq) in Heq. subst lw.
    set (src := env_of (m_fields m) vals).
    assert (HF : Forall (item_wf src) lr).
    { apply Forall_forall. intros it Hit. rewrite forallb_forall in Hok.
      apply item_ok_wf; [exact Hnd | exact Hv | apply Hok; exact Hit]. }
    destruct (items_rt lr src HF) as [b [Eb Hdec]].
    exists b. split.
    - unfold enc_method. fold src. rewrite (wlayout_sound _ _ _ Ew). exact Eb.
    - intros rest. unfold dec_method. rewrite (rlayout_sound _ _ _ Er). unfold set_bits at 1. cbn [fold_left].
      destruct (Hdec (env_of (m_fields m) (map (fun f => zero_mval (snd f)) (m_fields m))) rest) as [e' [Hd' He']].
      rewrite Hd'. cbn [bind fst snd]. f_equal. f_equal.
      apply values_of_env; [exact Hnd | apply (wf_vals_length _ _ Hv) |].
      intros f Hf. rewrite He'. fold src.
      rewrite forallb_forall in Hcov. specialize (Hcov f Hf). fold (names lr) in Hcov.
      unfold mem. rewrite Hcov. reflexivity.
  Qed.

  (* ---------- ReadMethod (WriteMethod m) ---------- *)
  Lemma find_method_nodup : forall methods m, str_nodup (map m_name methods) = true -> In m methods ->
    find_method methods (m_name m) = Some m.
  Proof.
    induction methods as [|x methods IH]; intros m Hnd Hin; [destruct Hin|].
    cbn [map str_nodup] in Hnd. apply andb_true_iff in Hnd. destruct Hnd as [Hx Hnd]. apply negb_true_iff in Hx.
    unfold find_method. cbn [find]. destruct Hin as [E|Hin].
    - subst x. rewrite String.eqb_refl. reflexivity.
    - assert (X : String.eqb (m_name x) (m_name m) = false).
      { apply not_true_is_false. intros C.
        assert (Y : existsb (String.eqb (m_name x)) (map m_name methods) = true).
        { apply existsb_exists. exists (m_name m). split; [apply in_map; exact Hin | exact C]. }
        congruence. }
      rewrite X. apply IH; assumption.
  Qed.

  Theorem method_frame_roundtrip : forall methods dispatch m vals,
    dispatch_ok methods dispatch = true -> In m methods ->
    (m_class m <? 2 ^ 16) && (m_id m <? 2 ^ 16) = true ->
    wf_desc m = true -> wf_vals rd wr d (m_fields m) vals = true ->
    exists b, enc_method_frame wr d m vals = Some b /\
              forall rest, dec_method_frame st rd d methods dispatch (b ++ rest) = Ok (m_name m, vals, rest).
  Proof.
    intros methods dispatch m vals Hdis Hin Hids Hd Hv.
    destruct (method_roundtrip m vals Hd Hv) as [b [Eb Hdec]].
    exists (enc_short (m_class m) ++ enc_short (m_id m) ++ b). split.
    - unfold enc_method_frame. rewrite Eb. reflexivity.
    - intros rest. apply andb_true_iff in Hids. destruct Hids as [Hc Hi]. apply N.ltb_lt in Hc. apply N.ltb_lt in Hi.
      unfold dec_method_frame. repeat rewrite <- app_assoc.
      rewrite dec_short_enc by exact Hc. cbn [bind fst snd].
      rewrite dec_short_enc by exact Hi. cbn [bind fst snd].
      unfold dispatch_ok in Hdis.
      apply andb_true_iff in Hdis. destruct Hdis as [Hdis _].
      apply andb_true_iff in Hdis. destruct Hdis as [Hdis Hnd].
      apply andb_true_iff in Hdis. destruct Hdis as [Hfw _].
      rewrite forallb_forall in Hfw. specialize (Hfw m Hin).
      destruct (dispatch_lookup dispatch (m_class m) (m_id m)) as [n|]; [|discriminate].
      apply String.eqb_eq in Hfw. subst n.
      rewrite (find_method_nodup methods m Hnd Hin). rewrite Hdec. reflexivity.
  Qed.
End MethodRT.
