(* C05 over whole histories: the composition of the event-by-event facts of Proofs/BrokerConfirm.v.
   For every label sequence from the initial broker (client frames on any number of connections and channels, goroutine
   turns in any order, socket losses, restarts) and every channel:

     confirm_at_most_once      the numbers acknowledged since the current instance of the channel began, together with the
                               numbers still in flight, are pairwise distinct and lie in 1 .. ch_ctag;
     confirm_never_early       a basic.ack is written only for a number whose message has all its units counted and none
       (confirm_handed_over_complete, confirm_units_bounded)
                               waiting in the store; counted + pending units never exceed the number of routed queues;
     confirm_all_at_rest       in a quiescent state nothing is in flight on an open confirm-mode channel;
     confirm_exactly_once_at_rest
                               ... hence exactly 1 .. ch_ctag were acknowledged, provided the run dropped no number of the
                               instance (no_drop_run, a boolean function of the label list; confirm_nothing_dropped).

   Method: (1) a view of the state (vle) that every label not concerned with confirmations leaves alone - proved once,
   primitive by primitive; (2) a relation `trans` saying what a step may do to the numbers of a channel (hand on, drop,
   create the next one), proved for the few operations of the confirm machinery and composed along a step; (3) a generic
   step lemma (Section StepInv) that lifts a state invariant respecting the view to every label; instantiated for the
   unit accounting (Units, Rest).  Hypotheses forced by the proofs: see Props/C05_history.v and the `_refuted` examples. *)
From Coq Require Import List String NArith ZArith Bool Lia ZifyBool ZifyN Permutation.
From RecordUpdate Require Import RecordUpdate.
Import ListNotations.
From GMQ Require Import Broker.Model Proofs.BrokerFrames Proofs.BrokerTags Proofs.BrokerChanInv Proofs.BrokerReady
  Proofs.BrokerConfirm.
Open Scope N_scope.

(* ------------------------------------------------------------------ *)
(* what a run acknowledged on channel (c,h) since the current instance of the channel began *)
Definition chan_inst (s : state) (c h : N) : option N :=
  match get_chan s c h with Some ch => Some (ch_inst ch) | None => None end.
Definition oN_eqb (a b : option N) : bool :=
  match a, b with Some x, Some y => x =? y | None, None => true | _, _ => false end.
Definition ack_of (c h : N) (e : event) : list N :=
  match e with
  | (c', h', SAck t _) => if (c' =? c) && (h' =? h) then [t] else []
  | _ => []
  end.
Definition acks_of (c h : N) (evs : list event) : list N := flat_map (ack_of c h) evs.
(* one step: the list starts afresh when the instance of the channel changes (the channel number is opened again, the
   connection goes away or comes into being); then the step's acknowledgements on (c,h) are appended *)
Definition acked_step (s s' : state) (evs : list event) (c h : N) (A : list N) : list N :=
  (if oN_eqb (chan_inst s c h) (chan_inst s' c h) then A else []) ++ acks_of c h evs.
Fixpoint acked_from (cfg : config) (fx : fixes) (s : state) (ls : list label) (c h : N) (A : list N) : list N :=
  match ls with
  | [] => A
  | l :: t => acked_from cfg fx (fst (step cfg fx s l)) t c h (acked_step s (fst (step cfg fx s l)) (snd (step cfg fx s l)) c h A)
  end.
Definition acked_run (cfg : config) (fx : fixes) (s : state) (ls : list label) (c h : N) : list N :=
  acked_from cfg fx s ls c h [].

(* ------------------------------------------------------------------ *)
(* where the numbers of the current instance of channel (c,h) are while in flight *)
Definition for_chan (c h : N) (x : option (N * N * N)) : list N :=
  match x with Some (c', h', t) => if (c' =? c) && (h' =? h) then [t] else [] | None => [] end.
(* in the relay: completed by the store, not yet handed to the channel *)
Definition relay_part (s : state) (c h : N) : list N :=
  flat_map (fun u => match get_msg s u with Some m => for_chan c h (live_conf s m) | None => [] end) (relay s).
(* routed, some unit still to come *)
Definition waiting (i : N) (m : msg) : bool := (m_inst m =? i) && (m_actual m <? m_expected m)%Z.
Definition heap_part (s : state) (c h i : N) : list N :=
  flat_map (fun kv => if waiting i (snd kv) then for_chan c h (m_conf (snd kv)) else []) (heap s).
(* being assembled *)
Definition cur_part (s : state) (cur : option N) : list N :=
  match cur with
  | Some u => match get_msg s u with
              | Some m => match m_conf m with Some (_, _, t) => [t] | None => [] end
              | None => []
              end
  | None => []
  end.
Definition where_ch (s : state) (c h : N) (ch : channel) : list N :=
  ch_confirmq ch ++ relay_part s c h ++ heap_part s c h (ch_inst ch) ++ cur_part s (ch_cur ch).
Definition where_is (s : state) (c h : N) : list N :=
  match get_chan s c h with Some ch => where_ch s c h ch | None => [] end.
Definition where_nc (s : state) (c h : N) (ch : channel) : list N :=
  ch_confirmq ch ++ relay_part s c h ++ heap_part s c h (ch_inst ch).
Lemma where_ch_nc s c h ch : where_ch s c h ch = where_nc s c h ch ++ cur_part s (ch_cur ch).
Proof. unfold where_ch, where_nc. rewrite <- !app_assoc. reflexivity. Qed.

(* ------------------------------------------------------------------ *)
(* counting *)
Definition cnt (t : N) (l : list N) : nat := count_occ N.eq_dec l t.
Lemma cnt_app t l1 l2 : cnt t (l1 ++ l2) = (cnt t l1 + cnt t l2)%nat.
Proof. apply count_occ_app. Qed.
Lemma cnt_nil t : cnt t [] = 0%nat. Proof. reflexivity. Qed.
Lemma cnt_one t x : cnt t [x] = if x =? t then 1%nat else 0%nat.
Proof. unfold cnt. cbn. destruct (N.eq_dec x t) as [E|E]; [subst; rewrite N.eqb_refl; reflexivity|]. apply N.eqb_neq in E. rewrite E. reflexivity. Qed.
Lemma NoDup_cnt l : NoDup l <-> forall t, (cnt t l <= 1)%nat.
Proof. apply NoDup_count_occ. Qed.
Lemma cnt_in t l : In t l <-> (0 < cnt t l)%nat.
Proof. unfold cnt. rewrite (count_occ_In N.eq_dec). lia. Qed.
Lemma cnt_flat_map {X} (f : X -> list N) t l : cnt t (flat_map f l) = fold_right (fun x n => (cnt t (f x) + n)%nat) 0%nat l.
Proof. induction l as [|x r IH]; cbn [flat_map fold_right]; [reflexivity|]. rewrite cnt_app, IH. reflexivity. Qed.

(* ------------------------------------------------------------------ *)
(* the part of the state the confirmations depend on *)
Definition chw (ch : channel) := (ch_confirm ch, ch_ticker ch, ch_ctag ch, ch_confirmq ch, ch_inst ch, ch_cur ch).
Definition st_moves (a b : chstatus) : Prop := b = a \/ b = ChClosing \/ b = ChClosed.
Definition chan_le (o0 o : option channel) : Prop :=
  match o0, o with
  | Some ch0, Some ch => chw ch = chw ch0 /\ st_moves (ch_status ch0) (ch_status ch)
  | None, None => True
  | _, _ => False
  end.
Definition mv (m : msg) := (m_conf m, m_inst m, m_expected m, m_actual m).
Definition hview (s : state) := map (fun kv => (fst kv, mv (snd kv))) (heap s).
Record vle (s0 s : state) : Prop := {
  v_chan : forall c h, chan_le (get_chan s0 c h) (get_chan s c h);
  v_conn : forall c, get_conn s c = None <-> get_conn s0 c = None;
  v_heap : hview s = hview s0;
  v_relay : relay s = relay s0;
  v_uid : next_uid s = next_uid s0;
  v_add : st_add s = st_add s0 }.

Lemma st_moves_refl a : st_moves a a. Proof. left. reflexivity. Qed.
Lemma st_moves_trans a b d : st_moves a b -> st_moves b d -> st_moves a d.
Proof. unfold st_moves. intros [-> | [-> | ->]] [-> | [-> | ->]]; auto. Qed.
Lemma chan_le_refl o : chan_le o o.
Proof. destruct o; cbn; auto using st_moves_refl. Qed.
Lemma chan_le_trans a b d : chan_le a b -> chan_le b d -> chan_le a d.
Proof.
  destruct a, b, d; cbn; try tauto. intros [E1 M1] [E2 M2]. split; [congruence|eapply st_moves_trans; eauto].
Qed.
Lemma vle_refl s : vle s s.
Proof. constructor; auto using chan_le_refl. tauto. Qed.
Lemma vle_trans s0 s1 s2 : vle s0 s1 -> vle s1 s2 -> vle s0 s2.
Proof.
  intros [A1 B1 C1 D1 E1 F1] [A2 B2 C2 D2 E2 F2]. constructor; try congruence.
  - intros c h. eapply chan_le_trans; eauto.
  - intros c. rewrite B2. apply B1.
Qed.

Definition same5 (s1 s : state) : Prop :=
  conns s1 = conns s /\ heap s1 = heap s /\ relay s1 = relay s /\ next_uid s1 = next_uid s /\ st_add s1 = st_add s.
Lemma vle_same5 s s1 : same5 s1 s -> vle s s1.
Proof.
  intros (A & B & C & D & E). constructor; auto.
  - intros c h. rewrite (get_chan_same_conns _ _ _ _ A). apply chan_le_refl.
  - intros c. unfold get_conn. rewrite A. tauto.
  - unfold hview. rewrite B. reflexivity.
Qed.
Lemma V_same s0 s s1 : same5 s1 s -> vle s0 s -> vle s0 s1.
Proof. intros H H0. eapply vle_trans; [exact H0|apply vle_same5; exact H]. Qed.

Lemma get_conn_set_chan s c h ch c' : get_conn (set_chan s c h ch) c' = None <-> get_conn s c' = None.
Proof.
  unfold set_chan. destruct (get_conn s c) as [cn|] eqn:Ec; [|tauto].
  unfold get_conn in *. cbn. rewrite (alookup_aset N.eqb Neqb_spec). destruct (c' =? c) eqn:E; [|tauto].
  apply N.eqb_eq in E. subst. rewrite Ec. split; discriminate.
Qed.
Lemma set_chan_frame s c h ch :
  heap (set_chan s c h ch) = heap s /\ relay (set_chan s c h ch) = relay s /\ next_uid (set_chan s c h ch) = next_uid s /\
  st_add (set_chan s c h ch) = st_add s /\ queues (set_chan s c h ch) = queues s /\ exchanges (set_chan s c h ch) = exchanges s /\
  st_db (set_chan s c h ch) = st_db s /\ st_del (set_chan s c h ch) = st_del s.
Proof. unfold set_chan. destruct (get_conn s c); cbn; repeat split; reflexivity. Qed.

Lemma vle_set_chan s c h ch ch' :
  get_chan s c h = Some ch -> chw ch' = chw ch -> st_moves (ch_status ch) (ch_status ch') -> vle s (set_chan s c h ch').
Proof.
  intros Eg Ew Hm. destruct (set_chan_frame s c h ch') as (A & B & C & D & _). constructor; auto.
  - intros c' h'. rewrite get_chan_set_chan. pose proof (get_chan_conn _ _ _ _ Eg) as Hc. destruct (get_conn s c); [|congruence].
    destruct ((c' =? c) && (h' =? h)) eqn:Eb; [|apply chan_le_refl].
    apply andb_prop in Eb. destruct Eb as [E1 E2]. apply N.eqb_eq in E1, E2. subst. rewrite Eg. cbn. auto.
  - intros c'. apply get_conn_set_chan.
  - unfold hview. rewrite A. reflexivity.
Qed.
Lemma V_set_chan s0 s c h ch ch' :
  get_chan s c h = Some ch -> chw ch' = chw ch -> st_moves (ch_status ch) (ch_status ch') -> vle s0 s -> vle s0 (set_chan s c h ch').
Proof. intros. eapply vle_trans; [eassumption|eapply vle_set_chan; eauto]. Qed.
Lemma V_upd_chan s0 s c h f :
  (forall ch, chw (f ch) = chw ch /\ st_moves (ch_status ch) (ch_status (f ch))) -> vle s0 s -> vle s0 (upd_chan s c h f).
Proof.
  intros Hf H. unfold upd_chan. destruct (get_chan s c h) as [ch|] eqn:E; auto.
  destruct (Hf ch). eapply V_set_chan; eauto.
Qed.

Lemma hview_aset_same l u m m' :
  alookup N.eqb u l = Some m -> mv m' = mv m ->
  map (fun kv : N * msg => (fst kv, mv (snd kv))) (aset N.eqb u m' l) = map (fun kv => (fst kv, mv (snd kv))) l.
Proof.
  induction l as [|[k v] t IH]; cbn; [discriminate|]. intros Hl Hm.
  destruct (u =? k) eqn:E; cbn.
  - apply N.eqb_eq in E. subst. inversion Hl; subst. rewrite Hm. reflexivity.
  - rewrite IH; auto.
Qed.
Lemma vle_upd_msg s u f : (forall m, mv (f m) = mv m) -> vle s (upd_msg s u f).
Proof.
  intros Hf. unfold upd_msg. destruct (get_msg s u) as [m|] eqn:E; [|apply vle_refl].
  constructor; try reflexivity; try (intros; apply chan_le_refl); try tauto.
  unfold hview. cbn. eapply hview_aset_same; [exact E|auto].
Qed.
Lemma V_upd_msg s0 s u f : (forall m, mv (f m) = mv m) -> vle s0 s -> vle s0 (upd_msg s u f).
Proof. intros. eapply vle_trans; [eassumption|apply vle_upd_msg; auto]. Qed.

Lemma V_conn_qos s0 s c cn f :
  get_conn s c = Some cn -> vle s0 s -> vle s0 (s <| conns := aset N.eqb c (cn <| cn_qos ::= f |>) (conns s) |>).
Proof.
  intros Ec H. eapply vle_trans; [exact H|]. constructor; try reflexivity.
  - intros c' h'. rewrite (get_chan_set_conn_qos _ _ _ _ _ _ Ec). apply chan_le_refl.
  - intros c'. unfold get_conn in *. cbn. rewrite (alookup_aset N.eqb Neqb_spec). destruct (c' =? c) eqn:E; [|tauto].
    apply N.eqb_eq in E. subst. rewrite Ec. split; discriminate.
Qed.
Lemma V_set_stage s0 s c st : vle s0 s -> vle s0 (set_stage s c st).
Proof.
  intros H. eapply vle_trans; [exact H|]. constructor.
  - intros c' h'. rewrite get_chan_set_stage. apply chan_le_refl.
  - intros c'. unfold set_stage. destruct (get_conn s c) as [cn|] eqn:Ec; [|tauto].
    unfold get_conn in *. cbn. rewrite (alookup_aset N.eqb Neqb_spec). destruct (c' =? c) eqn:E; [|tauto].
    apply N.eqb_eq in E. subst. rewrite Ec. split; discriminate.
  - unfold set_stage. destruct (get_conn s c); reflexivity.
  - unfold set_stage. destruct (get_conn s c); reflexivity.
  - unfold set_stage. destruct (get_conn s c); reflexivity.
  - unfold set_stage. destruct (get_conn s c); reflexivity.
Qed.

(* ------------------------------------------------------------------ *)
(* framing: everything that is not part of the confirm machinery leaves the view alone *)
Lemma same5_refl s : same5 s s. Proof. repeat split. Qed.
Lemma same5_trans s0 s1 s2 : same5 s1 s0 -> same5 s2 s1 -> same5 s2 s0.
Proof. unfold same5. intros (A & B & C & D & E) (A' & B' & C' & D' & E'). repeat split; congruence. Qed.
Lemma same5_set_queue s q v : same5 (set_queue s q v) s. Proof. repeat split. Qed.
Lemma same5_upd_queue s q f : same5 (upd_queue s q f) s.
Proof. unfold upd_queue. destruct (get_queue s q); [apply same5_set_queue|apply same5_refl]. Qed.
Lemma same5_queue_ackmsg s qn u : same5 (queue_ackmsg s qn u) s.
Proof.
  unfold queue_ackmsg. destruct (get_queue s qn); [|apply same5_refl]. destruct (get_msg s u); [|apply same5_refl].
  destruct (negb _); [apply same5_refl|]. destruct (_ && _); repeat split.
Qed.
Lemma same5_queue_remove_consumer s qn c h tag : same5 (queue_remove_consumer s qn c h tag) s.
Proof.
  unfold queue_remove_consumer. destruct (get_queue s qn); [|apply same5_refl].
  repeat match goal with |- context [if ?b then _ else _] => destruct b end; repeat split.
Qed.
Lemma same5_store_writeback s qn u d : same5 (store_writeback s qn u d) s.
Proof. unfold store_writeback. destruct (_ && _ && _); repeat split. Qed.

Lemma same5_store_purge s qn : same5 (store_purge s qn) s.
Proof. unfold store_purge. repeat split. Qed.

Ltac vs := first
  [ eapply V_same; [first [ apply same5_set_queue | apply same5_upd_queue | apply same5_queue_ackmsg
                          | apply same5_queue_remove_consumer | apply same5_store_writeback | apply same5_store_purge ] | ]
  | match goal with |- vle _ (@set _ _ _ _ _ ?s) => apply (V_same _ s); [repeat split; reflexivity|] end ].
Ltac vkeep := apply V_upd_chan; [intros ?; split; [reflexivity|first [apply st_moves_refl | right; right; reflexivity | right; left; reflexivity]]|].
Ltac vmsg := apply V_upd_msg; [intros ?; reflexivity|].
Ltac vsc := repeat (first [ assumption
                          | match goal with |- vle _ (if ?b then _ else _) => destruct b end
                          | match goal with |- vle _ (match ?x with _ => _ end) => destruct x eqn:? end
                          | vs | vkeep | vmsg | eapply V_conn_qos; [eassumption|] ]).

(* ------------------------------------------------------------------ *)
(* channel.close drops the message being assembled (ch_cur := None) - the one thing it does that the view [vle] sees.
   It is split into the part the view does not see ([close_pre]) and the drop; [vld P s0 s]: s is reached from s0 by
   steps the view does not see and drops of the current message on channels (c,h) with P c h. *)
Lemma aset_aset_N {V} k (v v' : V) l : aset N.eqb k v' (aset N.eqb k v l) = aset N.eqb k v' l.
Proof.
  induction l as [|[k0 v0] r IH]; cbn; [rewrite N.eqb_refl; reflexivity|].
  destruct (k =? k0) eqn:E; cbn; [rewrite N.eqb_refl; reflexivity|rewrite E; f_equal; exact IH].
Qed.
Lemma set_chan_set_chan s c h a b : set_chan (set_chan s c h a) c h b = set_chan s c h b.
Proof.
  unfold set_chan. destruct (get_conn s c) as [cn|] eqn:Ec; [|rewrite Ec; reflexivity].
  unfold get_conn in *. cbn. rewrite (alookup_aset N.eqb Neqb_spec), N.eqb_refl. cbn. rewrite !aset_aset_N. reflexivity.
Qed.
Lemma upd_chan_upd_chan s c h f g : upd_chan (upd_chan s c h f) c h g = upd_chan s c h (fun ch => g (f ch)).
Proof.
  unfold upd_chan. destruct (get_chan s c h) as [ch|] eqn:E; [|rewrite E; reflexivity].
  rewrite get_chan_set_chan. pose proof (get_chan_conn _ _ _ _ E) as Hc. destruct (get_conn s c); [|congruence].
  rewrite !N.eqb_refl. cbn [andb]. apply set_chan_set_chan.
Qed.

Definition close_pre (cfg : config) (s : state) (c h : N) : state :=
  match get_chan s c h with
  | None => s
  | Some ch =>
    let s := fold_left (fun s cm => consumer_stop s c h (c_tag cm)) (ch_consumers ch) s in
    let s := upd_chan s c h (fun ch => ch <| ch_consumers := [] |>) in
    let s := if 0 <? h then fst (handle_reject cfg s c h 0 true true 60 120) else s in
    upd_chan s c h (fun ch => ch <| ch_status := ChClosed |>)
  end.
Lemma channel_close_split cfg s c h :
  channel_close cfg s c h = upd_chan (close_pre cfg s c h) c h (fun ch => ch <| ch_cur := None |>).
Proof.
  unfold channel_close, close_pre. destruct (get_chan s c h) as [ch|] eqn:E; [|unfold upd_chan; rewrite E; reflexivity].
  cbv zeta. rewrite upd_chan_upd_chan. reflexivity.
Qed.

Inductive vld (P : N -> N -> Prop) (s0 : state) : state -> Prop :=
| vld_vle s : vle s0 s -> vld P s0 s
| vld_drop s c h ch : vld P s0 s -> P c h -> get_chan s c h = Some ch -> vld P s0 (set_chan s c h (ch <| ch_cur := None |>))
| vld_step s s' : vld P s0 s -> vle s s' -> vld P s0 s'.
Lemma vld_refl P s : vld P s s. Proof. apply vld_vle, vle_refl. Qed.
Lemma vld_trans P s0 s1 s2 : vld P s0 s1 -> vld P s1 s2 -> vld P s0 s2.
Proof. intros H1 H2. induction H2; [eapply vld_step; eauto|eapply vld_drop; eauto|eapply vld_step; eauto]. Qed.
Lemma vld_weaken (P Q : N -> N -> Prop) s0 s : (forall c h, P c h -> Q c h) -> vld P s0 s -> vld Q s0 s.
Proof. intros Hw H. induction H; [apply vld_vle; auto|eapply vld_drop; eauto|eapply vld_step; eauto]. Qed.
Lemma vle_none s0 s c h : vle s0 s -> (get_chan s0 c h = None <-> get_chan s c h = None).
Proof.
  intros H. pose proof (v_chan _ _ H c h) as C. unfold chan_le in C.
  destruct (get_chan s0 c h), (get_chan s c h); try tauto. split; discriminate.
Qed.
Lemma vld_none P s0 s c h : vld P s0 s -> (get_chan s0 c h = None <-> get_chan s c h = None).
Proof.
  intros H. induction H as [s Hv|s c1 h1 ch1 H IH Hp Hg|s s' H IH Hv].
  - apply vle_none; exact Hv.
  - rewrite IH. rewrite get_chan_set_chan. pose proof (get_chan_conn _ _ _ _ Hg) as Hc. destruct (get_conn s c1); [|congruence].
    destruct ((c =? c1) && (h =? h1)) eqn:Eb; [|tauto].
    apply andb_prop in Eb. destruct Eb as [E1 E2]. apply N.eqb_eq in E1, E2. subst. rewrite Hg. split; discriminate.
  - rewrite IH. apply vle_none; exact Hv.
Qed.

Section Frame.
Variable s0 : state.
Notation I := (vle s0).

Lemma V_queue_requeue s qn u : I s -> I (queue_requeue s qn u).
Proof.
  intros H. unfold queue_requeue. destruct (get_queue s qn); auto. destruct (negb _); auto. vsc.
Qed.

Lemma V_wake s c h tag : I s -> I (fst (wake_consumer s c h tag)).
Proof.
  intros H. unfold wake_consumer. destruct (get_chan s c h) as [ch|] eqn:E; auto.
  destruct (find_consumer ch tag) as [cm|]; auto. destruct (consume_msg cm) as [cm' b]. cbn [fst].
  eapply V_set_chan; [exact E|reflexivity|apply st_moves_refl|exact H].
Qed.

Lemma V_consumer_stop s c h tag : I s -> I (consumer_stop s c h tag).
Proof.
  intros H. unfold consumer_stop. destruct (get_chan s c h) as [ch|] eqn:E; auto.
  destruct (find_consumer ch tag) as [cm|]; auto.
  destruct (c_status cm); auto; vs; (eapply V_set_chan; [exact E|reflexivity|apply st_moves_refl|exact H]).
Qed.

Lemma V_wake_all s c h : I s -> I (wake_all_of_chan s c h).
Proof. intros H. unfold wake_all_of_chan. vkeep. exact H. Qed.

Lemma V_wake_consumers cfg s c h : I s -> I (wake_consumers cfg s c h).
Proof.
  intros H. unfold wake_consumers. pose proof (V_wake_all s c h H) as H1.
  destruct (cfg_rabbit cfg); auto. destruct (get_conn _ c) as [cn|]; auto.
  apply fold_left_preserves; auto. intros s1 x H0. destruct (fst x =? h); auto. apply V_wake_all; auto.
Qed.

Lemma V_dec_qos cfg s c h u : I s -> I (dec_qos_and_consume_next cfg s c h u).
Proof.
  intros H. unfold dec_qos_and_consume_next. destruct (get_chan s c h) as [ch|]; auto.
  apply V_wake_consumers. vsc.
Qed.

Lemma V_chan_ackmsg s u : I s -> I (chan_ackmsg s u).
Proof. intros H. unfold chan_ackmsg. destruct (origin_queue s u); vsc. Qed.
Lemma V_chan_rejectmsg s u r : I s -> I (chan_rejectmsg s u r).
Proof.
  intros H. unfold chan_rejectmsg. destruct (origin_queue s u); [|vsc].
  destruct r; [apply V_queue_requeue; auto|vsc].
Qed.

Lemma V_del_unacked s c h tag : I s -> I (upd_chan s c h (fun ch => del_unacked ch tag)).
Proof. intros H. vkeep. exact H. Qed.

Lemma V_handle_reject cfg s c h tag mult requeue cls mth : I s -> I (fst (handle_reject cfg s c h tag mult requeue cls mth)).
Proof.
  intros H. unfold handle_reject. destruct (get_chan s c h) as [ch|]; auto.
  destruct mult.
  - cbn [fst]. apply fold_left_preserves; [intros; apply V_dec_qos; auto|].
    apply fold_left_preserves; auto. intros s1 a H0. apply V_chan_rejectmsg. apply V_del_unacked; auto.
  - destruct (find _ _); cbn [fst]; auto. apply V_dec_qos. apply V_chan_rejectmsg. apply V_del_unacked; auto.
Qed.

Lemma V_handle_ack cfg s c h tag mult : I s -> I (fst (handle_ack cfg s c h tag mult)).
Proof.
  intros H. unfold handle_ack. destruct (get_chan s c h) as [ch|]; auto.
  destruct mult.
  - cbn [fst]. apply fold_left_preserves; [intros; apply V_dec_qos; auto|].
    apply fold_left_preserves; auto. intros s1 a H0. apply V_chan_ackmsg. apply V_del_unacked; auto.
  - destruct (find _ _); cbn [fst]; auto. apply V_dec_qos. apply V_chan_ackmsg. apply V_del_unacked; auto.
Qed.

Lemma V_close_pre cfg s c h : I s -> I (close_pre cfg s c h).
Proof.
  intros H. unfold close_pre. destruct (get_chan s c h) as [ch|] eqn:Ech; auto.
  vkeep.
  assert (H2 : I (upd_chan (fold_left (fun s cm => consumer_stop s c h (c_tag cm)) (ch_consumers ch) s) c h
                     (fun ch => ch <| ch_consumers := [] |>))).
  { vkeep. apply fold_left_preserves; auto. intros; apply V_consumer_stop; auto. }
  destruct (0 <? h); auto. apply V_handle_reject; auto.
Qed.

Lemma V_cancel_fold l : forall s evs, I s ->
  I (fst (fold_left (fun acc x => let '(s, evs) := acc in let '(s', e) := consumer_cancel s x in (s', evs ++ e)) l (s, evs))).
Proof.
  induction l as [|[[c h] tag] t IH]; intros s evs H; simpl; auto.
  apply IH. apply V_consumer_stop; auto.
Qed.

Lemma V_vhost_delete_queue b s qn iu ie : I s -> I (fst (fst (vhost_delete_queue b s qn iu ie))).
Proof.
  intros H. unfold vhost_delete_queue. destruct (get_queue s qn) as [qu|] eqn:Eq; auto.
  destruct (_ || _).
  - cbn [fst]. destruct b; [vs|]; exact H.
  - pose proof (V_cancel_fold (q_consumers qu) s [] H) as Hf.
    destruct (fold_left _ (q_consumers qu) (s, [])) as [s1 e1]. cbn [fst] in *. vsc.
Qed.

Lemma V_store_windows cfg s c h tag ws : I s -> I (store_windows cfg s c h tag ws).
Proof.
  intros H. unfold store_windows. destruct ws as [|w1 [|w2 [|]]]; auto.
  destruct (cfg_rabbit cfg); [vsc|]. destruct (get_conn _ c) eqn:Ec; vsc.
Qed.

Lemma V_consumer_turn cfg fx s c h tag : I s -> I (fst (consumer_turn cfg fx s c h tag)).
Proof.
  intros H. unfold consumer_turn.
  destruct (get_chan s c h) as [ch|] eqn:Ech; auto.
  destruct (find_consumer ch tag) as [cm|] eqn:Efc; auto.
  destruct (negb (c_token cm)); auto.
  set (s1 := set_chan s c h _).
  assert (H0 : I s1) by (subst s1; eapply V_set_chan; [exact Ech|reflexivity|apply st_moves_refl|exact H]).
  clearbody s1.
  destruct (c_status cm); auto.
  all: destruct (get_queue s1 (c_queue cm)) as [qu|]; auto.
  all: destruct (negb (q_active qu)); auto.
  all: destruct (q_ready qu) as [|u rest]; auto.
  all: match goal with |- context [if c_noack ?cm0 then (Some [], []) else ?r] => destruct (if c_noack cm0 then (Some [], []) else r) as [okr ws] end.
  all: set (s2 := if c_noack cm then s1 else store_windows cfg s1 c h tag ws).
  all: assert (H1 : I s2) by (subst s2; destruct (c_noack cm); auto; apply V_store_windows; auto).
  all: clearbody s2.
  all: destruct okr; cbn [fst]; auto.
  all: match goal with |- context [wake_consumer ?st ?c0 ?h0 ?tag0] => destruct (wake_consumer st c0 h0 tag0) as [s9 b9] eqn:Ew;
         apply fst_pair in Ew; cbn [fst]; subst s9; apply V_wake end.
  all: vsc.
Qed.

Lemma V_queue_loop_turn s qn : I s -> I (queue_loop_turn s qn).
Proof.
  intros H. unfold queue_loop_turn. destruct (get_queue s qn) as [qu|]; auto. destruct (negb (q_call qu)); auto.
  destruct (Nat.eqb _ 0); [vs; auto|]. vs.
  apply fold_left_preserves; [|vs; auto]. intros s1 [[c h] tag] H0. apply V_wake; auto.
Qed.

Lemma V_send_error s c h e : I s -> I (fst (send_error s c h e)).
Proof. intros H. destruct e; cbn [send_error fst]; auto. vkeep. exact H. Qed.

Lemma V_apply_err s c h r : I (fst (fst r)) -> I (fst (apply_err s c h r)).
Proof.
  destruct r as [[s1 e1] [e|]]; cbn [fst]; auto.
  intros H. unfold apply_err. pose proof (V_send_error s1 c h e H) as Hs.
  destruct (send_error s1 c h e) as [s2 e2]. exact Hs.
Qed.
End Frame.

(* ------------------------------------------------------------------ *)
(* only the confirm ticker writes basic.ack *)
Definition nb (evs : list event) : bool := forallb (fun e => match snd e with SAck _ _ => false | _ => true end) evs.
Lemma nb_app a b : nb (a ++ b) = nb a && nb b. Proof. apply forallb_app. Qed.
Lemma nb_acks c h evs : nb evs = true -> acks_of c h evs = [].
Proof.
  unfold acks_of. induction evs as [|[[c' h'] f] t IH]; cbn [flat_map nb forallb]; auto. intros H. apply andb_prop in H. destruct H as [H1 H2].
  rewrite (IH H2). destruct f; try discriminate; reflexivity.
Qed.
Lemma nb_content_frames s c h u : nb (content_frames s c h u) = true.
Proof.
  unfold content_frames. destruct (get_msg s u) as [m|]; auto. cbn. induction (m_body m); cbn; auto.
Qed.
Lemma nb_cancel_fold l : forall s evs, nb evs = true ->
  nb (snd (fold_left (fun acc x => let '(s, evs) := acc in let '(s', e) := consumer_cancel s x in (s', evs ++ e)) l (s, evs))) = true.
Proof.
  induction l as [|[[c h] tag] t IH]; intros s evs H; simpl; auto.
  apply IH. rewrite nb_app, H. reflexivity.
Qed.
Lemma nb_vhost_delete_queue b s qn iu ie : nb (snd (fst (vhost_delete_queue b s qn iu ie))) = true.
Proof.
  unfold vhost_delete_queue. destruct (get_queue s qn) as [qu|]; auto. destruct (_ || _); auto.
  pose proof (nb_cancel_fold (q_consumers qu) s [] eq_refl) as Hf.
  destruct (fold_left _ (q_consumers qu) (s, [])) as [s1 e1]. exact Hf.
Qed.
Lemma nb_send_error s c h e : nb (snd (send_error s c h e)) = true.
Proof. destruct e; reflexivity. Qed.
Lemma nb_apply_err s c h r : nb (snd (fst r)) = true -> nb (snd (apply_err s c h r)) = true.
Proof.
  destruct r as [[s1 e1] [e|]]; cbn [fst snd apply_err]; auto. intros H.
  pose proof (nb_send_error s1 c h e) as Hs. destruct (send_error s1 c h e) as [s2 e2]. cbn [snd] in *. rewrite nb_app, H, Hs. reflexivity.
Qed.
Lemma nb_consumer_turn cfg fx s c h tag : nb (snd (consumer_turn cfg fx s c h tag)) = true.
Proof.
  unfold consumer_turn.
  destruct (get_chan s c h) as [ch|]; auto. destruct (find_consumer ch tag) as [cm|]; auto.
  destruct (negb (c_token cm)); auto. destruct (c_status cm); auto.
  all: match goal with |- context [get_queue ?s1 ?q] => destruct (get_queue s1 q) as [qu|]; auto end.
  all: destruct (negb (q_active qu)); auto.
  all: destruct (q_ready qu) as [|u rest]; auto.
  all: match goal with |- context [if c_noack ?cm0 then (Some [], []) else ?r] => destruct (if c_noack cm0 then (Some [], []) else r) as [okr ws] end.
  all: destruct okr; auto.
  all: match goal with |- context [wake_consumer ?st ?c0 ?h0 ?tag0] => destruct (wake_consumer st c0 h0 tag0) as [s9 b9] end.
  all: cbn [snd]; match goal with |- context [get_msg ?st ?u] => destruct (get_msg st u) eqn:? end; auto.
  all: rewrite nb_app, nb_content_frames; reflexivity.
Qed.
Lemma nb_route_and_push fx s c h u : nb (snd (route_and_push fx s c h u)) = true.
Proof.
  unfold route_and_push. destruct (get_msg s u) as [m|]; auto.
  destruct (alookup _ _ _) as [ex|]; cbn [snd]; [|rewrite nb_app, nb_content_frames; reflexivity].
  destruct (matched_queues _ _ _) as [|q1 qs]; cbn [snd]; auto.
  destruct (m_mand m); auto. rewrite nb_app, nb_content_frames; reflexivity.
Qed.
Lemma nb_finish_publish fx s c h u : nb (snd (finish_publish fx s c h u)) = true.
Proof.
  unfold finish_publish. pose proof (nb_route_and_push fx s c h u) as H. destruct (route_and_push fx s c h u) as [s1 e1]. exact H.
Qed.
Lemma nb_handle_method cfg fx s c h m : nb (snd (fst (handle_method cfg fx s c h m))) = true.
Proof.
  unfold handle_method. destruct (get_chan s c h) as [ch|]; auto.
  destruct m; unfold ok, refuse; cbn [fst snd].
  all: try (repeat match goal with
                   | |- context [if ?b then _ else _] => destruct b
                   | |- context [match ?x with _ => _ end] => destruct x eqn:?
                   end; cbn [fst snd]; rewrite ?nb_app, ?nb_content_frames; reflexivity).
  - (* MQDelete *)
    destruct (queue_found s q); auto. destruct (locked _ _); auto.
    pose proof (nb_vhost_delete_queue (negb (fx_delete_checks_first fx)) s q ifunused ifempty) as Hd.
    destruct (vhost_delete_queue _ s q ifunused ifempty) as [[s1 e1] r1]. cbn [fst snd] in *.
    destruct r1; cbn [fst snd]; auto. rewrite nb_app, Hd. cbn [andb]. destruct (fx_nowait fx && nowait); reflexivity.
Qed.

(* ------------------------------------------------------------------ *)
(* the parts of where_is as functions of: the instance of the channel, the heap, the relay *)
Definition rp (oi : option N) (c h : N) (m : msg) : list N :=
  match m_conf m with
  | Some (c', h', t) => if (c' =? c) && (h' =? h) then (if oN_eqb oi (Some (m_inst m)) then [t] else []) else []
  | None => []
  end.
Definition RP (oi : option N) (c h : N) (hp : list (N * msg)) (rl : list N) : list N :=
  flat_map (fun u => match alookup N.eqb u hp with Some m => rp oi c h m | None => [] end) rl.
Definition hp1 (c h i : N) (m : msg) : list N := if waiting i m then for_chan c h (m_conf m) else [].
Definition HP (c h i : N) (hp : list (N * msg)) : list N := flat_map (fun kv => hp1 c h i (snd kv)) hp.
Definition CP (hp : list (N * msg)) (cur : option N) : list N :=
  match cur with
  | Some u => match alookup N.eqb u hp with
              | Some m => match m_conf m with Some (_, _, t) => [t] | None => [] end
              | None => []
              end
  | None => []
  end.
Lemma for_chan_live s c h m : for_chan c h (live_conf s m) = rp (chan_inst s c h) c h m.
Proof.
  unfold live_conf, rp. destruct (m_conf m) as [[[c' h'] t]|]; [|reflexivity].
  destruct ((c' =? c) && (h' =? h)) eqn:Eb.
  - apply andb_prop in Eb. destruct Eb as [E1 E2]. apply N.eqb_eq in E1, E2. subst. unfold chan_inst.
    destruct (get_chan s c h) as [ch|]; cbn; [|reflexivity].
    destruct (ch_inst ch =? m_inst m); cbn; [rewrite !N.eqb_refl; reflexivity|reflexivity].
  - destruct (get_chan s c' h') as [ch|]; cbn; [|reflexivity]. destruct (ch_inst ch =? m_inst m); cbn; [rewrite Eb|]; reflexivity.
Qed.
Lemma relay_part_RP s c h : relay_part s c h = RP (chan_inst s c h) c h (heap s) (relay s).
Proof.
  unfold relay_part, RP. apply flat_map_ext. intros u. unfold get_msg. destruct (alookup N.eqb u (heap s)); auto. apply for_chan_live.
Qed.
Lemma heap_part_HP s c h i : heap_part s c h i = HP c h i (heap s). Proof. reflexivity. Qed.
Lemma cur_part_CP s cur : cur_part s cur = CP (heap s) cur. Proof. reflexivity. Qed.
Lemma where_nc_alt s c h ch :
  where_nc s c h ch = ch_confirmq ch ++ RP (chan_inst s c h) c h (heap s) (relay s) ++ HP c h (ch_inst ch) (heap s).
Proof. unfold where_nc. rewrite relay_part_RP. reflexivity. Qed.

(* projections of the heap *)
Section Proj.
  Context {P : Type} (pr : msg -> P).
  Definition pmap (l : list (N * msg)) := map (fun kv => (fst kv, pr (snd kv))) l.
  Lemma proj_lookup l l0 : pmap l = pmap l0 -> forall u, option_map pr (alookup N.eqb u l) = option_map pr (alookup N.eqb u l0).
  Proof.
    revert l0. induction l as [|[k v] t IH]; intros [|[k0 v0] t0] H u; cbn in *; try discriminate; auto.
    inversion H; subst. destruct (u =? k0); cbn; [congruence|auto].
  Qed.
  Lemma proj_in l l0 u m : pmap l = pmap l0 -> In (u, m) l -> exists m0, In (u, m0) l0 /\ pr m0 = pr m.
  Proof.
    revert l0. induction l as [|[k v] t IH]; intros [|[k0 v0] t0] H Hin; cbn in *; try discriminate; [tauto|].
    inversion H; subst. destruct Hin as [E|Hin].
    - inversion E; subst. exists v0. auto.
    - destruct (IH t0 H3 Hin) as (m0 & A & B). exists m0. auto.
  Qed.
  Lemma proj_flat_map {X} (f : N * msg -> list X) l l0 :
    (forall k m m0, pr m = pr m0 -> f (k, m) = f (k, m0)) -> pmap l = pmap l0 -> flat_map f l = flat_map f l0.
  Proof.
    intros Hf. revert l0. induction l as [|[k v] t IH]; intros [|[k0 v0] t0] H; cbn in *; try discriminate; auto.
    inversion H; subst. rewrite (IH t0 H3). rewrite (Hf k0 v v0 H2). reflexivity.
  Qed.
End Proj.
Definition ci (m : msg) := (m_conf m, m_inst m).
Lemma pmap_mv_ci l l0 : pmap mv l = pmap mv l0 -> pmap ci l = pmap ci l0.
Proof.
  unfold pmap. intros H.
  assert (E : forall l1, map (fun kv : N * msg => (fst kv, ci (snd kv))) l1 =
                         map (fun p : N * (option (N * N * N) * N * Z * Z) => (fst p, (fst (fst (fst (snd p))), snd (fst (fst (snd p)))))) (map (fun kv => (fst kv, mv (snd kv))) l1)).
  { intros l1. rewrite map_map. apply map_ext. intros [k m]. reflexivity. }
  rewrite !E, H. reflexivity.
Qed.

(* ------------------------------------------------------------------ *)
(* auxiliary invariants: what the numbers in the heap refer to *)
Definition msg_ok (s : state) (u : N) (m : msg) : Prop :=
  u < next_uid s /\
  forall c h t, m_conf m = Some (c, h, t) ->
    get_conn s c = None \/
    exists ch, get_chan s c h = Some ch /\ m_inst m <= ch_inst ch /\ (m_inst m = ch_inst ch -> 1 <= t <= ch_ctag ch).
Definition cur_ok (s : state) (c h : N) (ch : channel) : Prop :=
  forall u, ch_cur ch = Some u -> u < next_uid s /\
    forall m, get_msg s u = Some m ->
       forall c' h' t, m_conf m = Some (c', h', t) -> c' = c /\ h' = h /\ m_inst m = ch_inst ch.
Record Aux (s : state) : Prop := {
  aux_msg : forall u m, In (u, m) (heap s) -> msg_ok s u m;
  aux_cur : forall c h ch, get_chan s c h = Some ch -> cur_ok s c h ch;
  aux_relay : forall u, In u (relay s) -> u < next_uid s }.

(* an intermediate step that hands numbers on (or drops them) without creating any *)
Definition mid_chan (s0 s : state) (c h : N) : Prop :=
  match get_chan s0 c h, get_chan s c h with
  | Some ch0, Some ch => ch_inst ch = ch_inst ch0 /\ ch_ctag ch = ch_ctag ch0 /\ ch_cur ch = ch_cur ch0 /\
                         forall t, (cnt t (where_nc s c h ch) <= cnt t (where_nc s0 c h ch0))%nat
  | None, None => True
  | _, _ => False
  end.
Record mid (s0 s : state) : Prop := {
  mid_conn : forall c, get_conn s c = None <-> get_conn s0 c = None;
  mid_uid : next_uid s = next_uid s0;
  mid_ch : forall c h, mid_chan s0 s c h;
  mid_heap : pmap ci (heap s) = pmap ci (heap s0);
  mid_relay : forall u, In u (relay s) -> In u (relay s0) \/ exists m, In (u, m) (heap s0) }.

Lemma mid_refl s : mid s s.
Proof. constructor; try tauto; auto. intros c h. unfold mid_chan. destruct (get_chan s c h); auto. Qed.
Lemma mid_trans s0 s1 s2 : mid s0 s1 -> mid s1 s2 -> mid s0 s2.
Proof.
  intros [A1 B1 C1 D1 R1] [A2 B2 C2 D2 R2]. constructor.
  - intros c. rewrite A2. apply A1.
  - congruence.
  - intros c h. specialize (C1 c h). specialize (C2 c h). unfold mid_chan in *.
    destruct (get_chan s0 c h), (get_chan s1 c h), (get_chan s2 c h); try tauto.
    destruct C1 as (a1 & b1 & k1 & d1), C2 as (a2 & b2 & k2 & d2). repeat split; try congruence.
    intros t. specialize (d1 t). specialize (d2 t). lia.
  - congruence.
  - intros u Hu. destruct (R2 u Hu) as [H|(m & H)]; [auto|]. right.
    destruct (proj_in ci _ _ u m D1 H) as (m0 & Hin0 & _). eauto.
Qed.

Lemma Aux_mid s0 s : mid s0 s -> Aux s0 -> Aux s.
Proof.
  intros [A B C D R] [Hm Hc Hrl]. constructor.
  - intros u m Hin. destruct (proj_in ci _ _ u m D Hin) as (m0 & Hin0 & Epr). unfold ci in Epr. inversion Epr as [[E1 E2]].
    destruct (Hm u m0 Hin0) as [Hu Hk]. split; [rewrite B; exact Hu|].
    intros c h t Ecf. rewrite <- E1 in Ecf. destruct (Hk c h t Ecf) as [Hn|(ch0 & Hg & Hi & Hrg)].
    + left. apply A. exact Hn.
    + right. specialize (C c h). unfold mid_chan in C. rewrite Hg in C. destruct (get_chan s c h) as [ch|]; [|tauto].
      destruct C as (a & b & _). exists ch. split; auto. rewrite a, b, <- E2. auto.
  - intros c h ch Hg u Hu. specialize (C c h). unfold mid_chan in C. rewrite Hg in C.
    destruct (get_chan s0 c h) as [ch0|] eqn:Hg0; [|tauto]. destruct C as (a & b & cc & _).
    rewrite cc in Hu. destruct (Hc c h ch0 Hg0 u Hu) as [Hlt Hk]. split; [rewrite B; exact Hlt|].
    intros m Hgm c' h' t Ecf. pose proof (proj_lookup ci _ _ D u) as Hl. unfold get_msg in Hgm. rewrite Hgm in Hl. cbn in Hl.
    destruct (alookup N.eqb u (heap s0)) as [m0|] eqn:Hg0m; [|discriminate]. cbn in Hl. inversion Hl as [[E1 E2]].
    rewrite E1 in Ecf. destruct (Hk m0 Hg0m c' h' t Ecf) as (x & y & z). rewrite a, E2. auto.
  - intros u Hu. rewrite B. destruct (R u Hu) as [H|(m & H)]; [auto|]. apply (Hm u m H).
Qed.

Lemma CP_ci hp hp0 cur : pmap ci hp = pmap ci hp0 -> CP hp cur = CP hp0 cur.
Proof.
  intros D. unfold CP. destruct cur as [u|]; auto. pose proof (proj_lookup ci _ _ D u) as Hl.
  destruct (alookup N.eqb u hp) as [m|], (alookup N.eqb u hp0) as [m0|]; cbn in Hl; try discriminate; auto.
  inversion Hl as [[E1 E2]]. rewrite E1. reflexivity.
Qed.
(* under mid the whole where_ch does not grow *)
Lemma mid_where s0 s c h ch0 ch : mid s0 s -> get_chan s0 c h = Some ch0 -> get_chan s c h = Some ch ->
  ch_inst ch = ch_inst ch0 /\ ch_ctag ch = ch_ctag ch0 /\ forall t, (cnt t (where_ch s c h ch) <= cnt t (where_ch s0 c h ch0))%nat.
Proof.
  intros [A B C D R] Hg0 Hg. specialize (C c h). unfold mid_chan in C. rewrite Hg0, Hg in C. destruct C as (a & b & cc & d).
  repeat split; auto. intros t. rewrite !where_ch_nc, !cnt_app, !cur_part_CP, cc, (CP_ci _ _ _ D). specialize (d t). lia.
Qed.

(* the view without the store's pending adds *)
Record vla (s0 s : state) : Prop := {
  a_chan : forall c h, chan_le (get_chan s0 c h) (get_chan s c h);
  a_conn : forall c, get_conn s c = None <-> get_conn s0 c = None;
  a_heap : hview s = hview s0;
  a_relay : relay s = relay s0;
  a_uid : next_uid s = next_uid s0 }.
Lemma vle_vla s0 s : vle s0 s -> vla s0 s.
Proof. intros [A B C D E F]. constructor; auto. Qed.

Lemma RP_mv oi c h hp hp0 rl : pmap mv hp = pmap mv hp0 -> RP oi c h hp rl = RP oi c h hp0 rl.
Proof.
  intros D. unfold RP. apply flat_map_ext. intros u. pose proof (proj_lookup mv _ _ D u) as Hl.
  destruct (alookup N.eqb u hp) as [m|], (alookup N.eqb u hp0) as [m0|]; cbn in Hl; try discriminate; auto.
  inversion Hl as [[E1 E2 E3 E4]]. unfold rp. rewrite E1, E2. reflexivity.
Qed.
Lemma HP_mv c h i hp hp0 : pmap mv hp = pmap mv hp0 -> HP c h i hp = HP c h i hp0.
Proof.
  intros D. unfold HP. apply (proj_flat_map mv); auto. intros k m m0 E. cbn [snd]. inversion E as [[E1 E2 E3 E4]].
  unfold hp1, waiting. rewrite E1, E2, E3, E4. reflexivity.
Qed.

Lemma vla_mid s0 s : vla s0 s -> mid s0 s.
Proof.
  intros [A B C D E]. constructor; auto.
  - intros c h. specialize (A c h). unfold mid_chan, chan_le in *.
    destruct (get_chan s0 c h) as [ch0|] eqn:Hg0, (get_chan s c h) as [ch|] eqn:Hg; try tauto.
    destruct A as [Ew _]. unfold chw in Ew. inversion Ew as [[E1 E2 E3 E4 E5 E6]]. repeat split; auto.
    intros t. rewrite !where_nc_alt. unfold chan_inst. rewrite Hg, Hg0, E4, E5, D.
    rewrite (RP_mv _ _ _ (heap s) (heap s0)) by exact C. rewrite (HP_mv _ _ _ (heap s) (heap s0)) by exact C. lia.
  - apply pmap_mv_ci. exact C.
  - intros u Hu. left. rewrite <- D. exact Hu.
Qed.
Lemma vle_mid s0 s : vle s0 s -> mid s0 s.
Proof. intros H. apply vla_mid, vle_vla, H. Qed.

(* ------------------------------------------------------------------ *)
(* what one step (or part of a step) may do to the numbers of a channel *)
Definition good_new (ch' : channel) (l : list N) : Prop := NoDup l /\ Forall (fun t => 1 <= t <= ch_ctag ch') l.
Definition bump (a b t : N) : nat := if (a <? t) && (t <=? b) then 1%nat else 0%nat.
Definition trans_ch (s s' : state) (evs : list event) (c h : N) : Prop :=
  match get_chan s' c h with
  | None => acks_of c h evs = []
  | Some ch' =>
    match get_chan s c h with
    | Some ch =>
        (ch_inst ch' = ch_inst ch /\ ch_ctag ch <= ch_ctag ch' /\
         forall t, (cnt t (acks_of c h evs ++ where_ch s' c h ch') <= cnt t (where_ch s c h ch) + bump (ch_ctag ch) (ch_ctag ch') t)%nat)
        \/ (ch_inst ch < ch_inst ch' /\ good_new ch' (acks_of c h evs ++ where_ch s' c h ch'))
    | None => good_new ch' (acks_of c h evs ++ where_ch s' c h ch')
    end
  end.
Definition trans (s s' : state) (evs : list event) : Prop := forall c h, trans_ch s s' evs c h.

Lemma acks_of_app c h a b : acks_of c h (a ++ b) = acks_of c h a ++ acks_of c h b.
Proof. unfold acks_of. apply flat_map_app. Qed.

Lemma bump_refl a t : bump a a t = 0%nat.
Proof. unfold bump. destruct (a <? t) eqn:E1, (t <=? a) eqn:E2; cbn; auto. lia. Qed.
Lemma bump_add a b d t : a <= b -> b <= d -> (bump a b t + bump b d t = bump a d t)%nat.
Proof. unfold bump. intros. destruct (a <? t) eqn:E1, (t <=? b) eqn:E2, (b <? t) eqn:E3, (t <=? d) eqn:E4; cbn; lia. Qed.

Lemma trans_of_mid s s' evs : mid s s' -> nb evs = true -> trans s s' evs.
Proof.
  intros Hm Hn c h. unfold trans_ch. rewrite (nb_acks c h evs Hn).
  pose proof (mid_ch _ _ Hm c h) as C. unfold mid_chan in C.
  destruct (get_chan s c h) as [ch0|] eqn:Hg0, (get_chan s' c h) as [ch|] eqn:Hg; try tauto.
  destruct (mid_where _ _ _ _ _ _ Hm Hg0 Hg) as (a & b & d). left. repeat split; auto; [lia|].
  intros t. cbn [app]. rewrite b, bump_refl. specialize (d t). lia.
Qed.

Lemma good_new_of_cnt ch1 ch2 l1 l2 :
  ch_ctag ch1 <= ch_ctag ch2 -> good_new ch1 l1 ->
  (forall t, (cnt t l2 <= cnt t l1 + bump (ch_ctag ch1) (ch_ctag ch2) t)%nat) -> good_new ch2 l2.
Proof.
  intros Hle [Hnd Hr] Hc. rewrite Forall_forall in Hr. split.
  - apply NoDup_cnt. intros t. specialize (Hc t). pose proof (proj1 (NoDup_cnt l1) Hnd t) as H1.
    unfold bump in Hc. destruct ((ch_ctag ch1 <? t) && (t <=? ch_ctag ch2)) eqn:Eb; [|lia].
    assert (cnt t l1 = 0%nat); [|lia].
    destruct (cnt t l1) eqn:E; auto. assert (Hin : In t l1) by (apply cnt_in; lia). specialize (Hr t Hin). lia.
  - apply Forall_forall. intros t Hin. apply cnt_in in Hin. specialize (Hc t). unfold bump in Hc.
    destruct ((ch_ctag ch1 <? t) && (t <=? ch_ctag ch2)) eqn:Eb.
    + lia.
    + assert (Hin1 : In t l1) by (apply cnt_in; lia). specialize (Hr t Hin1). lia.
Qed.

Lemma trans_compose s0 s1 s2 e1 e2 :
  (forall c h, get_chan s1 c h = None -> get_chan s0 c h = None \/ get_chan s2 c h = None) ->
  nb e1 = true -> trans s0 s1 e1 -> trans s1 s2 e2 -> trans s0 s2 (e1 ++ e2).
Proof.
  intros Hres Hn T1 T2 c h. specialize (T1 c h). specialize (T2 c h). specialize (Hres c h).
  unfold trans_ch in *. rewrite acks_of_app, (nb_acks c h e1 Hn) in *. cbn [app] in *.
  destruct (get_chan s2 c h) as [ch2|] eqn:Hg2; [|exact T2].
  destruct (get_chan s1 c h) as [ch1|] eqn:Hg1.
  - destruct (get_chan s0 c h) as [ch0|] eqn:Hg0.
    + destruct T1 as [(a1 & b1 & d1)|(a1 & g1)], T2 as [(a2 & b2 & d2)|(a2 & g2)].
      * left. repeat split; [congruence|lia|]. intros t. specialize (d1 t). specialize (d2 t).
        pose proof (bump_add _ _ _ t b1 b2). lia.
      * right. split; [lia|exact g2].
      * right. split; [lia|]. eapply good_new_of_cnt; [exact b2|exact g1|exact d2].
      * right. split; [lia|exact g2].
    + destruct T2 as [(a2 & b2 & d2)|(a2 & g2)]; [|exact g2].
      eapply good_new_of_cnt; [exact b2|exact T1|exact d2].
  - destruct (Hres eq_refl) as [E|E]; [|discriminate]. rewrite E. exact T2.
Qed.

(* the invariant of a channel: acknowledged and in flight, pairwise distinct, within 1 .. ch_ctag *)
Definition amo_ok (s : state) (A : list N) (c h : N) (ch : channel) : Prop := good_new ch (A ++ where_ch s c h ch).

Lemma amo_step s s' evs c h A ch' :
  (forall ch, get_chan s c h = Some ch -> amo_ok s A c h ch) ->
  trans_ch s s' evs c h -> get_chan s' c h = Some ch' -> amo_ok s' (acked_step s s' evs c h A) c h ch'.
Proof.
  intros Ha T Hg'. unfold trans_ch in T. rewrite Hg' in T. unfold acked_step, chan_inst, amo_ok. rewrite Hg'.
  destruct (get_chan s c h) as [ch|] eqn:Hg.
  - specialize (Ha ch eq_refl). cbn [oN_eqb]. destruct T as [(a & b & d)|(a & g)].
    + rewrite a, N.eqb_refl. rewrite <- app_assoc.
      eapply (good_new_of_cnt ch ch'); [exact b|exact Ha|]. intros t. specialize (d t). rewrite !cnt_app in *. lia.
    + destruct (ch_inst ch =? ch_inst ch') eqn:E; [apply N.eqb_eq in E; lia|]. cbn [app]. exact g.
  - cbn [oN_eqb app]. exact T.
Qed.

(* ------------------------------------------------------------------ *)
(* effects of updating one heap entry / the relay *)
Lemma pmap_aset_same {P} (pr : msg -> P) l u m m' :
  alookup N.eqb u l = Some m -> pr m' = pr m -> pmap pr (aset N.eqb u m' l) = pmap pr l.
Proof.
  unfold pmap. induction l as [|[k v] t IH]; cbn; [discriminate|]. intros Hl Hm.
  destruct (u =? k) eqn:E; cbn.
  - apply N.eqb_eq in E. subst. inversion Hl; subst. rewrite Hm. reflexivity.
  - rewrite IH; auto.
Qed.
Lemma aset_same l u (m : msg) : alookup N.eqb u l = Some m -> aset N.eqb u m l = l.
Proof.
  induction l as [|[k v] t IH]; cbn; [discriminate|]. destruct (u =? k) eqn:E.
  - intros H. inversion H; subst. apply N.eqb_eq in E. subst. reflexivity.
  - intros H. rewrite IH; auto.
Qed.
Lemma cnt_HP_aset c h i hp u m m' t : alookup N.eqb u hp = Some m ->
  (cnt t (HP c h i (aset N.eqb u m' hp)) + cnt t (hp1 c h i m) = cnt t (HP c h i hp) + cnt t (hp1 c h i m'))%nat.
Proof.
  unfold HP. induction hp as [|[k v] r IH]; cbn [alookup aset flat_map]; [discriminate|].
  destruct (u =? k) eqn:E.
  - intros H. inversion H; subst. cbn [flat_map snd]. rewrite !cnt_app. lia.
  - intros H. cbn [flat_map snd]. rewrite !cnt_app. specialize (IH H). lia.
Qed.
Lemma HP_aset_new c h i hp u m' : alookup N.eqb u hp = None -> HP c h i (aset N.eqb u m' hp) = HP c h i hp ++ hp1 c h i m'.
Proof.
  unfold HP. induction hp as [|[k v] r IH]; cbn [alookup aset flat_map]; [intros _; cbn; rewrite app_nil_r; reflexivity|].
  destruct (u =? k) eqn:E; [discriminate|]. intros H. cbn [flat_map snd]. rewrite (IH H), app_assoc. reflexivity.
Qed.
Lemma RP_aset_ci oi c h hp u m m' rl : alookup N.eqb u hp = Some m -> ci m' = ci m ->
  RP oi c h (aset N.eqb u m' hp) rl = RP oi c h hp rl.
Proof.
  intros H E. unfold RP. apply flat_map_ext. intros x. rewrite (alookup_aset N.eqb Neqb_spec).
  destruct (x =? u) eqn:Ex; auto. apply N.eqb_eq in Ex. subst. rewrite H. inversion E as [[E1 E2]]. unfold rp. rewrite E1, E2. reflexivity.
Qed.
Lemma CP_aset_ci hp u m m' cur : alookup N.eqb u hp = Some m -> ci m' = ci m -> CP (aset N.eqb u m' hp) cur = CP hp cur.
Proof. intros H E. apply CP_ci. apply pmap_aset_same with (m := m); auto. Qed.
Lemma RP_app oi c h hp r1 r2 : RP oi c h hp (r1 ++ r2) = RP oi c h hp r1 ++ RP oi c h hp r2.
Proof. unfold RP. apply flat_map_app. Qed.

Definition chan_corr (s s2 : state) (c h : N) (u : N) (m m' : msg) : Prop :=
  match get_chan s c h, get_chan s2 c h with
  | Some ch, Some ch2 =>
      ch_inst ch2 = ch_inst ch /\ ch_ctag ch2 = ch_ctag ch /\ ch_cur ch2 = ch_cur ch /\
      forall t, (cnt t (ch_confirmq ch2) + cnt t (RP (Some (ch_inst ch)) c h (heap s) (relay s2)) + cnt t (hp1 c h (ch_inst ch) m')
                 <= cnt t (ch_confirmq ch) + cnt t (RP (Some (ch_inst ch)) c h (heap s) (relay s)) + cnt t (hp1 c h (ch_inst ch) m))%nat
  | None, None => True
  | _, _ => False
  end.
Lemma mid_build s s2 u m m' :
  get_msg s u = Some m -> ci m' = ci m ->
  heap s2 = aset N.eqb u m' (heap s) -> next_uid s2 = next_uid s ->
  (forall c, get_conn s2 c = None <-> get_conn s c = None) ->
  (forall x, In x (relay s2) -> In x (relay s) \/ x = u) ->
  (forall c h, chan_corr s s2 c h u m m') ->
  mid s s2.
Proof.
  intros Hg Eci Hh Hu Hc Hr Hch. unfold get_msg in Hg. constructor; auto.
  - intros c h. specialize (Hch c h). unfold chan_corr, mid_chan in *.
    destruct (get_chan s c h) as [ch|] eqn:Hg0, (get_chan s2 c h) as [ch2|] eqn:Hg2; try tauto.
    destruct Hch as (a & b & d & e). repeat split; auto. intros t. specialize (e t).
    rewrite !where_nc_alt, !cnt_app. unfold chan_inst. rewrite Hg0, Hg2, a, Hh.
    rewrite (RP_aset_ci _ _ _ _ _ _ _ _ Hg Eci).
    pose proof (cnt_HP_aset c h (ch_inst ch) (heap s) u m m' t Hg). lia.
  - rewrite Hh. apply pmap_aset_same with (m := m); auto.
  - intros x Hx. destruct (Hr x Hx) as [H|H]; [auto|]. subst. right. exists m. apply (alookup_in N.eqb Neqb_spec). exact Hg.
Qed.

(* the two shapes of the lists involved *)
Lemma cnt_rp t i c h m : cnt t (rp (Some i) c h m) =
  match m_conf m with Some (c0, h0, t0) => if (c0 =? c) && (h0 =? h) && (i =? m_inst m) && (t0 =? t) then 1%nat else 0%nat | None => 0%nat end.
Proof.
  unfold rp. destruct (m_conf m) as [[[c0 h0] t0]|]; auto. cbn [oN_eqb].
  destruct ((c0 =? c) && (h0 =? h)); cbn; auto. destruct (i =? m_inst m); cbn; auto. apply cnt_one.
Qed.
Lemma cnt_hp1 t i c h m : cnt t (hp1 c h i m) =
  match m_conf m with Some (c0, h0, t0) => if (c0 =? c) && (h0 =? h) && (m_inst m =? i) && (m_actual m <? m_expected m)%Z && (t0 =? t) then 1%nat else 0%nat | None => 0%nat end.
Proof.
  unfold hp1, waiting, for_chan. destruct (m_conf m) as [[[c0 h0] t0]|].
  - destruct (m_inst m =? i); cbn; [|rewrite !andb_false_r; auto].
    destruct (m_actual m <? m_expected m)%Z; cbn; [|rewrite !andb_false_r; auto].
    destruct ((c0 =? c) && (h0 =? h)); cbn; auto. apply cnt_one.
  - destruct (_ && _); auto.
Qed.

(* ------------------------------------------------------------------ *)
(* channel.addConfirm *)
Lemma add_confirm_cases s c h x :
  add_confirm s c h x = s \/
  exists ch c0 h0 t, x = Some (c0, h0, t) /\ get_chan s c h = Some ch /\
     add_confirm s c h x = set_chan s c h (ch <| ch_confirmq ::= fun l => l ++ [t] |>).
Proof.
  unfold add_confirm. destruct (get_chan s c h) as [ch|] eqn:E; auto. destruct (negb _); auto.
  destruct x as [[[c0 h0] t]|]; [|destruct (ch_status ch); auto].
  destruct (ch_status ch); auto; right; exists ch, c0, h0, t; auto.
Qed.

Lemma get_conn_same_conns s s' c : conns s' = conns s -> get_conn s' c = get_conn s c.
Proof. unfold get_conn. intros ->. reflexivity. Qed.

(* Queue.Push *)
Definition counted_flag (s : state) (qn : string) (pers : bool) : bool :=
  match get_queue s qn with Some qu => q_active qu && negb (q_durable qu && pers) | None => false end.
Lemma queue_push_cases s qn u m : get_msg s u = Some m ->
  (conns (queue_push s qn u) = conns s /\ heap (queue_push s qn u) = heap s /\ relay (queue_push s qn u) = relay s /\
   next_uid (queue_push s qn u) = next_uid s /\ (counted_flag s qn (m_pers m) = false \/ m_conf m = None)) \/
  (counted_flag s qn (m_pers m) = true /\ m_conf m <> None /\
   conns (queue_push s qn u) = conns s /\ heap (queue_push s qn u) = aset N.eqb u (m <| m_actual ::= Z.succ |>) (heap s) /\
   relay (queue_push s qn u) = relay s /\ next_uid (queue_push s qn u) = next_uid s).
Proof.
  intros Hm. unfold queue_push, counted_flag. destruct (get_queue s qn) as [qu|]; [|left; auto 10]. rewrite Hm.
  destruct (q_active qu); cbn [negb andb]; [|left; auto 10].
  destruct (q_durable qu && m_pers m); cbn [negb].
  - left. repeat split; auto.
  - destruct (m_conf m) eqn:Ec.
    + right. repeat split; try congruence; unfold upd_msg, get_msg in *; cbn; rewrite Hm; reflexivity.
    + left. repeat split; auto.
Qed.

Lemma chan_corr_plain s s2 u m m' :
  conns s2 = conns s -> relay s2 = relay s ->
  (forall c h i t, (cnt t (hp1 c h i m') <= cnt t (hp1 c h i m))%nat) ->
  forall c h, chan_corr s s2 c h u m m'.
Proof.
  intros Ec Er Hle c h. unfold chan_corr. rewrite (get_chan_same_conns _ _ _ _ Ec). destruct (get_chan s c h) as [ch|]; auto.
  repeat split; auto. intros t. rewrite Er. specialize (Hle c h (ch_inst ch) t). lia.
Qed.

Lemma push_one_mid s c h u pers has_meta qn m :
  get_msg s u = Some m -> m_pers m = pers -> (has_meta = true -> m_conf m <> None) ->
  (forall c0 h0 t, m_conf m = Some (c0, h0, t) -> c0 = c /\ h0 = h) ->
  mid s (push_one s c h u pers has_meta qn) /\
  exists m1, get_msg (push_one s c h u pers has_meta qn) u = Some m1 /\ ci m1 = ci m /\ m_pers m1 = m_pers m /\ m_expected m1 = m_expected m.
Proof.
  intros Hm Hp Hmeta Hown. unfold push_one. fold (counted_flag s qn pers). rewrite <- Hp.
  destruct (queue_push_cases s qn u m Hm) as [(A & B & C & D & E)|(E & Hcf & A & B & C & D)].
  - assert (Hg1 : get_msg (queue_push s qn u) u = Some m) by (unfold get_msg in *; rewrite B; exact Hm).
    rewrite Hg1.
    assert (Hmid : mid s (queue_push s qn u)).
    { apply vla_mid. constructor; auto.
      - intros c' h'. rewrite (get_chan_same_conns _ _ _ _ A). apply chan_le_refl.
      - intros c'. rewrite (get_conn_same_conns _ _ _ A). tauto.
      - unfold hview. rewrite B. reflexivity. }
    assert (Hno : has_meta && counted_flag s qn (m_pers m) = false).
    { destruct E as [E|E]; [rewrite E; apply andb_false_r|]. destruct has_meta; auto. exfalso. apply Hmeta; auto. }
    rewrite Hno. cbn [andb]. split; [exact Hmid|]. exists m. auto.
  - set (m1 := m <| m_actual ::= Z.succ |>) in *.
    assert (Hg1 : get_msg (queue_push s qn u) u = Some m1).
    { unfold get_msg in *. rewrite B. rewrite (alookup_aset N.eqb Neqb_spec), N.eqb_refl. reflexivity. }
    rewrite Hg1, E. rewrite andb_true_r.
    assert (Hplain : mid s (queue_push s qn u)).
    { apply (mid_build s _ u m m1); auto.
      - intros c'. rewrite (get_conn_same_conns _ _ _ A). tauto.
      - intros x Hx. left. rewrite <- C. exact Hx.
      - apply chan_corr_plain; auto. intros c' h' i t. rewrite !cnt_hp1. subst m1. cbn.
        destruct (m_conf m) as [[[c0 h0] t0]|]; auto.
        destruct ((c0 =? c') && (h0 =? h') && (m_inst m =? i)); cbn [andb]; auto.
        destruct (Z.succ (m_actual m) <? m_expected m)%Z eqn:E1, (m_actual m <? m_expected m)%Z eqn:E2; cbn [andb]; try lia;
          destruct (t0 =? t); lia. }
    assert (Hex : exists m2, Some m1 = Some m2 /\ ci m2 = ci m /\ m_pers m2 = m_pers m /\ m_expected m2 = m_expected m)
      by (exists m1; auto).
    destruct (has_meta && (m_actual m1 =? m_expected m1)%Z) eqn:Eadd; [|split; [exact Hplain|rewrite Hg1; exists m1; auto]].
    apply andb_prop in Eadd. destruct Eadd as [_ Eadd]. apply Z.eqb_eq in Eadd. subst m1. cbn [m_actual m_expected set] in Eadd.
    set (m1 := m <| m_actual ::= Z.succ |>) in *. set (s1 := queue_push s qn u) in *.
    destruct (add_confirm_cases s1 c h (live_conf s1 m1)) as [Es|(ch & c0 & h0 & t & Elive & Hgc & Es)]; rewrite Es.
    + split; [exact Hplain|rewrite Hg1; exists m1; auto].
    + assert (Hg2 : get_msg (set_chan s1 c h (ch <| ch_confirmq ::= fun l => l ++ [t] |>)) u = Some m1)
        by (rewrite get_msg_set_chan; exact Hg1).
      split; [|rewrite Hg2; exists m1; auto].
      (* the number moves from the heap to the confirm queue *)
      unfold live_conf in Elive. change (m_conf m1) with (m_conf m) in Elive. change (m_inst m1) with (m_inst m) in Elive.
      destruct (m_conf m) as [[[c1 h1] t1]|] eqn:Ecf; [|discriminate].
      destruct (Hown c1 h1 t1 eq_refl) as [-> ->]. rewrite Hgc in Elive.
      destruct (ch_inst ch =? m_inst m) eqn:Ei; [|discriminate]. inversion Elive; subst c0 h0 t1. apply N.eqb_eq in Ei.
      assert (Hgc0 : get_chan s c h = Some ch) by (rewrite <- (get_chan_same_conns _ _ _ _ A); exact Hgc).
      destruct (set_chan_frame s1 c h (ch <| ch_confirmq ::= fun l => l ++ [t] |>)) as (F1 & F2 & F3 & _).
      apply (mid_build s _ u m m1); auto; try congruence.
      * intros c'. rewrite get_conn_set_chan, (get_conn_same_conns _ _ _ A). tauto.
      * intros x Hx. left. rewrite <- C, <- F2. exact Hx.
      * intros c' h'. unfold chan_corr. rewrite get_chan_set_chan, (get_chan_same_conns _ _ _ _ A).
        pose proof (get_chan_conn _ _ _ _ Hgc) as Hcn. destruct (get_conn s1 c); [|congruence].
        destruct ((c' =? c) && (h' =? h)) eqn:Eb.
        -- apply andb_prop in Eb. destruct Eb as [E1 E2]. apply N.eqb_eq in E1, E2. subst c' h'. rewrite Hgc0.
           repeat split; auto. intros t'. rewrite F2, C. cbn [ch_confirmq set]. rewrite cnt_app, cnt_one, !cnt_hp1.
           change (m_conf m1) with (m_conf m). rewrite Ecf. change (m_inst m1) with (m_inst m). rewrite !N.eqb_refl, <- Ei, N.eqb_refl. cbn [andb].
           change (m_actual m1) with (Z.succ (m_actual m)). change (m_expected m1) with (m_expected m).
           destruct (Z.succ (m_actual m) <? m_expected m)%Z eqn:E1, (m_actual m <? m_expected m)%Z eqn:E2; cbn [andb]; try lia;
             destruct (t =? t'); lia.
        -- destruct (get_chan s c' h') as [ch'|]; auto. repeat split; auto. intros t'. rewrite F2, C, !cnt_hp1.
           change (m_conf m1) with (m_conf m). rewrite Ecf.
           assert (Eb' : (c =? c') && (h =? h') = false) by (rewrite (N.eqb_sym c c'), (N.eqb_sym h h'); exact Eb).
           rewrite Eb'. cbn [andb]. lia.
Qed.

(* mid with a credit: the numbers K c h may be added to channel (c,h) *)
Definition midc_chan (K : N -> N -> list N) (s0 s : state) (c h : N) : Prop :=
  match get_chan s0 c h, get_chan s c h with
  | Some ch0, Some ch => ch_inst ch = ch_inst ch0 /\ ch_ctag ch = ch_ctag ch0 /\ ch_cur ch = ch_cur ch0 /\
                         forall t, (cnt t (where_nc s c h ch) <= cnt t (where_nc s0 c h ch0) + cnt t (K c h))%nat
  | None, None => True
  | _, _ => False
  end.
Record midc (K : N -> N -> list N) (s0 s : state) : Prop := {
  midc_conn : forall c, get_conn s c = None <-> get_conn s0 c = None;
  midc_uid : next_uid s = next_uid s0;
  midc_ch : forall c h, midc_chan K s0 s c h;
  midc_heap : pmap ci (heap s) = pmap ci (heap s0);
  midc_relay : forall u, In u (relay s) -> In u (relay s0) \/ exists m, In (u, m) (heap s0) }.
Lemma mid_midc K s0 s : mid s0 s -> midc K s0 s.
Proof.
  intros [A B C D R]. constructor; auto. intros c h. specialize (C c h). unfold mid_chan, midc_chan in *.
  destruct (get_chan s0 c h), (get_chan s c h); auto. destruct C as (a & b & d & e). repeat split; auto. intros t. specialize (e t). lia.
Qed.
Lemma midc_mid_trans K s0 s1 s2 : midc K s0 s1 -> mid s1 s2 -> midc K s0 s2.
Proof.
  intros [A1 B1 C1 D1 R1] [A2 B2 C2 D2 R2]. constructor.
  - intros c. rewrite A2. apply A1.
  - congruence.
  - intros c h. specialize (C1 c h). specialize (C2 c h). unfold mid_chan, midc_chan in *.
    destruct (get_chan s0 c h), (get_chan s1 c h), (get_chan s2 c h); try tauto.
    destruct C1 as (a1 & b1 & k1 & d1), C2 as (a2 & b2 & k2 & d2). repeat split; try congruence.
    intros t. specialize (d1 t). specialize (d2 t). lia.
  - congruence.
  - intros u Hu. destruct (R2 u Hu) as [H|(m & H)]; [auto|]. right.
    destruct (proj_in ci _ _ u m D1 H) as (m0 & Hin0 & _). eauto.
Qed.
Lemma Aux_midc K s0 s : midc K s0 s -> Aux s0 -> Aux s.
Proof.
  intros [A B C D R] [Hm Hc Hrl]. constructor.
  - intros u m Hin. destruct (proj_in ci _ _ u m D Hin) as (m0 & Hin0 & Epr). unfold ci in Epr. inversion Epr as [[E1 E2]].
    destruct (Hm u m0 Hin0) as [Hu Hk]. split; [rewrite B; exact Hu|].
    intros c h t Ecf. rewrite <- E1 in Ecf. destruct (Hk c h t Ecf) as [Hn|(ch0 & Hg & Hi & Hrg)].
    + left. apply A. exact Hn.
    + right. specialize (C c h). unfold midc_chan in C. rewrite Hg in C. destruct (get_chan s c h) as [ch|]; [|tauto].
      destruct C as (a & b & _). exists ch. split; auto. rewrite a, b, <- E2. auto.
  - intros c h ch Hg u Hu. specialize (C c h). unfold midc_chan in C. rewrite Hg in C.
    destruct (get_chan s0 c h) as [ch0|] eqn:Hg0; [|tauto]. destruct C as (a & b & cc & _).
    rewrite cc in Hu. destruct (Hc c h ch0 Hg0 u Hu) as [Hlt Hk]. split; [rewrite B; exact Hlt|].
    intros m Hgm c' h' t Ecf. pose proof (proj_lookup ci _ _ D u) as Hl. unfold get_msg in Hgm. rewrite Hgm in Hl. cbn in Hl.
    destruct (alookup N.eqb u (heap s0)) as [m0|] eqn:Hg0m; [|discriminate]. cbn in Hl. inversion Hl as [[E1 E2]].
    rewrite E1 in Ecf. destruct (Hk m0 Hg0m c' h' t Ecf) as (x & y & z). rewrite a, E2. auto.
  - intros u Hu. rewrite B. destruct (R u Hu) as [H|(m & H)]; [auto|]. apply (Hm u m H).
Qed.

Lemma get_chan_set_heap s hp c h : get_chan (s <| heap := hp |>) c h = get_chan s c h.
Proof. reflexivity. Qed.
Definition credit_cur (s : state) (c h : N) (u : N) : N -> N -> list N :=
  fun c' h' => if (c' =? c) && (h' =? h) then cur_part s (Some u) else [].

(* the fold over the matched queues *)
Lemma fold_push_mid c h u pers has_meta qs : forall s m,
  get_msg s u = Some m -> m_pers m = pers -> (has_meta = true -> m_conf m <> None) ->
  (forall c0 h0 t, m_conf m = Some (c0, h0, t) -> c0 = c /\ h0 = h) ->
  mid s (fold_left (fun s qn => push_one s c h u pers has_meta qn) qs s).
Proof.
  induction qs as [|qn r IH]; intros s m Hm Hp Hmeta Hown; cbn [fold_left]; [apply mid_refl|].
  destruct (push_one_mid s c h u pers has_meta qn m Hm Hp Hmeta Hown) as (Hmid & m1 & Hg1 & Eci & Ep & _).
  inversion Eci as [[E1 E2]].
  eapply mid_trans; [exact Hmid|]. apply (IH _ m1); auto; try congruence.
  - intros Hx. rewrite E1. auto.
  - intros c0 h0 t Hx. rewrite E1 in Hx. eauto.
Qed.

Lemma route_and_push_midc fx s c h u ch :
  Aux s -> get_chan s c h = Some ch -> ch_cur ch = Some u ->
  midc (credit_cur s c h u) s (fst (route_and_push fx s c h u)).
Proof.
  intros Ha Hgc Hcur. destruct (aux_cur _ Ha c h ch Hgc u Hcur) as [Hult Hown].
  unfold route_and_push. destruct (get_msg s u) as [m|] eqn:Hm; [|apply mid_midc, mid_refl].
  specialize (Hown m eq_refl).
  (* the unroutable case *)
  assert (Hunr : midc (credit_cur s c h u) s (add_confirm s c h (live_conf s m))).
  { destruct (add_confirm_cases s c h (live_conf s m)) as [Es|(ch1 & c0 & h0 & t & Elive & Hgc1 & Es)]; rewrite Es; [apply mid_midc, mid_refl|].
    rewrite Hgc in Hgc1. inversion Hgc1; subst ch1.
    unfold live_conf in Elive. destruct (m_conf m) as [[[c1 h1] t1]|] eqn:Ecf; [|discriminate].
    destruct (Hown c1 h1 t1 eq_refl) as (-> & -> & Ei). rewrite Hgc in Elive.
    destruct (ch_inst ch =? m_inst m); [|discriminate]. inversion Elive; subst c0 h0 t1.
    destruct (set_chan_frame s c h (ch <| ch_confirmq ::= fun l => l ++ [t] |>)) as (F1 & F2 & F3 & _).
    constructor; auto.
    - intros c'. apply get_conn_set_chan.
    - intros c' h'. unfold midc_chan, credit_cur. rewrite get_chan_set_chan.
      pose proof (get_chan_conn _ _ _ _ Hgc) as Hcn. destruct (get_conn s c) as [cn|] eqn:Ecn; [|congruence].
      destruct ((c' =? c) && (h' =? h)) eqn:Eb.
      + apply andb_prop in Eb. destruct Eb as [E1 E2]. apply N.eqb_eq in E1, E2. subst c' h'. rewrite Hgc.
        repeat split; auto. intros t'. rewrite !where_nc_alt. unfold chan_inst. rewrite get_chan_set_chan.
        rewrite Ecn. rewrite !N.eqb_refl. cbn [andb]. rewrite Hgc, F1, F2. cbn [ch_confirmq ch_inst set].
        unfold cur_part. rewrite Hm, Ecf. rewrite !cnt_app. lia.
      + destruct (get_chan s c' h') as [ch'|] eqn:Hg'; auto. repeat split; auto. intros t'.
        rewrite !where_nc_alt. unfold chan_inst. rewrite get_chan_set_chan. rewrite Ecn. rewrite Eb, Hg', F1, F2. cbn. lia.
    - rewrite F1. reflexivity.
    - intros x Hx. left. rewrite <- F2. exact Hx. }
  destruct (alookup seqb (m_ex m) (exchanges s)) as [ex|]; cbn [fst]; [|exact Hunr].
  destruct (matched_queues _ ex (m_key m)) as [|q1 qs] eqn:Eqs; cbn [fst]; [exact Hunr|].
  rewrite Hgc.
  set (has_meta := match m_conf m with Some _ => true | None => false end).
  set (sa := if ch_confirm ch && has_meta then upd_msg s u (fun m => m <| m_expected := Z.of_nat (List.length (q1 :: qs)) |>) else s).
  assert (Hsa : midc (credit_cur s c h u) s sa /\ exists ma, get_msg sa u = Some ma /\ ci ma = ci m /\ m_pers ma = m_pers m).
  { subst sa. destruct (ch_confirm ch && has_meta); [|split; [apply mid_midc, mid_refl|exists m; auto]].
    set (m' := m <| m_expected := Z.of_nat (List.length (q1 :: qs)) |>).
    split.
    - unfold upd_msg. rewrite Hm. constructor; try reflexivity; try tauto.
      + intros c' h'. unfold midc_chan. fold m'. rewrite (get_chan_set_heap s (aset N.eqb u m' (heap s)) c' h').
        destruct (get_chan s c' h') as [ch'|] eqn:Hg'; auto. repeat split; auto. intros t.
        rewrite !where_nc_alt. unfold chan_inst. rewrite (get_chan_set_heap s (aset N.eqb u m' (heap s)) c' h').
        rewrite Hg'. cbn [heap relay set]. unfold get_msg in Hm.
        rewrite (RP_aset_ci _ _ _ _ _ m m' _ Hm eq_refl). rewrite !cnt_app.
        pose proof (cnt_HP_aset c' h' (ch_inst ch') (heap s) u m m' t Hm) as He. rewrite !cnt_hp1 in He.
        unfold credit_cur, cur_part, get_msg. rewrite Hm. change (m_conf m') with (m_conf m) in He.
        destruct (m_conf m) as [[[c1 h1] t1]|] eqn:Ecf; [|destruct ((c' =? c) && (h' =? h)); cbn; lia].
        destruct (Hown c1 h1 t1 eq_refl) as (-> & -> & Ei).
        rewrite (N.eqb_sym c c'), (N.eqb_sym h h') in He.
        destruct ((c' =? c) && (h' =? h)); cbn [andb] in *; [|cbn; lia]. rewrite cnt_one.
        repeat match goal with H : context [if ?b then _ else _] |- _ => destruct b eqn:? end;
          repeat match goal with |- context [if ?b then _ else _] => destruct b eqn:? end; lia.
      + cbn [heap set]. apply pmap_aset_same with (m := m); auto.
    - exists m'. split; [|auto]. unfold upd_msg. rewrite Hm. unfold get_msg. cbn. rewrite (alookup_aset N.eqb Neqb_spec), N.eqb_refl. reflexivity. }
  destruct Hsa as (Hmc & ma & Hga & Eci & Epa). inversion Eci as [[E1 E2]].
  eapply midc_mid_trans; [exact Hmc|].
  apply (fold_push_mid c h u (m_pers m) has_meta (q1 :: qs) sa ma); auto.
  - subst has_meta. rewrite E1. destruct (m_conf m); [discriminate|intros; discriminate].
  - intros c0 h0 t Hx. rewrite E1 in Hx. destruct (Hown c0 h0 t Hx) as (a & b & _). auto.
Qed.

Lemma where_nc_frame s s' c h ch : heap s' = heap s -> relay s' = relay s -> chan_inst s' c h = chan_inst s c h ->
  where_nc s' c h ch = where_nc s c h ch.
Proof. intros A B C. rewrite !where_nc_alt, A, B, C. reflexivity. Qed.
Lemma cur_part_frame s s' cur : heap s' = heap s -> cur_part s' cur = cur_part s cur.
Proof. intros A. rewrite !cur_part_CP, A. reflexivity. Qed.

(* replacing the record of one channel: same instance, the counter does not go back, the message being assembled stays
   or is dropped *)
Lemma Aux_set_chan s c h ch ch' :
  get_chan s c h = Some ch -> ch_inst ch' = ch_inst ch -> ch_ctag ch <= ch_ctag ch' ->
  (ch_cur ch' = ch_cur ch \/ ch_cur ch' = None) -> Aux s -> Aux (set_chan s c h ch').
Proof.
  intros Hg Ei Ec Hcur [Hm Hc Hr]. destruct (set_chan_frame s c h ch') as (F1 & F2 & F3 & _).
  pose proof (get_chan_conn _ _ _ _ Hg) as Hcn. destruct (get_conn s c) as [cn|] eqn:Ecn; [|congruence]. clear Hcn.
  constructor.
  - intros u m Hin. rewrite F1 in Hin. destruct (Hm u m Hin) as [Hu Hk]. split; [rewrite F3; exact Hu|].
    intros c1 h1 t Ecf. destruct (Hk c1 h1 t Ecf) as [Hn|(ch1 & Hg1 & Hi & Hrg)].
    + left. apply get_conn_set_chan. exact Hn.
    + right. rewrite get_chan_set_chan, Ecn. destruct ((c1 =? c) && (h1 =? h)) eqn:Eb.
      * apply andb_prop in Eb. destruct Eb as [E1 E2]. apply N.eqb_eq in E1, E2. subst c1 h1. rewrite Hg in Hg1. inversion Hg1; subst ch1.
        exists ch'. split; auto. rewrite Ei. split; auto. intros Hx. specialize (Hrg Hx). lia.
      * exists ch1. auto.
  - intros c1 h1 ch1 Hg1 u Hu. rewrite get_chan_set_chan, Ecn in Hg1. destruct ((c1 =? c) && (h1 =? h)) eqn:Eb.
    + apply andb_prop in Eb. destruct Eb as [E1 E2]. apply N.eqb_eq in E1, E2. subst c1 h1. inversion Hg1; subst ch1.
      destruct Hcur as [Hcur|Hcur]; [|congruence]. rewrite Hcur in Hu. destruct (Hc c h ch Hg u Hu) as [Hlt Hk].
      split; [rewrite F3; exact Hlt|]. intros m Hgm. rewrite get_msg_set_chan in Hgm. rewrite Ei. apply Hk. exact Hgm.
    + destruct (Hc c1 h1 ch1 Hg1 u Hu) as [Hlt Hk]. split; [rewrite F3; exact Hlt|].
      intros m Hgm. rewrite get_msg_set_chan in Hgm. apply Hk. exact Hgm.
  - intros u Hu. rewrite F2 in Hu. rewrite F3. auto.
Qed.

Lemma chan_inst_set_chan s c h ch ch' c1 h1 :
  get_chan s c h = Some ch -> ch_inst ch' = ch_inst ch -> chan_inst (set_chan s c h ch') c1 h1 = chan_inst s c1 h1.
Proof.
  intros Hg Ei. unfold chan_inst. rewrite get_chan_set_chan. pose proof (get_chan_conn _ _ _ _ Hg) as Hcn.
  destruct (get_conn s c); [|congruence]. destruct ((c1 =? c) && (h1 =? h)) eqn:Eb; auto.
  apply andb_prop in Eb. destruct Eb as [E1 E2]. apply N.eqb_eq in E1, E2. subst. rewrite Hg, Ei. reflexivity.
Qed.

Lemma finish_publish_tr fx s c h u ch evs :
  fx_clear_current fx = true -> Aux s -> get_chan s c h = Some ch -> ch_cur ch = Some u -> nb evs = true ->
  Aux (fst (finish_publish fx s c h u)) /\ trans s (fst (finish_publish fx s c h u)) evs.
Proof.
  intros Hfx Ha Hgc Hcur Hn. unfold finish_publish.
  pose proof (route_and_push_midc fx s c h u ch Ha Hgc Hcur) as Hmc.
  destruct (route_and_push fx s c h u) as [s1 e1]. cbn [fst] in *. rewrite Hfx.
  pose proof (Aux_midc _ _ _ Hmc Ha) as Ha1.
  pose proof (midc_ch _ _ _ Hmc c h) as Cch. unfold midc_chan in Cch. rewrite Hgc in Cch.
  destruct (get_chan s1 c h) as [ch1|] eqn:Hg1; [|tauto]. destruct Cch as (Ci & Cc & Ccur & Ccnt).
  unfold upd_chan. rewrite Hg1. set (ch2 := ch1 <| ch_cur := None |>).
  destruct (set_chan_frame s1 c h ch2) as (F1 & F2 & F3 & _).
  split.
  - apply (Aux_set_chan s1 c h ch1 ch2); auto. apply N.le_refl.
  - intros c' h'. unfold trans_ch. rewrite (nb_acks c' h' evs Hn). cbn [app].
    rewrite get_chan_set_chan. pose proof (get_chan_conn _ _ _ _ Hg1) as Hcn. destruct (get_conn s1 c) as [cn|] eqn:Ecn; [|congruence].
    destruct ((c' =? c) && (h' =? h)) eqn:Eb.
    + apply andb_prop in Eb. destruct Eb as [E1 E2]. apply N.eqb_eq in E1, E2. subst c' h'. rewrite Hgc.
      left. repeat split; [exact Ci|cbn; lia|]. intros t. cbn [ch_ctag set ch2]. rewrite Cc, bump_refl.
      rewrite !where_ch_nc. cbn [ch_cur set ch2]. cbn [cur_part]. rewrite app_nil_r.
      rewrite (where_nc_frame s1 _ c h ch2 F1 F2 (chan_inst_set_chan s1 c h ch1 ch2 c h Hg1 eq_refl)).
      change (where_nc s1 c h ch2) with (where_nc s1 c h ch1). specialize (Ccnt t).
      unfold credit_cur in Ccnt. rewrite !N.eqb_refl in Ccnt. cbn [andb] in Ccnt. rewrite cnt_app, Hcur. lia.
    + pose proof (midc_ch _ _ _ Hmc c' h') as C'. unfold midc_chan in C'.
      destruct (get_chan s c' h') as [ch0'|] eqn:Hg0', (get_chan s1 c' h') as [ch1'|] eqn:Hg1'; try tauto.
      destruct C' as (Ci' & Cc' & Ccur' & Ccnt'). left. repeat split; [exact Ci'|lia|]. intros t. rewrite Cc', bump_refl.
        rewrite !where_ch_nc, !cnt_app.
        rewrite (where_nc_frame s1 _ c' h' ch1' F1 F2 (chan_inst_set_chan s1 c h ch1 ch2 c' h' Hg1 eq_refl)).
        rewrite (cur_part_frame s1 _ _ F1), Ccur', !cur_part_CP, (CP_ci _ _ _ (midc_heap _ _ _ Hmc)).
        specialize (Ccnt' t). unfold credit_cur in Ccnt'. rewrite Eb in Ccnt'. cbn in Ccnt'. lia.
Qed.

(* ------------------------------------------------------------------ *)
(* generic: a channel whose record, and the heap and relay, did not change *)
Lemma trans_ch_same s s' evs c h :
  get_chan s' c h = get_chan s c h -> heap s' = heap s -> relay s' = relay s -> acks_of c h evs = [] -> trans_ch s s' evs c h.
Proof.
  intros Hg Hh Hr Ha. unfold trans_ch. rewrite Hg, Ha. destruct (get_chan s c h) as [ch|] eqn:E; auto.
  left. repeat split; [lia|]. intros t. cbn [app]. rewrite bump_refl.
  rewrite !where_ch_nc, (where_nc_frame s s' c h ch Hh Hr), (cur_part_frame s s' _ Hh); [lia|].
  unfold chan_inst. rewrite Hg, E. reflexivity.
Qed.

(* a record update of one channel that keeps queue, instance, counter and current message *)
Lemma mid_set_chan s c h ch ch' :
  get_chan s c h = Some ch -> ch_inst ch' = ch_inst ch -> ch_ctag ch' = ch_ctag ch -> ch_cur ch' = ch_cur ch ->
  ch_confirmq ch' = ch_confirmq ch -> mid s (set_chan s c h ch').
Proof.
  intros Hg Ei Ec Eu Eq. destruct (set_chan_frame s c h ch') as (F1 & F2 & F3 & _). constructor; auto.
  - intros c'. apply get_conn_set_chan.
  - intros c' h'. unfold mid_chan. rewrite get_chan_set_chan. pose proof (get_chan_conn _ _ _ _ Hg) as Hcn.
    destruct (get_conn s c) as [cn|] eqn:Ecn; [|congruence]. destruct ((c' =? c) && (h' =? h)) eqn:Eb.
    + apply andb_prop in Eb. destruct Eb as [E1 E2]. apply N.eqb_eq in E1, E2. subst c' h'. rewrite Hg. repeat split; auto.
      intros t. rewrite (where_nc_frame s _ c h ch' F1 F2 (chan_inst_set_chan s c h ch ch' c h Hg Ei)).
      unfold where_nc. rewrite Eq, Ei. lia.
    + destruct (get_chan s c' h') as [ch1|] eqn:Hg1; auto. repeat split; auto. intros t.
      rewrite (where_nc_frame s _ c' h' ch1 F1 F2 (chan_inst_set_chan s c h ch ch' c' h' Hg Ei)). lia.
  - rewrite F1. reflexivity.
  - intros u Hu. left. rewrite <- F2. exact Hu.
Qed.

(* builder without a heap change *)
Definition chan_corr0 (s s2 : state) (c h : N) : Prop :=
  match get_chan s c h, get_chan s2 c h with
  | Some ch, Some ch2 =>
      ch_inst ch2 = ch_inst ch /\ ch_ctag ch2 = ch_ctag ch /\ ch_cur ch2 = ch_cur ch /\
      forall t, (cnt t (ch_confirmq ch2) + cnt t (RP (Some (ch_inst ch)) c h (heap s) (relay s2))
                 <= cnt t (ch_confirmq ch) + cnt t (RP (Some (ch_inst ch)) c h (heap s) (relay s)))%nat
  | None, None => True
  | _, _ => False
  end.
Lemma mid_build0 s s2 :
  heap s2 = heap s -> next_uid s2 = next_uid s ->
  (forall c, get_conn s2 c = None <-> get_conn s c = None) ->
  (forall x, In x (relay s2) -> In x (relay s)) ->
  (forall c h, chan_corr0 s s2 c h) ->
  mid s s2.
Proof.
  intros Hh Hu Hc Hr Hch. constructor; auto.
  - intros c h. specialize (Hch c h). unfold chan_corr0, mid_chan in *.
    destruct (get_chan s c h) as [ch|] eqn:Hg0, (get_chan s2 c h) as [ch2|] eqn:Hg2; try tauto.
    destruct Hch as (a & b & d & e). repeat split; auto. intros t. specialize (e t).
    rewrite !where_nc_alt, !cnt_app. unfold chan_inst. rewrite Hg0, Hg2, a, Hh. lia.
  - rewrite Hh. reflexivity.
Qed.

(* msgstorage.confirm *)
Lemma store_confirm_mid s u : mid s (store_confirm s u).
Proof.
  unfold store_confirm. destruct (get_msg s u) as [m|] eqn:Hm; [|apply mid_refl].
  destruct (m_conf m) as [[[c0 h0] t0]|] eqn:Ecf; [|apply mid_refl].
  set (m1 := m <| m_actual ::= Z.succ |>).
  assert (Hup : upd_msg s u (fun m => m <| m_actual ::= Z.succ |>) = s <| heap := aset N.eqb u m1 (heap s) |>)
    by (unfold upd_msg; rewrite Hm; reflexivity).
  rewrite Hup.
  destruct (Z.succ (m_actual m) =? m_expected m)%Z eqn:Ez.
  - apply Z.eqb_eq in Ez. apply (mid_build s _ u m m1); auto; try tauto.
    + cbn. intros x Hx. apply in_app_or in Hx. destruct Hx as [Hx|[Hx|[]]]; auto.
    + intros c h. unfold chan_corr. change (get_chan (s <| heap := aset N.eqb u m1 (heap s) |> <| relay ::= fun l => l ++ [u] |>) c h) with (get_chan s c h).
      destruct (get_chan s c h) as [ch|]; auto. repeat split; auto. intros t. cbn [relay set].
      rewrite RP_app, cnt_app. unfold RP at 2. cbn [flat_map]. unfold get_msg in Hm. rewrite Hm, app_nil_r.
      rewrite cnt_rp, !cnt_hp1. change (m_conf m1) with (m_conf m). rewrite Ecf.
      change (m_inst m1) with (m_inst m). change (m_actual m1) with (Z.succ (m_actual m)). change (m_expected m1) with (m_expected m).
      rewrite (N.eqb_sym (ch_inst ch) (m_inst m)).
      destruct ((c0 =? c) && (h0 =? h) && (m_inst m =? ch_inst ch)); cbn [andb]; [|lia].
      destruct (Z.succ (m_actual m) <? m_expected m)%Z eqn:E1, (m_actual m <? m_expected m)%Z eqn:E2; cbn [andb]; try lia.
  - apply (mid_build s _ u m m1); auto; try tauto.
    apply chan_corr_plain; auto. intros c' h' i t. rewrite !cnt_hp1. change (m_conf m1) with (m_conf m). rewrite Ecf.
    change (m_inst m1) with (m_inst m). change (m_actual m1) with (Z.succ (m_actual m)). change (m_expected m1) with (m_expected m).
    destruct ((c0 =? c') && (h0 =? h') && (m_inst m =? i)); cbn [andb]; auto.
    destruct (Z.succ (m_actual m) <? m_expected m)%Z eqn:E1, (m_actual m <? m_expected m)%Z eqn:E2; cbn [andb]; try lia;
      destruct (t0 =? t); lia.
Qed.

Lemma fold_store_confirm_mid s (l : list (N * string)) : forall s0, mid s s0 -> mid s (fold_left (fun s k => store_confirm s (fst k)) l s0).
Proof.
  induction l as [|k r IH]; intros s0 H0; cbn [fold_left]; auto.
  apply IH. eapply mid_trans; [exact H0|apply store_confirm_mid].
Qed.
Lemma persist_tick_mid cfg fx s : mid s (fst (step cfg fx s LPersistTick)).
Proof.
  cbn [step fst]. apply fold_store_confirm_mid.
  apply vla_mid. constructor; try reflexivity; try tauto. intros c h. apply chan_le_refl.
Qed.

(* the relay hands a message to its channel *)
Lemma relay_step_mid cfg fx s : mid s (fst (step cfg fx s LRelay)).
Proof.
  cbn [step]. destruct (relay s) as [|u rest] eqn:Er; [apply mid_refl|].
  assert (Hdrop : mid s (s <| relay := rest |>)).
  { apply mid_build0; auto; try tauto.
    - cbn. intros x Hx. rewrite Er. right. exact Hx.
    - intros c h. unfold chan_corr0. change (get_chan (s <| relay := rest |>) c h) with (get_chan s c h).
      destruct (get_chan s c h) as [ch|]; auto. repeat split; auto. intros t. cbn [relay set]. rewrite Er.
      change (u :: rest) with ([u] ++ rest). rewrite RP_app, cnt_app. lia. }
  change (get_msg (s <| relay := rest |>) u) with (get_msg s u).
  destruct (get_msg s u) as [m|] eqn:Hm; cbn [fst]; [|exact Hdrop].
  destruct (m_conf m) as [[[c0 h0] t0]|] eqn:Ecf; cbn [fst]; [|exact Hdrop].
  set (s1 := s <| relay := rest |>) in *.
  destruct (add_confirm_cases s1 c0 h0 (live_conf s1 m)) as [Es|(ch & c1 & h1 & t & Elive & Hgc & Es)]; rewrite Es; [exact Hdrop|].
  unfold live_conf in Elive. rewrite Ecf, Hgc in Elive. destruct (ch_inst ch =? m_inst m) eqn:Ei; [|discriminate].
  inversion Elive; subst c1 h1 t0. apply N.eqb_eq in Ei.
  destruct (set_chan_frame s1 c0 h0 (ch <| ch_confirmq ::= fun l => l ++ [t] |>)) as (F1 & F2 & F3 & _).
  assert (Hgc0 : get_chan s c0 h0 = Some ch) by exact Hgc.
  apply mid_build0; auto.
  - intros c'. rewrite get_conn_set_chan. tauto.
  - rewrite F2. cbn. intros x Hx. rewrite Er. right. exact Hx.
  - intros c h. unfold chan_corr0. rewrite get_chan_set_chan. pose proof (get_chan_conn _ _ _ _ Hgc) as Hcn.
    destruct (get_conn s1 c0) as [cn|] eqn:Ecn; [|congruence].
    change (get_chan s1 c h) with (get_chan s c h).
    destruct ((c =? c0) && (h =? h0)) eqn:Eb.
    + apply andb_prop in Eb. destruct Eb as [E1 E2]. apply N.eqb_eq in E1, E2. subst c h. rewrite Hgc0.
      repeat split; auto. intros t'. rewrite F2. cbn [relay set s1 ch_confirmq]. rewrite Er.
      change (u :: rest) with ([u] ++ rest). rewrite RP_app, !cnt_app. unfold RP at 2. cbn [flat_map]. unfold get_msg in Hm. rewrite Hm, app_nil_r.
      rewrite cnt_rp, Ecf, !N.eqb_refl, Ei, N.eqb_refl. cbn [andb]. rewrite cnt_one. lia.
    + destruct (get_chan s c h) as [ch'|]; auto. repeat split; auto. intros t'. rewrite F2. cbn [relay set s1]. rewrite Er.
      change (u :: rest) with ([u] ++ rest). rewrite RP_app, !cnt_app. lia.
Qed.

(* ------------------------------------------------------------------ *)
(* the confirm ticker *)
Lemma acks_of_map c h c' h' l :
  acks_of c' h' (map (fun t => (c, h, SAck t false)) l) = if (c =? c') && (h =? h') then l else [].
Proof.
  unfold acks_of. induction l as [|t r IH]; cbn [map flat_map]; [destruct (_ && _); reflexivity|].
  rewrite IH. cbn [ack_of]. destruct ((c =? c') && (h =? h')); reflexivity.
Qed.
Lemma confirm_tick_tr cfg fx s c h : Aux s ->
  Aux (fst (step cfg fx s (LConfirmTick c h))) /\ trans s (fst (step cfg fx s (LConfirmTick c h))) (snd (step cfg fx s (LConfirmTick c h))).
Proof.
  intros Ha. cbn [step]. destruct (get_chan s c h) as [ch|] eqn:Hg; [|split; [exact Ha|apply trans_of_mid; [apply mid_refl|reflexivity]]].
  destruct (negb (ch_ticker ch)); [split; [exact Ha|apply trans_of_mid; [apply mid_refl|reflexivity]]|].
  destruct (ch_status ch) eqn:Est; cbn [fst snd].
  4:{ assert (Hm : mid s (set_chan s c h (ch <| ch_ticker := false |>))) by (apply (mid_set_chan s c h ch); auto).
      split; [eapply Aux_mid; eauto|apply trans_of_mid; auto]. }
  all: set (ch2 := ch <| ch_confirmq := [] |>).
  all: split; [apply (Aux_set_chan s c h ch); auto; apply N.le_refl|].
  all: intros c' h'.
  all: destruct (set_chan_frame s c h ch2) as (F1 & F2 & F3 & _).
  all: destruct ((c =? c') && (h =? h')) eqn:Eb;
    [apply andb_prop in Eb; destruct Eb as [E1 E2]; apply N.eqb_eq in E1, E2; subst c' h'
    |apply trans_ch_same; auto; [rewrite get_chan_set_chan; destruct (get_conn s c); auto; rewrite (N.eqb_sym c' c), (N.eqb_sym h' h), Eb; reflexivity
                                |rewrite acks_of_map, Eb; reflexivity]].
  all: unfold trans_ch; rewrite (get_chan_set_chan_same s c h _ (get_chan_conn _ _ _ _ Hg)), Hg; left; repeat split; [apply N.le_refl|].
  all: intros t; cbn [ch_ctag set ch2]; rewrite bump_refl, acks_of_map, !N.eqb_refl; cbn [andb].
  all: rewrite !where_ch_nc; cbn [ch_cur set ch2]; rewrite (cur_part_frame s _ _ F1).
  all: rewrite (where_nc_frame s _ c h _ F1 F2 (chan_inst_set_chan s c h ch ch2 c h Hg eq_refl)).
  all: unfold where_nc; cbn [ch_confirmq ch_inst set ch2]; rewrite !cnt_app, cnt_nil; lia.
Qed.

(* ------------------------------------------------------------------ *)
(* no message of the heap names the channel: nothing is in flight *)
Lemma no_msgs_parts hp oi c h i rl :
  (forall u m t, In (u, m) hp -> m_conf m = Some (c, h, t) -> oi <> Some (m_inst m) /\ m_inst m <> i) ->
  RP oi c h hp rl = [] /\ HP c h i hp = [].
Proof.
  intros H. split.
  - unfold RP. induction rl as [|u r IH]; cbn [flat_map]; auto. rewrite IH, app_nil_r.
    destruct (alookup N.eqb u hp) as [m|] eqn:E; auto. apply (alookup_in N.eqb Neqb_spec) in E.
    unfold rp. destruct (m_conf m) as [[[c0 h0] t]|] eqn:Ecf; auto.
    destruct ((c0 =? c) && (h0 =? h)) eqn:Eb; auto. apply andb_prop in Eb. destruct Eb as [E1 E2]. apply N.eqb_eq in E1, E2. subst.
    destruct (H u m t E Ecf) as [Hx _]. destruct oi as [j|]; cbn; auto. destruct (j =? m_inst m) eqn:Ej; auto. apply N.eqb_eq in Ej. congruence.
  - unfold HP. induction hp as [|[u m] r IH]; cbn [flat_map]; auto. rewrite IH by (intros; eapply H; eauto; right; eauto). rewrite app_nil_r.
    cbn [snd]. unfold hp1. destruct (waiting i m) eqn:Ew; auto. unfold for_chan.
    destruct (m_conf m) as [[[c0 h0] t]|] eqn:Ecf; auto.
    destruct ((c0 =? c) && (h0 =? h)) eqn:Eb; auto. apply andb_prop in Eb. destruct Eb as [E1 E2]. apply N.eqb_eq in E1, E2. subst.
    destruct (H u m t (or_introl eq_refl) Ecf) as [_ Hx]. unfold waiting in Ew. apply andb_prop in Ew. destruct Ew as [Ei _].
    apply N.eqb_eq in Ei. congruence.
Qed.
Lemma where_ch_empty s c h ch :
  ch_confirmq ch = [] -> ch_cur ch = None ->
  (forall u m t, In (u, m) (heap s) -> m_conf m = Some (c, h, t) -> chan_inst s c h <> Some (m_inst m) /\ m_inst m <> ch_inst ch) ->
  where_ch s c h ch = [].
Proof.
  intros Eq Ec H. rewrite where_ch_nc, where_nc_alt, Eq, Ec.
  destruct (no_msgs_parts (heap s) (chan_inst s c h) c h (ch_inst ch) (relay s) H) as [-> ->]. reflexivity.
Qed.
Lemma good_new_nil ch : good_new ch []. Proof. split; constructor. Qed.

(* a channel record appears for the first time (channel.open on a new number, a new connection) *)
Lemma ensure_chan_tr s c h evs : Aux s -> nb evs = true -> Aux (ensure_chan s c h) /\ trans s (ensure_chan s c h) evs.
Proof.
  intros Ha Hn. unfold ensure_chan. destruct (get_conn s c) as [cn|] eqn:Ecn; [|split; [exact Ha|apply trans_of_mid; [apply mid_refl|exact Hn]]].
  destruct (alookup N.eqb h (cn_chans cn)) as [ch|] eqn:Ech; [split; [exact Ha|apply trans_of_mid; [apply mid_refl|exact Hn]]|].
  set (s1 := s <| conns := _ |>).
  assert (Hnone : get_chan s c h = None) by (unfold get_chan; rewrite Ecn; exact Ech).
  assert (Hgc : forall c' h', get_chan s1 c' h' = if (c' =? c) && (h' =? h) then Some channel0 else get_chan s c' h').
  { intros c' h'. unfold s1, get_chan, get_conn. cbn. rewrite (alookup_aset N.eqb Neqb_spec). destruct (c' =? c) eqn:E1; cbn.
    - rewrite (alookup_aset N.eqb Neqb_spec). apply N.eqb_eq in E1. subst c'. unfold get_conn in Ecn. rewrite Ecn. destruct (h' =? h); reflexivity.
    - reflexivity. }
  assert (Hcn : forall c', get_conn s1 c' = None <-> get_conn s c' = None).
  { intros c'. unfold s1, get_conn. cbn. rewrite (alookup_aset N.eqb Neqb_spec). destruct (c' =? c) eqn:E1; [|tauto].
    apply N.eqb_eq in E1. subst c'. unfold get_conn in Ecn. rewrite Ecn. split; discriminate. }
  destruct Ha as [Hm Hc Hr].
  assert (Hnomsg : forall u m t, In (u, m) (heap s) -> m_conf m <> Some (c, h, t)).
  { intros u m t Hin Ecf. destruct (Hm u m Hin) as [_ Hk]. destruct (Hk c h t Ecf) as [Hx|(ch & Hx & _)]; congruence. }
  split.
  - constructor.
    + intros u m Hin. destruct (Hm u m Hin) as [Hu Hk]. split; [exact Hu|]. intros c1 h1 t Ecf.
      destruct (Hk c1 h1 t Ecf) as [Hx|(ch & Hx & Hy)]; [left; apply Hcn; exact Hx|right].
      rewrite Hgc. destruct ((c1 =? c) && (h1 =? h)) eqn:Eb; [|eauto].
      apply andb_prop in Eb. destruct Eb as [E1 E2]. apply N.eqb_eq in E1, E2. subst. congruence.
    + intros c1 h1 ch1 Hg1 u Hu. rewrite Hgc in Hg1. destruct ((c1 =? c) && (h1 =? h)); [inversion Hg1; subst; discriminate|].
      exact (Hc c1 h1 ch1 Hg1 u Hu).
    + exact Hr.
  - intros c' h'. destruct ((c' =? c) && (h' =? h)) eqn:Eb.
    + apply andb_prop in Eb. destruct Eb as [E1 E2]. apply N.eqb_eq in E1, E2. subst c' h'.
      unfold trans_ch. rewrite Hgc, !N.eqb_refl, Hnone, (nb_acks c h evs Hn). cbn [andb app].
      rewrite where_ch_empty; [apply good_new_nil|reflexivity|reflexivity|].
      intros u m t Hin Ecf. exfalso. exact (Hnomsg u m t Hin Ecf).
    + apply trans_ch_same; auto; [rewrite Hgc, Eb; reflexivity|apply nb_acks; exact Hn].
Qed.

(* a connection comes into being: no message in the heap may name it (connection ids are not used twice) *)
Definition conn_unnamed (s : state) (c : N) : Prop := forall u m h t, In (u, m) (heap s) -> m_conf m <> Some (c, h, t).

Lemma new_conn_tr s c cn evs :
  get_conn s c = None -> cn_chans cn = [(0, channel0)] -> conn_unnamed s c -> Aux s -> nb evs = true ->
  Aux (s <| conns := aset N.eqb c cn (conns s) |>) /\ trans s (s <| conns := aset N.eqb c cn (conns s) |>) evs.
Proof.
  intros Ecn Hch Hfresh [Hm Hc Hr] Hn. set (s1 := s <| conns := _ |>).
  assert (Hgc : forall c' h', get_chan s1 c' h' = if c' =? c then (if h' =? 0 then Some channel0 else None) else get_chan s c' h').
  { intros c' h'. unfold s1, get_chan, get_conn. cbn. rewrite (alookup_aset N.eqb Neqb_spec). destruct (c' =? c) eqn:E1; [|reflexivity].
    rewrite Hch. cbn. destruct (h' =? 0); reflexivity. }
  assert (Hcn : forall c', c' <> c -> get_conn s1 c' = get_conn s c').
  { intros c' Hne. unfold s1, get_conn. cbn. rewrite (alookup_aset N.eqb Neqb_spec). apply N.eqb_neq in Hne. rewrite Hne. reflexivity. }
  assert (Hnone : forall h', get_chan s c h' = None) by (intros h'; unfold get_chan; rewrite Ecn; reflexivity).
  split.
  - constructor.
    + intros u m Hin. destruct (Hm u m Hin) as [Hu Hk]. split; [exact Hu|]. intros c1 h1 t Ecf.
      destruct (N.eq_dec c1 c) as [->|Hne]; [exfalso; exact (Hfresh u m h1 t Hin Ecf)|].
      rewrite (Hcn c1 Hne), Hgc. apply N.eqb_neq in Hne. rewrite Hne. exact (Hk c1 h1 t Ecf).
    + intros c1 h1 ch1 Hg1 u Hu. rewrite Hgc in Hg1. destruct (c1 =? c).
      * destruct (h1 =? 0); [inversion Hg1; subst; discriminate|discriminate].
      * exact (Hc c1 h1 ch1 Hg1 u Hu).
    + exact Hr.
  - intros c' h'. destruct (c' =? c) eqn:E1.
    + apply N.eqb_eq in E1. subst c'. unfold trans_ch. rewrite Hgc, N.eqb_refl, Hnone, (nb_acks c h' evs Hn).
      destruct (h' =? 0); [|reflexivity]. cbn [app].
      rewrite where_ch_empty; [apply good_new_nil|reflexivity|reflexivity|].
      intros u m t Hin Ecf. exfalso. exact (Hfresh u m h' t Hin Ecf).
    + apply trans_ch_same; auto; [rewrite Hgc, E1; reflexivity|apply nb_acks; exact Hn].
Qed.

(* a connection is forgotten *)
Lemma del_conn_tr s c evs : Aux s -> nb evs = true ->
  Aux (s <| conns := adel N.eqb c (conns s) |>) /\ trans s (s <| conns := adel N.eqb c (conns s) |>) evs.
Proof.
  intros [Hm Hc Hr] Hn. set (s1 := s <| conns := _ |>).
  assert (Hcn : forall c', get_conn s1 c' = if c' =? c then None else get_conn s c').
  { intros c'. unfold s1, get_conn. cbn. rewrite (alookup_adel N.eqb Neqb_spec). reflexivity. }
  split.
  - constructor.
    + intros u m Hin. destruct (Hm u m Hin) as [Hu Hk]. split; [exact Hu|]. intros c1 h1 t Ecf.
      rewrite Hcn. unfold s1. rewrite get_chan_del_conn. destruct (c1 =? c); [left; reflexivity|]. exact (Hk c1 h1 t Ecf).
    + intros c1 h1 ch1 Hg1 u Hu. unfold s1 in Hg1. rewrite get_chan_del_conn in Hg1. destruct (c1 =? c); [discriminate|].
      exact (Hc c1 h1 ch1 Hg1 u Hu).
    + exact Hr.
  - intros c' h'. destruct (c' =? c) eqn:E1.
    + unfold trans_ch, s1. rewrite get_chan_del_conn, E1. apply nb_acks. exact Hn.
    + apply trans_ch_same; auto; [unfold s1; rewrite get_chan_del_conn, E1; reflexivity|apply nb_acks; exact Hn].
Qed.

Lemma nb_restart cfg s : nb (snd (restart cfg s)) = true.
Proof. unfold restart. cbn [snd]. induction (conns s); cbn; auto. Qed.
Lemma restart_tr cfg s : Aux s -> Aux (fst (restart cfg s)) /\ trans s (fst (restart cfg s)) (snd (restart cfg s)).
Proof.
  intros [Hm Hc Hr]. split.
  - constructor.
    + intros u m Hin. unfold restart in Hin. cbn [fst heap] in Hin. apply in_map_iff in Hin. destruct Hin as ([u0 m0] & E & Hin0).
      inversion E; subst. split; [exact (proj1 (Hm _ _ Hin0))|]. cbn. intros; discriminate.
    + intros c h ch Hg. unfold restart, get_chan, get_conn in Hg. cbn in Hg. discriminate.
    + intros u Hu. unfold restart in Hu. cbn in Hu. destruct Hu.
  - intros c h. unfold trans_ch. assert (E : get_chan (fst (restart cfg s)) c h = None) by reflexivity. rewrite E.
    apply nb_acks. apply nb_restart.
Qed.

(* ------------------------------------------------------------------ *)
(* the methods that have nothing to do with confirmations *)
Ltac vset Hch := eapply V_set_chan; [exact Hch|reflexivity|first [apply st_moves_refl|right; right; reflexivity]|].

Definition confirm_method (m : meth) : bool :=
  match m with MChannelOpen | MPublish _ _ _ _ | MConfirmSelect _ => true | _ => false end.

Definition close_method (m : meth) : bool := match m with MChannelClose | MChannelCloseOk => true | _ => false end.

(* channel.close on (c,h): steps the view does not see, then the message being assembled on (c,h) is dropped *)
Lemma D_channel_close cfg s c h : vld (fun c' h' => c' = c /\ h' = h) s (channel_close cfg s c h).
Proof.
  rewrite channel_close_split. pose proof (V_close_pre s cfg s c h (vle_refl s)) as H1.
  unfold upd_chan. destruct (get_chan (close_pre cfg s c h) c h) as [ch|] eqn:E; [|apply vld_vle; exact H1].
  apply vld_drop; [apply vld_vle; exact H1|split; reflexivity|exact E].
Qed.

Lemma V_handle_method cfg fx s c h m :
  confirm_method m = false -> close_method m = false -> vle s (fst (fst (handle_method cfg fx s c h m))).
Proof.
  intros Hcm Hclm. pose proof (vle_refl s) as H. unfold handle_method.
  destruct (get_chan s c h) as [ch|] eqn:Hch; [|exact H].
  destruct m; try discriminate; unfold ok, refuse.
  - cbn [fst]. destruct (Bool.eqb _ _); auto. destruct a; (vset Hch; auto).
  - destruct (extype_of type); [|exact H].
    repeat match goal with |- context [if ?b then _ else _] => destruct b end; cbn [fst]; auto.
    all: repeat match goal with |- context [match ?x with _ => _ end] => destruct x end; cbn [fst]; auto.
    all: try (vs; auto).
  - destruct (fx_not_impl fx); exact H.
  - destruct (seqb name ""); [exact H|].
    destruct (queue_found s name) as [qu|].
    + repeat match goal with |- context [if ?b then _ else _] => destruct b end; cbn [fst]; auto.
    + destruct passive; [destruct nowait; exact H|]. cbn [fst]. repeat vs. auto.
  - destruct (alookup _ _ _); [|exact H]. destruct (seqb ex ""); [exact H|].
    destruct (queue_found s q); [|exact H]. destruct (locked _ _); [exact H|]. destruct (bad_xmatch _); [exact H|]. destruct (extype_eqb _ ExTopic && bad_pattern _)%bool; [exact H|]. cbn [fst]. vs. auto.
  - destruct (alookup _ _ _); [|exact H]. destruct (queue_found s q); [|exact H]. destruct (locked _ _); [exact H|]. destruct (bad_xmatch _); [exact H|]. destruct (extype_eqb _ ExTopic && bad_pattern _)%bool; [exact H|]. cbn [fst]. vs. auto.
  - destruct (queue_found s q) as [qu|]; [|exact H]. destruct (locked _ _); [exact H|]. cbn [fst]. vsc.
  - destruct (queue_found s q); [|exact H]. destruct (locked _ _); [exact H|].
    pose proof (V_vhost_delete_queue s (negb (fx_delete_checks_first fx)) s q ifunused ifempty H) as Hd.
    destruct (vhost_delete_queue _ s q ifunused ifempty) as [[s1 e1] r1]. cbn [fst] in *.
    destruct r1; exact Hd.
  - cbn [fst]. apply V_wake_consumers. destruct (cfg_rabbit cfg); [destruct glob; (vset Hch; auto)|].
    destruct glob; [|vset Hch; auto]. destruct (get_conn s c) eqn:Ec; auto. eapply V_conn_qos; eauto.
  - (* MConsume *)
    destruct (queue_found s q) as [qu|]; [|exact H].
    destruct (fx_excl_owner fx && locked qu c); [exact H|].
    destruct (find_consumer ch _); [exact H|].
    destruct (_ && _)%bool; cbn [fst].
    + vs. auto.
    + destruct (seqb tag ""%string); (vset Hch; repeat vs; auto).
  - (* MCancel *)
    destruct (find_consumer ch tag); [|exact H]. cbn [fst].
    vkeep. vkeep. apply V_consumer_stop. exact H.
  - (* MGet *)
    destruct (queue_found s q) as [qu|]; [|exact H].
    destruct (fx_excl_owner fx && locked qu c); [exact H|].
    destruct (q_ready qu) as [|u rest]; [exact H|].
    match goal with |- context [if noack then (Some [], []) else ?r] => destruct (if noack then (Some [], []) else r) as [okr ws] end.
    set (s1 := match ws with [w1; w2] => _ | _ => s end).
    assert (H1 : vle s s1).
    { subst s1. destruct ws as [|w1 [|w2 [|]]]; auto.
      destruct (get_conn _ c) eqn:Ec.
      - eapply V_conn_qos; eauto. vset Hch. auto.
      - vset Hch. auto. }
    clearbody s1.
    destruct okr; cbn [fst]; [|exact H1].
    destruct noack; vsc.
  - pose proof (V_handle_ack s cfg s c h tag mult H) as Ha.
    destruct (handle_ack cfg s c h tag mult) as [s1 e1]. exact Ha.
  - pose proof (V_handle_reject s cfg s c h tag mult requeue 60 120 H) as Ha.
    destruct (handle_reject cfg s c h tag mult requeue 60 120) as [s1 e1]. exact Ha.
  - pose proof (V_handle_reject s cfg s c h tag false requeue 60 90 H) as Ha.
    destruct (handle_reject cfg s c h tag false requeue 60 90) as [s1 e1]. exact Ha.
  - exact H.
  - destruct (fx_not_impl fx); exact H.
  - exact H.
  - exact H.
  - destruct good; [cbn [fst]; apply V_set_stage; exact H|exact H].
  - destruct within; [cbn [fst]; apply V_set_stage; exact H|exact H].
  - destruct vhost_ok; [cbn [fst]; apply V_set_stage; exact H|exact H].
Qed.

Lemma D_handle_method cfg fx s c h m :
  confirm_method m = false -> vld (fun c' h' => c' = c /\ h' = h) s (fst (fst (handle_method cfg fx s c h m))).
Proof.
  intros Hcm. destruct (close_method m) eqn:Hclm; [|apply vld_vle; apply V_handle_method; auto].
  unfold handle_method. destruct (get_chan s c h) as [ch|] eqn:Hch; [|apply vld_refl].
  destruct m; try discriminate; unfold ok; cbn [fst].
  - apply D_channel_close.
  - destruct (fx_closeok_releases fx); [apply D_channel_close|]. apply vld_vle. pose proof (vle_refl s) as H. vset Hch; auto.
Qed.


(* ------------------------------------------------------------------ *)
(* channel.open on a closed channel number: a new instance *)
Lemma reset_tr s c h ch ch' evs :
  get_chan s c h = Some ch -> ch_inst ch' = N.succ (ch_inst ch) -> ch_confirmq ch' = [] -> ch_cur ch' = None ->
  Aux s -> nb evs = true -> Aux (set_chan s c h ch') /\ trans s (set_chan s c h ch') evs.
Proof.
  intros Hg Ei Eq Ecur [Hm Hc Hr] Hn. destruct (set_chan_frame s c h ch') as (F1 & F2 & F3 & _).
  pose proof (get_chan_conn _ _ _ _ Hg) as Hcn. destruct (get_conn s c) as [cn|] eqn:Ecn; [|congruence]. clear Hcn.
  assert (Hold : forall u m t, In (u, m) (heap s) -> m_conf m = Some (c, h, t) -> m_inst m <= ch_inst ch).
  { intros u m t Hin Ecf. destruct (Hm u m Hin) as [_ Hk]. destruct (Hk c h t Ecf) as [Hx|(ch0 & Hx & Hy & _)]; [congruence|].
    rewrite Hg in Hx. inversion Hx; subst. exact Hy. }
  split.
  - constructor.
    + intros u m Hin. rewrite F1 in Hin. destruct (Hm u m Hin) as [Hu Hk]. split; [rewrite F3; exact Hu|].
      intros c1 h1 t Ecf. destruct (Hk c1 h1 t Ecf) as [Hn0|(ch1 & Hg1 & Hi & Hrg)].
      * left. apply get_conn_set_chan. exact Hn0.
      * right. rewrite get_chan_set_chan, Ecn. destruct ((c1 =? c) && (h1 =? h)) eqn:Eb; [|exists ch1; auto].
        apply andb_prop in Eb. destruct Eb as [E1 E2]. apply N.eqb_eq in E1, E2. subst c1 h1. rewrite Hg in Hg1. inversion Hg1; subst ch1.
        exists ch'. split; auto. rewrite Ei. split; [lia|]. intros Hx. lia.
    + intros c1 h1 ch1 Hg1 u Hu. rewrite get_chan_set_chan, Ecn in Hg1. destruct ((c1 =? c) && (h1 =? h)) eqn:Eb.
      * inversion Hg1; subst ch1. congruence.
      * destruct (Hc c1 h1 ch1 Hg1 u Hu) as [Hlt Hk]. split; [rewrite F3; exact Hlt|].
        intros m Hgm. rewrite get_msg_set_chan in Hgm. apply Hk. exact Hgm.
    + intros u Hu. rewrite F2 in Hu. rewrite F3. auto.
  - intros c1 h1. destruct ((c1 =? c) && (h1 =? h)) eqn:Eb.
    + apply andb_prop in Eb. destruct Eb as [E1 E2]. apply N.eqb_eq in E1, E2. subst c1 h1.
      unfold trans_ch. rewrite (get_chan_set_chan_same s c h ch'), Hg, (nb_acks c h evs Hn) by congruence. cbn [app].
      right. split; [lia|]. rewrite where_ch_empty; [apply good_new_nil|exact Eq|exact Ecur|].
      intros u m t Hin Ecf. rewrite F1 in Hin. pose proof (Hold u m t Hin Ecf) as Hle.
      unfold chan_inst. rewrite (get_chan_set_chan_same s c h ch') by congruence. rewrite Ei. split; [intros Hx; inversion Hx; lia|lia].
    + apply trans_ch_same; auto; [rewrite get_chan_set_chan, Ecn, Eb; reflexivity|apply nb_acks; exact Hn].
Qed.

(* basic.publish: a new message, the next number *)
Lemma RP_aset_fresh oi c h hp u m rl : (forall x, In x rl -> x <> u) -> RP oi c h (aset N.eqb u m hp) rl = RP oi c h hp rl.
Proof.
  intros H. unfold RP. induction rl as [|x r IH]; cbn [flat_map]; auto.
  rewrite IH by (intros; apply H; right; auto). rewrite (alookup_aset N.eqb Neqb_spec).
  assert (Hx : x <> u) by (apply H; left; reflexivity). apply N.eqb_neq in Hx. rewrite Hx. reflexivity.
Qed.

Lemma publish_tr s c h ch ch2 m evs :
  get_chan s c h = Some ch -> m_expected m = 0%Z -> m_actual m = 0%Z -> m_inst m = ch_inst ch ->
  ch_inst ch2 = ch_inst ch -> ch_confirmq ch2 = ch_confirmq ch -> ch_cur ch2 = Some (next_uid s) ->
  ((m_conf m = None /\ ch_ctag ch2 = ch_ctag ch) \/ (m_conf m = Some (c, h, ch_ctag ch + 1) /\ ch_ctag ch2 = ch_ctag ch + 1)) ->
  Aux s -> nb evs = true ->
  Aux (set_chan (s <| heap := aset N.eqb (next_uid s) m (heap s) |> <| next_uid := next_uid s + 1 |>) c h ch2) /\
  trans s (set_chan (s <| heap := aset N.eqb (next_uid s) m (heap s) |> <| next_uid := next_uid s + 1 |>) c h ch2) evs.
Proof.
  intros Hg Eex Eac Emi Ei Eq Ecur Hconf [Hm Hc Hr] Hn.
  set (u := next_uid s) in *. set (s1 := s <| heap := aset N.eqb u m (heap s) |> <| next_uid := u + 1 |>).
  destruct (set_chan_frame s1 c h ch2) as (F1 & F2 & F3 & _). cbn [heap relay next_uid set s1] in F1, F2, F3.
  assert (Hg1 : get_chan s1 c h = Some ch) by exact Hg.
  pose proof (get_chan_conn _ _ _ _ Hg) as Hcn. destruct (get_conn s c) as [cn|] eqn:Ecn; [|congruence]. clear Hcn.
  assert (Ecn1 : get_conn s1 c = Some cn) by exact Ecn.
  assert (Hfresh : alookup N.eqb u (heap s) = None).
  { destruct (alookup N.eqb u (heap s)) as [m0|] eqn:E; auto. apply (alookup_in N.eqb Neqb_spec) in E. destruct (Hm u m0 E) as [Hx _]. unfold u in Hx. lia. }
  assert (Hgc : forall c1 h1, get_chan (set_chan s1 c h ch2) c1 h1 = if (c1 =? c) && (h1 =? h) then Some ch2 else get_chan s c1 h1).
  { intros c1 h1. rewrite get_chan_set_chan, Ecn1. reflexivity. }
  assert (Hnw : forall c1 h1 i, hp1 c1 h1 i m = []).
  { intros c1 h1 i. unfold hp1, waiting. rewrite Eex, Eac. cbn. rewrite andb_false_r. reflexivity. }
  assert (Hctag : ch_ctag ch <= ch_ctag ch2) by (destruct Hconf as [[_ E]|[_ E]]; rewrite E; lia).
  split.
  - constructor.
    + intros u0 m0 Hin. rewrite F1 in Hin. apply in_aset in Hin. unfold msg_ok. rewrite F3. destruct Hin as [E|Hin].
      * inversion E; subst u0 m0. split; [lia|]. intros c1 h1 t Ecf. right.
        destruct Hconf as [[E0 _]|[E0 E1]]; [congruence|]. rewrite E0 in Ecf. inversion Ecf; subst c1 h1 t.
        rewrite Hgc, !N.eqb_refl. cbn [andb]. exists ch2. split; auto. rewrite Ei, Emi. split; [lia|]. intros _. lia.
      * destruct (Hm u0 m0 Hin) as [Hu Hk]. split; [unfold u; lia|]. intros c1 h1 t Ecf.
        destruct (Hk c1 h1 t Ecf) as [Hn0|(ch1 & Hgg & Hi & Hrg)].
        -- left. apply get_conn_set_chan. exact Hn0.
        -- right. rewrite Hgc. destruct ((c1 =? c) && (h1 =? h)) eqn:Eb; [|exists ch1; auto].
           apply andb_prop in Eb. destruct Eb as [E1 E2]. apply N.eqb_eq in E1, E2. subst c1 h1. rewrite Hg in Hgg. inversion Hgg; subst ch1.
           exists ch2. split; auto. rewrite Ei. split; auto. intros Hx. specialize (Hrg Hx). lia.
    + intros c1 h1 ch1 Hgg u1 Hu1. rewrite Hgc in Hgg. rewrite F3. destruct ((c1 =? c) && (h1 =? h)) eqn:Eb.
      * apply andb_prop in Eb. destruct Eb as [E1 E2]. apply N.eqb_eq in E1, E2. subst c1 h1. inversion Hgg; subst ch1.
        rewrite Ecur in Hu1. inversion Hu1; subst u1. split; [lia|]. intros m0 Hgm.
        rewrite get_msg_set_chan in Hgm. unfold get_msg, s1 in Hgm. cbn in Hgm. rewrite (alookup_aset N.eqb Neqb_spec), N.eqb_refl in Hgm.
        inversion Hgm; subst m0. intros c' h' t Ecf. destruct Hconf as [[E0 _]|[E0 _]]; [congruence|]. rewrite E0 in Ecf. inversion Ecf; subst. repeat split; congruence.
      * destruct (Hc c1 h1 ch1 Hgg u1 Hu1) as [Hlt Hk]. split; [unfold u; lia|]. intros m0 Hgm.
        rewrite get_msg_set_chan in Hgm. unfold get_msg, s1 in Hgm. cbn in Hgm. rewrite (alookup_aset N.eqb Neqb_spec) in Hgm.
        destruct (u1 =? u) eqn:Eu; [apply N.eqb_eq in Eu; unfold u in Eu; lia|]. apply Hk. exact Hgm.
    + intros x Hx. rewrite F2 in Hx. rewrite F3. specialize (Hr x Hx). unfold u. lia.
  - assert (Hrl : forall x, In x (relay s) -> x <> u) by (intros x Hx; specialize (Hr x Hx); unfold u; lia).
    intros c1 h1. unfold trans_ch. rewrite Hgc, (nb_acks c1 h1 evs Hn). cbn [app].
    destruct ((c1 =? c) && (h1 =? h)) eqn:Eb.
    + apply andb_prop in Eb. destruct Eb as [E1 E2]. apply N.eqb_eq in E1, E2. subst c1 h1. rewrite Hg.
      left. repeat split; [exact Ei|exact Hctag|]. intros t.
      rewrite !where_ch_nc, !where_nc_alt, !cur_part_CP, F1, F2. unfold chan_inst. rewrite Hgc, !N.eqb_refl, Hg. cbn [andb].
      rewrite Ei, Eq, Ecur, (RP_aset_fresh _ _ _ _ _ _ _ Hrl), (HP_aset_new _ _ _ _ _ _ Hfresh), Hnw, app_nil_r.
      unfold CP at 1. rewrite (alookup_aset N.eqb Neqb_spec), N.eqb_refl. rewrite !cnt_app. unfold bump.
      destruct Hconf as [[E0 E1]|[E0 E1]]; rewrite E0, E1.
      * cbn. lia.
      * rewrite cnt_one. destruct (ch_ctag ch + 1 =? t) eqn:Et; [|lia]. apply N.eqb_eq in Et.
        assert (Hb : (ch_ctag ch <? t) && (t <=? ch_ctag ch + 1) = true) by lia. rewrite Hb. lia.
    + destruct (get_chan s c1 h1) as [ch1|] eqn:Hgg; [|reflexivity].
      left. repeat split; [apply N.le_refl|]. intros t. rewrite bump_refl.
      rewrite !where_ch_nc, !where_nc_alt, !cur_part_CP, F1, F2. unfold chan_inst. rewrite Hgc, Eb, Hgg.
      rewrite (RP_aset_fresh _ _ _ _ _ _ _ Hrl), (HP_aset_new _ _ _ _ _ _ Hfresh), Hnw, app_nil_r.
      assert (Ecp : CP (aset N.eqb u m (heap s)) (ch_cur ch1) = CP (heap s) (ch_cur ch1)).
      { unfold CP. destruct (ch_cur ch1) as [u1|] eqn:Eu1; auto. rewrite (alookup_aset N.eqb Neqb_spec).
        destruct (Hc c1 h1 ch1 Hgg u1 Eu1) as [Hlt _]. destruct (u1 =? u) eqn:Eu; [apply N.eqb_eq in Eu; unfold u in Eu; lia|reflexivity]. }
      rewrite Ecp. lia.
Qed.

(* ------------------------------------------------------------------ *)
(* assembling a step from its parts *)
Definition TR0 (s s' : state) : Prop := Aux s' /\ trans s s' [].

Lemma TR0_mid s s' : Aux s -> mid s s' -> TR0 s s'.
Proof. intros Ha Hm. split; [eapply Aux_mid; eauto|apply trans_of_mid; auto]. Qed.
Lemma TR0_vle s s' : Aux s -> vle s s' -> TR0 s s'.
Proof. intros Ha Hv. apply TR0_mid; auto. apply vle_mid; auto. Qed.
Lemma TR0_refl s : Aux s -> TR0 s s.
Proof. intros. apply TR0_mid; auto. apply mid_refl. Qed.
Lemma TR0_seq s0 s1 s2 :
  (forall c h, get_chan s1 c h = None -> get_chan s0 c h = None \/ get_chan s2 c h = None) ->
  TR0 s0 s1 -> TR0 s1 s2 -> TR0 s0 s2.
Proof.
  intros Hres [A1 T1] [A2 T2]. split; auto. change (@nil event) with (@nil event ++ @nil event). eapply trans_compose; eauto.
Qed.
Lemma mid_none s s' c h : mid s s' -> (get_chan s c h = None <-> get_chan s' c h = None).
Proof.
  intros Hm. pose proof (mid_ch _ _ Hm c h) as C. unfold mid_chan in C.
  destruct (get_chan s c h), (get_chan s' c h); try tauto. split; discriminate.
Qed.
Lemma TR0_then_mid s0 s1 s2 : TR0 s0 s1 -> mid s1 s2 -> TR0 s0 s2.
Proof.
  intros H1 Hm. eapply TR0_seq; [|exact H1|apply TR0_mid; [exact (proj1 H1)|exact Hm]].
  intros c h Hn. right. apply (mid_none _ _ c h Hm). exact Hn.
Qed.
Lemma TR0_mid_then s0 s1 s2 : Aux s0 -> mid s0 s1 -> (Aux s1 -> TR0 s1 s2) -> TR0 s0 s2.
Proof.
  intros Ha Hm H2. pose proof (TR0_mid _ _ Ha Hm) as H1. eapply TR0_seq; [|exact H1|apply H2; exact (proj1 H1)].
  intros c h Hn. left. apply (mid_none _ _ c h Hm). exact Hn.
Qed.
Lemma drop_tr s c h ch : Aux s -> get_chan s c h = Some ch -> TR0 s (set_chan s c h (ch <| ch_cur := None |>)).
Proof.
  intros Ha Hgc. set (ch2 := ch <| ch_cur := None |>).
  split; [apply (Aux_set_chan s c h ch); auto; apply N.le_refl|].
  intros c' h'. unfold trans_ch. cbn [acks_of flat_map app].
  destruct (set_chan_frame s c h ch2) as (F1 & F2 & F3 & _).
  rewrite get_chan_set_chan. pose proof (get_chan_conn _ _ _ _ Hgc) as Hcn. destruct (get_conn s c) as [cn|] eqn:Ecn; [|congruence].
  destruct ((c' =? c) && (h' =? h)) eqn:Eb.
  - apply andb_prop in Eb. destruct Eb as [E1 E2]. apply N.eqb_eq in E1, E2. subst c' h'. rewrite Hgc.
    left. repeat split; [apply N.le_refl|]. intros t. cbn [ch_ctag set ch2]. rewrite bump_refl, !where_ch_nc. cbn [ch_cur set cur_part ch2].
    rewrite (where_nc_frame s _ c h _ F1 F2 (chan_inst_set_chan s c h ch ch2 c h Hgc eq_refl)).
    change (where_nc s c h ch2) with (where_nc s c h ch). rewrite !cnt_app, cnt_nil. lia.
  - assert (Hsame : trans_ch s (set_chan s c h ch2) [] c' h').
    { apply trans_ch_same; auto. rewrite get_chan_set_chan, Ecn, Eb. reflexivity. }
    unfold trans_ch in Hsame. rewrite get_chan_set_chan, Ecn, Eb in Hsame. exact Hsame.
Qed.
Lemma TR0_vld P s s' : Aux s -> vld P s s' -> TR0 s s'.
Proof.
  intros Ha H. induction H as [s1 Hv|s1 c1 h1 ch1 H IH Hp Hg|s1 s2 H IH Hv].
  - apply TR0_vle; auto.
  - eapply TR0_seq; [|exact IH|apply drop_tr; [exact (proj1 IH)|exact Hg]].
    intros c h Hn. right. rewrite get_chan_set_chan. destruct (get_conn s1 c1); auto.
    destruct ((c =? c1) && (h =? h1)) eqn:Eb; auto. apply andb_prop in Eb. destruct Eb as [E1 E2]. apply N.eqb_eq in E1, E2. subst. congruence.
  - eapply TR0_then_mid; [exact IH|apply vle_mid; exact Hv].
Qed.
Lemma trans_nb s s' evs evs' : nb evs = true -> nb evs' = true -> trans s s' evs -> trans s s' evs'.
Proof.
  intros H1 H2 T c h. specialize (T c h). unfold trans_ch in *. rewrite (nb_acks c h evs H1) in T. rewrite (nb_acks c h evs' H2). exact T.
Qed.

Lemma handle_method_tr cfg fx s c h m : Aux s -> TR0 s (fst (fst (handle_method cfg fx s c h m))).
Proof.
  intros Ha. destruct (confirm_method m) eqn:Hcm; [|eapply TR0_vld; auto; apply D_handle_method; auto].
  unfold handle_method. destruct (get_chan s c h) as [ch|] eqn:Hch; [|apply TR0_refl; auto].
  destruct m; try discriminate; unfold ok, refuse.
  - (* MChannelOpen *)
    destruct (ch_status ch) eqn:Est; cbn [fst]; try (apply TR0_refl; auto).
    1,2: apply TR0_mid; auto; apply (mid_set_chan s c h ch); auto.
    destruct (fx_reopen_resets fx).
    + apply (reset_tr s c h ch); auto.
    + apply TR0_mid; auto; apply (mid_set_chan s c h ch); auto.
  - (* MPublish *)
    destruct imm; [apply TR0_refl; auto|]. destruct (alookup seqb ex (exchanges s)); [|apply TR0_refl; auto].
    destruct (ch_confirm ch) eqn:Ecf; cbn [fst].
    + apply (publish_tr s c h ch); auto. right. cbn. split; [reflexivity|symmetry; apply N.add_1_r].
    + apply (publish_tr s c h ch); auto.
  - (* MConfirmSelect *)
    cbn [fst]. apply TR0_mid; auto; apply (mid_set_chan s c h ch); auto.
Qed.

Lemma V_delete_fold s0 b l : forall s evs, vle s0 s ->
  vle s0 (fst (fold_left (fun acc qn => let '(s, evs) := acc in
                                    let '(s', e, _) := vhost_delete_queue b s qn false false in (s', evs ++ e)) l (s, evs))).
Proof.
  induction l as [|x t IH]; intros s evs H; simpl; auto.
  pose proof (V_vhost_delete_queue s0 b s x false false H) as Hd.
  destruct (vhost_delete_queue b s x false false) as [[s1 e1] r1]. cbn [fst] in Hd. apply IH. exact Hd.
Qed.
Lemma nb_delete_fold b l : forall s evs, nb evs = true ->
  nb (snd (fold_left (fun acc qn => let '(s, evs) := acc in
                                    let '(s', e, _) := vhost_delete_queue b s qn false false in (s', evs ++ e)) l (s, evs))) = true.
Proof.
  induction l as [|x t IH]; intros s evs H; simpl; auto.
  pose proof (nb_vhost_delete_queue b s x false false) as Hd.
  destruct (vhost_delete_queue b s x false false) as [[s1 e1] r1]. cbn [fst snd] in Hd. apply IH. rewrite nb_app, H, Hd. reflexivity.
Qed.

Lemma D_close_fold cfg c l : forall s, vld (fun c' _ => c' = c) s (fold_left (fun s h => channel_close cfg s c h) l s).
Proof.
  induction l as [|h r IH]; intros s; cbn [fold_left]; [apply vld_refl|].
  eapply vld_trans; [|apply IH]. eapply vld_weaken; [|apply D_channel_close]. intros c' h' [E _]. exact E.
Qed.

Lemma conn_close_tr cfg fx s c : Aux s ->
  TR0 s (fst (conn_close cfg fx s c)) /\ nb (snd (conn_close cfg fx s c)) = true /\
  (forall c' h', get_chan s c' h' = None -> get_chan (fst (conn_close cfg fx s c)) c' h' = None).
Proof.
  intros Ha. unfold conn_close. destruct (get_conn s c) as [cn|]; [|split; [apply TR0_refl; auto|split; [reflexivity|auto]]].
  set (s1 := fold_left _ _ s).
  assert (H1 : vld (fun c' _ => c' = c) s s1) by (subst s1; apply D_close_fold).
  clearbody s1.
  pose proof (V_delete_fold s1 (negb (fx_delete_checks_first fx))
                (map fst (filter (fun kv => q_excl (snd kv) && (q_owner (snd kv) =? c)) (queues s1))) s1 [] (vle_refl s1)) as Hd0.
  pose proof (nb_delete_fold (negb (fx_delete_checks_first fx))
                (map fst (filter (fun kv => q_excl (snd kv) && (q_owner (snd kv) =? c)) (queues s1))) s1 [] eq_refl) as Hn.
  destruct (fold_left _ _ (s1, [])) as [s2 e2]. cbn [fst snd] in *.
  assert (Hd : vld (fun c' _ => c' = c) s s2) by (eapply vld_step; eauto).
  pose proof (TR0_vld _ s s2 Ha Hd) as T2.
  split; [|split; [rewrite nb_app, Hn; reflexivity|]].
  - eapply TR0_seq; [|exact T2|apply (del_conn_tr s2 c []); [exact (proj1 T2)|reflexivity]].
    intros c' h' Hnone. left. apply (vld_none _ _ _ c' h' Hd). exact Hnone.
  - intros c' h' Hnone. rewrite get_chan_del_conn. destruct (c' =? c); auto.
    apply (vld_none _ _ _ c' h' Hd). exact Hnone.
Qed.

Lemma apply_err_tr s0 s c h r : TR0 s0 (fst (fst r)) -> TR0 s0 (fst (apply_err s c h r)).
Proof.
  intros H. eapply TR0_then_mid; [exact H|]. apply vle_mid. apply V_apply_err. apply vle_refl.
Qed.
Lemma apply_err_st_tr cfg fx opened s0 s c h r : TR0 s0 (fst (fst r)) -> TR0 s0 (fst (apply_err_st cfg fx opened s c h r)).
Proof.
  intros H. unfold apply_err_st. destruct opened; [apply apply_err_tr; auto|].
  destruct (snd r) as [[| ]|]; try (apply apply_err_tr; auto).
  pose proof (apply_err_tr s0 s c h r H) as H1. destruct (apply_err s c h r) as [s1 e1]. cbn [fst] in H1.
  pose proof (conn_close_tr cfg fx s1 c (proj1 H1)) as (H2 & _ & H3). destruct (conn_close cfg fx s1 c) as [s2 e2]. cbn [fst] in *.
  eapply TR0_seq; [|exact H1|exact H2]. intros c' h' Hn. right. apply H3. exact Hn.
Qed.

Lemma nb_apply_err_st cfg fx opened s c h r : nb (snd (fst r)) = true -> nb (snd (apply_err_st cfg fx opened s c h r)) = true.
Proof.
  intros H. unfold apply_err_st. destruct opened; [apply nb_apply_err; auto|].
  destruct (snd r) as [[| ]|]; try (apply nb_apply_err; auto).
  pose proof (nb_apply_err s c h r H) as H1. destruct (apply_err s c h r) as [s1 e1]. cbn [snd] in H1.
  assert (H2 : nb (snd (conn_close cfg fx s1 c)) = true).
  { unfold conn_close. destruct (get_conn s1 c); auto.
    match goal with |- context [fold_left ?f ?l (?s2, [])] =>
      pose proof (nb_delete_fold (negb (fx_delete_checks_first fx)) l s2 [] eq_refl) as Hn; destruct (fold_left f l (s2, [])) as [s3 e3] end.
    cbn [snd] in *. rewrite nb_app, Hn. reflexivity. }
  destruct (conn_close cfg fx s1 c) as [s2 e2]. cbn [snd] in *. rewrite nb_app, H1, H2. reflexivity.
Qed.
Lemma nb_conn_close cfg fx s c : nb (snd (conn_close cfg fx s c)) = true.
Proof.
  unfold conn_close. destruct (get_conn s c); auto.
  match goal with |- context [fold_left ?f ?l (?s2, [])] =>
    pose proof (nb_delete_fold (negb (fx_delete_checks_first fx)) l s2 [] eq_refl) as Hn; destruct (fold_left f l (s2, [])) as [s3 e3] end.
  cbn [snd] in *. rewrite nb_app, Hn. reflexivity.
Qed.

Definition is_confirm_tick (l : label) : bool := match l with LConfirmTick _ _ => true | _ => false end.

Lemma nb_step cfg fx s l : is_confirm_tick l = false -> nb (snd (step cfg fx s l)) = true.
Proof.
  intros Hl. destruct l; try discriminate; cbn [step].
  - destruct (get_conn s c); reflexivity.
  - (* LMethod *)
    destruct (get_conn s c) as [cn0|]; [|reflexivity].
    destruct (negb _ && negb _)%bool; [apply nb_conn_close|].
    destruct m.
    all: try (repeat match goal with |- context [if ?b then _ else _] => destruct b end;
              first [ reflexivity
                    | apply nb_apply_err; first [ apply nb_handle_method | reflexivity ]
                    | apply nb_apply_err_st; first [ apply nb_handle_method | reflexivity ] ]).
    + destruct (fx_stage fx && negb (h =? 0)); [apply nb_apply_err; reflexivity|].
      pose proof (nb_conn_close cfg fx (ensure_chan s c h) c) as Hc.
      destruct (conn_close cfg fx (ensure_chan s c h) c) as [s1 e1]. cbn [snd] in *. exact Hc.
    + destruct (fx_stage fx && negb (h =? 0)); [apply nb_apply_err; reflexivity|]. apply nb_conn_close.
  - (* LHeader *)
    destruct (get_conn s c) as [cn0|]; [|reflexivity].
    destruct (negb _ && negb _)%bool; [apply nb_conn_close|].
    destruct (get_chan _ c h) as [ch|]; [|reflexivity].
    destruct (_ && _)%bool; [reflexivity|].
    destruct (ch_cur ch) as [u|]; [|apply nb_apply_err_st; reflexivity].
    destruct (get_msg _ u) as [m|]; [|reflexivity].
    destruct (m_has_header m); [apply nb_apply_err_st; reflexivity|].
    destruct (_ && _)%bool; [apply nb_finish_publish|reflexivity].
  - (* LBody *)
    destruct (get_conn s c) as [cn0|]; [|reflexivity].
    destruct (negb _ && negb _)%bool; [apply nb_conn_close|].
    destruct (get_chan _ c h) as [ch|]; [|reflexivity].
    destruct (_ && _)%bool; [reflexivity|].
    destruct (ch_cur ch) as [u|]; [|apply nb_apply_err_st; reflexivity].
    destruct (get_msg _ u) as [m|]; [|reflexivity].
    destruct (negb (m_has_header m)); [apply nb_apply_err_st; reflexivity|].
    destruct (_ <? _); [apply nb_apply_err_st; reflexivity|].
    destruct (_ <? _); [reflexivity|apply nb_finish_publish].
  - apply nb_consumer_turn.
  - reflexivity.
  - destruct (autodel s) as [|qn rest]; [reflexivity|].
    destruct (get_queue _ qn) as [qu0|]; [|reflexivity]. destruct (q_autodel qu0); [|reflexivity].
    pose proof (nb_vhost_delete_queue (negb (fx_delete_checks_first fx)) (s <| autodel := rest |>) qn true false) as Hd.
    destruct (vhost_delete_queue _ (s <| autodel := rest |>) qn true false) as [[s1 e1] r1]. exact Hd.
  - reflexivity.
  - destruct (relay s) as [|u rest]; [reflexivity|]. destruct (get_msg _ u) as [m|]; [|reflexivity].
    destruct (m_conf m) as [[[? ?] ?]|]; reflexivity.
  - pose proof (nb_conn_close cfg fx s c) as Hc. destruct (conn_close cfg fx s c) as [s1 e1]. exact Hc.
  - destruct (get_conn s c); reflexivity.
  - destruct (get_conn s c) as [cn0|]; [|reflexivity].
    destruct (negb _ && negb _)%bool; [apply nb_conn_close|]. apply nb_apply_err_st. reflexivity.
  - destruct (get_conn s c); [|reflexivity]. destruct (h =? 0); [reflexivity|apply nb_conn_close].
  - apply nb_restart.
Qed.

Lemma get_chan_ensure_mono s c h c' h' x : get_chan s c' h' = Some x -> get_chan (ensure_chan s c h) c' h' = Some x.
Proof.
  unfold ensure_chan. destruct (get_conn s c) as [cn|] eqn:Ec; auto.
  destruct (alookup N.eqb h (cn_chans cn)) eqn:Eh; auto.
  unfold get_chan, get_conn in *. cbn. rewrite (alookup_aset N.eqb Neqb_spec).
  destruct (c' =? c) eqn:E1; auto. apply N.eqb_eq in E1. subst. rewrite Ec. cbn. rewrite (alookup_aset N.eqb Neqb_spec).
  destruct (h' =? h) eqn:E2; auto. apply N.eqb_eq in E2. subst. congruence.
Qed.
Lemma TR0_ensure_then s c h s2 : Aux s -> (Aux (ensure_chan s c h) -> TR0 (ensure_chan s c h) s2) -> TR0 s s2.
Proof.
  intros Ha H2. destruct (ensure_chan_tr s c h [] Ha eq_refl) as [A1 T1].
  eapply TR0_seq; [|split; [exact A1|exact T1]|apply H2; exact A1].
  intros c' h' Hn. left. destruct (get_chan s c' h') as [x|] eqn:E; auto.
  rewrite (get_chan_ensure_mono s c h c' h' x E) in Hn. discriminate.
Qed.

(* connection ids are not used twice: the exact condition is that no message of the heap names the id *)
Definition fresh_step (s : state) (l : label) : Prop :=
  match l with
  | LConnect c | LAccept c => get_conn s c = None -> conn_unnamed s c
  | _ => True
  end.

Lemma step_TR0 cfg fx s l :
  fx_clear_current fx = true -> is_confirm_tick l = false -> Aux s -> fresh_step s l -> TR0 s (fst (step cfg fx s l)).
Proof.
  intros Hfx Hl Ha Hfr. destruct l; try discriminate; cbn [step].
  - (* LConnect *)
    destruct (get_conn s c) eqn:Ec; cbn [fst]; [apply TR0_refl; auto|].
    apply (new_conn_tr s c _ []); auto.
  - (* LMethod *)
    destruct (get_conn s c) as [cn0|]; [|apply TR0_refl; auto].
    destruct (negb _ && negb _)%bool; [apply conn_close_tr; auto|].
    apply (TR0_ensure_then s c h); [exact Ha|]. intros A0. set (s1 := ensure_chan s c h) in *.
    destruct m.
    all: try (repeat match goal with |- context [if ?b then _ else _] => destruct b end;
              first [ apply TR0_refl; exact A0
                    | apply apply_err_tr; first [ apply handle_method_tr; exact A0 | apply TR0_refl; exact A0 ]
                    | apply apply_err_st_tr; first [ apply handle_method_tr; exact A0 | apply TR0_refl; exact A0 ] ]).
    + destruct (fx_stage fx && negb (h =? 0)); [apply apply_err_tr; apply TR0_refl; exact A0|].
      pose proof (conn_close_tr cfg fx s1 c A0) as (Hc & _).
      destruct (conn_close cfg fx s1 c) as [s2 e2]. exact Hc.
    + destruct (fx_stage fx && negb (h =? 0)); [apply apply_err_tr; apply TR0_refl; exact A0|]. apply conn_close_tr; auto.
  - (* LHeader *)
    destruct (get_conn s c) as [cn0|]; [|apply TR0_refl; auto].
    destruct (negb _ && negb _)%bool; [apply conn_close_tr; auto|].
    apply (TR0_ensure_then s c h); [exact Ha|]. intros A0. set (s1 := ensure_chan s c h) in *.
    destruct (get_chan s1 c h) as [ch|] eqn:Hgc; [|apply TR0_refl; auto].
    destruct (_ && _)%bool; [apply TR0_refl; auto|].
    destruct (ch_cur ch) as [u|] eqn:Ecur; [|apply apply_err_st_tr; apply TR0_refl; auto].
    destruct (get_msg s1 u) as [m|]; [|apply TR0_refl; auto].
    destruct (m_has_header m); [apply apply_err_st_tr; apply TR0_refl; auto|].
    set (s2 := upd_msg s1 u _).
    assert (Hm2 : mid s1 s2) by (apply vle_mid; subst s2; apply vle_upd_msg; intros; reflexivity).
    destruct (_ && _)%bool; [|apply TR0_mid; auto].
    apply (TR0_mid_then s1 s2); auto. intros A2.
    apply (finish_publish_tr fx s2 c h u ch []); auto.
    subst s2. unfold upd_msg. destruct (get_msg s1 u); exact Hgc.
  - (* LBody *)
    destruct (get_conn s c) as [cn0|]; [|apply TR0_refl; auto].
    destruct (negb _ && negb _)%bool; [apply conn_close_tr; auto|].
    apply (TR0_ensure_then s c h); [exact Ha|]. intros A0. set (s1 := ensure_chan s c h) in *.
    destruct (get_chan s1 c h) as [ch|] eqn:Hgc; [|apply TR0_refl; auto].
    destruct (_ && _)%bool; [apply TR0_refl; auto|].
    destruct (ch_cur ch) as [u|] eqn:Ecur; [|apply apply_err_st_tr; apply TR0_refl; auto].
    destruct (get_msg s1 u) as [m|]; [|apply TR0_refl; auto].
    destruct (negb (m_has_header m)); [apply apply_err_st_tr; apply TR0_refl; auto|].
    destruct (_ <? _).
    { apply apply_err_st_tr. cbn [fst refuse]. unfold upd_chan. rewrite Hgc. set (ch2 := ch <| ch_cur := None |>).
      split; [apply (Aux_set_chan s1 c h ch); auto; apply N.le_refl|].
      (* the message being assembled is dropped: its number leaves where_is *)
      intros c' h'. unfold trans_ch. cbn [acks_of flat_map app].
      destruct (set_chan_frame s1 c h ch2) as (F1 & F2 & F3 & _).
      rewrite get_chan_set_chan. pose proof (get_chan_conn _ _ _ _ Hgc) as Hcn. destruct (get_conn s1 c) as [cn|] eqn:Ecn; [|congruence].
      destruct ((c' =? c) && (h' =? h)) eqn:Eb.
      - apply andb_prop in Eb. destruct Eb as [E1 E2]. apply N.eqb_eq in E1, E2. subst c' h'. rewrite Hgc.
        left. repeat split; [apply N.le_refl|]. intros t. cbn [ch_ctag set ch2]. rewrite bump_refl, !where_ch_nc. cbn [ch_cur set cur_part ch2].
        rewrite (where_nc_frame s1 _ c h _ F1 F2 (chan_inst_set_chan s1 c h ch ch2 c h Hgc eq_refl)).
        change (where_nc s1 c h ch2) with (where_nc s1 c h ch). rewrite !cnt_app, cnt_nil. lia.
      - assert (Hsame : trans_ch s1 (set_chan s1 c h ch2) [] c' h').
        { apply trans_ch_same; auto. rewrite get_chan_set_chan, Ecn, Eb. reflexivity. }
        unfold trans_ch in Hsame. rewrite get_chan_set_chan, Ecn, Eb in Hsame. exact Hsame. }
    set (s2 := upd_msg s1 u _).
    assert (Hm2 : mid s1 s2) by (apply vle_mid; subst s2; apply vle_upd_msg; intros; reflexivity).
    destruct (_ <? _); [apply TR0_mid; auto|].
    apply (TR0_mid_then s1 s2); auto. intros A2.
    apply (finish_publish_tr fx s2 c h u ch []); auto.
    subst s2. unfold upd_msg. destruct (get_msg s1 u); exact Hgc.
  - apply TR0_vle; auto. apply V_consumer_turn. apply vle_refl.
  - cbn [fst]. apply TR0_vle; auto. apply V_queue_loop_turn. apply vle_refl.
  - destruct (autodel s) as [|qn rest]; [apply TR0_refl; auto|].
    assert (H0 : vle s (s <| autodel := rest |>)) by (vs; apply vle_refl).
    destruct (get_queue _ qn) as [qu0|]; [|apply TR0_vle; auto]. destruct (q_autodel qu0); [|apply TR0_vle; auto].
    pose proof (V_vhost_delete_queue s (negb (fx_delete_checks_first fx)) _ qn true false H0) as Hd.
    destruct (vhost_delete_queue _ (s <| autodel := rest |>) qn true false) as [[s1 e1] r1]. apply TR0_vle; auto.
  - apply TR0_mid; auto. apply (persist_tick_mid cfg fx).
  - apply TR0_mid; auto. apply (relay_step_mid cfg fx).
  - pose proof (conn_close_tr cfg fx s c Ha) as (Hc & _). destruct (conn_close cfg fx s c) as [s1 e1]. exact Hc.
  - (* LAccept *)
    destruct (get_conn s c) eqn:Ec; cbn [fst]; [apply TR0_refl; auto|].
    apply (new_conn_tr s c _ []); auto.
  - (* LBadMethod *)
    destruct (get_conn s c) as [cn0|]; [|apply TR0_refl; auto].
    destruct (negb _ && negb _)%bool; [apply conn_close_tr; auto|].
    apply (TR0_ensure_then s c h); [exact Ha|]. intros A0. apply apply_err_st_tr. apply TR0_refl. exact A0.
  - destruct (get_conn s c); [|apply TR0_refl; auto]. destruct (h =? 0); [apply TR0_refl; auto|apply conn_close_tr; auto].
  - destruct (restart_tr cfg s Ha) as [A T]. split; auto. eapply trans_nb; [apply nb_restart|reflexivity|exact T].
Qed.

Lemma step_tr cfg fx s l : fx_clear_current fx = true -> Aux s -> fresh_step s l ->
  Aux (fst (step cfg fx s l)) /\ trans s (fst (step cfg fx s l)) (snd (step cfg fx s l)).
Proof.
  intros Hfx Ha Hfr. destruct (is_confirm_tick l) eqn:E.
  - destruct l; try discriminate. apply confirm_tick_tr. exact Ha.
  - destruct (step_TR0 cfg fx s l Hfx E Ha Hfr) as [A T]. split; auto.
    apply (trans_nb _ _ [] _ eq_refl (nb_step cfg fx s l E) T).
Qed.

(* ------------------------------------------------------------------ *)
(* every reachable state *)
Fixpoint fresh_along (cfg : config) (fx : fixes) (s : state) (ls : list label) : Prop :=
  match ls with
  | [] => True
  | l :: t => fresh_step s l /\ fresh_along cfg fx (fst (step cfg fx s l)) t
  end.

Definition Inv (s : state) (A : N -> N -> list N) : Prop :=
  Aux s /\ forall c h ch, get_chan s c h = Some ch -> amo_ok s (A c h) c h ch.

Lemma run_cons cfg fx s l t :
  fst (run cfg fx s (l :: t)) = fst (run cfg fx (fst (step cfg fx s l)) t).
Proof. cbn [run]. destruct (step cfg fx s l) as [s1 e1]. cbn [fst]. destruct (run cfg fx s1 t). reflexivity. Qed.

Lemma Inv_run cfg fx ls : forall s A,
  fx_clear_current fx = true -> Inv s A -> fresh_along cfg fx s ls ->
  Inv (fst (run cfg fx s ls)) (fun c h => acked_from cfg fx s ls c h (A c h)).
Proof.
  induction ls as [|l t IH]; intros s A Hfx [Ha Hamo] Hfr.
  - cbn. split; auto.
  - destruct Hfr as [Hf1 Hf2]. rewrite run_cons. cbn [acked_from].
    destruct (step_tr cfg fx s l Hfx Ha Hf1) as [A1 T1].
    apply (IH (fst (step cfg fx s l)) (fun c h => acked_step s (fst (step cfg fx s l)) (snd (step cfg fx s l)) c h (A c h))); auto.
    split; auto. intros c h ch' Hg'. apply amo_step; auto.
Qed.

Lemma Inv_init cfg : Inv (init cfg) (fun _ _ => []).
Proof.
  split.
  - constructor.
    + intros u m [].
    + intros c h ch Hg. unfold get_chan, get_conn in Hg. cbn in Hg. discriminate.
    + intros u [].
  - intros c h ch Hg. unfold get_chan, get_conn in Hg. cbn in Hg. discriminate.
Qed.

(* AT MOST ONCE, ONLY PUBLISHED: in every reachable state, for every channel, the numbers acknowledged since the current
   instance of the channel began and the numbers in flight are pairwise distinct and lie in 1 .. ch_ctag *)
Theorem confirm_at_most_once cfg fx ls c h ch :
  fx_clear_current fx = true -> fresh_along cfg fx (init cfg) ls ->
  get_chan (fst (run cfg fx (init cfg) ls)) c h = Some ch ->
  NoDup (acked_run cfg fx (init cfg) ls c h ++ where_is (fst (run cfg fx (init cfg) ls)) c h) /\
  Forall (fun t => 1 <= t <= ch_ctag ch) (acked_run cfg fx (init cfg) ls c h ++ where_is (fst (run cfg fx (init cfg) ls)) c h).
Proof.
  intros Hfx Hfr Hg. destruct (Inv_run cfg fx ls (init cfg) (fun _ _ => []) Hfx (Inv_init cfg) Hfr) as [_ Hamo].
  specialize (Hamo c h ch Hg). unfold where_is. rewrite Hg. exact Hamo.
Qed.

Corollary confirm_no_number_twice cfg fx ls c h ch :
  fx_clear_current fx = true -> fresh_along cfg fx (init cfg) ls ->
  get_chan (fst (run cfg fx (init cfg) ls)) c h = Some ch ->
  NoDup (acked_run cfg fx (init cfg) ls c h) /\
  forall t, In t (acked_run cfg fx (init cfg) ls c h) ->
    1 <= t <= ch_ctag ch /\ ~ In t (where_is (fst (run cfg fx (init cfg) ls)) c h).
Proof.
  intros Hfx Hfr Hg. destruct (confirm_at_most_once cfg fx ls c h ch Hfx Hfr Hg) as [Hnd Hr].
  split; [apply NoDup_cnt; intros t; apply NoDup_cnt with (t := t) in Hnd; rewrite cnt_app in Hnd; lia|]. intros t Hin. split.
  - rewrite Forall_forall in Hr. apply Hr. apply in_or_app. left. exact Hin.
  - intros Hw. apply NoDup_cnt with (t := t) in Hnd. rewrite cnt_app in Hnd.
    apply cnt_in in Hin. apply cnt_in in Hw. lia.
Qed.

(* ------------------------------------------------------------------ *)
(* a state invariant that respects the view and is kept by the few operations of the confirm machinery is kept by
   every label *)
Definition not_closing (s : state) (c h : N) : Prop :=
  forall ch, get_chan s c h = Some ch -> ch_status ch <> ChClosing.

Section StepInv.
Variables (cfg : config) (fx : fixes) (B : state -> Prop).
(* a side condition on the state in which a publish is routed, which depends on the queue and exchange tables only *)
Variable Q : state -> Prop.
Hypothesis Q_frame : forall s s', queues s' = queues s -> exchanges s' = exchanges s -> Q s -> Q s'.
(* a side condition on the id of a connection that comes into being *)
Variable Cok : N -> Prop.
Hypothesis Hfx : fx_clear_current fx = true.
Hypothesis B_vle : forall s0 s, vle s0 s -> B s0 -> B s.
Hypothesis B_ensure : forall s c h, B s -> B (ensure_chan s c h).
Hypothesis B_method : forall s c h m, confirm_method m = true -> (fx_discard_closing fx = true -> not_closing s c h) -> B s -> B (fst (fst (handle_method cfg fx s c h m))).
Hypothesis B_delconn : forall s c, B s -> B (s <| conns := adel N.eqb c (conns s) |>).
Hypothesis B_finish : forall s c h u ch, Q s -> get_chan s c h = Some ch -> ch_cur ch = Some u -> B s -> B (fst (finish_publish fx s c h u)).
Hypothesis B_drop : forall s c h ch, get_chan s c h = Some ch -> B s -> B (set_chan s c h (ch <| ch_cur := None |>)).
Hypothesis B_tick : forall s, B s -> B (fst (step cfg fx s LPersistTick)).
Hypothesis B_relay : forall s, B s -> B (fst (step cfg fx s LRelay)).
Hypothesis B_ctick : forall s c h, B s -> B (fst (step cfg fx s (LConfirmTick c h))).
Hypothesis B_newconn : forall s c cn, Cok c -> get_conn s c = None -> cn_chans cn = [(0, channel0)] -> conn_unnamed s c -> B s ->
                                      B (s <| conns := aset N.eqb c cn (conns s) |>).
Hypothesis B_restart : forall s, B s -> B (fst (restart cfg s)).

Lemma B_vld P s0 s : vld P s0 s -> B s0 -> B s.
Proof. intros H Hb. induction H; [eapply B_vle; eauto|eapply B_drop; eauto|eapply B_vle; eauto]. Qed.
Lemma B_conn_close s c : B s -> B (fst (conn_close cfg fx s c)).
Proof.
  intros Hb. unfold conn_close. destruct (get_conn s c) as [cn|]; [|exact Hb].
  set (s1 := fold_left _ _ s).
  assert (H1 : B s1) by (subst s1; eapply B_vld; [apply D_close_fold|exact Hb]).
  clearbody s1.
  pose proof (V_delete_fold s1 (negb (fx_delete_checks_first fx))
                (map fst (filter (fun kv => q_excl (snd kv) && (q_owner (snd kv) =? c)) (queues s1))) s1 [] (vle_refl s1)) as Hd.
  destruct (fold_left _ _ (s1, [])) as [s2 e2]. cbn [fst] in *. apply B_delconn. eapply B_vle; eauto.
Qed.
Lemma B_apply_err s c h r : B (fst (fst r)) -> B (fst (apply_err s c h r)).
Proof. intros Hb. eapply B_vle; [|exact Hb]. apply V_apply_err. apply vle_refl. Qed.
Lemma B_apply_err_st opened s c h r : B (fst (fst r)) -> B (fst (apply_err_st cfg fx opened s c h r)).
Proof.
  intros H. unfold apply_err_st. destruct opened; [apply B_apply_err; auto|].
  destruct (snd r) as [[| ]|]; try (apply B_apply_err; auto).
  pose proof (B_apply_err s c h r H) as H1. destruct (apply_err s c h r) as [s1 e1]. cbn [fst] in H1.
  pose proof (B_conn_close s1 c H1) as H2. destruct (conn_close cfg fx s1 c) as [s2 e2]. exact H2.
Qed.
Lemma B_handle_method s c h m : (fx_discard_closing fx = true -> not_closing s c h) \/ confirm_method m = false -> B s -> B (fst (fst (handle_method cfg fx s c h m))).
Proof.
  intros Hnc Hb. destruct (confirm_method m) eqn:Hcm.
  - apply B_method; auto. destruct Hnc as [Hnc|Hnc]; [exact Hnc|discriminate].
  - eapply B_vld; [|exact Hb]. apply D_handle_method. exact Hcm.
Qed.

Lemma exchanges_ensure_chan s c h : exchanges (ensure_chan s c h) = exchanges s.
Proof. unfold ensure_chan. destruct (get_conn s c) as [cn|]; [|reflexivity]. destruct (alookup _ _ _); reflexivity. Qed.
Lemma exchanges_upd_msg s u f : exchanges (upd_msg s u f) = exchanges s.
Proof. unfold upd_msg. destruct (get_msg s u); reflexivity. Qed.

Definition conn_ok (l : label) : Prop := match l with LConnect c | LAccept c => Cok c | _ => True end.
Lemma B_step s l : Q s -> conn_ok l -> B s -> fresh_step s l -> B (fst (step cfg fx s l)).
Proof.
  intros Hq Hcok Hb Hfr. destruct l; cbn [step].
  - (* LConnect *)
    destruct (get_conn s c) eqn:Ec; cbn [fst]; [exact Hb|]. apply B_newconn; auto.
  - (* LMethod *)
    destruct (get_conn s c) as [cn0|]; [|exact Hb].
    destruct (negb _ && negb _)%bool; [apply B_conn_close; auto|].
    pose proof (B_ensure s c h Hb) as B0. set (s1 := ensure_chan s c h) in *.
    assert (Hgen : forall m', is_conn_class m' = false \/ confirm_method m' = false ->
      B (fst (let closing := match get_chan s1 c h with Some ch => match ch_status ch with ChClosing => true | _ => false end | None => false end in
        if fx_discard_closing fx && closing && negb (is_chan_close m') then (s1, [])
        else if fx_stage fx && negb (Bool.eqb (is_conn_class m') (h =? 0))
             then apply_err_st cfg fx (cstage_eqb (cn_stage cn0) StOpen) s1 c h (refuse s1 (ConnErr CommandInvalid (fst (meth_ids m')) (snd (meth_ids m'))))
             else if fx_stage fx && negb (stage_allows (cn_stage cn0) m')
                  then apply_err_st cfg fx (cstage_eqb (cn_stage cn0) StOpen) s1 c h (refuse s1 (ConnErr CommandInvalid (fst (meth_ids m')) (snd (meth_ids m'))))
                  else if fx_chan_open fx && negb (is_conn_class m') && negb (chan_usable s1 c h) && negb (match m' with MChannelOpen => true | _ => false end)
                       then apply_err s1 c h (refuse s1 (ConnErr ChannelErr (fst (meth_ids m')) (snd (meth_ids m'))))
                       else apply_err_st cfg fx (cstage_eqb (cn_stage cn0) StOpen) s1 c h (handle_method cfg fx s1 c h m')))).
    { intros m' Hm'. cbv zeta.
      assert (Hd : fx_discard_closing fx = true \/ fx_discard_closing fx = false) by (destruct (fx_discard_closing fx); auto).
      destruct Hd as [Hdisc|Hdisc]; rewrite Hdisc; cbn [andb].
      2:{ repeat match goal with |- context [if ?b then _ else _] => destruct b end;
            first [ exact B0 | apply B_apply_err; exact B0 | apply B_apply_err_st; exact B0 | idtac ].
          apply B_apply_err_st. apply B_handle_method; auto. left. intros; congruence. }
      destruct (match get_chan s1 c h with Some ch => match ch_status ch with ChClosing => true | _ => false end | None => false end) eqn:Ecl; cbn [andb].
      - destruct (negb (is_chan_close m')) eqn:Ecc; [exact B0|].
        repeat match goal with |- context [if ?b then _ else _] => destruct b end;
          first [ apply B_apply_err; exact B0 | apply B_apply_err_st; exact B0 | idtac ].
        apply B_apply_err_st. apply B_handle_method; auto. right. destruct m'; try discriminate; reflexivity.
      - repeat match goal with |- context [if ?b then _ else _] => destruct b end;
          first [ exact B0 | apply B_apply_err; exact B0 | apply B_apply_err_st; exact B0 | idtac ].
        apply B_apply_err_st. apply B_handle_method; auto. left. intros _ ch Hg. rewrite Hg in Ecl. destruct (ch_status ch); congruence. }
    destruct m; try (apply Hgen; first [left; reflexivity|right; reflexivity]).
    + destruct (fx_stage fx && negb (h =? 0)); [apply B_apply_err; exact B0|].
      pose proof (B_conn_close s1 c B0) as Hc. destruct (conn_close cfg fx s1 c) as [s2 e2]. exact Hc.
    + destruct (fx_stage fx && negb (h =? 0)); [apply B_apply_err; exact B0|]. apply B_conn_close; auto.
  - (* LHeader *)
    destruct (get_conn s c) as [cn0|]; [|exact Hb].
    destruct (negb _ && negb _)%bool; [apply B_conn_close; auto|].
    pose proof (B_ensure s c h Hb) as B0. set (s1 := ensure_chan s c h) in *.
    destruct (get_chan s1 c h) as [ch|] eqn:Hgc; [|exact B0].
    destruct (_ && _)%bool; [exact B0|].
    destruct (ch_cur ch) as [u|] eqn:Ecur; [|apply B_apply_err_st; exact B0].
    destruct (get_msg s1 u) as [m|]; [|exact B0].
    destruct (m_has_header m); [apply B_apply_err_st; exact B0|].
    set (s2 := upd_msg s1 u _).
    assert (B2 : B s2) by (apply (B_vle s1); auto; subst s2; apply vle_upd_msg; intros; reflexivity).
    destruct (_ && _)%bool; [|exact B2].
    apply (B_finish s2 c h u ch); auto; [|subst s2; unfold upd_msg; destruct (get_msg s1 u); exact Hgc].
    apply (Q_frame s); auto; subst s2 s1; [rewrite queues_upd_msg; apply queues_ensure_chan|rewrite exchanges_upd_msg; apply exchanges_ensure_chan].
  - (* LBody *)
    destruct (get_conn s c) as [cn0|]; [|exact Hb].
    destruct (negb _ && negb _)%bool; [apply B_conn_close; auto|].
    pose proof (B_ensure s c h Hb) as B0. set (s1 := ensure_chan s c h) in *.
    destruct (get_chan s1 c h) as [ch|] eqn:Hgc; [|exact B0].
    destruct (_ && _)%bool; [exact B0|].
    destruct (ch_cur ch) as [u|] eqn:Ecur; [|apply B_apply_err_st; exact B0].
    destruct (get_msg s1 u) as [m|]; [|exact B0].
    destruct (negb (m_has_header m)); [apply B_apply_err_st; exact B0|].
    destruct (_ <? _).
    { apply B_apply_err_st. cbn [fst refuse]. unfold upd_chan. rewrite Hgc. apply B_drop; auto. }
    set (s2 := upd_msg s1 u _).
    assert (B2 : B s2) by (apply (B_vle s1); auto; subst s2; apply vle_upd_msg; intros; reflexivity).
    destruct (_ <? _); [exact B2|].
    apply (B_finish s2 c h u ch); auto; [|subst s2; unfold upd_msg; destruct (get_msg s1 u); exact Hgc].
    apply (Q_frame s); auto; subst s2 s1; [rewrite queues_upd_msg; apply queues_ensure_chan|rewrite exchanges_upd_msg; apply exchanges_ensure_chan].
  - eapply B_vle; [|exact Hb]. apply V_consumer_turn. apply vle_refl.
  - cbn [fst]. eapply B_vle; [|exact Hb]. apply V_queue_loop_turn. apply vle_refl.
  - destruct (autodel s) as [|qn rest]; [exact Hb|].
    assert (H0 : vle s (s <| autodel := rest |>)) by (vs; apply vle_refl).
    destruct (get_queue _ qn) as [qu0|]; [|eapply B_vle; eauto]. destruct (q_autodel qu0); [|eapply B_vle; eauto].
    pose proof (V_vhost_delete_queue s (negb (fx_delete_checks_first fx)) _ qn true false H0) as Hd.
    destruct (vhost_delete_queue _ (s <| autodel := rest |>) qn true false) as [[s1 e1] r1]. eapply B_vle; eauto.
  - apply B_tick; auto.
  - apply B_relay; auto.
  - apply B_ctick; auto.
  - pose proof (B_conn_close s c Hb) as Hc. destruct (conn_close cfg fx s c) as [s1 e1]. exact Hc.
  - (* LAccept *)
    destruct (get_conn s c) eqn:Ec; cbn [fst]; [exact Hb|]. apply B_newconn; auto.
  - (* LBadMethod *)
    destruct (get_conn s c) as [cn0|]; [|exact Hb].
    destruct (negb _ && negb _)%bool; [apply B_conn_close; auto|].
    apply B_apply_err_st. cbn [fst refuse]. apply B_ensure; auto.
  - destruct (get_conn s c); [|exact Hb]. destruct (h =? 0); [exact Hb|apply B_conn_close; auto].
  - apply B_restart; auto.
Qed.
End StepInv.

(* ------------------------------------------------------------------ *)
(* NEVER EARLY: the units of a message *)
Definition pend (s : state) (u : N) : Z := Z.of_nat (pending s u).
Definition Keys (s : state) : Prop := NoDup (map fst (heap s)).
Definition SA (s : state) : Prop := forall k, In k (st_add s) -> fst k < next_uid s.
(* the message being assembled on a channel was numbered in confirm mode and has not been routed *)
Definition C1 (s : state) : Prop := forall c h ch u m,
  get_chan s c h = Some ch -> ch_cur ch = Some u -> get_msg s u = Some m -> m_conf m <> None ->
  ch_confirm ch = true /\ m_expected m = 0%Z.
(* counted units and units pending in the store never exceed the number of queues the message was routed to *)
Definition Umax (s : state) : Prop := forall u m, In (u, m) (heap s) -> m_conf m <> None ->
  (0 <= m_actual m /\ m_actual m + pend s u <= m_expected m)%Z.
(* a number that was handed to its channel (confirm queue) or is on its way there (relay) belongs to a message all of
   whose units are counted *)
Definition NE (s : state) : Prop := forall c h ch t,
  get_chan s c h = Some ch -> In t (ch_confirmq ch ++ relay_part s c h) ->
  exists u m, In (u, m) (heap s) /\ m_conf m = Some (c, h, t) /\ m_inst m = ch_inst ch /\ m_actual m = m_expected m.
Record Units (s : state) : Prop := {
  un_aux : Aux s; un_keys : Keys s; un_sa : SA s; un_c1 : C1 s; un_max : Umax s; un_ne : NE s }.

Lemma keys_lookup s u m : Keys s -> In (u, m) (heap s) -> get_msg s u = Some m.
Proof.
  unfold Keys, get_msg. induction (heap s) as [|[k v] r IH]; cbn; [tauto|]. intros Hnd [E|Hin].
  - inversion E; subst. rewrite N.eqb_refl. reflexivity.
  - inversion Hnd as [|? ? Hni Hnd']; subst. destruct (u =? k) eqn:Eu; [|auto].
    apply N.eqb_eq in Eu. subst. exfalso. apply Hni. apply (in_map fst) in Hin. exact Hin.
Qed.
Lemma map_fst_pmap {P} (pr : msg -> P) l : map fst (pmap pr l) = map fst l.
Proof. unfold pmap. rewrite map_map. reflexivity. Qed.

Lemma relay_part_vla s0 s c h : vla s0 s -> relay_part s c h = relay_part s0 c h.
Proof.
  intros [A B C D E]. rewrite !relay_part_RP, D. rewrite (RP_mv _ _ _ (heap s) (heap s0)) by exact C.
  specialize (A c h). unfold chan_le in A. unfold chan_inst.
  destruct (get_chan s0 c h) as [ch0|], (get_chan s c h) as [ch|]; try tauto.
  destruct A as [Ew _]. inversion Ew. congruence.
Qed.

Lemma Units_vle s0 s : vle s0 s -> Units s0 -> Units s.
Proof.
  intros Hv [Ha Hk Hs Hc Hu Hn]. pose proof Hv as [A B C D E F].
  constructor.
  - eapply Aux_mid; [apply vle_mid; exact Hv|exact Ha].
  - unfold Keys in *. rewrite <- (map_fst_pmap mv (heap s)). change (pmap mv (heap s)) with (hview s). rewrite C.
    change (hview s0) with (pmap mv (heap s0)). rewrite map_fst_pmap. exact Hk.
  - intros k Hin. rewrite F in Hin. rewrite E. auto.
  - intros c h ch u m Hg Hcur Hgm Hcf. specialize (A c h). unfold chan_le in A. rewrite Hg in A.
    destruct (get_chan s0 c h) as [ch0|] eqn:Hg0; [|tauto]. destruct A as [Ew _]. inversion Ew as [[E1 E2 E3 E4 E5 E6]].
    pose proof (proj_lookup mv _ _ C u) as Hl. unfold get_msg in Hgm. rewrite Hgm in Hl. cbn in Hl.
    destruct (alookup N.eqb u (heap s0)) as [m0|] eqn:Hg0m; [|discriminate]. cbn in Hl. inversion Hl as [[F1 F2 F3 F4]].
    rewrite E6 in Hcur. rewrite F1 in Hcf. destruct (Hc c h ch0 u m0 Hg0 Hcur Hg0m Hcf) as [X Y]. rewrite E1, F3. auto.
  - intros u m Hin Hcf. destruct (proj_in mv _ _ u m C Hin) as (m0 & Hin0 & Epr). inversion Epr as [[F1 F2 F3 F4]].
    assert (Hcf0 : m_conf m0 <> None) by congruence. specialize (Hu u m0 Hin0 Hcf0).
    assert (X1 : m_actual m = m_actual m0) by congruence. assert (X2 : m_expected m = m_expected m0) by congruence.
    unfold pend, pending in *. rewrite F. exact Hu.
  - intros c h ch t Hg Hin. rewrite (relay_part_vla s0 s c h (vle_vla _ _ Hv)) in Hin.
    specialize (A c h). unfold chan_le in A. rewrite Hg in A.
    destruct (get_chan s0 c h) as [ch0|] eqn:Hg0; [|tauto]. destruct A as [Ew _]. inversion Ew as [[E1 E2 E3 E4 E5 E6]].
    rewrite E4 in Hin. destruct (Hn c h ch0 t Hg0 Hin) as (u & m0 & Hin0 & G1 & G2 & G3).
    destruct (proj_in mv _ _ u m0 (eq_sym C) Hin0) as (m & Hinm & Epr). inversion Epr as [[F1 F2 F3 F4]].
    exists u, m. repeat split; auto; congruence.
Qed.

(* steps that only touch channel records: each record of the new state is the old one up to status, mode and ticker,
   possibly with a shorter confirm queue or without its current message - or it is blank *)
Definition cstep (s s' : state) : Prop :=
  heap s' = heap s /\ relay s' = relay s /\ st_add s' = st_add s /\ next_uid s' = next_uid s /\
  forall c h ch', get_chan s' c h = Some ch' ->
    (exists ch, get_chan s c h = Some ch /\ incl (ch_confirmq ch') (ch_confirmq ch) /\ ch_inst ch' = ch_inst ch /\
                (ch_cur ch' = ch_cur ch \/ ch_cur ch' = None) /\ (ch_confirm ch = true -> ch_confirm ch' = true)) \/
    (ch_confirmq ch' = [] /\ ch_cur ch' = None /\ relay_part s' c h = []).

Lemma Units_cstep s s' : Aux s' -> cstep s s' -> Units s -> Units s'.
Proof.
  intros Ha' (E1 & E2 & E3 & E4 & Hch) [Ha Hk Hs Hc Hu Hn]. constructor; auto.
  - unfold Keys. rewrite E1. exact Hk.
  - intros k Hin. rewrite E3 in Hin. rewrite E4. auto.
  - intros c h ch' u m Hg Hcur Hgm Hcf. destruct (Hch c h ch' Hg) as [(ch & Hg0 & _ & _ & Hcu & Hcm)|(_ & X & _)]; [|congruence].
    destruct Hcu as [Hcu|Hcu]; [|congruence]. rewrite Hcu in Hcur. unfold get_msg in Hgm. rewrite E1 in Hgm.
    destruct (Hc c h ch u m Hg0 Hcur Hgm Hcf) as [X Y]. auto.
  - intros u m Hin Hcf. rewrite E1 in Hin. unfold pend, pending. rewrite E3. exact (Hu u m Hin Hcf).
  - intros c h ch' t Hg Hin. destruct (Hch c h ch' Hg) as [(ch & Hg0 & Hq & Hi & _ & _)|(X & _ & Y)].
    + assert (Hrp : relay_part s' c h = relay_part s c h).
      { rewrite !relay_part_RP, E1, E2. unfold chan_inst. rewrite Hg, Hg0, Hi. reflexivity. }
      rewrite Hrp in Hin. assert (Hin0 : In t (ch_confirmq ch ++ relay_part s c h)).
      { apply in_app_or in Hin. apply in_or_app. destruct Hin as [H|H]; [left; apply Hq; exact H|right; exact H]. }
      destruct (Hn c h ch t Hg0 Hin0) as (u & m & A & B & C & D). exists u, m. rewrite E1, Hi. auto.
    + rewrite X, Y in Hin. destruct Hin.
Qed.

Lemma NE_transfer s s' :
  heap s' = heap s ->
  (forall c h ch', get_chan s' c h = Some ch' -> exists ch, get_chan s c h = Some ch /\ ch_inst ch' = ch_inst ch /\
       incl (ch_confirmq ch' ++ relay_part s' c h) (ch_confirmq ch ++ relay_part s c h)) ->
  NE s -> NE s'.
Proof.
  intros Eh Hch Hn c h ch' t Hg Hin. destruct (Hch c h ch' Hg) as (ch & Hg0 & Hi & Hincl).
  destruct (Hn c h ch t Hg0 (Hincl t Hin)) as (u & m & A & B & C & D). exists u, m. rewrite Eh, Hi. auto.
Qed.

Lemma RP_incl_tail oi c h hp u rest : incl (RP oi c h hp rest) (RP oi c h hp (u :: rest)).
Proof. change (u :: rest) with ([u] ++ rest). rewrite RP_app. apply incl_appr. apply incl_refl. Qed.

Lemma Units_relay cfg fx s : Units s -> Units (fst (step cfg fx s LRelay)).
Proof.
  intros Hu. pose proof (Aux_mid _ _ (relay_step_mid cfg fx s) (un_aux _ Hu)) as Ha'. revert Ha'.
  destruct Hu as [Ha Hk Hs Hc Hm Hn]. cbn [step]. destruct (relay s) as [|u rest] eqn:Er; [intros; constructor; auto|].
  assert (Hdrop : Aux (s <| relay := rest |>) -> Units (s <| relay := rest |>)).
  { intros Ha'. constructor; auto. apply (NE_transfer s); auto. intros c h ch' Hg. exists ch'. split; [exact Hg|split; auto].
    apply incl_app; [apply incl_appl, incl_refl|apply incl_appr]. rewrite !relay_part_RP. cbn [relay heap set]. rewrite Er.
    change (chan_inst (s <| relay := rest |>) c h) with (chan_inst s c h). apply RP_incl_tail. }
  change (get_msg (s <| relay := rest |>) u) with (get_msg s u).
  destruct (get_msg s u) as [m|] eqn:Hgm; cbn [fst]; [|exact Hdrop].
  destruct (m_conf m) as [[[c0 h0] t0]|] eqn:Ecf; cbn [fst]; [|exact Hdrop].
  set (s1 := s <| relay := rest |>) in *.
  destruct (add_confirm_cases s1 c0 h0 (live_conf s1 m)) as [Es|(ch & c1 & h1 & t & Elive & Hgc & Es)]; rewrite Es; [exact Hdrop|].
  intros Ha'. unfold live_conf in Elive. rewrite Ecf, Hgc in Elive. destruct (ch_inst ch =? m_inst m) eqn:Ei; [|discriminate].
  inversion Elive; subst c1 h1 t0. apply N.eqb_eq in Ei.
  set (ch2 := ch <| ch_confirmq ::= fun l => l ++ [t] |>) in *.
  destruct (set_chan_frame s1 c0 h0 ch2) as (F1 & F2 & F3 & F4 & _).
  assert (Hgc0 : get_chan s c0 h0 = Some ch) by exact Hgc.
  pose proof (get_chan_conn _ _ _ _ Hgc) as Hcn. destruct (get_conn s1 c0) as [cn|] eqn:Ecn; [|congruence]. clear Hcn.
  constructor; auto.
  - unfold Keys. rewrite F1. exact Hk.
  - intros k Hin. rewrite F4 in Hin. rewrite F3. apply Hs. exact Hin.
  - intros c h ch' u' m' Hg Hcur Hgm' Hcf. rewrite get_msg_set_chan in Hgm'. rewrite get_chan_set_chan, Ecn in Hg.
    destruct ((c =? c0) && (h =? h0)) eqn:Eb.
    + apply andb_prop in Eb. destruct Eb as [E1 E2]. apply N.eqb_eq in E1, E2. subst c h. inversion Hg; subst ch'.
      exact (Hc c0 h0 ch u' m' Hgc0 Hcur Hgm' Hcf).
    + exact (Hc c h ch' u' m' Hg Hcur Hgm' Hcf).
  - intros u' m' Hin Hcf. rewrite F1 in Hin. unfold pend, pending. rewrite F4. exact (Hm u' m' Hin Hcf).
  - apply (NE_transfer s); auto. intros c h ch' Hg. rewrite get_chan_set_chan, Ecn in Hg.
    assert (Hrp : incl (relay_part (set_chan s1 c0 h0 ch2) c h) (relay_part s c h)).
    { rewrite !relay_part_RP, F1, F2. rewrite (chan_inst_set_chan s1 c0 h0 ch ch2 c h Hgc eq_refl). cbn [relay heap set s1]. rewrite Er.
      change (chan_inst s1 c h) with (chan_inst s c h). apply RP_incl_tail. }
    destruct ((c =? c0) && (h =? h0)) eqn:Eb.
    + apply andb_prop in Eb. destruct Eb as [E1 E2]. apply N.eqb_eq in E1, E2. subst c h. inversion Hg; subst ch'.
      exists ch. split; [exact Hgc0|split; [reflexivity|]]. cbn [ch_confirmq set ch2].
      intros x Hx. apply in_app_or in Hx. destruct Hx as [Hx|Hx]; [|apply in_or_app; right; apply Hrp; exact Hx].
      apply in_app_or in Hx. destruct Hx as [Hx|[Hx|[]]]; [apply in_or_app; left; exact Hx|]. subst x.
      apply in_or_app. right. rewrite relay_part_RP, Er. unfold RP. cbn [flat_map]. apply in_or_app. left.
      unfold get_msg in Hgm. rewrite Hgm. unfold rp, chan_inst. rewrite Ecf, Hgc0, !N.eqb_refl. cbn [andb oN_eqb]. rewrite Ei, N.eqb_refl. left. reflexivity.
    + exists ch'. split; [exact Hg|split; [reflexivity|]]. apply incl_app; [apply incl_appl, incl_refl|apply incl_appr; exact Hrp].
Qed.

(* channel-record steps *)
Lemma Units_ensure s c h : Units s -> Units (ensure_chan s c h).
Proof.
  intros Hu. destruct (ensure_chan_tr s c h [] (un_aux _ Hu) eq_refl) as [Ha' _]. apply (Units_cstep s); auto.
  unfold ensure_chan. destruct (get_conn s c) as [cn|] eqn:Ecn; [|repeat split; auto; intros; left; eexists; repeat split; eauto using incl_refl].
  destruct (alookup N.eqb h (cn_chans cn)) as [ch|] eqn:Ech; [repeat split; auto; intros; left; eexists; repeat split; eauto using incl_refl|].
  repeat split; auto. intros c' h' ch' Hg.
  set (s1 := s <| conns := _ |>) in *.
  assert (Hgc : get_chan s1 c' h' = if (c' =? c) && (h' =? h) then Some channel0 else get_chan s c' h').
  { unfold s1, get_chan, get_conn. cbn. rewrite (alookup_aset N.eqb Neqb_spec). destruct (c' =? c) eqn:E1; cbn.
    - rewrite (alookup_aset N.eqb Neqb_spec). apply N.eqb_eq in E1. subst c'. unfold get_conn in Ecn. rewrite Ecn. destruct (h' =? h); reflexivity.
    - reflexivity. }
  rewrite Hgc in Hg. destruct ((c' =? c) && (h' =? h)) eqn:Eb; [|left; exists ch'; repeat split; auto using incl_refl].
  apply andb_prop in Eb. destruct Eb as [E1 E2]. apply N.eqb_eq in E1, E2. subst c' h'. inversion Hg; subst ch'. right. repeat split.
  rewrite relay_part_RP.
  assert (Hnone : get_chan s c h = None) by (unfold get_chan; rewrite Ecn; exact Ech).
  apply (no_msgs_parts (heap s) _ c h 0 (relay s)). intros u m t Hin Ecf. exfalso.
  destruct (aux_msg _ (un_aux _ Hu) u m Hin) as [_ Hk]. destruct (Hk c h t Ecf) as [Hx|(ch & Hx & _)]; congruence.
Qed.

Lemma Units_delconn s c : Units s -> Units (s <| conns := adel N.eqb c (conns s) |>).
Proof.
  intros Hu. destruct (del_conn_tr s c [] (un_aux _ Hu) eq_refl) as [Ha' _]. apply (Units_cstep s); auto.
  repeat split; auto. intros c' h' ch' Hg. rewrite get_chan_del_conn in Hg. destruct (c' =? c); [discriminate|].
  left. exists ch'. repeat split; auto using incl_refl.
Qed.

Lemma Units_newconn s c cn : get_conn s c = None -> cn_chans cn = [(0, channel0)] -> conn_unnamed s c -> Units s ->
  Units (s <| conns := aset N.eqb c cn (conns s) |>).
Proof.
  intros Ecn Hch Hfresh Hu. destruct (new_conn_tr s c cn [] Ecn Hch Hfresh (un_aux _ Hu) eq_refl) as [Ha' _].
  apply (Units_cstep s); auto. repeat split; auto. intros c' h' ch' Hg.
  set (s1 := s <| conns := _ |>) in *.
  assert (Hgc : get_chan s1 c' h' = if c' =? c then (if h' =? 0 then Some channel0 else None) else get_chan s c' h').
  { unfold s1, get_chan, get_conn. cbn. rewrite (alookup_aset N.eqb Neqb_spec). destruct (c' =? c) eqn:E1; [|reflexivity].
    rewrite Hch. cbn. destruct (h' =? 0); reflexivity. }
  rewrite Hgc in Hg. destruct (c' =? c) eqn:E1; [|left; exists ch'; repeat split; auto using incl_refl].
  apply N.eqb_eq in E1. subst c'. destruct (h' =? 0); [|discriminate]. inversion Hg; subst ch'. right. repeat split.
  rewrite relay_part_RP. apply (no_msgs_parts (heap s) _ c h' 0 (relay s)). intros u m t Hin Ecf. exfalso. exact (Hfresh u m h' t Hin Ecf).
Qed.

(* set_chan with a record that differs from the old one in status, mode, ticker, a shorter queue, or by dropping the
   current message *)
Lemma Units_set_chan s c h ch ch' :
  get_chan s c h = Some ch -> incl (ch_confirmq ch') (ch_confirmq ch) -> ch_inst ch' = ch_inst ch -> ch_ctag ch <= ch_ctag ch' ->
  (ch_cur ch' = ch_cur ch \/ ch_cur ch' = None) -> (ch_confirm ch = true -> ch_confirm ch' = true) ->
  Units s -> Units (set_chan s c h ch').
Proof.
  intros Hg Hq Hi Hc Hcur Hcf Hu. pose proof (Aux_set_chan s c h ch ch' Hg Hi Hc Hcur (un_aux _ Hu)) as Ha'.
  apply (Units_cstep s); auto. destruct (set_chan_frame s c h ch') as (F1 & F2 & F3 & F4 & _). repeat split; auto.
  intros c' h' ch1 Hg1. rewrite get_chan_set_chan in Hg1. pose proof (get_chan_conn _ _ _ _ Hg) as Hcn. destruct (get_conn s c); [|congruence].
  destruct ((c' =? c) && (h' =? h)) eqn:Eb; [|left; exists ch1; repeat split; auto using incl_refl].
  apply andb_prop in Eb. destruct Eb as [E1 E2]. apply N.eqb_eq in E1, E2. subst c' h'. inversion Hg1; subst ch1.
  left. exists ch. repeat split; auto.
Qed.

Lemma Units_ctick cfg fx s c h : Units s -> Units (fst (step cfg fx s (LConfirmTick c h))).
Proof.
  intros Hu. cbn [step]. destruct (get_chan s c h) as [ch|] eqn:Hg; [|exact Hu].
  destruct (negb (ch_ticker ch)); [exact Hu|].
  destruct (ch_status ch); cbn [fst]; apply (Units_set_chan s c h ch); auto using incl_refl, N.le_refl; cbn; intros x [].
Qed.

Lemma Units_drop s c h ch : get_chan s c h = Some ch -> Units s -> Units (set_chan s c h (ch <| ch_cur := None |>)).
Proof. intros Hg Hu. apply (Units_set_chan s c h ch); auto using incl_refl, N.le_refl. Qed.

Lemma Units_reset s c h ch ch' :
  get_chan s c h = Some ch -> ch_inst ch' = N.succ (ch_inst ch) -> ch_confirmq ch' = [] -> ch_cur ch' = None ->
  Units s -> Units (set_chan s c h ch').
Proof.
  intros Hg Ei Eq Ecur Hu. destruct (reset_tr s c h ch ch' [] Hg Ei Eq Ecur (un_aux _ Hu) eq_refl) as [Ha' _].
  apply (Units_cstep s); auto. destruct (set_chan_frame s c h ch') as (F1 & F2 & F3 & F4 & _). repeat split; auto.
  intros c' h' ch1 Hg1. rewrite get_chan_set_chan in Hg1. pose proof (get_chan_conn _ _ _ _ Hg) as Hcn. destruct (get_conn s c) eqn:Ecn; [|congruence].
  destruct ((c' =? c) && (h' =? h)) eqn:Eb; [|left; exists ch1; repeat split; auto using incl_refl].
  apply andb_prop in Eb. destruct Eb as [E1 E2]. apply N.eqb_eq in E1, E2. subst c' h'. inversion Hg1; subst ch1.
  right. repeat split; auto. rewrite relay_part_RP, F1.
  apply (no_msgs_parts (heap s) _ c h (N.succ (ch_inst ch)) (relay (set_chan s c h ch'))). intros u m t Hin Ecf.
  destruct (aux_msg _ (un_aux _ Hu) u m Hin) as [_ Hk]. destruct (Hk c h t Ecf) as [Hx|(ch0 & Hx & Hy & _)]; [congruence|].
  rewrite Hg in Hx. inversion Hx; subst ch0. unfold chan_inst. rewrite (get_chan_set_chan_same s c h ch') by congruence. rewrite Ei.
  split; [intros Hz; inversion Hz; lia|lia].
Qed.

Lemma aset_new_app (l : list (N * msg)) u m : alookup N.eqb u l = None -> aset N.eqb u m l = l ++ [(u, m)].
Proof.
  induction l as [|[k v] r IH]; cbn; auto. destruct (u =? k); [discriminate|]. intros H. rewrite IH; auto.
Qed.
Lemma alookup_none_notin (l : list (N * msg)) u : alookup N.eqb u l = None -> ~ In u (map fst l).
Proof.
  induction l as [|[k v] r IH]; cbn; auto. destruct (u =? k) eqn:E; [discriminate|]. intros H [Hx|Hx]; [subst; rewrite N.eqb_refl in E; discriminate|].
  exact (IH H Hx).
Qed.

Lemma filter_lt_none (l : list (N * string)) u : (forall k, In k l -> fst k < u) -> filter (fun k : N * string => fst k =? u) l = [].
Proof.
  induction l as [|k r IH]; auto. intros H. cbn. destruct (fst k =? u) eqn:Ek.
  - apply N.eqb_eq in Ek. specialize (H k (or_introl eq_refl)). lia.
  - apply IH. intros k0 Hk0. apply H. right. exact Hk0.
Qed.
Lemma Units_publish s c h ch ch2 m :
  get_chan s c h = Some ch -> m_expected m = 0%Z -> m_actual m = 0%Z -> m_inst m = ch_inst ch ->
  ch_inst ch2 = ch_inst ch -> ch_confirmq ch2 = ch_confirmq ch -> ch_cur ch2 = Some (next_uid s) -> ch_confirm ch2 = ch_confirm ch ->
  ((m_conf m = None /\ ch_ctag ch2 = ch_ctag ch) \/ (m_conf m = Some (c, h, ch_ctag ch + 1) /\ ch_ctag ch2 = ch_ctag ch + 1 /\ ch_confirm ch = true)) ->
  Units s ->
  Units (set_chan (s <| heap := aset N.eqb (next_uid s) m (heap s) |> <| next_uid := next_uid s + 1 |>) c h ch2).
Proof.
  intros Hg Eex Eac Emi Ei Eq Ecur Ecm Hconf Hu.
  assert (Hconf' : (m_conf m = None /\ ch_ctag ch2 = ch_ctag ch) \/ (m_conf m = Some (c, h, ch_ctag ch + 1) /\ ch_ctag ch2 = ch_ctag ch + 1))
    by (destruct Hconf as [X|(X & Y & _)]; auto).
  destruct (publish_tr s c h ch ch2 m [] Hg Eex Eac Emi Ei Eq Ecur Hconf' (un_aux _ Hu) eq_refl) as [Ha' _].
  destruct Hu as [Ha Hk Hs Hc Hm Hn].
  set (u := next_uid s) in *. set (s1 := s <| heap := aset N.eqb u m (heap s) |> <| next_uid := u + 1 |>) in *.
  destruct (set_chan_frame s1 c h ch2) as (F1 & F2 & F3 & F4 & _). cbn [heap relay next_uid st_add set s1] in F1, F2, F3, F4.
  assert (Hfresh : alookup N.eqb u (heap s) = None).
  { destruct (alookup N.eqb u (heap s)) as [m0|] eqn:E; auto. apply (alookup_in N.eqb Neqb_spec) in E. destruct (aux_msg _ Ha u m0 E) as [Hx _]. unfold u in Hx. lia. }
  rewrite (aset_new_app _ _ _ Hfresh) in F1.
  pose proof (get_chan_conn _ _ _ _ Hg) as Hcn. destruct (get_conn s c) as [cn|] eqn:Ecn; [|congruence]. clear Hcn.
  assert (Ecn1 : get_conn s1 c = Some cn) by exact Ecn.
  assert (Hgc : forall c1 h1, get_chan (set_chan s1 c h ch2) c1 h1 = if (c1 =? c) && (h1 =? h) then Some ch2 else get_chan s c1 h1).
  { intros c1 h1. rewrite get_chan_set_chan, Ecn1. reflexivity. }
  assert (Hpend0 : pend s u = 0%Z).
  { unfold pend, pending. assert (E : filter (fun k : N * string => fst k =? u) (st_add s) = []); [|rewrite E; reflexivity].
    apply filter_lt_none. exact Hs. }
  assert (Hgm : forall u1, u1 <> u -> get_msg (set_chan s1 c h ch2) u1 = get_msg s u1).
  { intros u1 Hne. rewrite get_msg_set_chan. unfold get_msg, s1. cbn. rewrite (alookup_aset N.eqb Neqb_spec).
    apply N.eqb_neq in Hne. rewrite Hne. reflexivity. }
  constructor; auto.
  - unfold Keys. rewrite F1, map_app. cbn. apply NoDup_snoc; auto. apply alookup_none_notin. exact Hfresh.
  - intros k Hin. rewrite F4 in Hin. rewrite F3. specialize (Hs k Hin). unfold u. lia.
  - intros c1 h1 ch1 u1 m1 Hg1 Hcur1 Hgm1 Hcf1. rewrite Hgc in Hg1. destruct ((c1 =? c) && (h1 =? h)) eqn:Eb.
    + inversion Hg1; subst ch1. rewrite Ecur in Hcur1. inversion Hcur1; subst u1.
      rewrite get_msg_set_chan in Hgm1. unfold get_msg, s1 in Hgm1. cbn in Hgm1. rewrite (alookup_aset N.eqb Neqb_spec), N.eqb_refl in Hgm1.
      inversion Hgm1; subst m1. destruct Hconf as [[X _]|(_ & _ & X)]; [congruence|]. rewrite Ecm. auto.
    + destruct (aux_cur _ Ha c1 h1 ch1 Hg1 u1 Hcur1) as [Hlt _].
      rewrite Hgm in Hgm1 by (unfold u; lia). exact (Hc c1 h1 ch1 u1 m1 Hg1 Hcur1 Hgm1 Hcf1).
  - intros u1 m1 Hin Hcf1. rewrite F1 in Hin. unfold pend, pending. rewrite F4. apply in_app_or in Hin. destruct Hin as [Hin|[E|[]]].
    + exact (Hm u1 m1 Hin Hcf1).
    + inversion E; subst u1 m1. fold (pending s u). fold (pend s u). rewrite Eex, Eac, Hpend0. lia.
  - intros c1 h1 ch1 t Hg1 Hin.
    assert (Hrp : relay_part (set_chan s1 c h ch2) c1 h1 = relay_part s c1 h1).
    { rewrite !relay_part_RP, F2. rewrite get_msg_set_chan || idtac.
      assert (Eh : heap (set_chan s1 c h ch2) = aset N.eqb u m (heap s)) by (destruct (set_chan_frame s1 c h ch2) as (X & _); exact X).
      rewrite Eh, RP_aset_fresh by (intros x Hx; pose proof (aux_relay _ Ha x Hx); unfold u; lia).
      f_equal. unfold chan_inst. rewrite Hgc. destruct ((c1 =? c) && (h1 =? h)) eqn:Eb; auto.
      apply andb_prop in Eb. destruct Eb as [E1 E2]. apply N.eqb_eq in E1, E2. subst. rewrite Hg, Ei. reflexivity. }
    rewrite Hrp in Hin. rewrite Hgc in Hg1. destruct ((c1 =? c) && (h1 =? h)) eqn:Eb.
    + apply andb_prop in Eb. destruct Eb as [E1 E2]. apply N.eqb_eq in E1, E2. subst c1 h1. inversion Hg1; subst ch1.
      rewrite Eq in Hin. destruct (Hn c h ch t Hg Hin) as (u0 & m0 & A & B & C & D). exists u0, m0. rewrite F1, Ei.
      repeat split; auto. apply in_or_app. left. exact A.
    + destruct (Hn c1 h1 ch1 t Hg1 Hin) as (u0 & m0 & A & B & C & D). exists u0, m0. rewrite F1.
      repeat split; auto. apply in_or_app. left. exact A.
Qed.

Lemma Units_method cfg fx s c h m :
  confirm_method m = true -> Units s -> Units (fst (fst (handle_method cfg fx s c h m))).
Proof.
  intros Hcm Hu. unfold handle_method. destruct (get_chan s c h) as [ch|] eqn:Hch; [|exact Hu].
  destruct m; try discriminate; unfold ok, refuse.
  - destruct (ch_status ch) eqn:Est; cbn [fst]; auto.
    1,2: apply (Units_set_chan s c h ch); auto using incl_refl, N.le_refl.
    destruct (fx_reopen_resets fx).
    + apply (Units_reset s c h ch); auto.
    + apply (Units_set_chan s c h ch); auto using incl_refl, N.le_refl.
  - destruct imm; [exact Hu|]. destruct (alookup seqb ex (exchanges s)); [|exact Hu].
    destruct (ch_confirm ch) eqn:Ecf; cbn [fst].
    + apply (Units_publish s c h ch); auto. right. cbn. split; [reflexivity|split; [symmetry; apply N.add_1_r|exact Ecf]].
    + apply (Units_publish s c h ch); auto.
  - cbn [fst]. apply (Units_set_chan s c h ch); auto using incl_refl, N.le_refl.
Qed.

(* ------------------------------------------------------------------ *)
(* one push, in full *)
Lemma queue_push_spec s qn u m : get_msg s u = Some m ->
  conns (queue_push s qn u) = conns s /\ relay (queue_push s qn u) = relay s /\ next_uid (queue_push s qn u) = next_uid s /\
  ((heap (queue_push s qn u) = heap s /\ st_add (queue_push s qn u) = st_add s /\ (counted_flag s qn (m_pers m) = false \/ m_conf m = None)) \/
   (heap (queue_push s qn u) = heap s /\ st_add (queue_push s qn u) = st_add s ++ [(u, qn)] /\ counted_flag s qn (m_pers m) = false) \/
   (counted_flag s qn (m_pers m) = true /\ m_conf m <> None /\
    heap (queue_push s qn u) = aset N.eqb u (m <| m_actual ::= Z.succ |>) (heap s) /\ st_add (queue_push s qn u) = st_add s)).
Proof.
  intros Hm. unfold queue_push, counted_flag. destruct (get_queue s qn) as [qu|]; [|auto 10]. rewrite Hm.
  destruct (q_active qu); cbn [negb andb]; [|auto 10].
  destruct (q_durable qu && m_pers m); cbn [negb].
  - split; [reflexivity|split; [reflexivity|split; [reflexivity|]]]. right. left. auto.
  - destruct (m_conf m) eqn:Ec.
    + unfold upd_msg, get_msg in *. cbn. rewrite Hm. cbn.
      split; [reflexivity|split; [reflexivity|split; [reflexivity|]]]. right. right. repeat split; congruence.
    + split; [reflexivity|split; [reflexivity|split; [reflexivity|]]]. left. auto.
Qed.

Record push_spec (s s' : state) (c h u : N) (qn : string) (m m' : msg) (ch ch' : channel) : Prop := {
  ps_msg : get_msg s' u = Some m';
  ps_heap : heap s' = aset N.eqb u m' (heap s);
  ps_ci : ci m' = ci m; ps_pers : m_pers m' = m_pers m; ps_exp : m_expected m' = m_expected m;
  ps_relay : relay s' = relay s; ps_uid : next_uid s' = next_uid s;
  ps_chan : get_chan s' c h = Some ch';
  ps_other : forall c1 h1, (c1 =? c) && (h1 =? h) = false -> get_chan s' c1 h1 = get_chan s c1 h1;
  ps_conn : forall c1, get_conn s' c1 = None <-> get_conn s c1 = None;
  ps_inst : ch_inst ch' = ch_inst ch; ps_ctag : ch_ctag ch' = ch_ctag ch; ps_cur : ch_cur ch' = ch_cur ch;
  ps_cf : ch_confirm ch' = ch_confirm ch;
  ps_eff : (st_add s' = st_add s ++ [(u, qn)] /\ m_actual m' = m_actual m /\ ch_confirmq ch' = ch_confirmq ch) \/
           (st_add s' = st_add s /\ m_actual m' = m_actual m /\ ch_confirmq ch' = ch_confirmq ch) \/
           (st_add s' = st_add s /\ m_actual m' = Z.succ (m_actual m) /\ m_conf m <> None /\
            (ch_confirmq ch' = ch_confirmq ch \/
             exists t, m_conf m = Some (c, h, t) /\ ch_confirmq ch' = ch_confirmq ch ++ [t] /\ m_actual m' = m_expected m')) }.

Lemma push_one_spec s c h u pers has_meta qn m ch :
  get_msg s u = Some m -> m_pers m = pers -> (has_meta = true -> m_conf m <> None) ->
  (forall c0 h0 t, m_conf m = Some (c0, h0, t) -> c0 = c /\ h0 = h) -> get_chan s c h = Some ch ->
  exists m' ch', push_spec s (push_one s c h u pers has_meta qn) c h u qn m m' ch ch'.
Proof.
  intros Hm Hp Hmeta Hown Hgc. unfold push_one. fold (counted_flag s qn pers). rewrite <- Hp.
  destruct (queue_push_spec s qn u m Hm) as (A & C & D & Hcases).
  set (s1 := queue_push s qn u) in *.
  assert (Hgc1 : get_chan s1 c h = Some ch) by (rewrite (get_chan_same_conns _ _ _ _ A); exact Hgc).
  assert (Hoth : forall c1 h1, get_chan s1 c1 h1 = get_chan s c1 h1) by (intros; apply get_chan_same_conns; exact A).
  assert (Hcn : forall c1, get_conn s1 c1 = None <-> get_conn s c1 = None) by (intros c1; rewrite (get_conn_same_conns _ _ _ A); tauto).
  destruct Hcases as [(B & E & F)|[(B & E & F)|(F & Hcf & B & E)]].
  - assert (Hg1 : get_msg s1 u = Some m) by (unfold get_msg in *; rewrite B; exact Hm). rewrite Hg1.
    assert (Hno : has_meta && counted_flag s qn (m_pers m) = false).
    { destruct F as [F|F]; [rewrite F; apply andb_false_r|]. destruct has_meta; auto. exfalso. apply Hmeta; auto. }
    rewrite Hno. cbn [andb]. exists m, ch. constructor; auto.
    unfold get_msg in Hm. rewrite (aset_same _ _ _ Hm). exact B.
  - assert (Hg1 : get_msg s1 u = Some m) by (unfold get_msg in *; rewrite B; exact Hm). rewrite Hg1, F, andb_false_r. cbn [andb].
    exists m, ch. constructor; auto. unfold get_msg in Hm. rewrite (aset_same _ _ _ Hm). exact B.
  - set (m1 := m <| m_actual ::= Z.succ |>) in *.
    assert (Hg1 : get_msg s1 u = Some m1) by (unfold get_msg; rewrite B, (alookup_aset N.eqb Neqb_spec), N.eqb_refl; reflexivity).
    rewrite Hg1, F, andb_true_r.
    assert (Hplain : push_spec s s1 c h u qn m m1 ch ch).
    { constructor; auto. right. right. repeat split; auto. }
    destruct (has_meta && (m_actual m1 =? m_expected m1)%Z) eqn:Eadd; [|exists m1, ch; exact Hplain].
    apply andb_prop in Eadd. destruct Eadd as [_ Eadd]. apply Z.eqb_eq in Eadd.
    destruct (add_confirm_cases s1 c h (live_conf s1 m1)) as [Es|(ch1 & c0 & h0 & t & Elive & Hgcx & Es)]; rewrite Es; [exists m1, ch; exact Hplain|].
    rewrite Hgc1 in Hgcx. inversion Hgcx; subst ch1.
    unfold live_conf in Elive. change (m_conf m1) with (m_conf m) in Elive. change (m_inst m1) with (m_inst m) in Elive.
    destruct (m_conf m) as [[[c1 h1] t1]|] eqn:Ecf; [|discriminate].
    destruct (Hown c1 h1 t1 eq_refl) as [-> ->]. rewrite Hgc1 in Elive.
    destruct (ch_inst ch =? m_inst m); [|discriminate]. inversion Elive; subst c0 h0 t1.
    set (ch2 := ch <| ch_confirmq ::= fun l => l ++ [t] |>).
    destruct (set_chan_frame s1 c h ch2) as (F1 & F2 & F3 & F4 & _).
    pose proof (get_chan_conn _ _ _ _ Hgc1) as Hc1. destruct (get_conn s1 c) as [cn|] eqn:Ecn; [|congruence].
    exists m1, ch2. constructor; auto; try congruence.
    + rewrite get_msg_set_chan. exact Hg1.
    + rewrite get_chan_set_chan, Ecn, !N.eqb_refl. reflexivity.
    + intros c1 h1 Eb. rewrite get_chan_set_chan, Ecn, Eb. apply Hoth.
    + intros c1. rewrite get_conn_set_chan. apply Hcn.
    + right. right. repeat split; auto; try congruence. right. exists t. repeat split; auto.
Qed.

Lemma map_fst_aset_same (l : list (N * msg)) u m m' : alookup N.eqb u l = Some m -> map fst (aset N.eqb u m' l) = map fst l.
Proof.
  induction l as [|[k v] r IH]; cbn; [discriminate|]. destruct (u =? k) eqn:E; cbn.
  - intros _. apply N.eqb_eq in E. subst. reflexivity.
  - intros H. rewrite IH; auto.
Qed.
Lemma in_aset_keys (l : list (N * msg)) u m m' u0 m0 :
  NoDup (map fst l) -> alookup N.eqb u l = Some m -> In (u0, m0) (aset N.eqb u m' l) ->
  (u0 = u /\ m0 = m') \/ (u0 <> u /\ In (u0, m0) l).
Proof.
  induction l as [|[k v] r IH]; cbn; [discriminate|]. intros Hnd. inversion Hnd as [|? ? Hni Hnd']; subst.
  destruct (u =? k) eqn:E.
  - apply N.eqb_eq in E. subst k. intros _ [H|H]; [inversion H; auto|].
    right. split; [|right; exact H]. intros ->. apply Hni. apply (in_map fst) in H. exact H.
  - intros Hl [H|H].
    + inversion H; subst. right. split; [|left; reflexivity]. intros ->. rewrite N.eqb_refl in E. discriminate.
    + destruct (IH Hnd' Hl H) as [X|[X Y]]; auto.
Qed.
Lemma in_aset_other (l : list (N * msg)) u m' u0 m0 : In (u0, m0) l -> u0 <> u -> In (u0, m0) (aset N.eqb u m' l).
Proof.
  induction l as [|[k v] r IH]; cbn; [tauto|]. intros [H|H] Hne.
  - inversion H; subst. apply N.eqb_neq in Hne. rewrite (N.eqb_sym u u0), Hne. left. reflexivity.
  - destruct (u =? k); [right; exact H|right; apply IH; auto].
Qed.
Lemma in_aset_self (l : list (N * msg)) u m m' : alookup N.eqb u l = Some m -> In (u, m') (aset N.eqb u m' l).
Proof.
  induction l as [|[k v] r IH]; cbn; [discriminate|]. destruct (u =? k); [intros _; left; reflexivity|intros H; right; auto].
Qed.
Lemma pending_app_keys s s' (L : list (N * string)) u u0 :
  st_add s' = st_add s ++ L -> (forall k, In k L -> fst k = u) ->
  pend s' u0 = if u0 =? u then (pend s u + Z.of_nat (List.length L))%Z else pend s u0.
Proof.
  intros E HL. unfold pend, pending. rewrite E, filter_app, app_length, Nat2Z.inj_add.
  destruct (u0 =? u) eqn:Eu.
  - apply N.eqb_eq in Eu. subst u0. f_equal. f_equal. clear E. induction L as [|k r IH]; auto. cbn.
    rewrite (HL k (or_introl eq_refl)), N.eqb_refl. cbn. f_equal. apply IH. intros; apply HL; right; auto.
  - assert (X : filter (fun k : N * string => fst k =? u0) L = []).
    { clear E. induction L as [|k r IH]; auto. cbn. rewrite (HL k (or_introl eq_refl)), (N.eqb_sym u u0), Eu. apply IH. intros; apply HL; right; auto. }
    rewrite X. cbn. lia.
Qed.

Record fold_spec (s s' : state) (c h u : N) (n : nat) (m m' : msg) (ch ch' : channel) (L : list (N * string)) : Prop := {
  fs_msg : get_msg s' u = Some m';
  fs_heap : heap s' = aset N.eqb u m' (heap s);
  fs_ci : ci m' = ci m; fs_exp : m_expected m' = m_expected m;
  fs_relay : relay s' = relay s; fs_uid : next_uid s' = next_uid s;
  fs_chan : get_chan s' c h = Some ch';
  fs_other : forall c1 h1, (c1 =? c) && (h1 =? h) = false -> get_chan s' c1 h1 = get_chan s c1 h1;
  fs_conn : forall c1, get_conn s' c1 = None <-> get_conn s c1 = None;
  fs_inst : ch_inst ch' = ch_inst ch; fs_ctag : ch_ctag ch' = ch_ctag ch; fs_cur : ch_cur ch' = ch_cur ch;
  fs_cf : ch_confirm ch' = ch_confirm ch;
  fs_add : st_add s' = st_add s ++ L;
  fs_keys : forall k, In k L -> fst k = u;
  fs_mono : (m_actual m <= m_actual m')%Z;
  fs_bound : (m_actual m' + Z.of_nat (List.length L) <= m_actual m + Z.of_nat n)%Z;
  fs_q : ch_confirmq ch' = ch_confirmq ch \/
         exists t, m_conf m = Some (c, h, t) /\ ch_confirmq ch' = ch_confirmq ch ++ [t] /\ (m_actual m < m_expected m <= m_actual m')%Z }.

Lemma fold_push_spec c h u pers has_meta qs : forall s m ch,
  get_msg s u = Some m -> m_pers m = pers -> (has_meta = true -> m_conf m <> None) ->
  (forall c0 h0 t, m_conf m = Some (c0, h0, t) -> c0 = c /\ h0 = h) -> get_chan s c h = Some ch ->
  exists m' ch' L, fold_spec s (fold_left (fun s qn => push_one s c h u pers has_meta qn) qs s) c h u (List.length qs) m m' ch ch' L.
Proof.
  induction qs as [|qn r IH]; intros s m ch Hm Hp Hmeta Hown Hgc; cbn [fold_left List.length].
  - exists m, ch, []. constructor; auto; try tauto; try lia.
    + unfold get_msg in Hm. rewrite (aset_same _ _ _ Hm). reflexivity.
    + rewrite app_nil_r. reflexivity.
    + intros k [].
    + cbn. lia.
  - destruct (push_one_spec s c h u pers has_meta qn m ch Hm Hp Hmeta Hown Hgc) as (m1 & ch1 & P).
    set (s1 := push_one s c h u pers has_meta qn) in *.
    pose proof (ps_ci _ _ _ _ _ _ _ _ _ _ P) as Eci. inversion Eci as [[E1 E2]].
    assert (Hmeta1 : has_meta = true -> m_conf m1 <> None) by (rewrite E1; exact Hmeta).
    assert (Hown1 : forall c0 h0 t, m_conf m1 = Some (c0, h0, t) -> c0 = c /\ h0 = h) by (rewrite E1; exact Hown).
    assert (Hp1 : m_pers m1 = pers) by (rewrite (ps_pers _ _ _ _ _ _ _ _ _ _ P); exact Hp).
    destruct (IH s1 m1 ch1 (ps_msg _ _ _ _ _ _ _ _ _ _ P) Hp1 Hmeta1 Hown1 (ps_chan _ _ _ _ _ _ _ _ _ _ P)) as (m2 & ch2 & L2 & F).
    destruct P as [p1 p2 p3 p4 p5 p6 p7 p8 p9 p10 p11 p12 p13 p14 p15]. destruct F as [f1 f2 f3 f4 f5 f6 f7 f8 f9 f10 f11 f12 f13 f14 f15 f16 f17 f18].
    assert (Hh2 : aset N.eqb u m2 (heap s1) = aset N.eqb u m2 (heap s)).
    { rewrite p2. clear. induction (heap s) as [|[k v] t IH]; cbn; [rewrite N.eqb_refl; reflexivity|].
      destruct (u =? k) eqn:E; cbn; [rewrite N.eqb_refl; reflexivity|rewrite E, IH; reflexivity]. }
    assert (Hq : forall La, st_add s1 = st_add s ++ La -> (forall k, In k La -> fst k = u) ->
                 (m_actual m1 + Z.of_nat (List.length La) <= m_actual m + 1)%Z -> (m_actual m <= m_actual m1)%Z ->
                 (ch_confirmq ch1 = ch_confirmq ch \/ exists t, m_conf m = Some (c, h, t) /\ ch_confirmq ch1 = ch_confirmq ch ++ [t] /\ (m_actual m < m_expected m <= m_actual m1)%Z) ->
                 exists m' ch' L, fold_spec s (fold_left (fun s qn => push_one s c h u pers has_meta qn) r s1) c h u (S (List.length r)) m m' ch ch' L).
    { intros La Ea Hka Hba Hma Hqa. exists m2, ch2, (La ++ L2). constructor.
      - exact f1.
      - rewrite f2. exact Hh2.
      - congruence.
      - congruence.
      - congruence.
      - congruence.
      - exact f7.
      - intros c1 h1 Eb. rewrite f8, p9; auto.
      - intros c1. rewrite f9. apply p10.
      - congruence.
      - congruence.
      - congruence.
      - congruence.
      - rewrite f14, Ea, app_assoc. reflexivity.
      - intros k Hk. apply in_app_or in Hk. destruct Hk; auto.
      - lia.
      - rewrite app_length, Nat2Z.inj_add. lia.
      - destruct Hqa as [Hqa|(t & X & Y & Z)], f18 as [Hqb|(t' & X' & Y' & Z')].
        + left. congruence.
        + right. exists t'. rewrite <- E1. split; [exact X'|]. split; [congruence|]. rewrite <- p5. lia.
        + right. exists t. split; [exact X|]. split; [congruence|]. lia.
        + exfalso. rewrite p5 in Z'. lia. }
    destruct p15 as [(A & B & C)|[(A & B & C)|(A & B & C & D)]].
    + apply (Hq [(u, qn)]); auto; try lia. { intros k [<-|[]]. reflexivity. } cbn. lia.
    + apply (Hq []); auto; try lia. { rewrite app_nil_r. exact A. } { intros k []. } cbn. lia.
    + apply (Hq []); auto; try lia. { rewrite app_nil_r. exact A. } { intros k []. } { cbn. lia. }
      destruct D as [D|(t & X & Y & Z)]; [left; exact D|]. right. exists t. repeat split; auto; lia.
Qed.

(* the end of a publish: the state after routing, with the current message cleared *)
Lemma Units_routed s s1 c h u ch ch1 m m1 L :
  Units s -> NoDup (where_ch s c h ch) ->
  get_chan s c h = Some ch -> ch_cur ch = Some u -> get_msg s u = Some m ->
  get_msg s1 u = Some m1 -> heap s1 = aset N.eqb u m1 (heap s) -> ci m1 = ci m ->
  relay s1 = relay s -> next_uid s1 = next_uid s ->
  (forall c1 h1, (c1 =? c) && (h1 =? h) = false -> get_chan s1 c1 h1 = get_chan s c1 h1) ->
  get_chan s1 c h = Some ch1 -> ch_inst ch1 = ch_inst ch -> ch_confirm ch1 = ch_confirm ch ->
  st_add s1 = st_add s ++ L -> (forall k, In k L -> fst k = u) ->
  (m_conf m <> None -> (0 <= m_actual m1 /\ m_actual m1 + Z.of_nat (List.length L) <= m_expected m1)%Z) ->
  (ch_confirmq ch1 = ch_confirmq ch \/
   exists t, m_conf m = Some (c, h, t) /\ ch_confirmq ch1 = ch_confirmq ch ++ [t] /\ (m_expected m1 <= m_actual m1)%Z) ->
  Aux (set_chan s1 c h (ch1 <| ch_cur := None |>)) ->
  Units (set_chan s1 c h (ch1 <| ch_cur := None |>)).
Proof.
  intros [Ha Hk Hs Hc Hm Hn] Hnd Hgc Hcur Hgm Hgm1 Hh1 Eci Hr1 Hu1 Hoth Hgc1 Ei1 Ecf1 Hadd HL Hbound Hq Ha'.
  set (ch2 := ch1 <| ch_cur := None |>) in *.
  destruct (set_chan_frame s1 c h ch2) as (F1 & F2 & F3 & F4 & _).
  pose proof (get_chan_conn _ _ _ _ Hgc1) as Hcn. destruct (get_conn s1 c) as [cn|] eqn:Ecn; [|congruence]. clear Hcn.
  assert (Hgc2 : forall c1 h1, get_chan (set_chan s1 c h ch2) c1 h1 = if (c1 =? c) && (h1 =? h) then Some ch2 else get_chan s c1 h1).
  { intros c1 h1. rewrite get_chan_set_chan, Ecn. destruct ((c1 =? c) && (h1 =? h)) eqn:Eb; auto. }
  destruct (aux_cur _ Ha c h ch Hgc u Hcur) as [Hult Hown]. specialize (Hown m Hgm).
  unfold get_msg in Hgm. inversion Eci as [[Ec1 Ec2]].
  assert (Hpend0 : m_conf m <> None -> pend s u = 0%Z /\ m_actual m = 0%Z /\ m_expected m = 0%Z).
  { intros Hcf. destruct (Hc c h ch u m Hgc Hcur Hgm Hcf) as [_ He].
    destruct (Hm u m (alookup_in N.eqb Neqb_spec _ _ _ Hgm) Hcf) as [X Y]. unfold pend in *. lia. }
  constructor; auto.
  - unfold Keys. rewrite F1, Hh1, (map_fst_aset_same _ _ _ _ Hgm). exact Hk.
  - intros k Hin. rewrite F4, Hadd in Hin. rewrite F3, Hu1. apply in_app_or in Hin. destruct Hin as [Hin|Hin]; [auto|]. rewrite (HL k Hin). exact Hult.
  - intros c1 h1 ch' u1 m' Hg' Hcur' Hgm' Hcf'. rewrite Hgc2 in Hg'. destruct ((c1 =? c) && (h1 =? h)) eqn:Eb; [inversion Hg'; subst ch'; discriminate|].
    rewrite get_msg_set_chan in Hgm'. unfold get_msg in Hgm'. rewrite Hh1, (alookup_aset N.eqb Neqb_spec) in Hgm'.
    destruct (u1 =? u) eqn:Eu.
    + exfalso. apply N.eqb_eq in Eu. subst u1. inversion Hgm'; subst m'. rewrite Ec1 in Hcf'.
      destruct (m_conf m) as [[[c0 h0] t0]|] eqn:Ecfm; [|congruence].
      destruct (Hown c0 h0 t0 eq_refl) as (-> & -> & _).
      destruct (aux_cur _ Ha c1 h1 ch' Hg' u Hcur') as [_ Hown']. destruct (Hown' m Hgm c h t0 Ecfm) as (X & Y & _). subst.
      rewrite !N.eqb_refl in Eb. discriminate.
    + exact (Hc c1 h1 ch' u1 m' Hg' Hcur' Hgm' Hcf').
  - intros u0 m0 Hin Hcf0. rewrite F1, Hh1 in Hin. rewrite (pending_app_keys s (set_chan s1 c h ch2) L u u0 (eq_trans F4 Hadd) HL).
    destruct (in_aset_keys _ _ _ _ _ _ Hk Hgm Hin) as [[-> ->]|[Hne Hin0]].
    + rewrite N.eqb_refl. rewrite Ec1 in Hcf0. destruct (Hpend0 Hcf0) as (P0 & _). destruct (Hbound Hcf0). lia.
    + apply N.eqb_neq in Hne. rewrite Hne. exact (Hm u0 m0 Hin0 Hcf0).
  - intros c1 h1 ch' t Hg' Hin.
    assert (Hrp : relay_part (set_chan s1 c h ch2) c1 h1 = relay_part s c1 h1).
    { rewrite !relay_part_RP, F1, F2, Hh1, Hr1, (RP_aset_ci _ _ _ _ _ m m1 _ Hgm Eci). f_equal.
      unfold chan_inst. rewrite Hgc2. destruct ((c1 =? c) && (h1 =? h)) eqn:Eb; auto.
      apply andb_prop in Eb. destruct Eb as [E1 E2]. apply N.eqb_eq in E1, E2. subst. rewrite Hgc. cbn. rewrite Ei1. reflexivity. }
    rewrite Hrp in Hin. rewrite Hgc2 in Hg'.
    assert (Hcurt : forall t0, m_conf m = Some (c, h, t0) -> ~ In t0 (where_nc s c h ch)).
    { intros t0 Hcf0 Hx. rewrite where_ch_nc in Hnd. unfold cur_part in Hnd. rewrite Hcur in Hnd. unfold get_msg in Hnd. rewrite Hgm, Hcf0 in Hnd.
      apply NoDup_cnt with (t := t0) in Hnd. rewrite cnt_app, cnt_one, N.eqb_refl in Hnd. apply cnt_in in Hx. lia. }
    destruct ((c1 =? c) && (h1 =? h)) eqn:Eb.
    + apply andb_prop in Eb. destruct Eb as [E1 E2]. apply N.eqb_eq in E1, E2. subst c1 h1. inversion Hg'; subst ch'.
      cbn [ch_confirmq ch_inst set ch2] in *. rewrite Ei1.
      assert (Hold : In t (ch_confirmq ch ++ relay_part s c h) ->
                     exists u0 m0, In (u0, m0) (heap (set_chan s1 c h ch2)) /\ m_conf m0 = Some (c, h, t) /\ m_inst m0 = ch_inst ch /\ m_actual m0 = m_expected m0).
      { intros Hin0. destruct (Hn c h ch t Hgc Hin0) as (u0 & m0 & A & B & C & D). exists u0, m0. repeat split; auto.
        rewrite F1, Hh1. destruct (N.eq_dec u0 u) as [->|Hne]; [|apply in_aset_other; auto]. exfalso.
        pose proof (keys_lookup s u m0 Hk A) as Hl. unfold get_msg in Hl. rewrite Hgm in Hl. inversion Hl; subst m0.
        apply (Hcurt t B). unfold where_nc. apply in_app_or in Hin0. apply in_or_app. destruct Hin0 as [X|X]; [left; exact X|right; apply in_or_app; left; exact X]. }
      destruct Hq as [Hq|(t0 & Hcf0 & Hq & Hge)].
      * rewrite Hq in Hin. apply Hold. exact Hin.
      * rewrite Hq in Hin. apply in_app_or in Hin. destruct Hin as [Hin|Hin]; [|apply Hold; apply in_or_app; right; exact Hin].
        apply in_app_or in Hin. destruct Hin as [Hin|[<-|[]]]; [apply Hold; apply in_or_app; left; exact Hin|].
        exists u, m1. rewrite F1, Hh1. split; [apply (in_aset_self _ _ m); exact Hgm|]. rewrite Ec1, Ec2.
        destruct (Hown c h t0 Hcf0) as (_ & _ & Hi). repeat split; auto.
        assert (Hcfn : m_conf m <> None) by congruence. destruct (Hbound Hcfn). lia.
    + destruct (Hn c1 h1 ch' t Hg' Hin) as (u0 & m0 & A & B & C & D). exists u0, m0. repeat split; auto.
      rewrite F1, Hh1. destruct (N.eq_dec u0 u) as [->|Hne]; [|apply in_aset_other; auto]. exfalso.
      pose proof (keys_lookup s u m0 Hk A) as Hl. unfold get_msg in Hl. rewrite Hgm in Hl. inversion Hl; subst m0.
      destruct (Hown c1 h1 t B) as (-> & -> & _). rewrite !N.eqb_refl in Eb. discriminate.
Qed.

Lemma Units_finish fx s c h u ch :
  fx_clear_current fx = true -> get_chan s c h = Some ch -> ch_cur ch = Some u -> NoDup (where_ch s c h ch) ->
  Units s -> Units (fst (finish_publish fx s c h u)).
Proof.
  intros Hfx Hgc Hcur Hnd Hu.
  destruct (finish_publish_tr fx s c h u ch [] Hfx (un_aux _ Hu) Hgc Hcur eq_refl) as [Ha' _]. revert Ha'.
  unfold finish_publish, route_and_push. rewrite Hfx.
  destruct (get_msg s u) as [m|] eqn:Hgm; cbn [fst].
  2:{ intros _. unfold upd_chan. rewrite Hgc. apply Units_drop; auto. }
  destruct (aux_cur _ (un_aux _ Hu) c h ch Hgc u Hcur) as [Hult Hown]. specialize (Hown m Hgm).
  assert (Hself : heap s = aset N.eqb u m (heap s)) by (unfold get_msg in Hgm; rewrite (aset_same _ _ _ Hgm); reflexivity).
  (* the unroutable case *)
  assert (Hunr : Aux (upd_chan (add_confirm s c h (live_conf s m)) c h (fun ch => ch <| ch_cur := None |>)) ->
                 Units (upd_chan (add_confirm s c h (live_conf s m)) c h (fun ch => ch <| ch_cur := None |>))).
  { destruct (add_confirm_cases s c h (live_conf s m)) as [Es|(ch0 & c0 & h0 & t & Elive & Hgc0 & Es)]; rewrite Es.
    - intros _. unfold upd_chan. rewrite Hgc. apply Units_drop; auto.
    - rewrite Hgc in Hgc0. inversion Hgc0; subst ch0.
      unfold live_conf in Elive. destruct (m_conf m) as [[[c1 h1] t1]|] eqn:Ecf; [|discriminate].
      destruct (Hown c1 h1 t1 eq_refl) as (-> & -> & Ei). rewrite Hgc in Elive.
      destruct (ch_inst ch =? m_inst m); [|discriminate]. inversion Elive; subst c0 h0 t1.
      set (ch1 := ch <| ch_confirmq ::= fun l => l ++ [t] |>).
      destruct (set_chan_frame s c h ch1) as (F1 & F2 & F3 & F4 & _).
      pose proof (get_chan_conn _ _ _ _ Hgc) as Hcn. destruct (get_conn s c) as [cn|] eqn:Ecn; [|congruence].
      assert (Hg1 : get_chan (set_chan s c h ch1) c h = Some ch1) by (rewrite get_chan_set_chan, Ecn, !N.eqb_refl; reflexivity).
      unfold upd_chan. rewrite Hg1. intros Ha'.
      apply (Units_routed s (set_chan s c h ch1) c h u ch ch1 m m []); auto.
      + rewrite get_msg_set_chan. exact Hgm.
      + rewrite F1. exact Hself.
      + intros c1 h1 Eb. rewrite get_chan_set_chan, Ecn, Eb. reflexivity.
      + rewrite F4, app_nil_r. reflexivity.
      + intros k [].
      + intros Hcf. destruct (un_c1 _ Hu c h ch u m Hgc Hcur Hgm Hcf) as [_ He].
        destruct (un_max _ Hu u m (alookup_in N.eqb Neqb_spec _ _ _ Hgm) Hcf) as [X Y]. unfold pend in Y. cbn. lia.
      + right. exists t. repeat split; auto.
        assert (Hcf : m_conf m <> None) by congruence. destruct (un_c1 _ Hu c h ch u m Hgc Hcur Hgm Hcf) as [_ He].
        destruct (un_max _ Hu u m (alookup_in N.eqb Neqb_spec _ _ _ Hgm) Hcf) as [X Y]. lia. }
  destruct (alookup seqb (m_ex m) (exchanges s)) as [ex|]; cbn [fst]; [|exact Hunr].
  destruct (matched_queues _ ex (m_key m)) as [|q1 qs] eqn:Eqs; cbn [fst]; [exact Hunr|].
  clear Hunr. rewrite Hgc.
  set (has_meta := match m_conf m with Some _ => true | None => false end).
  set (n := List.length (q1 :: qs)).
  set (sa := if ch_confirm ch && has_meta then upd_msg s u (fun m => m <| m_expected := Z.of_nat n |>) else s).
  set (ma := if ch_confirm ch && has_meta then m <| m_expected := Z.of_nat n |> else m).
  assert (Hsa : get_msg sa u = Some ma /\ heap sa = aset N.eqb u ma (heap s) /\ conns sa = conns s /\ relay sa = relay s /\
                next_uid sa = next_uid s /\ st_add sa = st_add s /\ ci ma = ci m /\ m_pers ma = m_pers m /\ m_actual ma = m_actual m).
  { subst sa ma. destruct (ch_confirm ch && has_meta).
    - unfold upd_msg. rewrite Hgm. unfold get_msg. cbn. rewrite (alookup_aset N.eqb Neqb_spec), N.eqb_refl. repeat split; reflexivity.
    - repeat split; auto. }
  destruct Hsa as (Hga & Hha & Hca & Hra & Hua & Hada & Ecia & Epa & Eaa). inversion Ecia as [[Ea1 Ea2]].
  assert (Hgca : get_chan sa c h = Some ch) by (rewrite (get_chan_same_conns _ _ _ _ Hca); exact Hgc).
  destruct (fold_push_spec c h u (m_pers m) has_meta (q1 :: qs) sa ma ch Hga Epa) as (m1 & ch1 & L & F); auto.
  { subst has_meta. rewrite Ea1. destruct (m_conf m); [discriminate|intros; discriminate]. }
  { intros c0 h0 t Hx. rewrite Ea1 in Hx. destruct (Hown c0 h0 t Hx) as (a & b & _). auto. }
  destruct F as [f1 f2 f3 f4 f5 f6 f7 f8 f9 f10 f11 f12 f13 f14 f15 f16 f17 f18].
  unfold upd_chan. fold n in f1, f2, f5, f6, f7, f8, f9, f14, f17. rewrite f7. intros Ha'.
  assert (Hh1 : heap (fold_left (fun s qn => push_one s c h u (m_pers m) has_meta qn) (q1 :: qs) sa) = aset N.eqb u m1 (heap s)).
  { rewrite f2, Hha. clear. induction (heap s) as [|[k v] t IH]; cbn; [rewrite N.eqb_refl; reflexivity|].
    destruct (u =? k) eqn:E; cbn; [rewrite N.eqb_refl; reflexivity|rewrite E, IH; reflexivity]. }
  apply (Units_routed s _ c h u ch ch1 m m1 L); auto; try congruence.
  - intros c1 h1 Eb. rewrite f8 by exact Eb. apply get_chan_same_conns. exact Hca.
  - intros Hcf. destruct (un_c1 _ Hu c h ch u m Hgc Hcur Hgm Hcf) as [Hcft He].
    destruct (un_max _ Hu u m (alookup_in N.eqb Neqb_spec _ _ _ Hgm) Hcf) as [X Y]. unfold pend in Y.
    assert (Hma : m_expected ma = Z.of_nat n /\ m_actual ma = 0%Z).
    { subst ma. rewrite Hcft. subst has_meta. destruct (m_conf m); [|congruence]. cbn. split; [reflexivity|lia]. }
    destruct Hma as [X1 X2]. rewrite f4, X1. rewrite X2 in f16, f17. lia.
  - destruct f18 as [Hq|(t & Hcf & Hq & Hlt)]; [left; exact Hq|]. right. exists t. rewrite <- Ea1. repeat split; auto. rewrite f4. lia.
Qed.

(* ------------------------------------------------------------------ *)
(* the store tick: every pending add - written or cancelled - counts one unit of its message *)
Definition cntk (L : list (N * string)) (u : N) : Z := Z.of_nat (List.length (filter (fun k : N * string => fst k =? u) L)).
Definition msg_add (L : list (N * string)) (u : N) (m m' : msg) : Prop :=
  ci m' = ci m /\ m_expected m' = m_expected m /\
  m_actual m' = (m_actual m + match m_conf m with Some _ => cntk L u | None => 0 end)%Z.
Definition heap_add (L : list (N * string)) (hp hp' : list (N * msg)) : Prop :=
  Forall2 (fun kv kv' => fst kv' = fst kv /\ msg_add L (fst kv) (snd kv) (snd kv')) hp hp'.

Lemma cntk_nil u : cntk [] u = 0%Z. Proof. reflexivity. Qed.
Lemma cntk_cons k L u : cntk (k :: L) u = ((if N.eqb (fst k) u then 1 else 0) + cntk L u)%Z.
Proof. unfold cntk. cbn [filter]. destruct (fst k =? u); cbn [List.length]; lia. Qed.

Lemma heap_add_refl hp : heap_add [] hp hp.
Proof.
  unfold heap_add. induction hp as [|kv r IH]; constructor; auto. split; auto. unfold msg_add. rewrite cntk_nil.
  repeat split; auto. destruct (m_conf (snd kv)); lia.
Qed.
Lemma heap_add_trans k L hp0 hp1 hp2 : heap_add [k] hp0 hp1 -> heap_add L hp1 hp2 -> heap_add (k :: L) hp0 hp2.
Proof.
  unfold heap_add. intros H1. revert hp2. induction H1 as [|kv0 kv1 r0 r1 [Ek Hm] Hr IH]; intros hp2 H2; inversion H2; subst; constructor; auto.
  destruct H1 as [Ek2 Hm2]. split; [congruence|]. unfold msg_add in *. destruct Hm as (a1 & b1 & c1), Hm2 as (a2 & b2 & c2).
  inversion a1 as [[X1 X2]]. repeat split; try congruence. rewrite c2, c1, Ek, X1, (cntk_cons k L), (cntk_cons k []), cntk_nil.
  destruct (m_conf (snd kv0)); lia.
Qed.
Lemma heap_add_keys L hp hp' : heap_add L hp hp' -> map fst hp' = map fst hp.
Proof. unfold heap_add. induction 1 as [|? ? ? ? [E _]]; cbn; congruence. Qed.
Lemma heap_add_fwd L hp hp' u m : heap_add L hp hp' -> In (u, m) hp -> exists m', In (u, m') hp' /\ msg_add L u m m'.
Proof.
  unfold heap_add. induction 1 as [|[k v] [k' v'] r r' [E Hm] Hr IH]; cbn; [tauto|]. cbn in E. subst k'. intros [H|H].
  - inversion H; subst. exists v'. auto.
  - destruct (IH H) as (m' & A & B). exists m'. auto.
Qed.
Lemma heap_add_bwd L hp hp' u m' : heap_add L hp hp' -> In (u, m') hp' -> exists m, In (u, m) hp /\ msg_add L u m m'.
Proof.
  unfold heap_add. induction 1 as [|[k v] [k' v'] r r' [E Hm] Hr IH]; cbn; [tauto|]. cbn in E. subst k'. intros [H|H].
  - inversion H; subst. exists v. auto.
  - destruct (IH H) as (m & A & B). exists m. auto.
Qed.

Lemma heap_add_aset hp u0 m qn :
  NoDup (map fst hp) -> alookup N.eqb u0 hp = Some m -> m_conf m <> None ->
  heap_add [(u0, qn)] hp (aset N.eqb u0 (m <| m_actual ::= Z.succ |>) hp).
Proof.
  unfold heap_add. induction hp as [|[k v] r IH]; cbn; [discriminate|]. intros Hnd. inversion Hnd as [|? ? Hni Hnd']; subst.
  destruct (u0 =? k) eqn:E.
  - apply N.eqb_eq in E. subst k. intros H Hcf. inversion H; subst v. constructor.
    + split; auto. unfold msg_add. cbn. rewrite cntk_cons, cntk_nil. cbn. rewrite N.eqb_refl. destruct (m_conf m); [|congruence]. repeat split; auto; lia.
    + clear -Hni. induction r as [|[k v] r IH]; constructor.
      * split; auto. unfold msg_add. cbn. rewrite cntk_cons, cntk_nil. cbn.
        destruct (u0 =? k) eqn:E; [apply N.eqb_eq in E; subst; exfalso; apply Hni; left; reflexivity|]. repeat split; auto. destruct (m_conf v); lia.
      * apply IH. intros Hx. apply Hni. right. exact Hx.
  - intros H Hcf. constructor; [|apply IH; auto]. split; auto. unfold msg_add. cbn. rewrite cntk_cons, cntk_nil. cbn. rewrite E.
    repeat split; auto. destruct (m_conf v); lia.
Qed.
Lemma heap_add_skip hp u0 qn :
  (forall m, In (u0, m) hp -> m_conf m = None) -> heap_add [(u0, qn)] hp hp.
Proof.
  unfold heap_add. induction hp as [|[k v] r IH]; intros H; constructor; [|apply IH; intros; apply H; right; auto].
  split; auto. unfold msg_add. cbn. rewrite cntk_cons, cntk_nil. cbn. repeat split; auto.
  destruct (u0 =? k) eqn:E; [|destruct (m_conf v); lia]. apply N.eqb_eq in E. subst. rewrite (H v (or_introl eq_refl)). lia.
Qed.

Record tick_spec (L : list (N * string)) (s s' : state) : Prop := {
  tk_conns : conns s' = conns s; tk_uid : next_uid s' = next_uid s; tk_add : st_add s' = st_add s;
  tk_heap : heap_add L (heap s) (heap s');
  tk_relay_old : incl (relay s) (relay s');
  tk_relay_new : forall x, In x (relay s') -> In x (relay s) \/
                   exists m, In (x, m) (heap s) /\ m_conf m <> None /\ (m_actual m < m_expected m <= m_actual m + cntk L x)%Z }.

Lemma store_confirm_tick s k : Keys s -> tick_spec [k] s (store_confirm s (fst k)).
Proof.
  intros Hk. destruct k as [u0 qn]. cbn [fst]. unfold store_confirm. destruct (get_msg s u0) as [m|] eqn:Hgm.
  2:{ constructor; auto using incl_refl. apply heap_add_skip. intros m Hin. apply (keys_lookup s u0 m Hk) in Hin. congruence. }
  destruct (m_conf m) eqn:Ecf.
  2:{ constructor; auto using incl_refl. apply heap_add_skip. intros m0 Hin. apply (keys_lookup s u0 m0 Hk) in Hin. congruence. }
  assert (Hup : upd_msg s u0 (fun m => m <| m_actual ::= Z.succ |>) = s <| heap := aset N.eqb u0 (m <| m_actual ::= Z.succ |>) (heap s) |>)
    by (unfold upd_msg; rewrite Hgm; reflexivity).
  rewrite Hup. assert (Hha : heap_add [(u0, qn)] (heap s) (aset N.eqb u0 (m <| m_actual ::= Z.succ |>) (heap s)))
    by (apply heap_add_aset; auto; congruence).
  destruct (Z.succ (m_actual m) =? m_expected m)%Z eqn:Ez.
  - apply Z.eqb_eq in Ez. constructor; auto.
    + cbn. apply incl_appl, incl_refl.
    + cbn. intros x Hx. apply in_app_or in Hx. destruct Hx as [Hx|[<-|[]]]; auto. right. exists m.
      split; [apply (alookup_in N.eqb Neqb_spec); exact Hgm|]. split; [congruence|]. rewrite cntk_cons, cntk_nil. cbn. rewrite N.eqb_refl. lia.
  - constructor; auto using incl_refl.
Qed.

Lemma tick_fold L : forall s, Keys s -> tick_spec L s (fold_left (fun s k => store_confirm s (fst k)) L s).
Proof.
  induction L as [|k r IH]; intros s Hk; cbn [fold_left].
  - constructor; auto using incl_refl. apply heap_add_refl.
  - pose proof (store_confirm_tick s k Hk) as T1. set (s1 := store_confirm s (fst k)) in *.
    assert (Hk1 : Keys s1) by (unfold Keys; rewrite (heap_add_keys _ _ _ (tk_heap _ _ _ T1)); exact Hk).
    pose proof (IH s1 Hk1) as T2. destruct T1 as [a1 b1 c1 d1 e1 f1], T2 as [a2 b2 c2 d2 e2 f2]. constructor; try congruence.
    + eapply heap_add_trans; eauto.
    + eapply incl_tran; eauto.
    + intros x Hx. destruct (f2 x Hx) as [H|(m1 & A & B & C)].
      * destruct (f1 x H) as [H0|(m & A & B & C)]; auto. right. exists m. repeat split; auto; try lia.
        rewrite cntk_cons. rewrite (cntk_cons k []), cntk_nil in C. pose proof (Nat2Z.is_nonneg (List.length (filter (fun k0 : N * string => fst k0 =? x) r))). unfold cntk. lia.
      * destruct (heap_add_bwd _ _ _ _ _ d1 A) as (m & A0 & (X & Y & Z)). inversion X as [[X1 X2]]. right. exists m.
        split; auto. split; [congruence|]. rewrite (cntk_cons k []), cntk_nil in Z. rewrite cntk_cons.
        destruct (m_conf m); [|congruence]. pose proof (Nat2Z.is_nonneg (List.length (filter (fun k0 : N * string => fst k0 =? x) [k]))).
        destruct (fst k =? x); lia.
Qed.

Lemma filter_partition_len {A} (q p : A -> bool) l :
  List.length (filter q (filter (fun x => negb (p x)) l ++ filter p l)) = List.length (filter q l).
Proof.
  rewrite filter_app, app_length. induction l as [|a r IH]; cbn; auto.
  destruct (p a); cbn; destruct (q a); cbn; lia.
Qed.

Lemma Units_tick cfg fx s : Units s -> Units (fst (step cfg fx s LPersistTick)).
Proof.
  intros Hu. pose proof (Aux_mid _ _ (persist_tick_mid cfg fx s) (un_aux _ Hu)) as Ha'. revert Ha'.
  destruct Hu as [Ha Hk Hs Hc Hm Hn]. cbn [step fst].
  match goal with |- context [fold_left ?f (?add ++ ?settled) ?sx] => set (L := add ++ settled); set (s0 := sx) end.
  assert (HL : forall u, cntk L u = pend s u).
  { intros u. unfold cntk, pend, pending, L. f_equal.
    apply (filter_partition_len (fun k : N * string => fst k =? u) (fun k => existsb (fun d => (fst d =? fst k) && seqb (snd d) (snd k)) (st_del s)) (st_add s)). }
  assert (Hk0 : Keys s0) by exact Hk.
  pose proof (tick_fold L s0 Hk0) as [T1 T2 T3 T4 T5 T6].
  set (s' := fold_left _ L s0) in *. intros Ha'.
  change (heap s0) with (heap s) in T4, T6. change (relay s0) with (relay s) in T5, T6. change (conns s0) with (conns s) in T1.
  change (next_uid s0) with (next_uid s) in T2. change (st_add s0) with (@nil (N * string)) in T3.
  assert (Hpend' : forall u, pend s' u = 0%Z) by (intros u; unfold pend, pending; rewrite T3; reflexivity).
  assert (Hgc : forall c h, get_chan s' c h = get_chan s c h) by (intros; apply get_chan_same_conns; exact T1).
  assert (Hk' : Keys s') by (unfold Keys; rewrite (heap_add_keys _ _ _ T4); exact Hk).
  (* a complete message of s is the same in s' *)
  assert (Hstable : forall u m, In (u, m) (heap s) -> m_conf m <> None -> m_actual m = m_expected m ->
                    exists m', In (u, m') (heap s') /\ ci m' = ci m /\ m_actual m' = m_expected m').
  { intros u m Hin Hcf Hcomp. destruct (heap_add_fwd _ _ _ _ _ T4 Hin) as (m' & A & (X & Y & Z)). exists m'. repeat split; auto.
    destruct (Hm u m Hin Hcf) as [P1 P2]. rewrite HL in Z. destruct (m_conf m); [|congruence].
    pose proof (Nat2Z.is_nonneg (pending s u)). unfold pend in *. lia. }
  constructor; auto.
  - intros k Hin. rewrite T3 in Hin. destruct Hin.
  - intros c h ch u m' Hg Hcur Hgm' Hcf'. rewrite Hgc in Hg.
    destruct (heap_add_bwd _ _ _ _ _ T4 (alookup_in N.eqb Neqb_spec _ _ _ Hgm')) as (m & A & (X & Y & Z)). inversion X as [[X1 X2]].
    rewrite X1 in Hcf'. destruct (Hc c h ch u m Hg Hcur (keys_lookup s u m Hk A) Hcf') as [P Q]. split; auto. congruence.
  - intros u m' Hin Hcf'. destruct (heap_add_bwd _ _ _ _ _ T4 Hin) as (m & A & (X & Y & Z)). inversion X as [[X1 X2]].
    rewrite X1 in Hcf'. destruct (Hm u m A Hcf') as [P1 P2]. rewrite Hpend', Y, Z, HL. destruct (m_conf m); [|congruence].
    pose proof (Nat2Z.is_nonneg (pending s u)). unfold pend in *. lia.
  - intros c h ch t Hg Hin. rewrite Hgc in Hg.
    assert (Hwit : In t (ch_confirmq ch ++ relay_part s c h) ->
                   exists u m, In (u, m) (heap s') /\ m_conf m = Some (c, h, t) /\ m_inst m = ch_inst ch /\ m_actual m = m_expected m).
    { intros Hin0. destruct (Hn c h ch t Hg Hin0) as (u & m & A & B & C & D).
      destruct (Hstable u m A) as (m' & A' & X & Y); [congruence|exact D|]. inversion X as [[X1 X2]]. exists u, m'. repeat split; auto; congruence. }
    apply in_app_or in Hin. destruct Hin as [Hin|Hin]; [apply Hwit; apply in_or_app; left; exact Hin|].
    rewrite relay_part_RP in Hin. unfold RP in Hin. apply in_flat_map in Hin. destruct Hin as (x & Hx & Hin).
    destruct (alookup N.eqb x (heap s')) as [m'|] eqn:Hgm'; [|destruct Hin].
    destruct (heap_add_bwd _ _ _ _ _ T4 (alookup_in N.eqb Neqb_spec _ _ _ Hgm')) as (m & A & (X & Y & Z)). inversion X as [[X1 X2]].
    assert (Hci : chan_inst s' c h = chan_inst s c h) by (unfold chan_inst; rewrite Hgc; reflexivity).
    assert (Hrpm : rp (chan_inst s' c h) c h m' = rp (chan_inst s c h) c h m) by (unfold rp; rewrite Hci, X1, X2; reflexivity).
    rewrite Hrpm in Hin.
    destruct (T6 x Hx) as [Hold|(m0 & A0 & Hcf0 & Hrange)].
    + apply Hwit. apply in_or_app. right. rewrite relay_part_RP. unfold RP. apply in_flat_map. exists x. split; auto.
      rewrite (keys_lookup s x m Hk A : alookup N.eqb x (heap s) = Some m). exact Hin.
    + assert (m0 = m).
      { pose proof (keys_lookup s x m0 Hk A0) as L1. pose proof (keys_lookup s x m Hk A) as L2. congruence. } subst m0.
      unfold rp, chan_inst in Hin. rewrite Hg in Hin. destruct (m_conf m) as [[[c0 h0] t0]|] eqn:Ecf; [|destruct Hin].
      destruct ((c0 =? c) && (h0 =? h)) eqn:Eb; [|destruct Hin]. cbn [oN_eqb] in Hin.
      destruct (ch_inst ch =? m_inst m) eqn:Ei; [|destruct Hin]. destruct Hin as [<-|[]].
      apply andb_prop in Eb. destruct Eb as [E1 E2]. apply N.eqb_eq in E1, E2, Ei. subst c0 h0.
      exists x, m'. split; [apply (alookup_in N.eqb Neqb_spec); exact Hgm'|]. repeat split; try congruence.
      destruct (Hm x m A) as [P1 P2]; [congruence|]. rewrite HL in Z, Hrange. unfold pend in *. lia.
Qed.

Lemma Units_restart cfg s : Units s -> Units (fst (restart cfg s)).
Proof.
  intros Hu. destruct (restart_tr cfg s (un_aux _ Hu)) as [Ha' _]. destruct Hu as [Ha Hk Hs Hc Hm Hn]. constructor; auto.
  - unfold Keys, restart. cbn [fst heap]. rewrite map_map. cbn. exact Hk.
  - intros k Hin. unfold restart in Hin. cbn in Hin. destruct Hin.
  - intros c h ch u m Hg. unfold restart, get_chan, get_conn in Hg. cbn in Hg. discriminate.
  - intros u m Hin Hcf. unfold restart in Hin. cbn [fst heap] in Hin. apply in_map_iff in Hin. destruct Hin as ([u0 m0] & E & _).
    inversion E; subst. cbn in Hcf. congruence.
  - intros c h ch t Hg. unfold restart, get_chan, get_conn in Hg. cbn in Hg. discriminate.
Qed.

(* ------------------------------------------------------------------ *)
(* the numbers in flight on a channel are pairwise distinct (the at-most-once invariant without the history) *)
Definition WOK (s : state) : Prop := forall c h ch, get_chan s c h = Some ch -> good_new ch (where_ch s c h ch).

Lemma WOK_trans s s' evs : WOK s -> trans s s' evs -> WOK s'.
Proof.
  intros Hw T c h ch' Hg'. pose proof (amo_step s s' evs c h [] ch' (fun ch Hg => Hw c h ch Hg) (T c h) Hg') as H.
  unfold amo_ok, good_new in *. destruct H as [Hnd Hr]. split.
  - apply NoDup_cnt. intros t. apply NoDup_cnt with (t := t) in Hnd. rewrite cnt_app in Hnd. lia.
  - rewrite Forall_forall in *. intros t Ht. apply Hr. apply in_or_app. right. exact Ht.
Qed.
Lemma WOK_TR0 s s' : WOK s -> TR0 s s' -> WOK s'.
Proof. intros Hw [_ T]. eapply WOK_trans; eauto. Qed.


Definition UW (s : state) : Prop := Units s /\ WOK s.

Theorem UW_step cfg fx s l :
  fx_clear_current fx = true -> UW s -> fresh_step s l -> UW (fst (step cfg fx s l)).
Proof.
  intros Hfx. apply (B_step cfg fx UW (fun _ => True) (fun _ _ _ _ H => H) (fun _ => True)); auto; try (destruct l; exact I).
  - intros s0 s1 Hv [Hu Hw]. split; [eapply Units_vle; eauto|]. eapply WOK_trans; [exact Hw|apply (trans_of_mid s0 s1 []); [apply vle_mid; exact Hv|reflexivity]].
  - intros s0 c h [Hu Hw]. split; [apply Units_ensure; auto|]. destruct (ensure_chan_tr s0 c h [] (un_aux _ Hu) eq_refl) as [_ T]. eapply WOK_trans; eauto.
  - intros s0 c h m Hcm _ [Hu Hw]. split; [apply Units_method; auto|]. eapply WOK_TR0; [exact Hw|apply handle_method_tr; exact (un_aux _ Hu)].
  - intros s0 c [Hu Hw]. split; [apply Units_delconn; auto|]. destruct (del_conn_tr s0 c [] (un_aux _ Hu) eq_refl) as [_ T]. eapply WOK_trans; eauto.
  - intros s0 c h u ch _ Hg Hcur [Hu Hw]. split; [apply (Units_finish fx s0 c h u ch); auto; apply (Hw c h ch Hg)|].
    destruct (finish_publish_tr fx s0 c h u ch [] Hfx (un_aux _ Hu) Hg Hcur eq_refl) as [_ T]. eapply WOK_trans; eauto.
  - intros s0 c h ch Hg [Hu Hw]. split; [apply Units_drop; auto|]. eapply WOK_TR0; [exact Hw|apply drop_tr; auto; exact (un_aux _ Hu)].
  - intros s0 [Hu Hw]. split; [apply Units_tick; auto|]. eapply WOK_trans; [exact Hw|apply (trans_of_mid s0 _ []); [apply persist_tick_mid|reflexivity]].
  - intros s0 [Hu Hw]. split; [apply Units_relay; auto|]. eapply WOK_trans; [exact Hw|apply (trans_of_mid s0 _ []); [apply relay_step_mid|reflexivity]].
  - intros s0 c h [Hu Hw]. split; [apply Units_ctick; auto|]. destruct (confirm_tick_tr cfg fx s0 c h (un_aux _ Hu)) as [_ T]. eapply WOK_trans; eauto.
  - intros s0 c cn _ Ecn Hch Hfr [Hu Hw]. split; [apply Units_newconn; auto|]. destruct (new_conn_tr s0 c cn [] Ecn Hch Hfr (un_aux _ Hu) eq_refl) as [_ T]. eapply WOK_trans; eauto.
  - intros s0 [Hu Hw]. split; [apply Units_restart; auto|]. destruct (restart_tr cfg s0 (un_aux _ Hu)) as [_ T]. eapply WOK_trans; eauto.
Qed.

Lemma UW_init cfg : UW (init cfg).
Proof.
  split.
  - constructor.
    + apply (proj1 (Inv_init cfg)).
    + constructor.
    + intros k [].
    + intros c h ch u m Hg. unfold get_chan, get_conn in Hg. cbn in Hg. discriminate.
    + intros u m [].
    + intros c h ch t Hg. unfold get_chan, get_conn in Hg. cbn in Hg. discriminate.
  - intros c h ch Hg. unfold get_chan, get_conn in Hg. cbn in Hg. discriminate.
Qed.

Theorem UW_run cfg fx ls : forall s,
  fx_clear_current fx = true -> UW s -> fresh_along cfg fx s ls -> UW (fst (run cfg fx s ls)).
Proof.
  induction ls as [|l t IH]; intros s Hfx Hu Hfr; [exact Hu|].
  destruct Hfr as [Hf1 Hf2]. rewrite run_cons. apply IH; auto. apply UW_step; auto.
Qed.

(* NEVER EARLY.  In every reachable state:
   (1) a number in a confirm queue or (live) in the relay belongs to a message of the channel's current instance all of
       whose units are counted (m_actual = m_expected) and none of whose units waits in the store;
   (2) counted units plus units waiting in the store never exceed the number of queues the message was routed to - a unit
       is counted only by a push that does not go through the store (Queue.Push on a transient queue or of a
       non-persistent message) or by the store tick that processed the pending add (written to st_db, or cancelled by a
       pending delete of the same key: the message was consumed and settled, or its queue purged or deleted, meanwhile);
   (3) hence a basic.ack is written only for such a message. *)
Theorem confirm_handed_over_complete cfg fx ls c h ch t :
  fx_clear_current fx = true -> fresh_along cfg fx (init cfg) ls ->
  let s := fst (run cfg fx (init cfg) ls) in
  get_chan s c h = Some ch -> In t (ch_confirmq ch ++ relay_part s c h) ->
  exists u m, In (u, m) (heap s) /\ m_conf m = Some (c, h, t) /\ m_inst m = ch_inst ch /\
              m_actual m = m_expected m /\ pending s u = 0%nat.
Proof.
  intros Hfx Hfr s Hg Hin. destruct (UW_run cfg fx ls (init cfg) Hfx (UW_init cfg) Hfr) as [Hu _]. fold s in Hu.
  destruct (un_ne _ Hu c h ch t Hg Hin) as (u & m & A & B & C & D). exists u, m. repeat split; auto.
  destruct (un_max _ Hu u m A) as [P1 P2]; [congruence|]. unfold pend in P2. lia.
Qed.

Theorem confirm_units_bounded cfg fx ls u m :
  fx_clear_current fx = true -> fresh_along cfg fx (init cfg) ls ->
  let s := fst (run cfg fx (init cfg) ls) in
  In (u, m) (heap s) -> m_conf m <> None ->
  (0 <= m_actual m /\ m_actual m + Z.of_nat (pending s u) <= m_expected m)%Z.
Proof.
  intros Hfx Hfr s Hin Hcf. destruct (UW_run cfg fx ls (init cfg) Hfx (UW_init cfg) Hfr) as [Hu _]. fold s in Hu.
  exact (un_max _ Hu u m Hin Hcf).
Qed.

Lemma nb_not_in evs c h t b : nb evs = true -> ~ In (c, h, SAck t b) evs.
Proof.
  unfold nb. intros H Hin. rewrite forallb_forall in H. specialize (H _ Hin). discriminate.
Qed.

Theorem confirm_never_early cfg fx ls l c h t b :
  fx_clear_current fx = true -> fresh_along cfg fx (init cfg) ls ->
  let s := fst (run cfg fx (init cfg) ls) in
  In (c, h, SAck t b) (snd (step cfg fx s l)) ->
  l = LConfirmTick c h /\
  exists ch u m, get_chan s c h = Some ch /\ In t (ch_confirmq ch) /\ In (u, m) (heap s) /\ m_conf m = Some (c, h, t) /\
                 m_inst m = ch_inst ch /\ m_actual m = m_expected m /\ pending s u = 0%nat.
Proof.
  intros Hfx Hfr s Hin. destruct (is_confirm_tick l) eqn:El.
  2:{ exfalso. exact (nb_not_in _ c h t b (nb_step cfg fx s l El) Hin). }
  destruct l; try discriminate. cbn [step] in Hin.
  destruct (get_chan s c0 h0) as [ch|] eqn:Hg; [|destruct Hin]. destruct (negb (ch_ticker ch)); [destruct Hin|].
  assert (Hin' : In (c, h, SAck t b) (map (fun t0 => (c0, h0, SAck t0 false)) (ch_confirmq ch))) by (destruct (ch_status ch); cbn [snd] in Hin; auto; destruct Hin).
  apply in_map_iff in Hin'. destruct Hin' as (t0 & E & Hq). inversion E; subst c0 h0 t0 b. split; [reflexivity|].
  destruct (confirm_handed_over_complete cfg fx ls c h ch t Hfx Hfr Hg) as (u & m & A); [apply in_or_app; left; exact Hq|].
  exists ch, u, m. tauto.
Qed.

(* ------------------------------------------------------------------ *)
(* AT REST: every unit of a routed message is counted or waits in the store; an open confirm-mode channel has a ticker *)
Definition Umin (s : state) : Prop := forall u m, In (u, m) (heap s) -> m_conf m <> None -> (m_expected m <= m_actual m + pend s u)%Z.
Definition T3 (s : state) : Prop := forall c h ch,
  get_chan s c h = Some ch -> (ch_status ch = ChOpen \/ ch_status ch = ChNew) -> ch_confirm ch = true -> ch_ticker ch = true.
Definition Rest (s : state) : Prop := Umin s /\ T3 s.

(* steps that leave heap view and pending adds alone; every channel record of the new state keeps mode and ticker of an
   old one (and its status, unless the old one was new or open), or is harmless for T3 *)
Definition quiet (s s' : state) : Prop :=
  hview s' = hview s /\ st_add s' = st_add s /\
  forall c h ch', get_chan s' c h = Some ch' ->
    (exists ch, get_chan s c h = Some ch /\ ch_confirm ch' = ch_confirm ch /\ ch_ticker ch' = ch_ticker ch /\
                (ch_status ch' = ch_status ch \/ ch_status ch = ChNew \/ ch_status ch = ChOpen)) \/
    ch_confirm ch' = false \/ ch_ticker ch' = true \/ ch_status ch' = ChClosed \/ ch_status ch' = ChClosing.

Lemma Rest_quiet s s' : quiet s s' -> Rest s -> Rest s'.
Proof.
  intros (Eh & Ea & Hch) [Hu Ht]. split.
  - intros u m Hin Hcf. destruct (proj_in mv _ _ u m Eh Hin) as (m0 & Hin0 & Epr). inversion Epr as [[F1 F2 F3 F4]].
    assert (Hcf0 : m_conf m0 <> None) by congruence. specialize (Hu u m0 Hin0 Hcf0). unfold pend, pending in *. rewrite Ea. exact Hu.
  - intros c h ch' Hg Hst Hcf. destruct (Hch c h ch' Hg) as [(ch & Hg0 & E1 & E2 & E3)|[X|[X|[X|X]]]]; try congruence.
    + rewrite E2. apply (Ht c h ch Hg0); [|congruence]. destruct E3 as [E3|[E3|E3]]; [rewrite <- E3; exact Hst|auto|auto].
    + destruct Hst; congruence.
    + destruct Hst; congruence.
Qed.

Lemma quiet_vle s s' : vle s s' -> quiet s s'.
Proof.
  intros [A B C D E F]. split; [exact C|split; [exact F|]]. intros c h ch' Hg. specialize (A c h). unfold chan_le in A. rewrite Hg in A.
  destruct (get_chan s c h) as [ch|]; [|tauto]. destruct A as [Ew [M|[M|M]]]; inversion Ew; [left; exists ch; auto|auto|auto].
Qed.

(* record replaced at one channel, heap and pending adds untouched *)
Lemma quiet_set_chan s c h ch ch' :
  get_chan s c h = Some ch ->
  ((ch_confirm ch' = ch_confirm ch /\ ch_ticker ch' = ch_ticker ch /\ (ch_status ch' = ch_status ch \/ ch_status ch = ChNew \/ ch_status ch = ChOpen)) \/
   ch_confirm ch' = false \/ ch_ticker ch' = true \/ ch_status ch' = ChClosed \/ ch_status ch' = ChClosing) ->
  quiet s (set_chan s c h ch').
Proof.
  intros Hg Hr. destruct (set_chan_frame s c h ch') as (F1 & F2 & F3 & F4 & _). split; [unfold hview; rewrite F1; reflexivity|split; [exact F4|]].
  intros c1 h1 ch1 Hg1. rewrite get_chan_set_chan in Hg1. pose proof (get_chan_conn _ _ _ _ Hg) as Hcn. destruct (get_conn s c); [|congruence].
  destruct ((c1 =? c) && (h1 =? h)) eqn:Eb; [|left; exists ch1; auto].
  apply andb_prop in Eb. destruct Eb as [E1 E2]. apply N.eqb_eq in E1, E2. subst c1 h1. inversion Hg1; subst ch1.
  destruct Hr as [(X & Y & Z)|Hr]; [left; exists ch; auto|right; exact Hr].
Qed.

Lemma quiet_ensure s c h : quiet s (ensure_chan s c h).
Proof.
  unfold ensure_chan. destruct (get_conn s c) as [cn|] eqn:Ecn; [|apply quiet_vle, vle_refl].
  destruct (alookup N.eqb h (cn_chans cn)) as [ch|] eqn:Ech; [apply quiet_vle, vle_refl|].
  split; [reflexivity|split; [reflexivity|]]. intros c' h' ch' Hg.
  match type of Hg with get_chan ?s1 _ _ = _ => destruct (get_chan_ensure s c h c' h' ch') as [H|H] end.
  - unfold ensure_chan. rewrite Ecn, Ech. exact Hg.
  - left. exists ch'. auto.
  - subst ch'. right. left. reflexivity.
Qed.
Lemma quiet_delconn s c : quiet s (s <| conns := adel N.eqb c (conns s) |>).
Proof.
  split; [reflexivity|split; [reflexivity|]]. intros c' h' ch' Hg. rewrite get_chan_del_conn in Hg. destruct (c' =? c); [discriminate|].
  left. exists ch'. auto.
Qed.
Lemma quiet_newconn s c cn : cn_chans cn = [(0, channel0)] -> quiet s (s <| conns := aset N.eqb c cn (conns s) |>).
Proof.
  intros Hch. split; [reflexivity|split; [reflexivity|]]. intros c' h' ch' Hg.
  unfold get_chan, get_conn in Hg. cbn in Hg. rewrite (alookup_aset N.eqb Neqb_spec) in Hg. destruct (c' =? c) eqn:E1.
  - rewrite Hch in Hg. cbn in Hg. destruct (h' =? 0); [|discriminate]. inversion Hg; subst. right. left. reflexivity.
  - left. exists ch'. auto.
Qed.

(* every queue a publish is routed to exists and is active *)
Definition live_q (s : state) (qn : string) : Prop := exists qu, get_queue s qn = Some qu /\ q_active qu = true.
Definition routes_live (s : state) : Prop :=
  forall en e b key qn, alookup seqb en (exchanges s) = Some e -> In qn (matched_queues b e key) -> live_q s qn.

Lemma live_q_queues s s' qn : queues s' = queues s -> live_q s qn -> live_q s' qn.
Proof. intros E (qu & A & B). exists qu. unfold get_queue in *. rewrite E. auto. Qed.

Lemma queue_push_live s qn u q' : live_q s q' -> live_q (queue_push s qn u) q'.
Proof.
  intros (qu' & A & B). unfold queue_push. destruct (get_queue s qn) as [qu|] eqn:Eq; [|exists qu'; auto].
  destruct (get_msg s u) as [m|]; [|exists qu'; auto]. destruct (negb (q_active qu)) eqn:Ea; [exists qu'; auto|].
  apply Bool.negb_false_iff in Ea.
  match goal with |- live_q (set_queue ?s1 qn ?v) q' => assert (Hq : forall q0, get_queue s1 q0 = get_queue s q0) end.
  { intros q0. destruct (q_durable qu && m_pers m); [reflexivity|]. destruct (m_conf m); [|reflexivity].
    unfold get_queue. rewrite queues_upd_msg. reflexivity. }
  unfold live_q. rewrite get_queue_set_queue. destruct (seqb q' qn) eqn:E.
  - eexists. split; [reflexivity|]. unfold call_consumers. cbn. rewrite Ea. cbn. exact Ea.
  - rewrite Hq. exists qu'. auto.
Qed.
Lemma push_one_live s c h u p hm qn q' : live_q s q' -> live_q (push_one s c h u p hm qn) q'.
Proof.
  intros H. pose proof (queue_push_live s qn u q' H) as H1. unfold push_one.
  destruct (get_msg (queue_push s qn u) u); auto. destruct (_ && _)%bool; auto.
  eapply live_q_queues; [apply queues_add_confirm|exact H1].
Qed.

Definition units (s : state) (u : N) : Z := (counted s u + Z.of_nat (pending s u))%Z.
Lemma push_one_units s c h u p hm qn m :
  get_msg s u = Some m -> m_conf m <> None -> live_q s qn ->
  units (push_one s c h u p hm qn) u = (units s u + 1)%Z /\
  exists m1, get_msg (push_one s c h u p hm qn) u = Some m1 /\ m_conf m1 = m_conf m.
Proof.
  intros Hm Hcf (qu & Hq & Ha). destruct (queue_push_one_unit s qn u qu m Hq Ha Hm Hcf) as (Hunit & _).
  assert (Hm1 : exists m1, get_msg (queue_push s qn u) u = Some m1 /\ m_conf m1 = m_conf m).
  { destruct (queue_push_spec s qn u m Hm) as (_ & _ & _ & [(B & _)|[(B & _)|(_ & _ & B & _)]]).
    - exists m. unfold get_msg in *. rewrite B. auto.
    - exists m. unfold get_msg in *. rewrite B. auto.
    - eexists. unfold get_msg. rewrite B, (alookup_aset N.eqb Neqb_spec), N.eqb_refl. split; reflexivity. }
  unfold push_one. destruct Hm1 as (m1 & Hg1 & Hc1). rewrite Hg1.
  destruct (_ && _)%bool; [|split; [exact Hunit|exists m1; auto]].
  split.
  - unfold units, counted, pending in *. rewrite get_msg_add_confirm.
    assert (E : st_add (add_confirm (queue_push s qn u) c h (live_conf (queue_push s qn u) m1)) = st_add (queue_push s qn u)).
    { destruct (add_confirm_cases (queue_push s qn u) c h (live_conf (queue_push s qn u) m1)) as [Es|(ch0 & c0 & h0 & t & _ & _ & Es)]; rewrite Es; auto.
      apply set_chan_frame. }
    rewrite E. exact Hunit.
  - exists m1. rewrite get_msg_add_confirm. auto.
Qed.
Lemma fold_push_units c h u p hm qs : forall s m,
  get_msg s u = Some m -> m_conf m <> None -> (forall qn, In qn qs -> live_q s qn) ->
  units (fold_left (fun s qn => push_one s c h u p hm qn) qs s) u = (units s u + Z.of_nat (List.length qs))%Z.
Proof.
  induction qs as [|qn r IH]; intros s m Hm Hcf Hl; cbn [fold_left List.length]; [lia|].
  destruct (push_one_units s c h u p hm qn m Hm Hcf (Hl qn (or_introl eq_refl))) as (E & m1 & Hm1 & Hc1).
  rewrite (IH _ m1 Hm1); [|congruence|intros q0 Hq0; apply push_one_live; apply Hl; right; exact Hq0]. lia.
Qed.

(* status, mode and ticker of every channel: untouched by routing *)
Definition sct (ch : channel) := (ch_status ch, ch_confirm ch, ch_ticker ch).
Definition sct_same (s s' : state) : Prop := forall c h, option_map sct (get_chan s' c h) = option_map sct (get_chan s c h).
Lemma sct_same_conns s s' : conns s' = conns s -> sct_same s s'.
Proof. intros E c h. rewrite (get_chan_same_conns _ _ _ _ E). reflexivity. Qed.
Lemma sct_same_trans s0 s1 s2 : sct_same s0 s1 -> sct_same s1 s2 -> sct_same s0 s2.
Proof. intros A B c h. rewrite B. apply A. Qed.
Lemma sct_same_set_chan s c h ch ch' : get_chan s c h = Some ch -> sct ch' = sct ch -> sct_same s (set_chan s c h ch').
Proof.
  intros Hg E c1 h1. rewrite get_chan_set_chan. pose proof (get_chan_conn _ _ _ _ Hg). destruct (get_conn s c); [|congruence].
  destruct ((c1 =? c) && (h1 =? h)) eqn:Eb; auto. apply andb_prop in Eb. destruct Eb as [E1 E2]. apply N.eqb_eq in E1, E2. subst.
  rewrite Hg. cbn. rewrite E. reflexivity.
Qed.
Lemma sct_same_add_confirm s c h x : sct_same s (add_confirm s c h x).
Proof.
  destruct (add_confirm_cases s c h x) as [Es|(ch & c0 & h0 & t & _ & Hg & Es)]; rewrite Es; [intros ? ?; reflexivity|].
  apply (sct_same_set_chan s c h ch); auto.
Qed.
Lemma sct_same_push_one s c h u p hm qn : sct_same s (push_one s c h u p hm qn).
Proof.
  assert (H1 : sct_same s (queue_push s qn u)) by (apply sct_same_conns; apply (proj1 conns_queue_ops)).
  unfold push_one. destruct (get_msg (queue_push s qn u) u); auto. destruct (_ && _)%bool; auto.
  eapply sct_same_trans; [exact H1|apply sct_same_add_confirm].
Qed.
Lemma sct_same_finish fx s c h u : sct_same s (fst (finish_publish fx s c h u)).
Proof.
  unfold finish_publish.
  assert (H1 : sct_same s (fst (route_and_push fx s c h u))).
  { unfold route_and_push. destruct (get_msg s u) as [m|]; [|intros ? ?; reflexivity].
    destruct (alookup _ _ _); cbn [fst]; [|apply sct_same_add_confirm].
    destruct (matched_queues _ _ _) as [|q1 qs]; cbn [fst]; [apply sct_same_add_confirm|].
    match goal with |- sct_same s (fold_left ?f ?l ?s0) => assert (H0 : sct_same s s0) end.
    { destruct (_ && _)%bool; [apply sct_same_conns, conns_upd_msg|intros ? ?; reflexivity]. }
    revert H0. generalize (q1 :: qs). intros l.
    match goal with |- sct_same s ?s0 -> _ => generalize s0 end.
    induction l as [|qn r IH]; intros s0 H0; cbn [fold_left]; auto.
    apply IH. eapply sct_same_trans; [exact H0|apply sct_same_push_one]. }
  destruct (route_and_push fx s c h u) as [s1 e1]. cbn [fst] in *. destruct (fx_clear_current fx); auto.
  eapply sct_same_trans; [exact H1|]. unfold upd_chan. destruct (get_chan s1 c h) as [ch|] eqn:E; [|intros ? ?; reflexivity].
  apply (sct_same_set_chan s1 c h ch); auto.
Qed.
Lemma T3_sct s s' : sct_same s s' -> T3 s -> T3 s'.
Proof.
  intros H Ht c h ch' Hg Hst Hcf. specialize (H c h). rewrite Hg in H. destruct (get_chan s c h) as [ch|] eqn:Hg0; [|discriminate].
  cbn in H. inversion H as [[E1 E2 E3]]. rewrite E3. apply (Ht c h ch Hg0); congruence.
Qed.

Definition UWR (s : state) : Prop := UW s /\ Rest s.

Lemma Rest_finish fx s c h u ch :
  fx_clear_current fx = true -> routes_live s -> get_chan s c h = Some ch -> ch_cur ch = Some u -> UW s -> Rest s ->
  Rest (fst (finish_publish fx s c h u)).
Proof.
  intros Hfx Hlive Hgc Hcur [Hu Hw] [Hmin Ht]. split; [|eapply T3_sct; [apply sct_same_finish|exact Ht]].
  unfold finish_publish, route_and_push. rewrite Hfx.
  destruct (get_msg s u) as [m|] eqn:Hgm; cbn [fst].
  2:{ unfold upd_chan. rewrite Hgc. intros u0 m0 Hin Hcf. destruct (set_chan_frame s c h (ch <| ch_cur := None |>)) as (F1 & _ & _ & F4 & _).
      rewrite F1 in Hin. unfold pend, pending. rewrite F4. exact (Hmin u0 m0 Hin Hcf). }
  assert (Hframe : forall s1, heap s1 = heap s -> st_add s1 = st_add s -> Umin (upd_chan s1 c h (fun ch => ch <| ch_cur := None |>))).
  { intros s1 E1 E2 u0 m0 Hin Hcf. unfold upd_chan in *. destruct (get_chan s1 c h) as [ch1|].
    - destruct (set_chan_frame s1 c h (ch1 <| ch_cur := None |>)) as (F1 & _ & _ & F4 & _). rewrite F1, E1 in Hin.
      unfold pend, pending. rewrite F4, E2. exact (Hmin u0 m0 Hin Hcf).
    - rewrite E1 in Hin. unfold pend, pending. rewrite E2. exact (Hmin u0 m0 Hin Hcf). }
  assert (Hunr : Umin (upd_chan (add_confirm s c h (live_conf s m)) c h (fun ch => ch <| ch_cur := None |>))).
  { apply Hframe.
    - destruct (add_confirm_cases s c h (live_conf s m)) as [Es|(ch0 & c0 & h0 & t & _ & _ & Es)]; rewrite Es; auto. apply set_chan_frame.
    - destruct (add_confirm_cases s c h (live_conf s m)) as [Es|(ch0 & c0 & h0 & t & _ & _ & Es)]; rewrite Es; auto. apply set_chan_frame. }
  destruct (alookup seqb (m_ex m) (exchanges s)) as [ex|] eqn:Eex; cbn [fst]; [|exact Hunr].
  destruct (matched_queues _ ex (m_key m)) as [|q1 qs] eqn:Eqs; cbn [fst]; [exact Hunr|].
  clear Hunr Hframe. rewrite Hgc.
  destruct (aux_cur _ (un_aux _ Hu) c h ch Hgc u Hcur) as [Hult Hown]. specialize (Hown m Hgm).
  set (has_meta := match m_conf m with Some _ => true | None => false end).
  set (n := List.length (q1 :: qs)).
  set (sa := if ch_confirm ch && has_meta then upd_msg s u (fun m => m <| m_expected := Z.of_nat n |>) else s).
  set (ma := if ch_confirm ch && has_meta then m <| m_expected := Z.of_nat n |> else m).
  assert (Hsa : get_msg sa u = Some ma /\ heap sa = aset N.eqb u ma (heap s) /\ conns sa = conns s /\ queues sa = queues s /\
                st_add sa = st_add s /\ ci ma = ci m /\ m_pers ma = m_pers m /\ m_actual ma = m_actual m).
  { subst sa ma. destruct (ch_confirm ch && has_meta).
    - unfold upd_msg. rewrite Hgm. unfold get_msg. cbn. rewrite (alookup_aset N.eqb Neqb_spec), N.eqb_refl. repeat split; reflexivity.
    - repeat split; auto. unfold get_msg in Hgm. rewrite (aset_same _ _ _ Hgm). reflexivity. }
  destruct Hsa as (Hga & Hha & Hca & Hqa & Hada & Ecia & Epa & Eaa). inversion Ecia as [[Ea1 Ea2]].
  assert (Hgca : get_chan sa c h = Some ch) by (rewrite (get_chan_same_conns _ _ _ _ Hca); exact Hgc).
  destruct (fold_push_spec c h u (m_pers m) has_meta (q1 :: qs) sa ma ch Hga Epa) as (m1 & ch1 & L & F); auto.
  { subst has_meta. rewrite Ea1. destruct (m_conf m); [discriminate|intros; discriminate]. }
  { intros c0 h0 t Hx. rewrite Ea1 in Hx. destruct (Hown c0 h0 t Hx) as (a & b & _). auto. }
  set (s1 := fold_left (fun s qn => push_one s c h u (m_pers m) has_meta qn) (q1 :: qs) sa) in *.
  destruct F as [f1 f2 f3 f4 f5 f6 f7 f8 f9 f10 f11 f12 f13 f14 f15 f16 f17 f18].
  unfold upd_chan. rewrite f7.
  destruct (set_chan_frame s1 c h (ch1 <| ch_cur := None |>)) as (F1 & _ & _ & F4 & _).
  assert (Hh1 : heap s1 = aset N.eqb u m1 (heap s)).
  { rewrite f2, Hha. clear. induction (heap s) as [|[k v] t IH]; cbn; [rewrite N.eqb_refl; reflexivity|].
    destruct (u =? k) eqn:E; cbn; [rewrite N.eqb_refl; reflexivity|rewrite E, IH; reflexivity]. }
  intros u0 m0 Hin Hcf0. rewrite F1, Hh1 in Hin.
  assert (Hpe : forall x, pend (set_chan s1 c h (ch1 <| ch_cur := None |>)) x = pend s1 x) by (intros x; unfold pend, pending; rewrite F4; reflexivity).
  rewrite Hpe. unfold get_msg in Hgm.
  destruct (in_aset_keys _ _ _ _ _ _ (un_keys _ Hu) Hgm Hin) as [[-> ->]|[Hne Hin0]].
  - (* the routed message: one unit per matched queue *)
    inversion f3 as [[G1 G2]]. assert (Hcfm : m_conf m <> None) by congruence.
    destruct (un_c1 _ Hu c h ch u m Hgc Hcur Hgm Hcfm) as [Hcft He].
    destruct (un_max _ Hu u m (alookup_in N.eqb Neqb_spec _ _ _ Hgm) Hcfm) as [X Y].
    assert (Hlq : forall qn, In qn (q1 :: qs) -> live_q sa qn).
    { intros qn Hq. apply (live_q_queues s sa qn Hqa). rewrite <- Eqs in Hq. exact (Hlive _ _ _ _ _ Eex Hq). }
    pose proof (fold_push_units c h u (m_pers m) has_meta (q1 :: qs) sa ma Hga ltac:(congruence) Hlq) as Hun.
    fold s1 in Hun. unfold units, counted in Hun. rewrite f1, Hga in Hun. unfold pend. 
    assert (Hpa : pending sa u = pending s u) by (unfold pending; rewrite Hada; reflexivity).
    assert (Hma : m_expected ma = Z.of_nat n) by (subst ma; rewrite Hcft; subst has_meta; destruct (m_conf m); [reflexivity|congruence]).
    rewrite f4, Hma. rewrite Hpa, Eaa in Hun. unfold pend in Y. fold n in Hun. lia.
  - rewrite (pending_app_keys sa s1 L u u0 f14 f15). apply N.eqb_neq in Hne. rewrite Hne.
    unfold pend, pending. rewrite Hada. exact (Hmin u0 m0 Hin0 Hcf0).
Qed.

Lemma Rest_method cfg fx s c h m :
  fx_reopen_resets fx = true -> confirm_method m = true -> not_closing s c h -> UW s -> Rest s ->
  Rest (fst (fst (handle_method cfg fx s c h m))).
Proof.
  intros Hro Hcm Hnc [Hu _] Hr. unfold handle_method. destruct (get_chan s c h) as [ch|] eqn:Hch; [|exact Hr].
  destruct m; try discriminate; unfold ok, refuse.
  - destruct (ch_status ch) eqn:Est; cbn [fst]; auto.
    + apply (Rest_quiet s); auto. apply (quiet_set_chan s c h ch); auto; left; cbn; auto.
    + exfalso. exact (Hnc ch Hch Est).
    + rewrite Hro. apply (Rest_quiet s); auto. apply (quiet_set_chan s c h ch); auto; right; left; reflexivity.
  - destruct imm; [exact Hr|]. destruct (alookup seqb ex (exchanges s)); [|exact Hr]. destruct Hr as [Hmin Ht].
    assert (Hgen : forall ch2 m0, sct ch2 = sct ch -> m_expected m0 = 0%Z -> m_actual m0 = 0%Z ->
              Rest (set_chan (s <| heap := aset N.eqb (next_uid s) m0 (heap s) |> <| next_uid := next_uid s + 1 |>) c h ch2)).
    { intros ch2 m0 Es E1 E2. set (s1 := s <| heap := _ |> <| next_uid := _ |>).
      destruct (set_chan_frame s1 c h ch2) as (F1 & _ & _ & F4 & _). cbn [heap st_add set s1] in F1, F4. split.
      - intros u0 m1 Hin Hcf. rewrite F1 in Hin. unfold pend, pending. rewrite F4. apply in_aset in Hin. destruct Hin as [E|Hin].
        + inversion E; subst. rewrite E1, E2. pose proof (Nat2Z.is_nonneg (List.length (filter (fun k : N * string => fst k =? next_uid s) (st_add s)))). lia.
        + exact (Hmin u0 m1 Hin Hcf).
      - apply (T3_sct s); auto. apply (sct_same_trans s s1); [apply sct_same_conns; reflexivity|].
        apply (sct_same_set_chan s1 c h ch); auto. }
    destruct (ch_confirm ch); cbn [fst]; apply Hgen; reflexivity.
  - cbn [fst]. apply (Rest_quiet s); auto. apply (quiet_set_chan s c h ch); auto; right; right; left; reflexivity.
Qed.

Lemma Rest_ctick cfg fx s c h : Rest s -> Rest (fst (step cfg fx s (LConfirmTick c h))).
Proof.
  intros Hr. cbn [step]. destruct (get_chan s c h) as [ch|] eqn:Hg; [|exact Hr]. destruct (negb (ch_ticker ch)); [exact Hr|].
  destruct (ch_status ch) eqn:Est; cbn [fst]; apply (Rest_quiet s); auto; apply (quiet_set_chan s c h ch); auto;
    first [ left; cbn; auto; fail | right; right; right; left; exact Est ].
Qed.
Lemma Rest_relay cfg fx s : Rest s -> Rest (fst (step cfg fx s LRelay)).
Proof.
  intros Hr. cbn [step]. destruct (relay s) as [|u rest]; [exact Hr|].
  assert (H1 : Rest (s <| relay := rest |>)).
  { apply (Rest_quiet s); auto. split; [reflexivity|split; [reflexivity|]]. intros c h ch' Hg. left. exists ch'. auto. }
  destruct (get_msg _ u) as [m|]; cbn [fst]; auto. destruct (m_conf m) as [[[c0 h0] t0]|]; cbn [fst]; auto.
  set (s1 := s <| relay := rest |>) in *.
  destruct (add_confirm_cases s1 c0 h0 (live_conf s1 m)) as [Es|(ch & c1 & h1 & t & _ & Hg & Es)]; rewrite Es; auto.
  apply (Rest_quiet s1); auto. apply (quiet_set_chan s1 c0 h0 ch); auto; left; cbn; auto.
Qed.
Lemma Rest_tick cfg fx s : Units s -> Rest s -> Rest (fst (step cfg fx s LPersistTick)).
Proof.
  intros Hu [Hmin Ht]. cbn [step fst].
  match goal with |- context [fold_left ?f (?add ++ ?settled) ?sx] => set (L := add ++ settled); set (s0 := sx) end.
  assert (HL : forall u, cntk L u = pend s u).
  { intros u. unfold cntk, pend, pending, L. f_equal.
    apply (filter_partition_len (fun k : N * string => fst k =? u) (fun k => existsb (fun d => (fst d =? fst k) && seqb (snd d) (snd k)) (st_del s)) (st_add s)). }
  pose proof (tick_fold L s0 (un_keys _ Hu : Keys s0)) as [T1 T2 T3' T4 T5 T6]. set (s' := fold_left _ L s0) in *.
  change (heap s0) with (heap s) in T4. change (conns s0) with (conns s) in T1. split.
  - intros u m' Hin Hcf'. destruct (heap_add_bwd _ _ _ _ _ T4 Hin) as (m & A & (X & Y & Z)). inversion X as [[X1 X2]].
    assert (Hcf : m_conf m <> None) by congruence. specialize (Hmin u m A Hcf). rewrite Y, Z, HL. destruct (m_conf m); [|congruence].
    pose proof (Nat2Z.is_nonneg (pending s' u)). unfold pend in *. lia.
  - apply (T3_sct s); auto. apply sct_same_conns. exact T1.
Qed.
Lemma Rest_restart cfg s : Rest s -> Rest (fst (restart cfg s)).
Proof.
  intros _. split.
  - intros u m Hin Hcf. unfold restart in Hin. cbn [fst heap] in Hin. apply in_map_iff in Hin. destruct Hin as ([u0 m0] & E & _).
    inversion E; subst. cbn in Hcf. congruence.
  - intros c h ch Hg. unfold restart, get_chan, get_conn in Hg. cbn in Hg. discriminate.
Qed.

Theorem UWR_step cfg fx s l :
  fx_clear_current fx = true -> fx_discard_closing fx = true -> fx_reopen_resets fx = true ->
  routes_live s -> UWR s -> fresh_step s l -> UWR (fst (step cfg fx s l)).
Proof.
  intros Hfx Hdisc Hro Hrl.
  assert (Hqf : forall s0 s1, queues s1 = queues s0 -> exchanges s1 = exchanges s0 -> routes_live s0 -> routes_live s1).
  { intros s0 s1 Eq Ee Hl en e b key qn Ha Hin. rewrite Ee in Ha. apply (live_q_queues s0 s1 qn Eq). eapply Hl; eauto. }
  apply (B_step cfg fx UWR routes_live Hqf (fun _ => True)); auto; try (destruct l; exact I).
  - intros s0 s1 Hv [Huw Hr]. split; [|apply (Rest_quiet s0); auto; apply quiet_vle; exact Hv].
    destruct Huw as [Hu Hw]. split; [eapply Units_vle; eauto|]. eapply WOK_trans; [exact Hw|apply (trans_of_mid s0 s1 []); [apply vle_mid; exact Hv|reflexivity]].
  - intros s0 c h [[Hu Hw] Hr]. split; [|apply (Rest_quiet s0); auto; apply quiet_ensure].
    split; [apply Units_ensure; auto|]. destruct (ensure_chan_tr s0 c h [] (un_aux _ Hu) eq_refl) as [_ T]. eapply WOK_trans; eauto.
  - intros s0 c h m Hcm Hnc [[Hu Hw] Hr]. split; [|apply Rest_method; auto; split; auto].
    split; [apply Units_method; auto|]. eapply WOK_TR0; [exact Hw|apply handle_method_tr; exact (un_aux _ Hu)].
  - intros s0 c [[Hu Hw] Hr]. split; [|apply (Rest_quiet s0); auto; apply quiet_delconn].
    split; [apply Units_delconn; auto|]. destruct (del_conn_tr s0 c [] (un_aux _ Hu) eq_refl) as [_ T]. eapply WOK_trans; eauto.
  - intros s0 c h u ch Hl Hg Hcur [[Hu Hw] Hr]. split; [|apply (Rest_finish fx s0 c h u ch); auto; split; auto].
    split; [apply (Units_finish fx s0 c h u ch); auto; apply (Hw c h ch Hg)|].
    destruct (finish_publish_tr fx s0 c h u ch [] Hfx (un_aux _ Hu) Hg Hcur eq_refl) as [_ T]. eapply WOK_trans; eauto.
  - intros s0 c h ch Hg [[Hu Hw] Hr]. split; [|apply (Rest_quiet s0); auto; apply (quiet_set_chan s0 c h ch); auto; left; cbn; auto].
    split; [apply Units_drop; auto|]. eapply WOK_TR0; [exact Hw|apply drop_tr; auto; exact (un_aux _ Hu)].
  - intros s0 [[Hu Hw] Hr]. split; [|apply Rest_tick; auto].
    split; [apply Units_tick; auto|]. eapply WOK_trans; [exact Hw|apply (trans_of_mid s0 _ []); [apply persist_tick_mid|reflexivity]].
  - intros s0 [[Hu Hw] Hr]. split; [|apply Rest_relay; auto].
    split; [apply Units_relay; auto|]. eapply WOK_trans; [exact Hw|apply (trans_of_mid s0 _ []); [apply relay_step_mid|reflexivity]].
  - intros s0 c h [[Hu Hw] Hr]. split; [|apply Rest_ctick; auto].
    split; [apply Units_ctick; auto|]. destruct (confirm_tick_tr cfg fx s0 c h (un_aux _ Hu)) as [_ T]. eapply WOK_trans; eauto.
  - intros s0 c cn _ Ecn Hch Hfr [[Hu Hw] Hr]. split; [|apply (Rest_quiet s0); auto; apply quiet_newconn; auto].
    split; [apply Units_newconn; auto|]. destruct (new_conn_tr s0 c cn [] Ecn Hch Hfr (un_aux _ Hu) eq_refl) as [_ T]. eapply WOK_trans; eauto.
  - intros s0 [[Hu Hw] Hr]. split; [|apply Rest_restart; auto].
    split; [apply Units_restart; auto|]. destruct (restart_tr cfg s0 (un_aux _ Hu)) as [_ T]. eapply WOK_trans; eauto.
Qed.

Fixpoint routes_live_along (cfg : config) (fx : fixes) (s : state) (ls : list label) : Prop :=
  routes_live s /\ match ls with [] => True | l :: t => routes_live_along cfg fx (fst (step cfg fx s l)) t end.

Lemma UWR_init cfg : UWR (init cfg).
Proof.
  split; [apply UW_init|]. split.
  - intros u m [].
  - intros c h ch Hg. unfold get_chan, get_conn in Hg. cbn in Hg. discriminate.
Qed.

Theorem UWR_run cfg fx ls : forall s,
  fx_clear_current fx = true -> fx_discard_closing fx = true -> fx_reopen_resets fx = true ->
  UWR s -> fresh_along cfg fx s ls -> routes_live_along cfg fx s ls -> UWR (fst (run cfg fx s ls)).
Proof.
  induction ls as [|l t IH]; intros s H1 H2 H3 Hu Hfr Hrl; [exact Hu|].
  destruct Hfr as [Hf1 Hf2]. destruct Hrl as [Hr1 Hr2]. rewrite run_cons. apply IH; auto. apply UWR_step; auto.
Qed.

Lemma flat_map_nil {X Y} (f : X -> list Y) l : flat_map f l = [] -> forall x, In x l -> f x = [].
Proof.
  induction l as [|a r IH]; cbn; [tauto|]. intros H x [<-|Hx]; apply app_eq_nil in H; destruct H; auto.
Qed.

Lemma flat_map_all_nil {X Y} (f : X -> list Y) l : (forall x, In x l -> f x = []) -> flat_map f l = [].
Proof. induction l as [|a r IH]; cbn; auto. intros H. rewrite (H a (or_introl eq_refl)), IH; auto. Qed.

Lemma quiescent_parts s : quiescent s = true ->
  st_add s = [] /\ relay s = [] /\
  forall c h ch, get_chan s c h = Some ch -> ch_ticker ch = true -> ch_confirmq ch = [].
Proof.
  unfold quiescent. destruct (enabled_internal s) eqn:E; [|discriminate]. intros _. unfold enabled_internal in E.
  apply app_eq_nil in E. destruct E as [_ E]. apply app_eq_nil in E. destruct E as [_ E]. apply app_eq_nil in E. destruct E as [_ E].
  apply app_eq_nil in E. destruct E as [E4 E]. apply app_eq_nil in E. destruct E as [E5 E6].
  split; [destruct (st_add s); [reflexivity|discriminate]|]. split; [destruct (relay s); [reflexivity|discriminate]|].
  intros c h ch Hg Ht. unfold get_chan, get_conn in Hg. destruct (alookup N.eqb c (conns s)) as [cn|] eqn:Ec; [|discriminate].
  apply (alookup_in N.eqb Neqb_spec) in Ec. apply (alookup_in N.eqb Neqb_spec) in Hg.
  pose proof (flat_map_nil _ _ E6 (c, cn) Ec) as H1. cbn [snd fst] in H1.
  pose proof (flat_map_nil _ _ H1 (h, ch) Hg) as H2. cbn [snd fst] in H2. rewrite Ht in H2.
  destruct (ch_confirmq ch); [reflexivity|discriminate].
Qed.

(* AT LEAST ONCE AT REST (partial: under the run-level hypothesis that every queue a publish can be routed to exists and
   is active at every state of the run - an invariant of the model that is not proved here).
   In a reachable quiescent state nothing is in flight on an open confirm-mode channel that is not assembling a
   message: every number taken by a publish whose content was completed has been acknowledged. *)
Theorem confirm_all_at_rest_partial cfg fx ls c h ch :
  fx_clear_current fx = true -> fx_discard_closing fx = true -> fx_reopen_resets fx = true ->
  fresh_along cfg fx (init cfg) ls -> routes_live_along cfg fx (init cfg) ls ->
  let s := fst (run cfg fx (init cfg) ls) in
  quiescent s = true -> get_chan s c h = Some ch -> ch_status ch = ChOpen -> ch_confirm ch = true -> ch_cur ch = None ->
  where_is s c h = [].
Proof.
  intros H1 H2 H3 Hfr Hrl s Hq Hg Hst Hcf Hcur.
  destruct (UWR_run cfg fx ls (init cfg) H1 H2 H3 (UWR_init cfg) Hfr Hrl) as [[Hu Hw] [Hmin Ht]]. fold s in Hu, Hw, Hmin, Ht.
  destruct (quiescent_parts s Hq) as (Ea & Er & Hqq).
  unfold where_is. rewrite Hg. unfold where_ch.
  rewrite (Hqq c h ch Hg (Ht c h ch Hg (or_introl Hst) Hcf)), Hcur. cbn [cur_part app]. rewrite app_nil_r.
  unfold relay_part. rewrite Er. cbn [flat_map app].
  unfold heap_part. apply flat_map_all_nil. intros [u m] Hin. cbn [snd].
  destruct (waiting (ch_inst ch) m) eqn:Ew; [|reflexivity]. unfold for_chan.
  destruct (m_conf m) as [[[c0 h0] t]|] eqn:Ecf; [|reflexivity]. exfalso.
  assert (Hcfn : m_conf m <> None) by congruence. specialize (Hmin u m Hin Hcfn).
  unfold waiting in Ew. apply andb_prop in Ew. destruct Ew as [_ Ew]. apply Z.ltb_lt in Ew.
  unfold pend, pending in Hmin. rewrite Ea in Hmin. cbn in Hmin. lia.
Qed.

(* ------------------------------------------------------------------ *)
(* the two hypotheses of the at-most-once theorem cannot be dropped *)
Definition ex_cfg : config := {| cfg_rabbit := true; cfg_rollback := true; cfg_release_first := false |}.
Definition ex_pub (c h : N) (ex key : string) (k : N) (pers : bool) : list label :=
  [LMethod c h (MPublish ex key false false); LHeader c h k 3 pers; LBody c h 3].
(* connection 1, channel 1 in confirm mode; durable queues d1 d2 and transient queue t1 bound to amq.fanout *)
Definition ex_setup : list label :=
  [LConnect 1; LMethod 1 1 MChannelOpen; LMethod 1 1 (MConfirmSelect false);
   LMethod 1 1 (MQDeclare "d1" true false false false false); LMethod 1 1 (MQDeclare "d2" true false false false false);
   LMethod 1 1 (MQDeclare "t1" false false false false false);
   LMethod 1 1 (MQBind "d1" "amq.fanout" "" [] false); LMethod 1 1 (MQBind "d2" "amq.fanout" "" [] false);
   LMethod 1 1 (MQBind "t1" "amq.fanout" "" [] false)].

(* a connection id that is taken again while a message published under its previous use still waits for the store: the
   old message's confirmation reaches the new connection's channel, which never published (fresh_along excludes this;
   the broker draws connection ids from a counter and never uses one twice) *)
Example confirm_only_published_refuted_conn_id_reused :
  let ls := ex_setup ++ ex_pub 1 1 "amq.fanout" "" 1 true ++
            [LSocketLoss 1; LConnect 1; LMethod 1 1 MChannelOpen; LMethod 1 1 (MConfirmSelect false); LPersistTick; LRelay; LConfirmTick 1 1] in
  let s := fst (run ex_cfg all_fixed (init ex_cfg) ls) in
  acked_run ex_cfg all_fixed (init ex_cfg) ls 1 1 = [1] /\
  match get_chan s 1 1 with Some ch => ch_ctag ch = 0 | None => False end.
Proof. vm_compute. split; reflexivity. Qed.

(* without the repair of F37 (the current message is not cleared once complete) an empty body frame routes the message
   a second time: an unroutable message is confirmed at once each time, so its number is acknowledged twice *)
Definition fixes_without_clear_current : fixes :=
  {| fx_direct_all := true; fx_redelivered := true; fx_delete_checks_first := true; fx_noack_total_once := true;
     fx_get_count := true; fx_closeok_releases := true; fx_excl_owner := true; fx_clear_current := false; fx_not_impl := true;
     fx_empty_body := true; fx_discard_closing := true; fx_nowait := true; fx_stage := true; fx_reopen_resets := true; fx_chan_open := true |}.
Example confirm_at_most_once_refuted_without_clear_current :
  let ls := ex_setup ++ ex_pub 1 1 "amq.direct" "nobody" 1 false ++ [LBody 1 1 0; LConfirmTick 1 1] in
  acked_run ex_cfg fixes_without_clear_current (init ex_cfg) ls 1 1 = [1; 1].
Proof. vm_compute. reflexivity. Qed.

(* ------------------------------------------------------------------ *)
(* decidable forms of the run-level hypotheses (for concrete runs) *)
Definition BI (s : state) : Prop :=
  forall en e bd, In (en, e) (exchanges s) -> In bd (e_bindings e) -> live_q s (b_queue bd).
Lemma matched_queues_in b e key qn : In qn (matched_queues b e key) -> exists bd, In bd (e_bindings e) /\ b_queue bd = qn.
Proof.
  unfold matched_queues. destruct (e_type e).
  - set (ms := map b_queue (filter (fun b0 => seqb (b_key b0) key) (e_bindings e))).
    assert (Hms : In qn ms -> exists bd, In bd (e_bindings e) /\ b_queue bd = qn).
    { intros H. apply in_map_iff in H. destruct H as (bd & E & H). apply filter_In in H. exists bd. tauto. }
    destruct b.
    + intros H. apply Hms. destruct ms as [|x r]; cbn in H; [destruct H|]. destruct H as [<-|[]]. left. reflexivity.
    + intros H. apply Hms. apply (proj2 (dedup_acc_spec [] ms)) in H. tauto.
  - intros H. apply (proj2 (dedup_acc_spec [] _)) in H. destruct H as [H _]. apply in_map_iff in H. destruct H as (bd & E & H). eauto.
  - intros H. apply (proj2 (dedup_acc_spec [] _)) in H. destruct H as [H _]. apply in_map_iff in H. destruct H as (bd & E & H).
    apply filter_In in H. exists bd. tauto.
  - intros [].
Qed.
Lemma BI_routes_live s : BI s -> routes_live s.
Proof.
  intros H en e b key qn Ha Hin. destruct (matched_queues_in b e key qn Hin) as (bd & Hb & <-).
  apply (H en e bd); auto. apply (alookup_in seqb seqb_spec). exact Ha.
Qed.
Definition live_qb (s : state) (qn : string) : bool := match get_queue s qn with Some qu => q_active qu | None => false end.
Definition BIb (s : state) : bool := forallb (fun kv => forallb (fun bd => live_qb s (b_queue bd)) (e_bindings (snd kv))) (exchanges s).
Lemma BIb_BI s : BIb s = true -> BI s.
Proof.
  unfold BIb. intros H en e bd Hin Hb. rewrite forallb_forall in H. specialize (H _ Hin). cbn in H. rewrite forallb_forall in H.
  specialize (H _ Hb). unfold live_qb in H. unfold live_q. destruct (get_queue s (b_queue bd)) as [qu|]; [eauto|discriminate].
Qed.
Fixpoint routes_live_alongb (cfg : config) (fx : fixes) (s : state) (ls : list label) : bool :=
  BIb s && match ls with [] => true | l :: t => routes_live_alongb cfg fx (fst (step cfg fx s l)) t end.
Lemma routes_live_alongb_ok cfg fx ls : forall s, routes_live_alongb cfg fx s ls = true -> routes_live_along cfg fx s ls.
Proof.
  induction ls as [|l t IH]; intros s H; cbn in *; apply andb_prop in H; destruct H as [H1 H2]; (split; [apply BI_routes_live, BIb_BI; exact H1|auto]).
Qed.
Definition conn_unnamedb (s : state) (c : N) : bool :=
  forallb (fun kv : N * msg => match m_conf (snd kv) with Some (c', _, _) => negb (c' =? c) | None => true end) (heap s).
Lemma conn_unnamedb_ok s c : conn_unnamedb s c = true -> conn_unnamed s c.
Proof.
  unfold conn_unnamedb. intros H u m h t Hin Ecf. rewrite forallb_forall in H. specialize (H _ Hin). cbn in H. rewrite Ecf, N.eqb_refl in H. discriminate.
Qed.
Definition fresh_stepb (s : state) (l : label) : bool :=
  match l with
  | LConnect c | LAccept c => match get_conn s c with None => conn_unnamedb s c | Some _ => true end
  | _ => true
  end.
Fixpoint fresh_alongb (cfg : config) (fx : fixes) (s : state) (ls : list label) : bool :=
  match ls with [] => true | l :: t => fresh_stepb s l && fresh_alongb cfg fx (fst (step cfg fx s l)) t end.
Lemma fresh_alongb_ok cfg fx ls : forall s, fresh_alongb cfg fx s ls = true -> fresh_along cfg fx s ls.
Proof.
  induction ls as [|l t IH]; intros s H; cbn in *; auto. apply andb_prop in H. destruct H as [H1 H2]. split; auto.
  destruct l; cbn in *; auto; destruct (get_conn s c); try (intros; discriminate); intros _; apply conn_unnamedb_ok; exact H1.
Qed.

(* ------------------------------------------------------------------ *)
(* ROUTES ARE LIVE: every queue named by a binding exists (and every queue of the table is active: Proofs/BrokerQueueInv.v).
   Framing once more, for the exchange table and the set of queue names *)
Definition qgrow (s0 s : state) : Prop :=
  exchanges s = exchanges s0 /\ forall q, get_queue s0 q <> None -> get_queue s q <> None.
Lemma qgrow_refl s : qgrow s s. Proof. split; auto. Qed.
Lemma G_sameqe s0 s s1 : queues s1 = queues s -> exchanges s1 = exchanges s -> qgrow s0 s -> qgrow s0 s1.
Proof. intros A B [C D]. split; [congruence|]. intros q Hq. unfold get_queue. rewrite A. apply D. exact Hq. Qed.
Lemma G_set_queue s0 s q v : qgrow s0 s -> qgrow s0 (set_queue s q v).
Proof.
  intros [C D]. split; [exact C|]. intros q' Hq. rewrite get_queue_set_queue. destruct (seqb q' q); [discriminate|]. apply D. exact Hq.
Qed.
Lemma G_upd_queue s0 s q f : qgrow s0 s -> qgrow s0 (upd_queue s q f).
Proof. intros H. unfold upd_queue. destruct (get_queue s q); auto. apply G_set_queue. exact H. Qed.
Lemma G_queue_ackmsg s0 s qn u : qgrow s0 s -> qgrow s0 (queue_ackmsg s qn u).
Proof.
  intros H. unfold queue_ackmsg. destruct (get_queue s qn); auto. destruct (get_msg s u); auto. destruct (negb _); auto.
  apply G_set_queue. destruct (_ && _); (apply (G_sameqe s0 s); [reflexivity|reflexivity|exact H]).
Qed.
Lemma G_queue_remove_consumer s0 s qn c h tag : qgrow s0 s -> qgrow s0 (queue_remove_consumer s qn c h tag).
Proof.
  intros H. unfold queue_remove_consumer. destruct (get_queue s qn); auto.
  repeat match goal with |- context [if ?b then _ else _] => destruct b end;
    try (match goal with |- qgrow _ (@set _ _ _ _ _ ?sx) => apply (G_sameqe s0 sx); [reflexivity|reflexivity|] end); apply G_set_queue; exact H.
Qed.
Lemma G_store_writeback s0 s qn u d : qgrow s0 s -> qgrow s0 (store_writeback s qn u d).
Proof. intros H. unfold store_writeback. destruct (_ && _ && _); exact H. Qed.
Lemma G_store_purge s0 s qn : qgrow s0 s -> qgrow s0 (store_purge s qn).
Proof. intros H. unfold store_purge. apply (G_sameqe s0 s); [reflexivity|reflexivity|exact H]. Qed.
Lemma G_set_chan s0 s c h ch ch' :
  get_chan s c h = Some ch -> chw ch' = chw ch -> st_moves (ch_status ch) (ch_status ch') -> qgrow s0 s -> qgrow s0 (set_chan s c h ch').
Proof. intros _ _ _ H. destruct (set_chan_frame s c h ch') as (_ & _ & _ & _ & A & B & _). eapply G_sameqe; eauto. Qed.
Lemma G_upd_chan s0 s c h f :
  (forall ch, chw (f ch) = chw ch /\ st_moves (ch_status ch) (ch_status (f ch))) -> qgrow s0 s -> qgrow s0 (upd_chan s c h f).
Proof.
  intros _ H. unfold upd_chan. destruct (get_chan s c h) as [ch|]; auto.
  destruct (set_chan_frame s c h (f ch)) as (_ & _ & _ & _ & A & B & _). eapply G_sameqe; eauto.
Qed.
(* the queue view does not read the channel table at all *)
Lemma G_upd_chan_any s0 s c h f : qgrow s0 s -> qgrow s0 (upd_chan s c h f).
Proof.
  intros H. unfold upd_chan. destruct (get_chan s c h) as [ch|]; auto.
  destruct (set_chan_frame s c h (f ch)) as (_ & _ & _ & _ & A & B & _). eapply G_sameqe; eauto.
Qed.
Lemma G_upd_msg s0 s u f : (forall m, mv (f m) = mv m) -> qgrow s0 s -> qgrow s0 (upd_msg s u f).
Proof. intros _ H. eapply G_sameqe; [apply queues_upd_msg|apply exchanges_upd_msg|exact H]. Qed.
Lemma G_conn_qos s0 s c cn f :
  get_conn s c = Some cn -> qgrow s0 s -> qgrow s0 (s <| conns := aset N.eqb c (cn <| cn_qos ::= f |>) (conns s) |>).
Proof. intros _ H. apply (G_sameqe s0 s); [reflexivity|reflexivity|exact H]. Qed.
Lemma G_set_stage s0 s c st : qgrow s0 s -> qgrow s0 (set_stage s c st).
Proof. intros H. eapply G_sameqe; [apply queues_set_stage| |exact H]. unfold set_stage. destruct (get_conn s c); reflexivity. Qed.

Ltac gs := first
  [ first [ apply G_set_queue | apply G_upd_queue | apply G_queue_ackmsg | apply G_queue_remove_consumer
          | apply G_store_writeback | apply G_store_purge ]
  | match goal with |- qgrow _ (@set _ _ _ _ _ ?s) => apply (G_sameqe _ s); [reflexivity|reflexivity|] end ].
Ltac gkeep := apply G_upd_chan; [intros ?; split; [reflexivity|first [apply st_moves_refl | right; right; reflexivity | right; left; reflexivity]]|].
Ltac gmsg := apply G_upd_msg; [intros ?; reflexivity|].
Ltac gsc := repeat (first [ assumption
                          | match goal with |- qgrow _ (if ?b then _ else _) => destruct b end
                          | match goal with |- qgrow _ (match ?x with _ => _ end) => destruct x eqn:? end
                          | gs | gkeep | gmsg | eapply G_conn_qos; [eassumption|] ]).
Ltac gset Hch := eapply G_set_chan; [exact Hch|reflexivity|first [apply st_moves_refl|right; right; reflexivity]|].
Definition queue_method (m : meth) : bool :=
  match m with MExDeclare _ _ _ _ _ _ _ | MQDeclare _ _ _ _ _ _ | MQBind _ _ _ _ _ | MQUnbind _ _ _ _ | MQDelete _ _ _ _ => true | _ => false end.

Section GFrame.
Variable s0 : state.
Notation I := (qgrow s0).

Lemma G_queue_requeue s qn u : I s -> I (queue_requeue s qn u).
Proof.
  intros H. unfold queue_requeue. destruct (get_queue s qn); auto. destruct (negb _); auto. gsc.
Qed.

Lemma G_wake s c h tag : I s -> I (fst (wake_consumer s c h tag)).
Proof.
  intros H. unfold wake_consumer. destruct (get_chan s c h) as [ch|] eqn:E; auto.
  destruct (find_consumer ch tag) as [cm|]; auto. destruct (consume_msg cm) as [cm' b]. cbn [fst].
  eapply G_set_chan; [exact E|reflexivity|apply st_moves_refl|exact H].
Qed.

Lemma G_consumer_stop s c h tag : I s -> I (consumer_stop s c h tag).
Proof.
  intros H. unfold consumer_stop. destruct (get_chan s c h) as [ch|] eqn:E; auto.
  destruct (find_consumer ch tag) as [cm|]; auto.
  destruct (c_status cm); auto; gs; (eapply G_set_chan; [exact E|reflexivity|apply st_moves_refl|exact H]).
Qed.

Lemma G_wake_all s c h : I s -> I (wake_all_of_chan s c h).
Proof. intros H. unfold wake_all_of_chan. gkeep. exact H. Qed.

Lemma G_wake_consumers cfg s c h : I s -> I (wake_consumers cfg s c h).
Proof.
  intros H. unfold wake_consumers. pose proof (G_wake_all s c h H) as H1.
  destruct (cfg_rabbit cfg); auto. destruct (get_conn _ c) as [cn|]; auto.
  apply fold_left_preserves; auto. intros s1 x H0. destruct (fst x =? h); auto. apply G_wake_all; auto.
Qed.

Lemma G_dec_qos cfg s c h u : I s -> I (dec_qos_and_consume_next cfg s c h u).
Proof.
  intros H. unfold dec_qos_and_consume_next. destruct (get_chan s c h) as [ch|]; auto.
  apply G_wake_consumers. gsc.
Qed.

Lemma G_chan_ackmsg s u : I s -> I (chan_ackmsg s u).
Proof. intros H. unfold chan_ackmsg. destruct (origin_queue s u); gsc. Qed.
Lemma G_chan_rejectmsg s u r : I s -> I (chan_rejectmsg s u r).
Proof.
  intros H. unfold chan_rejectmsg. destruct (origin_queue s u); [|gsc].
  destruct r; [apply G_queue_requeue; auto|gsc].
Qed.

Lemma G_del_unacked s c h tag : I s -> I (upd_chan s c h (fun ch => del_unacked ch tag)).
Proof. intros H. gkeep. exact H. Qed.

Lemma G_handle_reject cfg s c h tag mult requeue cls mth : I s -> I (fst (handle_reject cfg s c h tag mult requeue cls mth)).
Proof.
  intros H. unfold handle_reject. destruct (get_chan s c h) as [ch|]; auto.
  destruct mult.
  - cbn [fst]. apply fold_left_preserves; [intros; apply G_dec_qos; auto|].
    apply fold_left_preserves; auto. intros s1 a H0. apply G_chan_rejectmsg. apply G_del_unacked; auto.
  - destruct (find _ _); cbn [fst]; auto. apply G_dec_qos. apply G_chan_rejectmsg. apply G_del_unacked; auto.
Qed.

Lemma G_handle_ack cfg s c h tag mult : I s -> I (fst (handle_ack cfg s c h tag mult)).
Proof.
  intros H. unfold handle_ack. destruct (get_chan s c h) as [ch|]; auto.
  destruct mult.
  - cbn [fst]. apply fold_left_preserves; [intros; apply G_dec_qos; auto|].
    apply fold_left_preserves; auto. intros s1 a H0. apply G_chan_ackmsg. apply G_del_unacked; auto.
  - destruct (find _ _); cbn [fst]; auto. apply G_dec_qos. apply G_chan_ackmsg. apply G_del_unacked; auto.
Qed.

Lemma G_channel_close cfg s c h : I s -> I (channel_close cfg s c h).
Proof.
  intros H. unfold channel_close. destruct (get_chan s c h) as [ch|] eqn:Ech; auto.
  apply G_upd_chan_any.
  assert (H2 : I (upd_chan (fold_left (fun s cm => consumer_stop s c h (c_tag cm)) (ch_consumers ch) s) c h
                     (fun ch => ch <| ch_consumers := [] |>))).
  { gkeep. apply fold_left_preserves; auto. intros; apply G_consumer_stop; auto. }
  destruct (0 <? h); auto. apply G_handle_reject; auto.
Qed.

Lemma G_cancel_fold l : forall s evs, I s ->
  I (fst (fold_left (fun acc x => let '(s, evs) := acc in let '(s', e) := consumer_cancel s x in (s', evs ++ e)) l (s, evs))).
Proof.
  induction l as [|[[c h] tag] t IH]; intros s evs H; simpl; auto.
  apply IH. apply G_consumer_stop; auto.
Qed.



Lemma G_store_windows cfg s c h tag ws : I s -> I (store_windows cfg s c h tag ws).
Proof.
  intros H. unfold store_windows. destruct ws as [|w1 [|w2 [|]]]; auto.
  destruct (cfg_rabbit cfg); [gsc|]. destruct (get_conn _ c) eqn:Ec; gsc.
Qed.

Lemma G_consumer_turn cfg fx s c h tag : I s -> I (fst (consumer_turn cfg fx s c h tag)).
Proof.
  intros H. unfold consumer_turn.
  destruct (get_chan s c h) as [ch|] eqn:Ech; auto.
  destruct (find_consumer ch tag) as [cm|] eqn:Efc; auto.
  destruct (negb (c_token cm)); auto.
  set (s1 := set_chan s c h _).
  assert (H0 : I s1) by (subst s1; eapply G_set_chan; [exact Ech|reflexivity|apply st_moves_refl|exact H]).
  clearbody s1.
  destruct (c_status cm); auto.
  all: destruct (get_queue s1 (c_queue cm)) as [qu|]; auto.
  all: destruct (negb (q_active qu)); auto.
  all: destruct (q_ready qu) as [|u rest]; auto.
  all: match goal with |- context [if c_noack ?cm0 then (Some [], []) else ?r] => destruct (if c_noack cm0 then (Some [], []) else r) as [okr ws] end.
  all: set (s2 := if c_noack cm then s1 else store_windows cfg s1 c h tag ws).
  all: assert (H1 : I s2) by (subst s2; destruct (c_noack cm); auto; apply G_store_windows; auto).
  all: clearbody s2.
  all: destruct okr; cbn [fst]; auto.
  all: match goal with |- context [wake_consumer ?st ?c0 ?h0 ?tag0] => destruct (wake_consumer st c0 h0 tag0) as [s9 b9] eqn:Ew;
         apply fst_pair in Ew; cbn [fst]; subst s9; apply G_wake end.
  all: gsc.
Qed.

Lemma G_queue_loop_turn s qn : I s -> I (queue_loop_turn s qn).
Proof.
  intros H. unfold queue_loop_turn. destruct (get_queue s qn) as [qu|]; auto. destruct (negb (q_call qu)); auto.
  destruct (Nat.eqb _ 0); [gs; auto|]. gs.
  apply fold_left_preserves; [|gs; auto]. intros s1 [[c h] tag] H0. apply G_wake; auto.
Qed.

Lemma G_send_error s c h e : I s -> I (fst (send_error s c h e)).
Proof. intros H. destruct e; cbn [send_error fst]; auto. gkeep. exact H. Qed.

Lemma G_apply_err s c h r : I (fst (fst r)) -> I (fst (apply_err s c h r)).
Proof.
  destruct r as [[s1 e1] [e|]]; cbn [fst]; auto.
  intros H. unfold apply_err. pose proof (G_send_error s1 c h e H) as Hs.
  destruct (send_error s1 c h e) as [s2 e2]. exact Hs.
Qed.
End GFrame.

Lemma G_handle_method cfg fx s c h m : confirm_method m = false -> queue_method m = false -> qgrow s (fst (fst (handle_method cfg fx s c h m))).
Proof.
  intros Hcm Hqm. pose proof (qgrow_refl s) as H. unfold handle_method.
  destruct (get_chan s c h) as [ch|] eqn:Hch; [|exact H].
  destruct m; try discriminate; unfold ok, refuse.
  - cbn [fst]. apply G_channel_close; auto.
  - cbn [fst]. destruct (fx_closeok_releases fx); [apply G_channel_close; auto|gset Hch; auto].
  - cbn [fst]. destruct (Bool.eqb _ _); auto. destruct a; (gset Hch; auto).
  - destruct (fx_not_impl fx); exact H.
  - destruct (queue_found s q) as [qu|]; [|exact H]. destruct (locked _ _); [exact H|]. cbn [fst]. gsc.
  - cbn [fst]. apply G_wake_consumers. destruct (cfg_rabbit cfg); [destruct glob; (gset Hch; auto)|].
    destruct glob; [|gset Hch; auto]. destruct (get_conn s c) eqn:Ec; auto; eapply G_conn_qos; eauto.
  - (* MConsume *)
    destruct (queue_found s q) as [qu|]; [|exact H].
    destruct (fx_excl_owner fx && locked qu c); [exact H|].
    destruct (find_consumer ch _); [exact H|].
    destruct (_ && _)%bool; cbn [fst].
    + gs. auto.
    + destruct (seqb tag ""%string); (gset Hch; repeat gs; auto).
  - (* MCancel *)
    destruct (find_consumer ch tag); [|exact H]. cbn [fst].
    gkeep. gkeep. apply G_consumer_stop. exact H.
  - (* MGet *)
    destruct (queue_found s q) as [qu|]; [|exact H].
    destruct (fx_excl_owner fx && locked qu c); [exact H|].
    destruct (q_ready qu) as [|u rest]; [exact H|].
    match goal with |- context [if noack then (Some [], []) else ?r] => destruct (if noack then (Some [], []) else r) as [okr ws] end.
    set (s1 := match ws with [w1; w2] => _ | _ => s end).
    assert (H1 : qgrow s s1).
    { subst s1. destruct ws as [|w1 [|w2 [|]]]; auto.
      destruct (get_conn _ c) eqn:Ec.
      - eapply G_conn_qos; eauto. gset Hch. auto.
      - gset Hch. auto. }
    clearbody s1.
    destruct okr; cbn [fst]; [|exact H1].
    destruct noack; gsc.
  - pose proof (G_handle_ack s cfg s c h tag mult H) as Ha.
    destruct (handle_ack cfg s c h tag mult) as [s1 e1]. exact Ha.
  - pose proof (G_handle_reject s cfg s c h tag mult requeue 60 120 H) as Ha.
    destruct (handle_reject cfg s c h tag mult requeue 60 120) as [s1 e1]. exact Ha.
  - pose proof (G_handle_reject s cfg s c h tag false requeue 60 90 H) as Ha.
    destruct (handle_reject cfg s c h tag false requeue 60 90) as [s1 e1]. exact Ha.
  - exact H.
  - destruct (fx_not_impl fx); exact H.
  - exact H.
  - exact H.
  - destruct good; [cbn [fst]; apply G_set_stage; exact H|exact H].
  - destruct within; [cbn [fst]; apply G_set_stage; exact H|exact H].
  - destruct vhost_ok; [cbn [fst]; apply G_set_stage; exact H|exact H].
Qed.

From GMQ Require Import Proofs.BrokerQueueInv Proofs.BrokerRestart.

Definition BIx (s : state) : Prop :=
  forall en e bd, In (en, e) (exchanges s) -> In bd (e_bindings e) -> get_queue s (b_queue bd) <> None.
Lemma BIx_qgrow s0 s : qgrow s0 s -> BIx s0 -> BIx s.
Proof. intros [A B] H en e bd Hin Hb. rewrite A in Hin. apply B. eapply H; eauto. Qed.

Lemma in_remove_first {A} (p : A -> bool) l x : In x (remove_first p l) -> In x l.
Proof. induction l as [|a r IH]; cbn; auto. destruct (p a); cbn; tauto. Qed.

Lemma BIx_vhost_delete_queue b s qn iu ie : BIx s -> BIx (fst (fst (vhost_delete_queue b s qn iu ie))).
Proof.
  intros H. unfold vhost_delete_queue. destruct (get_queue s qn) as [qu|] eqn:Eq; auto.
  destruct (_ || _).
  - cbn [fst]. destruct b; auto. apply (BIx_qgrow s); auto. apply G_set_queue, qgrow_refl.
  - pose proof (G_cancel_fold s (q_consumers qu) s [] (qgrow_refl s)) as Hf.
    destruct (fold_left _ (q_consumers qu) (s, [])) as [s1 e1]. cbn [fst] in *.
    pose proof (BIx_qgrow s s1 Hf H) as H1.
    set (s2 := if q_durable qu then store_purge s1 qn else s1).
    assert (H2 : BIx s2) by (subst s2; destruct (q_durable qu); auto; apply (BIx_qgrow s1); auto; apply G_store_purge, qgrow_refl).
    clearbody s2. intros en e' bd Hin Hb. cbn [exchanges queues set] in *.
    apply in_map_iff in Hin. destruct Hin as ([en0 e0] & E & Hin0). inversion E; subst en e'. cbn [fst snd] in *.
    unfold remove_queue_bindings in Hb. cbn in Hb. apply filter_In in Hb. destruct Hb as [Hb Hne].
    unfold get_queue. cbn. rewrite (alookup_adel seqb seqb_spec). apply Bool.negb_true_iff in Hne. rewrite Hne.
    exact (H2 en0 e0 bd Hin0 Hb).
Qed.

Lemma in_append_binding e b0 bd : In bd (e_bindings (append_binding e b0)) -> bd = b0 \/ In bd (e_bindings e).
Proof.
  unfold append_binding. destruct (existsb _ _); auto. cbn. intros H. apply in_app_or in H. destruct H as [H|[H|[]]]; auto.
Qed.

Lemma G_set_chan_any s0 s c h ch' : qgrow s0 s -> qgrow s0 (set_chan s c h ch').
Proof. intros H. destruct (set_chan_frame s c h ch') as (_ & _ & _ & _ & A & B & _). eapply G_sameqe; eauto. Qed.

Lemma BIx_handle_method cfg fx s c h m : BIx s -> BIx (fst (fst (handle_method cfg fx s c h m))).
Proof.
  intros H. destruct (queue_method m) eqn:Hqm.
  2:{ destruct (confirm_method m) eqn:Hcm; [|apply (BIx_qgrow s); auto; apply G_handle_method; auto].
      unfold handle_method. destruct (get_chan s c h) as [ch|] eqn:Hch; [|exact H].
      destruct m; try discriminate; unfold ok, refuse.
      - destruct (ch_status ch); cbn [fst]; auto; apply (BIx_qgrow s); auto; apply G_set_chan_any, qgrow_refl.
      - destruct imm; auto. destruct (alookup seqb ex (exchanges s)); auto.
        destruct (ch_confirm ch); cbn [fst]; apply (BIx_qgrow s); auto;
          apply G_set_chan_any; (apply (G_sameqe s s); [reflexivity|reflexivity|apply qgrow_refl]).
      - cbn [fst]. apply (BIx_qgrow s); auto. apply G_set_chan_any, qgrow_refl. }
  unfold handle_method. destruct (get_chan s c h) as [ch|] eqn:Hch; [|exact H].
  destruct m; try discriminate; unfold ok, refuse.
  - (* MExDeclare *)
    destruct (extype_of type); [|exact H].
    repeat match goal with |- context [if ?b then _ else _] => destruct b end; cbn [fst]; auto.
    all: repeat match goal with |- context [match ?x with _ => _ end] => destruct x end; cbn [fst]; auto.
    all: intros en e' bd Hin Hb; cbn [exchanges set] in Hin; apply in_aset in Hin; destruct Hin as [E|Hin];
      [inversion E; subst; destruct Hb|exact (H en e' bd Hin Hb)].
  - (* MQDeclare *)
    destruct (seqb name ""); [exact H|].
    destruct (queue_found s name) as [qu|].
    + repeat match goal with |- context [if ?b then _ else _] => destruct b end; cbn [fst]; auto.
    + destruct passive; [destruct nowait; exact H|]. cbn [fst].
      intros en e' bd Hin Hb. cbn [exchanges set] in Hin. apply in_map_iff in Hin. destruct Hin as ([en0 e0] & E & Hin0).
      assert (Hq : forall q0, get_queue s q0 <> None \/ q0 = name ->
                   get_queue (set_queue (s <| next_qid ::= N.succ |>) name (new_queue (next_qid s) c dur excl ad) <| exchanges ::= map
                     (fun kv => if seqb (fst kv) "" then (fst kv, append_binding (snd kv) {| b_queue := name; b_key := name; b_args := [] |}) else kv) |>) q0 <> None).
      { intros q0 Hq0. unfold get_queue. cbn. rewrite (alookup_aset seqb seqb_spec). destruct (seqb q0 name) eqn:Eq0; [discriminate|].
        destruct Hq0 as [Hq0|Hq0]; [exact Hq0|]. subst. rewrite (proj2 (seqb_spec name name) eq_refl) in Eq0. discriminate. }
      apply Hq. cbn [fst snd] in E. destruct (seqb en0 ""); inversion E; subst en e'.
      * apply in_append_binding in Hb. destruct Hb as [->|Hb]; [right; reflexivity|left; exact (H en0 e0 bd Hin0 Hb)].
      * left. exact (H en0 e0 bd Hin0 Hb).
  - (* MQBind *)
    destruct (alookup seqb ex (exchanges s)) as [e|] eqn:Eex; [|exact H]. destruct (seqb ex ""); [exact H|].
    destruct (queue_found s q) as [qu|] eqn:Eqf; [|exact H]. destruct (locked _ _); [exact H|]. destruct (bad_xmatch _); [exact H|]. destruct (extype_eqb _ ExTopic && bad_pattern _)%bool; [exact H|]. cbn [fst].
    intros en e' bd Hin Hb. cbn [exchanges set] in Hin. apply in_aset in Hin. change (get_queue (s <| exchanges := _ |>) (b_queue bd)) with (get_queue s (b_queue bd)).
    destruct Hin as [E|Hin]; [|exact (H en e' bd Hin Hb)]. inversion E; subst en e'.
    apply in_append_binding in Hb. destruct Hb as [->|Hb]; [cbn; rewrite (queue_found_get _ _ _ Eqf); discriminate|].
    apply (alookup_in seqb seqb_spec) in Eex. exact (H ex e bd Eex Hb).
  - (* MQUnbind *)
    destruct (alookup seqb ex (exchanges s)) as [e|] eqn:Eex; [|exact H].
    destruct (queue_found s q) as [qu|] eqn:Eqf; [|exact H]. destruct (locked _ _); [exact H|]. destruct (bad_xmatch _); [exact H|]. destruct (extype_eqb _ ExTopic && bad_pattern _)%bool; [exact H|]. cbn [fst].
    intros en e' bd Hin Hb. cbn [exchanges set] in Hin. apply in_aset in Hin. change (get_queue (s <| exchanges := _ |>) (b_queue bd)) with (get_queue s (b_queue bd)).
    destruct Hin as [E|Hin]; [|exact (H en e' bd Hin Hb)]. inversion E; subst en e'.
    unfold remove_binding in Hb. cbn in Hb. apply in_remove_first in Hb.
    apply (alookup_in seqb seqb_spec) in Eex. exact (H ex e bd Eex Hb).
  - (* MQDelete *)
    destruct (queue_found s q); [|exact H]. destruct (locked _ _); [exact H|].
    pose proof (BIx_vhost_delete_queue (negb (fx_delete_checks_first fx)) s q ifunused ifempty H) as Hd.
    destruct (vhost_delete_queue _ s q ifunused ifempty) as [[s1 e1] r1]. cbn [fst] in *. destruct r1; exact Hd.
Qed.

Lemma G_upd_msg_any s0 s u f : qgrow s0 s -> qgrow s0 (upd_msg s u f).
Proof. intros H. eapply G_sameqe; [apply queues_upd_msg|apply exchanges_upd_msg|exact H]. Qed.
Lemma G_add_confirm s0 s c h x : qgrow s0 s -> qgrow s0 (add_confirm s c h x).
Proof.
  intros H. destruct (add_confirm_cases s c h x) as [Es|(ch & c0 & h0 & t & _ & _ & Es)]; rewrite Es; auto. apply G_set_chan_any. exact H.
Qed.
Lemma G_queue_push s0 s qn u : qgrow s0 s -> qgrow s0 (queue_push s qn u).
Proof.
  intros H. unfold queue_push. destruct (get_queue s qn); auto. destruct (get_msg s u) as [m|]; auto. destruct (negb _); auto.
  apply G_set_queue. destruct (_ && _); [apply (G_sameqe s0 s); [reflexivity|reflexivity|exact H]|].
  destruct (m_conf m); [|apply (G_sameqe s0 s); [reflexivity|reflexivity|exact H]].
  apply G_upd_msg_any. apply (G_sameqe s0 s); [reflexivity|reflexivity|exact H].
Qed.
Lemma G_finish_publish s0 fx s c h u : qgrow s0 s -> qgrow s0 (fst (finish_publish fx s c h u)).
Proof.
  intros H. unfold finish_publish.
  assert (H1 : qgrow s0 (fst (route_and_push fx s c h u))).
  { unfold route_and_push. destruct (get_msg s u) as [m|]; auto.
    destruct (alookup _ _ _); cbn [fst]; [|apply G_add_confirm; auto].
    destruct (matched_queues _ _ _) as [|q1 qs]; cbn [fst]; [apply G_add_confirm; auto|].
    apply fold_left_preserves.
    - intros s1 qn H1. unfold push_one. pose proof (G_queue_push s0 s1 qn u H1) as H2.
      destruct (get_msg (queue_push s1 qn u) u); auto. destruct (_ && _)%bool; auto. apply G_add_confirm; auto.
    - destruct (_ && _)%bool; auto. apply G_upd_msg_any. exact H. }
  destruct (route_and_push fx s c h u) as [s1 e1]. cbn [fst] in *. destruct (fx_clear_current fx); auto.
  unfold upd_chan. destruct (get_chan s1 c h); auto. apply G_set_chan_any. exact H1.
Qed.
Lemma G_store_confirm s0 s u : qgrow s0 s -> qgrow s0 (store_confirm s u).
Proof.
  intros H. apply (G_sameqe s0 s); auto; [apply queues_store_confirm|].
  unfold store_confirm. destruct (get_msg s u) as [m|] eqn:E; auto. destruct (m_conf m); auto.
  destruct (_ =? _)%Z; cbn; apply exchanges_upd_msg.
Qed.

Lemma alookup_of_existsb {V} (l : list (string * V)) q : existsb (fun kv => seqb (fst kv) q) l = true -> alookup seqb q l <> None.
Proof.
  induction l as [|[k v] r IH]; cbn [existsb alookup fst]; [discriminate|]. intros H. unfold seqb in *. rewrite (String.eqb_sym q k).
  destruct (String.eqb k q); [discriminate|]. cbn in H. apply IH. exact H.
Qed.
Lemma BIx_restart cfg s : BIx (fst (restart cfg s)).
Proof.
  intros en e' bd Hin Hb. unfold restart in *. cbn [fst exchanges queues] in *. unfold get_queue. cbn [queues].
  apply in_map_iff in Hin. destruct Hin as ([en0 e0] & E & _). inversion E; subst en e'. cbn in Hb. apply filter_In in Hb. destruct Hb as [_ Hk].
  rewrite (get_queue_map_rq _ _ (b_queue bd)).
  pose proof (alookup_of_existsb _ _ Hk) as Hx. destruct (alookup seqb (b_queue bd) _); [discriminate|congruence].
Qed.

Lemma BIx_conn_close cfg fx s c : BIx s -> BIx (fst (conn_close cfg fx s c)).
Proof.
  intros H. unfold conn_close. destruct (get_conn s c) as [cn|]; [|exact H].
  set (s1 := fold_left _ _ s).
  assert (H1 : BIx s1).
  { apply (BIx_qgrow s); auto. subst s1. apply fold_left_preserves; [intros; apply G_channel_close; auto|apply qgrow_refl]. }
  clearbody s1.
  assert (Hd : forall l s2 evs, BIx s2 -> BIx (fst (fold_left (fun acc qn => let '(s, evs) := acc in
            let '(s', e, _) := vhost_delete_queue (negb (fx_delete_checks_first fx)) s qn false false in (s', evs ++ e)) l (s2, evs)))).
  { induction l as [|x t IH]; intros s2 evs H2; simpl; auto.
    pose proof (BIx_vhost_delete_queue (negb (fx_delete_checks_first fx)) s2 x false false H2) as Hx.
    destruct (vhost_delete_queue _ s2 x false false) as [[s3 e3] r3]. cbn [fst] in Hx. apply IH. exact Hx. }
  specialize (Hd (map fst (filter (fun kv => q_excl (snd kv) && (q_owner (snd kv) =? c)) (queues s1))) s1 [] H1).
  destruct (fold_left _ _ (s1, [])) as [s2 e2]. cbn [fst] in *. apply (BIx_qgrow s2); auto. apply (G_sameqe s2 s2); [reflexivity|reflexivity|apply qgrow_refl].
Qed.
Lemma BIx_apply_err s c h r : BIx (fst (fst r)) -> BIx (fst (apply_err s c h r)).
Proof. intros H. apply (BIx_qgrow (fst (fst r))); auto. apply G_apply_err. apply qgrow_refl. Qed.
Lemma BIx_apply_err_st cfg fx opened s c h r : BIx (fst (fst r)) -> BIx (fst (apply_err_st cfg fx opened s c h r)).
Proof.
  intros H. unfold apply_err_st. destruct opened; [apply BIx_apply_err; auto|].
  destruct (snd r) as [[| ]|]; try (apply BIx_apply_err; auto).
  pose proof (BIx_apply_err s c h r H) as H1. destruct (apply_err s c h r) as [s1 e1]. cbn [fst] in H1.
  pose proof (BIx_conn_close cfg fx s1 c H1) as H2. destruct (conn_close cfg fx s1 c) as [s2 e2]. exact H2.
Qed.
Lemma BIx_ensure s c h : BIx s -> BIx (ensure_chan s c h).
Proof. intros H. apply (BIx_qgrow s); auto. apply (G_sameqe s s); [apply queues_ensure_chan|apply exchanges_ensure_chan|apply qgrow_refl]. Qed.

Theorem BIx_step cfg fx s l : BIx s -> BIx (fst (step cfg fx s l)).
Proof.
  intros H. destruct l; cbn [step].
  - destruct (get_conn s c); cbn [fst]; exact H.
  - destruct (get_conn s c) as [cn0|]; [|exact H].
    destruct (negb _ && negb _)%bool; [apply BIx_conn_close; auto|].
    pose proof (BIx_ensure s c h H) as H0.
    destruct m.
    all: try (repeat match goal with |- context [if ?b then _ else _] => destruct b end;
              first [ exact H0 | apply BIx_apply_err; first [ apply BIx_handle_method; exact H0 | exact H0 ]
                    | apply BIx_apply_err_st; first [ apply BIx_handle_method; exact H0 | exact H0 ] ]).
    + destruct (fx_stage fx && negb (h =? 0)); [apply BIx_apply_err; exact H0|].
      pose proof (BIx_conn_close cfg fx _ c H0) as Hc. destruct (conn_close cfg fx (ensure_chan s c h) c) as [s1 e1]. exact Hc.
    + destruct (fx_stage fx && negb (h =? 0)); [apply BIx_apply_err; exact H0|]. apply BIx_conn_close; auto.
  - destruct (get_conn s c) as [cn0|]; [|exact H].
    destruct (negb _ && negb _)%bool; [apply BIx_conn_close; auto|].
    pose proof (BIx_ensure s c h H) as H0.
    destruct (get_chan _ c h) as [ch|]; [|exact H0].
    destruct (_ && _)%bool; [exact H0|].
    destruct (ch_cur ch) as [u|]; [|apply BIx_apply_err_st; exact H0].
    destruct (get_msg _ u) as [m|]; [|exact H0].
    destruct (m_has_header m); [apply BIx_apply_err_st; exact H0|].
    apply (BIx_qgrow (ensure_chan s c h)); auto.
    destruct (_ && _)%bool; [apply G_finish_publish|]; (apply G_upd_msg; [intros; reflexivity|apply qgrow_refl]).
  - destruct (get_conn s c) as [cn0|]; [|exact H].
    destruct (negb _ && negb _)%bool; [apply BIx_conn_close; auto|].
    pose proof (BIx_ensure s c h H) as H0.
    destruct (get_chan _ c h) as [ch|]; [|exact H0].
    destruct (_ && _)%bool; [exact H0|].
    destruct (ch_cur ch) as [u|]; [|apply BIx_apply_err_st; exact H0].
    destruct (get_msg _ u) as [m|]; [|exact H0].
    destruct (negb (m_has_header m)); [apply BIx_apply_err_st; exact H0|].
    destruct (_ <? _).
    { apply BIx_apply_err_st. cbn [fst refuse]. apply (BIx_qgrow (ensure_chan s c h)); auto. unfold upd_chan.
      destruct (get_chan _ c h); [apply G_set_chan_any|]; apply qgrow_refl. }
    apply (BIx_qgrow (ensure_chan s c h)); auto.
    destruct (_ <? _); [|apply G_finish_publish]; (apply G_upd_msg; [intros; reflexivity|apply qgrow_refl]).
  - apply (BIx_qgrow s); auto. apply G_consumer_turn. apply qgrow_refl.
  - cbn [fst]. apply (BIx_qgrow s); auto. apply G_queue_loop_turn. apply qgrow_refl.
  - destruct (autodel s) as [|qn rest]; [exact H|].
    assert (H0 : BIx (s <| autodel := rest |>)) by (apply (BIx_qgrow s); auto; apply (G_sameqe s s); [reflexivity|reflexivity|apply qgrow_refl]).
    destruct (get_queue _ qn) as [qu0|]; [|exact H0]. destruct (q_autodel qu0); [|exact H0].
    pose proof (BIx_vhost_delete_queue (negb (fx_delete_checks_first fx)) _ qn true false H0) as Hd.
    destruct (vhost_delete_queue _ (s <| autodel := rest |>) qn true false) as [[s1 e1] r1]. exact Hd.
  - cbn [fst]. apply (BIx_qgrow s); auto. apply fold_left_preserves; [intros; apply G_store_confirm; auto|].
    apply (G_sameqe s s); [reflexivity|reflexivity|apply qgrow_refl].
  - destruct (relay s) as [|u rest]; [exact H|].
    assert (H0 : qgrow s (s <| relay := rest |>)) by (apply (G_sameqe s s); [reflexivity|reflexivity|apply qgrow_refl]).
    apply (BIx_qgrow s); auto. destruct (get_msg _ u) as [m|]; cbn [fst]; auto.
    destruct (m_conf m) as [[[? ?] ?]|]; cbn [fst]; auto. apply G_add_confirm; auto.
  - destruct (get_chan s c h) as [ch|] eqn:Ech; [|exact H]. destruct (negb _); [exact H|].
    apply (BIx_qgrow s); auto. destruct (ch_status ch); cbn [fst]; apply G_set_chan_any, qgrow_refl.
  - pose proof (BIx_conn_close cfg fx s c H) as Hc. destruct (conn_close cfg fx s c) as [s1 e1]. exact Hc.
  - destruct (get_conn s c); cbn [fst]; exact H.
  - destruct (get_conn s c) as [cn0|]; [|exact H].
    destruct (negb _ && negb _)%bool; [apply BIx_conn_close; auto|].
    apply BIx_apply_err_st. cbn [fst refuse]. apply BIx_ensure; auto.
  - destruct (get_conn s c); [|exact H]. destruct (h =? 0); [exact H|apply BIx_conn_close; auto].
  - apply BIx_restart.
Qed.

Lemma routes_live_of s : BIx s -> QI s -> routes_live s.
Proof.
  intros Hb Hq en e b key qn Ha Hin. destruct (matched_queues_in b e key qn Hin) as (bd & Hbd & <-).
  apply (alookup_in seqb seqb_spec) in Ha. pose proof (Hb en e bd Ha Hbd) as Hx.
  destruct (get_queue s (b_queue bd)) as [qu|] eqn:Eq; [|congruence]. exists qu. split; auto.
  exact (proj2 (proj2 (proj2 (allq_get qinv s _ qu Hq Eq)))).
Qed.
Lemma routes_live_along_all cfg fx ls : forall s,
  fx_delete_checks_first fx = true -> BIx s -> QI s -> routes_live_along cfg fx s ls.
Proof.
  induction ls as [|l t IH]; intros s Hfx Hb Hq; cbn [routes_live_along]; (split; [apply routes_live_of; auto|auto]).
  apply IH; auto; [apply BIx_step; auto|apply QI_step; auto].
Qed.
Lemma BIx_init cfg : BIx (init cfg).
Proof.
  intros en e bd Hin Hb. cbn in Hin. repeat (destruct Hin as [E|Hin]; [inversion E; subst; destruct Hb|]). destruct Hin.
Qed.

(* AT LEAST ONCE AT REST: in a reachable quiescent state nothing is in flight on an open confirm-mode channel that is
   not assembling a message: every number taken by a publish whose content was completed has been handed to the
   channel and acknowledged *)
Theorem confirm_all_at_rest cfg fx ls c h ch :
  fx_clear_current fx = true -> fx_discard_closing fx = true -> fx_reopen_resets fx = true -> fx_delete_checks_first fx = true ->
  fresh_along cfg fx (init cfg) ls ->
  let s := fst (run cfg fx (init cfg) ls) in
  quiescent s = true -> get_chan s c h = Some ch -> ch_status ch = ChOpen -> ch_confirm ch = true -> ch_cur ch = None ->
  where_is s c h = [].
Proof.
  intros H1 H2 H3 H4 Hfr. apply confirm_all_at_rest_partial; auto.
  apply routes_live_along_all; auto; [apply BIx_init|apply QI_init].
Qed.

(* ------------------------------------------------------------------ *)
(* EXACTLY ONCE AT REST (partial).  With at-most-once and nothing-in-flight-at-rest, the acknowledged numbers are exactly
   1 .. ch_ctag as soon as no number was dropped.  That no number of a completed publish is dropped on a channel that
   stayed open is NOT proved here; the model drops a number exactly at these points:
     - basic.publish accepted while the previous message of the channel is still being assembled (ch_cur <> None): the
       previous message is abandoned with its number;
     - a body frame that exceeds the announced size (F55 repaired: the content is refused, ch_cur cleared);
     - channel.addConfirm on a closed channel; a confirmation of an earlier instance of the channel number;
     - the end of the instance (channel closed and opened again, connection lost, restart). *)
Definition nums (n : N) : list N := map N.of_nat (seq 1 (N.to_nat n)).
Lemma in_nums n t : In t (nums n) <-> 1 <= t <= n.
Proof.
  unfold nums. rewrite in_map_iff. split.
  - intros (k & <- & Hk). apply in_seq in Hk. lia.
  - intros H. exists (N.to_nat t). split; [apply N2Nat.id|]. apply in_seq. lia.
Qed.
Lemma NoDup_nums n : NoDup (nums n).
Proof. unfold nums. apply FinFun.Injective_map_NoDup; [intros a b E; apply Nat2N.inj; exact E|apply seq_NoDup]. Qed.

Theorem confirm_exactly_once_at_rest_partial cfg fx ls c h ch :
  fx_clear_current fx = true -> fx_discard_closing fx = true -> fx_reopen_resets fx = true -> fx_delete_checks_first fx = true ->
  fresh_along cfg fx (init cfg) ls ->
  let s := fst (run cfg fx (init cfg) ls) in
  quiescent s = true -> get_chan s c h = Some ch -> ch_status ch = ChOpen -> ch_confirm ch = true -> ch_cur ch = None ->
  (* no number was dropped *)
  (forall t, 1 <= t <= ch_ctag ch -> In t (acked_run cfg fx (init cfg) ls c h ++ where_is s c h)) ->
  Permutation (acked_run cfg fx (init cfg) ls c h) (nums (ch_ctag ch)).
Proof.
  intros H1 H2 H3 H4 Hfr s Hq Hg Hst Hcf Hcur Hacc.
  pose proof (confirm_all_at_rest cfg fx ls c h ch H1 H2 H3 H4 Hfr Hq Hg Hst Hcf Hcur) as Hw. fold s in Hw.
  destruct (confirm_at_most_once cfg fx ls c h ch H1 Hfr Hg) as [Hnd Hr]. fold s in Hnd, Hr. rewrite Hw, app_nil_r in *.
  apply NoDup_Permutation; [exact Hnd|apply NoDup_nums|]. intros t. rewrite in_nums. split.
  - intros Hin. rewrite Forall_forall in Hr. exact (Hr t Hin).
  - exact (Hacc t).
Qed.

(* ------------------------------------------------------------------ *)
(* a syntactic sufficient condition for fresh_along: no connection id occurs twice in the LConnect / LAccept labels of
   the run (the broker numbers its connections with a counter) *)
Definition conn_id_of (l : label) : list N := match l with LConnect c | LAccept c => [c] | _ => [] end.
Definition conn_ids (ls : list label) : list N := flat_map conn_id_of ls.
Definition NamedBy (U : N -> Prop) (s : state) : Prop :=
  (forall c, get_conn s c <> None -> U c) /\ (forall u m c h t, In (u, m) (heap s) -> m_conf m = Some (c, h, t) -> U c).
Definition AN (U : N -> Prop) (s : state) : Prop := Aux s /\ NamedBy U s.

Lemma NamedBy_mid U s0 s : mid s0 s -> NamedBy U s0 -> NamedBy U s.
Proof.
  intros [A B C D R] [H1 H2]. split.
  - intros c Hc. apply H1. intros Hn. apply Hc. apply A. exact Hn.
  - intros u m c h t Hin Ecf. destruct (proj_in ci _ _ u m D Hin) as (m0 & Hin0 & Epr). inversion Epr as [[E1 E2]].
    apply (H2 u m0 c h t Hin0). congruence.
Qed.
Lemma NamedBy_conns U s s' : heap s' = heap s -> (forall c, get_conn s' c <> None -> get_conn s c <> None) -> NamedBy U s -> NamedBy U s'.
Proof. intros Eh Hc [H1 H2]. split; [intros c X; apply H1, Hc, X|rewrite Eh; exact H2]. Qed.
Lemma get_conn_ensure s c h c' : get_conn (ensure_chan s c h) c' <> None -> get_conn s c' <> None.
Proof.
  unfold ensure_chan. destruct (get_conn s c) as [cn|] eqn:Ec; auto. destruct (alookup _ _ _); auto.
  unfold get_conn in *. cbn. rewrite (alookup_aset N.eqb Neqb_spec). destruct (c' =? c) eqn:E; auto.
  apply N.eqb_eq in E. subst. rewrite Ec. intros _. discriminate.
Qed.

Lemma AN_step cfg fx (U : N -> Prop) s l :
  fx_clear_current fx = true -> (forall c, In c (conn_id_of l) -> U c) -> AN U s -> fresh_step s l -> AN U (fst (step cfg fx s l)).
Proof.
  intros Hfx HU. apply (B_step cfg fx (AN U) (fun _ => True) (fun _ _ _ _ H => H) U); auto; try (destruct l; cbn; auto; apply HU; left; reflexivity).
  - intros s0 s1 Hv [Ha Hn]. split; [eapply Aux_mid; [apply vle_mid|]; eauto|eapply NamedBy_mid; [apply vle_mid|]; eauto].
  - intros s0 c h [Ha Hn]. split; [apply (ensure_chan_tr s0 c h [] Ha eq_refl)|].
    apply (NamedBy_conns U s0); auto; [unfold ensure_chan; destruct (get_conn s0 c); auto; destruct (alookup _ _ _); reflexivity|apply get_conn_ensure].
  - intros s0 c h m Hcm _ [Ha Hn]. split; [apply (handle_method_tr cfg fx s0 c h m Ha)|].
    unfold handle_method. destruct (get_chan s0 c h) as [ch|] eqn:Hch; [|exact Hn].
    assert (Hset : forall ch', NamedBy U (set_chan s0 c h ch')).
    { intros ch'. apply (NamedBy_conns U s0); auto; [apply set_chan_frame|intros c' X Y; apply X; apply get_conn_set_chan; exact Y]. }
    destruct m; try discriminate; unfold ok, refuse.
    + destruct (ch_status ch); cbn [fst]; auto.
    + destruct imm; auto. destruct (alookup seqb ex (exchanges s0)); auto.
      assert (Hc : U c) by (apply (proj1 Hn); eapply get_chan_conn; eauto).
      destruct (ch_confirm ch); cbn [fst].
      all: match goal with |- NamedBy _ (set_chan ?s1 _ _ _) =>
             apply (NamedBy_conns U s1); [apply set_chan_frame|intros c' X Y; apply X; apply get_conn_set_chan; exact Y|] end.
      all: destruct Hn as [N1 N2]; split; [exact N1|]; intros u m0 c0 h0 t0 Hin Ecf; cbn [heap set] in Hin; apply in_aset in Hin;
           destruct Hin as [E|Hin]; [inversion E; subst; cbn in Ecf; inversion Ecf; subst; exact Hc|exact (N2 u m0 c0 h0 t0 Hin Ecf)].
    + cbn [fst]. auto.
  - intros s0 c [Ha Hn]. split; [apply (del_conn_tr s0 c [] Ha eq_refl)|].
    apply (NamedBy_conns U s0); auto. intros c' X. unfold get_conn in *. cbn in X. rewrite (alookup_adel N.eqb Neqb_spec) in X. destruct (c' =? c); [congruence|exact X].
  - intros s0 c h u ch _ Hg Hcur [Ha Hn]. split; [apply (finish_publish_tr fx s0 c h u ch [] Hfx Ha Hg Hcur eq_refl)|].
    pose proof (route_and_push_midc fx s0 c h u ch Ha Hg Hcur) as Hmc. unfold finish_publish. destruct (route_and_push fx s0 c h u) as [s1 e1]. cbn [fst] in *.
    assert (Hn1 : NamedBy U s1).
    { destruct Hmc as [A B C D R]. destruct Hn as [N1 N2]. split.
      - intros c0 Hc0. apply N1. intros X. apply Hc0. apply A. exact X.
      - intros u0 m0 c0 h0 t0 Hin Ecf. destruct (proj_in ci _ _ u0 m0 D Hin) as (m1 & Hin1 & Epr). inversion Epr as [[E1 E2]].
        apply (N2 u0 m1 c0 h0 t0 Hin1). congruence. }
    rewrite Hfx. unfold upd_chan. destruct (get_chan s1 c h); auto.
    apply (NamedBy_conns U s1); auto; [apply set_chan_frame|intros c' X Y; apply X; apply get_conn_set_chan; exact Y].
  - intros s0 c h ch Hg [Ha Hn]. split; [apply (drop_tr s0 c h ch Ha Hg)|].
    apply (NamedBy_conns U s0); auto; [apply set_chan_frame|intros c' X Y; apply X; apply get_conn_set_chan; exact Y].
  - intros s0 [Ha Hn]. split; [eapply Aux_mid; [apply persist_tick_mid|exact Ha]|eapply NamedBy_mid; [apply persist_tick_mid|exact Hn]].
  - intros s0 [Ha Hn]. split; [eapply Aux_mid; [apply relay_step_mid|exact Ha]|eapply NamedBy_mid; [apply relay_step_mid|exact Hn]].
  - intros s0 c h [Ha Hn]. split; [apply (confirm_tick_tr cfg fx s0 c h Ha)|]. cbn [step].
    destruct (get_chan s0 c h) as [ch|]; auto. destruct (negb _); auto.
    destruct (ch_status ch); cbn [fst]; (apply (NamedBy_conns U s0); auto; [apply set_chan_frame|intros c' X Y; apply X; apply get_conn_set_chan; exact Y]).
  - intros s0 c cn Hc Ecn Hch Hfr [Ha Hn]. split; [apply (new_conn_tr s0 c cn [] Ecn Hch Hfr Ha eq_refl)|].
    destruct Hn as [N1 N2]. split; [|exact N2]. intros c' X. unfold get_conn in *. cbn in X. rewrite (alookup_aset N.eqb Neqb_spec) in X.
    destruct (c' =? c) eqn:E; [apply N.eqb_eq in E; subst; exact Hc|apply N1; exact X].
  - intros s0 [Ha Hn]. split; [apply (restart_tr cfg s0 Ha)|]. split.
    + intros c X. unfold restart, get_conn in X. cbn in X. congruence.
    + intros u m c h t Hin Ecf. unfold restart in Hin. cbn [fst heap] in Hin. apply in_map_iff in Hin. destruct Hin as ([u0 m0] & E & _).
      inversion E; subst. cbn in Ecf. discriminate.
Qed.

Theorem fresh_along_of_distinct_ids cfg fx ls : forall s (used : list N),
  fx_clear_current fx = true -> AN (fun c => In c used) s -> NoDup (conn_ids ls) -> (forall c, In c (conn_ids ls) -> ~ In c used) ->
  fresh_along cfg fx s ls.
Proof.
  induction ls as [|l t IH]; intros s used Hfx Han Hnd Hdis; cbn [fresh_along]; auto.
  cbn [conn_ids flat_map] in Hnd, Hdis. fold (conn_ids t) in Hnd, Hdis.
  assert (Hfs : fresh_step s l).
  { destruct l; cbn; auto; intros _ u m h t0 Hin Ecf; (apply (Hdis c); [left; reflexivity|exact (proj2 (proj2 Han) u m c h t0 Hin Ecf)]). }
  split; auto.
  apply (IH _ (conn_id_of l ++ used)); auto.
  - apply AN_step; auto.
    + intros c Hc. apply in_or_app. left. exact Hc.
    + destruct Han as [Ha [N1 N2]]. split; auto. split; [intros c X; apply in_or_app; right; apply N1; exact X|].
      intros u m c h t0 Hin Ecf. apply in_or_app. right. exact (N2 u m c h t0 Hin Ecf).
  - apply NoDup_cnt. intros x. apply NoDup_cnt with (t := x) in Hnd. rewrite cnt_app in Hnd. lia.
  - intros c Hc Hx. apply in_app_or in Hx. destruct Hx as [Hx|Hx].
    + clear -Hnd Hc Hx. induction (conn_id_of l) as [|a r IHr]; [destruct Hx|]. cbn in Hnd. inversion Hnd as [|? ? Hni Hnd']; subst.
      destruct Hx as [->|Hx]; [apply Hni; apply in_or_app; right; exact Hc|auto].
    + apply (Hdis c); [apply in_or_app; right; exact Hc|exact Hx].
Qed.

Corollary fresh_along_init cfg fx ls : fx_clear_current fx = true -> NoDup (conn_ids ls) -> fresh_along cfg fx (init cfg) ls.
Proof.
  intros Hfx Hnd. apply (fresh_along_of_distinct_ids cfg fx ls (init cfg) []); auto.
  split; [apply (proj1 (Inv_init cfg))|]. split; [intros c X; unfold get_conn in X; cbn in X; congruence|intros u m c h t []].
Qed.


(* ================================================================== *)
(* EXACTLY ONCE: nothing is dropped.  The reverse of `mid`, for one channel: no number leaves where_nc *)
Definition closedb (s : state) (c h : N) : bool :=
  match get_chan s c h with Some ch => match ch_status ch with ChClosed => true | _ => false end | None => false end.

Section Keep.
Variables (c h : N).

Definition kch (s0 s : state) : Prop :=
  forall ch0 ch, get_chan s0 c h = Some ch0 -> get_chan s c h = Some ch ->
    forall t, (cnt t (where_nc s0 c h ch0) <= cnt t (where_nc s c h ch))%nat.
Lemma kch_refl s : kch s s.
Proof. intros ch0 ch H0 H1 t. rewrite H0 in H1. inversion H1. lia. Qed.
Lemma kch_trans s0 s1 s2 : mid s0 s1 -> kch s0 s1 -> kch s1 s2 -> kch s0 s2.
Proof.
  intros Hm K1 K2 ch0 ch2 H0 H2 t. destruct (get_chan s1 c h) as [ch1|] eqn:H1.
  - specialize (K1 ch0 ch1 H0 H1 t). specialize (K2 ch1 ch2 H1 H2 t). lia.
  - apply (mid_none _ _ c h Hm) in H1. congruence.
Qed.

Lemma where_nc_vla s0 s ch0 ch : vla s0 s -> get_chan s0 c h = Some ch0 -> get_chan s c h = Some ch ->
  where_nc s c h ch = where_nc s0 c h ch0.
Proof.
  intros [A B C D E] Hg0 Hg. specialize (A c h). unfold chan_le in A. rewrite Hg0, Hg in A. destruct A as [Ew _].
  unfold chw in Ew. inversion Ew as [[E1 E2 E3 E4 E5 E6]]. rewrite !where_nc_alt. unfold chan_inst. rewrite Hg, Hg0, E4, E5, D.
  rewrite (RP_mv _ _ _ (heap s) (heap s0)) by exact C. rewrite (HP_mv _ _ _ (heap s) (heap s0)) by exact C. reflexivity.
Qed.
Lemma kch_vla s0 s : vla s0 s -> kch s0 s.
Proof. intros Hv ch0 ch H0 H1 t. rewrite (where_nc_vla s0 s ch0 ch Hv H0 H1). lia. Qed.
Lemma kch_vle s0 s : vle s0 s -> kch s0 s.
Proof. intros Hv. apply kch_vla, vle_vla, Hv. Qed.

Lemma kch_build s s2 u m m' :
  get_msg s u = Some m -> ci m' = ci m -> heap s2 = aset N.eqb u m' (heap s) ->
  (forall ch ch2, get_chan s c h = Some ch -> get_chan s2 c h = Some ch2 -> ch_inst ch2 = ch_inst ch /\
     forall t, (cnt t (ch_confirmq ch) + cnt t (RP (Some (ch_inst ch)) c h (heap s) (relay s)) + cnt t (hp1 c h (ch_inst ch) m)
                <= cnt t (ch_confirmq ch2) + cnt t (RP (Some (ch_inst ch)) c h (heap s) (relay s2)) + cnt t (hp1 c h (ch_inst ch) m'))%nat) ->
  kch s s2.
Proof.
  intros Hg Eci Hh Hch ch ch2 Hg0 Hg2 t. unfold get_msg in Hg. destruct (Hch ch ch2 Hg0 Hg2) as [a e]. specialize (e t).
  rewrite !where_nc_alt, !cnt_app. unfold chan_inst. rewrite Hg0, Hg2, a, Hh.
  rewrite (RP_aset_ci _ _ _ _ _ _ _ _ Hg Eci).
  pose proof (cnt_HP_aset c h (ch_inst ch) (heap s) u m m' t Hg). lia.
Qed.
Lemma kch_build0 s s2 :
  heap s2 = heap s ->
  (forall ch ch2, get_chan s c h = Some ch -> get_chan s2 c h = Some ch2 -> ch_inst ch2 = ch_inst ch /\
     forall t, (cnt t (ch_confirmq ch) + cnt t (RP (Some (ch_inst ch)) c h (heap s) (relay s))
                <= cnt t (ch_confirmq ch2) + cnt t (RP (Some (ch_inst ch)) c h (heap s) (relay s2)))%nat) ->
  kch s s2.
Proof.
  intros Hh Hch ch ch2 Hg0 Hg2 t. destruct (Hch ch ch2 Hg0 Hg2) as [a e]. specialize (e t).
  rewrite !where_nc_alt, !cnt_app. unfold chan_inst. rewrite Hg0, Hg2, a, Hh. lia.
Qed.

(* msgstorage.confirm never drops *)
Lemma store_confirm_kch s u : kch s (store_confirm s u).
Proof.
  unfold store_confirm. destruct (get_msg s u) as [m|] eqn:Hm; [|apply kch_refl].
  destruct (m_conf m) as [[[c0 h0] t0]|] eqn:Ecf; [|apply kch_refl].
  set (m1 := m <| m_actual ::= Z.succ |>).
  assert (Hup : upd_msg s u (fun m => m <| m_actual ::= Z.succ |>) = s <| heap := aset N.eqb u m1 (heap s) |>)
    by (unfold upd_msg; rewrite Hm; reflexivity).
  rewrite Hup.
  destruct (Z.succ (m_actual m) =? m_expected m)%Z eqn:Ez.
  - apply Z.eqb_eq in Ez. apply (kch_build s _ u m m1); auto.
    intros ch ch2 Hg0 Hg2. change (get_chan (s <| heap := aset N.eqb u m1 (heap s) |> <| relay ::= fun l => l ++ [u] |>) c h) with (get_chan s c h) in Hg2.
    rewrite Hg0 in Hg2. inversion Hg2; subst ch2. split; auto. intros t. cbn [relay set].
    rewrite RP_app, cnt_app. unfold RP at 3. cbn [flat_map]. unfold get_msg in Hm. rewrite Hm, app_nil_r.
    rewrite cnt_rp, !cnt_hp1. change (m_conf m1) with (m_conf m). rewrite Ecf.
    change (m_inst m1) with (m_inst m). change (m_actual m1) with (Z.succ (m_actual m)). change (m_expected m1) with (m_expected m).
    rewrite (N.eqb_sym (ch_inst ch) (m_inst m)).
    destruct ((c0 =? c) && (h0 =? h) && (m_inst m =? ch_inst ch)); cbn [andb]; [|lia].
    destruct (Z.succ (m_actual m) <? m_expected m)%Z eqn:E1, (m_actual m <? m_expected m)%Z eqn:E2; cbn [andb]; try lia.
  - apply (kch_build s _ u m m1); auto.
    intros ch ch2 Hg0 Hg2. change (get_chan (s <| heap := aset N.eqb u m1 (heap s) |>) c h) with (get_chan s c h) in Hg2.
    rewrite Hg0 in Hg2. inversion Hg2; subst ch2. split; auto. intros t. cbn [relay set]. rewrite !cnt_hp1.
    change (m_conf m1) with (m_conf m). rewrite Ecf.
    change (m_inst m1) with (m_inst m). change (m_actual m1) with (Z.succ (m_actual m)). change (m_expected m1) with (m_expected m).
    destruct ((c0 =? c) && (h0 =? h) && (m_inst m =? ch_inst ch)); cbn [andb]; [|lia].
    destruct (Z.succ (m_actual m) <? m_expected m)%Z eqn:E1, (m_actual m <? m_expected m)%Z eqn:E2; cbn [andb]; try lia.
Qed.
Lemma persist_tick_kch cfg fx s : kch s (fst (step cfg fx s LPersistTick)).
Proof.
  cbn [step fst].
  match goal with |- kch s (fold_left ?f ?l ?sx) => set (s0 := sx); assert (H0 : mid s s0 /\ kch s s0); [|generalize dependent s0; induction l as [|k r IH]; intros s0 [M K]; cbn [fold_left]; auto] end.
  - assert (Hv : vla s s0) by (constructor; try reflexivity; try tauto; intros; apply chan_le_refl). split; [apply vla_mid|apply kch_vla]; exact Hv.
  - apply IH. split; [eapply mid_trans; [exact M|apply store_confirm_mid]|eapply kch_trans; [exact M|exact K|apply store_confirm_kch]].
Qed.

(* guards: a live message's channel is in confirm mode; the channel is not closed *)
Definition live_confirm (s : state) : Prop := forall u m t0 ch,
  get_msg s u = Some m -> m_conf m = Some (c, h, t0) -> get_chan s c h = Some ch -> m_inst m = ch_inst ch -> ch_confirm ch = true.
Definition not_closed (s : state) : Prop := forall ch, get_chan s c h = Some ch -> ch_status ch <> ChClosed.

Lemma add_confirm_other s c0 h0 x : (c0 =? c) && (h0 =? h) = false -> get_chan (add_confirm s c0 h0 x) c h = get_chan s c h.
Proof.
  intros Eb. destruct (add_confirm_cases s c0 h0 x) as [Es|(ch & c1 & h1 & t & _ & Hg & Es)]; rewrite Es; auto.
  rewrite get_chan_set_chan. destruct (get_conn s c0); auto. rewrite (N.eqb_sym c c0), (N.eqb_sym h h0), Eb. reflexivity.
Qed.
Lemma add_confirm_frame s c0 h0 x : heap (add_confirm s c0 h0 x) = heap s /\ relay (add_confirm s c0 h0 x) = relay s.
Proof.
  destruct (add_confirm_cases s c0 h0 x) as [Es|(ch & c1 & h1 & t & _ & Hg & Es)]; rewrite Es; auto.
  destruct (set_chan_frame s c0 h0 (ch <| ch_confirmq ::= fun l => l ++ [t] |>)) as (A & B & _). auto.
Qed.
Lemma add_confirm_live s ch t c1 h1 :
  get_chan s c h = Some ch -> ch_confirm ch = true -> ch_status ch <> ChClosed ->
  add_confirm s c h (Some (c1, h1, t)) = set_chan s c h (ch <| ch_confirmq ::= fun l => l ++ [t] |>).
Proof. intros Hg Hc Hs. unfold add_confirm. rewrite Hg, Hc. cbn [negb]. destruct (ch_status ch); congruence. Qed.

Lemma relay_step_kch cfg fx s : live_confirm s -> not_closed s -> kch s (fst (step cfg fx s LRelay)).
Proof.
  intros Hlc Hst. cbn [step]. destruct (relay s) as [|u rest] eqn:Er; [apply kch_refl|].
  change (get_msg (s <| relay := rest |>) u) with (get_msg s u).
  assert (Hdrop : (forall m, get_msg s u = Some m -> forall i, rp (Some i) c h m = []) -> kch s (s <| relay := rest |>)).
  { intros Hrp. apply kch_build0; auto. intros ch ch2 Hg0 Hg2. change (get_chan (s <| relay := rest |>) c h) with (get_chan s c h) in Hg2.
    rewrite Hg0 in Hg2. inversion Hg2; subst ch2. split; auto. intros t. cbn [relay set]. rewrite Er.
    change (u :: rest) with ([u] ++ rest). rewrite RP_app, cnt_app. unfold RP at 1. cbn [flat_map]. fold (get_msg s u).
    destruct (get_msg s u) as [m|] eqn:Hm; [rewrite (Hrp m eq_refl)|]; cbn; lia. }
  destruct (get_msg s u) as [m|] eqn:Hgm; cbn [fst]; [|apply Hdrop; intros; discriminate].
  destruct (m_conf m) as [[[c0 h0] t0]|] eqn:Ecf; cbn [fst]; [|apply Hdrop; intros m0 E i; inversion E; subst; unfold rp; rewrite Ecf; reflexivity].
  set (s1 := s <| relay := rest |>) in *.
  destruct ((c0 =? c) && (h0 =? h)) eqn:Eb.
  - apply andb_prop in Eb. destruct Eb as [E1 E2]. apply N.eqb_eq in E1, E2. subst c0 h0.
    unfold live_conf. rewrite Ecf. change (get_chan s1 c h) with (get_chan s c h).
    destruct (get_chan s c h) as [ch|] eqn:Hgc.
    2:{ rewrite add_confirm_none. intros ch0 ch2 H0. congruence. }
    destruct (ch_inst ch =? m_inst m) eqn:Ei.
    2:{ rewrite add_confirm_none. apply kch_build0; auto. intros ch0 ch2 Hg0 Hg2. change (get_chan s1 c h) with (get_chan s c h) in Hg2.
        rewrite Hg0 in Hg2. inversion Hg2; subst ch2. rewrite Hgc in Hg0. inversion Hg0; subst ch0. split; auto. intros t. cbn [relay set s1]. rewrite Er.
        change (u :: rest) with ([u] ++ rest). rewrite RP_app, cnt_app. unfold RP at 1. cbn [flat_map]. fold (get_msg s u). rewrite Hgm, app_nil_r.
        rewrite cnt_rp, Ecf, Ei, !andb_false_r. cbn. lia. }
    apply N.eqb_eq in Ei.
    rewrite (add_confirm_live s1 ch t0 c h Hgc (Hlc u m t0 ch Hgm Ecf Hgc (eq_sym Ei)) (Hst ch Hgc)).
    set (ch2 := ch <| ch_confirmq ::= fun l => l ++ [t0] |>).
    destruct (set_chan_frame s1 c h ch2) as (F1 & F2 & _).
    apply kch_build0; auto. intros ch0 ch3 Hg0 Hg3. rewrite Hgc in Hg0. inversion Hg0; subst ch0.
    rewrite (get_chan_set_chan_same s1 c h ch2) in Hg3 by (eapply get_chan_conn; exact Hgc). inversion Hg3; subst ch3.
    split; auto. intros t. rewrite F2. cbn [relay set s1 ch_confirmq ch2]. rewrite Er.
    change (u :: rest) with ([u] ++ rest). rewrite RP_app, !cnt_app. unfold RP at 1. cbn [flat_map]. fold (get_msg s u). rewrite Hgm, app_nil_r.
    rewrite cnt_rp, Ecf, !N.eqb_refl, Ei, N.eqb_refl. cbn [andb]. rewrite cnt_one. lia.
  - destruct (add_confirm_frame s1 c0 h0 (live_conf s1 m)) as [F1 F2].
    apply kch_build0; auto. intros ch0 ch3 Hg0 Hg3. rewrite (add_confirm_other s1 c0 h0 _ Eb) in Hg3. change (get_chan s1 c h) with (get_chan s c h) in Hg3.
    rewrite Hg0 in Hg3. inversion Hg3; subst ch3. split; auto. intros t. rewrite F2. cbn [relay set s1]. rewrite Er.
    change (u :: rest) with ([u] ++ rest). rewrite RP_app, !cnt_app. unfold RP at 1. cbn [flat_map]. fold (get_msg s u). rewrite Hgm, app_nil_r.
    rewrite cnt_rp, Ecf, Eb. cbn. lia.
Qed.

(* one push never drops the number of its message, given that the message's channel is in confirm mode and not closed *)
Definition push_guard (s : state) (c2 h2 : N) (m : msg) : Prop :=
  (c2 =? c) && (h2 =? h) = true -> m_conf m <> None ->
  forall ch, get_chan s c h = Some ch -> m_inst m = ch_inst ch /\ ch_confirm ch = true /\ ch_status ch <> ChClosed.

Lemma push_one_kch s c2 h2 u pers has_meta qn m :
  get_msg s u = Some m -> m_pers m = pers -> (has_meta = true <-> m_conf m <> None) ->
  (forall c0 h0 t, m_conf m = Some (c0, h0, t) -> c0 = c2 /\ h0 = h2) -> push_guard s c2 h2 m ->
  kch s (push_one s c2 h2 u pers has_meta qn).
Proof.
  intros Hm Hp Hmeta Hown Hgd. unfold push_one. fold (counted_flag s qn pers). rewrite <- Hp.
  destruct (queue_push_spec s qn u m Hm) as (A & C & D & Hcases). set (s1 := queue_push s qn u) in *.
  assert (Hsame : heap s1 = heap s -> kch s s1).
  { intros B. apply kch_build0; auto. intros ch ch2 Hg0 Hg2. rewrite (get_chan_same_conns _ _ _ _ A), Hg0 in Hg2. inversion Hg2; subst.
    split; auto. intros t. rewrite C. lia. }
  destruct Hcases as [(B & E & F)|[(B & E & F)|(F & Hcf & B & E)]].
  - assert (Hg1 : get_msg s1 u = Some m) by (unfold get_msg in *; rewrite B; exact Hm). rewrite Hg1.
    assert (Hno : has_meta && counted_flag s qn (m_pers m) = false).
    { destruct F as [F|F]; [rewrite F; apply andb_false_r|]. destruct has_meta; auto. exfalso. apply (proj1 Hmeta); auto. }
    rewrite Hno. cbn [andb]. auto.
  - assert (Hg1 : get_msg s1 u = Some m) by (unfold get_msg in *; rewrite B; exact Hm). rewrite Hg1, F, andb_false_r. cbn [andb]. auto.
  - set (m1 := m <| m_actual ::= Z.succ |>) in *.
    assert (Hg1 : get_msg s1 u = Some m1) by (unfold get_msg; rewrite B, (alookup_aset N.eqb Neqb_spec), N.eqb_refl; reflexivity).
    rewrite Hg1, F, andb_true_r. rewrite (proj2 Hmeta Hcf). cbn [andb].
    destruct (m_conf m) as [[[c0 h0] t0]|] eqn:Ecf; [|congruence]. destruct (Hown c0 h0 t0 eq_refl) as [-> ->].
    destruct ((c2 =? c) && (h2 =? h)) eqn:Eb.
    + apply andb_prop in Eb. destruct Eb as [E1 E2]. apply N.eqb_eq in E1, E2. subst c2 h2.
      assert (Eb : (c =? c) && (h =? h) = true) by (rewrite !N.eqb_refl; reflexivity).
      destruct (get_chan s c h) as [ch|] eqn:Hgc; [|destruct (_ =? _)%Z; intros ch0 ch2 H0; unfold kch; congruence].
      assert (Hcfn : m_conf m <> None) by (rewrite Ecf; discriminate).
      destruct (Hgd Eb Hcfn ch Hgc) as (Hi & Hc & Hs).
      assert (Hgc1 : get_chan s1 c h = Some ch) by (rewrite (get_chan_same_conns _ _ _ _ A); exact Hgc).
      destruct (m_actual m1 =? m_expected m1)%Z eqn:Ez.
      * apply Z.eqb_eq in Ez. unfold live_conf. change (m_conf m1) with (m_conf m). change (m_inst m1) with (m_inst m).
        rewrite Ecf, Hgc1, Hi, N.eqb_refl. rewrite (add_confirm_live s1 ch t0 c h Hgc1 Hc Hs).
        set (ch2 := ch <| ch_confirmq ::= fun l => l ++ [t0] |>).
        destruct (set_chan_frame s1 c h ch2) as (F1 & F2 & _).
        apply (kch_build s _ u m m1); auto; [congruence|]. intros ch0 ch3 Hg0 Hg3. rewrite Hgc in Hg0. inversion Hg0; subst ch0.
        rewrite (get_chan_set_chan_same s1 c h ch2) in Hg3 by (eapply get_chan_conn; exact Hgc1). inversion Hg3; subst ch3.
        split; auto. intros t. rewrite F2, C. cbn [ch_confirmq set ch2]. rewrite cnt_app, cnt_one, !cnt_hp1.
        change (m_conf m1) with (m_conf m). rewrite Ecf. change (m_inst m1) with (m_inst m). rewrite !N.eqb_refl, Hi, N.eqb_refl. cbn [andb].
        change (m_actual m1) with (Z.succ (m_actual m)) in *. change (m_expected m1) with (m_expected m) in *.
        destruct (Z.succ (m_actual m) <? m_expected m)%Z eqn:X1, (m_actual m <? m_expected m)%Z eqn:X2; cbn [andb]; try lia;
          destruct (t0 =? t); lia.
      * apply Z.eqb_neq in Ez. apply (kch_build s _ u m m1); auto. intros ch0 ch3 Hg0 Hg3. rewrite Hgc in Hg0. inversion Hg0; subst ch0.
        rewrite Hgc1 in Hg3. inversion Hg3; subst ch3. split; auto. intros t. rewrite C, !cnt_hp1.
        change (m_conf m1) with (m_conf m). rewrite Ecf. change (m_inst m1) with (m_inst m).
        change (m_actual m1) with (Z.succ (m_actual m)) in *. change (m_expected m1) with (m_expected m) in *.
        destruct ((c =? c) && (h =? h) && (m_inst m =? ch_inst ch)); cbn [andb]; [|lia].
        destruct (Z.succ (m_actual m) <? m_expected m)%Z eqn:X1, (m_actual m <? m_expected m)%Z eqn:X2; cbn [andb]; try lia.
    + (* the message belongs to another channel *)
      assert (Hhp : forall i t x, cnt t (hp1 c h i x) = 0%nat \/ m_conf x <> Some (c2, h2, t0)).
      { intros i t x. destruct (m_conf x) as [[[c1 h1] t1]|] eqn:Ex; [|right; discriminate].
        rewrite cnt_hp1, Ex. destruct ((c1 =? c) && (h1 =? h)) eqn:Ex2; [|left; reflexivity].
        right. intros X. inversion X; subst. congruence. }
      assert (Hz : forall i t, cnt t (hp1 c h i m) = 0%nat /\ cnt t (hp1 c h i m1) = 0%nat).
      { intros i t. split; [destruct (Hhp i t m) as [X|X]|destruct (Hhp i t m1) as [X|X]]; auto; exfalso; apply X; exact Ecf. }
      destruct (m_actual m1 =? m_expected m1)%Z.
      * destruct (add_confirm_frame s1 c2 h2 (live_conf s1 m1)) as [F1 F2].
        apply (kch_build s _ u m m1); auto; [congruence|]. intros ch0 ch3 Hg0 Hg3. rewrite (add_confirm_other s1 c2 h2 _ Eb) in Hg3.
        rewrite (get_chan_same_conns _ _ _ _ A), Hg0 in Hg3. inversion Hg3; subst ch3. split; auto. intros t. rewrite F2, C.
        destruct (Hz (ch_inst ch0) t) as [-> ->]. lia.
      * apply (kch_build s _ u m m1); auto. intros ch0 ch3 Hg0 Hg3.
        rewrite (get_chan_same_conns _ _ _ _ A), Hg0 in Hg3. inversion Hg3; subst ch3. split; auto. intros t. rewrite C.
        destruct (Hz (ch_inst ch0) t) as [-> ->]. lia.
Qed.

Lemma push_guard_next s s1 c2 h2 m m1 : mid s s1 -> sct_same s s1 -> ci m1 = ci m -> push_guard s c2 h2 m -> push_guard s1 c2 h2 m1.
Proof.
  intros Hm Hs Eci Hg Eb Hcf ch1 Hg1. inversion Eci as [[E1 E2]]. pose proof (mid_ch _ _ Hm c h) as C. unfold mid_chan in C. rewrite Hg1 in C.
  destruct (get_chan s c h) as [ch|] eqn:Hg0; [|tauto]. destruct C as (a & _). specialize (Hs c h). rewrite Hg1, Hg0 in Hs. cbn in Hs.
  inversion Hs as [[S1 S2 S3]]. assert (Hcf0 : m_conf m <> None) by congruence. destruct (Hg Eb Hcf0 ch Hg0) as (X & Y & Z). rewrite E2, a, S1, S2. auto.
Qed.

Lemma fold_push_kch c2 h2 u pers has_meta qs : forall s m,
  get_msg s u = Some m -> m_pers m = pers -> (has_meta = true <-> m_conf m <> None) ->
  (forall c0 h0 t, m_conf m = Some (c0, h0, t) -> c0 = c2 /\ h0 = h2) -> push_guard s c2 h2 m ->
  kch s (fold_left (fun s qn => push_one s c2 h2 u pers has_meta qn) qs s).
Proof.
  induction qs as [|qn r IH]; intros s m Hm Hp Hmeta Hown Hgd; cbn [fold_left]; [apply kch_refl|].
  destruct (push_one_mid s c2 h2 u pers has_meta qn m Hm Hp (proj1 Hmeta) Hown) as (Hmid & m1 & Hg1 & Eci & Ep & _).
  pose proof (push_one_kch s c2 h2 u pers has_meta qn m Hm Hp Hmeta Hown Hgd) as K1.
  inversion Eci as [[E1 E2]].
  eapply kch_trans; [exact Hmid|exact K1|]. apply (IH _ m1 Hg1); [congruence|rewrite E1; exact Hmeta| |].
  - intros c0 h0 t Hx. rewrite E1 in Hx. eauto.
  - eapply push_guard_next; eauto. apply sct_same_push_one.
Qed.

(* the whole where_is (with the message being assembled) *)
Definition kfull (s s' : state) : Prop :=
  forall ch ch', get_chan s c h = Some ch -> get_chan s' c h = Some ch' ->
    forall t, (cnt t (where_ch s c h ch) <= cnt t (where_ch s' c h ch'))%nat.
Lemma kfull_of_kch s s' : mid s s' -> kch s s' -> kfull s s'.
Proof.
  intros Hm K ch ch' H0 H1 t. pose proof (mid_ch _ _ Hm c h) as C. unfold mid_chan in C. rewrite H0, H1 in C. destruct C as (_ & _ & cc & _).
  rewrite !where_ch_nc, !cnt_app, !cur_part_CP, cc, (CP_ci _ _ _ (mid_heap _ _ Hm)). specialize (K ch ch' H0 H1 t). lia.
Qed.

Lemma finish_publish_kfull fx s c2 h2 u ch2 :
  fx_clear_current fx = true -> Units s -> get_chan s c2 h2 = Some ch2 -> ch_cur ch2 = Some u -> not_closed s ->
  kfull s (fst (finish_publish fx s c2 h2 u)).
Proof.
  intros Hfx Hu Hgc Hcur Hnc. pose proof (un_aux _ Hu) as Ha.
  pose proof (route_and_push_midc fx s c2 h2 u ch2 Ha Hgc Hcur) as Hmc.
  destruct (aux_cur _ Ha c2 h2 ch2 Hgc u Hcur) as [Hult Hown].
  (* what routing does to where_nc of the tracked channel *)
  assert (Hroute : forall ch ch1, get_chan s c h = Some ch -> get_chan (fst (route_and_push fx s c2 h2 u)) c h = Some ch1 ->
            forall t, (cnt t (where_nc s c h ch) + cnt t (credit_cur s c2 h2 u c h) <= cnt t (where_nc (fst (route_and_push fx s c2 h2 u)) c h ch1))%nat).
  { unfold route_and_push. destruct (get_msg s u) as [m|] eqn:Hm; cbn [fst].
    2:{ intros ch ch1 H0 H1 t. rewrite H0 in H1. inversion H1; subst. unfold credit_cur, cur_part. rewrite Hm. destruct (_ && _); cbn; lia. }
    specialize (Hown m eq_refl).
    assert (Hfacts : m_conf m <> None -> ch_confirm ch2 = true /\ m_expected m = 0%Z /\ m_actual m = 0%Z).
    { intros Hcf. destruct (un_c1 _ Hu c2 h2 ch2 u m Hgc Hcur Hm Hcf) as [X Y].
      destruct (un_max _ Hu u m (alookup_in N.eqb Neqb_spec _ _ _ Hm) Hcf) as [P1 P2].
      pose proof (Nat2Z.is_nonneg (pending s u)). unfold pend in P2. repeat split; auto; lia. }
    assert (Hunr : forall ch ch1, get_chan s c h = Some ch -> get_chan (add_confirm s c2 h2 (live_conf s m)) c h = Some ch1 ->
              forall t, (cnt t (where_nc s c h ch) + cnt t (credit_cur s c2 h2 u c h) <= cnt t (where_nc (add_confirm s c2 h2 (live_conf s m)) c h ch1))%nat).
    { intros ch ch1 H0 H1 t. destruct (add_confirm_frame s c2 h2 (live_conf s m)) as [F1 F2].
      unfold credit_cur, cur_part. rewrite Hm. destruct ((c =? c2) && (h =? h2)) eqn:Eb.
      - apply andb_prop in Eb. destruct Eb as [E1 E2]. apply N.eqb_eq in E1, E2. subst c2 h2. rewrite Hgc in H0. inversion H0; subst ch.
        destruct (m_conf m) as [[[c0 h0] t0]|] eqn:Ecf.
        + destruct (Hown c0 h0 t0 eq_refl) as (-> & -> & Hi). destruct (Hfacts ltac:(discriminate)) as (Hcf & _).
          revert H1. unfold live_conf. rewrite Ecf, Hgc, Hi, N.eqb_refl. rewrite (add_confirm_live s ch2 t0 c h Hgc Hcf (Hnc ch2 Hgc)).
          rewrite (get_chan_set_chan_same s c h _ (get_chan_conn _ _ _ _ Hgc)). intros H1. inversion H1; subst ch1.
          set (chx := ch2 <| ch_confirmq ::= fun l => l ++ [t0] |>). destruct (set_chan_frame s c h chx) as (G1 & G2 & _).
          rewrite !where_nc_alt, G1, G2. rewrite (chan_inst_set_chan s c h ch2 chx c h Hgc eq_refl). cbn [ch_confirmq ch_inst set chx].
          rewrite !cnt_app. lia.
        + revert H1. unfold live_conf. rewrite Ecf, add_confirm_none. intros H1. rewrite Hgc in H1. inversion H1; subst. cbn. lia.
      - assert (Eb' : (c2 =? c) && (h2 =? h) = false) by (rewrite (N.eqb_sym c2 c), (N.eqb_sym h2 h); exact Eb).
        rewrite (add_confirm_other s c2 h2 _ Eb') in H1. rewrite H0 in H1. inversion H1; subst ch1.
        rewrite !where_nc_alt, F1, F2. unfold chan_inst. rewrite (add_confirm_other s c2 h2 _ Eb'). cbn. lia. }
    destruct (alookup seqb (m_ex m) (exchanges s)) as [ex|]; cbn [fst]; [|exact Hunr].
    destruct (matched_queues _ ex (m_key m)) as [|q1 qs] eqn:Eqs; cbn [fst]; [exact Hunr|]. clear Hunr.
    rewrite Hgc.
    set (has_meta := match m_conf m with Some _ => true | None => false end).
    set (n := List.length (q1 :: qs)).
    set (sa := if ch_confirm ch2 && has_meta then upd_msg s u (fun m => m <| m_expected := Z.of_nat n |>) else s).
    set (ma := if ch_confirm ch2 && has_meta then m <| m_expected := Z.of_nat n |> else m).
    assert (Hsa : get_msg sa u = Some ma /\ heap sa = aset N.eqb u ma (heap s) /\ conns sa = conns s /\ relay sa = relay s /\
                  ci ma = ci m /\ m_pers ma = m_pers m).
    { subst sa ma. destruct (ch_confirm ch2 && has_meta).
      - unfold upd_msg. rewrite Hm. unfold get_msg. cbn. rewrite (alookup_aset N.eqb Neqb_spec), N.eqb_refl. repeat split; reflexivity.
      - repeat split; auto. unfold get_msg in Hm. rewrite (aset_same _ _ _ Hm). reflexivity. }
    destruct Hsa as (Hga & Hha & Hca & Hra & Ecia & Epa). inversion Ecia as [[Ea1 Ea2]].
    assert (Hmeta : has_meta = true <-> m_conf ma <> None).
    { subst has_meta. rewrite Ea1. destruct (m_conf m); split; congruence. }
    assert (Hgd : push_guard sa c2 h2 ma).
    { intros Eb Hcf cha Hgca. apply andb_prop in Eb. destruct Eb as [E1 E2]. apply N.eqb_eq in E1, E2. subst c2 h2.
      rewrite (get_chan_same_conns _ _ _ _ Hca), Hgc in Hgca. inversion Hgca; subst cha. rewrite Ea1 in Hcf.
      destruct (Hfacts Hcf) as (X & _). rewrite Ea2. destruct (m_conf m) as [[[c0 h0] t0]|] eqn:Ecf; [|congruence].
      destruct (Hown c0 h0 t0 eq_refl) as (_ & _ & Hi). repeat split; auto. }
    pose proof (fold_push_kch c2 h2 u (m_pers m) has_meta (q1 :: qs) sa ma Hga Epa Hmeta) as Kf.
    assert (Hown' : forall c0 h0 t, m_conf ma = Some (c0, h0, t) -> c0 = c2 /\ h0 = h2).
    { intros c0 h0 t Hx. rewrite Ea1 in Hx. destruct (Hown c0 h0 t Hx) as (a & b & _). auto. }
    specialize (Kf Hown' Hgd).
    intros ch ch1 H0 H1 t.
    assert (H0a : get_chan sa c h = Some ch) by (rewrite (get_chan_same_conns _ _ _ _ Hca); exact H0).
    specialize (Kf ch ch1 H0a H1 t). 
    (* s -> sa *)
    assert (Hs_sa : (cnt t (where_nc s c h ch) + cnt t (credit_cur s c2 h2 u c h) <= cnt t (where_nc sa c h ch))%nat); [|lia].
    rewrite !where_nc_alt. unfold chan_inst. rewrite H0a, H0, Hha, Hra. unfold get_msg in Hm.
    rewrite (RP_aset_ci _ _ _ _ _ m ma _ Hm Ecia). rewrite !cnt_app.
    pose proof (cnt_HP_aset c h (ch_inst ch) (heap s) u m ma t Hm) as He. rewrite !cnt_hp1 in He.
    unfold credit_cur, cur_part, get_msg. rewrite Hm. rewrite Ea1 in He.
    destruct (m_conf m) as [[[c0 h0] t0]|] eqn:Ecf; [|destruct ((c =? c2) && (h =? h2)); cbn; lia].
    destruct (Hown c0 h0 t0 eq_refl) as (-> & -> & Hi). destruct (Hfacts ltac:(discriminate)) as (Hcf & Hex & Hac).
    rewrite (N.eqb_sym c2 c), (N.eqb_sym h2 h) in He.
    destruct ((c =? c2) && (h =? h2)) eqn:Eb; cbn [andb] in *; [|cbn; lia].
    apply andb_prop in Eb. destruct Eb as [E1 E2]. apply N.eqb_eq in E1, E2. subst c2 h2. rewrite Hgc in H0. inversion H0; subst ch.
    rewrite cnt_one. subst ma. rewrite Hcf in *. subst has_meta. cbn [andb] in *. cbn [m_inst m_actual m_expected set] in He.
    rewrite Hi, N.eqb_refl, Hex, Hac in He. cbn [andb] in He.
    assert (Hn : (0 <? Z.of_nat n)%Z = true) by (subst n; cbn [List.length]; lia). rewrite Hn in He. change (0 <? 0)%Z with false in He. cbn [andb] in He.
    destruct (t0 =? t); lia. }
  unfold finish_publish. destruct (route_and_push fx s c2 h2 u) as [s1 e1]. cbn [fst] in *. rewrite Hfx.
  pose proof (midc_ch _ _ _ Hmc c2 h2) as C2. unfold midc_chan in C2. rewrite Hgc in C2.
  destruct (get_chan s1 c2 h2) as [ch21|] eqn:Hg21; [|tauto]. destruct C2 as (Ci2 & _ & Ccur2 & _).
  unfold upd_chan. rewrite Hg21. set (chz := ch21 <| ch_cur := None |>).
  destruct (set_chan_frame s1 c2 h2 chz) as (F1 & F2 & _).
  intros ch ch' H0 H1 t. rewrite get_chan_set_chan in H1. pose proof (get_chan_conn _ _ _ _ Hg21) as Hcn. destruct (get_conn s1 c2) as [cn|] eqn:Ecn; [|congruence].
  destruct ((c =? c2) && (h =? h2)) eqn:Eb.
  - apply andb_prop in Eb. destruct Eb as [E1 E2]. apply N.eqb_eq in E1, E2. subst c2 h2. inversion H1; subst ch'. rewrite Hgc in H0. inversion H0; subst ch.
    specialize (Hroute ch2 ch21 Hgc Hg21 t). unfold credit_cur in Hroute. rewrite !N.eqb_refl in Hroute. cbn [andb] in Hroute.
    rewrite !where_ch_nc. cbn [ch_cur set chz cur_part]. rewrite app_nil_r, cnt_app, Hcur.
    rewrite (where_nc_frame s1 _ c h chz F1 F2 (chan_inst_set_chan s1 c h ch21 chz c h Hg21 eq_refl)).
    change (where_nc s1 c h chz) with (where_nc s1 c h ch21). lia.
  - specialize (Hroute ch ch' H0 H1 t). unfold credit_cur in Hroute. rewrite Eb in Hroute. cbn in Hroute.
    pose proof (midc_ch _ _ _ Hmc c h) as C. unfold midc_chan in C. rewrite H0, H1 in C. destruct C as (_ & _ & Ccur & _).
    rewrite !where_ch_nc, !cnt_app.
    rewrite (where_nc_frame s1 _ c h ch' F1 F2 (chan_inst_set_chan s1 c2 h2 ch21 chz c h Hg21 eq_refl)).
    rewrite (cur_part_frame s1 _ _ F1), Ccur, !cur_part_CP, (CP_ci _ _ _ (midc_heap _ _ _ Hmc)). lia.
Qed.

(* ---- what a step (or part of one) keeps of the numbers of channel (c,h) ---- *)
Definition covnew (s' : state) (evs : list event) (ch' : channel) : Prop :=
  forall t, 1 <= t <= ch_ctag ch' -> In t (acks_of c h evs ++ where_ch s' c h ch').
Definition keep_ch (s s' : state) (evs : list event) : Prop :=
  match get_chan s' c h with
  | None => True
  | Some ch' =>
    match get_chan s c h with
    | Some ch => if ch_inst ch' =? ch_inst ch
                 then (forall t, (cnt t (where_ch s c h ch) <= cnt t (acks_of c h evs ++ where_ch s' c h ch'))%nat) /\
                      (forall t, ch_ctag ch < t <= ch_ctag ch' -> In t (acks_of c h evs ++ where_ch s' c h ch'))
                 else covnew s' evs ch'
    | None => covnew s' evs ch'
    end
  end.

Lemma covnew_same s1 s2 e2 ch1 ch2 :
  covnew s1 [] ch1 ->
  (forall t, (cnt t (where_ch s1 c h ch1) <= cnt t (acks_of c h e2 ++ where_ch s2 c h ch2))%nat) ->
  (forall t, ch_ctag ch1 < t <= ch_ctag ch2 -> In t (acks_of c h e2 ++ where_ch s2 c h ch2)) ->
  covnew s2 e2 ch2.
Proof.
  intros C1 K N t Ht. destruct (N.le_gt_cases t (ch_ctag ch1)) as [Hle|Hgt].
  - assert (Hin : In t (where_ch s1 c h ch1)) by (apply (C1 t); lia). apply cnt_in in Hin. apply cnt_in. specialize (K t). lia.
  - apply N. lia.
Qed.

Lemma keep_compose s0 s1 s2 e1 e2 :
  (get_chan s1 c h = None -> get_chan s0 c h = None \/ get_chan s2 c h = None) ->
  nb e1 = true -> trans s0 s1 e1 -> trans s1 s2 e2 -> keep_ch s0 s1 e1 -> keep_ch s1 s2 e2 -> keep_ch s0 s2 (e1 ++ e2).
Proof.
  intros Hres Hn T1 T2 K1 K2. specialize (T1 c h). specialize (T2 c h). unfold trans_ch, keep_ch, covnew in *.
  rewrite acks_of_app, (nb_acks c h e1 Hn) in *. cbn [app] in *.
  destruct (get_chan s2 c h) as [ch2|] eqn:Hg2; [|exact I].
  destruct (get_chan s1 c h) as [ch1|] eqn:Hg1.
  2:{ destruct (Hres eq_refl) as [E|E]; [|discriminate]. rewrite E. exact K2. }
  destruct (get_chan s0 c h) as [ch0|] eqn:Hg0.
  2:{ destruct (ch_inst ch2 =? ch_inst ch1); [|exact K2]. destruct K2 as [Ka Kb]. apply (covnew_same s1 s2 e2 ch1 ch2); [exact K1|exact Ka|exact Kb]. }
  assert (M1 : ch_inst ch0 <= ch_inst ch1 /\ (ch_inst ch1 = ch_inst ch0 -> ch_ctag ch0 <= ch_ctag ch1)).
  { destruct T1 as [(a & b & _)|(a & _)]; split; try lia. }
  assert (M2 : ch_inst ch1 <= ch_inst ch2 /\ (ch_inst ch2 = ch_inst ch1 -> ch_ctag ch1 <= ch_ctag ch2)).
  { destruct T2 as [(a & b & _)|(a & _)]; split; try lia. }
  destruct (ch_inst ch2 =? ch_inst ch0) eqn:E20.
  - apply N.eqb_eq in E20. assert (E10 : ch_inst ch1 = ch_inst ch0) by lia. assert (E21 : ch_inst ch2 = ch_inst ch1) by lia.
    rewrite (proj2 (N.eqb_eq _ _) E10) in K1. rewrite (proj2 (N.eqb_eq _ _) E21) in K2. destruct K1 as [Ka1 Kb1], K2 as [Ka2 Kb2]. split.
    + intros t. specialize (Ka1 t). specialize (Ka2 t). lia.
    + intros t Ht. destruct (N.le_gt_cases t (ch_ctag ch1)) as [Hle|Hgt].
      * assert (Hin : In t (where_ch s1 c h ch1)) by (apply Kb1; lia). apply cnt_in in Hin. apply cnt_in. specialize (Ka2 t). lia.
      * apply Kb2. lia.
  - destruct (ch_inst ch1 =? ch_inst ch0) eqn:E10.
    + apply N.eqb_eq in E10. apply N.eqb_neq in E20. destruct (ch_inst ch2 =? ch_inst ch1) eqn:E21; [apply N.eqb_eq in E21; congruence|exact K2].
    + destruct (ch_inst ch2 =? ch_inst ch1) eqn:E21; [|exact K2]. destruct K2 as [Ka Kb]. apply (covnew_same s1 s2 e2 ch1 ch2); [exact K1|exact Ka|exact Kb].
Qed.

(* a part of a step that hands numbers on and drops none *)
Lemma keep_of_mid s s' evs : mid s s' -> kch s s' -> nb evs = true -> keep_ch s s' evs.
Proof.
  intros Hm K Hn. unfold keep_ch. rewrite (nb_acks c h evs Hn). cbn [app].
  pose proof (mid_ch _ _ Hm c h) as C. unfold mid_chan in C.
  destruct (get_chan s' c h) as [ch'|] eqn:Hg'; [|exact I]. destruct (get_chan s c h) as [ch|] eqn:Hg; [|tauto].
  destruct C as (a & b & _). rewrite a, N.eqb_refl. split; [exact (kfull_of_kch s s' Hm K ch ch' Hg Hg')|]. intros t Ht. lia.
Qed.
(* the record of (c,h), the heap and the relay are what they were *)
Lemma keep_same s s' evs : get_chan s' c h = get_chan s c h -> heap s' = heap s -> relay s' = relay s -> acks_of c h evs = [] -> keep_ch s s' evs.
Proof.
  intros Hg Hh Hr Hn. unfold keep_ch. rewrite Hg, Hn. cbn [app]. destruct (get_chan s c h) as [ch|] eqn:E; [|exact I].
  rewrite N.eqb_refl. split; [|intros t Ht; lia]. intros t.
  rewrite !where_ch_nc, (where_nc_frame s s' c h ch Hh Hr), (cur_part_frame s s' _ Hh); [lia|]. unfold chan_inst. rewrite Hg, E. reflexivity.
Qed.
(* a new instance with counter 0 *)
Lemma keep_fresh s s' evs ch' : get_chan s' c h = Some ch' -> ch_ctag ch' = 0 ->
  (forall ch, get_chan s c h = Some ch -> ch_inst ch' <> ch_inst ch) -> keep_ch s s' evs.
Proof.
  intros Hg' Hc Hne. unfold keep_ch. rewrite Hg'. assert (Hcov : covnew s' evs ch') by (intros t Ht; lia).
  destruct (get_chan s c h) as [ch|]; auto. specialize (Hne ch eq_refl). apply N.eqb_neq in Hne. rewrite Hne. exact Hcov.
Qed.

(* ---- the pieces of a step ---- *)
Definition TK (s s' : state) : Prop := TR0 s s' /\ keep_ch s s' [].

Lemma TK_mid s s' : Aux s -> mid s s' -> kch s s' -> TK s s'.
Proof. intros Ha Hm K. split; [apply TR0_mid; auto|apply keep_of_mid; auto]. Qed.
Lemma TK_vle s s' : Aux s -> vle s s' -> TK s s'.
Proof. intros Ha Hv. apply TK_mid; auto; [apply vle_mid|apply kch_vle]; exact Hv. Qed.
Lemma TK_refl s : Aux s -> TK s s.
Proof. intros Ha. apply TK_mid; auto; [apply mid_refl|apply kch_refl]. Qed.
Lemma TK_seq s0 s1 s2 :
  (forall c' h', get_chan s1 c' h' = None -> get_chan s0 c' h' = None \/ get_chan s2 c' h' = None) ->
  TK s0 s1 -> TK s1 s2 -> TK s0 s2.
Proof.
  intros Hres [T1 K1] [T2 K2]. split; [eapply TR0_seq; eauto|].
  change (@nil event) with (@nil event ++ @nil event). apply (keep_compose s0 s1 s2); auto; [apply (proj2 T1)|apply (proj2 T2)].
Qed.
Lemma TK_then_mid s0 s1 s2 : TK s0 s1 -> mid s1 s2 -> kch s1 s2 -> TK s0 s2.
Proof.
  intros H1 Hm K. eapply TK_seq; [|exact H1|apply TK_mid; [exact (proj1 (proj1 H1))|exact Hm|exact K]].
  intros c' h' Hn. right. apply (mid_none _ _ c' h' Hm). exact Hn.
Qed.
Lemma TK_mid_then s0 s1 s2 : Aux s0 -> mid s0 s1 -> kch s0 s1 -> (Aux s1 -> TK s1 s2) -> TK s0 s2.
Proof.
  intros Ha Hm K H2. pose proof (TK_mid _ _ Ha Hm K) as H1. eapply TK_seq; [|exact H1|apply H2; exact (proj1 (proj1 H1))].
  intros c' h' Hn. left. apply (mid_none _ _ c' h' Hm). exact Hn.
Qed.

(* steps the view does not see and drops of the current message on channels other than (c,h) *)
Lemma TK_vld (P : N -> N -> Prop) s s' :
  (forall c2 h2, P c2 h2 -> (c =? c2) && (h =? h2) = false) -> Aux s -> vld P s s' -> TK s s'.
Proof.
  intros HP Ha H. induction H as [s1 Hv|s1 c1 h1 ch1 H IH Hp Hg|s1 s2 H IH Hv].
  - apply TK_vle; auto.
  - eapply TK_seq; [|exact IH|].
    + intros c' h' Hn. right. rewrite get_chan_set_chan. destruct (get_conn s1 c1); auto.
      destruct ((c' =? c1) && (h' =? h1)) eqn:Eb; auto. apply andb_prop in Eb. destruct Eb as [E1 E2]. apply N.eqb_eq in E1, E2. subst. congruence.
    + split; [apply drop_tr; [exact (proj1 (proj1 IH))|exact Hg]|].
      destruct (set_chan_frame s1 c1 h1 (ch1 <| ch_cur := None |>)) as (F1 & F2 & _).
      apply keep_same; auto. rewrite get_chan_set_chan. destruct (get_conn s1 c1); auto. rewrite (HP c1 h1 Hp). reflexivity.
  - eapply TK_then_mid; [exact IH|apply vle_mid; exact Hv|apply kch_vle; exact Hv].
Qed.

Lemma ensure_chan_keep s c2 h2 : keep_ch s (ensure_chan s c2 h2) [].
Proof.
  destruct (get_chan s c h) as [ch|] eqn:Hg.
  - apply keep_same; auto; [rewrite (get_chan_ensure_mono s c2 h2 c h ch Hg); auto| |];
      unfold ensure_chan; destruct (get_conn s c2); auto; destruct (alookup _ _ _); reflexivity.
  - destruct (get_chan (ensure_chan s c2 h2) c h) as [ch'|] eqn:Hg'; [|unfold keep_ch; rewrite Hg'; exact I].
    apply (keep_fresh s _ [] ch'); auto; [|intros ch X; congruence].
    destruct (get_chan_ensure s c2 h2 c h ch' Hg') as [X|X]; [congruence|subst; reflexivity].
Qed.
Lemma TK_ensure_then s c2 h2 s2 : Aux s -> (Aux (ensure_chan s c2 h2) -> TK (ensure_chan s c2 h2) s2) -> TK s s2.
Proof.
  intros Ha H2. destruct (ensure_chan_tr s c2 h2 [] Ha eq_refl) as [A1 T1].
  eapply TK_seq; [|split; [split; [exact A1|exact T1]|apply ensure_chan_keep]|apply H2; exact A1].
  intros c' h' Hn. left. destruct (get_chan s c' h') as [x|] eqn:E; auto.
  rewrite (get_chan_ensure_mono s c2 h2 c' h' x E) in Hn. discriminate.
Qed.

Lemma kch_set_chan s c2 h2 ch2 ch2' :
  get_chan s c2 h2 = Some ch2 -> ch_inst ch2' = ch_inst ch2 -> ch_confirmq ch2' = ch_confirmq ch2 -> kch s (set_chan s c2 h2 ch2').
Proof.
  intros Hg Ei Eq ch ch' H0 H1 t. destruct (set_chan_frame s c2 h2 ch2') as (F1 & F2 & _).
  rewrite (where_nc_frame s _ c h ch' F1 F2 (chan_inst_set_chan s c2 h2 ch2 ch2' c h Hg Ei)).
  rewrite get_chan_set_chan in H1. pose proof (get_chan_conn _ _ _ _ Hg). destruct (get_conn s c2); [|congruence].
  destruct ((c =? c2) && (h =? h2)) eqn:Eb.
  - apply andb_prop in Eb. destruct Eb as [E1 E2]. apply N.eqb_eq in E1, E2. subst c2 h2. inversion H1; subst ch'. rewrite Hg in H0. inversion H0; subst ch.
    unfold where_nc. rewrite Eq, Ei. lia.
  - rewrite H0 in H1. inversion H1; subst. lia.
Qed.

Lemma del_conn_keep s c0 : keep_ch s (s <| conns := adel N.eqb c0 (conns s) |>) [].
Proof.
  destruct (c =? c0) eqn:E.
  - unfold keep_ch. rewrite get_chan_del_conn, E. exact I.
  - apply keep_same; auto. rewrite get_chan_del_conn, E. reflexivity.
Qed.

Lemma conn_close_gone cfg fx s c0 h0 : get_chan (fst (conn_close cfg fx s c0)) c0 h0 = None.
Proof.
  unfold conn_close. destruct (get_conn s c0) as [cn|] eqn:E; [|cbn [fst]; unfold get_chan; rewrite E; reflexivity].
  set (s1 := fold_left _ _ s). destruct (fold_left _ _ (s1, [])) as [s2 e2]. cbn [fst].
  rewrite get_chan_del_conn, N.eqb_refl. reflexivity.
Qed.
Lemma conn_close_tk cfg fx s c0 : Aux s ->
  TK s (fst (conn_close cfg fx s c0)) /\
  (forall c' h', get_chan s c' h' = None -> get_chan (fst (conn_close cfg fx s c0)) c' h' = None).
Proof.
  intros Ha. split; [|apply (conn_close_tr cfg fx s c0 Ha)].
  destruct (c =? c0) eqn:Ec0.
  { (* the connection of (c,h) goes: nothing is claimed about a channel that is gone *)
    apply N.eqb_eq in Ec0. subst c0. split; [apply (conn_close_tr cfg fx s c Ha)|]. unfold keep_ch. rewrite conn_close_gone. exact I. }
  unfold conn_close. destruct (get_conn s c0) as [cn|]; [|apply TK_refl; auto].
  set (s1 := fold_left _ _ s).
  assert (H1 : vld (fun c' _ => c' = c0) s s1) by (subst s1; apply D_close_fold).
  clearbody s1.
  pose proof (V_delete_fold s1 (negb (fx_delete_checks_first fx))
                (map fst (filter (fun kv => q_excl (snd kv) && (q_owner (snd kv) =? c0)) (queues s1))) s1 [] (vle_refl s1)) as Hd0.
  destruct (fold_left _ _ (s1, [])) as [s2 e2]. cbn [fst] in *.
  assert (Hd : vld (fun c' _ => c' = c0) s s2) by (eapply vld_step; eauto).
  assert (T2 : TK s s2).
  { apply (TK_vld (fun c' _ => c' = c0) s s2); auto. intros c2 h2 E. cbv beta in E. subst c2. rewrite Ec0. reflexivity. }
  eapply TK_seq; [|exact T2|split; [apply (del_conn_tr s2 c0 []); [exact (proj1 (proj1 T2))|reflexivity]|apply del_conn_keep]].
  intros c' h' Hnone. left. apply (vld_none _ _ _ c' h' Hd). exact Hnone.
Qed.
Lemma apply_err_tk s0 s c2 h2 r : TK s0 (fst (fst r)) -> TK s0 (fst (apply_err s c2 h2 r)).
Proof.
  intros H. assert (Hv : vle (fst (fst r)) (fst (apply_err s c2 h2 r))) by (apply V_apply_err; apply vle_refl).
  eapply TK_then_mid; [exact H|apply vle_mid; exact Hv|apply kch_vle; exact Hv].
Qed.
Lemma apply_err_st_tk cfg fx opened s0 s c2 h2 r : TK s0 (fst (fst r)) -> TK s0 (fst (apply_err_st cfg fx opened s c2 h2 r)).
Proof.
  intros H. unfold apply_err_st. destruct opened; [apply apply_err_tk; auto|].
  destruct (snd r) as [[| ]|]; try (apply apply_err_tk; auto).
  pose proof (apply_err_tk s0 s c2 h2 r H) as H1. destruct (apply_err s c2 h2 r) as [s1 e1]. cbn [fst] in H1.
  pose proof (conn_close_tk cfg fx s1 c2 (proj1 (proj1 H1))) as (H2 & H3). destruct (conn_close cfg fx s1 c2) as [s2 e2]. cbn [fst] in *.
  eapply TK_seq; [|exact H1|exact H2]. intros c' h' Hn. right. apply H3. exact Hn.
Qed.

(* basic.publish: the new number is in flight; nothing is lost if the channel was not assembling a message *)
Lemma publish_keep s c2 h2 ch2 ch2' m :
  get_chan s c2 h2 = Some ch2 -> m_expected m = 0%Z -> m_actual m = 0%Z ->
  ch_inst ch2' = ch_inst ch2 -> ch_confirmq ch2' = ch_confirmq ch2 -> ch_cur ch2' = Some (next_uid s) ->
  ((m_conf m = None /\ ch_ctag ch2' = ch_ctag ch2) \/ (m_conf m = Some (c2, h2, ch_ctag ch2 + 1) /\ ch_ctag ch2' = ch_ctag ch2 + 1)) ->
  ((c2 =? c) && (h2 =? h) = true -> ch_cur ch2 = None) -> Aux s ->
  keep_ch s (set_chan (s <| heap := aset N.eqb (next_uid s) m (heap s) |> <| next_uid := next_uid s + 1 |>) c2 h2 ch2') [].
Proof.
  intros Hg Eex Eac Ei Eq Ecur Hconf Hnd [Hm Hc Hr].
  set (u := next_uid s) in *. set (s1 := s <| heap := aset N.eqb u m (heap s) |> <| next_uid := u + 1 |>).
  destruct (set_chan_frame s1 c2 h2 ch2') as (F1 & F2 & _). cbn [heap relay set s1] in F1, F2.
  pose proof (get_chan_conn _ _ _ _ Hg) as Hcn. destruct (get_conn s c2) as [cn|] eqn:Ecn; [|congruence]. clear Hcn.
  assert (Ecn1 : get_conn s1 c2 = Some cn) by exact Ecn.
  assert (Hfresh : alookup N.eqb u (heap s) = None).
  { destruct (alookup N.eqb u (heap s)) as [m0|] eqn:E; auto. apply (alookup_in N.eqb Neqb_spec) in E. destruct (Hm u m0 E) as [Hx _]. unfold u in Hx. lia. }
  assert (Hgc : forall c1 h1, get_chan (set_chan s1 c2 h2 ch2') c1 h1 = if (c1 =? c2) && (h1 =? h2) then Some ch2' else get_chan s c1 h1).
  { intros c1 h1. rewrite get_chan_set_chan, Ecn1. reflexivity. }
  assert (Hnw : forall c1 h1 i, hp1 c1 h1 i m = []).
  { intros c1 h1 i. unfold hp1, waiting. rewrite Eex, Eac. cbn. rewrite andb_false_r. reflexivity. }
  assert (Hrl : forall x, In x (relay s) -> x <> u) by (intros x Hx; specialize (Hr x Hx); unfold u; lia).
  unfold keep_ch. rewrite Hgc. cbn [acks_of flat_map app].
  destruct ((c =? c2) && (h =? h2)) eqn:Eb.
  - apply andb_prop in Eb. destruct Eb as [E1 E2]. apply N.eqb_eq in E1, E2. subst c2 h2. rewrite Hg, Ei, N.eqb_refl.
    assert (Hcn0 : ch_cur ch2 = None) by (apply Hnd; rewrite !N.eqb_refl; reflexivity).
    assert (Hw : forall t, cnt t (where_ch (set_chan s1 c h ch2') c h ch2') =
                           (cnt t (where_ch s c h ch2) + cnt t (CP (aset N.eqb u m (heap s)) (Some u)))%nat).
    { intros t. rewrite !where_ch_nc, !where_nc_alt, !cur_part_CP, F1, F2. unfold chan_inst. rewrite Hgc, !N.eqb_refl, Hg. cbn [andb].
      rewrite Ei, Eq, Ecur, Hcn0, (RP_aset_fresh _ _ _ _ _ _ _ Hrl), (HP_aset_new _ _ _ _ _ _ Hfresh), Hnw, app_nil_r. rewrite !cnt_app. cbn [CP]. rewrite cnt_nil. lia. }
    split; [intros t; rewrite Hw; lia|]. intros t Ht. apply cnt_in. rewrite Hw. unfold CP. rewrite (alookup_aset N.eqb Neqb_spec), N.eqb_refl.
    destruct Hconf as [[E0 E1]|[E0 E1]]; [lia|]. rewrite E0, cnt_one. assert (t = ch_ctag ch2 + 1) by lia. subst t. rewrite N.eqb_refl. lia.
  - destruct (get_chan s c h) as [ch|] eqn:Hgg; [|exact I]. rewrite N.eqb_refl. split; [|intros t Ht; lia]. intros t.
    rewrite !where_ch_nc, !where_nc_alt, !cur_part_CP, F1, F2. unfold chan_inst. rewrite Hgc, Eb, Hgg.
    rewrite (RP_aset_fresh _ _ _ _ _ _ _ Hrl), (HP_aset_new _ _ _ _ _ _ Hfresh), Hnw, app_nil_r.
    assert (Ecp : CP (aset N.eqb u m (heap s)) (ch_cur ch) = CP (heap s) (ch_cur ch)).
    { unfold CP. destruct (ch_cur ch) as [u1|] eqn:Eu1; auto. rewrite (alookup_aset N.eqb Neqb_spec).
      destruct (Hc c h ch Hgg u1 Eu1) as [Hlt _]. destruct (u1 =? u) eqn:Eu; [apply N.eqb_eq in Eu; unfold u in Eu; lia|reflexivity]. }
    rewrite Ecp. lia.
Qed.

Definition publish_ok (s : state) (c2 h2 : N) (m : meth) : Prop :=
  match m with
  | MPublish _ _ _ _ => (c2 =? c) && (h2 =? h) = true -> forall ch, get_chan s c h = Some ch -> ch_cur ch = None
  | _ => True
  end.

Lemma handle_method_tk cfg fx s c2 h2 m :
  Aux s -> publish_ok s c2 h2 m -> close_method m = false -> TK s (fst (fst (handle_method cfg fx s c2 h2 m))).
Proof.
  intros Ha Hpo Hclm. destruct (confirm_method m) eqn:Hcm; [|apply TK_vle; auto; apply V_handle_method; auto].
  split; [apply handle_method_tr; auto|].
  unfold handle_method. destruct (get_chan s c2 h2) as [ch2|] eqn:Hch; [|apply keep_of_mid; auto; [apply mid_refl|apply kch_refl]].
  assert (Hst : forall chx, ch_inst chx = ch_inst ch2 -> ch_ctag chx = ch_ctag ch2 -> ch_cur chx = ch_cur ch2 -> ch_confirmq chx = ch_confirmq ch2 ->
                keep_ch s (set_chan s c2 h2 chx) []).
  { intros chx E1 E2 E3 E4. apply keep_of_mid; auto; [apply (mid_set_chan s c2 h2 ch2); auto|apply (kch_set_chan s c2 h2 ch2); auto]. }
  destruct m; try discriminate; unfold ok, refuse.
  - destruct (ch_status ch2) eqn:Est; cbn [fst]; try (apply Hst; reflexivity); try (apply keep_of_mid; auto; [apply mid_refl|apply kch_refl]).
    destruct (fx_reopen_resets fx); [|apply Hst; reflexivity].
    match goal with |- keep_ch s (set_chan s c2 h2 ?chx) [] => set (ch' := chx) end.
    destruct (set_chan_frame s c2 h2 ch') as (F1 & F2 & _).
    destruct ((c =? c2) && (h =? h2)) eqn:Eb.
    + apply andb_prop in Eb. destruct Eb as [E1 E2]. apply N.eqb_eq in E1, E2. subst c2 h2.
      apply (keep_fresh s _ [] ch'); [apply get_chan_set_chan_same; eapply get_chan_conn; eauto|reflexivity|].
      intros ch X. rewrite Hch in X. inversion X; subst. cbn. lia.
    + apply keep_same; auto. rewrite get_chan_set_chan. destruct (get_conn s c2); auto. rewrite Eb. reflexivity.
  - destruct imm; [apply keep_of_mid; auto; [apply mid_refl|apply kch_refl]|].
    destruct (alookup seqb ex (exchanges s)); [|apply keep_of_mid; auto; [apply mid_refl|apply kch_refl]].
    assert (Hnd : (c2 =? c) && (h2 =? h) = true -> ch_cur ch2 = None).
    { intros Eb. pose proof (Hpo Eb) as X. apply andb_prop in Eb. destruct Eb as [E1 E2]. apply N.eqb_eq in E1, E2. subst. exact (X ch2 Hch). }
    destruct (ch_confirm ch2) eqn:Ecf; cbn [fst].
    + apply (publish_keep s c2 h2 ch2); auto. right. cbn. split; [reflexivity|symmetry; apply N.add_1_r].
    + apply (publish_keep s c2 h2 ch2); auto.
  - cbn [fst]. apply Hst; reflexivity.
Qed.

(* channel.close / close-ok: on another channel nothing of (c,h) is touched; on (c,h) itself the channel is closed afterwards *)
Lemma channel_close_closed cfg s c2 h2 ch2 : get_chan s c2 h2 = Some ch2 -> closedb (channel_close cfg s c2 h2) c2 h2 = true.
Proof.
  intros Hg. rewrite channel_close_split.
  pose proof (V_close_pre s cfg s c2 h2 (vle_refl s)) as Hv.
  assert (Hst : exists ch3, get_chan (close_pre cfg s c2 h2) c2 h2 = Some ch3 /\ ch_status ch3 = ChClosed).
  { unfold close_pre in *. rewrite Hg in *. cbv zeta in *.
    match goal with |- exists _, get_chan (upd_chan ?sx _ _ _) _ _ = _ /\ _ => set (s3 := sx) in * end.
    destruct (get_chan s3 c2 h2) as [ch3|] eqn:E3.
    - exists (ch3 <| ch_status := ChClosed |>). split; [|reflexivity]. unfold upd_chan. rewrite E3.
      apply get_chan_set_chan_same. pose proof (get_chan_conn _ _ _ _ E3). congruence.
    - exfalso. unfold upd_chan in Hv. rewrite E3 in Hv. apply (vle_none _ _ c2 h2 Hv) in E3. congruence. }
  destruct Hst as (ch3 & E3 & Hs). unfold closedb, upd_chan. rewrite E3.
  rewrite get_chan_set_chan_same by (pose proof (get_chan_conn _ _ _ _ E3); congruence). cbn. rewrite Hs. reflexivity.
Qed.
Lemma close_method_tk cfg fx opened s c2 h2 m ch2 :
  Aux s -> close_method m = true -> get_chan s c2 h2 = Some ch2 ->
  closedb (fst (apply_err_st cfg fx opened s c2 h2 (handle_method cfg fx s c2 h2 m))) c h = false ->
  TK s (fst (apply_err_st cfg fx opened s c2 h2 (handle_method cfg fx s c2 h2 m))).
Proof.
  intros Ha Hclm Hg Hcl. destruct ((c =? c2) && (h =? h2)) eqn:Eb.
  - exfalso. apply andb_prop in Eb. destruct Eb as [E1 E2]. apply N.eqb_eq in E1, E2. subst c2 h2.
    assert (Er : forall s' evs, fst (apply_err_st cfg fx opened s c h (ok s' evs)) = s').
    { intros s' evs. unfold apply_err_st, ok. cbn. destruct opened; reflexivity. }
    unfold handle_method in Hcl. rewrite Hg in Hcl. destruct m; try discriminate; rewrite Er in Hcl.
    + rewrite (channel_close_closed cfg s c h ch2 Hg) in Hcl. discriminate.
    + destruct (fx_closeok_releases fx); [rewrite (channel_close_closed cfg s c h ch2 Hg) in Hcl; discriminate|].
      unfold closedb in Hcl. rewrite get_chan_set_chan_same in Hcl by (pose proof (get_chan_conn _ _ _ _ Hg); congruence).
      cbn in Hcl. discriminate.
  - apply apply_err_st_tk. apply (TK_vld (fun c' h' => c' = c2 /\ h' = h2)); auto.
    + intros c' h' [-> ->]. exact Eb.
    + apply D_handle_method. destruct m; try discriminate; reflexivity.
Qed.

(* the confirm ticker *)
Lemma confirm_tick_keep cfg fx s c2 h2 : keep_ch s (fst (step cfg fx s (LConfirmTick c2 h2))) (snd (step cfg fx s (LConfirmTick c2 h2))).
Proof.
  cbn [step]. destruct (get_chan s c2 h2) as [ch2|] eqn:Hg; [|apply keep_same; auto].
  destruct (negb (ch_ticker ch2)); [apply keep_same; auto|].
  destruct (ch_status ch2) eqn:Est; cbn [fst snd].
  4:{ apply keep_of_mid; auto; [apply (mid_set_chan s c2 h2 ch2); auto|apply (kch_set_chan s c2 h2 ch2); auto]. }
  all: set (chz := ch2 <| ch_confirmq := [] |>).
  all: destruct (set_chan_frame s c2 h2 chz) as (F1 & F2 & _).
  all: destruct ((c =? c2) && (h =? h2)) eqn:Eb;
    [apply andb_prop in Eb; destruct Eb as [E1 E2]; apply N.eqb_eq in E1, E2; subst c2 h2
    |apply keep_same; auto; [rewrite get_chan_set_chan; destruct (get_conn s c2); auto; rewrite Eb; reflexivity
                            |rewrite acks_of_map, (N.eqb_sym c2 c), (N.eqb_sym h2 h), Eb; reflexivity]].
  all: unfold keep_ch; rewrite (get_chan_set_chan_same s c h chz (get_chan_conn _ _ _ _ Hg)), Hg; cbn [ch_inst set chz]; rewrite N.eqb_refl;
       rewrite acks_of_map, !N.eqb_refl; cbn [andb]; (split; [|intros t Ht; cbn [ch_ctag set chz] in Ht; lia]); intros t;
       rewrite !where_ch_nc; cbn [ch_cur set chz]; rewrite (cur_part_frame s _ _ F1);
       rewrite (where_nc_frame s _ c h _ F1 F2 (chan_inst_set_chan s c h ch2 chz c h Hg eq_refl));
       unfold where_nc; cbn [ch_confirmq ch_inst set chz]; rewrite !cnt_app, cnt_nil; lia.
Qed.

Lemma keep_of_kfull s s' :
  (forall ch', get_chan s' c h = Some ch' -> exists ch, get_chan s c h = Some ch /\ ch_inst ch' = ch_inst ch /\ ch_ctag ch' = ch_ctag ch) ->
  kfull s s' -> keep_ch s s' [].
Proof.
  intros Hc K. unfold keep_ch. destruct (get_chan s' c h) as [ch'|] eqn:Hg'; [|exact I].
  destruct (Hc ch' eq_refl) as (ch & Hg & Ei & Ec). rewrite Hg, Ei, N.eqb_refl. cbn [acks_of flat_map app]. split; [exact (K ch ch' Hg Hg')|intros t Ht; lia].
Qed.
Lemma finish_publish_corr fx s c2 h2 u ch2 ch' :
  fx_clear_current fx = true -> Aux s -> get_chan s c2 h2 = Some ch2 -> ch_cur ch2 = Some u ->
  get_chan (fst (finish_publish fx s c2 h2 u)) c h = Some ch' ->
  exists ch, get_chan s c h = Some ch /\ ch_inst ch' = ch_inst ch /\ ch_ctag ch' = ch_ctag ch.
Proof.
  intros Hfx Ha Hgc Hcur. pose proof (route_and_push_midc fx s c2 h2 u ch2 Ha Hgc Hcur) as Hmc. unfold finish_publish.
  destruct (route_and_push fx s c2 h2 u) as [s1 e1]. cbn [fst] in *. rewrite Hfx. intros Hg'.
  assert (Hg1 : exists ch1, get_chan s1 c h = Some ch1 /\ ch_inst ch' = ch_inst ch1 /\ ch_ctag ch' = ch_ctag ch1).
  { unfold upd_chan in Hg'. destruct (get_chan s1 c2 h2) as [ch21|] eqn:E21; [|eauto].
    rewrite get_chan_set_chan in Hg'. pose proof (get_chan_conn _ _ _ _ E21). destruct (get_conn s1 c2); [|congruence].
    destruct ((c =? c2) && (h =? h2)) eqn:Eb; [|eauto].
    apply andb_prop in Eb. destruct Eb as [E1 E2]. apply N.eqb_eq in E1, E2. subst c2 h2. inversion Hg'; subst ch'. exists ch21. auto. }
  destruct Hg1 as (ch1 & Hg1 & Ei & Ec). pose proof (midc_ch _ _ _ Hmc c h) as C. unfold midc_chan in C. rewrite Hg1 in C.
  destruct (get_chan s c h) as [ch|]; [|tauto]. destruct C as (a & b & _). exists ch. repeat split; congruence.
Qed.
Lemma finish_publish_keep fx s c2 h2 u ch2 :
  fx_clear_current fx = true -> Units s -> get_chan s c2 h2 = Some ch2 -> ch_cur ch2 = Some u -> not_closed s ->
  keep_ch s (fst (finish_publish fx s c2 h2 u)) [].
Proof.
  intros Hfx Hu Hgc Hcur Hnc. apply keep_of_kfull; [|apply (finish_publish_kfull fx s c2 h2 u ch2); auto].
  pose proof (route_and_push_midc fx s c2 h2 u ch2 (un_aux _ Hu) Hgc Hcur) as Hmc. unfold finish_publish.
  destruct (route_and_push fx s c2 h2 u) as [s1 e1]. cbn [fst] in *. rewrite Hfx. intros ch' Hg'.
  assert (Hg1 : exists ch1, get_chan s1 c h = Some ch1 /\ ch_inst ch' = ch_inst ch1 /\ ch_ctag ch' = ch_ctag ch1).
  { unfold upd_chan in Hg'. destruct (get_chan s1 c2 h2) as [ch21|] eqn:E21; [|eauto].
    rewrite get_chan_set_chan in Hg'. pose proof (get_chan_conn _ _ _ _ E21). destruct (get_conn s1 c2); [|congruence].
    destruct ((c =? c2) && (h =? h2)) eqn:Eb; [|eauto].
    apply andb_prop in Eb. destruct Eb as [E1 E2]. apply N.eqb_eq in E1, E2. subst c2 h2. inversion Hg'; subst ch'. exists ch21. auto. }
  destruct Hg1 as (ch1 & Hg1 & Ei & Ec). pose proof (midc_ch _ _ _ Hmc c h) as C. unfold midc_chan in C. rewrite Hg1 in C.
  destruct (get_chan s c h) as [ch|]; [|tauto]. destruct C as (a & b & _). exists ch. repeat split; congruence.
Qed.

Lemma new_conn_keep s c2 cn : get_conn s c2 = None -> cn_chans cn = [(0, channel0)] -> keep_ch s (s <| conns := aset N.eqb c2 cn (conns s) |>) [].
Proof.
  intros Ecn Hch. set (s1 := s <| conns := _ |>).
  assert (Hgc : get_chan s1 c h = if c =? c2 then (if h =? 0 then Some channel0 else None) else get_chan s c h).
  { unfold s1, get_chan, get_conn. cbn. rewrite (alookup_aset N.eqb Neqb_spec). destruct (c =? c2) eqn:E1; [|reflexivity].
    rewrite Hch. cbn. destruct (h =? 0); reflexivity. }
  destruct (c =? c2) eqn:E1.
  - destruct (h =? 0) eqn:E2; [|unfold keep_ch; rewrite Hgc; exact I].
    apply (keep_fresh s s1 [] channel0); auto. apply N.eqb_eq in E1. subst c2. intros ch X. unfold get_chan in X. rewrite Ecn in X. discriminate.
  - apply keep_same; auto.
Qed.

(* the drop points of channel (c,h) *)
Definition cur_of (s : state) : option N := match get_chan s c h with Some ch => ch_cur ch | None => None end.
Definition drops (s : state) (l : label) : bool :=
  match l with
  | LMethod c2 h2 (MPublish _ _ _ _) => (c2 =? c) && (h2 =? h) && match cur_of s with Some _ => true | None => false end
  | LBody c2 h2 len => (c2 =? c) && (h2 =? h) &&
                       match cur_of s with
                       | Some u => match get_msg s u with Some m => m_hsize m <? m_size m + len | None => false end
                       | None => false
                       end
  | _ => false
  end.

Lemma heap_ensure_chan s c2 h2 : heap (ensure_chan s c2 h2) = heap s.
Proof. unfold ensure_chan. destruct (get_conn s c2); auto. destruct (alookup _ _ _); reflexivity. Qed.
Lemma not_closed_ensure s c2 h2 : not_closed s -> not_closed (ensure_chan s c2 h2).
Proof. intros H ch Hg. destruct (get_chan_ensure s c2 h2 c h ch Hg) as [X|X]; [apply (H ch X)|subst; discriminate]. Qed.

Lemma step_TK cfg fx s l :
  fx_clear_current fx = true -> is_confirm_tick l = false -> Units s -> live_confirm s -> not_closed s -> fresh_step s l -> drops s l = false ->
  closedb (fst (step cfg fx s l)) c h = false ->
  TK s (fst (step cfg fx s l)).
Proof.
  intros Hfx Hl Hu Hlc Hnc Hfr Hnd Hcl. pose proof (un_aux _ Hu) as Ha.
  destruct l as [c2|c2 h2 m|c2 h2 mid0 size pers|c2 h2 len|c2 h2 tag|q| | | |c2 h2|c2|c2|c2 h2|c2 h2| ]; try discriminate; cbn [step].
  - (* LConnect *)
    destruct (get_conn s c2) eqn:Ec; cbn [fst]; [apply TK_refl; auto|].
    split; [apply (new_conn_tr s c2 _ []); auto|apply new_conn_keep; auto].
  - (* LMethod *)
    cbn [step] in Hcl. revert Hcl.
    destruct (get_conn s c2) as [cn0|] eqn:Ecn0; [|intros _; apply TK_refl; auto].
    destruct (negb _ && negb _)%bool; [intros _; apply conn_close_tk; auto|]. intros Hcl.
    apply (TK_ensure_then s c2 h2); [exact Ha|]. intros A0. set (s1 := ensure_chan s c2 h2) in *.
    assert (Hg1 : exists ch1, get_chan s1 c2 h2 = Some ch1).
    { subst s1. unfold ensure_chan. rewrite Ecn0. destruct (alookup N.eqb h2 (cn_chans cn0)) as [ch1|] eqn:Eh.
      - exists ch1. unfold get_chan. rewrite Ecn0. exact Eh.
      - exists channel0. unfold get_chan, get_conn. cbn. rewrite (alookup_aset N.eqb Neqb_spec), N.eqb_refl. cbn.
        rewrite (alookup_aset N.eqb Neqb_spec), N.eqb_refl. reflexivity. }
    destruct Hg1 as (ch1 & Hg1).
    assert (Hpo : publish_ok s1 c2 h2 m).
    { destruct m; try exact I. intros Eb ch Hg. cbn [drops] in Hnd. rewrite Eb in Hnd. cbn [andb] in Hnd. unfold cur_of in Hnd.
      destruct (get_chan_ensure s c2 h2 c h ch Hg) as [X|X]; [|subst; reflexivity]. rewrite X in Hnd. destruct (ch_cur ch); [discriminate|reflexivity]. }
    destruct m.
    all: try (revert Hcl; repeat match goal with |- context [if ?b then _ else _] => destruct b end; intros Hcl;
              first [ apply TK_refl; exact A0
                    | apply apply_err_tk; first [ apply handle_method_tk; [exact A0|exact Hpo|reflexivity] | apply TK_refl; exact A0 ]
                    | apply apply_err_st_tk; first [ apply handle_method_tk; [exact A0|exact Hpo|reflexivity] | apply TK_refl; exact A0 ]
                    | eapply close_method_tk; [exact A0|reflexivity|exact Hg1|exact Hcl] ]).
    + destruct (fx_stage fx && negb (h2 =? 0)); [apply apply_err_tk; apply TK_refl; exact A0|].
      pose proof (conn_close_tk cfg fx s1 c2 A0) as (Hc & _).
      destruct (conn_close cfg fx s1 c2) as [s2 e2]. exact Hc.
    + destruct (fx_stage fx && negb (h2 =? 0)); [apply apply_err_tk; apply TK_refl; exact A0|]. apply conn_close_tk; auto.
  - (* LHeader *)
    destruct (get_conn s c2) as [cn0|]; [|apply TK_refl; auto].
    destruct (negb _ && negb _)%bool; [apply conn_close_tk; auto|].
    apply (TK_ensure_then s c2 h2); [exact Ha|]. intros A0. set (s1 := ensure_chan s c2 h2) in *.
    destruct (get_chan s1 c2 h2) as [ch2|] eqn:Hgc; [|apply TK_refl; auto].
    destruct (_ && _)%bool; [apply TK_refl; auto|].
    destruct (ch_cur ch2) as [u|] eqn:Ecur; [|apply apply_err_st_tk; apply TK_refl; auto].
    destruct (get_msg s1 u) as [m|]; [|apply TK_refl; auto].
    destruct (m_has_header m); [apply apply_err_st_tk; apply TK_refl; auto|].
    set (s2 := upd_msg s1 u _).
    assert (Hv2 : vle s1 s2) by (subst s2; apply vle_upd_msg; intros; reflexivity).
    destruct (_ && _)%bool; [|apply TK_vle; auto].
    apply (TK_mid_then s1 s2); auto; [apply vle_mid; exact Hv2|apply kch_vle; exact Hv2|]. intros A2.
    assert (Hg2 : get_chan s2 c2 h2 = Some ch2) by (subst s2; unfold upd_msg; destruct (get_msg s1 u); exact Hgc).
    assert (Hu2 : Units s2) by (apply (Units_vle s1); auto; apply Units_ensure; exact Hu).
    assert (Hnc2 : not_closed s2).
    { intros ch Hg. apply (not_closed_ensure s c2 h2 Hnc ch). subst s2. unfold upd_msg in Hg. destruct (get_msg s1 u); exact Hg. }
    split; [apply (finish_publish_tr fx s2 c2 h2 u ch2 []); auto|].
    apply (finish_publish_keep fx s2 c2 h2 u ch2); auto.
  - (* LBody *)
    destruct (get_conn s c2) as [cn0|]; [|apply TK_refl; auto].
    destruct (negb _ && negb _)%bool; [apply conn_close_tk; auto|].
    apply (TK_ensure_then s c2 h2); [exact Ha|]. intros A0. set (s1 := ensure_chan s c2 h2) in *.
    destruct (get_chan s1 c2 h2) as [ch2|] eqn:Hgc; [|apply TK_refl; auto].
    destruct (_ && _)%bool; [apply TK_refl; auto|].
    destruct (ch_cur ch2) as [u|] eqn:Ecur; [|apply apply_err_st_tk; apply TK_refl; auto].
    destruct (get_msg s1 u) as [m|] eqn:Hgm; [|apply TK_refl; auto].
    destruct (negb (m_has_header m)); [apply apply_err_st_tk; apply TK_refl; auto|].
    destruct (m_hsize m <? m_size m + len) eqn:Eov.
    { apply apply_err_st_tk. cbn [fst refuse]. unfold upd_chan. rewrite Hgc.
      split; [apply drop_tr; auto|].
      (* not the tracked channel: its own message would be dropped *)
      destruct ((c =? c2) && (h =? h2)) eqn:Eb.
      - exfalso. apply andb_prop in Eb. destruct Eb as [E1 E2]. apply N.eqb_eq in E1, E2. subst c2 h2.
        assert (Hgm0 : get_msg s u = Some m) by (unfold get_msg in *; rewrite <- (heap_ensure_chan s c h); exact Hgm).
        cbn [drops] in Hnd. rewrite !N.eqb_refl in Hnd. cbn [andb] in Hnd. unfold cur_of in Hnd.
        destruct (get_chan_ensure s c h c h ch2 Hgc) as [X|X]; [|subst; discriminate]. rewrite X, Ecur, Hgm0, Eov in Hnd. discriminate.
      - destruct (set_chan_frame s1 c2 h2 (ch2 <| ch_cur := None |>)) as (F1 & F2 & _).
        apply keep_same; auto. rewrite get_chan_set_chan. destruct (get_conn s1 c2); auto. rewrite Eb. reflexivity. }
    set (s2 := upd_msg s1 u _).
    assert (Hv2 : vle s1 s2) by (subst s2; apply vle_upd_msg; intros; reflexivity).
    destruct (m_size m + len <? m_hsize m); [apply TK_vle; auto|].
    apply (TK_mid_then s1 s2); auto; [apply vle_mid; exact Hv2|apply kch_vle; exact Hv2|]. intros A2.
    assert (Hg2 : get_chan s2 c2 h2 = Some ch2) by (subst s2; unfold upd_msg; rewrite Hgm; exact Hgc).
    assert (Hu2 : Units s2) by (apply (Units_vle s1); auto; apply Units_ensure; exact Hu).
    assert (Hnc2 : not_closed s2).
    { intros ch Hg. apply (not_closed_ensure s c2 h2 Hnc ch). subst s2. unfold upd_msg in Hg. rewrite Hgm in Hg. exact Hg. }
    split; [apply (finish_publish_tr fx s2 c2 h2 u ch2 []); auto|].
    apply (finish_publish_keep fx s2 c2 h2 u ch2); auto.
  - apply TK_vle; auto. apply V_consumer_turn. apply vle_refl.
  - cbn [fst]. apply TK_vle; auto. apply V_queue_loop_turn. apply vle_refl.
  - destruct (autodel s) as [|qn rest]; [apply TK_refl; auto|].
    assert (H0 : vle s (s <| autodel := rest |>)) by (vs; apply vle_refl).
    destruct (get_queue _ qn) as [qu0|]; [|apply TK_vle; auto]. destruct (q_autodel qu0); [|apply TK_vle; auto].
    pose proof (V_vhost_delete_queue s (negb (fx_delete_checks_first fx)) _ qn true false H0) as Hd.
    destruct (vhost_delete_queue _ (s <| autodel := rest |>) qn true false) as [[s1 e1] r1]. apply TK_vle; auto.
  - apply TK_mid; auto; [apply (persist_tick_mid cfg fx)|apply (persist_tick_kch cfg fx)].
  - apply TK_mid; auto; [apply (relay_step_mid cfg fx)|apply (relay_step_kch cfg fx); auto].
  - pose proof (conn_close_tk cfg fx s c2 Ha) as (Hc & _). destruct (conn_close cfg fx s c2) as [s1 e1]. exact Hc.
  - (* LAccept *)
    destruct (get_conn s c2) eqn:Ec; cbn [fst]; [apply TK_refl; auto|].
    split; [apply (new_conn_tr s c2 _ []); auto|apply new_conn_keep; auto].
  - (* LBadMethod *)
    destruct (get_conn s c2) as [cn0|]; [|apply TK_refl; auto].
    destruct (negb _ && negb _)%bool; [apply conn_close_tk; auto|].
    apply (TK_ensure_then s c2 h2); [exact Ha|]. intros A0. apply apply_err_st_tk. apply TK_refl. exact A0.
  - destruct (get_conn s c2); [|apply TK_refl; auto]. destruct (h2 =? 0); [apply TK_refl; auto|apply conn_close_tk; auto].
  - destruct (restart_tr cfg s Ha) as [A T]. split; [split; auto; eapply trans_nb; [apply nb_restart|reflexivity|exact T]|].
    unfold keep_ch. assert (E : get_chan (fst (restart cfg s)) c h = None) by reflexivity. rewrite E. exact I.
Qed.

End Keep.

(* ---- a channel that has given out a number is in confirm mode ---- *)
Definition CT (s : state) : Prop := forall c h ch, get_chan s c h = Some ch -> 0 < ch_ctag ch -> ch_confirm ch = true.
Definition AC (s : state) : Prop := Aux s /\ CT s.

Lemma CT_rec s s' :
  (forall c h ch', get_chan s' c h = Some ch' ->
     (exists ch, get_chan s c h = Some ch /\ ch_ctag ch' = ch_ctag ch /\ ch_confirm ch' = ch_confirm ch) \/ (0 < ch_ctag ch' -> ch_confirm ch' = true)) ->
  CT s -> CT s'.
Proof.
  intros H Hc c h ch' Hg Hp. destruct (H c h ch' Hg) as [(ch & Hg0 & E1 & E2)|X]; auto. rewrite E2. apply (Hc c h ch Hg0). lia.
Qed.
Lemma CT_mid_sct s s' : mid s s' -> sct_same s s' -> CT s -> CT s'.
Proof.
  intros Hm Hs. apply CT_rec. intros c h ch' Hg. left. pose proof (mid_ch _ _ Hm c h) as C. unfold mid_chan in C. rewrite Hg in C.
  destruct (get_chan s c h) as [ch|] eqn:Hg0; [|tauto]. destruct C as (_ & b & _). specialize (Hs c h). rewrite Hg, Hg0 in Hs. cbn in Hs.
  inversion Hs. exists ch. auto.
Qed.
Lemma CT_set_chan s c h ch ch' : get_chan s c h = Some ch -> (0 < ch_ctag ch' -> ch_confirm ch' = true) -> CT s -> CT (set_chan s c h ch').
Proof.
  intros Hg Hn. apply CT_rec. intros c1 h1 ch1 Hg1. rewrite get_chan_set_chan in Hg1. pose proof (get_chan_conn _ _ _ _ Hg). destruct (get_conn s c); [|congruence].
  destruct ((c1 =? c) && (h1 =? h)); [inversion Hg1; subst; right; exact Hn|left; exists ch1; auto].
Qed.
Lemma conns_tick cfg fx s : conns (fst (step cfg fx s LPersistTick)) = conns s.
Proof.
  cbn [step fst]. match goal with |- conns (fold_left ?f ?l ?s0) = _ => assert (H : forall l0 s1, conns (fold_left f l0 s1) = conns s1) end.
  { induction l0 as [|k r IH]; intros s1; cbn [fold_left]; auto. rewrite IH. apply conns_store_confirm. }
  rewrite H. reflexivity.
Qed.
Lemma sct_same_relay cfg fx s : sct_same s (fst (step cfg fx s LRelay)).
Proof.
  cbn [step]. destruct (relay s) as [|u rest]; [intros ? ?; reflexivity|].
  assert (H1 : sct_same s (s <| relay := rest |>)) by (apply sct_same_conns; reflexivity).
  destruct (get_msg _ u) as [m|]; cbn [fst]; auto. destruct (m_conf m) as [[[c0 h0] t0]|]; cbn [fst]; auto.
  eapply sct_same_trans; [exact H1|apply sct_same_add_confirm].
Qed.

Theorem AC_step cfg fx s l : fx_clear_current fx = true -> AC s -> fresh_step s l -> AC (fst (step cfg fx s l)).
Proof.
  intros Hfx. apply (B_step cfg fx AC (fun _ => True) (fun _ _ _ _ H => H) (fun _ => True)); auto; try (destruct l; exact I).
  - intros s0 s1 Hv [Ha Hc]. split; [eapply Aux_mid; [apply vle_mid|]; eauto|]. revert Hc. apply CT_rec. intros c h ch' Hg. left.
    pose proof (v_chan _ _ Hv c h) as A. unfold chan_le in A. rewrite Hg in A. destruct (get_chan s0 c h) as [ch|]; [|tauto].
    destruct A as [Ew _]. inversion Ew. exists ch. auto.
  - intros s0 c h [Ha Hc]. split; [apply (ensure_chan_tr s0 c h [] Ha eq_refl)|]. revert Hc. apply CT_rec. intros c1 h1 ch' Hg.
    destruct (get_chan_ensure s0 c h c1 h1 ch' Hg) as [X|X]; [left; exists ch'; auto|subst; right; cbn; lia].
  - intros s0 c h m Hcm _ [Ha Hc]. split; [apply (handle_method_tr cfg fx s0 c h m Ha)|].
    unfold handle_method. destruct (get_chan s0 c h) as [ch|] eqn:Hch; [|exact Hc].
    destruct m; try discriminate; unfold ok, refuse.
    + destruct (ch_status ch); cbn [fst]; auto; try (apply (CT_set_chan s0 c h ch); auto; cbn; exact (Hc c h ch Hch)).
      destruct (fx_reopen_resets fx).
      * apply (CT_set_chan s0 c h ch); auto. cbn. lia.
      * apply (CT_set_chan s0 c h ch); auto. cbn. exact (Hc c h ch Hch).
    + destruct imm; auto. destruct (alookup seqb ex (exchanges s0)); auto.
      destruct (ch_confirm ch) eqn:Ecf; cbn [fst];
        (apply (CT_set_chan _ c h ch); [exact Hch| |intros c1 h1 ch1 X; exact (Hc c1 h1 ch1 X)]); cbn; auto.
      intros X. exact (Hc c h ch Hch X).
    + cbn [fst]. apply (CT_set_chan s0 c h ch); auto.
  - intros s0 c [Ha Hc]. split; [apply (del_conn_tr s0 c [] Ha eq_refl)|]. revert Hc. apply CT_rec. intros c1 h1 ch' Hg.
    rewrite get_chan_del_conn in Hg. destruct (c1 =? c); [discriminate|]. left. exists ch'. auto.
  - intros s0 c h u ch _ Hg Hcur [Ha Hc]. split; [apply (finish_publish_tr fx s0 c h u ch [] Hfx Ha Hg Hcur eq_refl)|].
    revert Hc. apply CT_rec. intros c1 h1 ch' Hg'. left.
    destruct (finish_publish_corr c1 h1 fx s0 c h u ch ch' Hfx Ha Hg Hcur Hg') as (ch0 & Hg0 & _ & Ec). exists ch0. split; auto. split; auto.
    pose proof (sct_same_finish fx s0 c h u c1 h1) as Hs. rewrite Hg', Hg0 in Hs. cbn in Hs. inversion Hs. auto.
  - intros s0 c h ch Hg [Ha Hc]. split; [apply (drop_tr s0 c h ch Ha Hg)|]. apply (CT_set_chan s0 c h ch); auto. cbn. exact (Hc c h ch Hg).
  - intros s0 [Ha Hc]. split; [eapply Aux_mid; [apply persist_tick_mid|exact Ha]|].
    apply (CT_mid_sct s0); auto; [apply persist_tick_mid|apply sct_same_conns, conns_tick].
  - intros s0 [Ha Hc]. split; [eapply Aux_mid; [apply relay_step_mid|exact Ha]|].
    apply (CT_mid_sct s0); auto; [apply relay_step_mid|apply sct_same_relay].
  - intros s0 c h [Ha Hc]. split; [apply (confirm_tick_tr cfg fx s0 c h Ha)|]. cbn [step].
    destruct (get_chan s0 c h) as [ch|] eqn:Hg; auto. destruct (negb _); auto.
    destruct (ch_status ch); cbn [fst]; (apply (CT_set_chan s0 c h ch); auto; cbn; exact (Hc c h ch Hg)).
  - intros s0 c cn _ Ecn Hch Hfr [Ha Hc]. split; [apply (new_conn_tr s0 c cn [] Ecn Hch Hfr Ha eq_refl)|]. revert Hc. apply CT_rec.
    intros c1 h1 ch' Hg. unfold get_chan, get_conn in Hg. cbn in Hg. rewrite (alookup_aset N.eqb Neqb_spec) in Hg. destruct (c1 =? c) eqn:E1.
    + rewrite Hch in Hg. cbn in Hg. destruct (h1 =? 0); [|discriminate]. inversion Hg; subst. right. cbn. lia.
    + left. exists ch'. auto.
  - intros s0 [Ha Hc]. split; [apply (restart_tr cfg s0 Ha)|]. intros c h ch Hg. unfold restart, get_chan, get_conn in Hg. cbn in Hg. discriminate.
Qed.

Lemma live_confirm_of c h s : AC s -> live_confirm c h s.
Proof.
  intros [Ha Hc] u m t0 ch Hgm Ecf Hg Hi. apply (Hc c h ch Hg).
  destruct (aux_msg _ Ha u m (alookup_in N.eqb Neqb_spec _ _ _ Hgm)) as [_ Hk].
  destruct (Hk c h t0 Ecf) as [X|(ch0 & Hg0 & _ & Hr)]; [pose proof (get_chan_conn _ _ _ _ Hg); congruence|].
  rewrite Hg in Hg0. inversion Hg0; subst ch0. specialize (Hr Hi). lia.
Qed.

(* ---- the condition on the run: no number of the current instance of channel (c,h) was dropped ---- *)
Definition ctag_of (s : state) (c h : N) : N := match get_chan s c h with Some ch => ch_ctag ch | None => 0 end.
(* one step.  Within an instance: no drop point (a publish accepted while the previous message is still being assembled,
   a body frame beyond the announced size) and the channel is not closed afterwards.  When an instance begins (the channel
   number comes into being or is opened again): it is not closed and has given out no number yet. *)
Definition nd_step (cfg : config) (fx : fixes) (s : state) (l : label) (c h : N) (ok : bool) : bool :=
  let s' := fst (step cfg fx s l) in
  if oN_eqb (chan_inst s c h) (chan_inst s' c h)
  then ok && negb (drops c h s l) && negb (closedb s' c h)
  else negb (closedb s' c h) && (ctag_of s' c h =? 0).
Fixpoint nd_from (cfg : config) (fx : fixes) (s : state) (ls : list label) (c h : N) (ok : bool) : bool :=
  match ls with
  | [] => ok
  | l :: t => nd_from cfg fx (fst (step cfg fx s l)) t c h (nd_step cfg fx s l c h ok)
  end.
Definition no_drop_run (cfg : config) (fx : fixes) (s : state) (ls : list label) (c h : N) : bool := nd_from cfg fx s ls c h true.

Definition GI (c h : N) (s : state) (A : list N) (ok : bool) : Prop :=
  ok = true -> not_closed c h s /\
  forall ch, get_chan s c h = Some ch -> forall t, 1 <= t <= ch_ctag ch -> In t (A ++ where_ch s c h ch).

Lemma step_keep cfg fx s l c h :
  fx_clear_current fx = true -> Units s -> AC s -> not_closed c h s -> fresh_step s l -> drops c h s l = false ->
  closedb (fst (step cfg fx s l)) c h = false ->
  keep_ch c h s (fst (step cfg fx s l)) (snd (step cfg fx s l)).
Proof.
  intros Hfx Hu Hac Hnc Hfr Hnd Hcl. destruct (is_confirm_tick l) eqn:El.
  - destruct l; try discriminate. apply confirm_tick_keep.
  - destruct (step_TK c h cfg fx s l Hfx El Hu (live_confirm_of c h s Hac) Hnc Hfr Hnd Hcl) as [_ K].
    unfold keep_ch, covnew in *. rewrite (nb_acks c h _ (nb_step cfg fx s l El)). exact K.
Qed.

Lemma GI_step cfg fx s l c h A ok :
  fx_clear_current fx = true -> Units s -> AC s -> fresh_step s l -> GI c h s A ok ->
  GI c h (fst (step cfg fx s l)) (acked_step s (fst (step cfg fx s l)) (snd (step cfg fx s l)) c h A) (nd_step cfg fx s l c h ok).
Proof.
  intros Hfx Hu Hac Hfr Hgi Hok. unfold nd_step in Hok. cbv zeta in Hok. unfold acked_step.
  set (s' := fst (step cfg fx s l)) in *. set (evs := snd (step cfg fx s l)).
  destruct (oN_eqb (chan_inst s c h) (chan_inst s' c h)) eqn:Ei.
  - apply andb_prop in Hok. destruct Hok as [Hok Hcl]. apply andb_prop in Hok. destruct Hok as [Hok Hdr].
    apply Bool.negb_true_iff in Hcl, Hdr. destruct (Hgi Hok) as [Hnc Hcov].
    split; [intros ch Hg X; unfold closedb in Hcl; rewrite Hg, X in Hcl; discriminate|].
    intros ch' Hg' t Ht. pose proof (step_keep cfg fx s l c h Hfx Hu Hac Hnc Hfr Hdr Hcl) as K. fold s' evs in K.
    unfold keep_ch in K. rewrite Hg' in K. unfold chan_inst in Ei. rewrite Hg' in Ei.
    destruct (get_chan s c h) as [ch|] eqn:Hg; [|discriminate]. cbn [oN_eqb] in Ei. rewrite (N.eqb_sym (ch_inst ch') (ch_inst ch)), Ei in K.
    destruct K as [Ka Kb]. rewrite <- app_assoc. destruct (N.le_gt_cases t (ch_ctag ch)) as [Hle|Hgt].
    + specialize (Hcov ch eq_refl t (conj (proj1 Ht) Hle)). apply in_app_or in Hcov. apply in_or_app. destruct Hcov as [X|X]; [left; exact X|right].
      apply cnt_in in X. apply cnt_in. specialize (Ka t). lia.
    + apply in_or_app. right. apply Kb. lia.
  - apply andb_prop in Hok. destruct Hok as [Hcl Hz]. apply Bool.negb_true_iff in Hcl. apply N.eqb_eq in Hz.
    split; [intros ch Hg X; unfold closedb in Hcl; rewrite Hg, X in Hcl; discriminate|].
    intros ch' Hg' t Ht. unfold ctag_of in Hz. rewrite Hg' in Hz. lia.
Qed.

Lemma GI_run cfg fx ls c h : forall s A ok,
  fx_clear_current fx = true -> UW s -> AC s -> fresh_along cfg fx s ls -> GI c h s A ok ->
  GI c h (fst (run cfg fx s ls)) (acked_from cfg fx s ls c h A) (nd_from cfg fx s ls c h ok).
Proof.
  induction ls as [|l t IH]; intros s A ok Hfx Huw Hac Hfr Hgi; [exact Hgi|].
  destruct Hfr as [Hf1 Hf2]. rewrite run_cons. cbn [acked_from nd_from]. apply IH; auto.
  - apply UW_step; auto.
  - apply AC_step; auto.
  - apply GI_step; auto. exact (proj1 Huw).
Qed.

Lemma AC_init cfg : AC (init cfg).
Proof. split; [apply (proj1 (Inv_init cfg))|]. intros c h ch Hg. unfold get_chan, get_conn in Hg. cbn in Hg. discriminate. Qed.

(* EXACTLY ONCE AT REST: on a channel that is open in confirm mode, not assembling a message, in a quiescent state, the
   numbers acknowledged since the instance began are exactly 1 .. ch_ctag - provided the run dropped no number of the
   instance (no_drop_run: decidable from the label list) *)
Theorem confirm_exactly_once_at_rest cfg fx ls c h ch :
  fx_clear_current fx = true -> fx_discard_closing fx = true -> fx_reopen_resets fx = true -> fx_delete_checks_first fx = true ->
  fresh_along cfg fx (init cfg) ls -> no_drop_run cfg fx (init cfg) ls c h = true ->
  let s := fst (run cfg fx (init cfg) ls) in
  quiescent s = true -> get_chan s c h = Some ch -> ch_status ch = ChOpen -> ch_confirm ch = true -> ch_cur ch = None ->
  Permutation (acked_run cfg fx (init cfg) ls c h) (nums (ch_ctag ch)).
Proof.
  intros H1 H2 H3 H4 Hfr Hnd s Hq Hg Hst Hcf Hcur.
  apply (confirm_exactly_once_at_rest_partial cfg fx ls c h ch); auto. fold s.
  assert (Hgi0 : GI c h (init cfg) [] true).
  { intros _. split; intros ch0 X; unfold get_chan, get_conn in X; cbn in X; discriminate. }
  pose proof (GI_run cfg fx ls c h (init cfg) [] true H1 (UW_init cfg) (AC_init cfg) Hfr Hgi0) as Hgi.
  destruct (Hgi Hnd) as [_ Hcov]. intros t Ht. unfold where_is. fold s in Hcov. rewrite Hg. exact (Hcov ch Hg t Ht).
Qed.

(* every number is accounted for in every reachable state of such a run, at rest or not *)
Theorem confirm_nothing_dropped cfg fx ls c h ch :
  fx_clear_current fx = true -> fresh_along cfg fx (init cfg) ls -> no_drop_run cfg fx (init cfg) ls c h = true ->
  let s := fst (run cfg fx (init cfg) ls) in
  get_chan s c h = Some ch ->
  forall t, 1 <= t <= ch_ctag ch -> In t (acked_run cfg fx (init cfg) ls c h ++ where_is s c h).
Proof.
  intros H1 Hfr Hnd s Hg t Ht.
  assert (Hgi0 : GI c h (init cfg) [] true).
  { intros _. split; intros ch0 X; unfold get_chan, get_conn in X; cbn in X; discriminate. }
  pose proof (GI_run cfg fx ls c h (init cfg) [] true H1 (UW_init cfg) (AC_init cfg) Hfr Hgi0) as Hgi.
  destruct (Hgi Hnd) as [_ Hcov]. unfold where_is. fold s. rewrite Hg. exact (Hcov ch Hg t Ht).
Qed.
