(* C02, settled messages: the store holds no key of a message that its queue object does not hold.

   CS (store soundness, the converse of BrokerDurable.SC): every key (u, qn) of the EFFECTIVE store (what the next persist
      tick leaves in st_db) belongs to a live durable queue named qn, u is persistent, and that queue object holds u.
      In particular store keys exist only for persistent messages of durable queues.
   NM every unsettled delivery names its queue object: an object with the id u_qid is called u_queue.
   KI = HI /\ CS /\ NM is kept by every label of a graceful run (every LRestart directly preceded by LPersistTick).

   From CS the per-label theorems of BrokerHolder.v collapse into one: in a reachable state a message that queue object qid
   does not hold is never held by it again ([settled_is_never_held_again]).

   Method as in BrokerHolder.v / BrokerDurable.v: primitive by primitive; frames from FR / XS; the closed-channel and
   connection-teardown facts (a closed channel and channel 0 hold nothing) come from BrokerConserve.Inv. *)
From Coq Require Import List String NArith ZArith Bool Lia ZifyBool ZifyN Permutation.
From RecordUpdate Require Import RecordUpdate.
Import ListNotations.
From GMQ Require Import Broker.Model Proofs.BrokerFrames Proofs.BrokerTags Proofs.BrokerChanInv Proofs.BrokerQueueInv Proofs.BrokerReady
  Proofs.BrokerRestart Proofs.BrokerLedger Proofs.BrokerHeld Proofs.BrokerHolder Proofs.BrokerDurable.
From GMQ Require Proofs.BrokerConserveView Proofs.BrokerConserveOps Proofs.BrokerConserve.
Open Scope N_scope.

(* ================================================================== *)
(* 0. definitions *)
Definition CS (s : state) : Prop :=
  forall u qn, eff s (u, qn) ->
    exists qid, In (qn, qid) (nmv s) /\ durb s qn = true /\ persb s u = true /\ In u (held s qid).
Definition uqp (s : state) : list (string * N) := map (fun e => (u_queue e, u_qid e)) (all_unacked s).
Definition NM (s : state) : Prop := forall qn qid, In (qn, qid) (uqp s) -> forall qn', In (qn', qid) (nmv s) -> qn' = qn.
Record KI (s : state) : Prop := { ki_hi : HI s; ki_cs : CS s; ki_nm : NM s }.

Lemma alookup_of_in {V} (l : list (string * V)) k v : NoDup (map fst l) -> In (k, v) l -> alookup seqb k l = Some v.
Proof.
  induction l as [|[k' v'] t IH]; intros Hn Hin; [destruct Hin|]. cbn [map fst] in Hn. inversion Hn as [|? ? Hni Hn']; subst.
  cbn [alookup]. destruct Hin as [E|Hin].
  - inversion E; subst. rewrite (proj2 (seqb_spec k k) eq_refl). reflexivity.
  - destruct (seqb k k') eqn:Ek; [|apply IH; auto]. apply seqb_spec in Ek. subst k'. exfalso. apply Hni.
    apply (in_map fst) in Hin. exact Hin.
Qed.
Lemma nmv_get_queue s qn qid : NoDup (map fst (nmv s)) -> In (qn, qid) (nmv s) -> exists qu, get_queue s qn = Some qu /\ q_id qu = qid.
Proof.
  intros Hn Hin. unfold nmv in Hin. apply in_map_iff in Hin. destruct Hin as ([k qu] & E & Hk). inversion E; subst.
  exists qu. split; [|reflexivity]. unfold get_queue. apply alookup_of_in; [rewrite <- names_nmv; exact Hn|exact Hk].
Qed.
Lemma In_U_all s c h e : In e (U s c h) -> In e (all_unacked s).
Proof.
  unfold U. destruct (get_chan s c h) as [ch|] eqn:Hg; [|intros []]. intros Hin.
  destruct (all_ch_set_chan ch_unacked s c h ch ch Hg) as (X & Y & E1 & _). change (all_ch ch_unacked s) with (all_unacked s) in E1. rewrite E1.
  apply in_or_app. right. apply in_or_app. left. exact Hin.
Qed.
Lemma In_uqp s e : In e (all_unacked s) -> In (u_queue e, u_qid e) (uqp s).
Proof. intros H. unfold uqp. apply (in_map (fun e => (u_queue e, u_qid e))) in H. exact H. Qed.
Lemma held_of_unacked s e : In e (all_unacked s) -> In (u_msg e) (held s (u_qid e)).
Proof. intros H. unfold held. apply in_or_app. right. unfold unacked_of. apply in_map. apply filter_In. split; [exact H|apply N.eqb_refl]. Qed.

(* a key with a pending delete is not effective *)
Lemma not_eff_del s k : HI s -> In k (st_del s) -> ~ eff s k.
Proof. intros H Hd [[A [B|B]]|[A B]]; [exact (B Hd)|exact (hi_db_add _ H _ A B)|exact (B Hd)]. Qed.

(* ================================================================== *)
(* 1. operations that add no key *)
Lemma K_keep s s' :
  KI s -> HI s' ->
  (forall k, eff s' k -> eff s k) -> (forall u, persb s' u = persb s u) -> (forall qn qid, In (qn, qid) (nmv s') -> durb s' qn = durb s qn) ->
  (forall u qn qid, In (qn, qid) (nmv s) -> In u (held s qid) -> eff s' (u, qn) -> In (qn, qid) (nmv s') /\ In u (held s' qid)) ->
  incl (uqp s') (uqp s) -> (forall p, In p (nmv s') -> In p (nmv s)) -> KI s'.
Proof.
  intros [H Hc Hn] H' He Hp Hd Hk Hu Hq. constructor; [exact H'| |].
  - intros u qn Hef. destruct (Hc u qn (He _ Hef)) as (qid & A & B & C & D).
    destruct (Hk u qn qid A D Hef) as [A' D']. exists qid. rewrite (Hd qn qid A'), Hp. auto.
  - intros qn qid Hin qn' Hin'. apply (Hn qn qid (Hu _ Hin) qn' (Hq _ Hin')).
Qed.

Lemma uqp_FR s s' : FR s s' -> uqp s' = uqp s.
Proof. intros E. unfold uqp. rewrite (all_unacked_FR _ _ E). reflexivity. Qed.

Lemma eff_same s s' k : st_add s' = st_add s -> st_db s' = st_db s -> st_del s' = st_del s -> eff s' k -> eff s k.
Proof. unfold eff. intros -> -> ->. auto. Qed.

Lemma K_FX s s' : KI s -> FR s s' -> XS s s' -> KI s'.
Proof.
  intros K E (X1 & X2 & X3). destruct (nexts_FR _ _ E) as (_ & _ & _ & D1 & D2).
  apply (K_keep s s' K); auto.
  - eapply HI_FR; [apply K|exact E].
  - intros k. apply eff_same; auto.
  - intros u qn qid Hin Hh _. rewrite (held_FR s s' qid E). destruct E as (_ & En & _). rewrite En. auto.
  - rewrite (uqp_FR _ _ E). apply incl_refl.
  - destruct E as (_ & En & _). rewrite En. auto.
Qed.
Lemma K_FX' s s' : KI s -> FX s s' -> KI s'.
Proof. intros K [A B]. eapply K_FX; eauto. Qed.

(* ================================================================== *)
(* 2. settling and returning one delivery *)
Lemma ntag_all e l : ~ In (u_tag e) (map u_tag l) -> filter (fun u => ntag e u) l = l.
Proof.
  induction l as [|a t IH]; intros Hn; cbn [filter]; [reflexivity|]. unfold ntag at 1.
  destruct (u_tag a =? u_tag e) eqn:E; cbn [negb].
  - apply N.eqb_eq in E. exfalso. apply Hn. left. exact E.
  - f_equal. apply IH. intros Hin. apply Hn. right. exact Hin.
Qed.
Lemma uq_del_exact qid x l e :
  NoDup (map u_tag l) -> In e l ->
  (cnt x (map u_msg (filter (fun u => qidb qid u) (filter (fun u => ntag e u) l))) +
   (if N.eqb (u_qid e) qid then cnt x [u_msg e] else 0) = cnt x (map u_msg (filter (fun u => qidb qid u) l)))%nat.
Proof.
  induction l as [|a t IH]; intros Hn Hin; [destruct Hin|]. cbn [map] in Hn. inversion Hn as [|? ? Hni Hn']; subst.
  destruct Hin as [->|Hin].
  - cbn [filter]. unfold ntag at 1. rewrite N.eqb_refl. cbn [negb]. rewrite (ntag_all e t Hni).
    unfold qidb. destruct (u_qid e =? qid); cbn [map]; rewrite ?cnt_cons, ?cnt_nil; lia.
  - specialize (IH Hn' Hin). cbn [filter]. unfold ntag at 1.
    destruct (u_tag a =? u_tag e) eqn:E.
    + apply N.eqb_eq in E. exfalso. apply Hni. rewrite E. apply in_map. exact Hin.
    + cbn [negb filter]. unfold qidb in *. destruct (u_qid e =? qid); destruct (u_qid a =? qid); cbn [map]; rewrite ?cnt_cons, ?cnt_nil in *; lia.
Qed.

Lemma held_del_exact s c h e :
  NoDup (map u_tag (U s c h)) -> In e (U s c h) -> forall qid x,
  (cnt x (held (upd_chan s c h (fun ch => del_unacked ch (u_tag e))) qid) + (if N.eqb (u_qid e) qid then cnt x [u_msg e] else 0) = cnt x (held s qid))%nat.
Proof.
  unfold U. destruct (get_chan s c h) as [ch|] eqn:Hg; [|intros _ []]. intros Hn Hin qid x. unfold upd_chan. rewrite Hg.
  pose proof (cnt_held_set_chan s c h ch (del_unacked ch (u_tag e)) Hg qid x) as Hc.
  set (s1 := set_chan s c h (del_unacked ch (u_tag e))) in *. clearbody s1.
  pose proof (uq_del_exact qid x (ch_unacked ch) e Hn Hin) as Hd. unfold qidb, ntag in Hd. unfold uq, del_unacked in Hc. cbn [ch_unacked set] in Hc. lia.
Qed.

Lemma all_unacked_del_incl s c h t : incl (all_unacked (upd_chan s c h (fun ch => del_unacked ch t))) (all_unacked s).
Proof.
  unfold upd_chan. destruct (get_chan s c h) as [ch|] eqn:Hg; [|apply incl_refl].
  destruct (all_ch_set_chan ch_unacked s c h ch (del_unacked ch t) Hg) as (X & Y & E1 & E2).
  change (all_ch ch_unacked s) with (all_unacked s) in E1.
  change (all_ch ch_unacked (set_chan s c h (del_unacked ch t))) with (all_unacked (set_chan s c h (del_unacked ch t))) in E2. rewrite E1, E2.
  intros x Hx. apply in_app_or in Hx. apply in_or_app. destruct Hx as [Hx|Hx]; [auto|right].
  apply in_app_or in Hx. apply in_or_app. destruct Hx as [Hx|Hx]; [left|auto]. unfold del_unacked in Hx. cbn [ch_unacked set] in Hx.
  apply filter_In in Hx. tauto.
Qed.
Lemma uqp_incl s s' : incl (all_unacked s') (all_unacked s) -> incl (uqp s') (uqp s).
Proof. intros H p Hp. unfold uqp in *. apply in_map_iff in Hp. destruct Hp as (e & <- & He). apply (in_map (fun e => (u_queue e, u_qid e))). auto. Qed.
Lemma all_unacked_same_conns s s' : conns s' = conns s -> all_unacked s' = all_unacked s.
Proof. intros E. rewrite !all_unacked_all_ch. apply all_ch_same_conns. exact E. Qed.

Lemma persb_true s u : persb s u = true -> exists m, get_msg s u = Some m /\ m_pers m = true.
Proof. unfold persb. destruct (get_msg s u) as [m|]; [eauto|discriminate]. Qed.
Lemma durb_get s qn qu : get_queue s qn = Some qu -> durb s qn = q_durable qu.
Proof. unfold durb. intros ->. reflexivity. Qed.

(* acknowledge / reject without requeue one delivery *)
Lemma K_ack_one s c h e :
  KI s -> QI s -> NoDup (map u_tag (U s c h)) -> In e (U s c h) ->
  KI (chan_ackmsg (upd_chan s c h (fun ch => del_unacked ch (u_tag e))) e).
Proof.
  intros K Hqi Hnd Hin. pose proof (ki_hi _ K) as H.
  set (s1 := upd_chan s c h (fun ch => del_unacked ch (u_tag e))). set (s' := chan_ackmsg s1 e).
  assert (H' : HI s') by (eapply HI_HB; [exact H|apply HB_ack_one]).
  assert (X1 : XS s s1) by apply XS_upd_chan. destruct X1 as (X11 & X12 & X13).
  assert (Q1 : queues s1 = queues s) by apply queues_upd_chan.
  assert (St1 : st_add s1 = st_add s /\ st_db s1 = st_db s).
  { subst s1. unfold upd_chan. destruct (get_chan s c h) as [ch|]; [|auto]. destruct (next_set_chan s c h (del_unacked ch (u_tag e))) as (_ & _ & A & B & _). auto. }
  assert (V : st_add s' = st_add s /\ st_db s' = st_db s /\ (forall x, persb s' x = persb s x) /\ (forall q, durb s' q = durb s q) /\ incl (st_del s) (st_del s')).
  { subst s'. unfold chan_ackmsg. destruct (origin_queue s1 e) as [qo|].
    - destruct (queue_ackmsg_view s1 (u_queue e) (u_msg e)) as (A & B & C & D & E). destruct St1 as [S1 S2].
      split; [congruence|]. split; [congruence|]. split; [intros x; rewrite C; apply X12|]. split; [intros q; rewrite D; apply X13|].
      rewrite <- X11. destruct E as [E|E]; rewrite E; [apply incl_refl|apply incl_appl; apply incl_refl].
    - destruct St1 as [S1 S2]. cbn [st_add st_db st_del set]. split; [exact S1|]. split; [exact S2|].
      split; [intros y; exact (X12 y)|]. split; [intros y; exact (X13 y)|]. rewrite X11. apply incl_refl. }
  destruct V as (V1 & V2 & V3 & V4 & V5).
  assert (Nm : nmv s' = nmv s).
  { assert (E : FR s1 s') by apply FR_chan_ackmsg. destruct E as (_ & E & _). rewrite E. apply nmv_same_queues. exact Q1. }
  assert (Cn : conns s' = conns s1).
  { subst s'. unfold chan_ackmsg. destruct (origin_queue s1 e); [apply (proj1 (proj2 conns_queue_ops))|reflexivity]. }
  apply (K_keep s s' K H'); auto.
  - intros k. apply eff_mono; [rewrite V1|rewrite V2|exact V5]; auto.
  - intros u qn qid Hq Hh Hef. rewrite Nm. split; [exact Hq|].
    assert (Hcnt : forall x, (cnt x (held s' qid) + (if N.eqb (u_qid e) qid then cnt x [u_msg e] else 0) = cnt x (held s qid))%nat).
    { intros x. rewrite (held_FR s1 s' qid (FR_chan_ackmsg s1 e)). apply held_del_exact; auto. }
    apply In_cnt. apply In_cnt in Hh. specialize (Hcnt u).
    destruct (u_qid e =? qid) eqn:Eq; [|lia]. rewrite cnt_one in Hcnt. destruct (N.eq_dec (u_msg e) u) as [Eu|]; [|lia].
    (* the key of the delivery being settled: its delete is recorded *)
    exfalso. apply N.eqb_eq in Eq. subst u qid.
    assert (Hef0 : eff s (u_msg e, qn)) by (revert Hef; apply eff_mono; [rewrite V1|rewrite V2|exact V5]; auto).
    destruct (ki_cs _ K _ _ Hef0) as (qid0 & A & B & C & _).
    pose proof (nmv_name_unique s qn qid0 (u_qid e) (hi_names _ H) A Hq) as ->.
    pose proof (ki_nm _ K _ _ (In_uqp s e (In_U_all s c h e Hin)) qn Hq) as ->.
    destruct (nmv_get_queue s (u_queue e) (u_qid e) (hi_names _ H) Hq) as (qu & Gq & Gi).
    destruct (persb_true _ _ C) as (m & Gm & Pm). rewrite (durb_get _ _ _ Gq) in B.
    assert (Ho : origin_queue s1 e = Some qu).
    { unfold origin_queue. rewrite (get_queue_same_queues _ _ _ Q1), Gq, Gi, N.eqb_refl. reflexivity. }
    assert (Hd : In (u_msg e, u_queue e) (st_del s')).
    { subst s'. unfold chan_ackmsg. rewrite Ho. rewrite (st_del_queue_ackmsg s1 (u_queue e) (u_msg e) qu m).
      - apply in_or_app. right. left. reflexivity.
      - rewrite (get_queue_same_queues _ _ _ Q1). exact Gq.
      - assert (E : persb s1 (u_msg e) = true) by (rewrite X12; exact C). unfold persb in E. unfold persb in C. rewrite Gm in C.
        destruct (get_msg s1 (u_msg e)) as [m1|] eqn:G1; [|discriminate].
        assert (Hh1 : heap s1 = heap s) by (subst s1; unfold upd_chan; destruct (get_chan s c h); [apply heap_set_chan|reflexivity]).
        rewrite (get_msg_same_heap _ _ _ Hh1) in G1. congruence.
      - apply (allq_get _ _ _ _ Hqi Gq).
      - rewrite B, Pm. reflexivity. }
    exact (not_eff_del s' _ H' Hd Hef).
  - apply uqp_incl. rewrite (all_unacked_same_conns _ _ Cn). apply all_unacked_del_incl.
  - rewrite Nm. auto.
Qed.

(* Queue.Requeue, exactly (the queue is active) *)
Lemma requeue_exact s qn u qu : get_queue s qn = Some qu -> q_active qu = true -> forall qid x,
  (cnt x (held (queue_requeue s qn u) qid) = cnt x (held s qid) + (if N.eqb (q_id qu) qid then cnt x [u] else 0))%nat.
Proof.
  intros Hg Ha qid x. unfold queue_requeue. rewrite Hg, Ha. cbn [negb]. cbv zeta.
  set (s4 := (upd_msg (store_writeback s qn u (q_durable qu)) u (fun m => m <| m_dc ::= N.succ |>)) <| srv_ready ::= Z.succ |> <| srv_unacked ::= Z.pred |>).
  destruct (store_writeback_frame s qn u (q_durable qu)) as (Fc & Fq & _).
  assert (Ec : conns s4 = conns s) by (subst s4; cbn [conns set]; rewrite conns_upd_msg; exact Fc).
  assert (Eq : queues s4 = queues s) by (subst s4; cbn [queues set]; rewrite queues_upd_msg; exact Fq).
  assert (Hg4 : get_queue s4 qn = Some qu) by (rewrite (get_queue_same_queues _ _ _ Eq); exact Hg).
  set (qu' := call_consumers _).
  assert (Hk : qk qu' = (q_id qu, u :: q_ready qu)) by (subst qu'; rewrite q_call_consumers; reflexivity).
  assert (Eid : q_id qu' = q_id qu) by (apply (f_equal fst) in Hk; exact Hk).
  assert (Erd : q_ready qu' = u :: q_ready qu) by (apply (f_equal snd) in Hk; exact Hk).
  pose proof (cnt_held_set_queue s4 qn qu qu' Hg4 Eid qid x) as Hc. rewrite (held_same s s4 qid Ec Eq) in Hc.
  rewrite Erd in Hc. rewrite cnt_cons in Hc. rewrite cnt_one. destruct (q_id qu =? qid); lia.
Qed.
Lemma store_writeback_db' s qn u d k :
  In k (st_db (store_writeback s qn u d)) -> In k (st_db s) \/ (k = (u, qn) /\ d = true /\ persb s u = true).
Proof.
  unfold store_writeback, persb. destruct d; cbn [andb]; [|auto]. destruct (match get_msg s u with Some m => m_pers m | None => false end); cbn [andb]; [|auto].
  destruct (negb _ && negb _); [|auto]. cbn [st_db set]. intros H. apply in_app_or in H. destruct H as [H|[H|[]]]; auto.
Qed.
Lemma queue_requeue_db' s qn u qu k : get_queue s qn = Some qu ->
  In k (st_db (queue_requeue s qn u)) -> In k (st_db s) \/ (k = (u, qn) /\ q_durable qu = true /\ persb s u = true).
Proof.
  intros Hg. unfold queue_requeue. rewrite Hg. destruct (negb (q_active qu)); [auto|]. cbv zeta. cbn [st_db set set_queue].
  unfold upd_msg. destruct (get_msg _ u); cbn [st_db set]; apply store_writeback_db'.
Qed.

(* return one delivery to its queue (reject / nack with requeue, channel and connection end) *)
Lemma K_requeue_one s c h e :
  KI s -> QI s -> NoDup (map u_tag (U s c h)) -> In e (U s c h) ->
  KI (chan_rejectmsg (upd_chan s c h (fun ch => del_unacked ch (u_tag e))) e true).
Proof.
  intros K Hqi Hnd Hin. pose proof (ki_hi _ K) as H.
  set (s1 := upd_chan s c h (fun ch => del_unacked ch (u_tag e))). set (s' := chan_rejectmsg s1 e true).
  assert (H' : HI s') by (eapply HI_HB; [exact H|apply HB_reject_one_requeue; exact Hin]).
  assert (X1 : XS s s1) by apply XS_upd_chan. destruct X1 as (X11 & X12 & X13).
  assert (Q1 : queues s1 = queues s) by apply queues_upd_chan.
  assert (St1 : st_add s1 = st_add s /\ st_db s1 = st_db s).
  { subst s1. unfold upd_chan. destruct (get_chan s c h) as [ch|]; [|auto]. destruct (next_set_chan s c h (del_unacked ch (u_tag e))) as (_ & _ & A & B & _). auto. }
  destruct St1 as [S1 S2].
  assert (Hex : forall qid x, (cnt x (held s1 qid) + (if N.eqb (u_qid e) qid then cnt x [u_msg e] else 0) = cnt x (held s qid))%nat)
    by (apply held_del_exact; auto).
  assert (Hpair : forall qn, In (qn, u_qid e) (nmv s) -> qn = u_queue e)
    by (intros qn Hq; apply (ki_nm _ K _ _ (In_uqp s e (In_U_all s c h e Hin)) qn Hq)).
  assert (Hu1 : incl (uqp s1) (uqp s)) by (apply uqp_incl; apply all_unacked_del_incl).
  unfold chan_rejectmsg in s'. destruct (origin_queue s1 e) as [qu|] eqn:Ho.
  - (* the queue object is there: the message goes back to its head *)
    apply origin_queue_some in Ho. destruct Ho as [Gq Gi].
    assert (Gq0 : get_queue s (u_queue e) = Some qu) by (rewrite <- (get_queue_same_queues _ _ _ Q1); exact Gq).
    assert (Ha : q_active qu = true) by (apply (allq_get qinv s (u_queue e) qu Hqi Gq0)).
    destruct (queue_requeue_view s1 (u_queue e) (u_msg e)) as (V1 & V2 & V3 & V4 & V5).
    destruct (requeue_effect s1 (u_queue e) (u_msg e) qu Gq) as (_ & R2 & _ & _ & _ & _ & _ & _ & R9 & _ & _).
    assert (Hcnt : forall qid x, cnt x (held s' qid) = cnt x (held s qid)).
    { intros qid x. subst s'. rewrite (requeue_exact s1 (u_queue e) (u_msg e) qu Gq Ha qid x). specialize (Hex qid x). rewrite Gi. lia. }
    assert (Nm : nmv s' = nmv s) by (subst s'; rewrite R9; apply nmv_same_queues; exact Q1).
    constructor; [exact H'| |].
    + intros u qn Hef.
      assert (Hold : eff s (u, qn) -> exists qid, In (qn, qid) (nmv s') /\ durb s' qn = true /\ persb s' u = true /\ In u (held s' qid)).
      { intros He0. destruct (ki_cs _ K _ _ He0) as (qid & A & B & C & D). exists qid. rewrite Nm. subst s'. rewrite V5, V4, X13, X12.
        repeat split; auto. apply In_cnt. rewrite Hcnt. apply In_cnt. exact D. }
      unfold eff in Hef. subst s'. rewrite V1, V3, S1, X11 in Hef.
      destruct Hef as [[Hd Hc]|Hc]; [|apply Hold; right; exact Hc].
      apply (queue_requeue_db' s1 (u_queue e) (u_msg e) qu (u, qn) Gq) in Hd. rewrite S2 in Hd.
      destruct Hd as [Hd|(Ek & Edur & Epers)]; [apply Hold; left; auto|].
      inversion Ek; subst u qn. exists (q_id qu). rewrite Nm. split; [rewrite <- (nmv_same_queues _ _ Q1); apply get_queue_nmv; exact Gq|].
      split; [rewrite V5; rewrite (durb_get _ _ _ Gq); exact Edur|]. split; [rewrite V4; exact Epers|].
      apply In_cnt. rewrite (requeue_exact s1 (u_queue e) (u_msg e) qu Gq Ha). rewrite N.eqb_refl, cnt_one. destruct (N.eq_dec (u_msg e) (u_msg e)); [lia|congruence].
    + intros qn qid Hp qn' Hq. rewrite Nm in Hq. apply (ki_nm _ K qn qid); [|exact Hq]. apply Hu1.
      subst s'. unfold uqp in *. rewrite (all_unacked_same_conns _ _ R2) in Hp. exact Hp.
  - (* the queue object is gone: the delivery is dropped *)
    assert (Fs : FR s1 s' /\ XS s1 s') by (subst s'; split; [apply FR_same; reflexivity|apply XS_same; reflexivity]).
    destruct Fs as [Fs Xs]. destruct Xs as (Y1 & Y2 & Y3). destruct (nexts_FR _ _ Fs) as (_ & _ & _ & D1 & D2).
    assert (Nm : nmv s' = nmv s) by (destruct Fs as (_ & E & _); rewrite E; apply nmv_same_queues; exact Q1).
    apply (K_keep s s' K H').
    + intros k. apply eff_same; congruence.
    + intros u. rewrite Y2. apply X12.
    + intros q qid0 _. rewrite Y3. apply X13.
    + intros u qn qid Hq Hh _. rewrite Nm. split; [exact Hq|]. rewrite (held_FR s1 s' qid Fs).
      apply In_cnt. apply In_cnt in Hh. specialize (Hex qid u).
      destruct (u_qid e =? qid) eqn:Eq; [|lia]. rewrite cnt_one in Hex. destruct (N.eq_dec (u_msg e) u) as [Eu|]; [|lia].
      exfalso. apply N.eqb_eq in Eq. subst qid. pose proof (Hpair qn Hq) as ->.
      destruct (nmv_get_queue s (u_queue e) (u_qid e) (hi_names _ H) Hq) as (qu & Gq & Gi).
      unfold origin_queue in Ho. rewrite (get_queue_same_queues _ _ _ Q1), Gq, Gi, N.eqb_refl in Ho. discriminate.
    + rewrite (uqp_FR _ _ Fs). exact Hu1.
    + rewrite Nm. auto.
Qed.

(* ================================================================== *)
(* 3. ack / nack / reject, channel close *)
Lemma QI_upd_chan s c h f : QI s -> QI (upd_chan s c h f).
Proof. intros H. eapply allq_same_queues; [apply queues_upd_chan|exact H]. Qed.

Lemma K_fold_settle (f : state -> unacked -> state) c h :
  (forall s e, KI s -> QI s -> NoDup (map u_tag (U s c h)) -> In e (U s c h) -> KI (f s e)) ->
  (forall s e, QI s -> QI (f s e)) ->
  (forall s e, U (f s e) c h = filter (fun u => negb (u_tag u =? u_tag e)) (U s c h)) ->
  forall sel s, KI s -> QI s -> NoDup (map u_tag (U s c h)) -> NoDup (map u_tag sel) -> (forall e, In e sel -> In e (U s c h)) ->
  KI (fold_left f sel s) /\ QI (fold_left f sel s).
Proof.
  intros Hf Hq HU. induction sel as [|a t IH]; intros s K Q Hn Hnd Hin; cbn [fold_left]; [auto|].
  cbn [map] in Hnd. inversion Hnd as [|? ? Hni Hnd']; subst.
  apply IH; auto.
  - apply Hf; auto. apply Hin. left. reflexivity.
  - rewrite HU. apply NoDup_map_filter. exact Hn.
  - intros e He. rewrite HU. apply filter_In. split; [apply Hin; right; exact He|].
    apply Bool.negb_true_iff. apply N.eqb_neq. intros E. apply Hni. rewrite <- E. apply in_map. exact He.
Qed.

Lemma K_fold_dec cfg c h sel : forall s, KI s -> QI s ->
  KI (fold_left (fun s u => dec_qos_and_consume_next cfg s c h u) sel s) /\ QI (fold_left (fun s u => dec_qos_and_consume_next cfg s c h u) sel s).
Proof.
  induction sel as [|a t IH]; intros s K Q; cbn [fold_left]; [auto|].
  apply IH; [eapply K_FX; [exact K|apply FR_dec_qos|apply XS_dec_qos]|apply QI_dec_qos; exact Q].
Qed.

Lemma K_handle_ack cfg s c h tag mult : CI s -> KI s -> QI s -> KI (fst (handle_ack cfg s c h tag mult)).
Proof.
  intros Hci K Q. unfold handle_ack. destruct (get_chan s c h) as [ch|] eqn:Ech; [|exact K].
  pose proof (Hci _ _ _ Ech) as [Hnd _]. assert (EU : U s c h = ch_unacked ch) by (unfold U; rewrite Ech; reflexivity). destruct mult.
  - cbn [fst].
    destruct (K_fold_settle (fun s u => chan_ackmsg (upd_chan s c h (fun ch => del_unacked ch (u_tag u))) u) c h) with
      (sel := filter (fun u => (tag =? 0) || (u_tag u <=? tag)) (ch_unacked ch)) (s := s) as [K1 Q1]; auto.
    + intros s0 e. apply K_ack_one.
    + intros s0 e Q0. apply QI_chan_ackmsg. apply QI_upd_chan. exact Q0.
    + intros s0 e. rewrite U_chan_ackmsg. apply del_unacked_U.
    + rewrite EU. exact Hnd.
    + apply NoDup_map_filter. exact Hnd.
    + intros e He. apply filter_In in He. rewrite EU. tauto.
    + apply K_fold_dec; auto.
  - destruct (find _ _) as [u|] eqn:Ef; cbn [fst]; [|exact K].
    apply find_some in Ef. destruct Ef as [Hin Et]. apply N.eqb_eq in Et. subst tag.
    eapply K_FX; [|apply FR_dec_qos|apply XS_dec_qos]. apply K_ack_one; auto; rewrite EU; auto.
Qed.

Lemma K_handle_reject cfg s c h tag mult requeue cls mth :
  CI s -> KI s -> QI s -> KI (fst (handle_reject cfg s c h tag mult requeue cls mth)).
Proof.
  intros Hci K Q. unfold handle_reject. destruct (get_chan s c h) as [ch|] eqn:Ech; [|exact K].
  pose proof (Hci _ _ _ Ech) as [Hnd _]. assert (EU : U s c h = ch_unacked ch) by (unfold U; rewrite Ech; reflexivity). destruct mult.
  - cbn [fst].
    destruct (K_fold_settle (fun s u => chan_rejectmsg (upd_chan s c h (fun ch => del_unacked ch (u_tag u))) u requeue) c h) with
      (sel := filter (fun u => (tag =? 0) || (u_tag u <=? tag)) (sort_desc (ch_unacked ch))) (s := s) as [K1 Q1]; auto.
    + intros s0 e. destruct requeue; [apply K_requeue_one|rewrite chan_reject_drop_eq; apply K_ack_one].
    + intros s0 e Q0. apply QI_chan_rejectmsg. apply QI_upd_chan. exact Q0.
    + intros s0 e. rewrite U_chan_rejectmsg. apply del_unacked_U.
    + rewrite EU. exact Hnd.
    + apply NoDup_map_filter. apply BrokerLedger.NoDup_sort_desc. exact Hnd.
    + intros e He. apply filter_In in He. rewrite EU. apply sort_desc_perm. tauto.
    + apply K_fold_dec; auto.
  - destruct (find _ _) as [u|] eqn:Ef; cbn [fst]; [|exact K].
    apply find_some in Ef. destruct Ef as [Hin Et]. apply N.eqb_eq in Et. subst tag.
    eapply K_FX; [|apply FR_dec_qos|apply XS_dec_qos].
    destruct requeue; [apply K_requeue_one|rewrite chan_reject_drop_eq; apply K_ack_one]; auto; rewrite EU; auto.
Qed.

(* a channel record rewritten without touching its deliveries; the message being assembled may be dropped (it has no key) *)
Lemma K_upd_chan_cur s c h f :
  (forall ch, ch_unacked (f ch) = ch_unacked ch) -> (forall ch, le_ms (cur_l (f ch)) (cur_l ch)) -> KI s -> KI (upd_chan s c h f).
Proof.
  intros Hu Hc K. unfold upd_chan. destruct (get_chan s c h) as [ch|] eqn:Hg; [|exact K].
  destruct (next_set_chan s c h (f ch)) as (N1 & N2 & A1 & A2 & Q).
  destruct (XS_set_chan s c h (f ch)) as (X1 & X2 & X3).
  assert (Hheld : forall qid, held (set_chan s c h (f ch)) qid = held s qid).
  { intros qid. unfold held. f_equal.
    - unfold ready_of. rewrite Q. reflexivity.
    - rewrite !unacked_of_all_ch. apply (all_ch_set_chan_keep _ s c h ch (f ch) Hg). unfold uq. rewrite Hu. reflexivity. }
  assert (Hnm : nmv (set_chan s c h (f ch)) = nmv s) by (apply nmv_same_queues; exact Q).
  apply (K_keep s _ K); auto.
  - eapply HI_HB; [apply K|]. apply (HB_set_chan s c h ch); auto. intros qid. unfold uq. rewrite Hu. apply le_ms_refl.
  - intros k. apply eff_same; auto.
  - intros u qn qid Hin Hh _. rewrite Hheld, Hnm. auto.
  - unfold uqp. rewrite !all_unacked_all_ch, (all_ch_set_chan_keep _ s c h ch (f ch) Hg) by apply Hu. apply incl_refl.
  - rewrite Hnm. auto.
Qed.

Lemma K_channel_close cfg s c h : CI s -> KI s -> QI s -> KI (channel_close cfg s c h).
Proof.
  intros Hci K Q. unfold channel_close. destruct (get_chan s c h) as [ch|] eqn:Ech; [|exact K].
  apply K_upd_chan_cur; [reflexivity|intros; apply le_ms_nil|].
  set (s2 := upd_chan (fold_left (fun s cm => consumer_stop s c h (c_tag cm)) (ch_consumers ch) s) c h (fun ch => ch <| ch_consumers := [] |>)).
  assert (F2 : FR s s2).
  { subst s2. eapply FR_trans; [|apply FR_upd_chan; reflexivity]. apply FR_fold. intros; apply FR_consumer_stop. }
  assert (X2 : XS s s2).
  { subst s2. eapply XS_trans; [|apply XS_upd_chan]. apply XS_fold. intros; apply XS_consumer_stop. }
  assert (C2 : CI s2).
  { subst s2. apply allch_upd_chan; [intros ch0 Hc0; eapply chinvp_set; [..|exact Hc0]; reflexivity|].
    apply fold_left_preserves; auto. intros; apply CI_consumer_stop; auto. }
  assert (Q2 : QI s2).
  { subst s2. apply QI_upd_chan. apply fold_left_preserves; auto. intros; apply QI_consumer_stop; auto. }
  assert (K2 : KI s2) by (eapply K_FX; eauto).
  clearbody s2. destruct (0 <? h); [|exact K2]. apply K_handle_reject; auto.
Qed.

(* ================================================================== *)
(* 4. queue deletion, connection end *)
Lemma eff_store_purge s qn k : eff (store_purge s qn) k -> eff s k /\ snd k <> qn.
Proof.
  unfold eff, store_purge. cbn [st_db st_add st_del set]. intros [[Hd Hc]|[Ha Hn]].
  - apply filter_In in Hd. destruct Hd as [Hd Hne]. split.
    + left. split; [exact Hd|]. destruct Hc as [Hc|Hc]; [left; intros Hx; apply Hc; apply in_or_app; auto|right; exact Hc].
    + intros E. rewrite E, (proj2 (seqb_spec qn qn) eq_refl) in Hne. discriminate.
  - split.
    + right. split; [exact Ha|]. intros Hx. apply Hn. apply in_or_app. auto.
    + intros E. apply Hn. apply in_or_app. right. apply filter_In. split; [exact Ha|]. rewrite E. apply seqb_spec. reflexivity.
Qed.

Lemma ready_of_adel s qn qid :
  (forall qu, In (qn, qu) (queues s) -> q_id qu <> qid) -> ready_of (s <| queues := adel seqb qn (queues s) |>) qid = ready_of s qid.
Proof.
  unfold ready_of. cbn [queues set]. induction (queues s) as [|[k v] t IH]; intros Hne; cbn [adel flat_map]; [reflexivity|].
  destruct (seqb qn k) eqn:E.
  - apply seqb_spec in E. subst k. cbn [snd]. destruct (q_id v =? qid) eqn:Ei.
    + apply N.eqb_eq in Ei. exfalso. apply (Hne v); [left; reflexivity|exact Ei].
    + cbn [app]. apply IH. intros qu Hin. apply Hne. right. exact Hin.
  - cbn [flat_map]. f_equal. apply IH. intros qu Hin. apply Hne. right. exact Hin.
Qed.

Lemma nmv_adel_in s qn p : In p (nmv s) -> fst p <> qn -> In p (nmv (s <| queues := adel seqb qn (queues s) |>)).
Proof.
  unfold nmv. cbn [queues set]. rewrite adel_filter. intros Hp Hne. apply in_map_iff in Hp. destruct Hp as (kq & <- & Hk).
  apply (in_map (fun kq : string * queue => (fst kq, q_id (snd kq)))). apply filter_In. split; [exact Hk|].
  cbn [fst] in Hne. apply Bool.negb_true_iff. destruct (seqb qn (fst kq)) eqn:E; [|reflexivity]. apply seqb_spec in E. congruence.
Qed.

Lemma K_vhost_delete_queue s qn iu ie : KI s -> KI (fst (fst (vhost_delete_queue false s qn iu ie))).
Proof.
  intros K. assert (H5 : HI (fst (fst (vhost_delete_queue false s qn iu ie)))) by (eapply HI_HB; [apply K|apply HB_vhost_delete_queue]).
  unfold vhost_delete_queue in *. destruct (get_queue s qn) as [qu|] eqn:Eq; [|exact K].
  destruct (_ || _); [exact K|].
  pose proof (FR_cancel_fold (q_consumers qu) s []) as Hf. pose proof (XS_cancel_fold (q_consumers qu) s []) as Hx.
  destruct (fold_left _ (q_consumers qu) (s, [])) as [s1 e1]. cbn [fst] in *.
  assert (K1 : KI s1) by (eapply K_FX; eauto). pose proof (ki_hi _ K1) as H1.
  assert (Ed : durb s1 qn = q_durable qu) by (destruct Hx as (_ & _ & Xd); rewrite Xd; apply durb_get; exact Eq).
  assert (Hn1 : In (qn, q_id qu) (nmv s1)) by (destruct Hf as (_ & En & _); rewrite En; apply get_queue_nmv; exact Eq).
  set (s2 := if q_durable qu then store_purge s1 qn else s1) in *.
  assert (E2 : conns s2 = conns s1 /\ queues s2 = queues s1 /\ heap s2 = heap s1) by (subst s2; destruct (q_durable qu); repeat split; reflexivity).
  destruct E2 as (C2 & Q2 & P2).
  match goal with |- KI ?S => set (s5 := S) in * end.
  assert (Heff : forall k, eff s5 k -> eff s1 k /\ (snd k = qn -> q_durable qu = false)).
  { intros k Hk. change (eff s2 k) in Hk. subst s2. destruct (q_durable qu).
    - apply eff_store_purge in Hk. destruct Hk as [A B]. split; [exact A|]. intros E. contradiction.
    - split; [exact Hk|reflexivity]. }
  assert (Hnm : forall p, In p (nmv s5) -> In p (nmv s1) /\ fst p <> qn).
  { intros p Hp. subst s5. apply nmv_adel in Hp. destruct Hp as [A B]. split; [|exact B]. change (In p (nmv s2)) in A. rewrite (nmv_same_queues s1 s2 Q2) in A. exact A. }
  apply (K_keep s1 s5 K1 H5).
  - intros k Hk. apply Heff. exact Hk.
  - intros u. unfold persb. apply (f_equal (fun o => match o with Some m => m_pers m | None => false end)). apply get_msg_same_heap. exact P2.
  - intros q qid Hp. destruct (Hnm _ Hp) as [_ Hne]. cbn [fst] in Hne. subst s5. rewrite durb_adel by exact Hne.
    unfold durb. apply (f_equal (fun o => match o with Some qu0 => q_durable qu0 | None => false end)). apply get_queue_same_queues. exact Q2.
  - intros u q qid Hq Hh Hef. destruct (Heff _ Hef) as [He1 Hdur]. cbn [snd] in Hdur.
    assert (Hne : q <> qn).
    { intros ->. destruct (ki_cs _ K1 _ _ He1) as (qid0 & _ & B & _). rewrite Ed, (Hdur eq_refl) in B. discriminate. }
    split.
    + subst s5. apply nmv_adel_in; [change (In (q, qid) (nmv s2)); rewrite (nmv_same_queues s1 s2 Q2); exact Hq|exact Hne].
    + unfold held in *. subst s5. rewrite ready_of_adel.
      * rewrite (unacked_of_same_conns s1) by exact C2. rewrite (ready_of_same_queues s1) by exact Q2. exact Hh.
      * intros qu0 Hin Ei. cbn [queues set] in Hin. rewrite Q2 in Hin. apply Hne.
        apply (nmv_id_unique s1 qid q qn (hi_qids_nodup _ H1) Hq). rewrite <- Ei.
        apply (in_map (fun kq : string * queue => (fst kq, q_id (snd kq))) _ _ Hin).
  - unfold uqp. rewrite (all_unacked_same_conns s1) by exact C2. apply incl_refl.
  - intros p Hp. apply Hnm. exact Hp.
Qed.

Lemma K_delete_fold l : forall s evs, CI s -> KI s -> QI s ->
  let s' := fst (fold_left (fun acc qn => let '(s, evs) := acc in
                                          let '(s', e, _) := vhost_delete_queue false s qn false false in (s', evs ++ e)) l (s, evs)) in
  CI s' /\ KI s' /\ QI s'.
Proof.
  induction l as [|x t IH]; intros s evs C K Q; cbn [fold_left]; [auto|].
  pose proof (K_vhost_delete_queue s x false false K) as Kd. pose proof (CI_vhost_delete_queue false s x false false C) as Cd.
  pose proof (QI_vhost_delete_queue s x false false Q) as Qd.
  destruct (vhost_delete_queue false s x false false) as [[s1 e1] r1]. cbn [fst] in *. apply IH; auto.
Qed.

Lemma nmv_alive s qn qid : In (qn, qid) (nmv s) -> queue_alive s qid = true.
Proof.
  unfold nmv, queue_alive. intros Hin. apply in_map_iff in Hin. destruct Hin as (kq & E & Hk). inversion E; subst.
  apply existsb_exists. exists kq. split; [exact Hk|apply N.eqb_refl].
Qed.
Lemma all_unacked_del_conn_incl s c : incl (all_unacked (s <| conns := adel N.eqb c (conns s) |>)) (all_unacked s).
Proof.
  unfold all_unacked. cbn [conns set]. rewrite adel_filter. intros x Hx. apply in_flat_map in Hx. destruct Hx as (kc & Hk & Hx).
  apply filter_In in Hk. apply in_flat_map. exists kc. tauto.
Qed.

Lemma K_conn_close cfg fx s c :
  fx_delete_checks_first fx = true -> BrokerConserve.Inv s -> KI s -> QI s -> KI (fst (conn_close cfg fx s c)).
Proof.
  intros F I K Q. pose proof (proj2 I) as Hci. pose proof (ki_hi _ K) as H.
  pose proof (HI_conn_close cfg fx s c Hci H) as H'.
  pose proof (BrokerConserve.Good_conn_close cfg fx s c F I) as [_ Gp].
  pose proof (fun qid => BrokerConserve.conn_released_nil_alive cfg fx s c qid F I) as Hnil.
  remember (fst (conn_close cfg fx s c)) as sf eqn:Esf.
  unfold conn_close in Esf. destruct (get_conn s c) as [cn|]; [|subst sf; exact K].
  rewrite F in Esf. cbn [negb] in Esf.
  set (s1 := fold_left (fun s h => channel_close cfg s c h) (sort_desc_N (map fst (cn_chans cn))) s) in *.
  assert (A1 : CI s1 /\ KI s1 /\ QI s1 /\ HB s s1).
  { subst s1. apply (fold_left_preserves (fun st => CI st /\ KI st /\ QI st /\ HB s st)); [|split; [exact Hci|split; [exact K|split; [exact Q|apply HB_refl]]]].
    intros st hh (A & B & C & D). split; [apply CI_channel_close; auto|]. split; [apply K_channel_close; auto|].
    split; [apply QI_channel_close; auto|]. eapply HB_trans; [exact D|apply HB_channel_close; exact A]. }
  destruct A1 as (C1 & K1 & Q1 & B1). clearbody s1.
  set (owned := map fst (filter (fun kv => q_excl (snd kv) && (q_owner (snd kv) =? c)) (queues s1))) in *.
  pose proof (K_delete_fold owned s1 [] C1 K1 Q1) as A2. pose proof (HBCI_delete_fold false owned s1 [] C1) as B2.
  destruct (fold_left _ owned (s1, [])) as [s2 e2]. cbn [fst] in *. destruct A2 as (C2 & K2 & Q2).
  assert (B02 : HB s s2) by (eapply HB_trans; eauto).
  subst sf.
  apply (K_keep s2 _ K2 H').
  - intros k Hk. exact Hk.
  - intros u. reflexivity.
  - intros q qid _. reflexivity.
  - intros u q qid Hq Hh _. split; [exact Hq|].
    assert (Ha : queue_alive (s2 <| conns := adel N.eqb c (conns s2) |>) qid = true) by (apply (nmv_alive _ q); exact Hq).
    specialize (Gp qid). rewrite (Hnil qid Ha) in Gp. unfold BrokerConserve.nil1 in Gp. rewrite !app_nil_r in Gp.
    apply (Permutation_in _ (Permutation_sym Gp)). destruct B02 as (B0 & _). eapply le_ms_In; [apply (hb_held _ _ B0)|exact Hh].
  - apply uqp_incl. apply all_unacked_del_conn_incl.
  - auto.
Qed.

(* ================================================================== *)
(* 5. purge, persist tick, deliveries *)
Lemma K_purge cfg fx s c h q nowait : CI s -> KI s -> KI (fst (fst (handle_method cfg fx s c h (MQPurge q nowait)))).
Proof.
  intros Hci K. pose proof (ki_hi _ K) as H.
  assert (H5 : HI (fst (fst (handle_method cfg fx s c h (MQPurge q nowait))))) by (apply HI_handle_method; auto).
  unfold handle_method in *. destruct (get_chan s c h) as [ch|]; [|exact K]. unfold ok, refuse in *.
  destruct (queue_found s q) as [qu|] eqn:Eqf; [|exact K]. apply queue_found_get' in Eqf. destruct (locked qu c); [exact K|]. cbn [fst] in *.
  set (s2 := if q_durable qu then store_purge s q else s) in *.
  assert (E2 : conns s2 = conns s /\ queues s2 = queues s /\ heap s2 = heap s) by (subst s2; destruct (q_durable qu); repeat split; reflexivity).
  destruct E2 as (C2 & Q2 & P2).
  match goal with |- KI ?S => set (s5 := S) in * end.
  assert (Heff : forall k, eff s5 k -> eff s k /\ (snd k = q -> q_durable qu = false)).
  { intros k Hk. change (eff s2 k) in Hk. subst s2. destruct (q_durable qu).
    - apply eff_store_purge in Hk. destruct Hk as [A B]. split; [exact A|]. intros E. contradiction.
    - split; [exact Hk|reflexivity]. }
  set (sm := s2 <| srv_total ::= fun z => (z - q_len qu)%Z |> <| srv_ready ::= fun z => (z - q_len qu)%Z |>) in *.
  assert (Gm : get_queue sm q = Some qu) by (unfold get_queue; cbn [queues set sm]; rewrite Q2; exact Eqf).
  assert (Nm : nmv s5 = nmv s).
  { subst s5. etransitivity; [apply (nmv_set_queue_keep sm q qu); [exact Gm|reflexivity]|]. apply nmv_same_queues. exact Q2. }
  apply (K_keep s s5 K H5).
  - intros k Hk. apply Heff. exact Hk.
  - intros u. unfold persb. apply (f_equal (fun o => match o with Some m => m_pers m | None => false end)). apply get_msg_same_heap. exact P2.
  - intros q0 qid _. assert (X : XS sm s5) by (subst s5; eapply XS_set_queue; [exact Gm|reflexivity]). destruct X as (_ & _ & X3). rewrite X3.
    unfold durb. apply (f_equal (fun o => match o with Some qu0 => q_durable qu0 | None => false end)). apply get_queue_same_queues. exact Q2.
  - intros u q0 qid Hq Hh Hef. rewrite Nm. split; [exact Hq|]. destruct (Heff _ Hef) as [He1 Hdur]. cbn [snd] in Hdur.
    assert (Hne : q0 <> q).
    { intros ->. destruct (ki_cs _ K _ _ He1) as (qid0 & _ & B & _). rewrite (durb_get _ _ _ Eqf), (Hdur eq_refl) in B. discriminate. }
    assert (Hid : q_id qu <> qid).
    { intros E. apply Hne. apply (nmv_id_unique s qid q0 q (hi_qids_nodup _ H) Hq). rewrite <- E. apply get_queue_nmv. exact Eqf. }
    apply In_cnt. apply In_cnt in Hh. subst s5.
    match goal with |- (cnt u (held (set_queue sm q ?qu') qid) > 0)%nat => pose proof (cnt_held_set_queue sm q qu qu' Gm eq_refl qid u) as Hc end.
    rewrite (held_same s sm qid) in Hc by (cbn [conns queues set sm]; auto).
    destruct (q_id qu =? qid) eqn:E; [apply N.eqb_eq in E; contradiction|]. lia.
  - unfold uqp. rewrite (all_unacked_same_conns s s5) by (cbn [conns set]; exact C2). apply incl_refl.
  - rewrite Nm. auto.
Qed.

Lemma K_persist_tick cfg fx s : KI s -> KI (fst (step cfg fx s LPersistTick)).
Proof.
  intros K. destruct (D_persist_tick cfg fx s) as [B Dx]. pose proof (tick_nothing_pending cfg fx s) as [TA TD].
  assert (Fc : conns (fst (step cfg fx s LPersistTick)) = conns s /\ queues (fst (step cfg fx s LPersistTick)) = queues s).
  { cbn [step fst]. split.
    - apply (fold_left_preserves (fun st => conns st = conns s)); [|reflexivity]. intros st k E. rewrite conns_store_confirm. exact E.
    - apply (fold_left_preserves (fun st => queues st = queues s)); [|reflexivity]. intros st k E. rewrite queues_store_confirm. exact E. }
  destruct Fc as [Fc Fq].
  apply (K_keep s _ K).
  - eapply HI_HB; [apply K|exact B].
  - intros k Hk. apply (tick_db_eff cfg fx s k). unfold eff in Hk. rewrite TA, TD in Hk. destruct Hk as [[Hk _]|[[] _]]. exact Hk.
  - apply Dx.
  - intros q qid Hin. apply (dr_dur _ _ Dx q qid Hin).
  - intros u q qid Hq Hh _. rewrite (nmv_same_queues _ _ Fq), (held_same _ _ qid Fc Fq). auto.
  - unfold uqp. rewrite (all_unacked_same_conns _ _ Fc). apply incl_refl.
  - rewrite (nmv_same_queues _ _ Fq). auto.
Qed.

(* deliveries *)
Lemma turn_noack_del cfg fx s c h tag ch cm qu u rest m :
  get_chan s c h = Some ch -> find_consumer ch tag = Some cm -> get_queue s (c_queue cm) = Some qu -> q_active qu = true ->
  q_ready qu = u :: rest -> c_noack cm = true -> get_msg s u = Some m -> q_durable qu && m_pers m = true ->
  (forall qid, ready_of (fst (consumer_turn cfg fx s c h tag)) qid = ready_of s qid) \/
  In (u, c_queue cm) (st_del (fst (consumer_turn cfg fx s c h tag))).
Proof.
  intros Hch Hfc Hq Ha Er Hna Hm Hdp.
  destruct (c_token cm) eqn:Htok.
  2:{ left. intros qid. unfold consumer_turn. rewrite Hch, Hfc, Htok. reflexivity. }
  destruct (c_status cm) eqn:Hst.
  2:{ left. intros qid. unfold consumer_turn. rewrite Hch, Hfc, Htok, Hst. cbn [negb fst]. apply ready_of_same_queues. apply queues_set_chan. }
  all: right; eapply consumer_turn_noack_del; eauto; congruence.
Qed.
Lemma get_noack_del' cfg fx s c h q qu u rest m :
  fx_noack_total_once fx = true -> get_queue s q = Some qu -> q_active qu = true -> q_ready qu = u :: rest ->
  get_msg s u = Some m -> q_durable qu && m_pers m = true ->
  (forall qid, ready_of (fst (fst (handle_method cfg fx s c h (MGet q true)))) qid = ready_of s qid) \/
  In (u, q) (st_del (fst (fst (handle_method cfg fx s c h (MGet q true))))).
Proof.
  intros Hfx Hq Ha Er Hm Hdp.
  destruct (get_chan s c h) as [ch|] eqn:Hch.
  2:{ left. intros qid. unfold handle_method. rewrite Hch. reflexivity. }
  assert (Eqf : queue_found s q = Some qu) by (unfold queue_found; rewrite Hq, Ha; reflexivity).
  destruct (fx_excl_owner fx && locked qu c) eqn:Hl.
  { left. intros qid. unfold handle_method. rewrite Hch, Eqf, Hl. reflexivity. }
  right. eapply get_noack_del; eauto.
Qed.

Lemma K_delivered s s' c h qn qu u rest dtag noack :
  KI s -> get_queue s qn = Some qu -> q_ready qu = u :: rest ->
  delivered s s' c h (q_id qu) u dtag noack ->
  (forall x, persb s' x = persb s x) -> (forall q, durb s' q = durb s q) ->
  (noack = true -> forall m, get_msg s u = Some m -> q_durable qu && m_pers m = true -> In (u, qn) (st_del s')) ->
  CS s'.
Proof.
  intros K Hq Er Dl Vp Vd Hdel. pose proof (ki_hi _ K) as H.
  assert (H' : HI s') by (eapply HI_HB; [exact H|eapply HB_delivered; exact Dl]).
  pose proof (dv_nmv _ _ _ _ _ _ _ _ Dl) as Nm.
  intros x q Hef.
    assert (He0 : eff s (x, q)).
    { revert Hef. apply eff_mono; [rewrite (dv_add _ _ _ _ _ _ _ _ Dl)|rewrite (dv_db _ _ _ _ _ _ _ _ Dl)|apply (dv_del _ _ _ _ _ _ _ _ Dl)]; auto. }
    destruct (ki_cs _ K _ _ He0) as (qid & A & B & C & D). exists qid. rewrite Nm, Vd, Vp. repeat split; auto.
    apply In_cnt. apply In_cnt in D. unfold held in *. rewrite cnt_app in *.
    pose proof (dv_ready _ _ _ _ _ _ _ _ Dl qid x) as Hr. pose proof (dv_unacked _ _ _ _ _ _ _ _ Dl qid x) as Hu.
    destruct noack; cbn [negb andb] in Hu; [|destruct (q_id qu =? qid); lia].
    destruct (q_id qu =? qid) eqn:E; [|lia]. rewrite cnt_one in Hr. destruct (N.eq_dec u x) as [Eu|]; [|lia].
    (* the head delivered in no-ack mode: its delete is recorded *)
    exfalso. apply N.eqb_eq in E. subst x qid.
    pose proof (nmv_id_unique s (q_id qu) q qn (hi_qids_nodup _ H) A (get_queue_nmv s qn qu Hq)) as ->.
    destruct (persb_true _ _ C) as (m & Gm & Pm). rewrite (durb_get _ _ _ Hq) in B.
    assert (Hd : In (u, qn) (st_del s')) by (apply (Hdel eq_refl m Gm); rewrite B, Pm; reflexivity).
    exact (not_eff_del s' _ H' Hd Hef).
Qed.

Lemma CS_FX s s' : HI s -> CS s -> FR s s' -> XS s s' -> CS s'.
Proof.
  intros H Hc E (X1 & X2 & X3). destruct (nexts_FR _ _ E) as (_ & _ & _ & D1 & D2).
  intros u qn Hef. destruct (Hc u qn (eff_same s s' _ D1 D2 X1 Hef)) as (qid & A & B & C & D).
  exists qid. rewrite X3, X2, (held_FR s s' qid E). destruct E as (_ & En & _). rewrite En. auto.
Qed.

Lemma K_consumer_turn cfg fx s c h tag : KI s -> QI s -> CS (fst (consumer_turn cfg fx s c h tag)).
Proof.
  intros K Q. pose proof (ki_hi _ K) as H.
  destruct (consumer_turn_view cfg fx s c h tag) as (qn & oh & na & V & Hw).
  destruct (consumer_turn_effect cfg fx s c h tag) as [[E Ev]|(ch & cm & qu & u & rest & dtag & Hch & Hfc & Hq & Er & Dl & _)].
  - apply (CS_FX s); [exact H|apply K|exact E|]. destruct V as (V1 & V2 & [V3|(u & _ & _ & _ & e & He & _)]); [repeat split; auto|]. rewrite Ev in He. destruct He.
  - destruct V as (V1 & V2 & _).
    apply (K_delivered s _ c h (c_queue cm) qu u rest dtag (c_noack cm) K Hq Er Dl V1 V2).
    intros Hna m Gm Hdp.
    destruct (turn_noack_del cfg fx s c h tag ch cm qu u rest m Hch Hfc Hq (proj2 (proj2 (proj2 (allq_get qinv s _ qu Q Hq)))) Er Hna Gm Hdp) as [Hr|Hd]; [|exact Hd].
    exfalso. pose proof (dv_ready _ _ _ _ _ _ _ _ Dl (q_id qu) u) as Hc. rewrite (Hr (q_id qu)), N.eqb_refl, cnt_one in Hc.
    destruct (N.eq_dec u u); [lia|congruence].
Qed.

Lemma K_get cfg fx s c h q noack :
  fx_noack_total_once fx = true -> KI s -> QI s -> CS (fst (fst (handle_method cfg fx s c h (MGet q noack)))).
Proof.
  intros Hfx K Q. pose proof (ki_hi _ K) as H. pose proof (get_view cfg fx s c h q noack) as V.
  destruct (get_effect cfg fx s c h q noack) as [[E Ev]|(qu & u & rest & dtag & Hq & Er & _ & Dl & _)].
  - apply (CS_FX s); [exact H|apply K|exact E|]. destruct V as (V1 & V2 & [V3|(u & _ & _ & _ & e & He & Hd)]); [repeat split; auto|]. rewrite (Ev e He) in Hd. discriminate.
  - destruct V as (V1 & V2 & _).
    apply (K_delivered s _ c h q qu u rest dtag noack K Hq Er Dl V1 V2).
    intros Hna m Gm Hdp. subst noack.
    destruct (get_noack_del' cfg fx s c h q qu u rest m Hfx Hq (proj2 (proj2 (proj2 (allq_get qinv s _ qu Q Hq)))) Er Gm Hdp) as [Hr|Hd]; [|exact Hd].
    exfalso. pose proof (dv_ready _ _ _ _ _ _ _ _ Dl (q_id qu) u) as Hc. rewrite (Hr (q_id qu)), N.eqb_refl, cnt_one in Hc.
    destruct (N.eq_dec u u); [lia|congruence].
Qed.

(* ================================================================== *)
(* 6. publish, declare, restart *)
Lemma eff_store s k : eff s k -> In k (store s).
Proof. unfold eff, store. intros [[A _]|[A _]]; apply in_or_app; auto. Qed.

Lemma CS_publish s c h ch ch' m :
  KI s -> get_chan s c h = Some ch -> ch_unacked ch' = ch_unacked ch ->
  CS (set_chan (s <| heap := aset N.eqb (next_uid s) m (heap s) |> <| next_uid := next_uid s + 1 |>) c h (ch' <| ch_cur := Some (next_uid s) |>)).
Proof.
  intros K Hg Eu. pose proof (ki_hi _ K) as H.
  set (s0 := s <| heap := aset N.eqb (next_uid s) m (heap s) |> <| next_uid := next_uid s + 1 |>).
  assert (Hg0 : get_chan s0 c h = Some ch) by exact Hg.
  set (s' := set_chan s0 c h _).
  destruct (next_set_chan s0 c h (ch' <| ch_cur := Some (next_uid s) |>)) as (_ & _ & N3 & N4 & NQ). fold s' in N3, N4, NQ.
  assert (N5 : st_del s' = st_del s) by (unfold s'; rewrite st_del_set_chan; reflexivity).
  intros u qn Hef. assert (He0 : eff s (u, qn)) by (revert Hef; apply eff_same; [rewrite N3|rewrite N4|exact N5]; reflexivity).
  destruct (ki_cs _ K _ _ He0) as (qid & A & B & C & D). exists qid.
  split; [rewrite (nmv_same_queues _ _ NQ); exact A|]. split; [unfold durb; rewrite (get_queue_same_queues _ _ _ NQ); exact B|]. split.
  - pose proof (hi_store_lt _ H _ (eff_store _ _ He0)) as Hlt. cbn [fst] in Hlt.
    assert (E : persb s' u = persb s0 u) by (unfold persb; rewrite (get_msg_same_heap s0 s' u); [reflexivity|apply heap_set_chan]).
    rewrite E. rewrite <- C. unfold persb, get_msg, s0. cbn [heap set]. rewrite (alookup_aset N.eqb Neqb_spec).
    destruct (u =? next_uid s) eqn:Eq; [apply N.eqb_eq in Eq; lia|reflexivity].
  - apply In_cnt. apply In_cnt in D. pose proof (cnt_held_set_chan s0 c h ch (ch' <| ch_cur := Some (next_uid s) |>) Hg0 qid u) as Hc. fold s' in Hc.
    unfold uq in Hc. cbn [ch_unacked set] in Hc. rewrite Eu in Hc. rewrite (held_same s s0 qid) in Hc by reflexivity. lia.
Qed.

Lemma CS_upd_msg_cur s u f : KI s -> In u (all_cur s) -> CS (upd_msg s u f).
Proof.
  intros K Hu. pose proof (ki_hi _ K) as H. pose proof (FR_upd_msg s u f) as E.
  destruct (nexts_FR _ _ E) as (_ & _ & _ & D1 & D2).
  assert (D3 : st_del (upd_msg s u f) = st_del s) by (unfold upd_msg; destruct (get_msg s u); reflexivity).
  intros x qn Hef. assert (He0 : eff s (x, qn)) by (revert Hef; apply eff_same; auto).
  destruct (ki_cs _ K _ _ He0) as (qid & A & B & C & D). exists qid.
  destruct E as (E0 & En & E2). rewrite En. split; [exact A|]. split; [unfold durb; rewrite (get_queue_same_queues _ _ _ (queues_upd_msg s u f)); exact B|]. split.
  - rewrite persb_upd_msg_other; [exact C|]. intros ->. exact (hi_cur_add _ H u (u, qn) Hu (eff_store _ _ He0) eq_refl).
  - rewrite (held_FR s _ qid (conj E0 (conj En E2))). exact D.
Qed.

Lemma nmv_set_queue_new s qn qu' : get_queue s qn = None -> nmv (set_queue s qn qu') = nmv s ++ [(qn, q_id qu')].
Proof.
  unfold get_queue, set_queue. intros Eq. unfold nmv. cbn [queues set]. rewrite (aset_none seqb qn qu' _ Eq). rewrite map_app. reflexivity.
Qed.
Lemma queue_found_none_get s qn : QI s -> queue_found s qn = None -> get_queue s qn = None.
Proof.
  intros Q. unfold queue_found. destruct (get_queue s qn) as [qu|] eqn:E; [|reflexivity].
  rewrite (proj2 (proj2 (proj2 (allq_get qinv s qn qu Q E)))). discriminate.
Qed.

Lemma CS_declare s name qu' :
  KI s -> get_queue s name = None -> q_ready qu' = [] -> CS (set_queue (s <| next_qid ::= N.succ |>) name qu').
Proof.
  intros K Hn Erd. set (s0 := s <| next_qid ::= N.succ |>). assert (Hn0 : get_queue s0 name = None) by exact Hn.
  intros u qn Hef. assert (He0 : eff s (u, qn)) by exact Hef.
  destruct (ki_cs _ K _ _ He0) as (qid & A & B & C & D). exists qid.
  assert (Hne : qn <> name).
  { intros ->. destruct (nmv_get_queue s name qid (hi_names _ (ki_hi _ K)) A) as (qu & G & _). congruence. }
  split; [rewrite (nmv_set_queue_new s0 name qu' Hn0); apply in_or_app; left; exact A|]. split.
  - unfold durb. rewrite get_queue_set_queue. destruct (seqb qn name) eqn:E; [apply seqb_spec in E; contradiction|exact B].
  - split; [exact C|]. unfold held in *. rewrite (unacked_of_same_conns s) by reflexivity.
    rewrite ready_of_qv, (qv_set_queue_new s0 name qu' Hn0), flat_map_app. cbn [flat_map]. unfold rdy at 2, qk. cbn [fst snd]. rewrite Erd.
    change (qv s0) with (qv s). rewrite <- ready_of_qv. destruct (q_id qu' =? qid); rewrite !app_nil_r; exact D.
Qed.

Lemma CS_restart cfg s : KI s -> st_add s = [] -> st_del s = [] -> CS (fst (restart cfg s)).
Proof.
  intros K Ea Ed. pose proof (ki_hi _ K) as H. intros u qn Hef.
  assert (Hdb : In (u, qn) (st_db s)).
  { unfold eff, restart in Hef. cbn [fst st_db st_add st_del] in Hef. destruct Hef as [[He _]|[[] _]]. apply filter_In in He. tauto. }
  assert (He0 : eff s (u, qn)) by (left; split; [exact Hdb|left; rewrite Ed; intros []]).
  destruct (ki_cs _ K _ _ He0) as (qid & A & B & C & D).
  destruct (nmv_get_queue s qn qid (hi_names _ H) A) as (qu & G & Gi). rewrite (durb_get _ _ _ G) in B.
  assert (Hin : In (qn, qu) (queues s)) by (apply (alookup_in seqb seqb_spec); exact G).
  exists qid. split; [|split; [|split]].
  - unfold restart, nmv. cbn [fst queues]. rewrite map_map. cbn [fst snd q_id new_queue set].
    apply in_map_iff. exists (qn, qu). split; [cbn; rewrite Gi; reflexivity|]. apply filter_In. split; [exact Hin|exact B].
  - unfold durb, get_queue, restart. cbn [fst queues].
    rewrite (get_queue_map_rq (fun kv => new_queue (q_id (snd kv)) 0 true false (q_autodel (snd kv))
             <| q_ready := stored_of s (fst kv) |> <| q_len := Z.of_nat (List.length (stored_of s (fst kv))) |>
             <| q_mready := Z.of_nat (List.length (stored_of s (fst kv))) |> <| q_mtotal := Z.of_nat (List.length (stored_of s (fst kv))) |>)).
    rewrite (alookup_filter_snd q_durable _ _ (eq_ind _ (fun l => NoDup l) (hi_names _ H) _ (names_nmv s))).
    unfold get_queue in G. rewrite G, B. reflexivity.
  - rewrite persb_restart. exact C.
  - apply restart_held. exists qn, qu. auto.
Qed.

(* ---- publish: the copies are placed, the keys of the persistent copies in durable queues are added ---- *)
Lemma queue_push_add s qn u k :
  In k (st_add (queue_push s qn u)) ->
  In k (st_add s) \/ (k = (u, qn) /\ durb s qn = true /\ persb s u = true /\ exists qu, get_queue s qn = Some qu /\ q_active qu = true).
Proof.
  unfold queue_push. destruct (get_queue s qn) as [qu|] eqn:Eq; [|auto]. destruct (get_msg s u) as [m|] eqn:Em; [|auto].
  destruct (q_active qu) eqn:Ea; cbn [negb]; [|auto]. cbv zeta. cbn [st_add set set_queue].
  destruct (q_durable qu && m_pers m) eqn:Edp.
  - cbn [st_add set]. intros H. apply in_app_or in H. destruct H as [H|[H|[]]]; [auto|]. right. apply andb_prop in Edp. destruct Edp as [E1 E2].
    split; [auto|]. unfold durb, persb. rewrite Eq, Em. repeat split; auto. exists qu. auto.
  - destruct (m_conf m); [|auto]. unfold upd_msg. destruct (get_msg _ u); auto.
Qed.

Record PK3 (u : N) (s0 s : state) : Prop := {
  p3_mono : forall qid x, In x (held s0 qid) -> In x (held s qid);
  p3_nmv : nmv s = nmv s0;
  p3_del : st_del s = st_del s0;
  p3_add : forall k, In k (st_add s) -> In k (st_add s0) \/
             (fst k = u /\ exists qid, In (snd k, qid) (nmv s) /\ durb s (snd k) = true /\ persb s u = true /\ In u (held s qid)) }.

Lemma PK3_init u s0 : PK3 u s0 s0.
Proof. constructor; auto. Qed.
Lemma PK3_FX u s0 s s' : FX s s' -> PK3 u s0 s -> PK3 u s0 s'.
Proof.
  intros [E (X1 & X2 & X3)] P. destruct (nexts_FR _ _ E) as (_ & _ & _ & EA & _). pose proof E as (_ & En & _). constructor.
  - intros qid x Hx. rewrite (held_FR _ _ qid E). apply P. exact Hx.
  - rewrite En. apply P.
  - rewrite X1. apply P.
  - intros k Hk. rewrite EA in Hk. destruct (p3_add _ _ _ P k Hk) as [Hk0|(Ek & qid & A & B & C & D)]; [auto|right].
    split; [exact Ek|]. exists qid. rewrite En, X3, X2, (held_FR _ _ qid E). auto.
Qed.
Lemma PK3_push u s0 s qn : PK3 u s0 s -> PK3 u s0 (queue_push s qn u).
Proof.
  intros P. destruct (queue_push_view s qn u) as (V1 & V2 & _ & _).
  destruct (queue_push_effect s qn u) as [E|(qu & Hq & Hc & _ & _ & _ & _ & _ & _ & _ & Nm & Dl)]; [rewrite E; exact P|].
  assert (Hm : forall qid x, In x (held s qid) -> In x (held (queue_push s qn u) qid)).
  { intros qid x Hx. apply In_cnt. apply In_cnt in Hx. rewrite Hc. lia. }
  constructor.
  - intros qid x Hx. apply Hm. apply P. exact Hx.
  - rewrite Nm. apply P.
  - rewrite Dl. apply P.
  - intros k Hk. apply queue_push_add in Hk. destruct Hk as [Hk|(Ek & Ed & Ep & qu' & Hq' & Ha)].
    + destruct (p3_add _ _ _ P k Hk) as [Hk0|(Ek & qid & A & B & C & D)]; [auto|right].
      split; [exact Ek|]. exists qid. rewrite Nm, V2, V1. auto.
    + right. subst k. cbn [fst snd]. split; [reflexivity|]. rewrite Hq in Hq'. inversion Hq'; subst qu'. exists (q_id qu).
      rewrite Nm, V2, V1. split; [apply get_queue_nmv; exact Hq|]. split; [exact Ed|]. split; [exact Ep|].
      apply In_cnt. rewrite Hc, N.eqb_refl, cnt_one. destruct (N.eq_dec u u); [lia|congruence].
Qed.
Lemma PK3_route fx c h u s0 : PK3 u s0 (fst (route_and_push fx s0 c h u)).
Proof.
  unfold route_and_push. destruct (get_msg s0 u) as [m|]; [|apply PK3_init].
  destruct (alookup _ _ _) as [ex|]; cbn [fst]; [|eapply PK3_FX; [apply FX_add_confirm|apply PK3_init]].
  destruct (matched_queues _ _ _) as [|q1 qs]; cbn [fst]; [eapply PK3_FX; [apply FX_add_confirm|apply PK3_init]|].
  apply fold_left_preserves.
  - intros s1 qn P. unfold push_one. pose proof (PK3_push u s0 s1 qn P) as P1.
    destruct (get_msg (queue_push s1 qn u) u); [|exact P1]. destruct (_ && _ && _); [|exact P1]. eapply PK3_FX; [apply FX_add_confirm|exact P1].
  - destruct (_ && _)%bool; [|apply PK3_init]. eapply PK3_FX; [split; [apply FR_upd_msg|apply XS_upd_msg; reflexivity]|apply PK3_init].
Qed.

Lemma CS_finish_publish fx s c h u :
  fx_clear_current fx = true -> KI s -> curat c h (Some u) s -> CS (fst (finish_publish fx s c h u)).
Proof.
  intros Hfx K Hcur. pose proof (ki_hi _ K) as H. destruct Hcur as (ch & Hg & Ecur). pose proof (In_cur_of_chan s c h ch u Hg Ecur) as Hu.
  unfold finish_publish. pose proof (PK_route c h u s H Hu fx) as P. pose proof (PK2_route fx c h u s H Hu) as P2. pose proof (PK3_route fx c h u s) as P3.
  destruct (route_and_push fx s c h u) as [s1 e1]. cbn [fst] in *. rewrite Hfx.
  set (s' := upd_chan s1 c h (fun ch => ch <| ch_cur := None |>)).
  assert (X : XS s1 s') by apply XS_upd_chan. destruct X as (X1 & X2 & X3).
  assert (ES : st_add s' = st_add s1 /\ st_db s' = st_db s1 /\ queues s' = queues s1).
  { unfold s', upd_chan. destruct (get_chan s1 c h); [|auto]. repeat split; apply next_set_chan. }
  destruct ES as (EA & EB & EQ).
  assert (Hh : forall qid x, In x (held s1 qid) -> In x (held s' qid)).
  { intros qid x Hx. unfold s', upd_chan. destruct (get_chan s1 c h) as [ch1|] eqn:Hg1; [|exact Hx].
    apply In_cnt. apply In_cnt in Hx. pose proof (cnt_held_set_chan s1 c h ch1 (ch1 <| ch_cur := None |>) Hg1 qid x) as Hc.
    change (uq qid (ch1 <| ch_cur := None |>)) with (uq qid ch1) in Hc. lia. }
  assert (Hjust : forall x qn qid, In (qn, qid) (nmv s1) -> durb s1 qn = true -> persb s1 x = true -> In x (held s1 qid) ->
                    exists qid, In (qn, qid) (nmv s') /\ durb s' qn = true /\ persb s' x = true /\ In x (held s' qid)).
  { intros x qn qid A B C D. exists qid. rewrite (nmv_same_queues _ _ EQ), X3, X2. auto. }
  intros x qn Hef. unfold eff in Hef. rewrite EA, EB, X1, (pk_db _ _ _ _ P), (p3_del _ _ _ P3) in Hef.
  assert (Hold : eff s (x, qn) -> exists qid, In (qn, qid) (nmv s') /\ durb s' qn = true /\ persb s' x = true /\ In x (held s' qid)).
  { intros He0. destruct (ki_cs _ K _ _ He0) as (qid & A & B & C & D). apply (Hjust x qn qid).
    - rewrite (p3_nmv _ _ _ P3). exact A.
    - rewrite (p2_dur _ _ _ P2). exact B.
    - rewrite (p2_pers _ _ _ P2). exact C.
    - apply (p3_mono _ _ _ P3). exact D. }
  assert (Hnew : In (x, qn) (st_add s1) -> In (x, qn) (st_add s) \/
                 exists qid, In (qn, qid) (nmv s') /\ durb s' qn = true /\ persb s' x = true /\ In x (held s' qid)).
  { intros Ha. destruct (p3_add _ _ _ P3 _ Ha) as [Ha0|(Ek & qid & A & B & C & D)]; [auto|right]. cbn [fst snd] in *. subst x. apply (Hjust u qn qid); auto. }
  destruct Hef as [[Hd [Hc|Hc]]|[Hc Hn]].
  - apply Hold. left. auto.
  - destruct (Hnew Hc) as [Hc0|J]; [apply Hold; left; auto|exact J].
  - destruct (Hnew Hc) as [Hc0|J]; [apply Hold; right; auto|exact J].
Qed.

(* ================================================================== *)
(* 7. every handler, every label *)
Lemma NM_of_Inv s : BrokerConserve.Inv s -> NM s.
Proof.
  intros [V _] qn qid Hp qn' Hq'. unfold uqp in Hp. apply in_map_iff in Hp. destruct Hp as (e & E & He). inversion E; subst qn qid.
  rewrite BrokerConserveView.all_unacked_cv in He. destruct (BrokerConserveOps.vi_uq _ _ _ V e He) as [_ Hn].
  unfold nmv in Hq'. apply in_map_iff in Hq'. destruct Hq' as ([k qu] & E' & Hk). inversion E'; subst qn'.
  apply (Hn k (BrokerConserveView.qproj qu)); [|assumption].
  unfold BrokerConserveView.qv, BrokerConserveView.vmap. apply in_map_iff. exists (k, qu). split; [reflexivity|exact Hk].
Qed.

Lemma KFX s s' : KI s -> FX s s' -> CS s'.
Proof. intros K [A B]. eapply CS_FX; [apply K|apply K|exact A|exact B]. Qed.

(* a channel record rewritten without changing what its deliveries hold *)
Lemma CS_set_chan_uq s c h ch ch' :
  KI s -> get_chan s c h = Some ch -> (forall qid, uq qid ch' = uq qid ch) -> CS (set_chan s c h ch').
Proof.
  intros K Hg Hu. destruct (next_set_chan s c h ch') as (_ & _ & N3 & N4 & NQ). pose proof (XS_set_chan s c h ch') as (X1 & X2 & X3).
  intros u qn Hef. assert (He0 : eff s (u, qn)) by (revert Hef; apply eff_same; auto).
  destruct (ki_cs _ K _ _ He0) as (qid & A & B & C & D). exists qid. rewrite (nmv_same_queues _ _ NQ), X3, X2. repeat split; auto.
  apply In_cnt. apply In_cnt in D. pose proof (cnt_held_set_chan s c h ch ch' Hg qid u) as Hc. rewrite Hu in Hc. lia.
Qed.
Lemma CS_upd_chan_uq s c h f : KI s -> (forall ch qid, uq qid (f ch) = uq qid ch) -> CS (upd_chan s c h f).
Proof. intros K Hf. unfold upd_chan. destruct (get_chan s c h) as [ch|] eqn:E; [|apply K]. apply (CS_set_chan_uq s c h ch); auto. Qed.

Lemma CS_handle_method cfg fx s c h m :
  fx_noack_total_once fx = true -> fx_delete_checks_first fx = true ->
  CI s -> BrokerConserve.Inv s -> KI s -> QI s -> CS (fst (fst (handle_method cfg fx s c h m))).
Proof.
  intros Fn Fd Hci Iv K Q. pose proof (ki_hi _ K) as H. pose proof (ki_cs _ K) as Hc.
  destruct m; try (apply K_get; auto; fail); try (apply K_purge; auto; fail).
  all: unfold handle_method.
  all: destruct (get_chan s c h) as [ch|] eqn:Hch; [|exact Hc].
  all: unfold ok, refuse.
  - (* MChannelOpen *)
    destruct (ch_status ch) eqn:Est; cbn [fst]; auto.
    + eapply KFX; [exact K|]. eapply FX_set_chan; [exact Hch|reflexivity].
    + eapply KFX; [exact K|]. eapply FX_set_chan; [exact Hch|reflexivity].
    + destruct (BrokerConserve.cz_at s c h ch (proj1 Iv) Hch) as [Eu _]; [right; rewrite Est; reflexivity|].
      apply (CS_set_chan_uq s c h ch); [exact K|exact Hch|]. intros qid. unfold uq. destruct (fx_reopen_resets fx); cbn [ch_unacked set]; rewrite Eu; reflexivity.
  - cbn [fst]. apply K_channel_close; auto.
  - cbn [fst]. destruct (fx_closeok_releases fx); [apply K_channel_close; auto|].
    eapply KFX; [exact K|]. eapply FX_set_chan; [exact Hch|reflexivity].
  - cbn [fst]. destruct (Bool.eqb _ _); auto. destruct a; (eapply KFX; [exact K|]; eapply FX_set_chan; [exact Hch|reflexivity]).
  - destruct (extype_of type); [|exact Hc].
    repeat match goal with |- context [if ?b then _ else _] => destruct b end; cbn [fst]; auto.
    all: repeat match goal with |- context [match ?x with _ => _ end] => destruct x end; cbn [fst]; auto.
    all: try (eapply KFX; [exact K|apply FX_same; reflexivity]).
  - destruct (fx_not_impl fx); exact Hc.
  - (* MQDeclare *)
    destruct (seqb name ""); [exact Hc|].
    destruct (queue_found s name) as [qu|] eqn:Eqf.
    + repeat match goal with |- context [if ?b then _ else _] => destruct b end; cbn [fst]; auto.
    + destruct passive; [destruct nowait; exact Hc|]. cbn [fst].
      match goal with |- CS (@set _ _ _ _ _ ?s1) => apply (CS_FX s1); [| |apply FR_same; reflexivity|apply XS_same; reflexivity] end.
      * apply HI_declare; auto.
      * apply CS_declare; auto. apply queue_found_none_get; auto.
  - destruct (alookup _ _ _); [|exact Hc]. destruct (seqb ex ""); [exact Hc|].
    destruct (queue_found s q); [|exact Hc]. destruct (locked _ _); [exact Hc|]. destruct (bad_xmatch _); [exact Hc|]. destruct (extype_eqb _ ExTopic && bad_pattern _)%bool; [exact Hc|]. cbn [fst].
    eapply KFX; [exact K|apply FX_same; reflexivity].
  - destruct (alookup _ _ _); [|exact Hc]. destruct (queue_found s q); [|exact Hc]. destruct (locked _ _); [exact Hc|]. destruct (bad_xmatch _); [exact Hc|]. destruct (extype_eqb _ ExTopic && bad_pattern _)%bool; [exact Hc|]. cbn [fst].
    eapply KFX; [exact K|apply FX_same; reflexivity].
  - (* MQDelete *)
    destruct (queue_found s q); [|exact Hc]. destruct (locked _ _); [exact Hc|]. rewrite Fd. cbn [negb].
    pose proof (K_vhost_delete_queue s q ifunused ifempty K) as Hd.
    destruct (vhost_delete_queue false s q ifunused ifempty) as [[s1 e1] r1]. cbn [fst] in *.
    destruct r1; cbn [fst]; apply Hd.
  - (* MQos *)
    cbn [fst]. eapply KFX; [exact K|]. eapply FX_trans; [|apply FX_wake_consumers].
    destruct (cfg_rabbit cfg); [destruct glob; (eapply FX_set_chan; [exact Hch|reflexivity])|].
    destruct glob; [|eapply FX_set_chan; [exact Hch|reflexivity]].
    destruct (get_conn s c) eqn:Ec; [|apply FX_refl]. eapply FX_set_conn; [exact Ec|reflexivity].
  - (* MPublish *)
    destruct imm; [exact Hc|]. destruct (alookup _ _ _); [|exact Hc].
    destruct (ch_confirm ch); cbn [fst]; (apply (CS_publish s c h ch); [exact K|exact Hch|reflexivity]).
  - (* MConsume *)
    destruct (queue_found s q) as [qu|] eqn:Eqf; [|exact Hc]. apply queue_found_get' in Eqf.
    destruct (fx_excl_owner fx && locked qu c); [exact Hc|].
    destruct (find_consumer ch _); [exact Hc|].
    destruct (_ && _)%bool; cbn [fst].
    + eapply KFX; [exact K|]. eapply FX_set_queue; [exact Eqf|reflexivity|reflexivity].
    + eapply KFX; [exact K|].
      match goal with |- FX s (set_chan ?s3 c h ?ch') => assert (E3 : FX s s3 /\ conns s3 = conns s) end.
      { match goal with |- FX s (if ?b then @set _ _ _ _ _ ?s2 else _) /\ _ => assert (E2 : FX s s2 /\ conns s2 = conns s) end.
        { split; [|reflexivity]. eapply FX_trans; [|apply FX_same; reflexivity]. eapply FX_set_queue; [exact Eqf| |].
          - rewrite q_call_consumers. destruct excl; reflexivity.
          - unfold call_consumers. destruct excl; cbn; destruct (q_active qu); reflexivity. }
        destruct E2 as [E2 C2]. destruct (seqb tag ""%string); [split; [eapply FX_trans; [exact E2|apply FX_same; reflexivity]|exact C2]|split; [exact E2|exact C2]]. }
      destruct E3 as [E3 C3]. eapply FX_trans; [exact E3|]. eapply FX_set_chan; [rewrite (get_chan_same_conns _ _ _ _ C3); exact Hch|reflexivity].
  - (* MCancel *)
    destruct (find_consumer ch tag); [|exact Hc]. cbn [fst].
    apply CS_upd_chan_uq; [|intros ch0 qid; apply uq_orphan].
    eapply K_FX'; [exact K|]. eapply FX_trans; [apply FX_consumer_stop|apply FX_upd_chan; reflexivity].
  - (* MAck *)
    pose proof (K_handle_ack cfg s c h tag mult Hci K Q) as Ha.
    destruct (handle_ack cfg s c h tag mult) as [s1 e1]. cbn [fst] in *. apply Ha.
  - pose proof (K_handle_reject cfg s c h tag mult requeue 60 120 Hci K Q) as Ha.
    destruct (handle_reject cfg s c h tag mult requeue 60 120) as [s1 e1]. cbn [fst] in *. apply Ha.
  - pose proof (K_handle_reject cfg s c h tag false requeue 60 90 Hci K Q) as Ha.
    destruct (handle_reject cfg s c h tag false requeue 60 90) as [s1 e1]. cbn [fst] in *. apply Ha.
  - exact Hc.
  - cbn [fst]. eapply KFX; [exact K|]. eapply FX_set_chan; [exact Hch|reflexivity].
  - destruct (fx_not_impl fx); exact Hc.
  - exact Hc.
  - exact Hc.
  - destruct good; [cbn [fst]; eapply KFX; [exact K|apply FX_set_stage]|exact Hc].
  - destruct within; [cbn [fst]; eapply KFX; [exact K|apply FX_set_stage]|exact Hc].
  - destruct vhost_ok; [cbn [fst]; eapply KFX; [exact K|apply FX_set_stage]|exact Hc].
Qed.

(* a handler that answers with a connection error has changed nothing *)
Lemma handle_ack_no_connerr cfg s c h tag mult a b d : snd (handle_ack cfg s c h tag mult) <> Some (ConnErr a b d).
Proof. unfold handle_ack. destruct (get_chan s c h); [|discriminate]. destruct mult; [discriminate|]. destruct (find _ _); discriminate. Qed.
Lemma handle_reject_no_connerr cfg s c h tag mult rq cls mth a b d : snd (handle_reject cfg s c h tag mult rq cls mth) <> Some (ConnErr a b d).
Proof. unfold handle_reject. destruct (get_chan s c h); [|discriminate]. destruct mult; [discriminate|]. destruct (find _ _); discriminate. Qed.
Lemma handle_method_connerr cfg fx s c h m a b d :
  snd (handle_method cfg fx s c h m) = Some (ConnErr a b d) -> fst (fst (handle_method cfg fx s c h m)) = s.
Proof.
  unfold handle_method. destruct (get_chan s c h) as [ch|]; [|reflexivity].
  destruct m; unfold ok, refuse.
  all: try (match goal with |- context [handle_ack ?a1 ?a2 ?a3 ?a4 ?a5 ?a6] =>
              pose proof (handle_ack_no_connerr a1 a2 a3 a4 a5 a6 a b d) as Hn; destruct (handle_ack a1 a2 a3 a4 a5 a6) as [s0 o]; cbn [fst snd] in *; intros Hx; contradiction end).
  all: try (match goal with |- context [handle_reject ?a1 ?a2 ?a3 ?a4 ?a5 ?a6 ?a7 ?a8 ?a9] =>
              pose proof (handle_reject_no_connerr a1 a2 a3 a4 a5 a6 a7 a8 a9 a b d) as Hn; destruct (handle_reject a1 a2 a3 a4 a5 a6 a7 a8 a9) as [s0 o]; cbn [fst snd] in *; intros Hx; contradiction end).
  all: repeat match goal with
           | |- snd (let '(_, _) := ?x in _) = _ -> _ => destruct x
           | |- snd (match ?x with _ => _ end) = _ -> _ => destruct x
           | |- snd (if ?b then _ else _) = _ -> _ => destruct b
           end; cbn [fst snd]; intros Hx; try discriminate; try reflexivity.
Qed.

Lemma KI_upd_msg_cur s u f : KI s -> In u (all_cur s) -> KI (upd_msg s u f).
Proof.
  intros K Hu. pose proof (FR_upd_msg s u f) as E. constructor.
  - eapply HI_FR; [apply K|exact E].
  - apply CS_upd_msg_cur; auto.
  - intros qn qid Hp qn' Hq'. rewrite (uqp_FR _ _ E) in Hp. destruct E as (_ & En & _). rewrite En in Hq'. apply (ki_nm _ K qn qid Hp qn' Hq').
Qed.

Lemma CS_send_error s c h e : HI s -> CS s -> CS (fst (send_error s c h e)).
Proof. intros H Hc. eapply CS_FX; [exact H|exact Hc|apply FR_send_error|apply XS_send_error]. Qed.

Lemma CS_apply_err s c h r : HI (fst (fst r)) -> CS (fst (fst r)) -> CS (fst (apply_err s c h r)).
Proof.
  destruct r as [[s1 e1] [e|]]; cbn [fst]; auto. intros H Hc. unfold apply_err.
  pose proof (CS_send_error s1 c h e H Hc) as Hs. destruct (send_error s1 c h e) as [s2 e2]. exact Hs.
Qed.

Lemma CS_apply_err_st cfg fx opened s c h r :
  fx_delete_checks_first fx = true -> HI (fst (fst r)) -> CS (fst (fst r)) ->
  (forall a b d, snd r = Some (ConnErr a b d) -> BrokerConserve.Inv (fst (fst r)) /\ KI (fst (fst r)) /\ QI (fst (fst r))) ->
  CS (fst (apply_err_st cfg fx opened s c h r)).
Proof.
  intros Fd H Hc Hcl. unfold apply_err_st. destruct opened; [apply CS_apply_err; auto|].
  destruct (snd r) as [[a b d|a b d]|] eqn:Er; try (apply CS_apply_err; auto).
  destruct (Hcl a b d eq_refl) as (Iv & K & Q).
  destruct r as [[s1 e1] er]. cbn [fst snd] in *. subst er. unfold apply_err. cbn [send_error].
  pose proof (K_conn_close cfg fx s1 c Fd Iv K Q) as Kc. destruct (conn_close cfg fx s1 c) as [s2 e2]. cbn [fst] in *. apply Kc.
Qed.

Lemma Inv_ensure_chan s c h cn0 :
  BrokerConserve.Inv s -> get_conn s c = Some cn0 -> negb (cstage_eqb (cn_stage cn0) StOpen) && negb (h =? 0) = false ->
  BrokerConserve.Inv (ensure_chan s c h).
Proof.
  intros [V Hci] Ec Hb. split; [|apply CI_ensure_chan; exact Hci].
  apply (BrokerConserve.Good_ensure_chan s c h V). intros cn Ec' Hst. rewrite Ec in Ec'. inversion Ec'; subst cn.
  destruct (cstage_eqb (cn_stage cn0) StOpen) eqn:E; cbn [negb andb] in Hb.
  - destruct (cn_stage cn0); try discriminate. contradiction.
  - apply Bool.negb_false_iff in Hb. apply N.eqb_eq. exact Hb.
Qed.
Lemma QI_ensure_chan s c h : QI s -> QI (ensure_chan s c h).
Proof. intros Q. eapply allq_same_queues; [apply queues_ensure_chan|exact Q]. Qed.

Section StepPass.
Variables (cfg : config) (fx : fixes).
Hypotheses (Fc : fx_clear_current fx = true) (Fn : fx_noack_total_once fx = true) (Fd : fx_delete_checks_first fx = true).

Lemma CS_conn_close s c : BrokerConserve.Inv s -> KI s -> QI s -> CS (fst (conn_close cfg fx s c)).
Proof. intros Iv K Q. apply K_conn_close; auto. Qed.

Lemma CS_method_step s c h m (cn0 : conn) :
  BrokerConserve.Inv s -> KI s -> QI s ->
  CS (fst (apply_err_st cfg fx (cstage_eqb (cn_stage cn0) StOpen) s c h (handle_method cfg fx s c h m))).
Proof.
  intros Iv K Q. apply CS_apply_err_st; auto.
  - apply HI_handle_method; [apply Iv|apply K].
  - apply CS_handle_method; auto. apply Iv.
  - intros a b d Hx. rewrite (handle_method_connerr cfg fx s c h m a b d Hx). auto.
Qed.

Lemma CS_refuse_step (opened : bool) sA s c h e : BrokerConserve.Inv s -> KI s -> QI s -> CS (fst (apply_err_st cfg fx opened sA c h (refuse s e))).
Proof. intros Iv K Q. apply CS_apply_err_st; cbn [fst snd refuse]; auto; try apply K. Qed.

Theorem CS_step s l :
  (is_restart l = true -> st_add s = [] /\ st_del s = []) ->
  BrokerConserve.Inv s -> KI s -> QI s -> CS (fst (step cfg fx s l)).
Proof.
  intros Hr Iv K Q. pose proof (ki_hi _ K) as H. pose proof (ki_cs _ K) as Hc. pose proof (proj2 Iv) as Hci.
  destruct l; cbn [step].
  - (* LConnect *)
    destruct (get_conn s c) eqn:Ec; cbn [fst]; auto. eapply KFX; [exact K|]. apply FX_new_conn; [exact Ec|reflexivity].
  - (* LMethod *)
    destruct (get_conn s c) as [cn0|] eqn:Ec; [|exact Hc].
    destruct (negb _ && negb _)%bool eqn:Hb; [apply CS_conn_close; auto|].
    assert (I0 : BrokerConserve.Inv (ensure_chan s c h)) by (eapply Inv_ensure_chan; eauto).
    assert (K0 : KI (ensure_chan s c h)) by (eapply K_FX'; [exact K|apply FX_ensure_chan]).
    assert (Q0 : QI (ensure_chan s c h)) by (apply QI_ensure_chan; exact Q).
    destruct m.
    all: try (repeat match goal with |- context [if ?b then _ else _] => destruct b end;
              first [ apply (ki_cs _ K0)
                    | apply CS_apply_err; first [ apply (ki_hi _ K0) | apply (ki_cs _ K0) ]
                    | apply CS_refuse_step; assumption
                    | apply CS_method_step; assumption ]).
    + destruct (fx_stage fx && negb (h =? 0)); [apply CS_apply_err; [apply (ki_hi _ K0)|apply (ki_cs _ K0)]|].
      pose proof (CS_conn_close _ c I0 K0 Q0) as Hcc.
      destruct (conn_close cfg fx (ensure_chan s c h) c) as [s1 e1]. exact Hcc.
    + destruct (fx_stage fx && negb (h =? 0)); [apply CS_apply_err; [apply (ki_hi _ K0)|apply (ki_cs _ K0)]|]. apply CS_conn_close; auto.
  - (* LHeader *)
    destruct (get_conn s c) as [cn0|] eqn:Ec; [|exact Hc].
    destruct (negb _ && negb _)%bool eqn:Hb; [apply CS_conn_close; auto|].
    assert (I0 : BrokerConserve.Inv (ensure_chan s c h)) by (eapply Inv_ensure_chan; eauto).
    assert (K0 : KI (ensure_chan s c h)) by (eapply K_FX'; [exact K|apply FX_ensure_chan]).
    assert (Q0 : QI (ensure_chan s c h)) by (apply QI_ensure_chan; exact Q). clear Hb.
    destruct (get_chan _ c h) as [ch|] eqn:Ech; [|apply (ki_cs _ K0)].
    destruct (_ && _)%bool; [apply (ki_cs _ K0)|].
    destruct (ch_cur ch) as [u|] eqn:Ecur; [|apply CS_refuse_step; auto].
    destruct (get_msg _ u) as [m|]; [|apply (ki_cs _ K0)].
    destruct (m_has_header m); [apply CS_refuse_step; auto|].
    assert (K1 : forall f, KI (upd_msg (ensure_chan s c h) u f)).
    { intros f. apply KI_upd_msg_cur; [exact K0|]. eapply In_cur_of_chan; eauto. }
    destruct (_ && _)%bool; [|apply (ki_cs _ (K1 _))].
    apply CS_finish_publish; [exact Fc|apply K1|]. eapply curat_same_conns; [apply conns_upd_msg|]. exists ch. auto.
  - (* LBody *)
    destruct (get_conn s c) as [cn0|] eqn:Ec; [|exact Hc].
    destruct (negb _ && negb _)%bool eqn:Hb; [apply CS_conn_close; auto|].
    assert (I0 : BrokerConserve.Inv (ensure_chan s c h)) by (eapply Inv_ensure_chan; eauto).
    assert (K0 : KI (ensure_chan s c h)) by (eapply K_FX'; [exact K|apply FX_ensure_chan]).
    assert (Q0 : QI (ensure_chan s c h)) by (apply QI_ensure_chan; exact Q). clear Hb.
    destruct (get_chan _ c h) as [ch|] eqn:Ech; [|apply (ki_cs _ K0)].
    destruct (_ && _)%bool; [apply (ki_cs _ K0)|].
    destruct (ch_cur ch) as [u|] eqn:Ecur; [|apply CS_refuse_step; auto].
    destruct (get_msg _ u) as [m|]; [|apply (ki_cs _ K0)].
    destruct (negb (m_has_header m)); [apply CS_refuse_step; auto|].
    destruct (_ <? _).
    { set (s0' := upd_chan (ensure_chan s c h) c h (fun ch => ch <| ch_cur := None |>)).
      assert (K0' : KI s0').
      { constructor.
        - eapply HI_HB; [apply (ki_hi _ K0)|]. apply HB_upd_chan; [intros; apply le_ms_nil|intros; apply le_ms_refl].
        - apply CS_upd_chan_uq; [exact K0|reflexivity].
        - intros qn qid Hp qn' Hq'. apply (ki_nm _ K0 qn qid); [|rewrite <- (nmv_same_queues _ s0') by apply queues_upd_chan; exact Hq'].
          unfold uqp in *. assert (E : all_unacked s0' = all_unacked (ensure_chan s c h)); [|rewrite <- E; exact Hp].
          unfold s0', upd_chan. rewrite Ech. rewrite !all_unacked_all_ch. apply (all_ch_set_chan_keep ch_unacked _ c h ch); [exact Ech|reflexivity]. }
      apply CS_refuse_step; auto.
      - split; [|apply allch_upd_chan; [intros; assumption|apply I0]].
        eapply BrokerConserve.VI_view; [|apply I0]. apply BrokerConserveView.view_upd_chan_same. reflexivity.
      - apply QI_upd_chan. exact Q0. }
    assert (K1 : forall f, KI (upd_msg (ensure_chan s c h) u f)).
    { intros f. apply KI_upd_msg_cur; [exact K0|]. eapply In_cur_of_chan; eauto. }
    destruct (_ <? _); [apply (ki_cs _ (K1 _))|].
    apply CS_finish_publish; [exact Fc|apply K1|]. eapply curat_same_conns; [apply conns_upd_msg|]. exists ch. auto.
  - (* LConsumerTurn *) apply K_consumer_turn; auto.
  - (* LQueueLoop *) cbn [fst]. eapply KFX; [exact K|apply FX_queue_loop_turn].
  - (* LAutoDelete *)
    destruct (autodel s) as [|qn rest]; [exact Hc|].
    assert (K0 : KI (s <| autodel := rest |>)) by (eapply K_FX'; [exact K|apply FX_same; reflexivity]).
    destruct (get_queue _ qn) as [qu0|]; [|apply (ki_cs _ K0)]. destruct (q_autodel qu0); [|apply (ki_cs _ K0)]. rewrite Fd. cbn [negb].
    pose proof (K_vhost_delete_queue (s <| autodel := rest |>) qn true false K0) as Hd.
    destruct (vhost_delete_queue false (s <| autodel := rest |>) qn true false) as [[s1 e1] r1]. cbn [fst] in *. apply Hd.
  - (* LPersistTick *) apply (K_persist_tick cfg fx s K).
  - (* LRelay *)
    destruct (relay s) as [|u rest]; [exact Hc|].
    assert (K0 : KI (s <| relay := rest |>)) by (eapply K_FX'; [exact K|apply FX_same; reflexivity]).
    destruct (get_msg _ u) as [m|]; cbn [fst]; [|apply (ki_cs _ K0)].
    destruct (m_conf m) as [[[? ?] ?]|]; cbn [fst]; [|apply (ki_cs _ K0)]. eapply KFX; [exact K0|apply FX_add_confirm].
  - (* LConfirmTick *)
    destruct (get_chan s c h) as [ch|] eqn:Ech; [|exact Hc]. destruct (negb _); [exact Hc|].
    destruct (ch_status ch); cbn [fst]; (eapply KFX; [exact K|]; eapply FX_set_chan; [exact Ech|reflexivity]).
  - (* LSocketLoss *)
    pose proof (CS_conn_close s c Iv K Q) as Hcc. destruct (conn_close cfg fx s c) as [s1 e1]. exact Hcc.
  - (* LAccept *)
    destruct (get_conn s c) eqn:Ec; cbn [fst]; auto. eapply KFX; [exact K|]. apply FX_new_conn; [exact Ec|reflexivity].
  - (* LBadMethod *)
    destruct (get_conn s c) as [cn0|] eqn:Ec; [|exact Hc].
    destruct (negb _ && negb _)%bool eqn:Hb; [apply CS_conn_close; auto|].
    apply CS_refuse_step; [eapply Inv_ensure_chan; eauto|eapply K_FX'; [exact K|apply FX_ensure_chan]|apply QI_ensure_chan; exact Q].
  - (* LHeartbeat *)
    destruct (get_conn s c); [|exact Hc]. destruct (h =? 0); [exact Hc|apply CS_conn_close; auto].
  - (* LRestart *) destruct (Hr eq_refl) as [Ea Ed]. apply CS_restart; auto.
Qed.
End StepPass.

(* ================================================================== *)
(* 8. graceful runs *)
Record Fixed (fx : fixes) : Prop := {
  fx1 : fx_clear_current fx = true; fx2 : fx_noack_total_once fx = true; fx3 : fx_delete_checks_first fx = true;
  fx4 : fx_stage fx = true; fx5 : fx_chan_open fx = true; fx6 : fx_closeok_releases fx = true }.

Definition RI (s : state) : Prop := BrokerConserve.Inv s /\ KI s /\ QI s.

Theorem RI_step cfg fx s l :
  Fixed fx -> (is_restart l = true -> st_add s = [] /\ st_del s = []) -> RI s -> RI (fst (step cfg fx s l)).
Proof.
  intros F Hr (Iv & K & Q).
  assert (Iv' : BrokerConserve.Inv (fst (step cfg fx s l))) by (apply BrokerConserve.Inv_step; auto; apply F).
  split; [exact Iv'|]. split; [|apply QI_step; [apply F|exact Q]]. constructor.
  - apply holder_step; [apply F|apply Iv|apply K].
  - apply CS_step; auto; apply F.
  - apply NM_of_Inv. exact Iv'.
Qed.

Lemma RI_init cfg : RI (init cfg).
Proof.
  split; [apply BrokerConserve.Inv_init|]. split; [|apply QI_init]. constructor.
  - apply HI_init.
  - intros u qn [[[] _]|[[] _]].
  - intros qn qid [].
Qed.

Definition last_tick (prev : bool) (ls : list label) : bool := fold_left (fun _ l => is_tick l) ls prev.
Lemma graceful_app ls1 : forall prev ls2,
  graceful_from prev (ls1 ++ ls2) = graceful_from prev ls1 && graceful_from (last_tick prev ls1) ls2.
Proof.
  induction ls1 as [|l t IH]; intros prev ls2; cbn [app graceful_from last_tick fold_left]; [reflexivity|].
  rewrite IH. unfold last_tick. rewrite andb_assoc. reflexivity.
Qed.

Theorem RI_run cfg fx ls : forall prev s,
  Fixed fx -> graceful_from prev ls = true -> (prev = true -> st_add s = [] /\ st_del s = []) -> RI s ->
  RI (fst (run cfg fx s ls)) /\
  (last_tick prev ls = true -> st_add (fst (run cfg fx s ls)) = [] /\ st_del (fst (run cfg fx s ls)) = []).
Proof.
  induction ls as [|l t IH]; intros prev s F Hg Hp R; cbn [run]; [auto|].
  cbn [graceful_from] in Hg. apply andb_prop in Hg. destruct Hg as [Hl Hg].
  assert (Hr : is_restart l = true -> st_add s = [] /\ st_del s = []) by (intros E; rewrite E in Hl; auto).
  pose proof (RI_step cfg fx s l F Hr R) as R1.
  assert (P1 : is_tick l = true -> st_add (fst (step cfg fx s l)) = [] /\ st_del (fst (step cfg fx s l)) = []).
  { intros Et. destruct l; try discriminate. apply tick_nothing_pending. }
  destruct (step cfg fx s l) as [s1 e1]. cbn [fst] in *. specialize (IH (is_tick l) s1 F Hg P1 R1).
  destruct (run cfg fx s1 t) as [s2 e2]. exact IH.
Qed.

(* in every state reached by a graceful run: the effective store is sound *)
Theorem store_sound_reachable cfg fx ls : Fixed fx -> graceful ls = true -> CS (fst (run cfg fx (init cfg) ls)).
Proof.
  intros F Hg. destruct (RI_run cfg fx ls false (init cfg) F Hg (fun E => ltac:(discriminate E)) (RI_init cfg)) as [(_ & K & _) _]. apply K.
Qed.

(* store keys exist only for persistent messages of (live) durable queues *)
Corollary keys_only_persistent_durable cfg fx ls u qn :
  Fixed fx -> graceful ls = true ->
  let s := fst (run cfg fx (init cfg) ls) in
  eff s (u, qn) -> persb s u = true /\ durb s qn = true /\ exists qid, In (qn, qid) (nmv s).
Proof. intros F Hg s He. destruct (store_sound_reachable cfg fx ls F Hg u qn He) as (qid & A & B & C & _). eauto. Qed.

(* what the queue object does not hold is gone for good *)
Lemma not_held_gone_for_good s u qid :
  KI s -> u < next_uid s -> ~ In u (all_cur s) -> qid < next_qid s -> ~ In u (held s qid) -> gone_for_good u qid s.
Proof.
  intros K A B C D. split; [repeat split; auto|]. split; [exact C|].
  intros qn Hin He. destruct (ki_cs _ K _ _ He) as (qid0 & A0 & _ & _ & D0).
  rewrite (nmv_name_unique s qn qid0 qid (hi_names _ (ki_hi _ K)) A0 Hin) in D0. contradiction.
Qed.

(* THE END-TO-END THEOREM.  In a state reached by a graceful run (every restart directly preceded by the persist tick, as a graceful
   stop does): a message id that is allocated and not being assembled, and a queue object id that was allocated - if that object
   does not hold the message, it will never hold it, whatever follows (gracefully).  Whichever way the message left - ack, multiple
   ack, reject / nack without requeue, no-ack delivery, purge, queue deletion, or never having been routed there - and whether it
   is persistent or not, the queue durable or not. *)
Theorem settled_is_never_held_again cfg fx ls1 ls2 qid u :
  Fixed fx -> graceful (ls1 ++ ls2) = true ->
  let s1 := fst (run cfg fx (init cfg) ls1) in
  u < next_uid s1 -> ~ In u (all_cur s1) -> qid < next_qid s1 ->
  ~ In u (held s1 qid) -> ~ In u (held (fst (run cfg fx s1 ls2)) qid).
Proof.
  intros F Hg s1 A B C D. unfold graceful in Hg. rewrite graceful_app in Hg. apply andb_prop in Hg. destruct Hg as [Hg1 Hg2].
  destruct (RI_run cfg fx ls1 false (init cfg) F Hg1 (fun E => ltac:(discriminate E)) (RI_init cfg)) as [(Iv & K & Q) Hp]. fold s1 in Iv, K, Q, Hp.
  pose proof (not_held_gone_for_good s1 u qid K A B C D) as G.
  pose proof (gone_for_good_run cfg fx u qid ls2 (last_tick false ls1) s1 (fx1 _ F) Hg2 Hp (proj2 Iv) (ki_hi _ K) G) as ((_ & _ & R) & _). exact R.
Qed.

(* allocation is for ever: a published message stays published, an allocated queue id stays allocated *)
Lemma alloc_step cfg fx s l u qid :
  CI s -> HI s -> u < next_uid s -> ~ In u (all_cur s) -> qid < next_qid s ->
  u < next_uid (fst (step cfg fx s l)) /\ ~ In u (all_cur (fst (step cfg fx s l))) /\ qid < next_qid (fst (step cfg fx s l)).
Proof.
  intros Hci H A B C. destruct (is_restart l) eqn:Er.
  - destruct l; try discriminate. cbn [step]. unfold restart. cbn [fst next_uid next_qid]. split; [exact A|]. split; [intros []|exact C].
  - destruct (growth_step cfg fx s l Er Hci H) as [G0 G]. pose proof (gr_uid _ _ G0). pose proof (gs_qid _ _ G). split; [lia|]. split; [|lia].
    intros Hx. apply (gr_cur _ _ G0) in Hx. destruct Hx; [contradiction|lia].
Qed.

(* a message that the object held and holds no more (the form of BrokerHolder.settled_never_again, now across graceful restarts) *)
Corollary settled_never_again_graceful_all cfg fx ls0 ls1 ls2 qid u :
  Fixed fx -> graceful (ls0 ++ ls1 ++ ls2) = true ->
  let s0 := fst (run cfg fx (init cfg) ls0) in
  let s1 := fst (run cfg fx s0 ls1) in
  In u (held s0 qid) -> ~ In u (held s1 qid) -> ~ In u (held (fst (run cfg fx s1 ls2)) qid).
Proof.
  intros F Hg s0 s1 Hin Hout. pose proof Hg as Hg'. unfold graceful in Hg'. rewrite graceful_app in Hg'. apply andb_prop in Hg'. destruct Hg' as [Hg0 Hg12].
  rewrite graceful_app in Hg12. apply andb_prop in Hg12. destruct Hg12 as [Hg1 Hg2].
  destruct (RI_run cfg fx ls0 false (init cfg) F Hg0 (fun E => ltac:(discriminate E)) (RI_init cfg)) as [R0 Hp0]. fold s0 in R0, Hp0.
  assert (Al : forall ls prev s, graceful_from prev ls = true -> (prev = true -> st_add s = [] /\ st_del s = []) -> RI s ->
                 u < next_uid s -> ~ In u (all_cur s) -> qid < next_qid s ->
                 u < next_uid (fst (run cfg fx s ls)) /\ ~ In u (all_cur (fst (run cfg fx s ls))) /\ qid < next_qid (fst (run cfg fx s ls))).
  { induction ls as [|l t IH]; intros prev s Hgr Hp R A B C; cbn [run]; [auto|].
    cbn [graceful_from] in Hgr. apply andb_prop in Hgr. destruct Hgr as [Hl Hgr].
    assert (Hr : is_restart l = true -> st_add s = [] /\ st_del s = []) by (intros E; rewrite E in Hl; auto).
    pose proof (RI_step cfg fx s l F Hr R) as R1. destruct R as (Iv & K & Q).
    destruct (alloc_step cfg fx s l u qid (proj2 Iv) (ki_hi _ K) A B C) as (A1 & B1 & C1).
    assert (P1 : is_tick l = true -> st_add (fst (step cfg fx s l)) = [] /\ st_del (fst (step cfg fx s l)) = []).
    { intros Et. destruct l; try discriminate. apply tick_nothing_pending. }
    destruct (step cfg fx s l) as [sx ex]. cbn [fst] in *. specialize (IH (is_tick l) sx Hgr P1 R1 A1 B1 C1).
    destruct (run cfg fx sx t) as [sy ey]. exact IH. }
  destruct R0 as (Iv0 & K0 & Q0).
  destruct (Al ls1 (last_tick false ls0) s0 Hg1 Hp0 (conj Iv0 (conj K0 Q0))) as (A1 & B1 & C1).
  - apply (hi_held_lt _ (ki_hi _ K0) qid u Hin).
  - intros Hx. exact (hi_cur_fresh _ (ki_hi _ K0) u qid Hx Hin).
  - apply (hi_held_qid _ (ki_hi _ K0) qid u Hin).
  - fold s1 in A1, B1, C1.
    assert (E : fst (run cfg fx s1 ls2) = fst (run cfg fx (fst (run cfg fx (init cfg) (ls0 ++ ls1))) ls2)) by (rewrite run_app; reflexivity).
    rewrite E. apply (settled_is_never_held_again cfg fx (ls0 ++ ls1) ls2 qid u F); [rewrite <- app_assoc; exact Hg| | | |]; rewrite run_app; assumption.
Qed.

Lemma Fixed_all_fixed : Fixed all_fixed.
Proof. constructor; reflexivity. Qed.

(* non-vacuity: two persistent and one transient message in a durable queue, one transient in a transient queue; a multiple ack, a
   nack without requeue, a no-ack get; two graceful restarts with traffic in between - nothing settled comes back, what was not
   settled (message 4, waiting in the durable queue; it is transient, so the restart loses it) is not resurrected either *)
Example settled_example :
  let pub q pers := [LMethod 1 1 (MPublish "" q false false); LHeader 1 1 9 2 pers; LBody 1 1 2] in
  let ls1 := [LConnect 1; LMethod 1 1 MChannelOpen; LMethod 1 1 (MQDeclare "d" true false false false false);
              LMethod 1 1 (MQDeclare "t" false false false false false)] ++
             pub "d"%string true ++ pub "d"%string true ++ pub "t"%string false ++ pub "d"%string false ++
             [LMethod 1 1 (MGet "d" false); LMethod 1 1 (MGet "d" false); LMethod 1 1 (MAck 2 true);
              LMethod 1 1 (MGet "t" false); LMethod 1 1 (MNack 3 false false)] in
  let ls2 := [LPersistTick; LRestart; LConnect 2; LMethod 2 1 MChannelOpen; LMethod 2 1 (MGet "d" true); LPersistTick; LRestart] in
  let s1 := fst (run ex_cfg all_fixed (init ex_cfg) ls1) in
  graceful (ls1 ++ ls2) = true /\ held s1 1 = [4] /\ held s1 2 = [] /\
  held (fst (run ex_cfg all_fixed s1 ls2)) 1 = [] /\ held (fst (run ex_cfg all_fixed s1 ls2)) 2 = [].
Proof. vm_compute. repeat split; reflexivity. Qed.
