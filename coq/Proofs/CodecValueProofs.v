(* Round trip of field-table values, arrays and tables, generic in the tag tables. *)
From Coq Require Import List Arith NArith Bool Lia ZifyN ZifyNat ZifyBool.
Import ListNotations.
From GMQ Require Import Base.Bytes Codec.Desc Codec.Prim Codec.Value Proofs.CodecPrimProofs.
Open Scope N_scope.

Lemma gotype_eqb_eq : forall a b, gotype_eqb a b = true -> a = b.
Proof. destruct a, b; cbn; intros H; try reflexivity; discriminate. Qed.
Lemma gotype_eqb_refl : forall a, gotype_eqb a a = true.
Proof. destruct a; reflexivity. Qed.
Lemma dialect_eqb_eq : forall a b, dialect_eqb a b = true -> a = b.
Proof. destruct a, b; cbn; intros H; try reflexivity; discriminate. Qed.
Lemma wire_eqb_eq : forall a b, wire_eqb a b = true -> a = b.
Proof.
  destruct a, b; cbn; intros H; try reflexivity; try discriminate.
  - apply Nat.eqb_eq in H. congruence.
  - apply dialect_eqb_eq in H. congruence.
  - apply dialect_eqb_eq in H. congruence.
Qed.

(* induction over values with the nested lists *)
Section FvalInd.
  Variable P : fval -> Prop.
  Hypothesis HNum : forall t n, P (VNum t n).
  Hypothesis HDec : forall s x, P (VDec s x).
  Hypothesis HStr : forall t s, P (VStr t s).
  Hypothesis HArr : forall l, Forall P l -> P (VArr l).
  Hypothesis HTab : forall t kv, Forall (fun e => P (snd e)) kv -> P (VTab t kv).
  Hypothesis HNil : P VNil.
  Fixpoint fval_ind' (v : fval) : P v :=
    match v with
    | VNum t n => HNum t n
    | VDec s x => HDec s x
    | VStr t s => HStr t s
    | VArr l =>
      HArr l ((fix go (l : list fval) : Forall P l :=
                 match l with
                 | [] => Forall_nil _
                 | x :: t => Forall_cons _ (fval_ind' x) (go t)
                 end) l)
    | VTab t kv =>
      HTab t kv ((fix go (l : list (bytes * fval)) : Forall (fun e => P (snd e)) l :=
                    match l with
                    | [] => Forall_nil _
                    | e :: t => Forall_cons e (match e return P (snd e) with (k, x) => fval_ind' x end) (go t)
                    end) kv)
    | VNil => HNil
    end.
End FvalInd.

(* ---------- tnorm is the identity on tables without duplicate keys ---------- *)
Lemma filter_all : forall (acc : table) k,
  (forall e, In e acc -> bytes_eqb (fst e) k = false) ->
  filter (fun e => negb (bytes_eqb (fst e) k)) acc = acc.
Proof.
  induction acc as [|a acc IH]; intros k H; cbn [filter]; [reflexivity|].
  rewrite (H a) by (left; reflexivity). cbn [negb]. f_equal. apply IH. intros e He. apply H. right. exact He.
Qed.

Lemma tnorm_acc : forall (kv acc : table),
  keys_nodup (map fst kv) = true ->
  (forall e, In e acc -> existsb (bytes_eqb (fst e)) (map fst kv) = false) ->
  fold_left (fun a e => tset a (fst e) (snd e)) kv acc = acc ++ kv.
Proof.
  induction kv as [|[k v] kv IH]; intros acc Hnd Hdis; cbn [fold_left].
  - rewrite app_nil_r. reflexivity.
  - cbn [map fst snd keys_nodup] in *. apply andb_true_iff in Hnd. destruct Hnd as [Hk Hnd].
    apply negb_true_iff in Hk.
    assert (E : tset acc k v = acc ++ [(k, v)]).
    { unfold tset. rewrite filter_all; [reflexivity|].
      intros e He. specialize (Hdis e He). cbn [existsb] in Hdis. apply orb_false_iff in Hdis. apply Hdis. }
    rewrite E. rewrite IH; [rewrite <- app_assoc; reflexivity | exact Hnd |].
    intros e He. apply in_app_or in He. destruct He as [He|[He|[]]].
    + specialize (Hdis e He). cbn [existsb] in Hdis. apply orb_false_iff in Hdis. apply Hdis.
    + subst e. cbn [fst]. exact Hk.
Qed.

Lemma tnorm_nodup : forall kv, keys_nodup (map fst kv) = true -> tnorm kv = kv.
Proof. intros kv H. unfold tnorm. rewrite tnorm_acc; [reflexivity | exact H | intros e []]. Qed.

Ltac some_inj H :=
  match type of H with
  | Some ?a = Some ?p => let E := fresh in assert (E : p = a) by congruence; subst p; clear H
  end.

Section RoundTrip.
  Variable st : alloc_style.
  Variable rd : dialect -> list reader_row.
  Variable wr : dialect -> list writer_row.

  Definition wf_shape (d : dialect) (w : wire) (v : fval) : bool :=
    match w, v with
    | WNothing, VNil => true
    | WBoolOctet, VNum _ n => n <? 2
    | WFixed k, VNum _ n => width_ok k n
    | WDecimal, VDec s x => width_ok 1 s && width_ok 4 x
    | WShortstr, VStr _ s => blen s <? 256
    | WLongstr, VStr _ s => blen s <? 2 ^ 32
    | WTimestamp, VNum _ n => width_ok 8 n
    | WArray d', VArr l =>
      forallb (wf_value rd wr d') l &&
      match enc_arr_body wr d' l with Some b => blen b <? 2 ^ 32 | None => false end
    | WTable d', VTab _ kv =>
      forallb (fun e => (blen (fst e) <? 256) && wf_value rd wr d' (snd e)) kv &&
      keys_nodup (map fst kv) &&
      match enc_titems wr d' kv with Some b => blen b <? 2 ^ 32 | None => false end
    | _, _ => false
    end.

  Lemma wf_value_eq : forall d v,
    wf_value rd wr d v =
    match lookup_writer (wr d) (type_of v) with
    | None => false
    | Some w =>
      match lookup_reader (rd d) (wr_tag w) with
      | None => false
      | Some r =>
        gotype_eqb (rr_type r) (type_of v) && wire_eqb (rr_wire r) (wr_wire w) &&
        negb (rr_inverted r) && negb (wr_inverted w) && wf_shape d (wr_wire w) v
      end
    end.
  Proof. intros d v. destruct v; reflexivity. Qed.

  Definition enc_payload (w : wire) (v : fval) : option bytes :=
    match w, v with
    | WNothing, _ => Some []
    | WBoolOctet, VNum _ n => Some [if n =? 0 then 0 else 1]
    | WFixed k, VNum _ n => Some (be_enc k n)
    | WDecimal, VDec s x => Some (be_enc 1 s ++ be_enc 4 x)
    | WShortstr, VStr _ s => Some (enc_shortstr s)
    | WLongstr, VStr _ s => Some (enc_longstr s)
    | WTimestamp, VNum _ n => Some (enc_timestamp n)
    | WArray d', VArr l => body <-? enc_arr_body wr d' l ;; Some (enc_longstr body)
    | WTable d', VTab _ kv => body <-? enc_titems wr d' kv ;; Some (enc_longstr body)
    | _, _ => None
    end.

  Lemma enc_value_eq : forall d v,
    enc_value wr d v =
    match lookup_writer (wr d) (type_of v) with
    | None => None
    | Some row =>
      if wr_inverted row then Some [wr_tag row]
      else payload <-? enc_payload (wr_wire row) v ;; Some (wr_tag row :: payload)
    end.
  Proof. intros d v. destruct v; reflexivity. Qed.

  Lemma wf_value_inv : forall d v, wf_value rd wr d v = true ->
    exists w r, lookup_writer (wr d) (type_of v) = Some w /\ lookup_reader (rd d) (wr_tag w) = Some r /\
                rr_type r = type_of v /\ rr_wire r = wr_wire w /\ rr_inverted r = false /\ wr_inverted w = false /\
                wf_shape d (wr_wire w) v = true.
  Proof.
    intros d v H. rewrite wf_value_eq in H.
    destruct (lookup_writer (wr d) (type_of v)) as [w|] eqn:Ew; [|discriminate].
    destruct (lookup_reader (rd d) (wr_tag w)) as [r|] eqn:Er; [|discriminate].
    apply andb_true_iff in H. destruct H as [H Hs].
    apply andb_true_iff in H. destruct H as [H Hwi].
    apply andb_true_iff in H. destruct H as [H Hri].
    apply andb_true_iff in H. destruct H as [Hty Hwire].
    exists w, r.
    split; [reflexivity|]. split; [exact Er|].
    split; [apply gotype_eqb_eq; exact Hty|].
    split; [apply wire_eqb_eq; exact Hwire|].
    split; [apply negb_true_iff; exact Hri|].
    split; [apply negb_true_iff; exact Hwi|exact Hs].
  Qed.

  (* every encoding starts with its tag *)
  Lemma enc_value_nonempty : forall d v b, enc_value wr d v = Some b -> exists t b', b = t :: b'.
  Proof.
    intros d v b H. rewrite enc_value_eq in H.
    destruct (lookup_writer (wr d) (type_of v)) as [w|]; [|discriminate].
    destruct (wr_inverted w).
    - inversion H. eauto.
    - destruct (enc_payload (wr_wire w) v); cbn [obind] in H; [|discriminate]. inversion H. eauto.
  Qed.

  Lemma dec_value_S : forall f d bs,
    dec_value st rd (S f) d bs =
    (x <- dec_octet bs ;;
     match lookup_reader (rd d) (fst x) with
     | None => Err
     | Some row =>
       let t := rr_type row in
       let r := snd x in
       let res : result (fval * bytes) :=
         match rr_wire row with
         | WNothing => Ok (VNil, r)
         | WBoolOctet => y <- dec_octet r ;; Ok (VNum t (if fst y =? 0 then 0 else 1), snd y)
         | WFixed k => y <- dec_fixed k r ;; Ok (VNum t (fst y), snd y)
         | WDecimal => s <- dec_fixed 1 r ;; y <- dec_fixed 4 (snd s) ;; Ok (VDec (fst s) (fst y), snd y)
         | WShortstr => y <- dec_shortstr r ;; Ok (VStr t (fst y), snd y)
         | WLongstr => y <- dec_longstr st r ;; Ok (VStr t (fst y), snd y)
         | WTimestamp => y <- dec_timestamp r ;; Ok (VNum t (fst y), snd y)
         | WArray d' => y <- dec_longstr st r ;; l <- dec_arr st rd f d' (fst y) ;; Ok (VArr l, snd y)
         | WTable d' => y <- dec_longstr st r ;; raw <- dec_titems st rd f d' (fst y) ;; Ok (VTab t (tnorm raw), snd y)
         end in
       if rr_inverted row then
         match res with
         | Ok (_, r') => Ok (VNil, r')
         | Err => Ok (zero_of t (rr_wire row), rest_after_failure st (rr_wire row) r)
         | other => other
         end
       else res
     end).
  Proof. reflexivity. Qed.

  Lemma dec_arr_S : forall f d data,
    dec_arr st rd (S f) d data =
    match data with
    | [] => Ok []
    | _ => x <- dec_value st rd f d data ;; l <- dec_arr st rd f d (snd x) ;; Ok (fst x :: l)
    end.
  Proof. reflexivity. Qed.

  Lemma dec_titems_S : forall f d data,
    dec_titems st rd (S f) d data =
    match data with
    | [] => Ok []
    | _ => k <- dec_shortstr data ;; x <- dec_value st rd f d (snd k) ;; l <- dec_titems st rd f d (snd x) ;;
           Ok ((fst k, fst x) :: l)
    end.
  Proof. reflexivity. Qed.

  Definition RT (v : fval) : Prop :=
    forall d b, wf_value rd wr d v = true -> enc_value wr d v = Some b ->
    forall f rest, (length b <= f)%nat -> dec_value st rd f d (b ++ rest) = Ok (v, rest).

  Lemma arr_rt : forall d l, Forall RT l -> forallb (wf_value rd wr d) l = true ->
    forall body, enc_arr_body wr d l = Some body ->
    forall f, (length body + 1 <= f)%nat -> dec_arr st rd f d body = Ok l.
  Proof.
    intros d l HF. induction HF as [|x l Hx HF IH]; intros Hwf body Henc f Hf.
    - unfold enc_arr_body in Henc. cbn in Henc. inversion Henc; subst.
      destruct f as [|f]; [cbn in Hf; lia|]. rewrite dec_arr_S. reflexivity.
    - cbn [forallb] in Hwf. apply andb_true_iff in Hwf. destruct Hwf as [Hwx Hwl].
      unfold enc_arr_body in Henc. cbn [map concat_opt] in Henc.
      destruct (enc_value wr d x) as [a|] eqn:Ea; cbn [obind] in Henc; [|discriminate].
      fold (enc_arr_body wr d l) in Henc.
      destruct (enc_arr_body wr d l) as [b'|] eqn:Eb; cbn [obind] in Henc; [|discriminate].
      inversion Henc; subst body. clear Henc.
      destruct (enc_value_nonempty _ _ _ Ea) as [t [a' Ha]].
      destruct f as [|f]; [cbn in Hf; lia|]. rewrite dec_arr_S.
      rewrite app_length in Hf.
      assert (La : (1 <= length a)%nat) by (subst a; cbn [length]; lia).
      replace (a ++ b') with ((t :: a') ++ b') by (subst a; reflexivity). cbn [app].
      replace (t :: a' ++ b') with (a ++ b') by (subst a; reflexivity).
      rewrite (Hx d a Hwx Ea f b') by lia. cbn [bind fst snd].
      rewrite (IH Hwl b' eq_refl f) by lia. reflexivity.
  Qed.

  Lemma titems_rt : forall d kv, Forall (fun e => RT (snd e)) kv ->
    forallb (fun e => (blen (fst e) <? 256) && wf_value rd wr d (snd e)) kv = true ->
    forall body, enc_titems wr d kv = Some body ->
    forall f, (length body + 1 <= f)%nat -> dec_titems st rd f d body = Ok kv.
  Proof.
    intros d kv HF. induction HF as [|[k x] kv Hx HF IH]; intros Hwf body Henc f Hf.
    - unfold enc_titems in Henc. cbn in Henc. inversion Henc; subst.
      destruct f as [|f]; [cbn in Hf; lia|]. rewrite dec_titems_S. reflexivity.
    - cbn [forallb fst snd] in Hwf. apply andb_true_iff in Hwf. destruct Hwf as [Hwx Hwl].
      apply andb_true_iff in Hwx. destruct Hwx as [Hk Hwx]. apply N.ltb_lt in Hk.
      unfold enc_titems in Henc. cbn [map concat_opt] in Henc. unfold enc_entry at 1 in Henc. cbn [fst snd] in Henc, Hx.
      destruct (enc_value wr d x) as [a|] eqn:Ea; cbn [obind] in Henc; [|discriminate].
      fold (enc_titems wr d kv) in Henc.
      destruct (enc_titems wr d kv) as [b'|] eqn:Eb; cbn [obind] in Henc; [|discriminate].
      inversion Henc; subst body. clear Henc.
      destruct f as [|f]; [cbn in Hf; lia|]. rewrite dec_titems_S.
      replace (blen k mod 256 :: (k ++ a) ++ b') with (enc_shortstr k ++ (a ++ b'))
        by (unfold enc_shortstr; cbn [app]; rewrite <- app_assoc; reflexivity).
      rewrite dec_shortstr_enc by exact Hk. cbn [bind fst snd].
      cbn [length] in Hf. repeat rewrite app_length in Hf.
      destruct (enc_value_nonempty _ _ _ Ea) as [t [a' Ha]].
      assert (La : (1 <= length a)%nat) by (subst a; cbn [length]; lia).
      rewrite (Hx d a Hwx Ea f b') by lia. cbn [bind fst snd].
      rewrite (IH Hwl b' eq_refl f) by lia. reflexivity.
  Qed.

  Lemma width_ok_lt : forall k n, width_ok k n = true -> n < 2 ^ (8 * N.of_nat k).
  Proof. intros k n H. apply N.ltb_lt. exact H. Qed.

  Theorem value_roundtrip : forall v, RT v.
  Proof.
    induction v using fval_ind'; intros d b Hwf Henc f rest Hf;
      destruct (wf_value_inv _ _ Hwf) as [w [r [Hw [Hr [Hty [Hwire [Hri [Hwi Hshape]]]]]]]];
      rewrite enc_value_eq, Hw, Hwi in Henc;
      (destruct (enc_payload (wr_wire w) _) as [p|] eqn:Ep; cbn [obind] in Henc; [|discriminate]);
      inversion Henc; subst b; clear Henc;
      (destruct f as [|f]; [cbn [length] in Hf; lia|]);
      cbn [app]; rewrite dec_value_S, dec_octet_cons; cbn [bind fst snd]; rewrite Hr, Hri, Hwire, Hty;
      cbn [type_of]; cbn [length] in Hf;
      destruct (wr_wire w) eqn:Ew; cbn [wf_shape enc_payload] in Hshape, Ep; try discriminate.
    - (* VNum / WBoolOctet *)
      some_inj Ep. apply N.ltb_lt in Hshape. cbn [app]. rewrite dec_octet_cons. cbn [bind fst snd].
      do 3 f_equal. assert (n = 0 \/ n = 1) as [E|E] by lia; subst n; reflexivity.
    - (* VNum / WFixed *)
      some_inj Ep. rewrite dec_fixed_enc by (apply width_ok_lt; exact Hshape). reflexivity.
    - (* VNum / WTimestamp *)
      some_inj Ep. unfold dec_timestamp, enc_timestamp.
      rewrite dec_fixed_enc by (apply width_ok_lt; exact Hshape). reflexivity.
    - (* VDec *)
      some_inj Ep. apply andb_true_iff in Hshape. destruct Hshape as [H1 H4].
      rewrite <- app_assoc. rewrite dec_fixed_enc by (apply width_ok_lt; exact H1). cbn [bind fst snd].
      rewrite dec_fixed_enc by (apply width_ok_lt; exact H4). reflexivity.
    - (* VStr / WShortstr *)
      some_inj Ep. apply N.ltb_lt in Hshape. rewrite dec_shortstr_enc by exact Hshape. reflexivity.
    - (* VStr / WLongstr *)
      some_inj Ep. apply N.ltb_lt in Hshape. rewrite dec_longstr_enc by exact Hshape. reflexivity.
    - (* VArr *)
      apply andb_true_iff in Hshape. destruct Hshape as [Hall Hlen].
      destruct (enc_arr_body wr d0 l) as [body|] eqn:Eb; [|discriminate]. cbn [obind] in Ep.
      some_inj Ep. apply N.ltb_lt in Hlen.
      rewrite dec_longstr_enc by exact Hlen. cbn [bind fst snd].
      unfold enc_longstr in Hf. rewrite app_length, length_be_enc in Hf.
      rewrite (arr_rt d0 l H Hall body Eb f) by lia. reflexivity.
    - (* VTab *)
      apply andb_true_iff in Hshape. destruct Hshape as [Hshape Hlen].
      apply andb_true_iff in Hshape. destruct Hshape as [Hall Hnd].
      destruct (enc_titems wr d0 kv) as [body|] eqn:Eb; [|discriminate]. cbn [obind] in Ep.
      some_inj Ep. apply N.ltb_lt in Hlen.
      rewrite dec_longstr_enc by exact Hlen. cbn [bind fst snd].
      unfold enc_longstr in Hf. rewrite app_length, length_be_enc in Hf.
      rewrite (titems_rt d0 kv H Hall body Eb f) by lia. cbn [bind].
      rewrite tnorm_nodup by exact Hnd. reflexivity.
    - (* VNil *)
      some_inj Ep. reflexivity.
  Qed.

  (* tables as method arguments, header properties and binding arguments *)
  Theorem table_roundtrip : forall d kv b rest,
    wf_table rd wr d kv = true -> enc_table wr d kv = Some b ->
    dec_table st rd d (b ++ rest) = Ok (kv, rest).
  Proof.
    intros d kv b rest Hwf Henc. unfold wf_table in Hwf.
    apply andb_true_iff in Hwf. destruct Hwf as [Hwf Hlen].
    apply andb_true_iff in Hwf. destruct Hwf as [Hall Hnd].
    unfold enc_table in Henc.
    destruct (enc_titems wr d kv) as [body|] eqn:Eb; [|discriminate]. cbn [obind] in Henc. inversion Henc; subst b.
    apply N.ltb_lt in Hlen.
    unfold dec_table, dec_table_fuel. rewrite dec_longstr_enc by exact Hlen. cbn [bind fst snd].
    rewrite (titems_rt d kv) with (body := body); try assumption.
    - cbn [bind]. rewrite tnorm_nodup by exact Hnd. reflexivity.
    - apply Forall_forall. intros e _. apply value_roundtrip.
    - unfold enc_longstr. repeat rewrite app_length. rewrite length_be_enc. lia.
  Qed.
End RoundTrip.
