(* Pure list reasoning about views (Proofs/BrokerConserveView.v): the invariant of a view, and what the view
   operations do to the messages a queue object holds. *)
From Coq Require Import List String NArith ZArith Bool Lia ZifyBool ZifyN Permutation.
From RecordUpdate Require Import RecordUpdate.
Import ListNotations.
From GMQ Require Import Broker.Model Proofs.BrokerFrames Proofs.BrokerTags Proofs.BrokerChanInv Proofs.BrokerQueueInv
  Proofs.BrokerReady Proofs.BrokerHeld Proofs.BrokerConserveView.
Open Scope N_scope.

(* ------------------------------------------------------------------ *)
(* permutation helpers *)
Lemma perm_filter_split {A} (p : A -> bool) (l : list A) : Permutation l (filter p l ++ filter (fun x => negb (p x)) l).
Proof.
  induction l as [|a t IH]; cbn; auto. destruct (p a); cbn.
  - constructor. exact IH.
  - apply Permutation_cons_app. exact IH.
Qed.
Lemma perm_map_filter {A B} (f : A -> B) (p : A -> bool) l l' : Permutation l l' -> Permutation (map f (filter p l)) (map f (filter p l')).
Proof.
  intros H. apply Permutation_map. induction H; cbn; auto.
  - destruct (p x); auto.
  - destruct (p x), (p y); auto. constructor.
  - etransitivity; eauto.
Qed.
Lemma msgs_from_perm qid l l' : Permutation l l' -> Permutation (msgs_from qid l) (msgs_from qid l').
Proof. apply perm_map_filter. Qed.
Lemma msgs_from_nil qid : msgs_from qid [] = [].
Proof. reflexivity. Qed.
Lemma msgs_from_cons qid u l : msgs_from qid (u :: l) = (if from qid u then [u_msg u] else []) ++ msgs_from qid l.
Proof. unfold msgs_from. cbn. destruct (from qid u); reflexivity. Qed.
Lemma msgs_from_filter_split qid (p : unacked -> bool) l :
  Permutation (msgs_from qid l) (msgs_from qid (filter p l) ++ msgs_from qid (filter (fun x => negb (p x)) l)).
Proof. rewrite <- msgs_from_app. apply msgs_from_perm. apply perm_filter_split. Qed.
Lemma msgs_from_orphan qid tag l : msgs_from qid (map (orphan tag) l) = msgs_from qid l.
Proof.
  unfold msgs_from, from. induction l as [|u t IH]; cbn; auto.
  destruct (orphan_fields tag u) as (_ & Em & Eq & _). rewrite Eq. destruct (u_qid u =? qid); cbn; rewrite ?Em, IH; reflexivity.
Qed.

Lemma insert_desc_perm u l : Permutation (insert_desc u l) (u :: l).
Proof.
  induction l as [|x t IH]; cbn; auto. destruct (u_tag x <? u_tag u); auto.
  etransitivity; [constructor; exact IH|]. constructor.
Qed.
Lemma sort_desc_permutation l : Permutation (sort_desc l) l.
Proof. induction l as [|a t IH]; cbn; auto. etransitivity; [apply insert_desc_perm|]. constructor. exact IH. Qed.

(* ------------------------------------------------------------------ *)
(* the invariant of a view *)
Definition opened (v : cview) (c : N) : bool :=
  match alookup N.eqb c v with Some (st, _) => cstage_eqb st StOpen | None => false end.
Definition qids (v : qview) : list N := map (fun e => p_id (snd e)) v.
Definition uq_ok (v : qview) (nq : N) (u : unacked) : Prop :=
  u_qid u < nq /\ forall n p, In (n, p) v -> p_id p = u_qid u -> n = u_queue u.

Record VInv (cw : cview) (qw : qview) (nq : N) : Prop := {
  vi_ckeys : NoDup (map fst cw);
  vi_hkeys : forall c st chs, In (c, (st, chs)) cw -> NoDup (map fst chs);
  vi_qkeys : NoDup (map fst qw);
  vi_qids : NoDup (qids qw);
  vi_qbound : forall n p, In (n, p) qw -> p_id p < nq;
  vi_uq : forall u, In u (au cw) -> uq_ok qw nq u;
  vi_quiet : forall c st chs, In (c, (st, chs)) cw -> st <> StOpen -> forall h x, In (h, x) chs -> h = 0;
  vi_owner : forall n p, In (n, p) qw -> p_excl p = true -> opened cw (p_owner p) = true;
  vi_cz : forall c st chs h b l, In (c, (st, chs)) cw -> In (h, (b, l)) chs -> h = 0 \/ fst b = true -> l = [] /\ snd b = false;
  vi_active : forall n p, In (n, p) qw -> p_active p = true
}.

(* ---- membership in au ---- *)
Lemma in_au (v : cview) u : In u (au v) <-> exists c st chs h b l, In (c, (st, chs)) v /\ In (h, (b, l)) chs /\ In u l.
Proof.
  unfold au. rewrite in_flat_map. split.
  - intros ([c [st chs]] & Hin & Hu). cbn in Hu. apply in_flat_map in Hu. destruct Hu as ([h [b l]] & Hh & Hl). cbn in Hl.
    exists c, st, chs, h, b, l. auto.
  - intros (c & st & chs & h & b & l & H1 & H2 & H3). exists (c, (st, chs)). split; auto. cbn. apply in_flat_map.
    exists (h, (b, l)). auto.
Qed.

Lemma cv_get_in v c h x : cv_get v c h = Some x -> exists st chs, In (c, (st, chs)) v /\ In (h, x) chs.
Proof.
  unfold cv_get. destruct (alookup N.eqb c v) as [[st chs]|] eqn:E; [|discriminate]. intros H.
  exists st, chs. split; eapply alookup_in; eauto; apply Neqb_spec.
Qed.
Lemma in_cv_get (v : cview) c st chs h x : NoDup (map fst v) -> NoDup (map fst chs) -> In (c, (st, chs)) v -> In (h, x) chs -> cv_get v c h = Some x.
Proof.
  intros H1 H2 H3 H4. unfold cv_get.
  assert (E : alookup N.eqb c v = Some (st, chs)) by (apply (nodup_in_alookup N.eqb Neqb_spec); auto).
  rewrite E. apply (nodup_in_alookup N.eqb Neqb_spec _ _ _ H2 H4).
Qed.

(* entries of a view after cv_set *)
Lemma in_cv_set c h x (v : cview) c' st' chs' :
  In (c', (st', chs')) (cv_set c h x v) ->
  In (c', (st', chs')) v \/ (c' = c /\ exists chs, alookup N.eqb c v = Some (st', chs) /\ chs' = aset N.eqb h x chs).
Proof.
  unfold cv_set. destruct (alookup N.eqb c v) as [[st chs]|] eqn:E; auto. intros H.
  apply in_aset in H. destruct H as [H|H]; auto. inversion H; subst. right. split; auto. exists chs. auto.
Qed.

Lemma keys_cv_set c h x v : map fst (cv_set c h x v) = map fst v.
Proof.
  unfold cv_set. destruct (alookup N.eqb c v) as [[st chs]|] eqn:E; auto. rewrite (keys_aset N.eqb Neqb_spec), E. reflexivity.
Qed.
Lemma opened_cv_set c h x v c' : opened (cv_set c h x v) c' = opened v c'.
Proof.
  unfold opened, cv_set. destruct (alookup N.eqb c v) as [[st chs]|] eqn:E; auto.
  rewrite (alookup_aset N.eqb Neqb_spec). destruct (c' =? c) eqn:E1; auto. apply N.eqb_eq in E1. subst. rewrite E. reflexivity.
Qed.

(* au after cv_set, as a set *)
Lemma in_au_cv_set c h b l (v : cview) u : NoDup (map fst v) -> (forall c st chs, In (c, (st, chs)) v -> NoDup (map fst chs)) ->
  In u (au (cv_set c h (b, l) v)) -> In u (au v) \/ In u l.
Proof.
  intros Hk Hh Hin. destruct (cv_get v c h) as [[b0 l0]|] eqn:Eg.
  - destruct (au_cv_set c h (b0, l0) (b, l) v Eg) as (A & B & E1 & E2). rewrite E2 in Hin. rewrite E1. cbn [snd] in *.
    rewrite !in_app_iff in *. tauto.
  - (* the channel is new *)
    apply in_au in Hin. destruct Hin as (c' & st' & chs' & h' & b' & l' & H1 & H2 & H3).
    apply in_cv_set in H1. destruct H1 as [H1|(-> & chs & Ec & ->)].
    + left. apply in_au. exists c', st', chs', h', b', l'. auto.
    + apply in_aset in H2. destruct H2 as [H2|H2]; [inversion H2; subst; auto|].
      left. apply in_au. exists c, st', chs, h', b', l'. split; auto. eapply alookup_in; eauto. apply Neqb_spec.
Qed.

(* ------------------------------------------------------------------ *)
(* view operations used by settlement *)
Definition cv_del (c h t : N) (v : cview) : cview :=
  match cv_get v c h with
  | Some (b, l) => cv_set c h (b, filter (fun x => negb (u_tag x =? t)) l) v
  | None => v
  end.

Lemma cv_get_some_conn (v : cview) c h x : cv_get v c h = Some x -> exists e, alookup N.eqb c v = Some e.
Proof. unfold cv_get. destruct (alookup N.eqb c v); [eauto|discriminate]. Qed.

Lemma cv_get_set_same c h x (v : cview) y : cv_get v c h = Some y -> cv_get (cv_set c h x v) c h = Some x.
Proof.
  intros H. rewrite cv_get_set. destruct (cv_get_some_conn _ _ _ _ H) as (e & ->). rewrite !N.eqb_refl. reflexivity.
Qed.

Lemma cv_del_fold c h sel : forall v b l, cv_get v c h = Some (b, l) ->
  fold_left (fun v u => cv_del c h (u_tag u) v) sel v = cv_set c h (b, keep_not (map u_tag sel) l) v.
Proof.
  induction sel as [|u t IH]; intros v b l Hg; cbn [fold_left map].
  - rewrite keep_not_nil. symmetry. apply cv_set_same. exact Hg.
  - replace (cv_del c h (u_tag u) v) with (cv_set c h (b, filter (fun x => negb (u_tag x =? u_tag u)) l) v)
      by (unfold cv_del; rewrite Hg; reflexivity).
    rewrite (IH _ b (filter (fun x => negb (u_tag x =? u_tag u)) l)) by (eapply cv_get_set_same; eauto).
    rewrite cv_set_set. rewrite keep_not_cons. reflexivity.
Qed.

Lemma cv_del_none c h t (v : cview) : cv_get v c h = None -> cv_del c h t v = v.
Proof. unfold cv_del. intros ->. reflexivity. Qed.

(* putting a delivery back *)
Definition origin_ok (v : qview) (u : unacked) : bool :=
  match alookup seqb (u_queue u) v with Some p => p_id p =? u_qid u | None => false end.
Definition rq (u : unacked) (v : qview) : qview :=
  match alookup seqb (u_queue u) v with
  | Some p => if p_id p =? u_qid u then aset seqb (u_queue u) (p_requeue (u_msg u) p) v else v
  | None => v
  end.

Definition qshape (v : qview) := map (fun e => (fst e, (p_id (snd e), p_excl (snd e), p_owner (snd e), p_active (snd e)))) v.

Lemma qshape_aset q p p0 (v : qview) : alookup seqb q v = Some p0 ->
  p_id p = p_id p0 -> p_excl p = p_excl p0 -> p_owner p = p_owner p0 -> p_active p = p_active p0 ->
  qshape (aset seqb q p v) = qshape v.
Proof.
  intros H E1 E2 E3 E4. destruct (aset_split seqb seqb_spec q p0 p v H) as (l1 & l2 & A & B & _).
  rewrite B. rewrite A at 1. unfold qshape. rewrite !map_app. cbn. rewrite E1, E2, E3, E4. reflexivity.
Qed.
Lemma qshape_qv_upd q f (v : qview) :
  (forall p, p_id (f p) = p_id p /\ p_excl (f p) = p_excl p /\ p_owner (f p) = p_owner p /\ p_active (f p) = p_active p) ->
  qshape (qv_upd q f v) = qshape v.
Proof.
  intros Hf. unfold qv_upd. destruct (alookup seqb q v) eqn:E; auto. destruct (Hf q0) as (A & B & C & D).
  eapply qshape_aset; eauto.
Qed.
Lemma p_requeue_shape u p : p_id (p_requeue u p) = p_id p /\ p_excl (p_requeue u p) = p_excl p /\ p_owner (p_requeue u p) = p_owner p /\ p_active (p_requeue u p) = p_active p.
Proof. unfold p_requeue. destruct (p_active p) eqn:E; cbn; auto. Qed.
Lemma p_push_shape u p : p_id (p_push u p) = p_id p /\ p_excl (p_push u p) = p_excl p /\ p_owner (p_push u p) = p_owner p /\ p_active (p_push u p) = p_active p.
Proof. unfold p_push. destruct (p_active p) eqn:E; cbn; auto. Qed.
Lemma p_set_ready_shape l p : p_id (p_set_ready l p) = p_id p /\ p_excl (p_set_ready l p) = p_excl p /\ p_owner (p_set_ready l p) = p_owner p /\ p_active (p_set_ready l p) = p_active p.
Proof. cbn. auto. Qed.

Lemma qshape_rq u (v : qview) : qshape (rq u v) = qshape v.
Proof.
  unfold rq. destruct (alookup seqb (u_queue u) v) eqn:E; auto. destruct (p_id q =? u_qid u); auto.
  destruct (p_requeue_shape (u_msg u) q) as (A & B & C & D). eapply qshape_aset; eauto.
Qed.

(* what depends on the shape only *)
Lemma qshape_in (v v' : qview) n p : qshape v' = qshape v -> In (n, p) v' ->
  exists p0, In (n, p0) v /\ p_id p0 = p_id p /\ p_excl p0 = p_excl p /\ p_owner p0 = p_owner p /\ p_active p0 = p_active p.
Proof.
  intros E Hin.
  assert (H : In (n, (p_id p, p_excl p, p_owner p, p_active p)) (qshape v)).
  { rewrite <- E. unfold qshape. apply in_map_iff. exists (n, p). auto. }
  unfold qshape in H. apply in_map_iff in H. destruct H as ([n0 p0] & Eq & Hin0). cbn in Eq. inversion Eq; subst.
  exists p0. auto.
Qed.
Lemma qshape_keys (v : qview) : map fst v = map fst (qshape v).
Proof. unfold qshape. rewrite map_map. reflexivity. Qed.
Lemma qshape_qids (v : qview) : qids v = map (fun e => fst (fst (fst (snd e)))) (qshape v).
Proof. unfold qshape, qids. rewrite map_map. reflexivity. Qed.
Lemma qshape_alookup (v v' : qview) q : qshape v' = qshape v ->
  option_map (fun p => (p_id p, p_excl p, p_owner p, p_active p)) (alookup seqb q v') =
  option_map (fun p => (p_id p, p_excl p, p_owner p, p_active p)) (alookup seqb q v).
Proof.
  revert v'. induction v as [|[k p] t IH]; intros [|[k' p'] t'] E; cbn in *; try discriminate; auto.
  inversion E; subst. destruct (seqb q k); cbn; [congruence|]. apply IH. auto.
Qed.
Lemma origin_ok_shape (v v' : qview) u : qshape v' = qshape v -> origin_ok v' u = origin_ok v u.
Proof.
  intros E. unfold origin_ok. pose proof (qshape_alookup v v' (u_queue u) E) as H.
  destruct (alookup seqb (u_queue u) v'), (alookup seqb (u_queue u) v); cbn in H; try discriminate; auto. inversion H. congruence.
Qed.
Lemma alive_shape (v v' : qview) qid : qshape v' = qshape v -> alive v' qid = alive v qid.
Proof.
  revert v'. induction v as [|[k p] t IH]; intros [|[k' p'] t'] E; cbn in *; try discriminate; auto.
  inversion E; subst. match goal with H : p_id _ = p_id _ |- _ => rewrite H end. f_equal. apply IH. auto.
Qed.

Lemma VInv_qshape cw (qw qw' : qview) nq : qshape qw' = qshape qw -> VInv cw qw nq -> VInv cw qw' nq.
Proof.
  intros E [A1 A2 A3 A4 A5 A6 A7 A8 A9 A10]. constructor; auto.
  - rewrite qshape_keys, E, <- qshape_keys. exact A3.
  - rewrite qshape_qids, E, <- qshape_qids. exact A4.
  - intros n p Hin. destruct (qshape_in _ _ _ _ E Hin) as (p0 & H0 & I & _). rewrite <- I. eauto.
  - intros u Hu. destruct (A6 u Hu) as [B1 B2]. split; auto. intros n p Hin Hid.
    destruct (qshape_in _ _ _ _ E Hin) as (p0 & H0 & I & _). apply (B2 n p0); auto. congruence.
  - intros n p Hin He. destruct (qshape_in _ _ _ _ E Hin) as (p0 & H0 & _ & I2 & I3 & _). rewrite <- I3. apply (A8 n p0); auto. congruence.
  - intros n p Hin. destruct (qshape_in _ _ _ _ E Hin) as (p0 & H0 & _ & _ & _ & I4). rewrite <- I4. eauto.
Qed.

(* ready lists after putting deliveries back *)
Lemma rdy_rq u (v : qview) qid : (forall n p, In (n, p) v -> p_active p = true) ->
  Permutation (rdy (rq u v) qid) ((if origin_ok v u && from qid u then [u_msg u] else []) ++ rdy v qid).
Proof.
  intros Hact. unfold rq, origin_ok. destruct (alookup seqb (u_queue u) v) as [p|] eqn:E; cbn [andb]; auto.
  destruct (p_id p =? u_qid u) eqn:Ei; cbn [andb]; auto.
  destruct (rdy_aset (u_queue u) p (p_requeue (u_msg u) p) v qid E) as (A & B & E1 & E2). rewrite E1, E2.
  assert (Ha : p_active p = true) by (eapply Hact; eapply alookup_in; eauto; apply seqb_spec).
  unfold qcontrib, p_requeue, from. rewrite Ha. cbn. apply N.eqb_eq in Ei. rewrite Ei.
  destruct (u_qid u =? qid); cbn; auto. symmetry. apply Permutation_middle.
Qed.

Lemma active_shape (v v' : qview) : qshape v' = qshape v ->
  (forall n p, In (n, p) v -> p_active p = true) -> (forall n p, In (n, p) v' -> p_active p = true).
Proof. intros E H n p Hin. destruct (qshape_in _ _ _ _ E Hin) as (p0 & H0 & _ & _ & _ & I4). rewrite <- I4. eauto. Qed.

Lemma qshape_rq_fold sel : forall v : qview, qshape (fold_left (fun v u => rq u v) sel v) = qshape v.
Proof. induction sel as [|u t IH]; intros v; cbn; auto. rewrite IH. apply qshape_rq. Qed.

Lemma rdy_rq_fold sel qid : forall v : qview, (forall n p, In (n, p) v -> p_active p = true) ->
  Permutation (rdy (fold_left (fun v u => rq u v) sel v) qid) (msgs_from qid (filter (origin_ok v) sel) ++ rdy v qid).
Proof.
  induction sel as [|u t IH]; intros v Hact; cbn [fold_left filter]; auto.
  rewrite (IH (rq u v)) by (eapply active_shape; [apply qshape_rq|exact Hact]).
  rewrite (filter_ext (origin_ok (rq u v)) (origin_ok v)) by (intros; apply origin_ok_shape; apply qshape_rq).
  rewrite (rdy_rq u v qid Hact). destruct (origin_ok v u); cbn [andb].
  - rewrite msgs_from_cons. rewrite <- !app_assoc. apply Permutation_app_swap_app.
  - cbn. reflexivity.
Qed.

(* ------------------------------------------------------------------ *)
(* the invariant under an update of one existing channel *)
Lemma cv_get_key (v : cview) c h x : cv_get v c h = Some x ->
  exists st chs, alookup N.eqb c v = Some (st, chs) /\ alookup N.eqb h chs = Some x.
Proof. unfold cv_get. destruct (alookup N.eqb c v) as [[st chs]|]; [|discriminate]. eauto. Qed.

Lemma VInv_cv_set cw qw nq c h b0 l0 b l :
  VInv cw qw nq -> cv_get cw c h = Some (b0, l0) ->
  (forall u, In u l -> uq_ok qw nq u) -> (h = 0 \/ fst b = true -> l = [] /\ snd b = false) ->
  VInv (cv_set c h (b, l) cw) qw nq.
Proof.
  intros [A1 A2 A3 A4 A5 A6 A7 A8 A9 A10] Hg Hu H0.
  destruct (cv_get_key _ _ _ _ Hg) as (st & chs & Ec & Eh).
  assert (Hin : In (c, (st, chs)) cw) by (eapply alookup_in; eauto; apply Neqb_spec).
  assert (Hinh : In (h, (b0, l0)) chs) by (eapply alookup_in; eauto; apply Neqb_spec).
  assert (Hnew : forall c' st' chs', In (c', (st', chs')) (cv_set c h (b, l) cw) ->
            In (c', (st', chs')) cw \/ (c' = c /\ st' = st /\ chs' = aset N.eqb h (b, l) chs)).
  { intros c' st' chs' H. apply in_cv_set in H. destruct H as [H|(-> & chs0 & E0 & ->)]; auto.
    right. rewrite Ec in E0. inversion E0; subst. auto. }
  constructor; auto.
  - rewrite keys_cv_set. exact A1.
  - intros c' st' chs' H. apply Hnew in H. destruct H as [H|(-> & -> & ->)]; eauto.
    rewrite (keys_aset N.eqb Neqb_spec), Eh. eauto.
  - intros u Hin'. apply in_au_cv_set in Hin'; auto. destruct Hin'; auto.
  - intros c' st' chs' H Hst h' x' Hx. apply Hnew in H. destruct H as [H|(-> & -> & ->)]; eauto.
    apply in_aset in Hx. destruct Hx as [Hx|Hx]; [inversion Hx; subst|]; eauto.
  - intros n p Hp He. rewrite opened_cv_set. eauto.
  - intros c' st' chs' h' b' l' H Hx. apply Hnew in H. destruct H as [H|(-> & -> & ->)]; eauto.
    apply in_aset in Hx. destruct Hx as [Hx|Hx]; [inversion Hx; subst; auto|]; eauto.
Qed.

Lemma cv_get_au (v : cview) c h b l u : cv_get v c h = Some (b, l) -> In u l -> In u (au v).
Proof.
  intros Hg Hin. destruct (cv_get_in _ _ _ _ Hg) as (st & chs & H1 & H2). apply in_au. exists c, st, chs, h, b, l. auto.
Qed.

Lemma una_set_perm (cw : cview) c h b0 l0 b l qid X Y :
  cv_get cw c h = Some (b0, l0) -> Permutation (msgs_from qid l0 ++ X) (msgs_from qid l ++ Y) ->
  Permutation (una cw qid ++ X) (una (cv_set c h (b, l) cw) qid ++ Y).
Proof.
  intros Hg Hp. destruct (una_cv_set c h (b0, l0) (b, l) cw qid Hg) as (A & B & E1 & E2). rewrite E1, E2. cbn [snd].
  rewrite <- !app_assoc. apply Permutation_app_head.
  transitivity (B ++ msgs_from qid l0 ++ X); [rewrite !app_assoc; apply Permutation_app_tail; apply Permutation_app_comm|].
  transitivity (B ++ msgs_from qid l ++ Y); [apply Permutation_app_head; exact Hp|].
  rewrite !app_assoc; apply Permutation_app_tail; apply Permutation_app_comm.
Qed.

(* a delivery's origin exists iff its queue object is alive *)
Lemma alive_in (qw : qview) qid : alive qw qid = true <-> exists n p, In (n, p) qw /\ p_id p = qid.
Proof.
  unfold alive. rewrite existsb_exists. split.
  - intros ([n p] & Hin & E). apply N.eqb_eq in E. eauto.
  - intros (n & p & Hin & E). exists (n, p). split; auto. apply N.eqb_eq. exact E.
Qed.
Lemma origin_alive cw qw nq u qid : VInv cw qw nq -> In u (au cw) -> from qid u = true -> origin_ok qw u = alive qw qid.
Proof.
  intros V Hin Hf. unfold from in Hf. apply N.eqb_eq in Hf. destruct (vi_uq _ _ _ V u Hin) as [_ Hn].
  destruct (alive qw qid) eqn:Ea.
  - apply alive_in in Ea. destruct Ea as (n & p & Hp & Ei). assert (n = u_queue u) by (apply (Hn n p); congruence). subst n.
    unfold origin_ok. rewrite (nodup_in_alookup seqb seqb_spec _ _ _ (vi_qkeys _ _ _ V) Hp). apply N.eqb_eq. congruence.
  - unfold origin_ok. destruct (alookup seqb (u_queue u) qw) as [p|] eqn:E; auto.
    destruct (p_id p =? u_qid u) eqn:Ei; auto. apply N.eqb_eq in Ei.
    assert (alive qw qid = true) by (apply alive_in; exists (u_queue u), p; split; [eapply alookup_in; eauto; apply seqb_spec|congruence]).
    congruence.
Qed.

Lemma msgs_from_origin cw qw nq l qid : VInv cw qw nq -> (forall u, In u l -> In u (au cw)) ->
  msgs_from qid (filter (origin_ok qw) l) = if alive qw qid then msgs_from qid l else [].
Proof.
  intros V Hl. unfold msgs_from. induction l as [|u t IH]; cbn; [destruct (alive qw qid); reflexivity|].
  assert (IH' := IH (fun u Hu => Hl u (or_intror Hu))). clear IH.
  destruct (from qid u) eqn:Ef.
  - rewrite (origin_alive _ _ _ _ _ V (Hl u (or_introl eq_refl)) Ef). destruct (alive qw qid); cbn; rewrite ?Ef; cbn; rewrite IH'; reflexivity.
  - destruct (origin_ok qw u); cbn; rewrite ?Ef; exact IH'.
Qed.
Lemma msgs_from_not_origin cw qw nq l qid : VInv cw qw nq -> (forall u, In u l -> In u (au cw)) ->
  msgs_from qid (filter (fun u => negb (origin_ok qw u)) l) = if alive qw qid then [] else msgs_from qid l.
Proof.
  intros V Hl. unfold msgs_from. induction l as [|u t IH]; cbn; [destruct (alive qw qid); reflexivity|].
  assert (IH' := IH (fun u Hu => Hl u (or_intror Hu))). clear IH.
  destruct (from qid u) eqn:Ef.
  - rewrite (origin_alive _ _ _ _ _ V (Hl u (or_introl eq_refl)) Ef). destruct (alive qw qid); cbn; rewrite ?Ef; cbn; rewrite IH'; reflexivity.
  - destruct (origin_ok qw u); cbn; rewrite ?Ef; exact IH'.
Qed.

(* permutations of message lists, by counting *)
Ltac perm_lia :=
  apply (Permutation_count_occ N.eq_dec);
  let x := fresh "x" in intros x;
  repeat match goal with H : Permutation ?a ?b |- _ =>
           let H' := fresh in pose proof (proj1 (Permutation_count_occ N.eq_dec a b) H x) as H'; clear H end;
  repeat (progress (rewrite ?count_occ_app in *; cbn [count_occ] in * ));
  repeat match goal with
         | |- context [N.eq_dec ?a ?b] => destruct (N.eq_dec a b)
         | H : context [N.eq_dec ?a ?b] |- _ => destruct (N.eq_dec a b)
         end; lia.

Lemma perm_lia_test (a b c d : list N) : Permutation (a ++ b) c -> Permutation (c ++ d) (d ++ b ++ a).
Proof. intros H. perm_lia. Qed.

(* ------------------------------------------------------------------ *)
(* queue operations *)
Lemma rdy_upd_perm (v : qview) q f p0 qid X Y : alookup seqb q v = Some p0 ->
  Permutation (qcontrib qid (f p0) ++ X) (qcontrib qid p0 ++ Y) ->
  Permutation (rdy (qv_upd q f v) qid ++ X) (rdy v qid ++ Y).
Proof.
  intros H Hp. unfold qv_upd. rewrite H. destruct (rdy_aset q p0 (f p0) v qid H) as (A & B & E1 & E2). rewrite E1, E2. perm_lia.
Qed.

Lemma adel_split {K V} (keqb : K -> K -> bool) (spec : forall a b, keqb a b = true <-> a = b) k (v0 : V) l :
  NoDup (map fst l) -> alookup keqb k l = Some v0 -> exists l1 l2, l = l1 ++ (k, v0) :: l2 /\ adel keqb k l = l1 ++ l2.
Proof.
  induction l as [|[k0 x0] t IH]; cbn; [discriminate|]. intros Hnd. inversion Hnd as [|? ? Hni Hnd']; subst.
  destruct (keqb k k0) eqn:E.
  - intros H. inversion H; subst. apply spec in E. subst. exists [], t. split; auto. cbn.
    apply adel_none. apply (alookup_none_notin keqb spec). exact Hni.
  - intros H. destruct (IH Hnd' H) as (l1 & l2 & E1 & E2). exists ((k0, x0) :: l1), l2. cbn. rewrite E1 at 1. rewrite E2. auto.
Qed.

Lemma rdy_adel (v : qview) q p0 qid : NoDup (map fst v) -> alookup seqb q v = Some p0 ->
  Permutation (rdy (adel seqb q v) qid ++ qcontrib qid p0) (rdy v qid).
Proof.
  intros Hnd H. destruct (adel_split seqb seqb_spec q p0 v Hnd H) as (l1 & l2 & E1 & E2). rewrite E2. rewrite E1 at 1.
  unfold rdy. rewrite !flat_map_app. cbn. fold (qcontrib qid p0). perm_lia.
Qed.

Lemma NoDup_map_sub {A B} (f : A -> B) l1 x l2 : NoDup (map f (l1 ++ x :: l2)) -> NoDup (map f (l1 ++ l2)).
Proof. rewrite !map_app. cbn. apply NoDup_remove_1. Qed.

Lemma VInv_adel cw (qw : qview) nq q : VInv cw qw nq -> VInv cw (adel seqb q qw) nq.
Proof.
  intros [A1 A2 A3 A4 A5 A6 A7 A8 A9 A10].
  assert (Hin : forall n p, In (n, p) (adel seqb q qw) -> In (n, p) qw) by (intros; eapply in_adel; eauto).
  constructor; auto.
  - rewrite adel_filter in *. clear -A3. induction qw as [|[k p] t IH]; cbn in *; auto. inversion A3; subst.
    destruct (negb (seqb q k)); cbn; auto. constructor; auto. intros Hx. apply H1. apply in_map_iff in Hx.
    destruct Hx as (e & E & He). apply filter_In in He. rewrite <- E. apply in_map. tauto.
  - unfold qids in *. rewrite adel_filter. clear -A4. induction qw as [|[k p] t IH]; cbn in *; auto. inversion A4; subst.
    destruct (negb (seqb q k)); cbn; auto. constructor; auto. intros Hx. apply H1. apply in_map_iff in Hx.
    destruct Hx as (e & E & He). apply filter_In in He. rewrite <- E. apply (in_map (fun e => p_id (snd e))). tauto.
  - intros n p H. eauto.
  - intros u Hu. destruct (A6 u Hu) as [B1 B2]. split; auto. intros n p H. eauto.
  - intros n p H. eauto.
  - intros n p H. eauto.
Qed.

(* a freshly declared queue *)
Lemma VInv_new_queue cw (qw : qview) nq q p :
  VInv cw qw nq -> alookup seqb q qw = None -> p_id p = nq -> p_active p = true ->
  (p_excl p = true -> opened cw (p_owner p) = true) ->
  VInv cw (aset seqb q p qw) (N.succ nq).
Proof.
  intros [A1 A2 A3 A4 A5 A6 A7 A8 A9 A10] Hn Hid Hact Hown.
  rewrite (aset_fresh seqb q p qw Hn).
  assert (Hin : forall n p', In (n, p') (qw ++ [(q, p)]) -> In (n, p') qw \/ (n = q /\ p' = p)).
  { intros n p' H. apply in_app_or in H. destruct H as [H|[H|[]]]; auto. inversion H; auto. }
  constructor; auto.
  - rewrite map_app. cbn. apply NoDup_snoc; auto. apply (alookup_none_notin seqb seqb_spec). exact Hn.
  - unfold qids. rewrite map_app. cbn. apply NoDup_snoc; auto. intros Hx. apply in_map_iff in Hx.
    destruct Hx as ([n p'] & E & He). cbn in E. pose proof (A5 _ _ He). lia.
  - intros n p' H. apply Hin in H. destruct H as [H|[-> ->]]; [pose proof (A5 _ _ H)|]; lia.
  - intros u Hu. destruct (A6 u Hu) as [B1 B2]. split; [lia|]. intros n p' H Hi. apply Hin in H. destruct H as [H|[-> ->]]; eauto. lia.
  - intros n p' H. apply Hin in H. destruct H as [H|[-> ->]]; eauto.
  - intros n p' H. apply Hin in H. destruct H as [H|[-> ->]]; eauto.
Qed.

(* unique ids: the ready list of an object *)
Lemma alive_false_rdy (v : qview) qid : alive v qid = false -> rdy v qid = [].
Proof.
  unfold alive, rdy. induction v as [|[n p] t IH]; cbn; auto. intros H. apply orb_false_iff in H. destruct H as [H1 H2].
  rewrite H1. cbn. auto.
Qed.
Lemma rdy_cons n0 p0 (t : qview) qid : rdy ((n0, p0) :: t) qid = qcontrib qid p0 ++ rdy t qid.
Proof. reflexivity. Qed.
Lemma rdy_unique (v : qview) n p qid : NoDup (qids v) -> In (n, p) v -> p_id p = qid -> rdy v qid = p_ready p.
Proof.
  unfold qids. induction v as [|[n0 p0] t IH]; [cbn; tauto|]. intros Hnd [H|H] Hid; rewrite rdy_cons; cbn in Hnd; inversion Hnd; subst.
  - inversion H; subst. unfold qcontrib. rewrite N.eqb_refl.
    assert (alive t (p_id p) = false).
    { apply Bool.not_true_is_false. intros Ha. apply alive_in in Ha. destruct Ha as (n' & p' & Hi & E). apply H2.
      rewrite <- E. apply (in_map (fun e => p_id (snd e)) _ _ Hi). }
    rewrite (alive_false_rdy _ _ H0). apply app_nil_r.
  - unfold qcontrib. destruct (p_id p0 =? p_id p) eqn:E.
    + apply N.eqb_eq in E. exfalso. apply H2. rewrite E. apply (in_map (fun e => p_id (snd e)) _ _ H).
    + cbn. apply IH; auto.
Qed.

(* ------------------------------------------------------------------ *)
(* a new, empty channel; a new connection *)
Definition cp0 : cp := ((false, false), []).

Lemma au_app (v1 v2 : cview) : au (v1 ++ v2) = au v1 ++ au v2.
Proof. unfold au. apply flat_map_app. Qed.

Lemma au_cv_add c h (v : cview) st chs : alookup N.eqb c v = Some (st, chs) -> alookup N.eqb h chs = None ->
  au (cv_set c h cp0 v) = au v.
Proof.
  intros Ec Eh. unfold cv_set. rewrite Ec.
  destruct (flat_map_aset_split N.eqb Neqb_spec (fun n : np => flat_map (fun he : N * cp => snd (snd he)) (snd n))
              c (st, chs) (st, aset N.eqb h cp0 chs) v Ec) as (A1 & B1 & E1 & E2).
  unfold au. etransitivity; [exact E2|]. etransitivity; [|symmetry; exact E1]. cbn [snd].
  rewrite (aset_fresh N.eqb h cp0 chs Eh). rewrite flat_map_app. cbn. rewrite !app_nil_r. reflexivity.
Qed.

Lemma VInv_cv_add cw qw nq c h st chs :
  VInv cw qw nq -> alookup N.eqb c cw = Some (st, chs) -> alookup N.eqb h chs = None -> (st <> StOpen -> h = 0) ->
  VInv (cv_set c h cp0 cw) qw nq.
Proof.
  intros [A1 A2 A3 A4 A5 A6 A7 A8 A9 A10] Ec Eh Hq.
  assert (Hin : In (c, (st, chs)) cw) by (eapply alookup_in; eauto; apply Neqb_spec).
  assert (Hnew : forall c' st' chs', In (c', (st', chs')) (cv_set c h cp0 cw) ->
            In (c', (st', chs')) cw \/ (c' = c /\ st' = st /\ chs' = chs ++ [(h, cp0)])).
  { intros c' st' chs' H. apply in_cv_set in H. destruct H as [H|(-> & chs0 & E0 & ->)]; auto.
    right. rewrite Ec in E0. inversion E0; subst. rewrite (aset_fresh N.eqb h cp0 chs0 Eh). auto. }
  constructor; auto.
  - rewrite keys_cv_set. exact A1.
  - intros c' st' chs' H. apply Hnew in H. destruct H as [H|(-> & -> & ->)]; eauto.
    rewrite map_app. cbn. apply NoDup_snoc; eauto. apply (alookup_none_notin N.eqb Neqb_spec). exact Eh.
  - intros u Hu. rewrite (au_cv_add _ _ _ _ _ Ec Eh) in Hu. auto.
  - intros c' st' chs' H Hst h' x' Hx. apply Hnew in H. destruct H as [H|(-> & -> & ->)]; eauto.
    apply in_app_or in Hx. destruct Hx as [Hx|[Hx|[]]]; eauto. inversion Hx; subst. auto.
  - intros n p Hp He. rewrite opened_cv_set. eauto.
  - intros c' st' chs' h' b' l' H Hx. apply Hnew in H. destruct H as [H|(-> & -> & ->)]; eauto.
    apply in_app_or in Hx. destruct Hx as [Hx|[Hx|[]]]; eauto. inversion Hx; subst. auto.
Qed.

Lemma VInv_new_conn cw qw nq c st :
  VInv cw qw nq -> alookup N.eqb c cw = None -> VInv (aset N.eqb c (st, [(0, cp0)]) cw) qw nq.
Proof.
  intros [A1 A2 A3 A4 A5 A6 A7 A8 A9 A10] Ec. rewrite (aset_fresh N.eqb c _ cw Ec).
  assert (Hnew : forall c' st' chs', In (c', (st', chs')) (cw ++ [(c, (st, [(0, cp0)]))]) ->
            In (c', (st', chs')) cw \/ (c' = c /\ st' = st /\ chs' = [(0, cp0)])).
  { intros c' st' chs' H. apply in_app_or in H. destruct H as [H|[H|[]]]; auto. inversion H; auto. }
  constructor; auto.
  - rewrite map_app. cbn. apply NoDup_snoc; auto. apply (alookup_none_notin N.eqb Neqb_spec). exact Ec.
  - intros c' st' chs' H. apply Hnew in H. destruct H as [H|(-> & -> & ->)]; eauto. cbn. constructor; [intros []|constructor].
  - intros u Hu. rewrite au_app in Hu. cbn in Hu. rewrite app_nil_r in Hu. auto.
  - intros c' st' chs' H Hst h' x' Hx. apply Hnew in H. destruct H as [H|(-> & -> & ->)]; eauto.
    destruct Hx as [Hx|[]]. inversion Hx; auto.
  - intros n p Hp He. pose proof (A8 n p Hp He) as Ho. unfold opened in *.
    destruct (alookup N.eqb (p_owner p) cw) as [[st0 chs0]|] eqn:E0; [|discriminate].
    assert (E : alookup N.eqb (p_owner p) (cw ++ [(c, (st, [(0, cp0)]))]) = Some (st0, chs0)).
    { clear -E0. induction cw as [|[k x] t IH]; cbn in *; [discriminate|]. destruct (p_owner p =? k); auto. }
    unfold np, cp in *. rewrite E. exact Ho.
  - intros c' st' chs' h' b' l' H Hx. apply Hnew in H. destruct H as [H|(-> & -> & ->)]; eauto.
    destruct Hx as [Hx|[]]. inversion Hx; subst. auto.
Qed.

(* publishing: the message is appended to every matched queue *)
Definition push_all (u : N) (qs : list string) (v : qview) : qview := fold_left (fun v qn => qv_upd qn (p_push u) v) qs v.

Lemma qshape_push_all u qs : forall v : qview, qshape (push_all u qs v) = qshape v.
Proof.
  unfold push_all. induction qs as [|qn t IH]; intros v; cbn; auto. rewrite IH. apply qshape_qv_upd. intros p. apply p_push_shape.
Qed.

Definition pushed (v : qview) (u qid : N) (qn : string) : list N :=
  match alookup seqb qn v with Some p => if p_id p =? qid then [u] else [] | None => [] end.

Lemma pushed_shape (v v' : qview) u qid qn : qshape v' = qshape v -> pushed v' u qid qn = pushed v u qid qn.
Proof.
  intros E. unfold pushed. pose proof (qshape_alookup v v' qn E) as H.
  destruct (alookup seqb qn v'), (alookup seqb qn v); cbn in H; try discriminate; auto. inversion H. rewrite H1. reflexivity.
Qed.

Lemma rdy_push_all u qid qs : forall v : qview, (forall n p, In (n, p) v -> p_active p = true) ->
  Permutation (rdy (push_all u qs v) qid) (rdy v qid ++ flat_map (pushed v u qid) qs).
Proof.
  induction qs as [|qn t IH]; intros v Hact; cbn [flat_map]; [unfold push_all; cbn; rewrite app_nil_r; reflexivity|].
  change (push_all u (qn :: t) v) with (push_all u t (qv_upd qn (p_push u) v)).
  assert (Es : qshape (qv_upd qn (p_push u) v) = qshape v) by (apply qshape_qv_upd; intros p; apply p_push_shape).
  rewrite (IH _ (active_shape _ _ Es Hact)).
  rewrite (flat_map_ext _ _ (fun qn0 => pushed_shape v _ u qid qn0 Es)).
  assert (H1 : Permutation (rdy (qv_upd qn (p_push u) v) qid ++ []) (rdy v qid ++ pushed v u qid qn)).
  { unfold pushed. destruct (alookup seqb qn v) as [p|] eqn:E.
    - eapply rdy_upd_perm; eauto. assert (Ha : p_active p = true) by (eapply Hact; eapply alookup_in; eauto; apply seqb_spec).
      unfold qcontrib, p_push. rewrite Ha. cbn. destruct (p_id p =? qid); perm_lia.
    - unfold qv_upd. rewrite E. reflexivity. }
  perm_lia.
Qed.

(* ------------------------------------------------------------------ *)
(* ending a connection *)
Lemma adel_aset_key {K V} (keqb : K -> K -> bool) (spec : forall a b, keqb a b = true <-> a = b) k (x : V) l :
  adel keqb k (aset keqb k x l) = adel keqb k l.
Proof.
  induction l as [|[k0 x0] t IH]; cbn.
  - rewrite (proj2 (spec k k) eq_refl). reflexivity.
  - destruct (keqb k k0) eqn:E; cbn.
    + rewrite (proj2 (spec k k) eq_refl). reflexivity.
    + rewrite E, IH. reflexivity.
Qed.
Lemma adel_cv_set c h x (v : cview) : adel N.eqb c (cv_set c h x v) = adel N.eqb c v.
Proof. unfold cv_set. destruct (alookup N.eqb c v) as [[st chs]|]; auto. apply (adel_aset_key N.eqb Neqb_spec). Qed.

Definition conn_au (e : np) : list unacked := flat_map (fun he : N * cp => snd (snd he)) (snd e).
Lemma au_adel (v : cview) c e : NoDup (map fst v) -> alookup N.eqb c v = Some e ->
  Permutation (au v) (au (adel N.eqb c v) ++ conn_au e).
Proof.
  intros Hnd H. destruct (adel_split N.eqb Neqb_spec c e v Hnd H) as (l1 & l2 & E1 & E2). rewrite E2. rewrite E1 at 1.
  rewrite !au_app. change (au ((c, e) :: l2)) with (conn_au e ++ au l2).
  rewrite <- !app_assoc. apply Permutation_app_head. apply Permutation_app_comm.
Qed.
Lemma in_au_adel (v : cview) c u : In u (au (adel N.eqb c v)) -> In u (au v).
Proof.
  intros H. apply in_au in H. destruct H as (c' & st & chs & h & b & l & H1 & H2 & H3). apply in_au.
  exists c', st, chs, h, b, l. split; auto. eapply in_adel; eauto.
Qed.

Lemma VInv_adel_conn cw qw nq c :
  VInv cw qw nq -> (forall n p, In (n, p) qw -> p_excl p = true -> p_owner p <> c) -> VInv (adel N.eqb c cw) qw nq.
Proof.
  intros [A1 A2 A3 A4 A5 A6 A7 A8 A9 A10] Hown.
  assert (Hin : forall e, In e (adel N.eqb c cw) -> In e cw) by (intros; eapply in_adel; eauto).
  constructor; auto.
  - rewrite adel_filter. clear -A1. induction cw as [|[k p] t IH]; cbn in *; auto. inversion A1; subst.
    destruct (negb (c =? k)); cbn; auto. constructor; auto. intros Hx. apply H1. apply in_map_iff in Hx.
    destruct Hx as (e & E & He). apply filter_In in He. rewrite <- E. apply in_map. tauto.
  - intros c' st chs H. eauto.
  - intros u Hu. apply A6. eapply in_au_adel; eauto.
  - intros c' st chs H. eauto.
  - intros n p Hp He. pose proof (A8 n p Hp He) as Ho. unfold opened in *. rewrite (alookup_adel N.eqb Neqb_spec).
    destruct (p_owner p =? c) eqn:E; auto. apply N.eqb_eq in E. exfalso. eapply Hown; eauto.
  - intros c' st chs h b l H. eauto.
Qed.

Lemma qids_unique_ops (v : qview) n p n' p' : NoDup (qids v) -> In (n, p) v -> In (n', p') v -> p_id p = p_id p' -> n = n'.
Proof.
  unfold qids. induction v as [|[k x] t IH]; cbn; [tauto|]. intros Hnd H1 H2 E. inversion Hnd; subst.
  destruct H1 as [H1|H1], H2 as [H2|H2].
  - congruence.
  - inversion H1; subst. exfalso. apply H3. rewrite E. apply (in_map (fun e => p_id (snd e)) _ _ H2).
  - inversion H2; subst. exfalso. apply H3. rewrite <- E. apply (in_map (fun e => p_id (snd e)) _ _ H1).
  - eauto.
Qed.

(* deleting a set of queues *)
Lemma fold_adel_filter names : forall v : qview,
  fold_left (fun v qn => adel seqb qn v) names v = filter (fun e => negb (existsb (seqb (fst e)) names)) v.
Proof.
  induction names as [|qn t IH]; intros v; cbn [fold_left existsb].
  - induction v as [|e v IHv]; cbn; auto. f_equal. exact IHv.
  - rewrite IH. rewrite adel_filter. induction v as [|e v IHv]; cbn; auto.
    replace (seqb (fst e) qn) with (seqb qn (fst e)) by (unfold seqb; apply String.eqb_sym).
    destruct (seqb qn (fst e)); cbn; auto.
    destruct (existsb (seqb (fst e)) t); cbn; auto. f_equal. exact IHv.
Qed.

Lemma VInv_fold_adel cw nq names : forall qw : qview, VInv cw qw nq -> VInv cw (fold_left (fun v qn => adel seqb qn v) names qw) nq.
Proof. induction names as [|qn t IH]; intros qw V; cbn; auto. apply IH. apply VInv_adel. exact V. Qed.

Lemma names_of_filter (P : string * qp -> bool) (v : qview) e : NoDup (map fst v) -> In e v ->
  existsb (seqb (fst e)) (map fst (filter P v)) = P e.
Proof.
  intros Hnd Hin. destruct (P e) eqn:Ep.
  - apply existsb_exists. exists (fst e). split; [|apply seqb_refl]. apply in_map. apply filter_In. auto.
  - apply Bool.not_true_is_false. intros Hx. apply existsb_exists in Hx. destruct Hx as (n & Hn & En). apply seqb_spec in En. subst n.
    apply in_map_iff in Hn. destruct Hn as (e' & Ef & He'). apply filter_In in He'. destruct He' as [He' Hp'].
    assert (e' = e).
    { destruct e as [k x], e' as [k' x']. cbn in Ef. subst k'.
      pose proof (nodup_in_alookup seqb seqb_spec _ _ _ Hnd Hin) as L1. pose proof (nodup_in_alookup seqb seqb_spec _ _ _ Hnd He') as L2. congruence. }
    subst. congruence.
Qed.

Lemma rdy_filter_gone (f : string * qp -> bool) (v : qview) n p qid :
  NoDup (qids v) -> In (n, p) v -> p_id p = qid -> f (n, p) = false -> rdy (filter f v) qid = [].
Proof.
  intros Hnd Hin Hid Hf. apply alive_false_rdy. apply Bool.not_true_is_false. intros Ha. apply alive_in in Ha.
  destruct Ha as (n' & p' & Hi & E). apply filter_In in Hi. destruct Hi as [Hi Hf'].
  assert (n' = n) by (eapply (qids_unique_ops v); eauto; congruence). subst n'.
  assert (p' = p).
  { clear -Hnd Hin Hi E Hid. unfold qids in Hnd. induction v as [|[k x] t IH]; cbn in *; [tauto|]. inversion Hnd; subst.
    destruct Hin as [G1|G1], Hi as [G2|G2]; try congruence.
    - inversion G1; subst. exfalso. apply H1. rewrite <- E. apply (in_map (fun e => p_id (snd e)) _ _ G2).
    - inversion G2; subst. exfalso. apply H1. rewrite E. apply (in_map (fun e => p_id (snd e)) _ _ G1).
    - auto. }
  subst. congruence.
Qed.
Lemma rdy_filter_other (f : string * qp -> bool) (v : qview) qid :
  (forall e, In e v -> f e = false -> p_id (snd e) <> qid) -> rdy (filter f v) qid = rdy v qid.
Proof.
  induction v as [|[n p] t IH]; intros H; [reflexivity|]. cbn [filter]. rewrite rdy_cons. destruct (f (n, p)) eqn:Ef.
  - rewrite rdy_cons. f_equal. apply IH. intros e He. apply H. right. exact He.
  - rewrite IH by (intros e He; apply H; right; exact He). unfold qcontrib.
    pose proof (H (n, p) (or_introl eq_refl) Ef) as Hne. cbn in Hne. apply N.eqb_neq in Hne. rewrite Hne. reflexivity.
Qed.

Lemma existsb_shape (v v' : qview) (g : N * bool * N * bool -> bool) : qshape v' = qshape v ->
  existsb (fun e => g (p_id (snd e), p_excl (snd e), p_owner (snd e), p_active (snd e))) v' =
  existsb (fun e => g (p_id (snd e), p_excl (snd e), p_owner (snd e), p_active (snd e))) v.
Proof.
  revert v'. induction v as [|[k p] t IH]; intros [|[k' p'] t'] E; cbn in *; try discriminate; auto.
  inversion E; subst.
  repeat match goal with
         | H : p_id _ = p_id _ |- _ => rewrite H; clear H
         | H : p_excl _ = p_excl _ |- _ => rewrite H; clear H
         | H : p_owner _ = p_owner _ |- _ => rewrite H; clear H
         | H : p_active _ = p_active _ |- _ => rewrite H; clear H
         end.
  f_equal. apply IH. auto.
Qed.

Lemma perm_flat_map_ext_in {A B} (f g : A -> list B) l : (forall x, In x l -> Permutation (f x) (g x)) -> Permutation (flat_map f l) (flat_map g l).
Proof.
  induction l as [|a t IH]; intros H; cbn; auto. apply Permutation_app; [apply H; left; reflexivity|]. apply IH. intros x Hx. apply H. right. exact Hx.
Qed.
