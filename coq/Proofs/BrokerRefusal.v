(* C16 core: a request the broker refuses changes nothing.
   For every state, connection, channel and method: if the handler returns an
   error then the state it returns is the state it was given and no frame was
   emitted before the error (the close frame is then produced by send_error,
   which touches only the offending channel's status). *)
From Coq Require Import List String NArith ZArith Bool Lia.
From RecordUpdate Require Import RecordUpdate.
Import ListNotations.
From GMQ Require Import Broker.Model.
Open Scope N_scope.

(* queue invariant needed for the refused consume: a queue with consumers has been consumed *)
Definition consumed_inv (s : state) : Prop :=
  forall qn qu, get_queue s qn = Some qu -> q_consumers qu <> [] -> q_wasconsumed qu = true.

Lemma handle_ack_err cfg s c h tag mult s' e :
  handle_ack cfg s c h tag mult = (s', Some e) -> s' = s /\ mult = false.
Proof.
  unfold handle_ack. destruct (get_chan s c h) as [ch|]; [|intros H; inversion H].
  destruct mult; [intros H; inversion H|].
  destruct (find _ _); intros H; inversion H; auto.
Qed.

Lemma handle_reject_err cfg s c h tag mult requeue cls mth s' e :
  handle_reject cfg s c h tag mult requeue cls mth = (s', Some e) -> s' = s /\ mult = false.
Proof.
  unfold handle_reject. destruct (get_chan s c h) as [ch|]; [|intros H; inversion H].
  destruct mult; [intros H; inversion H|].
  destruct (find _ _); intros H; inversion H; auto.
Qed.

Lemma vhost_delete_queue_refused s qn iu ie s' evs :
  vhost_delete_queue false s qn iu ie = (s', evs, None) -> s' = s /\ evs = [].
Proof.
  unfold vhost_delete_queue. destruct (get_queue s qn) as [qu|]; [|intros H; inversion H; auto].
  destruct (_ || _); [intros H; inversion H; auto|].
  destruct (fold_left _ _ _) as [s1 e1]. intros H; inversion H.
Qed.

Lemma set_queue_same s qn qu : get_queue s qn = Some qu -> set_queue s qn qu = s.
Proof.
  unfold get_queue, set_queue. intros H.
  assert (E : aset seqb qn qu (queues s) = queues s).
  { revert H. generalize (queues s). induction l as [|[k v] t IH]; simpl; [discriminate|].
    destruct (seqb qn k) eqn:Ek.
    - intros H; inversion H; subst. apply String.eqb_eq in Ek. subst. reflexivity.
    - intros H. rewrite IH; auto. }
  rewrite E. destruct s; reflexivity.
Qed.

Ltac break_match_hyp H :=
  match type of H with
  | context [match ?x with _ => _ end] =>
    lazymatch x with
    | context [match _ with _ => _ end] => fail
    | _ => destruct x eqn:?
    end
  end.

Theorem refusal_changes_nothing cfg fx s c h m s' evs e :
  fx_delete_checks_first fx = true ->
  consumed_inv s ->
  handle_method cfg fx s c h m = (s', evs, Some e) ->
  s' = s /\ evs = [].
Proof.
  intros Hfx Hinv H. unfold handle_method in H.
  destruct (get_chan s c h) as [ch|] eqn:Hch; [|inversion H].
  destruct m; unfold ok, refuse in H.
  all: try (repeat break_match_hyp H; inversion H; subst; auto; fail).
  - (* MQDelete *)
    repeat break_match_hyp H; try (inversion H; subst; auto; fail).
    all: rewrite Hfx in *; simpl in *.
    all: try match goal with Hd : vhost_delete_queue false _ _ _ _ = (_, _, None) |- _ =>
           apply vhost_delete_queue_refused in Hd; destruct Hd; subst end.
    all: inversion H; subst; auto.
  - (* MConsume *)
    repeat break_match_hyp H; try (inversion H; subst; auto; fail).
    inversion H; subst. split; auto.
    (* refused because the queue is busy: wasconsumed was already true *)
    match goal with Hq : queue_found s ?q = Some ?qu |- _ =>
      unfold queue_found in Hq; destruct (get_queue s q) as [qu0|] eqn:Hg; [|discriminate];
      destruct (q_active qu0); inversion Hq; subst end.
    match goal with Hb : (negb (Nat.eqb (List.length (q_consumers _)) 0) && _)%bool = true |- _ =>
      apply andb_prop in Hb; destruct Hb as [Hb _]; apply negb_true_iff in Hb; apply Nat.eqb_neq in Hb end.
    simpl in *.
    assert (Hw : q_wasconsumed q0 = true).
    { eapply Hinv; eauto. destruct (q_consumers q0); simpl in *; congruence. }
    assert (E : q0 <| q_wasconsumed := true |> = q0) by (destruct q0; simpl in *; subst; reflexivity).
    rewrite E. apply set_queue_same; auto.
  - (* MAck *)
    destruct (handle_ack cfg s c h tag mult) as [s1 e1] eqn:Ha. inversion H; subst.
    apply handle_ack_err in Ha. tauto.
  - (* MNack *)
    destruct (handle_reject cfg s c h tag mult requeue 60 120) as [s1 e1] eqn:Ha. inversion H; subst.
    apply handle_reject_err in Ha. tauto.
  - (* MReject *)
    destruct (handle_reject cfg s c h tag false requeue 60 90) as [s1 e1] eqn:Ha. inversion H; subst.
    apply handle_reject_err in Ha. tauto.
Qed.

From GMQ Require Import Proofs.BrokerFrames Proofs.BrokerQueueInv.

Lemma consumed_inv_of_QI s : allq qinv s -> consumed_inv s.
Proof.
  intros H qn qu Hg Hc. pose proof (allq_get _ _ _ _ H Hg) as (_ & _ & C & _). auto.
Qed.

Theorem C16_refusal_reachable :
  forall cfg fx ls c h m s' evs e,
    fx_delete_checks_first fx = true ->
    let s := fst (run cfg fx (init cfg) ls) in
    handle_method cfg fx s c h m = (s', evs, Some e) ->
    s' = s /\ evs = [].
Proof.
  intros cfg fx ls c h m s' evs e Hfx s H.
  eapply refusal_changes_nothing; eauto. apply consumed_inv_of_QI.
  apply QI_run; auto. apply QI_init.
Qed.

Lemma send_error_scope s c h e :
    let '(s', evs) := send_error s c h e in
    match e with
    | ChanErr code cls mth =>
        evs = [(c, h, SChannelClose code cls mth)] /\
        s' = upd_chan s c h (fun ch => set ch_status (fun _ => ChClosing) ch)
    | ConnErr code cls mth => evs = [(c, 0, SConnClose code cls mth)] /\ s' = s
    end.
Proof. destruct e; simpl; auto. Qed.

Lemma handle_ack_errcode cfg s c h tag mult s' code cls mth :
  handle_ack cfg s c h tag mult = (s', Some (ChanErr code cls mth)) -> (cls, mth) = (60, 80).
Proof.
  unfold handle_ack. destruct (get_chan s c h); [|intros H; inversion H].
  destruct mult; [intros H; inversion H|]. destruct (find _ _); intros H; inversion H; auto.
Qed.
Lemma handle_reject_errcode cfg s c h tag mult rq cls0 mth0 s' code cls mth :
  handle_reject cfg s c h tag mult rq cls0 mth0 = (s', Some (ChanErr code cls mth)) -> (cls, mth) = (cls0, mth0).
Proof.
  unfold handle_reject. destruct (get_chan s c h); [|intros H; inversion H].
  destruct mult; [intros H; inversion H|]. destruct (find _ _); intros H; inversion H; auto.
Qed.

Lemma chan_error_names_method cfg fx s c h m s' evs code cls mth :
    handle_method cfg fx s c h m = (s', evs, Some (ChanErr code cls mth)) ->
    (cls, mth) = meth_ids m.
Proof.
  intros H. unfold handle_method in H.
  destruct (get_chan s c h) as [ch|] eqn:Hch; [|inversion H].
  destruct m; unfold ok, refuse in H; cbn [meth_ids].
  all: try (repeat break_match_hyp H; inversion H; subst; auto; fail).
  - destruct (handle_ack cfg s c h tag mult) as [s1 e1] eqn:Ha. inversion H; subst. eapply handle_ack_errcode; eauto.
  - destruct (handle_reject cfg s c h tag mult requeue 60 120) as [s1 e1] eqn:Ha. inversion H; subst. eapply handle_reject_errcode; eauto.
  - destruct (handle_reject cfg s c h tag false requeue 60 90) as [s1 e1] eqn:Ha. inversion H; subst. eapply handle_reject_errcode; eauto.
Qed.
